import PPLV.Interval.ProofsSet
import PPLV.Interval.ProofsExact
/-!
# C12 — `difference_assign` (hence the repaired `refine_universal(NOT_EQUAL, ·)`) returns the
smallest interval containing the set difference (exact rounding, policies that store OPEN)
-/
set_option linter.unnecessarySeqFocus false
set_option linter.unusedSimpArgs false
set_option linter.unusedVariables false
namespace PPLV.Interval
open ExtRat (ninf fin pinf)

/-- a strictly weaker lower bound admits a point that the stronger one rejects -/
theorem lt_lower_lower_witness {p : Policy} {b1 b2 : Bound} (h1 : b1.value ≠ pinf)
    (ho1 : b1.value = ninf → b1.open = true) (ho2 : b2.value = ninf → b2.open = true)
    (h : lt p .lower b1 p .lower b2 = true) : ∃ a, lowerOk p b1 a ∧ ¬ lowerOk p b2 a := by
  obtain ⟨v1, o1⟩ := b1
  obtain ⟨v2, o2⟩ := b2
  obtain ⟨ss, so, mci, ci, mbe⟩ := p
  cases v1 with
  | pinf => simp at h1
  | ninf =>
    cases v2 with
    | ninf =>
      have e1 : o1 = true := ho1 rfl
      have e2 : o2 = true := ho2 rfl
      subst e1; subst e2
      cases ss <;> cases so <;> cases mci <;>
        simp [lt, isOpen, getOpen, isBoundaryInfinity, getSpecial, normalIsBoundaryInfinity, isMinusInfinity,
          isPlusInfinity, isReverseInfinity, ExtRat.le, ExtRat.lt] at h
    | pinf => exact ⟨0, by simp [lowerOk]⟩
    | fin q => exact ⟨q - 1, by cases so <;> cases o2 <;> simp [lowerOk, getOpen]⟩
  | fin q1 =>
    cases v2 with
    | ninf => cases ss <;> cases so <;> cases mci <;> cases o1 <;> cases o2 <;>
        simp [lt, isOpen, getOpen, isBoundaryInfinity, getSpecial, normalIsBoundaryInfinity, isMinusInfinity,
          isPlusInfinity, isReverseInfinity, ExtRat.le, ExtRat.lt] at h
    | pinf => exact ⟨q1 + 1, by cases so <;> cases o1 <;> simp [lowerOk, getOpen]⟩
    | fin q2 =>
      by_cases hq : q1 < q2
      · exact ⟨(q1 + q2) / 2, by
          cases so <;> cases o1 <;> cases o2 <;> simp [lowerOk, getOpen] <;> constructor <;> linarith⟩
      · refine ⟨q1, ?_⟩
        cases ss <;> cases so <;> cases mci <;> cases o1 <;> cases o2 <;>
          simp [lt, isOpen, getOpen, isBoundaryInfinity, getSpecial, normalIsBoundaryInfinity, isMinusInfinity,
            isPlusInfinity, isReverseInfinity, ExtRat.le, ExtRat.lt, lowerOk] at h ⊢ <;>
          first | linarith | (constructor <;> linarith) | skip

/-- a strictly weaker upper bound admits a point that the stronger one rejects -/
theorem lt_upper_upper_witness {p : Policy} {b1 b2 : Bound} (h2 : b2.value ≠ ninf)
    (ho1 : b1.value = pinf → b1.open = true) (ho2 : b2.value = pinf → b2.open = true)
    (h : lt p .upper b1 p .upper b2 = true) : ∃ a, upperOk p b2 a ∧ ¬ upperOk p b1 a := by
  obtain ⟨v1, o1⟩ := b1
  obtain ⟨v2, o2⟩ := b2
  obtain ⟨ss, so, mci, ci, mbe⟩ := p
  cases v2 with
  | ninf => simp at h2
  | pinf =>
    cases v1 with
    | pinf =>
      have e1 : o1 = true := ho1 rfl
      have e2 : o2 = true := ho2 rfl
      subst e1; subst e2
      cases ss <;> cases so <;> cases mci <;>
        simp [lt, isOpen, getOpen, isBoundaryInfinity, getSpecial, normalIsBoundaryInfinity, isMinusInfinity,
          isPlusInfinity, isReverseInfinity, ExtRat.le, ExtRat.lt] at h
    | ninf => exact ⟨0, by simp [upperOk]⟩
    | fin q => exact ⟨q + 1, by cases so <;> cases o1 <;> simp [upperOk, getOpen]⟩
  | fin q2 =>
    cases v1 with
    | pinf => cases ss <;> cases so <;> cases mci <;> cases o1 <;> cases o2 <;>
        simp [lt, isOpen, getOpen, isBoundaryInfinity, getSpecial, normalIsBoundaryInfinity, isMinusInfinity,
          isPlusInfinity, isReverseInfinity, ExtRat.le, ExtRat.lt] at h
    | ninf => exact ⟨q2 - 1, by cases so <;> cases o2 <;> simp [upperOk, getOpen]⟩
    | fin q1 =>
      by_cases hq : q1 < q2
      · exact ⟨(q1 + q2) / 2, by
          cases so <;> cases o1 <;> cases o2 <;> simp [upperOk, getOpen] <;> constructor <;> linarith⟩
      · refine ⟨q2, ?_⟩
        cases ss <;> cases so <;> cases mci <;> cases o1 <;> cases o2 <;>
          simp [lt, isOpen, getOpen, isBoundaryInfinity, getSpecial, normalIsBoundaryInfinity, isMinusInfinity,
            isPlusInfinity, isReverseInfinity, ExtRat.le, ExtRat.lt, upperOk] at h ⊢ <;>
          first | linarith | (constructor <;> linarith) | skip

/-- with exact rounding and a policy that stores OPEN, `complement` is the exact complement -/
theorem bComplement_lower_iff {p : Policy} (hso : p.storeOpen = true) {x : Bound} {c : Rat} :
    lowerOk p (bComplement p Rounding.id .lower p .upper x) c ↔ ¬ upperOk p x c := by
  obtain ⟨v, o⟩ := x
  obtain ⟨ss, so, mci, ci, mbe⟩ := p
  simp only at hso; subst hso
  cases v <;> cases ss <;> cases mci <;> cases o <;>
    simp [bComplement, getSpecial, setSignedInfinity, adjust_id, normalIsOpen, normalIsBoundaryInfinity,
      specialIsOpen, lowerOk, upperOk, getOpen, infOf]

theorem bComplement_upper_iff {p : Policy} (hso : p.storeOpen = true) {x : Bound} {c : Rat} :
    upperOk p (bComplement p Rounding.id .upper p .lower x) c ↔ ¬ lowerOk p x c := by
  obtain ⟨v, o⟩ := x
  obtain ⟨ss, so, mci, ci, mbe⟩ := p
  simp only at hso; subst hso
  cases v <;> cases ss <;> cases mci <;> cases o <;>
    simp [bComplement, getSpecial, setSignedInfinity, adjust_id, normalIsOpen, normalIsBoundaryInfinity,
      specialIsOpen, lowerOk, upperOk, getOpen, infOf]

/-- what `OK()` demands of an interval when infinities are not members: bounds on their own sides,
infinite bounds open -/
def Iv.OKReal (x : Iv) : Prop :=
  x.lo.value ≠ pinf ∧ x.hi.value ≠ ninf ∧ (x.lo.value = ninf → x.lo.open = true) ∧ (x.hi.value = pinf → x.hi.open = true)

/-- membership in the set difference -/
def inDiff (p : Policy) (x y : Iv) (s : Rat) : Prop := x.mem p s ∧ ¬ y.mem p s

/-- the interval hull of the difference is inside the result, for every policy and sound rounding -/
theorem differenceAssign_hull_subset {p : Policy} {R : Rounding} (hR : R.Sound) {x y : Iv} {c s1 s2 : Rat}
    (h1 : inDiff p x y s1) (h2 : inDiff p x y s2) (hc1 : s1 ≤ c) (hc2 : c ≤ s2) :
    (differenceAssign p R x y).mem p c :=
  ⟨lowerOk_up (differenceAssign_encloses hR h1.1 h1.2).1 hc1,
   upperOk_down (differenceAssign_encloses hR h2.1 h2.2).2 hc2⟩

/-- … and with exact rounding and stored OPEN bits the result is inside the hull: it is the
smallest interval containing the difference -/
theorem differenceAssign_subset_hull {p : Policy} (hso : p.storeOpen = true) {x y : Iv}
    (hx : x.OKReal) (hy : y.OKReal) {c : Rat}
    (h : (differenceAssign p Rounding.id x y).mem p c) :
    ∃ s1 s2, inDiff p x y s1 ∧ inDiff p x y s2 ∧ s1 ≤ c ∧ c ≤ s2 := by
  unfold differenceAssign at h
  dsimp only at h
  split_ifs at h with h0 hnl hnu hnu'
  · -- disjoint
    refine ⟨c, c, ⟨h, ?_⟩, ⟨h, ?_⟩, le_refl _, le_refl _⟩ <;>
    · intro hy'
      simp only [Bool.or_eq_true, gt] at h0
      rcases h0 with h0 | h0
      · exact lt_upper_lower_true h0 ⟨hy'.1, h.2⟩
      · exact lt_upper_lower_true h0 ⟨h.1, hy'.2⟩
  · exact absurd h (not_mem_empty p c)
  · -- the lower part of x is covered by y: the result is x above y
    have hno : ¬ upperOk p y.hi c := (bComplement_lower_iff hso).mp h.1
    have hnd : lt p .upper y.hi p .lower x.lo = false := by
      simp only [Bool.or_eq_true, gt, not_or, Bool.not_eq_true] at h0; exact h0.2
    obtain ⟨a0, ha1, ha2⟩ := lt_upper_lower_false hx.1 hy.2.1 hnd
    have hlt : a0 ≤ c := by
      by_contra hcon
      exact hno (upperOk_down ha2 (le_of_lt (not_le.mp hcon)))
    have hxc : x.mem p c := ⟨lowerOk_up ha1 hlt, h.2⟩
    have hyc : ¬ y.mem p c := fun hy' => hno hy'.2
    exact ⟨c, c, ⟨hxc, hyc⟩, ⟨hxc, hyc⟩, le_refl _, le_refl _⟩
  · have hno : ¬ lowerOk p y.lo c := (bComplement_upper_iff hso).mp h.2
    have hnd : lt p .upper x.hi p .lower y.lo = false := by
      simp only [Bool.or_eq_true, gt, not_or, Bool.not_eq_true] at h0; exact h0.1
    obtain ⟨a0, ha1, ha2⟩ := lt_upper_lower_false hy.1 hx.2.1 hnd
    have hlt : c ≤ a0 := by
      by_contra hcon
      exact hno (lowerOk_up ha1 (le_of_lt (not_le.mp hcon)))
    have hxc : x.mem p c := ⟨h.1, upperOk_down ha2 hlt⟩
    have hyc : ¬ y.mem p c := fun hy' => hno hy'.1
    exact ⟨c, c, ⟨hxc, hyc⟩, ⟨hxc, hyc⟩, le_refl _, le_refl _⟩
  · -- y strictly inside x: both sides of x stick out
    by_cases hyc : y.mem p c
    · have hl : lt p .lower x.lo p .lower y.lo = true := by simpa [ge] using hnl
      have hu : lt p .upper y.hi p .upper x.hi = true := by simpa [le, gt] using hnu'
      obtain ⟨s1, hs1, hs1'⟩ := lt_lower_lower_witness hx.1 hx.2.2.1 hy.2.2.1 hl
      obtain ⟨s2, hs2, hs2'⟩ := lt_upper_upper_witness hx.2.1 hy.2.2.2 hx.2.2.2 hu
      have h1c : s1 ≤ c := by
        by_contra hcon
        exact hs1' (lowerOk_up hyc.1 (le_of_lt (not_le.mp hcon)))
      have h2c : c ≤ s2 := by
        by_contra hcon
        exact hs2' (upperOk_down hyc.2 (le_of_lt (not_le.mp hcon)))
      exact ⟨s1, s2, ⟨⟨hs1, upperOk_down h.2 h1c⟩, fun hh => hs1' hh.1⟩,
        ⟨⟨lowerOk_up h.1 h2c, hs2⟩, fun hh => hs2' hh.2⟩, h1c, h2c⟩
    · exact ⟨c, c, ⟨h, hyc⟩, ⟨h, hyc⟩, le_refl _, le_refl _⟩

/-! ### `refine_universal(NOT_EQUAL, y)` as repaired -/

theorem refineUniversal_ne_eq (p : Policy) (R : Rounding) (x y : Iv) :
    refineUniversal p R x .ne y
      = if checkEmptyArg p y then x else if checkEmptyArg p x then x else differenceAssign p R x y := by
  simp only [refineUniversal]

theorem refineUniversal_ne_encloses {p : Policy} {R : Rounding} (hR : R.Sound) {x y : Iv} {a : Rat}
    (ha : x.mem p a) (hy : ¬ y.mem p a) : (refineUniversal p R x .ne y).mem p a := by
  rw [refineUniversal_ne_eq]
  split_ifs with h1 h2
  · exact ha
  · exact ha
  · exact differenceAssign_encloses hR ha hy

theorem refineUniversal_ne_hull {p : Policy} (hso : p.storeOpen = true) {x y : Iv}
    (hx : x.OKReal) (hy : y.OKReal) (c : Rat) :
    (refineUniversal p Rounding.id x .ne y).mem p c ↔
      ∃ s1 s2, inDiff p x y s1 ∧ inDiff p x y s2 ∧ s1 ≤ c ∧ c ≤ s2 := by
  constructor
  · intro h
    rw [refineUniversal_ne_eq] at h
    split_ifs at h with h1 h2
    · -- y is empty
      have hye : ∀ a, ¬ y.mem p a := fun a ha => by rw [checkEmptyArg_of_mem ha] at h1; simp at h1
      exact ⟨c, c, ⟨h, hye c⟩, ⟨h, hye c⟩, le_refl _, le_refl _⟩
    · rw [checkEmptyArg_of_mem h] at h2; simp at h2
    · exact differenceAssign_subset_hull hso hx hy h
  · rintro ⟨s1, s2, h1, h2, hc1, hc2⟩
    exact ⟨lowerOk_up (refineUniversal_ne_encloses Rounding.id_sound h1.1 h1.2).1 hc1,
      upperOk_down (refineUniversal_ne_encloses Rounding.id_sound h2.1 h2.2).2 hc2⟩

end PPLV.Interval
