import PPLV.Interval.ProofsMul
/-!
# C12 — enclosure for `Interval::div_assign` (the six-case table; the divisor does not straddle zero)

`a / b = a * (1/b)`: every entry is an entry of the multiplication table for the reciprocal of the
divisor, so the fourteen sign variants of `ProofsMulMath` are reused.
-/
set_option linter.unnecessarySeqFocus false
set_option linter.unusedSimpArgs false
set_option linter.unusedVariables false
namespace PPLV.Interval
open ExtRat (ninf fin pinf)

theorem sideOkV_weaken {t : BT} {v : ExtRat} {o o' : Bool} {a : Rat} (ho : o' = true → o = true)
    (h : sideOkV t v o a) : sideOkV t v o' a := by
  cases t
  · exact lowerOkV_weaken ho h
  · exact upperOkV_weaken ho h

/-- `div_assign_z`, by the kind of the two bounds -/
theorem bDivZ_sound {p p1 p2 : Policy} {R : Rounding} (hR : R.Sound) {tt t1 t2 : BT} {x1 x2 : Bound} {a b : Rat}
    (h1 : sideOk p1 t1 x1 a) (h2 : sideOk p2 t2 x2 b)
    (hF : ∀ u v, x1.value = fin u → x2.value = fin v → u ≠ 0 → v ≠ 0 →
      sideOkV tt (fin (u / v)) (getOpen p1 x1 || getOpen p2 x2) (a / b))
    (hZ : x1.value = fin 0 → sideOkV tt (fin 0) (getOpen p1 x1) (a / b))
    (hI : ∀ u, x1.value = fin u → u ≠ 0 → x2.value.isFin = false → sideOkV tt (fin 0) true (a / b)) :
    sideOk p tt (bDivZ p R tt p1 t1 x1 x1.value.sgn p2 t2 x2 x2.value.sgn) (a / b) := by
  unfold bDivZ
  rcases sideOk_cases h1 with ⟨hi1, hv1⟩ | ⟨hi1, u, hu⟩
  · -- x1 infinite
    have hs1 : (x1.value.sgn != 0) = true := by rw [hv1]; cases t1 <;> simp [infOf, ExtRat.sgn]
    simp only [hs1, ↓reduceIte]
    split_ifs
    · unfold bDiv
      simp only [isBoundaryInfinity_eq, hi1, ↓reduceIte]
      exact sideOk_setBoundaryInfinity p tt _ _
    · exact sideOk_setBoundaryInfinity p tt _ _
  · by_cases hu0 : u = 0
    · subst hu0
      have hs1 : (x1.value.sgn != 0) = false := by rw [hu, sgn_fin_ne_zero]; simp
      simp only [hs1, Bool.false_eq_true, ↓reduceIte]
      apply setZero_sound hR
      exact sideOkV_weaken (by simp; intro h _; exact h) (hZ hu)
    · have hs1 : (x1.value.sgn != 0) = true := by rw [hu, sgn_fin_ne_zero]; simp [hu0]
      simp only [hs1, ↓reduceIte]
      rcases sideOk_cases h2 with ⟨hi2, hv2⟩ | ⟨hi2, v, hv⟩
      · have hs2 : (x2.value.sgn != 0) = true := by rw [hv2]; cases t2 <;> simp [infOf, ExtRat.sgn]
        simp only [hs2, ↓reduceIte]
        unfold bDiv
        simp only [isBoundaryInfinity_eq, hi1, hi2, ↓reduceIte, Bool.false_eq_true]
        apply setZero_sound hR
        exact sideOkV_weaken (fun _ => rfl) (hI u hu hu0 (by rw [hv2]; cases t2 <;> rfl))
      · by_cases hv0 : v = 0
        · have hs2 : (x2.value.sgn != 0) = false := by rw [hv, sgn_fin_ne_zero]; simp [hv0]
          simp only [hs2, Bool.false_eq_true, ↓reduceIte]
          exact sideOk_setBoundaryInfinity p tt _ _
        · have hs2 : (x2.value.sgn != 0) = true := by rw [hv, sgn_fin_ne_zero]; simp [hv0]
          simp only [hs2, ↓reduceIte]
          unfold bDiv
          simp only [isBoundaryInfinity_eq, hi1, hi2, ↓reduceIte, Bool.false_eq_true]
          apply adjust_sound hR
          rw [normalIsOpen_fin hi1, normalIsOpen_fin hi2, hu, hv]
          simpa [ExtRat.div] using hF u v hu hv hu0 hv0

/-! ### reciprocals -/

theorem cmp_inv_pos {o : Bool} {x y : Rat} (hx : 0 < x) (h : cmp o x y) : cmp o (1 / y) (1 / x) := by
  cases o <;> simp only [cmp_true, cmp_false] at h ⊢
  · exact one_div_le_one_div_of_le hx h
  · exact one_div_lt_one_div_of_lt hx h

theorem cmp_inv_neg {o : Bool} {x y : Rat} (hy : y < 0) (h : cmp o x y) : cmp o (1 / y) (1 / x) := by
  have h' : cmp o (-y) (-x) := cmp_neg.mpr h
  have := cmp_inv_pos (neg_pos.mpr hy) h'
  have e1 : 1 / -x = -(1 / x) := by rw [one_div, one_div, inv_neg]
  have e2 : 1 / -y = -(1 / y) := by rw [one_div, one_div, inv_neg]
  rw [e1, e2] at this
  exact cmp_neg.mp this

theorem div_of_mul {tt : BT} {u v a b : Rat} {o1 o2 : Bool} (hu : u ≠ 0) (hv : v ≠ 0)
    (h : sideOkV tt (fin (u * (1 / v))) (zopen u o1 (1 / v) o2) (a * (1 / b))) :
    sideOkV tt (fin (u / v)) (o1 || o2) (a / b) := by
  have hv' : (1 : Rat) / v ≠ 0 := one_div_ne_zero hv
  rw [zopen_ne hu hv', mul_one_div, mul_one_div] at h
  exact h

theorem zdiv_LP {o : Bool} {a b : Rat} (h : cmp o 0 a) (hb : 0 < b) : cmp o 0 (a / b) := by
  cases o <;> simp only [cmp_true, cmp_false] at h ⊢
  · exact div_nonneg h hb.le
  · exact div_pos h hb
theorem zdiv_UP {o : Bool} {a b : Rat} (h : cmp o a 0) (hb : 0 < b) : cmp o (a / b) 0 := by
  cases o <;> simp only [cmp_true, cmp_false] at h ⊢
  · exact div_nonpos_of_nonpos_of_nonneg h hb.le
  · exact div_neg_of_neg_of_pos h hb
theorem zdiv_LN {o : Bool} {a b : Rat} (h : cmp o 0 a) (hb : b < 0) : cmp o (a / b) 0 := by
  cases o <;> simp only [cmp_true, cmp_false] at h ⊢
  · exact div_nonpos_of_nonneg_of_nonpos h hb.le
  · exact div_neg_of_pos_of_neg h hb
theorem zdiv_UN {o : Bool} {a b : Rat} (h : cmp o a 0) (hb : b < 0) : cmp o 0 (a / b) := by
  cases o <;> simp only [cmp_true, cmp_false] at h ⊢
  · exact div_nonneg_of_nonpos h hb.le
  · exact div_pos_of_neg_of_neg h hb

/-! ### the entries of the division table -/
section entries
variable {p : Policy} {R : Rounding} {a b : Rat}

/-- `y ≥ 0`: `xl/yu` as lower bound, `xl ≥ 0` -/
theorem dentry_PP_L (hR : R.Sound) {xl yu : Bound} (h1 : lowerOk p xl a) (h2 : upperOk p yu b)
    (hx : xl.value.sgn ≥ 0) (hb : 0 < b) :
    lowerOk p (bDivZ p R .lower p .lower xl xl.value.sgn p .upper yu yu.value.sgn) (a / b) := by
  obtain ⟨l1, hl1, hl10, ha0, _⟩ := lo_nonneg h1 hx
  apply bDivZ_sound (tt := .lower) (t1 := .lower) (t2 := .upper) hR h1 h2
  · intro u v hu hv hu0 hv0
    have e1 := fin_inj (hl1.symm.trans hu); rw [e1] at hl10
    have c2 := hi_cmp h2 hv
    have hvp : 0 < v := lt_of_lt_of_le hb (cmp_le c2)
    apply div_of_mul hu0 hv0
    exact (lowerOkV_fin_iff _ _ _).mpr
      (mulV1 hl10 (one_div_pos.mpr hvp).le (lo_cmp h1 hu) (cmp_inv_pos hb c2))
  · intro hz; exact (lowerOkV_fin_iff _ _ _).mpr (zdiv_LP (lo_cmp h1 hz) hb)
  · intro u hu hu0 _
    have e1 := fin_inj (hl1.symm.trans hu); rw [e1] at hl10
    have : 0 < a := lt_of_lt_of_le (lt_of_le_of_ne hl10 (Ne.symm hu0)) (cmp_le (lo_cmp h1 hu))
    exact (lowerOkV_fin_open _ _).mpr (div_pos this hb)

/-- `y ≥ 0`: `xu/yl` as upper bound, `x ≥ 0` -/
theorem dentry_PP_U (hR : R.Sound) {xu yl : Bound} (h1 : upperOk p xu a) (h2 : lowerOk p yl b)
    (ha0 : 0 ≤ a) (hy : yl.value.sgn ≥ 0) (hb : 0 < b) :
    upperOk p (bDivZ p R .upper p .upper xu xu.value.sgn p .lower yl yl.value.sgn) (a / b) := by
  obtain ⟨l2, hl2, hl20, _, _⟩ := lo_nonneg h2 hy
  apply bDivZ_sound (tt := .upper) (t1 := .upper) (t2 := .lower) hR h1 h2
  · intro u v hu hv hu0 hv0
    have e2 := fin_inj (hl2.symm.trans hv); rw [e2] at hl20
    have hvp : 0 < v := lt_of_le_of_ne hl20 (Ne.symm hv0)
    apply div_of_mul hu0 hv0
    exact (upperOkV_fin_iff _ _ _).mpr
      (mulV2 ha0 (one_div_pos.mpr hb).le (hi_cmp h1 hu) (cmp_inv_pos hvp (lo_cmp h2 hv)))
  · intro hz; exact (upperOkV_fin_iff _ _ _).mpr (zdiv_UP (hi_cmp h1 hz) hb)
  · intro u _ _ hinf; exact (isFin_false_ne hinf hl2).elim

/-- `y ≥ 0`: `xl/yl` as lower bound, `xl < 0` -/
theorem dentry_NP_L (hR : R.Sound) {xl yl : Bound} (h1 : lowerOk p xl a) (h2 : lowerOk p yl b)
    (hx : ¬ xl.value.sgn ≥ 0) (hy : yl.value.sgn ≥ 0) (hb : 0 < b) :
    lowerOk p (bDivZ p R .lower p .lower xl xl.value.sgn p .lower yl yl.value.sgn) (a / b) := by
  obtain ⟨l2, hl2, hl20, _, _⟩ := lo_nonneg h2 hy
  apply bDivZ_sound (tt := .lower) (t1 := .lower) (t2 := .lower) hR h1 h2
  · intro u v hu hv hu0 hv0
    have e2 := fin_inj (hl2.symm.trans hv); rw [e2] at hl20
    have hvp : 0 < v := lt_of_le_of_ne hl20 (Ne.symm hv0)
    apply div_of_mul hu0 hv0
    exact (lowerOkV_fin_iff _ _ _).mpr
      (mulV6 (lo_cmp h1 hu) (lo_neg_fin hx hu) (one_div_pos.mpr hb).le (cmp_inv_pos hvp (lo_cmp h2 hv)))
  · intro hz; rw [hz] at hx; exact (hx sgn_fin_zero_ge).elim
  · intro u _ _ hinf; exact (isFin_false_ne hinf hl2).elim

/-- `y ≥ 0`: `xu/yu` as upper bound, `xu ≤ 0` -/
theorem dentry_NP_U (hR : R.Sound) {xu yu : Bound} (h1 : upperOk p xu a) (h2 : upperOk p yu b)
    (hx : xu.value.sgn ≤ 0) (hb : 0 < b) :
    upperOk p (bDivZ p R .upper p .upper xu xu.value.sgn p .upper yu yu.value.sgn) (a / b) := by
  obtain ⟨u1, hu1, hu10, ha0, _⟩ := hi_nonpos h1 hx
  apply bDivZ_sound (tt := .upper) (t1 := .upper) (t2 := .upper) hR h1 h2
  · intro u v hu hv hu0 hv0
    have e1 := fin_inj (hu1.symm.trans hu); rw [e1] at hu10
    have c2 := hi_cmp h2 hv
    have hvp : 0 < v := lt_of_lt_of_le hb (cmp_le c2)
    apply div_of_mul hu0 hv0
    exact (upperOkV_fin_iff _ _ _).mpr
      (mulV7 (hi_cmp h1 hu) hu10 (cmp_inv_pos hb c2) (one_div_pos.mpr hvp).le)
  · intro hz; exact (upperOkV_fin_iff _ _ _).mpr (zdiv_UP (hi_cmp h1 hz) hb)
  · intro u hu hu0 _
    have e1 := fin_inj (hu1.symm.trans hu); rw [e1] at hu10
    have : a < 0 := lt_of_le_of_lt (cmp_le (hi_cmp h1 hu)) (lt_of_le_of_ne hu10 hu0)
    exact (upperOkV_fin_open _ _).mpr (div_neg_of_neg_of_pos this hb)

/-- `y ≥ 0`: `xu/yl` as upper bound, `xu > 0` -/
theorem dentry_SP_U (hR : R.Sound) {xu yl : Bound} (h1 : upperOk p xu a) (h2 : lowerOk p yl b)
    (hx : ¬ xu.value.sgn ≤ 0) (hy : yl.value.sgn ≥ 0) (hb : 0 < b) :
    upperOk p (bDivZ p R .upper p .upper xu xu.value.sgn p .lower yl yl.value.sgn) (a / b) := by
  obtain ⟨l2, hl2, hl20, _, _⟩ := lo_nonneg h2 hy
  apply bDivZ_sound (tt := .upper) (t1 := .upper) (t2 := .lower) hR h1 h2
  · intro u v hu hv hu0 hv0
    have e2 := fin_inj (hl2.symm.trans hv); rw [e2] at hl20
    have hvp : 0 < v := lt_of_le_of_ne hl20 (Ne.symm hv0)
    apply div_of_mul hu0 hv0
    exact (upperOkV_fin_iff _ _ _).mpr
      (mulV14 (hi_cmp h1 hu) (hi_pos_fin hx hu) (one_div_pos.mpr hb).le (cmp_inv_pos hvp (lo_cmp h2 hv)))
  · intro hz; rw [hz] at hx; exact (hx sgn_fin_zero_le).elim
  · intro u _ _ hinf; exact (isFin_false_ne hinf hl2).elim

/-- `y ≤ 0`: `xu/yu` as lower bound, `x ≥ 0` -/
theorem dentry_PN_L (hR : R.Sound) {xu yu : Bound} (h1 : upperOk p xu a) (h2 : upperOk p yu b)
    (ha0 : 0 ≤ a) (hy : yu.value.sgn ≤ 0) (hb : b < 0) :
    lowerOk p (bDivZ p R .lower p .upper xu xu.value.sgn p .upper yu yu.value.sgn) (a / b) := by
  obtain ⟨u2, hu2, hu20, _, _⟩ := hi_nonpos h2 hy
  apply bDivZ_sound (tt := .lower) (t1 := .upper) (t2 := .upper) hR h1 h2
  · intro u v hu hv hu0 hv0
    have e2 := fin_inj (hu2.symm.trans hv); rw [e2] at hu20
    have hvn : v < 0 := lt_of_le_of_ne hu20 hv0
    apply div_of_mul hu0 hv0
    exact (lowerOkV_fin_iff _ _ _).mpr
      (mulV3 ha0 (hi_cmp h1 hu) (cmp_inv_neg hvn (hi_cmp h2 hv)) (one_div_neg.mpr hvn))
  · intro hz; exact (lowerOkV_fin_iff _ _ _).mpr (zdiv_UN (hi_cmp h1 hz) hb)
  · intro u _ _ hinf; exact (isFin_false_ne hinf hu2).elim

/-- `y ≤ 0`: `xl/yl` as upper bound, `xl ≥ 0` -/
theorem dentry_PN_U (hR : R.Sound) {xl yl : Bound} (h1 : lowerOk p xl a) (h2 : lowerOk p yl b)
    (hx : xl.value.sgn ≥ 0) (hb : b < 0) :
    upperOk p (bDivZ p R .upper p .lower xl xl.value.sgn p .lower yl yl.value.sgn) (a / b) := by
  obtain ⟨l1, hl1, hl10, ha0, _⟩ := lo_nonneg h1 hx
  apply bDivZ_sound (tt := .upper) (t1 := .lower) (t2 := .lower) hR h1 h2
  · intro u v hu hv hu0 hv0
    have e1 := fin_inj (hl1.symm.trans hu); rw [e1] at hl10
    have c2 := lo_cmp h2 hv
    have hvn : v < 0 := lt_of_le_of_lt (cmp_le c2) hb
    apply div_of_mul hu0 hv0
    exact (upperOkV_fin_iff _ _ _).mpr
      (mulV4 (lo_cmp h1 hu) hl10 (cmp_inv_neg hb c2) (one_div_neg.mpr hvn).le)
  · intro hz; exact (upperOkV_fin_iff _ _ _).mpr (zdiv_LN (lo_cmp h1 hz) hb)
  · intro u hu hu0 _
    have e1 := fin_inj (hl1.symm.trans hu); rw [e1] at hl10
    have : 0 < a := lt_of_lt_of_le (lt_of_le_of_ne hl10 (Ne.symm hu0)) (cmp_le (lo_cmp h1 hu))
    exact (upperOkV_fin_open _ _).mpr (div_neg_of_pos_of_neg this hb)

/-- `y ≤ 0`: `xu/yl` as lower bound, `xu ≤ 0` -/
theorem dentry_NN_L (hR : R.Sound) {xu yl : Bound} (h1 : upperOk p xu a) (h2 : lowerOk p yl b)
    (hx : xu.value.sgn ≤ 0) (hb : b < 0) :
    lowerOk p (bDivZ p R .lower p .upper xu xu.value.sgn p .lower yl yl.value.sgn) (a / b) := by
  obtain ⟨u1, hu1, hu10, ha0, _⟩ := hi_nonpos h1 hx
  apply bDivZ_sound (tt := .lower) (t1 := .upper) (t2 := .lower) hR h1 h2
  · intro u v hu hv hu0 hv0
    have e1 := fin_inj (hu1.symm.trans hu); rw [e1] at hu10
    have c2 := lo_cmp h2 hv
    have hvn : v < 0 := lt_of_le_of_lt (cmp_le c2) hb
    apply div_of_mul hu0 hv0
    exact (lowerOkV_fin_iff _ _ _).mpr
      (mulV8 (hi_cmp h1 hu) hu10 (cmp_inv_neg hb c2) (one_div_neg.mpr hvn).le)
  · intro hz; exact (lowerOkV_fin_iff _ _ _).mpr (zdiv_UN (hi_cmp h1 hz) hb)
  · intro u hu hu0 _
    have e1 := fin_inj (hu1.symm.trans hu); rw [e1] at hu10
    have : a < 0 := lt_of_le_of_lt (cmp_le (hi_cmp h1 hu)) (lt_of_le_of_ne hu10 hu0)
    exact (lowerOkV_fin_open _ _).mpr (div_pos_of_neg_of_neg this hb)

/-- `y ≤ 0`: `xl/yu` as upper bound, `x ≤ 0` -/
theorem dentry_NN_U (hR : R.Sound) {xl yu : Bound} (h1 : lowerOk p xl a) (h2 : upperOk p yu b)
    (ha0 : a ≤ 0) (hy : yu.value.sgn ≤ 0) (hb : b < 0) :
    upperOk p (bDivZ p R .upper p .lower xl xl.value.sgn p .upper yu yu.value.sgn) (a / b) := by
  obtain ⟨u2, hu2, hu20, _, _⟩ := hi_nonpos h2 hy
  apply bDivZ_sound (tt := .upper) (t1 := .lower) (t2 := .upper) hR h1 h2
  · intro u v hu hv hu0 hv0
    have e2 := fin_inj (hu2.symm.trans hv); rw [e2] at hu20
    have hvn : v < 0 := lt_of_le_of_ne hu20 hv0
    apply div_of_mul hu0 hv0
    exact (upperOkV_fin_iff _ _ _).mpr
      (mulV11 (lo_cmp h1 hu) ha0 (cmp_inv_neg hvn (hi_cmp h2 hv)) (one_div_neg.mpr hvn))
  · intro hz; exact (upperOkV_fin_iff _ _ _).mpr (zdiv_LN (lo_cmp h1 hz) hb)
  · intro u _ _ hinf; exact (isFin_false_ne hinf hu2).elim

/-- `y ≤ 0`: `xu/yu` as lower bound, `xu > 0` -/
theorem dentry_SN_L (hR : R.Sound) {xu yu : Bound} (h1 : upperOk p xu a) (h2 : upperOk p yu b)
    (hx : ¬ xu.value.sgn ≤ 0) (hy : yu.value.sgn ≤ 0) (hb : b < 0) :
    lowerOk p (bDivZ p R .lower p .upper xu xu.value.sgn p .upper yu yu.value.sgn) (a / b) := by
  obtain ⟨u2, hu2, hu20, _, _⟩ := hi_nonpos h2 hy
  apply bDivZ_sound (tt := .lower) (t1 := .upper) (t2 := .upper) hR h1 h2
  · intro u v hu hv hu0 hv0
    have e2 := fin_inj (hu2.symm.trans hv); rw [e2] at hu20
    have hvn : v < 0 := lt_of_le_of_ne hu20 hv0
    apply div_of_mul hu0 hv0
    exact (lowerOkV_fin_iff _ _ _).mpr
      (mulV12 (hi_cmp h1 hu) (hi_pos_fin hx hu) (cmp_inv_neg hvn (hi_cmp h2 hv)) (one_div_neg.mpr hb).le)
  · intro hz; rw [hz] at hx; exact (hx sgn_fin_zero_le).elim
  · intro u _ _ hinf; exact (isFin_false_ne hinf hu2).elim

/-- `y ≤ 0`: `xl/yu` as upper bound, `xl < 0` -/
theorem dentry_SN_U (hR : R.Sound) {xl yu : Bound} (h1 : lowerOk p xl a) (h2 : upperOk p yu b)
    (hx : ¬ xl.value.sgn ≥ 0) (hy : yu.value.sgn ≤ 0) (hb : b < 0) :
    upperOk p (bDivZ p R .upper p .lower xl xl.value.sgn p .upper yu yu.value.sgn) (a / b) := by
  obtain ⟨u2, hu2, hu20, _, _⟩ := hi_nonpos h2 hy
  apply bDivZ_sound (tt := .upper) (t1 := .lower) (t2 := .upper) hR h1 h2
  · intro u v hu hv hu0 hv0
    have e2 := fin_inj (hu2.symm.trans hv); rw [e2] at hu20
    have hvn : v < 0 := lt_of_le_of_ne hu20 hv0
    apply div_of_mul hu0 hv0
    exact (upperOkV_fin_iff _ _ _).mpr
      (mulV13 (lo_cmp h1 hu) (lo_neg_fin hx hu) (cmp_inv_neg hvn (hi_cmp h2 hv)) (one_div_neg.mpr hb).le)
  · intro hz; rw [hz] at hx; exact (hx sgn_fin_zero_ge).elim
  · intro u _ _ hinf; exact (isFin_false_ne hinf hu2).elim

end entries

theorem mem_universe (p : Policy) (a : Rat) : (Iv.universe p).mem p a := by
  simp [Iv.universe, Iv.mem, setUnbounded, lowerOk, upperOk, infOf]

/-- `div_assign`: enclosure of every defined quotient -/
theorem divAssign_encloses {p : Policy} {R : Rounding} (hR : R.Sound) {x y : Iv} {a b : Rat}
    (ha : x.mem p a) (hb : y.mem p b) (hb0 : b ≠ 0) : (divAssign p R x y).mem p (a / b) := by
  unfold divAssign
  simp only [checkEmptyArg_of_mem ha, checkEmptyArg_of_mem hb, infinitySign_of_mem ha, infinitySign_of_mem hb,
    sgnB_lower_of_mem ha, sgnB_upper_of_mem ha, sgnB_lower_of_mem hb, sgnB_upper_of_mem hb,
    xus_of_mem ha, xus_of_mem hb, Bool.or_self, Bool.false_eq_true, ↓reduceIte, bne_self_eq_false]
  split_ifs with hz hyl hxl hxu hyu hxl' hxu'
  · -- y = [0,0]: no non-zero member
    exfalso
    simp only [Bool.and_eq_true, beq_iff_eq] at hz
    obtain ⟨_, _, _, h1, _⟩ := lo_nonneg hb.1 (by rw [hz.1])
    obtain ⟨_, _, _, h2, _⟩ := hi_nonpos hb.2 (by rw [hz.2])
    exact hb0 (le_antisymm h2 h1)
  · -- y ≥ 0, x ≥ 0
    obtain ⟨_, _, _, hb1, _⟩ := lo_nonneg hb.1 hyl
    have hbp : 0 < b := lt_of_le_of_ne hb1 (Ne.symm hb0)
    obtain ⟨_, _, _, ha0, _⟩ := lo_nonneg ha.1 hxl
    exact ⟨dentry_PP_L hR ha.1 hb.2 hxl hbp, dentry_PP_U hR ha.2 hb.1 ha0 hyl hbp⟩
  · -- y ≥ 0, x ≤ 0
    obtain ⟨_, _, _, hb1, _⟩ := lo_nonneg hb.1 hyl
    have hbp : 0 < b := lt_of_le_of_ne hb1 (Ne.symm hb0)
    exact ⟨dentry_NP_L hR ha.1 hb.1 hxl hyl hbp, dentry_NP_U hR ha.2 hb.2 hxu hbp⟩
  · -- y ≥ 0, x straddles
    obtain ⟨_, _, _, hb1, _⟩ := lo_nonneg hb.1 hyl
    have hbp : 0 < b := lt_of_le_of_ne hb1 (Ne.symm hb0)
    exact ⟨dentry_NP_L hR ha.1 hb.1 hxl hyl hbp, dentry_SP_U hR ha.2 hb.1 hxu hyl hbp⟩
  · -- y ≤ 0, x ≥ 0
    obtain ⟨_, _, _, hb1, _⟩ := hi_nonpos hb.2 hyu
    have hbn : b < 0 := lt_of_le_of_ne hb1 hb0
    obtain ⟨_, _, _, ha0, _⟩ := lo_nonneg ha.1 hxl'
    exact ⟨dentry_PN_L hR ha.2 hb.2 ha0 hyu hbn, dentry_PN_U hR ha.1 hb.1 hxl' hbn⟩
  · -- y ≤ 0, x ≤ 0
    obtain ⟨_, _, _, hb1, _⟩ := hi_nonpos hb.2 hyu
    have hbn : b < 0 := lt_of_le_of_ne hb1 hb0
    obtain ⟨_, _, _, ha0, _⟩ := hi_nonpos ha.2 hxu'
    exact ⟨dentry_NN_L hR ha.2 hb.1 hxu' hbn, dentry_NN_U hR ha.1 hb.2 ha0 hyu hbn⟩
  · -- y ≤ 0, x straddles
    obtain ⟨_, _, _, hb1, _⟩ := hi_nonpos hb.2 hyu
    have hbn : b < 0 := lt_of_le_of_ne hb1 hb0
    exact ⟨dentry_SN_L hR ha.2 hb.2 hxu' hyu hbn, dentry_SN_U hR ha.1 hb.2 hxl' hyu hbn⟩
  · exact mem_universe p _

end PPLV.Interval
