import PPLV.Interval.ProofsSet
/-!
# C12 — `refine_existential`: the refined interval keeps every member that is related to some
member of the argument
-/
set_option linter.unnecessarySeqFocus false
set_option linter.unusedSimpArgs false
set_option linter.unusedVariables false
namespace PPLV.Interval
open ExtRat (ninf fin pinf)

/-- the meaning of a `Relation_Symbol` -/
def Rel.holds : Rel → Rat → Rat → Prop
  | .eq, a, b => a = b
  | .lt, a, b => a < b
  | .le, a, b => a ≤ b
  | .gt, a, b => a > b
  | .ge, a, b => a ≥ b
  | .ne, a, b => a ≠ b

/-- `is_singleton()`: the only member is the common value of the two bounds -/
theorem eq_lower_upper_value {p : Policy} {lo hi : Bound} {b : Rat}
    (h : eq p .lower lo p .upper hi = true) (h1 : lowerOk p lo b) (h2 : upperOk p hi b) :
    lo.value = fin b ∧ hi.value = fin b := by
  obtain ⟨v1, o1⟩ := lo
  obtain ⟨v2, o2⟩ := hi
  obtain ⟨ss, so, mci, ci, mbe⟩ := p
  cases v1 <;> cases v2 <;> cases ss <;> cases so <;> cases mci <;> cases o1 <;> cases o2 <;>
    simp [eq, isOpen, getOpen, isBoundaryInfinity, getSpecial, normalIsBoundaryInfinity, isMinusInfinity,
      isPlusInfinity, isReverseInfinity, lowerOk, upperOk] at h h1 h2 ⊢ <;>
    (constructor <;> linarith)

theorem eq_same_value {p : Policy} {t : BT} {b1 b2 : Bound} {c : Rat}
    (h : eq p t b1 p t b2 = true) (h2 : b2.value = fin c) : b1.value = fin c := by
  obtain ⟨v1, o1⟩ := b1
  obtain ⟨v2, o2⟩ := b2
  obtain ⟨ss, so, mci, ci, mbe⟩ := p
  simp only at h2; subst h2
  cases t <;> cases v1 <;> cases ss <;> cases so <;> cases mci <;> cases o1 <;> cases o2 <;>
    simp_all [eq, isOpen, getOpen, isBoundaryInfinity, getSpecial, normalIsBoundaryInfinity, isMinusInfinity,
      isPlusInfinity, isReverseInfinity]

theorem removeInf_sound {p : Policy} {x : Iv} {a c : Rat} (h : x.mem p a) (hv : x.lo.value = fin c) (hc : c < a) :
    (removeInf p x).mem p a := by
  unfold removeInf
  split_ifs with hs
  · refine ⟨?_, h.2⟩
    simp [lowerOk, hv, getOpen, hs, hc]
  · exact h

theorem removeSup_sound {p : Policy} {x : Iv} {a c : Rat} (h : x.mem p a) (hv : x.hi.value = fin c) (hc : a < c) :
    (removeSup p x).mem p a := by
  unfold removeSup
  split_ifs with hs
  · refine ⟨h.1, ?_⟩
    simp [upperOk, hv, getOpen, hs, hc]
  · exact h

theorem upperOkV_trans_lt {v : ExtRat} {o : Bool} {a b : Rat} (h : upperOkV v o b) (hab : a < b) : upperOkV v true a := by
  cases v <;> cases o <;> simp_all <;> linarith
theorem upperOkV_trans_le {v : ExtRat} {o : Bool} {a b : Rat} (h : upperOkV v o b) (hab : a ≤ b) : upperOkV v o a := by
  cases v <;> cases o <;> simp_all <;> linarith
theorem lowerOkV_trans_lt {v : ExtRat} {o : Bool} {a b : Rat} (h : lowerOkV v o b) (hab : b < a) : lowerOkV v true a := by
  cases v <;> cases o <;> simp_all <;> linarith
theorem lowerOkV_trans_le {v : ExtRat} {o : Bool} {a b : Rat} (h : lowerOkV v o b) (hab : b ≤ a) : lowerOkV v o a := by
  cases v <;> cases o <;> simp_all <;> linarith

/-- `refine_existential(rel, x)`: every `a ∈ to` with `a rel b` for some `b ∈ x` stays -/
theorem refineExistential_encloses {p : Policy} {R : Rounding} (hR : R.Sound) {tv x : Iv} {rel : Rel} {a b : Rat}
    (ha : tv.mem p a) (hb : x.mem p b) (hrel : rel.holds a b) :
    (refineExistential p R tv rel x).mem p a := by
  unfold refineExistential
  rw [checkEmptyArg_of_mem hb]
  simp only [Bool.false_eq_true, ↓reduceIte]
  cases rel <;> simp only [Rel.holds] at hrel ⊢
  · -- eq
    subst hrel; exact intersectAssign_encloses hR ha hb
  · -- lt
    split_ifs
    · exact ha
    · refine ⟨ha.1, ?_⟩
      apply bAssign_sound (t := .upper) hR
      simpa [sideOkV] using upperOkV_trans_lt hb.2 hrel
  · -- le
    split_ifs
    · exact ha
    · refine ⟨ha.1, ?_⟩
      apply bAssign_sound (t := .upper) hR
      simpa [sideOkV] using upperOkV_trans_le hb.2 hrel
  · -- gt
    split_ifs
    · exact ha
    · refine ⟨?_, ha.2⟩
      apply bAssign_sound (t := .lower) hR
      simpa [sideOkV] using lowerOkV_trans_lt hb.1 hrel
  · -- ge
    split_ifs
    · exact ha
    · refine ⟨?_, ha.2⟩
      apply bAssign_sound (t := .lower) hR
      simpa [sideOkV] using lowerOkV_trans_le hb.1 hrel
  · -- ne: only the end points of a singleton argument are removed
    by_cases hsing : isSingleton p x = true
    · simp only [hsing, Bool.not_true, Bool.false_eq_true, ↓reduceIte, checkEmptyArg_of_mem ha]
      obtain ⟨hxl, hxu⟩ := eq_lower_upper_value hsing hb.1 hb.2
      have step1 : (if eq p .lower tv.lo p .lower x.lo = true then removeInf p tv else tv).mem p a := by
        split_ifs with he
        · have hv := eq_same_value he hxl
          have hle : b ≤ a := by
            have := ha.1; unfold lowerOk at this; rw [hv] at this; exact lowerOkV_fin_le this
          exact removeInf_sound ha hv (lt_of_le_of_ne hle (Ne.symm hrel))
        · exact ha
      have hhi : (if eq p .lower tv.lo p .lower x.lo = true then removeInf p tv else tv).hi = tv.hi := by
        split_ifs <;> simp [removeInf] <;> split_ifs <;> rfl
      generalize (if eq p .lower tv.lo p .lower x.lo = true then removeInf p tv else tv) = t1 at step1 hhi ⊢
      split_ifs with he
      · rw [hhi] at he
        have hv := eq_same_value he hxu
        have hle : a ≤ b := by
          have := ha.2; unfold upperOk at this; rw [hv] at this; exact upperOkV_fin_le this
        exact removeSup_sound step1 (by rw [hhi]; exact hv) (lt_of_le_of_ne hle hrel)
      · exact step1
    · simp only [hsing, Bool.not_false, ↓reduceIte]
      exact ha

end PPLV.Interval
