import PPLV.Interval.ProofsInt3
/-!
# C12 / native integers, part 4: `Boundary_NS` on native boundaries = the C12 model with `Rounding.native`

For every native boundary function `nbF` of `IntModel.lean` (C11 checked operation with the direction of
the side, then `adjust_boundary`) and operands that are values of the type:
`(nbF …).map toBound = some (bF Policy Rounding.native … toBound-of-operands)` — the code-shaped
integer boundary arithmetic and the abstract-rounding boundary arithmetic of `Model.lean` compute the
same bound (value, SPECIAL as infinity, OPEN bit), in particular `adjust_boundary` never reaches its
`default:` label.  (`div_assign`: `ProofsInt5.lean`.)
-/
set_option linter.unusedVariables false
set_option linter.unusedSimpArgs false
namespace PPLV.Interval.Native
open PPLV.Interval PPLV.Interval.ExtRat PPLV.Checked PPLV.Checked.Result

theorem isNan_cop (ty : IntTy) (v : Int) : ty.isNan cop v = false := by
  have : cop.hasNan = false := rfl
  simp [IntTy.isNan, this]
theorem isMinf_cop (ty : IntTy) (v : Int) : ty.isMinf cop v = false := by
  have : cop.hasInfinity = false := rfl
  simp [IntTy.isMinf, this]
theorem isPinf_cop (ty : IntTy) (v : Int) : ty.isPinf cop v = false := by
  have : cop.hasInfinity = false := rfl
  simp [IntTy.isPinf, this]

theorem chk_assign (ty f : IntTy) (tt : BT) (to0 x y : Int) :
    chk ty (.assign f cop) tt to0 x y = assignInt ty cop f cop to0 x (dirOf tt) := by
  simp [chk, IntOp.run, assignExt, extUnary, isNan_cop, isMinf_cop, isPinf_cop]
theorem chk_neg (ty : IntTy) (tt : BT) (to0 x y : Int) : chk ty .neg tt to0 x y = neg ty cop to0 x (dirOf tt) := by
  simp [chk, IntOp.run, negExt, isNan_cop, isMinf_cop, isPinf_cop]
theorem chk_add (ty : IntTy) (tt : BT) (to0 x y : Int) : chk ty .add tt to0 x y = add ty cop to0 x y (dirOf tt) := by
  simp [chk, IntOp.run, addExt, isNan_cop, isMinf_cop, isPinf_cop]
theorem chk_sub (ty : IntTy) (tt : BT) (to0 x y : Int) : chk ty .sub tt to0 x y = sub ty cop to0 x y (dirOf tt) := by
  simp [chk, IntOp.run, subExt, isNan_cop, isMinf_cop, isPinf_cop]
theorem chk_mul (ty : IntTy) (tt : BT) (to0 x y : Int) : chk ty .mul tt to0 x y = mul ty cop to0 x y (dirOf tt) := by
  simp [chk, IntOp.run, mulExt, mulInfClass, isNan_cop, isMinf_cop, isPinf_cop]
theorem chk_div (ty : IntTy) (tt : BT) (to0 x y : Int) : chk ty .div tt to0 x y = div ty cop to0 x y (dirOf tt) := by
  simp [chk, IntOp.run, divExt, divLikeExt, isNan_cop, isMinf_cop, isPinf_cop]

/-! ### reading a native boundary through the model's accessors -/

theorem getSpecial_toBound (p : Policy) (hp : p.storeSpecial = true) (t : BT) (x : NB) :
    getSpecial p t (x.toBound t) = x.special := by
  cases t <;> cases hs : x.special <;> simp [getSpecial, NB.toBound, hp, hs, infOf]

theorem isBoundaryInfinity_toBound (p : Policy) (hp : p.storeSpecial = true) (t : BT) (x : NB) :
    isBoundaryInfinity p t (x.toBound t) = x.special := by
  simp [isBoundaryInfinity, hp, getSpecial_toBound p hp]

theorem toBound_value_of_not_special (t : BT) (x : NB) (h : x.special = false) :
    (x.toBound t).value = fin (x.raw : Rat) := by simp [NB.toBound, h]

theorem nbSetBoundaryInfinity_toBound (p : Policy) (hp : p.storeSpecial = true) (tt : BT) (to0 : Int) (o : Bool) :
    (nbSetBoundaryInfinity p to0 o).toBound tt = setBoundaryInfinity p tt o := by
  cases o <;> cases hso : p.storeOpen <;>
    simp [nbSetBoundaryInfinity, specialSetBoundaryInfinity, setOpenBit, hp, hso, NB.toBound, setBoundaryInfinity]

/-! ### the boundary functions -/

variable {ty : IntTy} {p : Policy}

theorem nbSetZero_refines (ok : TyOK ty) (hp : p.storeSpecial = true) (tt : BT) (s : Bool) {to0 : Int}
    (h0 : ty.inRange to0) :
    (nbSetZero ty p tt s to0).map (NB.toBound tt) = some (setZero p (Rounding.native ty) tt s) := by
  unfold nbSetZero setZero
  rw [chk_assign]
  have hc := cmin_le_cmax ok.bits
  have ht : Tri ty cop (dirOf tt) to0 (assignInt ty cop constTy cop to0 0 (dirOf tt)) 0 := by
    have e : assignInt ty cop constTy cop to0 0 (dirOf tt) = (0, V_EQ) := by
      have hco : cop.checkOverflow = true := rfl
      have hcs : constTy.signed = true := rfl
      unfold assignInt
      cases hs : ty.signed <;> simp only [hcs]
      · unfold assignUnsignedSigned
        simp only [hco, emax_cop, Bool.true_and, decide_eq_true_eq]
        split_ifs <;> first | rfl | omega
      · unfold assignSignedSigned
        simp only [hco, emax_cop, emin_cop, Bool.true_and, decide_eq_true_eq]
        split_ifs <;> first | rfl | omega
    rw [e]
    exact tri_eq (finite_cop.mpr ⟨hc.1, hc.2⟩)
  have := finish_tri ok.bits p hp tt s ht
  simpa using this

theorem nbAssign_refines (ok : TyOK ty) (hp : p.storeSpecial = true) (tt t : BT) {x : NB} (hx : x.WF ty) (s : Bool)
    {to0 : Int} (h0 : ty.inRange to0) :
    (nbAssign ty p tt t x s to0).map (NB.toBound tt)
      = some (bAssign p (Rounding.native ty) tt p t (x.toBound t) s) := by
  unfold nbAssign bAssign
  rw [getSpecial_toBound p hp]
  cases hsp : x.special
  · simp only [Bool.false_eq_true, if_false]
    rw [chk_assign, toBound_value_of_not_special t x hsp]
    exact finish_tri ok.bits p hp tt _
      (assignInt_tri (wf_cop ok.bits) (wf_cop ok.bits) rfl (Or.inl (Nat.le_refl _)) _ h0 (finite_cop.mpr hx))
  · simp [nbSetBoundaryInfinity_toBound p hp]

/-- (an argument bound that is SPECIAL makes the code call `set_minus_infinity` / `set_plus_infinity` with
`store_special`, whose assertion `type == LOWER` resp. `UPPER` about the DESTINATION side never holds in
`complement`; `difference_assign` never gets there — the statement is for a finite argument bound) -/
theorem nbComplement_refines (ok : TyOK ty) (hp : p.storeSpecial = true) (tt t : BT) {x : NB} (hx : x.WF ty)
    (hsp : x.special = false) {to0 : Int} (h0 : ty.inRange to0) :
    (nbComplement ty p tt t x to0).map (NB.toBound tt)
      = some (bComplement p (Rounding.native ty) tt p t (x.toBound t)) := by
  unfold nbComplement bComplement
  rw [getSpecial_toBound p hp]
  simp only [hsp, Bool.false_eq_true, if_false]
  rw [chk_assign, toBound_value_of_not_special t x hsp]
  exact finish_tri ok.bits p hp tt _
    (assignInt_tri (wf_cop ok.bits) (wf_cop ok.bits) rfl (Or.inl (Nat.le_refl _)) _ h0 (finite_cop.mpr hx))

theorem nbNeg_refines (ok : TyOK ty) (hp : p.storeSpecial = true) (tt t : BT) {x : NB} (hx : x.WF ty)
    {to0 : Int} (h0 : ty.inRange to0) :
    (nbNeg ty p tt t x to0).map (NB.toBound tt) = some (bNeg p (Rounding.native ty) tt p t (x.toBound t)) := by
  unfold nbNeg bNeg
  rw [getSpecial_toBound p hp]
  cases hsp : x.special
  · simp only [Bool.false_eq_true, if_false]
    rw [chk_neg, toBound_value_of_not_special t x hsp]
    have := finish_tri ok.bits p hp tt (normalIsOpen p t (x.toBound t))
      (neg_tri (wf_cop ok.bits) ok.larger rfl (dirOf tt) h0 (finite_cop.mpr hx))
    simpa [ExtRat.neg] using this
  · simp [nbSetBoundaryInfinity_toBound p hp]

/-- the exact integer operation behind each of the three arithmetic boundary functions -/
theorem nbArith_refines (ok : TyOK ty) (hp : p.storeSpecial = true) (op : IntOp) (f : ExtRat → ExtRat → ExtRat)
    (g : Int → Int → Int)
    (hf : ∀ a b : Int, f (fin (a : Rat)) (fin (b : Rat)) = fin ((g a b : Int) : Rat))
    (hop : ∀ (tt : BT) (to0 x y : Int), ty.inRange to0 → ty.inRange x → ty.inRange y →
      Tri ty cop (dirOf tt) to0 (chk ty op tt to0 x y) (g x y))
    (tt t1 t2 : BT) {x1 x2 : NB} (h1 : x1.WF ty) (h2 : x2.WF ty) {to0 : Int} (h0 : ty.inRange to0) :
    (nbArith op ty p tt t1 x1 t2 x2 to0).map (NB.toBound tt)
      = some (bArith f p (Rounding.native ty) tt p t1 (x1.toBound t1) p t2 (x2.toBound t2)) := by
  unfold nbArith bArith
  simp only [isBoundaryInfinity_toBound p hp]
  cases hs1 : x1.special
  · cases hs2 : x2.special
    · simp only [Bool.false_eq_true, if_false]
      rw [toBound_value_of_not_special t1 x1 hs1, toBound_value_of_not_special t2 x2 hs2, hf]
      exact finish_tri ok.bits p hp tt _ (hop tt to0 x1.raw x2.raw h0 h1 h2)
    · simp [nbSetBoundaryInfinity_toBound p hp]
  · simp [nbSetBoundaryInfinity_toBound p hp]

theorem nbAdd_refines (ok : TyOK ty) (hp : p.storeSpecial = true) (tt t1 t2 : BT) {x1 x2 : NB} (h1 : x1.WF ty)
    (h2 : x2.WF ty) {to0 : Int} (h0 : ty.inRange to0) :
    (nbAdd ty p tt t1 x1 t2 x2 to0).map (NB.toBound tt)
      = some (bAdd p (Rounding.native ty) tt p t1 (x1.toBound t1) p t2 (x2.toBound t2)) := by
  unfold nbAdd bAdd
  exact nbArith_refines ok hp .add ExtRat.add (· + ·) (fun a b => by simp [ExtRat.add])
    (fun tt to0 x y h0 hx hy => by
      rw [chk_add]; exact add_tri (wf_cop ok.bits) ok.larger rfl _ h0 (finite_cop.mpr hx) hy) tt t1 t2 h1 h2 h0

theorem nbSub_refines (ok : TyOK ty) (hp : p.storeSpecial = true) (tt t1 t2 : BT) {x1 x2 : NB} (h1 : x1.WF ty)
    (h2 : x2.WF ty) {to0 : Int} (h0 : ty.inRange to0) :
    (nbSub ty p tt t1 x1 t2 x2 to0).map (NB.toBound tt)
      = some (bSub p (Rounding.native ty) tt p t1 (x1.toBound t1) p t2 (x2.toBound t2)) := by
  unfold nbSub bSub
  exact nbArith_refines ok hp .sub ExtRat.sub (· - ·) (fun a b => by simp [ExtRat.sub])
    (fun tt to0 x y h0 hx hy => by
      rw [chk_sub]; exact sub_tri (wf_cop ok.bits) ok.larger rfl _ h0 (finite_cop.mpr hx) hy) tt t1 t2 h1 h2 h0

theorem nbMul_refines (ok : TyOK ty) (hp : p.storeSpecial = true) (tt t1 t2 : BT) {x1 x2 : NB} (h1 : x1.WF ty)
    (h2 : x2.WF ty) {to0 : Int} (h0 : ty.inRange to0) :
    (nbMul ty p tt t1 x1 t2 x2 to0).map (NB.toBound tt)
      = some (bMul p (Rounding.native ty) tt p t1 (x1.toBound t1) p t2 (x2.toBound t2)) := by
  unfold nbMul bMul
  exact nbArith_refines ok hp .mul ExtRat.mul (· * ·) (fun a b => by simp [ExtRat.mul])
    (fun tt to0 x y h0 hx hy => by
      rw [chk_mul]; exact mul_tri (wf_cop ok.bits) ok.larger rfl _ h0 (finite_cop.mpr hx) (finite_cop.mpr hy))
    tt t1 t2 h1 h2 h0

theorem nbMulZ_refines (ok : TyOK ty) (hp : p.storeSpecial = true) (tt t1 t2 : BT) {x1 x2 : NB} (h1 : x1.WF ty)
    (h2 : x2.WF ty) (x1s x2s : Int) {to0 : Int} (h0 : ty.inRange to0) :
    (nbMulZ ty p tt t1 x1 x1s t2 x2 x2s to0).map (NB.toBound tt)
      = some (bMulZ p (Rounding.native ty) tt p t1 (x1.toBound t1) x1s p t2 (x2.toBound t2) x2s) := by
  unfold nbMulZ bMulZ
  split
  · split
    · exact nbMul_refines ok hp tt t1 t2 h1 h2 h0
    · exact nbSetZero_refines ok hp tt _ h0
  · exact nbSetZero_refines ok hp tt _ h0

end PPLV.Interval.Native
