import PPLV.Interval.Linearize
import PPLV.Interval.ProofsLF
import PPLV.Interval.ProofsDiv
/-!
# C12 — linear forms on a concrete store: the compound operators, `intervalize`, `relative_error`
-/
set_option linter.unnecessarySeqFocus false
set_option linter.unusedSimpArgs false
set_option linter.unusedVariables false
namespace PPLV.Interval
open ExtRat (ninf fin pinf)

/-- `v` is a value of the interval linear form `F` on the store `rho`: the value of one of its
instances -/
def lfEvalMem (p : Policy) (F : List Iv) (rho : Nat → Rat) (v : Rat) : Prop :=
  ∃ c, lfMem p F c ∧ v = lfEval c rho

/-! ### evaluation is linear in the coefficient vector -/

theorem dotFrom_vecAdd (rho : Nat → Rat) : ∀ (c d : List Rat) (k : Nat),
    lfEval.dotFrom rho (vecAdd c d) k = lfEval.dotFrom rho c k + lfEval.dotFrom rho d k
  | [], d, k => by simp [vecAdd, lfEval.dotFrom]
  | a :: c, [], k => by simp [vecAdd, lfEval.dotFrom]
  | a :: c, b :: d, k => by
    simp only [vecAdd, lfEval.dotFrom]
    rw [dotFrom_vecAdd rho c d (k + 1)]; ring

theorem lfEval_vecAdd (rho : Nat → Rat) (c d : List Rat) :
    lfEval (vecAdd c d) rho = lfEval c rho + lfEval d rho := by
  cases c with
  | nil => simp [vecAdd, lfEval]
  | cons a c =>
    cases d with
    | nil => simp [vecAdd, lfEval]
    | cons b d => simp only [vecAdd, lfEval]; rw [dotFrom_vecAdd]; ring

theorem dotFrom_map_neg (rho : Nat → Rat) : ∀ (d : List Rat) (k : Nat),
    lfEval.dotFrom rho (d.map (fun b => -b)) k = -lfEval.dotFrom rho d k
  | [], k => by simp [lfEval.dotFrom]
  | b :: d, k => by simp only [List.map, lfEval.dotFrom]; rw [dotFrom_map_neg rho d (k + 1)]; ring

theorem lfEval_map_neg (rho : Nat → Rat) (d : List Rat) : lfEval (d.map (fun b => -b)) rho = -lfEval d rho := by
  cases d with
  | nil => simp [lfEval]
  | cons b d => simp only [List.map, lfEval]; rw [dotFrom_map_neg]; ring

theorem dotFrom_vecSub (rho : Nat → Rat) : ∀ (c d : List Rat) (k : Nat),
    lfEval.dotFrom rho (vecSub c d) k = lfEval.dotFrom rho c k - lfEval.dotFrom rho d k
  | [], d, k => by simp [vecSub, lfEval.dotFrom, dotFrom_map_neg]
  | a :: c, [], k => by simp [vecSub, lfEval.dotFrom]
  | a :: c, b :: d, k => by
    simp only [vecSub, lfEval.dotFrom]
    rw [dotFrom_vecSub rho c d (k + 1)]; ring

theorem lfEval_vecSub (rho : Nat → Rat) (c d : List Rat) :
    lfEval (vecSub c d) rho = lfEval c rho - lfEval d rho := by
  cases c with
  | nil => rw [vecSub, lfEval_map_neg]; simp [lfEval]
  | cons a c =>
    cases d with
    | nil => simp [vecSub, lfEval]
    | cons b d => simp only [vecSub, lfEval]; rw [dotFrom_vecSub]; ring

theorem dotFrom_map_mul (rho : Nat → Rat) (n : Rat) : ∀ (c : List Rat) (k : Nat),
    lfEval.dotFrom rho (c.map (fun a => a * n)) k = lfEval.dotFrom rho c k * n
  | [], k => by simp [lfEval.dotFrom]
  | a :: c, k => by simp only [List.map, lfEval.dotFrom]; rw [dotFrom_map_mul rho n c (k + 1)]; ring

theorem lfEval_map_mul (rho : Nat → Rat) (n : Rat) (c : List Rat) :
    lfEval (c.map (fun a => a * n)) rho = lfEval c rho * n := by
  cases c with
  | nil => simp [lfEval]
  | cons a c => simp only [List.map, lfEval]; rw [dotFrom_map_mul]; ring

theorem dotFrom_map_div (rho : Nat → Rat) (n : Rat) : ∀ (c : List Rat) (k : Nat),
    lfEval.dotFrom rho (c.map (fun a => a / n)) k = lfEval.dotFrom rho c k / n
  | [], k => by simp [lfEval.dotFrom]
  | a :: c, k => by simp only [List.map, lfEval.dotFrom]; rw [dotFrom_map_div rho n c (k + 1)]; ring

theorem lfEval_map_div (rho : Nat → Rat) (n : Rat) (c : List Rat) :
    lfEval (c.map (fun a => a / n)) rho = lfEval c rho / n := by
  cases c with
  | nil => simp [lfEval]
  | cons a c => simp only [List.map, lfEval]; rw [dotFrom_map_div]; ring

/-! ### the compound operators enclose -/

theorem mem_point (p : Policy) (q : Rat) : (Iv.point q).mem p q := by
  simp [Iv.point, Iv.mem, lowerOk, upperOk, getOpen]

theorem mem_zero (p : Policy) : Iv.zero.mem p 0 := mem_point p 0

theorem mem_sym {p : Policy} {b t : Rat} (h : |t| ≤ b) : (Iv.sym b).mem p t := by
  have := abs_le.mp h
  simp [Iv.sym, Iv.mem, lowerOk, upperOk, getOpen, this.1, this.2]

theorem lfAddAssign_encloses {p : Policy} {R : Rounding} (hR : R.Sound) :
    ∀ {F G : List Iv} {c d : List Rat}, lfMem p F c → lfMem p G d → lfMem p (lfAddAssign p R F G) (vecAdd c d)
  | [], [], _, _, hF, hG => by cases hF; cases hG; simp only [lfAddAssign, vecAdd]; exact List.Forall₂.nil
  | x :: F, [], _, _, hF, hG => by cases hG; cases hF; simp only [lfAddAssign, vecAdd]; constructor <;> assumption
  | [], y :: G, _, _, hF, hG => by
    cases hF
    cases hG with
    | cons h2 t2 =>
      simp only [lfAddAssign, vecAdd]
      refine List.Forall₂.cons ?_ ?_
      · have := addAssign_encloses hR (mem_zero p) h2; simpa using this
      · have := lfAddAssign_encloses hR (F := []) (c := []) List.Forall₂.nil t2
        simp only [vecAdd] at this
        exact this
  | x :: F, y :: G, _, _, hF, hG => by
    cases hF with
    | cons h1 t1 =>
      cases hG with
      | cons h2 t2 =>
        simp only [lfAddAssign, vecAdd]
        exact List.Forall₂.cons (addAssign_encloses hR h1 h2) (lfAddAssign_encloses hR t1 t2)

theorem lfSubAssign_encloses {p : Policy} {R : Rounding} (hR : R.Sound) :
    ∀ {F G : List Iv} {c d : List Rat}, lfMem p F c → lfMem p G d → lfMem p (lfSubAssign p R F G) (vecSub c d)
  | [], [], _, _, hF, hG => by cases hF; cases hG; simp only [lfSubAssign, vecSub]; exact List.Forall₂.nil
  | x :: F, [], _, _, hF, hG => by cases hG; cases hF; simp only [lfSubAssign, vecSub]; constructor <;> assumption
  | [], y :: G, _, _, hF, hG => by
    cases hF
    cases hG with
    | cons h2 t2 =>
      simp only [lfSubAssign, vecSub, List.map]
      refine List.Forall₂.cons ?_ ?_
      · have := subAssign_encloses hR (mem_zero p) h2; simpa using this
      · have := lfSubAssign_encloses hR (F := []) (c := []) List.Forall₂.nil t2
        simp only [vecSub] at this
        exact this
  | x :: F, y :: G, _, _, hF, hG => by
    cases hF with
    | cons h1 t1 =>
      cases hG with
      | cons h2 t2 =>
        simp only [lfSubAssign, vecSub]
        exact List.Forall₂.cons (subAssign_encloses hR h1 h2) (lfSubAssign_encloses hR t1 t2)

section evalmem
variable {p : Policy} {R : Rounding} {rho : Nat → Rat}

theorem lfEvalMem_add (hR : R.Sound) {F G : List Iv} {a b : Rat}
    (hF : lfEvalMem p F rho a) (hG : lfEvalMem p G rho b) : lfEvalMem p (lfAddAssign p R F G) rho (a + b) := by
  obtain ⟨c, hc, rfl⟩ := hF
  obtain ⟨d, hd, rfl⟩ := hG
  exact ⟨vecAdd c d, lfAddAssign_encloses hR hc hd, (lfEval_vecAdd rho c d).symm⟩

theorem lfEvalMem_sub (hR : R.Sound) {F G : List Iv} {a b : Rat}
    (hF : lfEvalMem p F rho a) (hG : lfEvalMem p G rho b) : lfEvalMem p (lfSubAssign p R F G) rho (a - b) := by
  obtain ⟨c, hc, rfl⟩ := hF
  obtain ⟨d, hd, rfl⟩ := hG
  exact ⟨vecSub c d, lfSubAssign_encloses hR hc hd, (lfEval_vecSub rho c d).symm⟩

theorem lfEvalMem_neg (hR : R.Sound) {F : List Iv} {a : Rat}
    (hF : lfEvalMem p F rho a) : lfEvalMem p (lfNegate p R F) rho (-a) := by
  obtain ⟨c, hc, rfl⟩ := hF
  exact ⟨c.map (fun b => -b), lfNeg_encloses hR hc, (lfEval_map_neg rho c).symm⟩

theorem lfEvalMem_mul (hR : R.Sound) {F : List Iv} {N : Iv} {a n : Rat}
    (hF : lfEvalMem p F rho a) (hn : N.mem p n) : lfEvalMem p (lfMulAssign false p R F N) rho (a * n) := by
  obtain ⟨c, hc, rfl⟩ := hF
  exact ⟨c.map (fun a => a * n), lfScale_encloses hR hn hc, (lfEval_map_mul rho n c).symm⟩

theorem lfDiv_encloses (hR : R.Sound) {N : Iv} {n : Rat} (hn : N.mem p n) (hn0 : n ≠ 0) :
    ∀ {F : List Iv} {c : List Rat}, lfMem p F c → lfMem p (lfDivAssign p R F N) (c.map (fun a => a / n))
  | [], _, h => by cases h; exact List.Forall₂.nil
  | x :: F, _, h => by
    cases h with
    | cons h1 t1 => exact List.Forall₂.cons (divAssign_encloses hR h1 hn hn0) (lfDiv_encloses hR hn hn0 t1)

theorem lfEvalMem_div (hR : R.Sound) {F : List Iv} {N : Iv} {a n : Rat}
    (hF : lfEvalMem p F rho a) (hn : N.mem p n) (hn0 : n ≠ 0) : lfEvalMem p (lfDivAssign p R F N) rho (a / n) := by
  obtain ⟨c, hc, rfl⟩ := hF
  exact ⟨c.map (fun a => a / n), lfDiv_encloses hR hn hn0 hc, (lfEval_map_div rho n c).symm⟩

theorem lfEvalMem_addConst (hR : R.Sound) {F : List Iv} {N : Iv} {a n : Rat} (hne : F ≠ [])
    (hF : lfEvalMem p F rho a) (hn : N.mem p n) : lfEvalMem p (lfAddConst p R F N) rho (a + n) := by
  obtain ⟨c, hc, rfl⟩ := hF
  cases hc with
  | nil => exact absurd rfl hne
  | cons h1 t1 =>
    rename_i x c0 F' c'
    refine ⟨(c0 + n) :: c', ?_, ?_⟩
    · simp only [lfAddConst]; exact List.Forall₂.cons (addAssign_encloses hR h1 hn) t1
    · simp only [lfEval]; ring

theorem lfMem_replicate_zero (n : Nat) : lfMem p (List.replicate n Iv.zero) (List.replicate n 0) := by
  induction n with
  | zero => exact List.Forall₂.nil
  | succ n ih => simp only [List.replicate_succ]; exact List.Forall₂.cons (mem_zero p) ih

theorem dotFrom_replicate_zero (rho : Nat → Rat) (v : Rat) : ∀ (n k : Nat),
    lfEval.dotFrom rho (List.replicate n 0 ++ [v]) k = v * rho (k + n)
  | 0, k => by simp [lfEval.dotFrom]
  | n + 1, k => by
    simp only [List.replicate_succ, List.cons_append, lfEval.dotFrom]
    rw [dotFrom_replicate_zero rho v n (k + 1)]
    have : k + 1 + n = k + (n + 1) := by omega
    rw [this]; ring

theorem lfMem_replicate_zero_one (n : Nat) :
    lfMem p (List.replicate n Iv.zero ++ [Iv.point 1]) (List.replicate n 0 ++ [1]) := by
  induction n with
  | zero => exact List.Forall₂.cons (mem_point p 1) List.Forall₂.nil
  | succ n ih => simp only [List.replicate_succ, List.cons_append]; exact List.Forall₂.cons (mem_zero p) ih

theorem lfEvalMem_varForm (i : Nat) : lfEvalMem p (varForm i) rho (rho i) := by
  refine ⟨List.replicate (i + 1) 0 ++ [1], ?_, ?_⟩
  · exact lfMem_replicate_zero_one (i + 1)
  · simp only [List.replicate_succ, List.cons_append, lfEval]
    rw [dotFrom_replicate_zero]; simp

end evalmem

end PPLV.Interval
