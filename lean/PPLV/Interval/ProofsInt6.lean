import PPLV.Interval.ProofsInt3
/-!
# C12 / native integers: `adjust_boundary` is sound for the *meaning* of the result codes

`adjustBoundary_spec`: for ANY outcome `(stored, code)` of the checked layer that satisfies the clauses of
property C11 (`OKQ`: the code's relation between the exact result and the stored value is true, directed
rounding honoured — what `C11.op_holds` proves of every operation of the checked-integer model) and for
which `adjust_boundary` has a case label, the boundary it sets is a sound bound of the exact value, is
unbounded exactly when the code is of an infinity class, and carries OPEN only when that is justified.
-/
set_option linter.unusedVariables false
set_option linter.unusedSimpArgs false
namespace PPLV.Interval.Native
open PPLV.Interval PPLV.Interval.ExtRat PPLV.Checked PPLV.Checked.Result

theorem denote_cop (ty : IntTy) (v : Int) : ty.denote cop v = .fin v := by
  have h1 : cop.hasNan = false := rfl
  have h2 : cop.hasInfinity = false := rfl
  simp [IntTy.denote, IntTy.isNan, IntTy.isMinf, IntTy.isPinf, h1, h2]

theorem rrc_rel {r r' : Result} (h : resultRelationClass r = r') : r.rel = r'.rel := by
  rw [← h]; rfl
theorem rrc_cls {r r' : Result} (h : resultRelationClass r = r') : r.cls = r'.cls := by
  rw [← h]; rfl

/-- what a normal-class code says, read off `K4.holds` -/
theorem holds_normal {ty : IntTy} {dir : Dir} {out : Int × Result} {e : Rat}
    (hq : OKQ ty cop dir out (.fin e)) (hc : out.2.cls = .normal) :
    (out.2.rel.lt = true ∧ e < (out.1 : Rat)) ∨ (out.2.rel.eq = true ∧ e = (out.1 : Rat))
      ∨ (out.2.rel.gt = true ∧ (out.1 : Rat) < e) := by
  have h := hq.holds
  unfold K4.holds at h
  rw [hc] at h
  obtain ⟨_, _, hr⟩ := h
  rw [denote_cop] at hr
  unfold K4.relHolds at hr
  simp only [Ext.map, Ext.lt, Ext.eqv] at hr
  rcases hr with hr | hr | hr | hr
  · exact Or.inl hr
  · exact Or.inr (Or.inl hr)
  · exact Or.inr (Or.inr hr)
  · exact absurd hr.2 (by simp)

theorem adjustBoundary_spec_lower {ty : IntTy} (p : Policy) (hp : p.storeSpecial = true) (shrink : Bool)
    (out : Int × Result) (e : Rat) (hq : OKQ ty cop .down out (.fin e)) (nb : NB) (r' : Result)
    (h : adjustBoundary p .lower ⟨out.1, false, false⟩ shrink out.2 = some (nb, r')) :
    (∀ a, lowerOkV (fin e) shrink a → lowerOk p (nb.toBound .lower) a) ∧
    (nb.special = true ↔ out.2.cls ≠ .normal) ∧
    (nb.open = true → shrink = true ∨ nb.special = true ∨ (nb.raw : Rat) < e) := by
  unfold adjustBoundary at h
  simp only at h
  split_ifs at h with h1 h2 h3 h4
  · -- V_GT_MINUS_INFINITY: open = true, SPECIAL
    have hc := rrc_cls h1
    simp only [adjInfinity, hp, specialSetBoundaryInfinity, Bool.not_true, Bool.false_eq_true, if_false, if_true,
      Option.some.injEq, Prod.mk.injEq] at h
    obtain ⟨rfl, _⟩ := h
    cases hso : p.storeOpen <;>
      simp [lowerOk, NB.toBound, setOpenBit, hso, infOf, hc, V_GT_MINUS_INFINITY]
  · -- V_EQ_MINUS_INFINITY
    have hc := rrc_cls h2
    simp only [adjInfinity, hp, specialSetBoundaryInfinity, Bool.not_true, Bool.false_eq_true, if_false, if_true,
      Option.some.injEq, Prod.mk.injEq] at h
    obtain ⟨rfl, _⟩ := h
    cases hso : p.storeOpen <;> cases shrink <;>
      simp [lowerOk, NB.toBound, setOpenBit, hso, infOf, hc, V_EQ_MINUS_INFINITY]
  · -- strict relation: open = true
    have hc : out.2.cls = .normal := rrc_cls h3
    have hr := rrc_rel h3
    simp only [adjNormal, if_true, Option.some.injEq, Prod.mk.injEq] at h
    obtain ⟨rfl, _⟩ := h
    have hlt : (out.1 : Rat) < e := by
      rcases holds_normal hq hc with ⟨a, _⟩ | ⟨a, _⟩ | ⟨_, b⟩
      · rw [hr] at a; cases a
      · rw [hr] at a; cases a
      · exact b
    refine ⟨fun a ha => ?_, ?_, fun _ => Or.inr (Or.inr ?_)⟩
    · have := lowerOkV_fin_le ha
      cases hso : p.storeOpen <;> simp [lowerOk, NB.toBound, setOpenBit, getOpen, hso] <;> linarith
    · cases hso : p.storeOpen <;> simp [hc, setOpenBit, hso]
    · cases hso : p.storeOpen <;> simp [setOpenBit, hso] <;> exact hlt
  · -- non-strict relation: the caller's `open`
    have hc : out.2.cls = .normal := by rcases h4 with h4 | h4 <;> exact rrc_cls h4
    have hle : (out.1 : Rat) ≤ e := by
      rcases holds_normal hq hc with ⟨a, _⟩ | ⟨_, b⟩ | ⟨_, b⟩
      · rcases h4 with h4 | h4 <;> (rw [rrc_rel h4] at a; cases a)
      · exact b.ge
      · exact b.le
    simp only [adjNormal, Option.some.injEq, Prod.mk.injEq] at h
    obtain ⟨rfl, _⟩ := h
    refine ⟨fun a ha => ?_, ?_, fun ho => ?_⟩
    · cases hso : p.storeOpen <;> cases shrink <;>
        simp [lowerOk, NB.toBound, setOpenBit, getOpen, hso] at ha ⊢ <;> linarith
    · cases hso : p.storeOpen <;> cases shrink <;> simp [hc, setOpenBit, hso]
    · cases shrink
      · simp at ho
      · exact Or.inl rfl

theorem adjustBoundary_spec_upper {ty : IntTy} (p : Policy) (hp : p.storeSpecial = true) (shrink : Bool)
    (out : Int × Result) (e : Rat) (hq : OKQ ty cop .up out (.fin e)) (nb : NB) (r' : Result)
    (h : adjustBoundary p .upper ⟨out.1, false, false⟩ shrink out.2 = some (nb, r')) :
    (∀ a, upperOkV (fin e) shrink a → upperOk p (nb.toBound .upper) a) ∧
    (nb.special = true ↔ out.2.cls ≠ .normal) ∧
    (nb.open = true → shrink = true ∨ nb.special = true ∨ e < (nb.raw : Rat)) := by
  unfold adjustBoundary at h
  simp only at h
  split_ifs at h with h1 h2 h3 h4
  · -- V_LT_PLUS_INFINITY: open = true, SPECIAL
    have hc := rrc_cls h1
    simp only [adjInfinity, hp, specialSetBoundaryInfinity, Bool.not_true, Bool.false_eq_true, if_false, if_true,
      Option.some.injEq, Prod.mk.injEq] at h
    obtain ⟨rfl, _⟩ := h
    cases hso : p.storeOpen <;>
      simp [upperOk, NB.toBound, setOpenBit, hso, infOf, hc, V_LT_PLUS_INFINITY]
  · -- V_EQ_PLUS_INFINITY
    have hc := rrc_cls h2
    simp only [adjInfinity, hp, specialSetBoundaryInfinity, Bool.not_true, Bool.false_eq_true, if_false, if_true,
      Option.some.injEq, Prod.mk.injEq] at h
    obtain ⟨rfl, _⟩ := h
    cases hso : p.storeOpen <;> cases shrink <;>
      simp [upperOk, NB.toBound, setOpenBit, hso, infOf, hc, V_EQ_PLUS_INFINITY]
  · -- strict relation: open = true
    have hc : out.2.cls = .normal := rrc_cls h3
    have hr := rrc_rel h3
    simp only [adjNormal, if_true, Option.some.injEq, Prod.mk.injEq] at h
    obtain ⟨rfl, _⟩ := h
    have hlt : e < (out.1 : Rat) := by
      rcases holds_normal hq hc with ⟨_, b⟩ | ⟨a, _⟩ | ⟨a, _⟩
      · exact b
      · rw [hr] at a; cases a
      · rw [hr] at a; cases a
    refine ⟨fun a ha => ?_, ?_, fun _ => Or.inr (Or.inr ?_)⟩
    · have := upperOkV_fin_le ha
      cases hso : p.storeOpen <;> simp [upperOk, NB.toBound, setOpenBit, getOpen, hso] <;> linarith
    · cases hso : p.storeOpen <;> simp [hc, setOpenBit, hso]
    · cases hso : p.storeOpen <;> simp [setOpenBit, hso] <;> exact hlt
  · -- non-strict relation: the caller's `open`
    have hc : out.2.cls = .normal := by rcases h4 with h4 | h4 <;> exact rrc_cls h4
    have hle : e ≤ (out.1 : Rat) := by
      rcases holds_normal hq hc with ⟨_, b⟩ | ⟨_, b⟩ | ⟨a, _⟩
      · exact b.le
      · exact b.le
      · rcases h4 with h4 | h4 <;> (rw [rrc_rel h4] at a; cases a)
    simp only [adjNormal, Option.some.injEq, Prod.mk.injEq] at h
    obtain ⟨rfl, _⟩ := h
    refine ⟨fun a ha => ?_, ?_, fun ho => ?_⟩
    · cases hso : p.storeOpen <;> cases shrink <;>
        simp [upperOk, NB.toBound, setOpenBit, getOpen, hso] at ha ⊢ <;> linarith
    · cases hso : p.storeOpen <;> cases shrink <;> simp [hc, setOpenBit, hso]
    · cases shrink
      · simp at ho
      · exact Or.inl rfl

end PPLV.Interval.Native
