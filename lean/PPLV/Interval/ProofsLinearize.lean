import PPLV.Interval.ProofsRelErr
/-!
# C12 — soundness of `linearize` by structural induction over the expression tree
-/
set_option linter.unnecessarySeqFocus false
set_option linter.unusedSimpArgs false
set_option linter.unusedVariables false
namespace PPLV.Interval
open ExtRat (ninf fin pinf)

/-- the stated model of the analysed machine: every operation returns `fl(exact result)` with
`|fl v − v| ≤ eps·|v| + omega`.  It holds for round-to-nearest, upwards, downwards and towards zero
of a binary format with `eps = 2^-MANTISSA_BITS`, `omega` = the least positive denormal, as long as
the result does not overflow. -/
def FloatModel (fm : FFormat) (fl : Rat → Rat) : Prop := ∀ v, |fl v - v| ≤ fm.eps * |v| + fm.omega

/-- constants: the oracle's interval is bounded and contains the concrete value -/
def FExpr.WF (p : Policy) : FExpr → Prop
  | .const K k => isBounded p K = true ∧ K.mem p k
  | .var _ => True
  | .neg e => e.WF p
  | .add e1 e2 => e1.WF p ∧ e2.WF p
  | .sub e1 e2 => e1.WF p ∧ e2.WF p
  | .mul e1 e2 => e1.WF p ∧ e2.WF p
  | .div e1 e2 => e1.WF p ∧ e2.WF p

/-- what `linearize` hands on: a non-empty form without unbounded coefficients -/
def Good (p : Policy) (F : List Iv) : Prop := F ≠ [] ∧ lfOverflows p F = false

section
variable {p : Policy} {R : Rounding} {rho : Nat → Rat}

theorem isBounded_point (q : Rat) : isBounded p (Iv.point q) = true := by
  simp [isBounded, Iv.point, isBoundaryInfinity_eq, normalIsBoundaryInfinity]

theorem lfOverflows_varForm (i : Nat) : lfOverflows p (varForm i) = false := by
  unfold lfOverflows varForm
  simp only [List.any_append, List.any_replicate, List.any_cons, List.any_nil, Iv.zero, isBounded_point]
  simp

theorem varForm_ne_nil (i : Nat) : varForm i ≠ [] := by simp [varForm]

theorem lfAddAssign_ne_nil {F G : List Iv} (h : F ≠ []) : lfAddAssign p R F G ≠ [] := by
  cases F with
  | nil => exact absurd rfl h
  | cons x F => cases G <;> simp [lfAddAssign]

theorem lfSubAssign_ne_nil {F G : List Iv} (h : F ≠ []) : lfSubAssign p R F G ≠ [] := by
  cases F with
  | nil => exact absurd rfl h
  | cons x F => cases G <;> simp [lfSubAssign]

theorem relErr_go_ne_nil {d3 : Bool} {ep : Iv} : ∀ (cs : List Iv) (k : Nat) (r : List Iv), r ≠ [] →
    relativeError.go d3 p R ep cs k r ≠ []
  | [], _, r, h => by simpa [relativeError.go] using h
  | c :: cs, k, r, h => by
    simp only [relativeError.go]
    exact relErr_go_ne_nil cs (k + 1) _ (lfAddAssign_ne_nil h)

theorem relativeError_ne_nil {d3 : Bool} {eps : Rat} {F : List Iv} (h : F ≠ []) :
    relativeError d3 p R eps F ≠ [] := by
  cases F with
  | nil => exact absurd rfl h
  | cons x F =>
    simp only [relativeError]
    exact relErr_go_ne_nil F 0 _ (by simp [lfMulAssign])

theorem lfMulAssign_ne_nil {d3 : Bool} {F : List Iv} {n : Iv} (h : F ≠ []) : lfMulAssign d3 p R F n ≠ [] := by
  cases F <;> simp_all [lfMulAssign]

theorem lfDivAssign_ne_nil {F : List Iv} {n : Iv} (h : F ≠ []) : lfDivAssign p R F n ≠ [] := by
  cases F <;> simp_all [lfDivAssign]

theorem finishLin_good {fm : FFormat} {r F : List Iv} (hne : r ≠ []) (h : finishLin p R fm r = some F) : Good p F := by
  unfold finishLin at h
  simp only at h
  split_ifs at h with ho
  simp only [Option.some.injEq] at h
  subst h
  refine ⟨?_, by simpa using ho⟩
  cases r with
  | nil => exact absurd rfl hne
  | cons x r => simp [lfAddConst]

theorem finishLin_sound (hR : R.Sound) {fm : FFormat} (hom : 0 ≤ fm.omega) {r F : List Iv} {v e3 : Rat}
    (hne : r ≠ []) (hv : lfEvalMem p r rho v) (he : |e3| ≤ fm.omega) (h : finishLin p R fm r = some F) :
    lfEvalMem p F rho (v + e3) := by
  unfold finishLin at h
  simp only at h
  split_ifs at h with ho
  simp only [Option.some.injEq] at h
  subst h
  exact lfEvalMem_addConst hR hne hv (mem_sym he)

theorem split3 {T A B C : Rat} (hA : 0 ≤ A) (hB : 0 ≤ B) (hC : 0 ≤ C) (h : |T| ≤ A + B + C) :
    ∃ T1 T2 T3, T = T1 + T2 + T3 ∧ |T1| ≤ A ∧ |T2| ≤ B ∧ |T3| ≤ C := by
  obtain ⟨T12, T3, rfl, h12, h3⟩ := split2 (add_nonneg hA hB) hC h
  obtain ⟨T1, T2, rfl, h1, h2⟩ := split2 hA hB h12
  exact ⟨T1, T2, T3, rfl, h1, h2, h3⟩

/-- a divisor interval that passed the test "may divide by zero" has no zero member -/
theorem ne_zero_of_div_test {i2 : Iv} {b : Rat} (hb : i2.mem p b)
    (h : ((isBoundaryInfinity p .lower i2.lo || i2.lo.value.le (fin 0)) &&
          (isBoundaryInfinity p .upper i2.hi || (fin 0 : ExtRat).le i2.hi.value)) = false) : b ≠ 0 := by
  rintro rfl
  obtain ⟨⟨v1, o1⟩, ⟨v2, o2⟩⟩ := i2
  have h1 := hb.1
  have h2 := hb.2
  unfold lowerOk at h1
  unfold upperOk at h2
  simp only [isBoundaryInfinity_eq] at h
  cases v1 with
  | pinf => simp at h1
  | ninf =>
    cases v2 with
    | ninf => simp at h2
    | pinf => simp [normalIsBoundaryInfinity] at h
    | fin u =>
      have := upperOkV_fin_le h2
      simp [normalIsBoundaryInfinity, ExtRat.le, ExtRat.lt] at h
      linarith
  | fin l =>
    have hl := lowerOkV_fin_le h1
    cases v2 with
    | ninf => simp at h2
    | pinf =>
      simp [normalIsBoundaryInfinity, ExtRat.le, ExtRat.lt] at h
      linarith
    | fin u =>
      have hu := upperOkV_fin_le h2
      simp [normalIsBoundaryInfinity, ExtRat.le, ExtRat.lt] at h
      rcases le_or_gt l 0 with h0 | h0
      · have := h h0; linarith
      · linarith

end

/-! ### the induction -/

section main
variable {p : Policy} {R : Rounding} {fm : FFormat} {store : List Iv} {lfStore : Nat → Option (List Iv)}
  {rho : Nat → Rat} {fl : Rat → Rat}

/-- hypotheses shared by the two inductions -/
structure LinHyps (p : Policy) (R : Rounding) (fm : FFormat) (store : List Iv)
    (lfStore : Nat → Option (List Iv)) (rho : Nat → Rat) : Prop where
  sound : R.Sound
  eps_nonneg : 0 ≤ fm.eps
  omega_nonneg : 0 ≤ fm.omega
  /-- negating a bounded interval of the analyser type gives a bounded interval (formats are symmetric) -/
  neg_bounded : ∀ x : Iv, isBounded p x = true → isBounded p (negAssign p R x) = true
  /-- the concrete store is inside the abstract store -/
  store_mem : ∀ (k : Nat) (S : Iv), store[k]? = some S → S.mem p (rho k)
  /-- the linear-form abstract store is sound for the concrete store -/
  lfs_sound : ∀ (i : Nat) (L : List Iv), lfStore i = some L → L ≠ [] ∧ lfEvalMem p L rho (rho i)

theorem lfNegate_good (H : LinHyps p R fm store lfStore rho) {F : List Iv} (h : Good p F) : Good p (lfNegate p R F) := by
  obtain ⟨hne, hb⟩ := h
  refine ⟨by cases F <;> simp_all [lfNegate], ?_⟩
  unfold lfOverflows lfNegate at *
  rw [List.any_map]
  rw [List.any_eq_false] at hb ⊢
  intro x hx
  have := hb x hx
  simp only [Bool.not_eq_true', Bool.not_eq_false', Function.comp] at this ⊢
  have hb' := H.neg_bounded x (by simpa using this)
  rw [hb']; simp

theorem linearize_good (H : LinHyps p R fm store lfStore rho) :
    ∀ (e : FExpr) (F : List Iv), e.WF p → linearize false p R fm store lfStore e = some F → Good p F
  | .const K k, F, hw, h => by
    simp only [linearize, Option.some.injEq] at h; subst h
    exact ⟨by simp, by simp [lfOverflows, hw.1]⟩
  | .var i, F, hw, h => by
    simp only [linearize] at h
    cases hl : lfStore i with
    | none => rw [hl] at h; simp only [Option.some.injEq] at h; subst h; exact ⟨varForm_ne_nil i, lfOverflows_varForm i⟩
    | some L =>
      rw [hl] at h
      simp only at h
      split_ifs at h with ho
      simp only [Option.some.injEq] at h; subst h
      exact ⟨(H.lfs_sound i _ hl).1, by simpa using ho⟩
  | .neg e, F, hw, h => by
    simp only [linearize] at h
    cases he : linearize false p R fm store lfStore e with
    | none => rw [he] at h; simp at h
    | some r =>
      rw [he] at h; simp only [Option.some.injEq] at h; subst h
      exact lfNegate_good H (linearize_good H e r hw he)
  | .add e1 e2, F, hw, h => by
    simp only [linearize] at h
    cases h1 : linearize false p R fm store lfStore e1 with
    | none => rw [h1] at h; simp at h
    | some r =>
      rw [h1] at h; simp only at h
      cases h2 : linearize false p R fm store lfStore e2 with
      | none => rw [h2] at h; simp at h
      | some l2 =>
        rw [h2] at h; simp only at h
        have g1 := linearize_good H e1 r hw.1 h1
        exact finishLin_good (lfAddAssign_ne_nil (lfAddAssign_ne_nil (lfAddAssign_ne_nil g1.1))) h
  | .sub e1 e2, F, hw, h => by
    simp only [linearize] at h
    cases h1 : linearize false p R fm store lfStore e1 with
    | none => rw [h1] at h; simp at h
    | some r =>
      rw [h1] at h; simp only at h
      cases h2 : linearize false p R fm store lfStore e2 with
      | none => rw [h2] at h; simp at h
      | some l2 =>
        rw [h2] at h; simp only at h
        have g1 := linearize_good H e1 r hw.1 h1
        exact finishLin_good (lfAddAssign_ne_nil (lfSubAssign_ne_nil (lfAddAssign_ne_nil g1.1))) h
  | .mul e1 e2, F, hw, h => by
    simp only [linearize] at h
    cases h1 : linearize false p R fm store lfStore e1 with
    | none => rw [h1] at h; simp at h
    | some l1 =>
      rw [h1] at h; simp only at h
      cases hi1 : intervalize false p R store l1 with
      | none => rw [hi1] at h; simp at h
      | some i1 =>
        rw [hi1] at h; simp only at h
        cases h2 : linearize false p R fm store lfStore e2 with
        | none => rw [h2] at h; simp at h
        | some l2 =>
          rw [h2] at h; simp only at h
          cases hi2 : intervalize false p R store l2 with
          | none => rw [hi2] at h; simp at h
          | some i2 =>
            rw [hi2] at h; simp only at h
            have g1 := linearize_good H e1 l1 hw.1 h1
            have g2 := linearize_good H e2 l2 hw.2 h2
            split at h
            · simp at h
            · exact finishLin_good (lfAddAssign_ne_nil (lfMulAssign_ne_nil (relativeError_ne_nil g2.1))) h
            · exact finishLin_good (lfAddAssign_ne_nil (lfMulAssign_ne_nil (relativeError_ne_nil g1.1))) h
  | .div e1 e2, F, hw, h => by
    simp only [linearize] at h
    cases h2 : linearize false p R fm store lfStore e2 with
    | none => rw [h2] at h; simp at h
    | some l2 =>
      rw [h2] at h; simp only at h
      cases hi2 : intervalize false p R store l2 with
      | none => rw [hi2] at h; simp at h
      | some i2 =>
        rw [hi2] at h; simp only at h
        split_ifs at h with hz
        cases h1 : linearize false p R fm store lfStore e1 with
        | none => rw [h1] at h; simp at h
        | some r =>
          rw [h1] at h; simp only at h
          have g1 := linearize_good H e1 r hw.1 h1
          exact finishLin_good (lfAddAssign_ne_nil (lfDivAssign_ne_nil g1.1)) h

/-- **soundness of `linearize`**: if it answers `true` with the form `F`, the value computed by the
analysed machine on any concrete store inside the abstract store is a value of `F` on that store -/
theorem linearize_sound (H : LinHyps p R fm store lfStore rho) (hfl : FloatModel fm fl) :
    ∀ (e : FExpr) (F : List Iv), e.WF p → linearize false p R fm store lfStore e = some F →
      lfEvalMem p F rho (e.ceval fl rho)
  | .const K k, F, hw, h => by
    simp only [linearize, Option.some.injEq] at h; subst h
    exact ⟨[k], List.Forall₂.cons hw.2 List.Forall₂.nil, by simp [FExpr.ceval, lfEval, lfEval.dotFrom]⟩
  | .var i, F, hw, h => by
    simp only [linearize] at h
    cases hl : lfStore i with
    | none =>
      rw [hl] at h; simp only [Option.some.injEq] at h; subst h
      exact lfEvalMem_varForm i
    | some L =>
      rw [hl] at h
      simp only at h
      split_ifs at h with ho
      simp only [Option.some.injEq] at h; subst h
      exact (H.lfs_sound i _ hl).2
  | .neg e, F, hw, h => by
    simp only [linearize] at h
    cases he : linearize false p R fm store lfStore e with
    | none => rw [he] at h; simp at h
    | some r =>
      rw [he] at h; simp only [Option.some.injEq] at h; subst h
      exact lfEvalMem_neg H.sound (linearize_sound H hfl e r hw he)
  | .add e1 e2, F, hw, h => by
    simp only [linearize] at h
    cases h1 : linearize false p R fm store lfStore e1 with
    | none => rw [h1] at h; simp at h
    | some r =>
      rw [h1] at h; simp only at h
      cases h2 : linearize false p R fm store lfStore e2 with
      | none => rw [h2] at h; simp at h
      | some l2 =>
        rw [h2] at h; simp only at h
        have g1 := linearize_good H e1 r hw.1 h1
        have g2 := linearize_good H e2 l2 hw.2 h2
        have s1 := linearize_sound H hfl e1 r hw.1 h1
        have s2 := linearize_sound H hfl e2 l2 hw.2 h2
        set a := e1.ceval fl rho
        set b := e2.ceval fl rho
        have herr := hfl (a + b)
        have hbound : |fl (a + b) - (a + b)| ≤ fm.eps * |a| + fm.eps * |b| + fm.omega := by
          have := mul_le_mul_of_nonneg_left (abs_add_le a b) H.eps_nonneg
          linarith
        obtain ⟨e1', e2', e3, he, hb1, hb2, hb3⟩ := split3 (mul_nonneg H.eps_nonneg (abs_nonneg a))
          (mul_nonneg H.eps_nonneg (abs_nonneg b)) H.omega_nonneg hbound
        have r1 := relativeError_encloses H.sound H.eps_nonneg g1.2 s1 hb1
        have r2 := relativeError_encloses H.sound H.eps_nonneg g2.2 s2 hb2
        have step := lfEvalMem_add H.sound (lfEvalMem_add H.sound (lfEvalMem_add H.sound s1 r1) s2) r2
        have := finishLin_sound H.sound H.omega_nonneg
          (lfAddAssign_ne_nil (lfAddAssign_ne_nil (lfAddAssign_ne_nil g1.1))) step hb3 h
        have e : FExpr.ceval fl rho (.add e1 e2) = a + e1' + b + e2' + e3 := by
          simp only [FExpr.ceval]; linarith
        rw [e]; exact this
  | .sub e1 e2, F, hw, h => by
    simp only [linearize] at h
    cases h1 : linearize false p R fm store lfStore e1 with
    | none => rw [h1] at h; simp at h
    | some r =>
      rw [h1] at h; simp only at h
      cases h2 : linearize false p R fm store lfStore e2 with
      | none => rw [h2] at h; simp at h
      | some l2 =>
        rw [h2] at h; simp only at h
        have g1 := linearize_good H e1 r hw.1 h1
        have g2 := linearize_good H e2 l2 hw.2 h2
        have s1 := linearize_sound H hfl e1 r hw.1 h1
        have s2 := linearize_sound H hfl e2 l2 hw.2 h2
        set a := e1.ceval fl rho
        set b := e2.ceval fl rho
        have herr := hfl (a - b)
        have hbound : |fl (a - b) - (a - b)| ≤ fm.eps * |a| + fm.eps * |b| + fm.omega := by
          have := mul_le_mul_of_nonneg_left (abs_sub a b) H.eps_nonneg
          linarith
        obtain ⟨e1', e2', e3, he, hb1, hb2, hb3⟩ := split3 (mul_nonneg H.eps_nonneg (abs_nonneg a))
          (mul_nonneg H.eps_nonneg (abs_nonneg b)) H.omega_nonneg hbound
        have r1 := relativeError_encloses H.sound H.eps_nonneg g1.2 s1 hb1
        have r2 := relativeError_encloses H.sound H.eps_nonneg g2.2 s2 hb2
        have step := lfEvalMem_add H.sound (lfEvalMem_sub H.sound (lfEvalMem_add H.sound s1 r1) s2) r2
        have := finishLin_sound H.sound H.omega_nonneg
          (lfAddAssign_ne_nil (lfSubAssign_ne_nil (lfAddAssign_ne_nil g1.1))) step hb3 h
        have e : FExpr.ceval fl rho (.sub e1 e2) = a + e1' - b + e2' + e3 := by
          simp only [FExpr.ceval]; linarith
        rw [e]; exact this
  | .mul e1 e2, F, hw, h => by
    simp only [linearize] at h
    cases h1 : linearize false p R fm store lfStore e1 with
    | none => rw [h1] at h; simp at h
    | some l1 =>
      rw [h1] at h; simp only at h
      cases hi1 : intervalize false p R store l1 with
      | none => rw [hi1] at h; simp at h
      | some i1 =>
        rw [hi1] at h; simp only at h
        cases h2 : linearize false p R fm store lfStore e2 with
        | none => rw [h2] at h; simp at h
        | some l2 =>
          rw [h2] at h; simp only at h
          cases hi2 : intervalize false p R store l2 with
          | none => rw [hi2] at h; simp at h
          | some i2 =>
            rw [hi2] at h; simp only at h
            have g1 := linearize_good H e1 l1 hw.1 h1
            have g2 := linearize_good H e2 l2 hw.2 h2
            have s1 := linearize_sound H hfl e1 l1 hw.1 h1
            have s2 := linearize_sound H hfl e2 l2 hw.2 h2
            have m1 := intervalize_sound H.sound H.store_mem s1 hi1
            have m2 := intervalize_sound H.sound H.store_mem s2 hi2
            set a := e1.ceval fl rho
            set b := e2.ceval fl rho
            have herr := hfl (a * b)
            rw [abs_mul] at herr
            obtain ⟨e12, e3, he, hb12, hb3⟩ := split2
              (mul_nonneg H.eps_nonneg (mul_nonneg (abs_nonneg a) (abs_nonneg b))) H.omega_nonneg herr
            split at h
            · simp at h
            · -- the first operand is intervalized: [i1] * l2
              have ht : ∃ t, |t| ≤ fm.eps * |b| ∧ t * a = e12 := by
                by_cases ha : a = 0
                · refine ⟨0, by simpa using mul_nonneg H.eps_nonneg (abs_nonneg b), ?_⟩
                  rw [ha, abs_zero, zero_mul, mul_zero] at hb12
                  rw [zero_mul]; exact (abs_eq_zero.mp (le_antisymm hb12 (abs_nonneg _))).symm
                · refine ⟨e12 / a, ?_, div_mul_cancel₀ e12 ha⟩
                  have hpos : 0 < |a| := abs_pos.mpr ha
                  rw [abs_div, div_le_iff₀ hpos]
                  calc |e12| ≤ fm.eps * (|a| * |b|) := hb12
                    _ = fm.eps * |b| * |a| := by ring
              obtain ⟨t, htb, hta⟩ := ht
              have rr := relativeError_encloses H.sound H.eps_nonneg g2.2 s2 htb
              have step := lfEvalMem_add H.sound (lfEvalMem_mul H.sound rr m1) (lfEvalMem_mul H.sound s2 m1)
              have := finishLin_sound H.sound H.omega_nonneg
                (lfAddAssign_ne_nil (lfMulAssign_ne_nil (relativeError_ne_nil g2.1))) step hb3 h
              have e : FExpr.ceval fl rho (.mul e1 e2) = t * a + b * a + e3 := by
                simp only [FExpr.ceval]; rw [hta]; linarith
              rw [e]; exact this
            · -- the second operand is intervalized: l1 * [i2]
              have ht : ∃ t, |t| ≤ fm.eps * |a| ∧ t * b = e12 := by
                by_cases hb0 : b = 0
                · refine ⟨0, by simpa using mul_nonneg H.eps_nonneg (abs_nonneg a), ?_⟩
                  rw [hb0, abs_zero, mul_zero, mul_zero] at hb12
                  rw [zero_mul]; exact (abs_eq_zero.mp (le_antisymm hb12 (abs_nonneg _))).symm
                · refine ⟨e12 / b, ?_, div_mul_cancel₀ e12 hb0⟩
                  have hpos : 0 < |b| := abs_pos.mpr hb0
                  rw [abs_div, div_le_iff₀ hpos]
                  calc |e12| ≤ fm.eps * (|a| * |b|) := hb12
                    _ = fm.eps * |a| * |b| := by ring
              obtain ⟨t, htb, hta⟩ := ht
              have rr := relativeError_encloses H.sound H.eps_nonneg g1.2 s1 htb
              have step := lfEvalMem_add H.sound (lfEvalMem_mul H.sound rr m2) (lfEvalMem_mul H.sound s1 m2)
              have := finishLin_sound H.sound H.omega_nonneg
                (lfAddAssign_ne_nil (lfMulAssign_ne_nil (relativeError_ne_nil g1.1))) step hb3 h
              have e : FExpr.ceval fl rho (.mul e1 e2) = t * b + a * b + e3 := by
                simp only [FExpr.ceval]; rw [hta]; linarith
              rw [e]; exact this
  | .div e1 e2, F, hw, h => by
    simp only [linearize] at h
    cases h2 : linearize false p R fm store lfStore e2 with
    | none => rw [h2] at h; simp at h
    | some l2 =>
      rw [h2] at h; simp only at h
      cases hi2 : intervalize false p R store l2 with
      | none => rw [hi2] at h; simp at h
      | some i2 =>
        rw [hi2] at h; simp only at h
        split_ifs at h with hz
        cases h1 : linearize false p R fm store lfStore e1 with
        | none => rw [h1] at h; simp at h
        | some r =>
          rw [h1] at h; simp only at h
          have g1 := linearize_good H e1 r hw.1 h1
          have s1 := linearize_sound H hfl e1 r hw.1 h1
          have s2 := linearize_sound H hfl e2 l2 hw.2 h2
          have m2 := intervalize_sound H.sound H.store_mem s2 hi2
          set a := e1.ceval fl rho
          set b := e2.ceval fl rho
          have hb0 : b ≠ 0 := ne_zero_of_div_test m2 (by simpa using hz)
          have hposb : 0 < |b| := abs_pos.mpr hb0
          have herr := hfl (a / b)
          rw [abs_div] at herr
          obtain ⟨e12, e3, he, hb12, hb3⟩ := split2
            (mul_nonneg H.eps_nonneg (div_nonneg (abs_nonneg a) (abs_nonneg b))) H.omega_nonneg herr
          have htb : |e12 * b| ≤ fm.eps * |a| := by
            rw [abs_mul]
            calc |e12| * |b| ≤ fm.eps * (|a| / |b|) * |b| := mul_le_mul_of_nonneg_right hb12 hposb.le
              _ = fm.eps * |a| := by rw [mul_assoc, div_mul_cancel₀ _ hposb.ne']
          have rr := relativeError_encloses H.sound H.eps_nonneg g1.2 s1 htb
          have step := lfEvalMem_add H.sound (lfEvalMem_div H.sound s1 m2 hb0) (lfEvalMem_div H.sound rr m2 hb0)
          have := finishLin_sound H.sound H.omega_nonneg
            (lfAddAssign_ne_nil (lfDivAssign_ne_nil g1.1)) step hb3 h
          have e : FExpr.ceval fl rho (.div e1 e2) = a / b + e12 * b / b + e3 := by
            simp only [FExpr.ceval]; rw [mul_div_assoc, div_self hb0, mul_one]; linarith
          rw [e]; exact this

end main

end PPLV.Interval
