import PPLV.Interval.ProofsBasic
/-!
# C12 — the arithmetic facts behind the sign table of `Interval::mul_assign`

`zopen u o1 v o2` is the OPEN bit that `Boundary_NS::mul_assign_z` gives to the product of two
finite bounds `u` (open iff `o1`) and `v` (open iff `o2`).  Three master lemmas (`M1 M2 M3`),
fourteen sign variants, one per entry family of the table.
-/
set_option linter.unnecessarySeqFocus false
set_option linter.unusedSimpArgs false
set_option linter.unusedVariables false
namespace PPLV.Interval
open ExtRat (ninf fin pinf)

def zopen (u : Rat) (o1 : Bool) (v : Rat) (o2 : Bool) : Bool :=
  if u ≠ 0 then (if v ≠ 0 then o1 || o2 else o2) else o1 && (decide (v ≠ 0) || o2)

theorem zopen_comm (u : Rat) (o1 : Bool) (v : Rat) (o2 : Bool) : zopen u o1 v o2 = zopen v o2 u o1 := by
  unfold zopen; by_cases hu : u = 0 <;> by_cases hv : v = 0 <;> cases o1 <;> cases o2 <;> simp [hu, hv]
theorem zopen_neg_left (u : Rat) (o1 : Bool) (v : Rat) (o2 : Bool) : zopen (-u) o1 v o2 = zopen u o1 v o2 := by
  unfold zopen; simp
theorem zopen_neg_right (u : Rat) (o1 : Bool) (v : Rat) (o2 : Bool) : zopen u o1 (-v) o2 = zopen u o1 v o2 := by
  unfold zopen; simp

/-- strict-or-not comparison driven by a flag -/
def cmp (o : Bool) (x y : Rat) : Prop := if o then x < y else x ≤ y

@[simp] theorem cmp_true (x y : Rat) : cmp true x y ↔ x < y := by simp [cmp]
@[simp] theorem cmp_false (x y : Rat) : cmp false x y ↔ x ≤ y := by simp [cmp]
theorem cmp_le {o : Bool} {x y : Rat} (h : cmp o x y) : x ≤ y := by cases o <;> simp at h <;> linarith
theorem cmp_neg {o : Bool} {x y : Rat} : cmp o (-x) (-y) ↔ cmp o y x := by cases o <;> simp
theorem lowerOkV_fin_iff (q : Rat) (o : Bool) (a : Rat) : lowerOkV (fin q) o a ↔ cmp o q a := by cases o <;> simp
theorem upperOkV_fin_iff (q : Rat) (o : Bool) (a : Rat) : upperOkV (fin q) o a ↔ cmp o a q := by cases o <;> simp

/-- M1: both bounds on the inner side of non-negative operands -/
theorem mulM1 {u v a b : Rat} {o1 o2 : Bool} (hu : 0 ≤ u) (hv : 0 ≤ v)
    (ha : cmp o1 u a) (hb : cmp o2 v b) : cmp (zopen u o1 v o2) (u * v) (a * b) := by
  have ha' := cmp_le ha
  have hb' := cmp_le hb
  unfold zopen
  by_cases hu0 : u = 0
  · subst hu0
    by_cases hv0 : v = 0
    · subst hv0
      cases o1 <;> cases o2 <;> simp at ha hb ⊢ <;> positivity
    · have hvp : 0 < v := lt_of_le_of_ne hv (Ne.symm hv0)
      have hbp : 0 < b := lt_of_lt_of_le hvp hb'
      cases o1 <;> simp [hv0] at ha ⊢
      · exact mul_nonneg ha hbp.le
      · exact mul_pos ha hbp
  · have hup : 0 < u := lt_of_le_of_ne hu (Ne.symm hu0)
    have hap : 0 < a := lt_of_lt_of_le hup ha'
    by_cases hv0 : v = 0
    · subst hv0
      cases o2 <;> simp [hu0] at hb ⊢
      · exact mul_nonneg hap.le hb
      · exact mul_pos hap hb
    · have hvp : 0 < v := lt_of_le_of_ne hv (Ne.symm hv0)
      have hbp : 0 < b := lt_of_lt_of_le hvp hb'
      cases o1 <;> cases o2 <;> simp [hu0, hv0] at ha hb ⊢
      · exact mul_le_mul ha hb hvp.le hap.le
      · exact mul_lt_mul' ha hb hvp.le hap
      · exact mul_lt_mul ha hb hvp hap.le
      · exact mul_lt_mul'' ha hb hup.le hvp.le

/-- M2: both bounds on the outer side of non-negative members -/
theorem mulM2 {u v a b : Rat} {o1 o2 : Bool} (ha0 : 0 ≤ a) (hb0 : 0 ≤ b)
    (ha : cmp o1 a u) (hb : cmp o2 b v) : cmp (zopen u o1 v o2) (a * b) (u * v) := by
  have ha' := cmp_le ha
  have hb' := cmp_le hb
  unfold zopen
  by_cases hu0 : u = 0
  · subst hu0
    have : a = 0 := le_antisymm ha' ha0
    subst this
    cases o1 <;> simp at ha ⊢
  · have hup : 0 < u := lt_of_le_of_ne (le_trans ha0 ha') (Ne.symm hu0)
    by_cases hv0 : v = 0
    · subst hv0
      have : b = 0 := le_antisymm hb' hb0
      subst this
      cases o2 <;> simp [hu0] at hb ⊢
    · have hvp : 0 < v := lt_of_le_of_ne (le_trans hb0 hb') (Ne.symm hv0)
      cases o1 <;> cases o2 <;> simp [hu0, hv0] at ha hb ⊢
      · exact mul_le_mul ha hb hb0 hup.le
      · exact mul_lt_mul' ha hb hb0 hup
      · calc a * b ≤ a * v := mul_le_mul_of_nonneg_left hb ha0
          _ < u * v := mul_lt_mul_of_pos_right ha hvp
      · calc a * b ≤ a * v := mul_le_mul_of_nonneg_left hb.le ha0
          _ < u * v := mul_lt_mul_of_pos_right ha hvp

/-- M3: a non-negative member bounded above, times a member bounded below by a negative bound -/
theorem mulM3 {u v a b : Rat} {o1 o2 : Bool} (ha0 : 0 ≤ a) (ha : cmp o1 a u) (hb : cmp o2 v b) (hv : v < 0) :
    cmp (zopen u o1 v o2) (u * v) (a * b) := by
  have ha' := cmp_le ha
  have hb' := cmp_le hb
  unfold zopen
  have hv0 : v ≠ 0 := ne_of_lt hv
  by_cases hu0 : u = 0
  · subst hu0
    have : a = 0 := le_antisymm ha' ha0
    subst this
    cases o1 <;> simp at ha ⊢
  · have hup : 0 < u := lt_of_le_of_ne (le_trans ha0 ha') (Ne.symm hu0)
    have hnv : 0 < -v := neg_pos.mpr hv
    cases o1 <;> cases o2 <;> simp [hu0, hv0] at ha hb ⊢
    · nlinarith [mul_nonneg ha0 (sub_nonneg.mpr hb'), mul_nonneg (sub_nonneg.mpr ha') hnv.le]
    · rcases eq_or_lt_of_le ha0 with h0 | hap
      · subst h0; simp; exact mul_neg_of_pos_of_neg hup hv
      · nlinarith [mul_pos hap (sub_pos.mpr hb), mul_nonneg (sub_nonneg.mpr ha') hnv.le]
    · nlinarith [mul_nonneg ha0 (sub_nonneg.mpr hb'), mul_pos (sub_pos.mpr ha) hnv]
    · nlinarith [mul_nonneg ha0 (sub_nonneg.mpr hb'), mul_pos (sub_pos.mpr ha) hnv]

/-! fourteen sign variants (`L`: the product of the bounds is a lower bound, `U`: an upper bound) -/
section variants
variable {u v a b : Rat} {o1 o2 : Bool}

theorem mulV1 (hu : 0 ≤ u) (hv : 0 ≤ v) (ha : cmp o1 u a) (hb : cmp o2 v b) :
    cmp (zopen u o1 v o2) (u * v) (a * b) := mulM1 hu hv ha hb

theorem mulV2 (ha0 : 0 ≤ a) (hb0 : 0 ≤ b) (ha : cmp o1 a u) (hb : cmp o2 b v) :
    cmp (zopen u o1 v o2) (a * b) (u * v) := mulM2 ha0 hb0 ha hb

theorem mulV3 (ha0 : 0 ≤ a) (ha : cmp o1 a u) (hb : cmp o2 v b) (hv : v < 0) :
    cmp (zopen u o1 v o2) (u * v) (a * b) := mulM3 ha0 ha hb hv

theorem mulV4 (ha : cmp o1 u a) (hu : 0 ≤ u) (hb : cmp o2 b v) (hv : v ≤ 0) :
    cmp (zopen u o1 v o2) (a * b) (u * v) := by
  have := mulM1 (o1 := o1) (o2 := o2) hu (neg_nonneg.mpr hv) ha (cmp_neg.mpr hb)
  simpa [zopen_neg_right, cmp_neg] using this

theorem mulV5 (ha0 : 0 ≤ a) (ha : cmp o1 a u) (hb : cmp o2 b v) (hv : 0 < v) :
    cmp (zopen u o1 v o2) (a * b) (u * v) := by
  have := mulM3 (o1 := o1) (o2 := o2) ha0 ha (cmp_neg.mpr hb) (neg_neg_of_pos hv)
  simpa [zopen_neg_right, cmp_neg] using this

theorem mulV6 (ha : cmp o1 u a) (hu : u < 0) (hb0 : 0 ≤ b) (hb : cmp o2 b v) :
    cmp (zopen u o1 v o2) (u * v) (a * b) := by
  have := mulM3 (o1 := o2) (o2 := o1) hb0 hb ha hu
  rw [zopen_comm, mul_comm v u, mul_comm b a] at this
  exact this

theorem mulV7 (ha : cmp o1 a u) (hu : u ≤ 0) (hb : cmp o2 v b) (hv : 0 ≤ v) :
    cmp (zopen u o1 v o2) (a * b) (u * v) := by
  have := mulM1 (o1 := o1) (o2 := o2) (neg_nonneg.mpr hu) hv (cmp_neg.mpr ha) hb
  simpa [zopen_neg_left, cmp_neg] using this

theorem mulV8 (ha : cmp o1 a u) (hu : u ≤ 0) (hb : cmp o2 b v) (hv : v ≤ 0) :
    cmp (zopen u o1 v o2) (u * v) (a * b) := by
  have := mulM1 (o1 := o1) (o2 := o2) (neg_nonneg.mpr hu) (neg_nonneg.mpr hv) (cmp_neg.mpr ha) (cmp_neg.mpr hb)
  simpa [zopen_neg_left, zopen_neg_right] using this

theorem mulV9 (ha : cmp o1 u a) (ha0 : a ≤ 0) (hb : cmp o2 v b) (hb0 : b ≤ 0) :
    cmp (zopen u o1 v o2) (a * b) (u * v) := by
  have := mulM2 (o1 := o1) (o2 := o2) (neg_nonneg.mpr ha0) (neg_nonneg.mpr hb0) (cmp_neg.mpr ha) (cmp_neg.mpr hb)
  simpa [zopen_neg_left, zopen_neg_right] using this

theorem mulV10 (ha : cmp o1 u a) (ha0 : a ≤ 0) (hb : cmp o2 b v) (hv : 0 < v) :
    cmp (zopen u o1 v o2) (u * v) (a * b) := by
  have := mulM3 (o1 := o1) (o2 := o2) (neg_nonneg.mpr ha0) (cmp_neg.mpr ha) (cmp_neg.mpr hb) (neg_neg_of_pos hv)
  simpa [zopen_neg_left, zopen_neg_right] using this

theorem mulV11 (ha : cmp o1 u a) (ha0 : a ≤ 0) (hb : cmp o2 v b) (hv : v < 0) :
    cmp (zopen u o1 v o2) (a * b) (u * v) := by
  have := mulM3 (o1 := o1) (o2 := o2) (neg_nonneg.mpr ha0) (cmp_neg.mpr ha) hb hv
  simpa [zopen_neg_left, cmp_neg] using this

theorem mulV12 (ha : cmp o1 a u) (hu : 0 < u) (hb : cmp o2 v b) (hb0 : b ≤ 0) :
    cmp (zopen u o1 v o2) (u * v) (a * b) := by
  have := mulM3 (o1 := o2) (o2 := o1) (neg_nonneg.mpr hb0) (cmp_neg.mpr hb) (cmp_neg.mpr ha) (neg_neg_of_pos hu)
  rw [zopen_comm] at this
  simpa [zopen_neg_left, zopen_neg_right, mul_comm] using this

theorem mulV13 (ha : cmp o1 u a) (hu : u < 0) (hb : cmp o2 v b) (hb0 : b ≤ 0) :
    cmp (zopen u o1 v o2) (a * b) (u * v) := by
  have := mulM3 (o1 := o2) (o2 := o1) (neg_nonneg.mpr hb0) (cmp_neg.mpr hb) ha hu
  rw [zopen_comm] at this
  simpa [zopen_neg_right, cmp_neg, mul_comm] using this

theorem mulV14 (ha : cmp o1 a u) (hu : 0 < u) (hb0 : 0 ≤ b) (hb : cmp o2 b v) :
    cmp (zopen u o1 v o2) (a * b) (u * v) := by
  have := mulV5 (o1 := o2) (o2 := o1) hb0 hb ha hu
  rw [zopen_comm, mul_comm b a, mul_comm v u] at this
  exact this

end variants

end PPLV.Interval
