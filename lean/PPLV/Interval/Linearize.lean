import PPLV.Interval.Model
/-!
# C12 — `Linear_Form` compound operators, `relative_error`, `intervalize`, and `linearize`
(code-shaped executable model, no Mathlib)

Transliteration of `/repo/src/Linear_Form_templates.hh` (`operator+= -= *= /=`, `negate`,
`relative_error`, `intervalize`, `overflows`), `Float_templates.hh` (`compute_absolute_error`) and
`/repo/src/linearize.hh` (`linearize`, `add_/sub_/mul_/div_linearize`) over the interval model.

A linear form is the list of its interval coefficients, inhomogeneous term first (`vec`).
The analysed floating-point format enters through two numbers (`FFormat`):
`eps = 2^-(msb(BASE)·MANTISSA_BITS)` (the bound `lb` of `relative_error`) and
`omega = max(2^(msb(BASE)·((1−EXPONENT_BIAS)−MANTISSA_BITS)), denorm_min of the analyser type)`
(the bound of `compute_absolute_error`); both are powers of two representable in the analyser type.
-/
namespace PPLV.Interval
open ExtRat (ninf fin pinf)

/-- `C(x)` for a value `x` of the boundary type: the singleton `[x,x]` -/
def Iv.point (q : Rat) : Iv := ⟨⟨fin q, false⟩, ⟨fin q, false⟩⟩

/-- `Linear_Form<C>::zero` -/
def Iv.zero : Iv := Iv.point 0

/-- `[-b, b]` as built by `build(i_constraint(GREATER_OR_EQUAL, -b), i_constraint(LESS_OR_EQUAL, b))` -/
def Iv.sym (b : Rat) : Iv := ⟨⟨fin (-b), false⟩, ⟨fin b, false⟩⟩

section LinearFormOps

/-- `f1 += f2`: `f1` is extended with `zero`, then `f1[i] += f2[i]` for `i < f2.size()` -/
def lfAddAssign (p : Policy) (R : Rounding) : List Iv → List Iv → List Iv
  | f, [] => f
  | [], y :: g => addAssign p R Iv.zero y :: lfAddAssign p R [] g
  | x :: f, y :: g => addAssign p R x y :: lfAddAssign p R f g

/-- `f1 -= f2` -/
def lfSubAssign (p : Policy) (R : Rounding) : List Iv → List Iv → List Iv
  | f, [] => f
  | [], y :: g => subAssign p R Iv.zero y :: lfSubAssign p R [] g
  | x :: f, y :: g => subAssign p R x y :: lfSubAssign p R f g

/-- `f += n` for an interval `n`: `f[0] += n` -/
def lfAddConst (p : Policy) (R : Rounding) (f : List Iv) (n : Iv) : List Iv :=
  match f with
  | [] => []
  | x :: f => addAssign p R x n :: f

/-- `negate()` -/
def lfNegate (p : Policy) (R : Rounding) (f : List Iv) : List Iv := f.map (negAssign p R)

/-- `f *= n` -/
def lfMulAssign (d3 : Bool) (p : Policy) (R : Rounding) (f : List Iv) (n : Iv) : List Iv :=
  f.map (fun x => mulAssign d3 p R x n)

/-- `f /= n` -/
def lfDivAssign (p : Policy) (R : Rounding) (f : List Iv) (n : Iv) : List Iv :=
  f.map (fun x => divAssign p R x n)

/-- `Linear_Form(Variable(i))`: `i+1` zeros and the coefficient `1` -/
def varForm (i : Nat) : List Iv := List.replicate (i + 1) Iv.zero ++ [Iv.point 1]

/-- `is_bounded()` -/
def isBounded (p : Policy) (x : Iv) : Bool :=
  !isBoundaryInfinity p .lower x.lo && !isBoundaryInfinity p .upper x.hi

/-- `overflows()` -/
def lfOverflows (p : Policy) (f : List Iv) : Bool := f.any (fun x => !isBounded p x)

def ratAbs (q : Rat) : Rat := if q < 0 then -q else q

/-- `std::max(std::abs(lower()), std::abs(upper()))` of a bounded interval -/
def magnitude (x : Iv) : Rat :=
  match x.lo.value, x.hi.value with
  | fin l, fin u => if ratAbs l < ratAbs u then ratAbs u else ratAbs l
  | _, _ => 0

/-- `relative_error(analyzed_format, result)`; `eps` is the bound `lb` of the format -/
def relativeError (d3 : Bool) (p : Policy) (R : Rounding) (eps : Rat) : List Iv → List Iv
  | [] => []
  | i0 :: cs =>
    let ep := Iv.sym eps
    let r0 := lfMulAssign d3 p R [Iv.point (magnitude i0)] ep
    go ep cs 0 r0
where
  /-- the loop over the variables: `current_result_term = Linear_Form(Variable(i));
  current_result_term *= current_multiplier; current_result_term *= error_propagator;
  result += current_result_term` -/
  go (ep : Iv) : List Iv → Nat → List Iv → List Iv
    | [], _, r => r
    | c :: cs, k, r =>
      let t := lfMulAssign d3 p R (lfMulAssign d3 p R (varForm k) (Iv.point (magnitude c))) ep
      go ep cs (k + 1) (lfAddAssign p R r t)

/-- `intervalize(oracle, result)`; `store[i]` is what `oracle.get_interval(i, ·)` returns -/
def intervalize (d3 : Bool) (p : Policy) (R : Rounding) (store : List Iv) : List Iv → Option Iv
  | [] => none
  | i0 :: cs => go cs 0 i0
where
  go : List Iv → Nat → Iv → Option Iv
    | [], _, r => some r
    | c :: cs, k, r =>
      match store[k]? with
      | none => none
      | some s => go cs (k + 1) (addAssign p R r (mulAssign d3 p R c s))

end LinearFormOps

/-- the two error bounds of an analysed format, as the analyser sees them -/
structure FFormat where
  eps : Rat
  omega : Rat
deriving Repr

/-- floating-point expressions (`Concrete_Expression`): a constant carries the interval the oracle
returns for it (`K`) and its concrete value (`k`, used by the concrete semantics only) -/
inductive FExpr where
  | const (K : Iv) (k : Rat)
  | var (i : Nat)
  | neg (e : FExpr)
  | add (e1 e2 : FExpr)
  | sub (e1 e2 : FExpr)
  | mul (e1 e2 : FExpr)
  | div (e1 e2 : FExpr)
deriving Repr, Inhabited

section Linearize
variable (d3 : Bool) (p : Policy) (R : Rounding) (fm : FFormat) (store : List Iv)
  (lfStore : Nat → Option (List Iv))

/-- the tail shared by the four binary rules: `result += absolute_error; return !result.overflows()` -/
def finishLin (r : List Iv) : Option (List Iv) :=
  let r := lfAddConst p R r (Iv.sym fm.omega)
  if lfOverflows p r then none else some r

/-- `linearize(expr, oracle, lf_store, result)`: `none` is the answer `false` -/
def linearize : FExpr → Option (List Iv)
  | .const K _ => some [K]
  | .var i =>
    match lfStore i with
    | none => some (varForm i)
    | some L => if lfOverflows p L then none else some L
  | .neg e =>
    match linearize e with
    | none => none
    | some r => some (lfNegate p R r)
  | .add e1 e2 =>
    match linearize e1 with
    | none => none
    | some r =>
      let r := lfAddAssign p R r (relativeError d3 p R fm.eps r)
      match linearize e2 with
      | none => none
      | some l2 =>
        let r := lfAddAssign p R r l2
        let r := lfAddAssign p R r (relativeError d3 p R fm.eps l2)
        finishLin p R fm r
  | .sub e1 e2 =>
    match linearize e1 with
    | none => none
    | some r =>
      let r := lfAddAssign p R r (relativeError d3 p R fm.eps r)
      match linearize e2 with
      | none => none
      | some l2 =>
        let r := lfSubAssign p R r l2
        let r := lfAddAssign p R r (relativeError d3 p R fm.eps l2)
        finishLin p R fm r
  | .mul e1 e2 =>
    match linearize e1 with
    | none => none
    | some l1 =>
      match intervalize d3 p R store l1 with
      | none => none
      | some i1 =>
        match linearize e2 with
        | none => none
        | some l2 =>
          match intervalize d3 p R store l2 with
          | none => none
          | some i2 =>
            -- "Interval-Size Local" strategy; sizes in the analyser's arithmetic (rounding upwards)
            let size (x : Iv) : ExtRat :=
              match x.lo.value, x.hi.value with
              | fin l, fin u => R.up (u - l)
              | _, _ => pinf
            let choice : Option Bool :=
              if isBounded p i1 then
                if isBounded p i2 then some ((size i1).le (size i2)) else some true
              else if isBounded p i2 then some false else none
            match choice with
            | none => none
            | some true =>
              let r := relativeError d3 p R fm.eps l2
              let l2' := lfMulAssign d3 p R l2 i1
              let r := lfMulAssign d3 p R r i1
              finishLin p R fm (lfAddAssign p R r l2')
            | some false =>
              let r := relativeError d3 p R fm.eps l1
              let l1' := lfMulAssign d3 p R l1 i2
              let r := lfMulAssign d3 p R r i2
              finishLin p R fm (lfAddAssign p R r l1')
  | .div e1 e2 =>
    match linearize e2 with
    | none => none
    | some l2 =>
      match intervalize d3 p R store l2 with
      | none => none
      | some i2 =>
        -- "Check if we may divide by zero."
        let lowNonpos := isBoundaryInfinity p .lower i2.lo || i2.lo.value.le (fin 0)
        let upNonneg := isBoundaryInfinity p .upper i2.hi || (fin 0 : ExtRat).le i2.hi.value
        if lowNonpos && upNonneg then none
        else
          match linearize e1 with
          | none => none
          | some r =>
            let rel := relativeError d3 p R fm.eps r
            let r := lfDivAssign p R r i2
            let rel := lfDivAssign p R rel i2
            finishLin p R fm (lfAddAssign p R r rel)

end Linearize

/-! ### concrete semantics -/

/-- value of a concrete linear form `c₀ + Σ cₖ₊₁·ρ(k)` on a store -/
def lfEval (c : List Rat) (rho : Nat → Rat) : Rat :=
  match c with
  | [] => 0
  | c0 :: cs => c0 + dotFrom cs 0
where
  dotFrom : List Rat → Nat → Rat
    | [], _ => 0
    | c :: cs, k => c * rho k + dotFrom cs (k + 1)

/-- the value computed by the analysed machine: every operation rounds its exact result with `fl` -/
def FExpr.ceval (fl : Rat → Rat) (rho : Nat → Rat) : FExpr → Rat
  | .const _ k => k
  | .var i => rho i
  | .neg e => -(e.ceval fl rho)
  | .add e1 e2 => fl (e1.ceval fl rho + e2.ceval fl rho)
  | .sub e1 e2 => fl (e1.ceval fl rho - e2.ceval fl rho)
  | .mul e1 e2 => fl (e1.ceval fl rho * e2.ceval fl rho)
  | .div e1 e2 => fl (e1.ceval fl rho / e2.ceval fl rho)

end PPLV.Interval
