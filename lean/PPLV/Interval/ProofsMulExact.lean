import PPLV.Interval.ProofsMul
import PPLV.Interval.ProofsExact
/-!
# C12 — exactness of `mul_assign` for closed bounded operands and exact rounding: both bounds of
the result are products of end points of the operands (which are members), so the result is the
least interval containing the image.
-/
set_option linter.unnecessarySeqFocus false
set_option linter.unusedSimpArgs false
set_option linter.unusedVariables false
namespace PPLV.Interval
open ExtRat (ninf fin pinf)

/-- `[l, u]` -/
def Iv.closed (l u : Rat) : Iv := ⟨⟨fin l, false⟩, ⟨fin u, false⟩⟩

theorem mem_closed {p : Policy} {l u a : Rat} : (Iv.closed l u).mem p a ↔ l ≤ a ∧ a ≤ u := by
  simp [Iv.closed, Iv.mem, lowerOk, upperOk, getOpen]

theorem bMul_id_closed (p : Policy) (tt t1 t2 : BT) (u v : Rat) :
    bMul p Rounding.id tt p t1 ⟨fin u, false⟩ p t2 ⟨fin v, false⟩ = ⟨fin (u * v), false⟩ := by
  cases t1 <;> cases t2 <;>
    simp [bMul, bArith, isBoundaryInfinity, getSpecial, normalIsBoundaryInfinity, adjust_id, normalIsOpen,
      getOpen, ExtRat.mul]

theorem bMulZ_id_closed (p : Policy) (tt t1 t2 : BT) (u v : Rat) :
    bMulZ p Rounding.id tt p t1 ⟨fin u, false⟩ (fin u).sgn p t2 ⟨fin v, false⟩ (fin v).sgn
      = ⟨fin (u * v), false⟩ := by
  unfold bMulZ
  rw [sgn_fin_ne_zero, sgn_fin_ne_zero]
  by_cases hu : u = 0 <;> by_cases hv : v = 0 <;>
    simp [hu, hv, bMul_id_closed, setZero, adjust_id, getOpen]

/-- both bounds of `[l,u]·[m,n]` are products of end points -/
theorem mulAssign_corners (p : Policy) {l u m n : Rat} (hx : l ≤ u) (hy : m ≤ n) :
    ∃ a b a' b', (a = l ∨ a = u) ∧ (b = m ∨ b = n) ∧ (a' = l ∨ a' = u) ∧ (b' = m ∨ b' = n) ∧
      mulAssign false p Rounding.id (Iv.closed l u) (Iv.closed m n)
        = ⟨⟨fin (a * b), false⟩, ⟨fin (a' * b'), false⟩⟩ := by
  have ha : (Iv.closed l u).mem p l := mem_closed.mpr ⟨le_refl _, hx⟩
  have hb : (Iv.closed m n).mem p m := mem_closed.mpr ⟨le_refl _, hy⟩
  unfold mulAssign mulTable mulStraddle
  simp only [checkEmptyArg_of_mem ha, checkEmptyArg_of_mem hb, infinitySign_of_mem ha, infinitySign_of_mem hb,
    sgnB_lower_of_mem ha, sgnB_upper_of_mem ha, sgnB_lower_of_mem hb, sgnB_upper_of_mem hb,
    xus_of_mem ha, xus_of_mem hb, Bool.or_self, Bool.false_eq_true, ↓reduceIte, bne_self_eq_false,
    replaceCandidate]
  simp only [Iv.closed, bMulZ_id_closed, bMul_id_closed]
  split_ifs <;> exact ⟨_, _, _, _, by first | exact Or.inl rfl | exact Or.inr rfl,
    by first | exact Or.inl rfl | exact Or.inr rfl, by first | exact Or.inl rfl | exact Or.inr rfl,
    by first | exact Or.inl rfl | exact Or.inr rfl, rfl⟩

/-- the hull of the image is always inside the result (any operands, any sound rounding) -/
theorem mulAssign_hull_subset {p : Policy} {R : Rounding} (hR : R.Sound) {x y : Iv} {c s1 s2 : Rat}
    (h1 : ∃ a b, x.mem p a ∧ y.mem p b ∧ s1 = a * b) (h2 : ∃ a b, x.mem p a ∧ y.mem p b ∧ s2 = a * b)
    (hc1 : s1 ≤ c) (hc2 : c ≤ s2) : (mulAssign false p R x y).mem p c := by
  obtain ⟨a, b, ha, hb, rfl⟩ := h1
  obtain ⟨a', b', ha', hb', rfl⟩ := h2
  exact ⟨lowerOk_up (mulAssign_encloses hR ha hb).1 hc1, upperOk_down (mulAssign_encloses hR ha' hb').2 hc2⟩

/-- closed bounded operands, exact rounding: the result is exactly the hull of the image -/
theorem mulAssign_hull_closed {p : Policy} {l u m n : Rat} (hx : l ≤ u) (hy : m ≤ n) (c : Rat) :
    (mulAssign false p Rounding.id (Iv.closed l u) (Iv.closed m n)).mem p c ↔
      ∃ s1 s2, (∃ a b, (Iv.closed l u).mem p a ∧ (Iv.closed m n).mem p b ∧ s1 = a * b) ∧
               (∃ a b, (Iv.closed l u).mem p a ∧ (Iv.closed m n).mem p b ∧ s2 = a * b) ∧ s1 ≤ c ∧ c ≤ s2 := by
  constructor
  · intro h
    obtain ⟨a, b, a', b', ha, hb, ha', hb', he⟩ := mulAssign_corners p hx hy
    rw [he] at h
    have hm : ∀ z, (z = l ∨ z = u) → (Iv.closed l u).mem p z := by
      rintro z (rfl | rfl) <;> exact mem_closed.mpr ⟨by linarith, by linarith⟩
    have hm' : ∀ z, (z = m ∨ z = n) → (Iv.closed m n).mem p z := by
      rintro z (rfl | rfl) <;> exact mem_closed.mpr ⟨by linarith, by linarith⟩
    refine ⟨a * b, a' * b', ⟨a, b, hm a ha, hm' b hb, rfl⟩, ⟨a', b', hm a' ha', hm' b' hb', rfl⟩, ?_, ?_⟩
    · have := h.1; simpa [lowerOk, getOpen] using this
    · have := h.2; simpa [upperOk, getOpen] using this
  · rintro ⟨s1, s2, h1, h2, hc1, hc2⟩
    exact mulAssign_hull_subset Rounding.id_sound h1 h2 hc1 hc2

end PPLV.Interval
