import PPLV.Interval.Model
/-!
# C12 — executable reference ("what the documented set is") used by the driver as the verdict

Independent of the code-shaped model: an interval is read as a *set* of rationals, described by
two cut positions `(value, ε)` on the extended line (`ε = +1`: just above, `−1`: just below,
`0`: at the value).  Every operation returns the interval hull of the exact image.
No sign tables here: products are the extreme of the four corner limits.
-/
namespace PPLV.Interval.Spec
open ExtRat (ninf fin pinf)

structure Cut where
  v : ExtRat
  e : Int
deriving DecidableEq, Repr, Inhabited

namespace Cut
def lt (a b : Cut) : Bool := a.v.lt b.v || (a.v == b.v && decide (a.e < b.e))
def le (a b : Cut) : Bool := !(lt b a)
def min (a b : Cut) : Cut := if lt b a then b else a
def max (a b : Cut) : Cut := if lt a b then b else a
def neg (a : Cut) : Cut := ⟨a.v.neg, -a.e⟩
def pt (q : Rat) : Cut := ⟨fin q, 0⟩
def bot : Cut := ⟨ninf, 1⟩
def top : Cut := ⟨pinf, -1⟩
end Cut

/-- `none` = ∅ ; `some (l, u)` = `{a | l ≤ (a,0) ≤ u}`, kept with `l ≤ u` -/
abbrev SI := Option (Cut × Cut)

def norm (l u : Cut) : SI := if u.lt l then none else some (l, u)

def univ : SI := some (Cut.bot, Cut.top)

def lowerCut (b : Bound) : Cut :=
  match b.value with
  | ninf => Cut.bot
  | fin q => ⟨fin q, if b.open then 1 else 0⟩
  | pinf => ⟨pinf, 1⟩

def upperCut (b : Bound) : Cut :=
  match b.value with
  | pinf => Cut.top
  | fin q => ⟨fin q, if b.open then -1 else 0⟩
  | ninf => ⟨ninf, -1⟩

/-- the set denoted by a pair of bounds (rational members only) -/
def ofIv (x : Iv) : SI := norm (lowerCut x.lo) (upperCut x.hi)

def mem (s : SI) (a : Rat) : Bool :=
  match s with
  | none => false
  | some (l, u) => l.le (Cut.pt a) && (Cut.pt a).le u

def subset (s t : SI) : Bool :=
  match s, t with
  | none, _ => true
  | some _, none => false
  | some (l, u), some (l', u') => l'.le l && u.le u'

def seteq (s t : SI) : Bool := subset s t && subset t s

def neg : SI → SI
  | none => none
  | some (l, u) => some (u.neg, l.neg)

def addLower (a b : Cut) : Cut :=
  match a.v, b.v with
  | fin x, fin y => ⟨fin (x + y), if a.e > b.e then a.e else b.e⟩
  | _, _ => Cut.bot

def addUpper (a b : Cut) : Cut :=
  match a.v, b.v with
  | fin x, fin y => ⟨fin (x + y), if a.e < b.e then a.e else b.e⟩
  | _, _ => Cut.top

def add : SI → SI → SI
  | some (l1, u1), some (l2, u2) => some (addLower l1 l2, addUpper u1 u2)
  | _, _ => none

def sub (x y : SI) : SI := add x (neg y)

/-- limit of `a*b` for `a → c1`, `b → c2` inside the operands, with whether it is attained;
`0·∞` is read as `0` (the other corners of a non-empty operand dominate, see the file header
of the driver) -/
def corner (c1 c2 : Cut) : ExtRat × Bool :=
  match c1.v, c2.v with
  | fin u, fin v =>
    let att :=
      if u = 0 then c1.e == 0 || (v = 0 && c2.e == 0)
      else if v = 0 then c2.e == 0
      else c1.e == 0 && c2.e == 0
    (fin (u * v), att)
  | fin u, w => if u = 0 then (fin 0, c1.e == 0) else (if u < 0 then w.neg else w, false)
  | w, fin v => if v = 0 then (fin 0, c2.e == 0) else (if v < 0 then w.neg else w, false)
  | w1, w2 => (if w1 == w2 then pinf else ninf, false)

def cornerLower (c1 c2 : Cut) : Cut :=
  let (v, att) := corner c1 c2
  match v with
  | fin q => ⟨fin q, if att then 0 else 1⟩
  | ninf => Cut.bot
  | pinf => ⟨pinf, 1⟩

def cornerUpper (c1 c2 : Cut) : Cut :=
  let (v, att) := corner c1 c2
  match v with
  | fin q => ⟨fin q, if att then 0 else -1⟩
  | pinf => Cut.top
  | ninf => ⟨ninf, -1⟩

def mul : SI → SI → SI
  | some (l1, u1), some (l2, u2) =>
    let lo := Cut.min (Cut.min (cornerLower l1 l2) (cornerLower l1 u2)) (Cut.min (cornerLower u1 l2) (cornerLower u1 u2))
    let hi := Cut.max (Cut.max (cornerUpper l1 l2) (cornerUpper l1 u2)) (Cut.max (cornerUpper u1 l2) (cornerUpper u1 u2))
    some (lo, hi)
  | _, _ => none

/-- `{1/b | b ∈ y}` for `y ⊆ (0, +∞)` given by cuts with `l ≥ 0⁺` -/
def recipPos (l u : Cut) : SI :=
  let lo : Cut :=
    match u.v with
    | fin q => ⟨fin (1 / q), -u.e⟩
    | _ => ⟨fin 0, 1⟩
  let hi : Cut :=
    match l.v with
    | fin q => if q = 0 then Cut.top else ⟨fin (1 / q), -l.e⟩
    | _ => ⟨fin 0, -1⟩
  some (lo, hi)

/-- hull of `{a / b | a ∈ x, b ∈ y, b ≠ 0}`; universe when `y` has members of both signs -/
def div (x y : SI) : SI :=
  match x, y with
  | some _, some (l, u) =>
    let zero := Cut.pt 0
    if zero.lt u && l.lt zero then
      univ
    else if zero.le l then
      -- y ⊆ [0, ∞): drop the point 0
      let l' : Cut := if l.v == fin 0 then ⟨fin 0, 1⟩ else l
      if u.lt l' then none else mul x (recipPos l' u)
    else
      -- y ⊆ (−∞, 0]
      let u' : Cut := if u.v == fin 0 then ⟨fin 0, -1⟩ else u
      if u'.lt l then none else neg (mul x (recipPos u'.neg l.neg))
  | _, _ => none

def join : SI → SI → SI
  | none, t => t
  | s, none => s
  | some (l1, u1), some (l2, u2) => some (Cut.min l1 l2, Cut.max u1 u2)

def meet : SI → SI → SI
  | some (l1, u1), some (l2, u2) => norm (Cut.max l1 l2) (Cut.min u1 u2)
  | _, _ => none

/-- hull of the set difference -/
def diff (x y : SI) : SI :=
  match x, y with
  | none, _ => none
  | s, none => s
  | some (l1, u1), some (l2, u2) =>
    let left := norm l1 (Cut.min u1 ⟨l2.v, l2.e - 1⟩)
    let right := norm (Cut.max l1 ⟨u2.v, u2.e + 1⟩) u1
    join left right

def isSingleton : SI → Option ExtRat
  | some (l, u) => if l == u then some l.v else none
  | none => none

/-- hull of `{a ∈ x | ∃ b ∈ y, a rel b}` -/
def refineEx (x : SI) (rel : Rel) (y : SI) : SI :=
  match y with
  | none => none
  | some (l, u) =>
    match rel with
    | .eq => meet x y
    | .lt => meet x (some (Cut.bot, ⟨u.v, -1⟩))
    | .le => meet x (some (Cut.bot, u))
    | .gt => meet x (some (⟨l.v, 1⟩, Cut.top))
    | .ge => meet x (some (l, Cut.top))
    | .ne => match isSingleton y with
      | some _ => diff x y
      | none => x

/-- hull of `{a ∈ x | ∀ b ∈ y, a rel b}` -/
def refineUn (x : SI) (rel : Rel) (y : SI) : SI :=
  match y with
  | none => x
  | some (l, u) =>
    match rel with
    | .eq => match isSingleton y with
      | some _ => meet x y
      | none => none
    | .lt => meet x (some (Cut.bot, ⟨l.v, l.e - 1⟩))
    | .le => meet x (some (Cut.bot, ⟨l.v, 0⟩))
    | .gt => meet x (some (⟨u.v, u.e + 1⟩, Cut.top))
    | .ge => meet x (some (⟨u.v, 0⟩, Cut.top))
    | .ne => diff x y

/-- least interval with integer closed bounds containing the set -/
def toInteger : SI → SI
  | none => none
  | some (l, u) =>
    let lo : Cut := match l.v with | fin q => ⟨fin (q.floor : Rat), 0⟩ | _ => l
    let hi : Cut := match u.v with | fin q => ⟨fin (q.ceil : Rat), 0⟩ | _ => u
    some (lo, hi)

end PPLV.Interval.Spec
