import PPLV.Interval.ProofsMulMath
/-!
# C12 — soundness of the `Boundary_NS` operations of the model
-/
set_option linter.unnecessarySeqFocus false
set_option linter.unusedSimpArgs false
set_option linter.unusedVariables false
namespace PPLV.Interval
open ExtRat (ninf fin pinf)

theorem sideOkV_infOf (t : BT) (o : Bool) (a : Rat) : sideOkV t (infOf t) o a := by
  cases t <;> simp [sideOkV, infOf]

theorem sideOk_setBoundaryInfinity (p : Policy) (t : BT) (s : Bool) (a : Rat) :
    sideOk p t (setBoundaryInfinity p t s) a := sideOkV_infOf _ _ _

theorem lowerOk_setBoundaryInfinity (p : Policy) (s : Bool) (a : Rat) :
    lowerOk p (setBoundaryInfinity p .lower s) a := sideOk_setBoundaryInfinity p .lower s a
theorem upperOk_setBoundaryInfinity (p : Policy) (s : Bool) (a : Rat) :
    upperOk p (setBoundaryInfinity p .upper s) a := sideOk_setBoundaryInfinity p .upper s a

theorem sideOk_lower {p : Policy} {b : Bound} {a : Rat} : sideOk p .lower b a ↔ lowerOk p b a := Iff.rfl
theorem sideOk_upper {p : Policy} {b : Bound} {a : Rat} : sideOk p .upper b a ↔ upperOk p b a := Iff.rfl

/-- a bound that admits a member is the infinity of its own side or finite -/
theorem sideOk_cases {p : Policy} {t : BT} {x : Bound} {a : Rat} (h : sideOk p t x a) :
    (normalIsBoundaryInfinity t x = true ∧ x.value = infOf t)
    ∨ (normalIsBoundaryInfinity t x = false ∧ ∃ u, x.value = fin u) := by
  unfold sideOk at h
  unfold normalIsBoundaryInfinity
  cases t <;> cases hv : x.value <;> simp_all [sideOkV, infOf]

theorem getSpecial_eq_of_sideOk {p : Policy} {t : BT} {x : Bound} {a : Rat} (h : sideOk p t x a) :
    getSpecial p t x = (p.storeSpecial && normalIsBoundaryInfinity t x) := by
  unfold getSpecial normalIsBoundaryInfinity; rfl

theorem normalIsOpen_fin {p : Policy} {t : BT} {x : Bound} (h : normalIsBoundaryInfinity t x = false) :
    normalIsOpen p t x = getOpen p x := by
  unfold normalIsOpen getOpen
  cases p.storeOpen <;> simp [h]

/-- `Boundary_NS::neg_assign` -/
theorem bNeg_lower_sound {p pf : Policy} {R : Rounding} (hR : R.Sound) {x : Bound} {a : Rat}
    (h : upperOk pf x a) : lowerOk p (bNeg p R .lower pf .upper x) (-a) := by
  unfold bNeg
  rcases sideOk_cases (t := .upper) h with ⟨hi, hv⟩ | ⟨hi, u, hu⟩
  · by_cases hs : getSpecial pf .upper x = true
    · simp [hs]; exact lowerOk_setBoundaryInfinity p _ _
    · simp [hs]; apply adjust_lower_sound hR; simp [hv, infOf, ExtRat.neg]
  · have hs : getSpecial pf .upper x = false := by
      rw [getSpecial_eq_of_sideOk (t := .upper) h, hi]; simp
    simp [hs]
    apply adjust_lower_sound hR
    rw [normalIsOpen_fin hi]
    exact lowerOkV_neg h

theorem bNeg_upper_sound {p pf : Policy} {R : Rounding} (hR : R.Sound) {x : Bound} {a : Rat}
    (h : lowerOk pf x a) : upperOk p (bNeg p R .upper pf .lower x) (-a) := by
  unfold bNeg
  rcases sideOk_cases (t := .lower) h with ⟨hi, hv⟩ | ⟨hi, u, hu⟩
  · by_cases hs : getSpecial pf .lower x = true
    · simp [hs]; exact upperOk_setBoundaryInfinity p _ _
    · simp [hs]; apply adjust_upper_sound hR; simp [hv, infOf, ExtRat.neg]
  · have hs : getSpecial pf .lower x = false := by
      rw [getSpecial_eq_of_sideOk (t := .lower) h, hi]; simp
    simp [hs]
    apply adjust_upper_sound hR
    rw [normalIsOpen_fin hi]
    exact upperOkV_neg h

/-- the common shape of `add_assign`, `sub_assign`, `mul_assign` on boundaries: an infinite operand
gives the infinity of the target side, two finite operands go through `adjust` -/
theorem bArith_sound {p p1 p2 : Policy} {R : Rounding} (hR : R.Sound) {f : ExtRat → ExtRat → ExtRat}
    {tt t1 t2 : BT} {x1 x2 : Bound} {a b c : Rat}
    (h1 : sideOk p1 t1 x1 a) (h2 : sideOk p2 t2 x2 b)
    (hf : ∀ u v, x1.value = fin u → x2.value = fin v →
      sideOkV tt (f (fin u) (fin v)) (getOpen p1 x1 || getOpen p2 x2) c) :
    sideOk p tt (bArith f p R tt p1 t1 x1 p2 t2 x2) c := by
  unfold bArith
  simp only [isBoundaryInfinity_eq]
  rcases sideOk_cases h1 with ⟨hi1, _⟩ | ⟨hi1, u, hu⟩
  · simp [hi1]; exact sideOk_setBoundaryInfinity p tt _ _
  · rcases sideOk_cases h2 with ⟨hi2, _⟩ | ⟨hi2, v, hv⟩
    · simp [hi1, hi2]; exact sideOk_setBoundaryInfinity p tt _ _
    · simp only [hi1, hi2, Bool.false_eq_true, ↓reduceIte]
      apply adjust_sound hR
      rw [normalIsOpen_fin hi1, normalIsOpen_fin hi2, hu, hv]
      exact hf u v hu hv

theorem bAdd_lower_sound {p p1 p2 : Policy} {R : Rounding} (hR : R.Sound) {x1 x2 : Bound} {a b : Rat}
    (h1 : lowerOk p1 x1 a) (h2 : lowerOk p2 x2 b) :
    lowerOk p (bAdd p R .lower p1 .lower x1 p2 .lower x2) (a + b) := by
  apply bArith_sound (tt := .lower) (t1 := .lower) (t2 := .lower) hR h1 h2
  intro u v hu hv
  unfold lowerOk at h1 h2; rw [hu] at h1; rw [hv] at h2
  simp only [ExtRat.add, sideOkV]
  revert h1 h2
  cases getOpen p1 x1 <;> cases getOpen p2 x2 <;> simp <;> intros <;> linarith

theorem bAdd_upper_sound {p p1 p2 : Policy} {R : Rounding} (hR : R.Sound) {x1 x2 : Bound} {a b : Rat}
    (h1 : upperOk p1 x1 a) (h2 : upperOk p2 x2 b) :
    upperOk p (bAdd p R .upper p1 .upper x1 p2 .upper x2) (a + b) := by
  apply bArith_sound (tt := .upper) (t1 := .upper) (t2 := .upper) hR h1 h2
  intro u v hu hv
  unfold upperOk at h1 h2; rw [hu] at h1; rw [hv] at h2
  simp only [ExtRat.add, sideOkV]
  revert h1 h2
  cases getOpen p1 x1 <;> cases getOpen p2 x2 <;> simp <;> intros <;> linarith

theorem bSub_lower_sound {p p1 p2 : Policy} {R : Rounding} (hR : R.Sound) {x1 x2 : Bound} {a b : Rat}
    (h1 : lowerOk p1 x1 a) (h2 : upperOk p2 x2 b) :
    lowerOk p (bSub p R .lower p1 .lower x1 p2 .upper x2) (a - b) := by
  apply bArith_sound (tt := .lower) (t1 := .lower) (t2 := .upper) hR h1 h2
  intro u v hu hv
  unfold lowerOk at h1; unfold upperOk at h2; rw [hu] at h1; rw [hv] at h2
  simp only [ExtRat.sub, sideOkV]
  revert h1 h2
  cases getOpen p1 x1 <;> cases getOpen p2 x2 <;> simp <;> intros <;> linarith

theorem bSub_upper_sound {p p1 p2 : Policy} {R : Rounding} (hR : R.Sound) {x1 x2 : Bound} {a b : Rat}
    (h1 : upperOk p1 x1 a) (h2 : lowerOk p2 x2 b) :
    upperOk p (bSub p R .upper p1 .upper x1 p2 .lower x2) (a - b) := by
  apply bArith_sound (tt := .upper) (t1 := .upper) (t2 := .lower) hR h1 h2
  intro u v hu hv
  unfold upperOk at h1; unfold lowerOk at h2; rw [hu] at h1; rw [hv] at h2
  simp only [ExtRat.sub, sideOkV]
  revert h1 h2
  cases getOpen p1 x1 <;> cases getOpen p2 x2 <;> simp <;> intros <;> linarith

/-- `set_zero` -/
theorem setZero_sound {p : Policy} {R : Rounding} (hR : R.Sound) {tt : BT} {s : Bool} {c : Rat}
    (h : sideOkV tt (fin 0) s c) : sideOk p tt (setZero p R tt s) c := adjust_sound hR h

theorem sgn_fin_ne_zero {u : Rat} : ((fin u).sgn != 0) = decide (u ≠ 0) := by
  simp only [ExtRat.sgn]
  by_cases h : u = 0
  · simp [h, ExtRat.ratSgn]
  · have : ExtRat.ratSgn u ≠ 0 := fun h' => h (ratSgn_zero.mp h')
    simp [h, this]

/-- `mul_assign_z`: the three obligations are the finite × finite product and the two
`0 × infinite` products (which the code answers by `set_zero`) -/
theorem bMulZ_sound {p p1 p2 : Policy} {R : Rounding} (hR : R.Sound) {tt t1 t2 : BT} {x1 x2 : Bound} {a b : Rat}
    (h1 : sideOk p1 t1 x1 a) (h2 : sideOk p2 t2 x2 b)
    (hfin : ∀ u v, x1.value = fin u → x2.value = fin v →
      sideOkV tt (fin (u * v)) (zopen u (getOpen p1 x1) v (getOpen p2 x2)) (a * b))
    (hz1 : x1.value = fin 0 → x2.value.isFin = false → sideOkV tt (fin 0) (getOpen p1 x1) (a * b))
    (hz2 : x2.value = fin 0 → x1.value.isFin = false → sideOkV tt (fin 0) (getOpen p2 x2) (a * b)) :
    sideOk p tt (bMulZ p R tt p1 t1 x1 x1.value.sgn p2 t2 x2 x2.value.sgn) (a * b) := by
  unfold bMulZ
  rcases sideOk_cases h1 with ⟨hi1, hv1⟩ | ⟨hi1, u, hu⟩
  · -- x1 infinite
    have hs1 : (x1.value.sgn != 0) = true := by rw [hv1]; cases t1 <;> simp [infOf, ExtRat.sgn]
    rcases sideOk_cases h2 with ⟨hi2, hv2⟩ | ⟨hi2, v, hv⟩
    · have hs2 : (x2.value.sgn != 0) = true := by rw [hv2]; cases t2 <;> simp [infOf, ExtRat.sgn]
      simp only [hs1, hs2, ↓reduceIte]
      unfold bMul bArith
      simp only [isBoundaryInfinity_eq, hi1, ↓reduceIte]
      exact sideOk_setBoundaryInfinity p tt _ _
    · by_cases hv0 : v = 0
      · subst hv0
        have hs2 : (x2.value.sgn != 0) = false := by rw [hv, sgn_fin_ne_zero]; simp
        simp only [hs1, hs2, ↓reduceIte, Bool.false_eq_true]
        apply setZero_sound hR
        apply hz2 hv
        rw [hv1]; cases t1 <;> rfl
      · have hs2 : (x2.value.sgn != 0) = true := by rw [hv, sgn_fin_ne_zero]; simp [hv0]
        simp only [hs1, hs2, ↓reduceIte]
        unfold bMul bArith
        simp only [isBoundaryInfinity_eq, hi1, ↓reduceIte]
        exact sideOk_setBoundaryInfinity p tt _ _
  · rcases sideOk_cases h2 with ⟨hi2, hv2⟩ | ⟨hi2, v, hv⟩
    · have hs2 : (x2.value.sgn != 0) = true := by rw [hv2]; cases t2 <;> simp [infOf, ExtRat.sgn]
      by_cases hu0 : u = 0
      · subst hu0
        have hs1 : (x1.value.sgn != 0) = false := by rw [hu, sgn_fin_ne_zero]; simp
        simp only [hs1, hs2, ↓reduceIte, Bool.false_eq_true, Bool.true_or, Bool.and_true]
        apply setZero_sound hR
        apply hz1 hu
        rw [hv2]; cases t2 <;> rfl
      · have hs1 : (x1.value.sgn != 0) = true := by rw [hu, sgn_fin_ne_zero]; simp [hu0]
        simp only [hs1, hs2, ↓reduceIte]
        unfold bMul bArith
        simp only [isBoundaryInfinity_eq, hi1, hi2, ↓reduceIte, Bool.false_eq_true]
        exact sideOk_setBoundaryInfinity p tt _ _
    · have hf := hfin u v hu hv
      rw [hu, hv, sgn_fin_ne_zero, sgn_fin_ne_zero]
      unfold zopen at hf
      by_cases hu0 : u = 0
      · simp only [hu0, ne_eq, not_true_eq_false, decide_false, Bool.false_eq_true, ↓reduceIte]
        apply setZero_sound hR
        simpa [hu0] using hf
      · by_cases hv0 : v = 0
        · simp only [hu0, hv0, ne_eq, not_false_eq_true, decide_true, not_true_eq_false, decide_false,
            Bool.false_eq_true, ↓reduceIte]
          apply setZero_sound hR
          simpa [hu0, hv0] using hf
        · simp only [hu0, hv0, ne_eq, not_false_eq_true, decide_true, ↓reduceIte]
          apply bArith_sound hR h1 h2
          intro u' v' hu' hv'
          rw [hu] at hu'; rw [hv] at hv'
          cases hu'; cases hv'
          simpa [hu0, hv0, ExtRat.mul] using hf

end PPLV.Interval
