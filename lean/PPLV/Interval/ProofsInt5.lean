import PPLV.Interval.ProofsInt4
import PPLV.Interval.ProofsIntDiv
/-!
# C12 / native integers, part 5: `Boundary_NS::div_assign`, `div_assign_z` on native boundaries

`finish_div`: checked division (every divisor ≠ 0, `min / -1` included) followed by `adjust_boundary`
is the bound the C12 model computes with `Rounding.native ty` from the exact rational quotient.
-/
set_option linter.unusedVariables false
set_option linter.unusedSimpArgs false
namespace PPLV.Interval.Native
open PPLV.Interval PPLV.Interval.ExtRat PPLV.Checked PPLV.Checked.Result

theorem finish_div {ty : IntTy} (ok : TyOK ty) (p : Policy) (hp : p.storeSpecial = true) (tt : BT) (s : Bool)
    {to0 x y : Int} (h0 : ty.inRange to0) (hx : ty.inRange x) (hy : ty.inRange y) (hy0 : y ≠ 0) :
    (finish p tt s (div ty cop to0 x y (dirOf tt))).map (NB.toBound tt)
      = some (adjust p (Rounding.native ty) tt (fin ((x : Rat) / (y : Rat))) s) := by
  cases tt
  · rcases div_down ok.bits ok.larger h0 hx hy hy0 with ⟨_, hy1, ht⟩ | ⟨_, F, hF, h1, h2, he⟩
    · have := finish_tri_lower ok.bits p hp s ht
      rw [hy1]
      have e : ((x : Rat) / ((-1 : Int) : Rat)) = ((-x : Int) : Rat) := by push_cast; ring
      rw [e]; rw [hy1] at this; exact this
    · show (finish p .lower s (div ty cop to0 x y .down)).map _ = _
      rw [he, adjust_lower_fin, native_down ok.bits]
      unfold downSpec
      rw [hF]
      have a : ¬ F < ty.cmin := by omega
      have b : ¬ ty.cmax < F := by omega
      simp only [a, b, if_false]
      by_cases hq : (F : Rat) = (x : Rat) / (y : Rat)
      · simp only [hq, if_true, finish_lower_eq, Option.map_some, NB.toBound]
        simp
      · have hne : ((F : Rat) != (x : Rat) / (y : Rat)) = true := by simp [hq]
        simp only [hq, if_false, finish_lower_gt, Option.map_some, NB.toBound, hne, open_inexact]
        simp
  · rcases div_up ok.bits ok.larger h0 hx hy hy0 with ⟨_, hy1, ht⟩ | ⟨_, C, hC, h1, h2, he⟩
    · have := finish_tri_upper ok.bits p hp s ht
      rw [hy1]
      have e : ((x : Rat) / ((-1 : Int) : Rat)) = ((-x : Int) : Rat) := by push_cast; ring
      rw [e]; rw [hy1] at this; exact this
    · show (finish p .upper s (div ty cop to0 x y .up)).map _ = _
      rw [he, adjust_upper_fin, native_up ok.bits]
      unfold upSpec
      rw [hC]
      have a : ¬ C < ty.cmin := by omega
      have b : ¬ ty.cmax < C := by omega
      simp only [a, b, if_false]
      by_cases hq : (C : Rat) = (x : Rat) / (y : Rat)
      · simp only [hq, if_true, finish_upper_eq, Option.map_some, NB.toBound]
        simp
      · have hne : ((C : Rat) != (x : Rat) / (y : Rat)) = true := by simp [hq]
        simp only [hq, if_false, finish_upper_lt, Option.map_some, NB.toBound, hne, open_inexact]
        simp

variable {ty : IntTy} {p : Policy}

/-- `Boundary_NS::div_assign` (the divisor bound, when finite, is not zero: `div_assign_z` /
`Interval::div_assign` call it only with `x2s ≠ 0`; the code asserts it) -/
theorem nbDiv_refines (ok : TyOK ty) (hp : p.storeSpecial = true) (tt t1 t2 : BT) {x1 x2 : NB} (h1 : x1.WF ty)
    (h2 : x2.WF ty) (hnz : x2.special = false → x2.raw ≠ 0) {to0 : Int} (h0 : ty.inRange to0) :
    (nbDiv ty p tt t1 x1 t2 x2 to0).map (NB.toBound tt)
      = some (bDiv p (Rounding.native ty) tt p t1 (x1.toBound t1) p t2 (x2.toBound t2)) := by
  unfold nbDiv bDiv
  simp only [isBoundaryInfinity_toBound p hp]
  cases hs1 : x1.special
  · cases hs2 : x2.special
    · simp only [Bool.false_eq_true, if_false]
      rw [toBound_value_of_not_special t1 x1 hs1, toBound_value_of_not_special t2 x2 hs2, chk_div]
      simp only [ExtRat.div]
      exact finish_div ok p hp tt _ h0 h1 h2 (hnz hs2)
    · simp only [Bool.false_eq_true, if_false, if_true]
      exact nbSetZero_refines ok hp tt _ h0
  · simp [nbSetBoundaryInfinity_toBound p hp]

theorem nbDivZ_refines (ok : TyOK ty) (hp : p.storeSpecial = true) (tt t1 t2 : BT) {x1 x2 : NB} (h1 : x1.WF ty)
    (h2 : x2.WF ty) (x1s x2s : Int) (hnz : x2s ≠ 0 → x2.special = false → x2.raw ≠ 0) {to0 : Int}
    (h0 : ty.inRange to0) :
    (nbDivZ ty p tt t1 x1 x1s t2 x2 x2s to0).map (NB.toBound tt)
      = some (bDivZ p (Rounding.native ty) tt p t1 (x1.toBound t1) x1s p t2 (x2.toBound t2) x2s) := by
  unfold nbDivZ bDivZ
  split
  · split
    · rename_i _ hx2
      exact nbDiv_refines ok hp tt t1 t2 h1 h2 (hnz (by simpa using hx2)) h0
    · simp [nbSetBoundaryInfinity_toBound p hp]
  · exact nbSetZero_refines ok hp tt _ h0

end PPLV.Interval.Native
