import PPLV.Interval.ProofsInt1
/-!
# C12 / native integers, part 2: the rounding instance is sound

`roundSide_lower`, `roundSide_upper`: `Rounding.native ty` — defined as the C11 model of
`assign_r(T&, const mpq_class&, dir)` followed by the model of `adjust_boundary` — is `downSpec` /
`upSpec`; `native_sound`: `Rounding.Sound (Rounding.native ty)`.
-/
set_option linter.unusedVariables false
set_option linter.unusedSimpArgs false
namespace PPLV.Interval.Native
open PPLV.Interval PPLV.Interval.ExtRat PPLV.Checked PPLV.Checked.Result

theorem toBound_value_normal (t : BT) (v : Int) (o : Bool) : ((⟨v, false, o⟩ : NB).toBound t).value = fin (v : Rat) := rfl
theorem toBound_value_special (t : BT) (v : Int) (o : Bool) : ((⟨v, true, o⟩ : NB).toBound t).value = infOf t := rfl

theorem roundSide_lower {ty : IntTy} (hb : 1 ≤ ty.bits) (q : Rat) : roundSide ty .lower q = downSpec ty q := by
  obtain ⟨hmin, hmax⟩ := cmin_le_cmax hb
  have hd : (0 : Int) < (q.den : Int) := by exact_mod_cast q.den_pos
  have hF : q.floor = if q.num.tmod q.den < 0 then q.num.tdiv q.den - 1 else q.num.tdiv q.den := by
    conv_lhs => rw [num_div_den' q]
    exact floor_of_tdiv q.num q.den hd
  obtain ⟨e, p, ng⟩ := tdiv_tmod_pos q.num hd
  unfold roundSide downSpec
  rw [hF]
  have hss : Policy.integer.storeSpecial = true := rfl
  have hco : cop.checkOverflow = true := rfl
  have hinf : cop.hasInfinity = false := rfl
  simp only [assignMpq, assignMpz, dirOf, emin_cop, emax_cop, hco, hinf, Bool.true_and,
    decide_eq_true_eq, setNegOverflow, setPosOverflow, Dir.roundUp, Dir.roundDown, Dir.notRequested]
  generalize q.num.tdiv q.den = T at *
  generalize q.num.tmod q.den = M at *
  by_cases h1 : T < ty.cmin
  · have hn : q.num < 0 := by
      by_contra hc
      have := (p (by omega)).2.2; omega
    have := ng hn
    simp only [h1, if_true]
    simp (decide := true) only [if_false, if_true, Bool.false_eq_true]
    rw [finish_lower_minf _ hss]
    simp only [toBound_value_special, infOf]
    have : (if M < 0 then T - 1 else T) < ty.cmin := by split <;> omega
    simp only [this, if_true]
  · simp only [h1, if_false]
    by_cases h2 : T > ty.cmax
    · have hn : 0 ≤ q.num := by
        by_contra hc
        have := (ng (by omega)).2.2; omega
      have := p hn
      simp only [h2, if_true]
      simp (decide := true) only [if_false, if_true, Bool.false_eq_true]
      rw [finish_lower_gt_sup]
      simp only [toBound_value_normal]
      have hM : ¬ M < 0 := by omega
      simp only [hM, if_false, h1]
      have : ty.cmax < T := h2
      simp only [this, if_true]
    · simp only [h2, if_false]
      rw [show (V_EQ != V_EQ) = false from by decide]
      simp (decide := true) only [if_false, if_true, Bool.false_eq_true]
      by_cases hM : M < 0
      · simp only [hM, if_true, roundLt, Dir.roundDown, emin_cop, hinf]
        simp (decide := true) only [if_false, if_true, Bool.false_eq_true]
        by_cases hT : T = ty.cmin
        · have hb' : (T == ty.cmin) = true := by simp [hT]
          simp only [hb', if_true]
          rw [finish_lower_minf _ hss]
          simp only [toBound_value_special, infOf]
          have : T - 1 < ty.cmin := by omega
          simp only [this, if_true]
        · have hb' : (T == ty.cmin) = false := by simp [hT]
          simp only [hb', if_false, Bool.false_eq_true]
          rw [finish_lower_gt]
          simp only [toBound_value_normal]
          have a : ¬ T - 1 < ty.cmin := by omega
          have b : ¬ ty.cmax < T - 1 := by omega
          simp only [a, b, if_false]
      · simp only [hM, if_false]
        have a : ¬ T < ty.cmin := h1
        have b : ¬ ty.cmax < T := by omega
        simp only [a, b, if_false]
        by_cases hM2 : M > 0
        · simp only [hM2, if_true, roundGt, Dir.roundUp]
          simp (decide := true) only [if_false, if_true, Bool.false_eq_true]
          rw [finish_lower_gt]
          simp only [toBound_value_normal]
        · simp only [hM2, if_false]
          rw [finish_lower_eq]
          simp only [toBound_value_normal]

theorem roundSide_upper {ty : IntTy} (hb : 1 ≤ ty.bits) (q : Rat) : roundSide ty .upper q = upSpec ty q := by
  obtain ⟨hmin, hmax⟩ := cmin_le_cmax hb
  have hd : (0 : Int) < (q.den : Int) := by exact_mod_cast q.den_pos
  have hC : q.ceil = if 0 < q.num.tmod q.den then q.num.tdiv q.den + 1 else q.num.tdiv q.den := by
    conv_lhs => rw [num_div_den' q]
    exact ceil_of_tdiv q.num q.den hd
  obtain ⟨e, p, ng⟩ := tdiv_tmod_pos q.num hd
  unfold roundSide upSpec
  rw [hC]
  have hss : Policy.integer.storeSpecial = true := rfl
  have hco : cop.checkOverflow = true := rfl
  have hinf : cop.hasInfinity = false := rfl
  simp only [assignMpq, assignMpz, dirOf, emin_cop, emax_cop, hco, hinf, Bool.true_and,
    decide_eq_true_eq, setNegOverflow, setPosOverflow, Dir.roundUp, Dir.roundDown, Dir.notRequested]
  generalize q.num.tdiv q.den = T at *
  generalize q.num.tmod q.den = M at *
  by_cases h1 : T < ty.cmin
  · have hn : q.num < 0 := by
      by_contra hc
      have := (p (by omega)).2.2; omega
    have := ng hn
    simp only [h1, if_true]
    simp (decide := true) only [if_false, if_true, Bool.false_eq_true]
    rw [finish_upper_lt_inf]
    simp only [toBound_value_normal]
    have hM : ¬ 0 < M := by omega
    have a : ¬ ty.cmax < T := by omega
    simp only [hM, if_false, a, h1, if_true]
  · simp only [h1, if_false]
    by_cases h2 : T > ty.cmax
    · have hn : 0 ≤ q.num := by
        by_contra hc
        have := (ng (by omega)).2.2; omega
      have := p hn
      simp only [h2, if_true]
      simp (decide := true) only [if_false, if_true, Bool.false_eq_true]
      rw [finish_upper_pinf _ hss]
      simp only [toBound_value_special, infOf]
      have : ty.cmax < (if 0 < M then T + 1 else T) := by split <;> omega
      simp only [this, if_true]
    · simp only [h2, if_false]
      simp (decide := true) only [if_false, if_true, Bool.false_eq_true]
      by_cases hM : M < 0
      · simp only [hM, if_true, roundLt, Dir.roundDown]
        simp (decide := true) only [if_false, if_true, Bool.false_eq_true]
        rw [finish_upper_lt]
        simp only [toBound_value_normal]
        have hM' : ¬ 0 < M := by omega
        have a : ¬ ty.cmax < T := by omega
        simp only [hM', if_false, a, h1]
      · simp only [hM, if_false]
        by_cases hM2 : M > 0
        · have hM2' : 0 < M := hM2
          simp only [hM2, hM2', if_true, roundGt, Dir.roundUp, emax_cop, hinf]
          simp (decide := true) only [if_false, if_true, Bool.false_eq_true]
          by_cases hT : T = ty.cmax
          · have hb' : (T == ty.cmax) = true := by simp [hT]
            simp only [hb', if_true]
            rw [finish_upper_pinf _ hss]
            simp only [toBound_value_special, infOf]
            have : ty.cmax < T + 1 := by omega
            simp only [this, if_true]
          · have hb' : (T == ty.cmax) = false := by simp [hT]
            simp only [hb', if_false, Bool.false_eq_true]
            rw [finish_upper_lt]
            simp only [toBound_value_normal]
            have a : ¬ ty.cmax < T + 1 := by omega
            have b : ¬ T + 1 < ty.cmin := by omega
            simp only [a, b, if_false]
        · have hM2' : ¬ 0 < M := hM2
          simp only [hM2, hM2', if_false]
          rw [finish_upper_eq]
          simp only [toBound_value_normal]
          have a : ¬ ty.cmax < T := by omega
          simp only [a, h1, if_false]

/-- **`Rounding.native ty` is a sound directed rounding** (`down q ≤ q ≤ up q`, overflow to the infinity of
the direction), for every width and signedness -/
theorem native_sound {ty : IntTy} (hb : 1 ≤ ty.bits) : Rounding.Sound (Rounding.native ty) := by
  constructor
  · intro q
    show lowerOkV (roundSide ty .lower q) false q
    rw [roundSide_lower hb]
    unfold downSpec
    have h1 := Rat.floor_le q
    split
    · simp
    · split
      · rename_i h
        simp only [lowerOkV_fin_closed]
        have : ((ty.cmax : Int) : Rat) < (q.floor : Rat) := by exact_mod_cast h
        linarith
      · simp only [lowerOkV_fin_closed]; exact h1
  · intro q
    show upperOkV (roundSide ty .upper q) false q
    rw [roundSide_upper hb]
    unfold upSpec
    have h1 := Rat.le_ceil (x := q)
    split
    · simp
    · split
      · rename_i h
        simp only [upperOkV_fin_closed]
        have : ((q.ceil : Int) : Rat) < (ty.cmin : Rat) := by exact_mod_cast h
        linarith
      · simp only [upperOkV_fin_closed]; exact h1

theorem native_down {ty : IntTy} (hb : 1 ≤ ty.bits) (q : Rat) : (Rounding.native ty).down q = downSpec ty q :=
  roundSide_lower hb q
theorem native_up {ty : IntTy} (hb : 1 ≤ ty.bits) (q : Rat) : (Rounding.native ty).up q = upSpec ty q :=
  roundSide_upper hb q

end PPLV.Interval.Native
