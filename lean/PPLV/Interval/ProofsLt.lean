import PPLV.Interval.ProofsBound
/-!
# C12 — what `Boundary_NS::lt` decides, read on sets of rationals

Finite case analyses over the three value shapes, the OPEN bits and the policy constants.
-/
set_option linter.unnecessarySeqFocus false
set_option linter.unusedSimpArgs false
set_option linter.unusedVariables false
namespace PPLV.Interval
open ExtRat (ninf fin pinf)

/-- `lt(UPPER, hi, LOWER, lo)` (the test of `is_empty`, `is_disjoint_from`, `difference_assign`):
no rational is above `lo` and below `hi` -/
theorem lt_upper_lower_true {p : Policy} {hi lo : Bound} {a : Rat}
    (h : lt p .upper hi p .lower lo = true) : ¬ (lowerOk p lo a ∧ upperOk p hi a) := by
  obtain ⟨v1, o1⟩ := hi
  obtain ⟨v2, o2⟩ := lo
  obtain ⟨ss, so, mci, ci, mbe⟩ := p
  cases v1 <;> cases v2 <;> cases ss <;> cases so <;> cases mci <;> cases o1 <;> cases o2 <;>
    simp [lt, isOpen, getOpen, isBoundaryInfinity, getSpecial, normalIsBoundaryInfinity, isMinusInfinity,
      isPlusInfinity, isReverseInfinity, ExtRat.le, ExtRat.lt, lowerOk, upperOk] at h ⊢ <;>
    (intros; linarith)

/-- conversely, when the test fails and the bounds are on their own sides, a member exists -/
theorem lt_upper_lower_false {p : Policy} {hi lo : Bound}
    (hlo : lo.value ≠ pinf) (hhi : hi.value ≠ ninf)
    (h : lt p .upper hi p .lower lo = false) : ∃ a : Rat, lowerOk p lo a ∧ upperOk p hi a := by
  obtain ⟨v1, o1⟩ := hi
  obtain ⟨v2, o2⟩ := lo
  obtain ⟨ss, so, mci, ci, mbe⟩ := p
  cases v1 with
  | ninf => simp at hhi
  | pinf =>
    cases v2 with
    | pinf => simp at hlo
    | ninf => exact ⟨0, by simp [lowerOk, upperOk]⟩
    | fin l => exact ⟨l + 1, by cases so <;> cases o2 <;> simp [lowerOk, upperOk, getOpen]⟩
  | fin u =>
    cases v2 with
    | pinf => simp at hlo
    | ninf => exact ⟨u - 1, by cases so <;> cases o1 <;> simp [lowerOk, upperOk, getOpen]⟩
    | fin l =>
      refine ⟨(l + u) / 2, ?_⟩
      cases ss <;> cases so <;> cases mci <;> cases o1 <;> cases o2 <;>
        simp [lt, isOpen, getOpen, isBoundaryInfinity, getSpecial, normalIsBoundaryInfinity, isMinusInfinity,
          isPlusInfinity, isReverseInfinity, ExtRat.le, ExtRat.lt, lowerOk, upperOk] at h ⊢ <;>
        constructor <;> linarith

/-- two lower bounds: `lt` true means the first is the weaker one -/
theorem lt_lower_lower_true {p : Policy} {b1 b2 : Bound} {a : Rat}
    (h : lt p .lower b1 p .lower b2 = true) : lowerOk p b2 a → lowerOk p b1 a := by
  obtain ⟨v1, o1⟩ := b1
  obtain ⟨v2, o2⟩ := b2
  obtain ⟨ss, so, mci, ci, mbe⟩ := p
  cases v1 <;> cases v2 <;> cases ss <;> cases so <;> cases mci <;> cases o1 <;> cases o2 <;>
    simp [lt, isOpen, getOpen, isBoundaryInfinity, getSpecial, normalIsBoundaryInfinity, isMinusInfinity,
      isPlusInfinity, isReverseInfinity, ExtRat.le, ExtRat.lt, lowerOk] at h ⊢ <;>
    (intros; linarith)

theorem lt_lower_lower_false {p : Policy} {b1 b2 : Bound} {a : Rat}
    (h : lt p .lower b1 p .lower b2 = false) : lowerOk p b1 a → lowerOk p b2 a := by
  obtain ⟨v1, o1⟩ := b1
  obtain ⟨v2, o2⟩ := b2
  obtain ⟨ss, so, mci, ci, mbe⟩ := p
  cases v1 <;> cases v2 <;> cases ss <;> cases so <;> cases mci <;> cases o1 <;> cases o2 <;>
    simp [lt, isOpen, getOpen, isBoundaryInfinity, getSpecial, normalIsBoundaryInfinity, isMinusInfinity,
      isPlusInfinity, isReverseInfinity, ExtRat.le, ExtRat.lt, lowerOk] at h ⊢ <;>
    (intros; linarith)

/-- two upper bounds: `lt` true means the second is the weaker one -/
theorem lt_upper_upper_true {p : Policy} {b1 b2 : Bound} {a : Rat}
    (h : lt p .upper b1 p .upper b2 = true) : upperOk p b1 a → upperOk p b2 a := by
  obtain ⟨v1, o1⟩ := b1
  obtain ⟨v2, o2⟩ := b2
  obtain ⟨ss, so, mci, ci, mbe⟩ := p
  cases v1 <;> cases v2 <;> cases ss <;> cases so <;> cases mci <;> cases o1 <;> cases o2 <;>
    simp [lt, isOpen, getOpen, isBoundaryInfinity, getSpecial, normalIsBoundaryInfinity, isMinusInfinity,
      isPlusInfinity, isReverseInfinity, ExtRat.le, ExtRat.lt, upperOk] at h ⊢ <;>
    (intros; linarith)

theorem lt_upper_upper_false {p : Policy} {b1 b2 : Bound} {a : Rat}
    (h : lt p .upper b1 p .upper b2 = false) : upperOk p b2 a → upperOk p b1 a := by
  obtain ⟨v1, o1⟩ := b1
  obtain ⟨v2, o2⟩ := b2
  obtain ⟨ss, so, mci, ci, mbe⟩ := p
  cases v1 <;> cases v2 <;> cases ss <;> cases so <;> cases mci <;> cases o1 <;> cases o2 <;>
    simp [lt, isOpen, getOpen, isBoundaryInfinity, getSpecial, normalIsBoundaryInfinity, isMinusInfinity,
      isPlusInfinity, isReverseInfinity, ExtRat.le, ExtRat.lt, upperOk] at h ⊢ <;>
    (intros; linarith)

end PPLV.Interval
