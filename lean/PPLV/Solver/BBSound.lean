import PPLV.Solver.BBProofs
import PPLV.Solver.Ray

/-!
# C06 stage 3 — soundness of the modelled `solve_mip` recursion, for every fuel

`OracleOK lp`: whatever the LP oracle answers for a well-formed node is right — the three clauses are
the three clauses of `C06.lp_spec` (with the point the LP machinery leaves in `last_generator`).

`solveMip_post`: the invariant of the recursion, relative to a root problem `R` that contains the
node.  UNBOUNDED ⇒ the stored point is a feasible integral point of the root and the root's
relaxation is unbounded.  Otherwise the incumbent is a feasible integral point of the root with the
recorded value, it never gets worse, and no feasible integral point of the *node* beats it.
-/
namespace PPLV.Solver.BB
open PPLV.Lin PPLV.Solver

/-- the relaxation of `P` has points of arbitrarily good objective value -/
def LPUnb (P : Problem) : Prop := ∀ M : Rat, ∃ x, Sat P.cs x ∧ Better P (P.objVal x) M

/-- the LP answer for node `N` is right (clauses of `C06.lp_spec`) -/
def LPCorrect (N : Node) : LPResult → Prop
  | .unfeasible => ∀ x, ¬ Sat N.toProblem.cs x
  | .unbounded p => 0 < p.den ∧ Sat N.toProblem.cs p.val ∧ LPUnb N.toProblem
  | .optimized p => 0 < p.den ∧ Sat N.toProblem.cs p.val ∧
      ∀ x, Sat N.toProblem.cs x → ¬ Better N.toProblem (N.toProblem.objVal x) (objAt N p)

def OracleOK (lp : Oracle) : Prop := ∀ N r, N.toProblem.WF → lp N = some r → LPCorrect N r

/-- node `N` is the root `R` with more rows -/
def Sub (N : Node) (R : Problem) : Prop :=
  N.ivars = R.ints ∧ N.obj = R.obj ∧ N.maximize = R.maximize ∧ ∀ x, Sat N.toProblem.cs x → Sat R.cs x

/-- the incumbent is a feasible integral point of the root with the recorded value -/
def IncOK (R : Problem) (inc : Inc) : Prop :=
  inc.has = true → 0 < inc.pt.den ∧ Feasible R inc.pt.val ∧ R.objVal inc.pt.val = inc.val

theorem Sub.objVal {N : Node} {R : Problem} (h : Sub N R) (x : Val) : N.toProblem.objVal x = R.objVal x := by
  unfold Problem.objVal Node.toProblem; rw [h.2.1]

theorem Sub.better {N : Node} {R : Problem} (h : Sub N R) (a b : Rat) : Better N.toProblem a b ↔ Better R a b :=
  better_congr _ _ h.2.2.1 a b

theorem Sub.feasible {N : Node} {R : Problem} (h : Sub N R) (x : Val) (hx : Feasible N.toProblem x) : Feasible R x :=
  ⟨h.2.2.2 x hx.1, by rw [← h.1]; exact hx.2⟩

theorem Sub.addRow {N : Node} {R : Problem} (h : Sub N R) (r : InRow) : Sub (N.addRow r) R :=
  ⟨h.1, h.2.1, h.2.2.1, fun x hx => h.2.2.2 x (child_subset N r x hx)⟩

theorem Sub.lpUnb {N : Node} {R : Problem} (h : Sub N R) (hu : LPUnb N.toProblem) : LPUnb R := by
  intro M
  obtain ⟨x, hx, hb⟩ := hu M
  exact ⟨x, h.2.2.2 x hx, by rw [← h.objVal, ← h.better]; exact hb⟩

/-- a point of the node's relaxation that is integral on the integer variables is feasible for the root -/
theorem Sub.point_feasible {N : Node} {R : Problem} (h : Sub N R) (p : Pt) (hd : 0 < p.den)
    (hs : Sat N.toProblem.cs p.val) (hi : firstNonInt N.ivars p = none) : Feasible R p.val :=
  h.feasible _ ⟨hs, firstNonInt_none N.ivars p hd hi⟩

/-- the invariant of the recursion -/
def Post (R : Problem) (N : Node) (inc : Inc) (res : Status × Inc) : Prop :=
  (res.1 = .unbounded → 0 < res.2.pt.den ∧ Feasible R res.2.pt.val ∧ LPUnb R) ∧
  (res.1 ≠ .unbounded →
    IncOK R res.2 ∧
    (inc.has = true → res.2.has = true ∧ ¬ Better R inc.val res.2.val) ∧
    (∀ x, Feasible N.toProblem x → res.2.has = true ∧ ¬ Better R (R.objVal x) res.2.val) ∧
    (res.1 = .optimized → res.2.has = true) ∧
    (res.1 = .unfeasible → inc.has = false → res.2.has = false))

theorem better_max (P : Problem) (h : P.maximize = true) (a b : Rat) : Better P a b ↔ b < a := by
  unfold Better; simp [h]

theorem better_min (P : Problem) (h : P.maximize = false) (a b : Rat) : Better P a b ↔ a < b := by
  unfold Better; simp [h]

theorem post_unb (R : Problem) (N : Node) (inc inc' : Inc)
    (h : 0 < inc'.pt.den ∧ Feasible R inc'.pt.val ∧ LPUnb R) : Post R N inc (.unbounded, inc') :=
  ⟨fun _ => h, fun hst => absurd rfl hst⟩

theorem post_other (R : Problem) (N : Node) (inc inc' : Inc) (st : Status) (hst : st ≠ .unbounded)
    (h : IncOK R inc' ∧
      (inc.has = true → inc'.has = true ∧ ¬ Better R inc.val inc'.val) ∧
      (∀ x, Feasible N.toProblem x → inc'.has = true ∧ ¬ Better R (R.objVal x) inc'.val) ∧
      (st = .optimized → inc'.has = true) ∧
      (st = .unfeasible → inc.has = false → inc'.has = false)) : Post R N inc (st, inc') :=
  ⟨fun h' => absurd h' hst, fun _ => h⟩

/-! ### the node-local decisions -/

/-- **the pruning test never discards a strictly better integral point**: when the node is abandoned
    every point of its relaxation (a fortiori every integral one) is no better than the incumbent -/
theorem pruned_safe (N : Node) (inc : Inc) (v : Rat) (h : pruned N inc v = true) (x : Val)
    (hx : ¬ Better N.toProblem (N.toProblem.objVal x) v) :
    inc.has = true ∧ ¬ Better N.toProblem (N.toProblem.objVal x) inc.val := by
  unfold pruned at h
  rw [Bool.and_eq_true] at h
  refine ⟨h.1, ?_⟩
  cases hmx : N.maximize
  · have hP : N.toProblem.maximize = false := hmx
    rw [better_min _ hP] at hx ⊢
    simp only [hmx, Bool.false_and, Bool.not_false, Bool.true_and, Bool.false_or, mpqLe_iff] at h
    linarith [not_lt.mp hx, h.2]
  · have hP : N.toProblem.maximize = true := hmx
    rw [better_max _ hP] at hx ⊢
    simp only [hmx, Bool.true_and, Bool.not_true, Bool.false_and, Bool.or_false, mpqLe_iff] at h
    linarith [not_lt.mp hx, h.2]

/-- not pruned with an incumbent: the LP value is strictly better than the incumbent -/
theorem not_pruned_better (N : Node) (inc : Inc) (v : Rat) (h : pruned N inc v = false) (hh : inc.has = true) :
    Better N.toProblem v inc.val := by
  unfold pruned at h
  rw [hh, Bool.true_and] at h
  cases hmx : N.maximize
  · have hP : N.toProblem.maximize = false := hmx
    rw [better_min _ hP]
    simp only [hmx, Bool.false_and, Bool.not_false, Bool.true_and, Bool.false_or] at h
    have : ¬ inc.val ≤ v := fun hc => by rw [(mpqLe_iff _ _).mpr hc] at h; cases h
    exact not_le.mp this
  · have hP : N.toProblem.maximize = true := hmx
    rw [better_max _ hP]
    simp only [hmx, Bool.true_and, Bool.not_true, Bool.false_and, Bool.or_false] at h
    have : ¬ v ≤ inc.val := fun hc => by rw [(mpqLe_iff _ _).mpr hc] at h; cases h
    exact not_le.mp this

/-- **the incumbent update keeps the best-so-far invariant**: after a node that was not pruned the
    incumbent is the LP point — including the unguarded third disjunct of the code -/
theorem updateInc_eq (N : Node) (inc : Inc) (v : Rat) (p : Pt) (h : pruned N inc v = false) :
    updateInc N inc v p = ⟨true, v, p⟩ := by
  unfold updateInc
  cases hh : inc.has
  · simp
  · have hb := not_pruned_better N inc v h hh
    cases hmx : N.maximize
    · have hP : N.toProblem.maximize = false := hmx
      rw [better_min _ hP] at hb
      simp [(mpqLt_iff _ _).mpr hb]
    · have hP : N.toProblem.maximize = true := hmx
      rw [better_max _ hP] at hb
      simp [(mpqLt_iff _ _).mpr hb]

/-! ### composition of the two children -/

theorem post_children (R : Problem) (N : Node) (inc inc1 inc2 : Inc) (st1 st2 : Status) (ms : Status)
    (i : Nat) (hi : i ∈ N.ivars) (q : Rat)
    (h1 : Post R (N.addRow (branchLe i (floorQ q))) inc (st1, inc1)) (hs1 : st1 ≠ .unbounded)
    (h2 : Post R (N.addRow (branchGe i (ceilQ q))) inc1 (st2, inc2)) (hs2 : st2 ≠ .unbounded)
    (hms : ms = .unbounded → LPUnb R) (hms2 : ms ≠ .unfeasible) :
    Post R N inc (if inc2.has then ms else .unfeasible, inc2) := by
  obtain ⟨a1, b1, c1, -, -⟩ := h1.2 hs1
  obtain ⟨a2, b2, c2, -, -⟩ := h2.2 hs2
  have hmono : inc.has = true → inc2.has = true ∧ ¬ Better R inc.val inc2.val := by
    intro hh
    obtain ⟨e1, n1⟩ := b1 hh
    obtain ⟨e2, n2⟩ := b2 e1
    exact ⟨e2, nb_trans R _ _ _ n1 n2⟩
  have hcov : ∀ x, Feasible N.toProblem x → inc2.has = true ∧ ¬ Better R (R.objVal x) inc2.val := by
    intro x hx
    rcases children_cover N i hi q x hx with hL | hRr
    · obtain ⟨e1, n1⟩ := c1 x hL
      obtain ⟨e2, n2⟩ := b2 e1
      exact ⟨e2, nb_trans R _ _ _ n1 n2⟩
    · exact c2 x hRr
  cases hh : inc2.has
  · simp only [Bool.false_eq_true, if_false]
    refine post_other R N inc inc2 .unfeasible (by simp) ⟨a2, hmono, hcov, fun h => (by cases h), fun _ _ => hh⟩
  · simp only [if_true]
    by_cases hu : ms = .unbounded
    · subst hu
      obtain ⟨d, f, -⟩ := a2 hh
      exact post_unb R N inc inc2 ⟨d, f, hms rfl⟩
    · exact post_other R N inc inc2 ms hu ⟨a2, hmono, hcov, fun _ => hh, fun h => absurd h hms2⟩

/-! ### the recursion -/

theorem solveMip_post (lp : Oracle) (hO : OracleOK lp) (R : Problem) :
    ∀ (fuel : Nat) (inc : Inc) (N : Node) (res : Status × Inc),
      N.toProblem.WF → Sub N R → IncOK R inc → solveMip lp fuel inc N = some res → Post R N inc res := by
  intro fuel
  induction fuel with
  | zero => intro inc N res _ _ _ h; simp [solveMip] at h
  | succ fuel ih =>
    intro inc N res hwf hsub hinc h
    rw [solveMip] at h
    cases hlp : lp N with
    | none => rw [hlp] at h; cases h
    | some r =>
      rw [hlp] at h
      simp only at h
      have hc := hO N r hwf hlp
      -- the LP of the node is unfeasible
      by_cases hunf : (r.mipStatus == Status.unfeasible) = true
      · rw [if_pos hunf] at h
        injection h with h; subst h
        have hr : r = .unfeasible := by cases r <;> simp_all [LPResult.mipStatus]
        subst hr
        exact post_other R N inc inc .unfeasible (by simp)
          ⟨hinc, fun hh => ⟨hh, nb_refl R _⟩, fun x hx => absurd hx.1 (hc x), fun hst => (by cases hst), fun _ hh => hh⟩
      · rw [if_neg hunf] at h
        -- facts shared by UNBOUNDED and OPTIMIZED
        have hp : 0 < r.pt.den ∧ Sat N.toProblem.cs r.pt.val := by
          cases r with
          | unfeasible => simp [LPResult.mipStatus] at hunf
          | unbounded p => exact ⟨hc.1, hc.2.1⟩
          | optimized p => exact ⟨hc.1, hc.2.1⟩
        have hms2 : r.mipStatus ≠ .unfeasible := by
          intro hh; rw [hh] at hunf; simp at hunf
        have hmsU : r.mipStatus = .unbounded → LPUnb R := by
          intro hh
          cases r with
          | unfeasible => cases hh
          | unbounded p => exact hsub.lpUnb hc.2.2
          | optimized p => cases hh
        by_cases hpr : (r.mipStatus == Status.optimized && pruned N inc (objAt N r.pt)) = true
        · -- abandoned: the relaxation is not better than the incumbent
          rw [if_pos hpr] at h
          injection h with h; subst h
          rw [Bool.and_eq_true] at hpr
          have hro : r.mipStatus = .optimized := by simpa using hpr.1
          cases r with
          | unfeasible => cases hro
          | unbounded p => cases hro
          | optimized p =>
            have hprn : pruned N inc (objAt N p) = true := hpr.2
            have hhas : inc.has = true := by
              unfold pruned at hprn
              rw [Bool.and_eq_true] at hprn
              exact hprn.1
            refine post_other R N inc inc .optimized (by simp)
              ⟨hinc, fun hh => ⟨hh, nb_refl R _⟩, ?_, fun _ => hhas, fun hst => by cases hst⟩
            intro x hx
            have := pruned_safe N inc (objAt N p) hprn x (hc.2.2 x hx.1)
            rw [hsub.better, hsub.objVal] at this
            exact this
        · rw [if_neg hpr] at h
          cases hfn : firstNonInt N.ivars r.pt with
          | none =>
            rw [hfn] at h
            simp only at h
            have hfeas : Feasible R r.pt.val := hsub.point_feasible r.pt hp.1 hp.2 hfn
            by_cases hub : (r.mipStatus == Status.unbounded) = true
            · rw [if_pos hub] at h
              injection h with h; subst h
              have hru : r.mipStatus = .unbounded := by simpa using hub
              exact post_unb R N inc _ ⟨hp.1, hfeas, hmsU hru⟩
            · rw [if_neg hub] at h
              injection h with h; subst h
              cases r with
              | unfeasible => simp [LPResult.mipStatus] at hunf
              | unbounded p => simp [LPResult.mipStatus] at hub
              | optimized p =>
                have hnp : pruned N inc (objAt N p) = false := by
                  simpa [LPResult.mipStatus, LPResult.pt] using hpr
                have hupd := updateInc_eq N inc (objAt N p) p hnp
                have hfeas' : Feasible R p.val := hfeas
                have hpd : 0 < p.den := hp.1
                show Post R N inc (Status.optimized, updateInc N inc (objAt N p) p)
                rw [hupd]
                refine post_other R N inc _ .optimized (by simp) ⟨?_, ?_, ?_, fun _ => rfl, fun hst => by cases hst⟩
                · intro _
                  exact ⟨hpd, hfeas', by rw [← hsub.objVal]; rfl⟩
                · intro hh
                  refine ⟨rfl, ?_⟩
                  have hb := not_pruned_better N inc (objAt N p) hnp hh
                  rw [hsub.better] at hb
                  show ¬ Better R inc.val (objAt N p)
                  unfold Better at hb ⊢
                  split at hb <;> simp_all <;> linarith
                · intro x hx
                  refine ⟨rfl, ?_⟩
                  have := hc.2.2 x hx.1
                  rw [hsub.better, hsub.objVal] at this
                  exact this
          | some i =>
            rw [hfn] at h
            simp only at h
            obtain ⟨hi, -⟩ := firstNonInt_some N.ivars r.pt i hp.1 hfn
            obtain ⟨hwfL, -⟩ := wf_addRow_branch N i (floorQ (coord r.pt i)) hwf hi
            obtain ⟨-, hwfR⟩ := wf_addRow_branch N i (ceilQ (coord r.pt i)) hwf hi
            cases h1 : solveMip lp fuel inc (N.addRow (branchLe i (floorQ (coord r.pt i)))) with
            | none => rw [h1] at h; cases h
            | some res1 =>
              obtain ⟨st1, inc1⟩ := res1
              rw [h1] at h
              simp only at h
              have p1 := ih inc _ _ hwfL (hsub.addRow _) hinc h1
              by_cases hu1 : (st1 == Status.unbounded) = true
              · rw [if_pos hu1] at h
                injection h with h; subst h
                have : st1 = .unbounded := by simpa using hu1
                exact post_unb R N inc _ (p1.1 this)
              · rw [if_neg hu1] at h
                have hs1 : st1 ≠ .unbounded := by intro hh; rw [hh] at hu1; simp at hu1
                have hinc1 : IncOK R inc1 := (p1.2 hs1).1
                cases h2 : solveMip lp fuel inc1 (N.addRow (branchGe i (ceilQ (coord r.pt i)))) with
                | none => rw [h2] at h; cases h
                | some res2 =>
                  obtain ⟨st2, inc2⟩ := res2
                  rw [h2] at h
                  simp only at h
                  have p2 := ih inc1 _ _ hwfR (hsub.addRow _) hinc1 h2
                  by_cases hu2 : (st2 == Status.unbounded) = true
                  · rw [if_pos hu2] at h
                    injection h with h; subst h
                    have : st2 = .unbounded := by simpa using hu2
                    exact post_unb R N inc _ (p2.1 this)
                  · rw [if_neg hu2] at h
                    injection h with h; subst h
                    have hs2 : st2 ≠ .unbounded := by intro hh; rw [hh] at hu2; simp at hu2
                    exact post_children R N inc inc1 inc2 st1 st2 r.mipStatus i hi (coord r.pt i) p1 hs1 p2 hs2 hmsU hms2

/-! ### from "relaxation unbounded + one integral feasible point" to "MIP unbounded" -/

/-- the rule by which the code decides UNBOUNDED is valid for rational data: an unbounded relaxation
    has a rational improving recession direction (`unbounded_has_ray`, Farkas), and a multiple of it
    keeps the integer variables integral (`unbounded_max_of_point_and_ray`) -/
theorem unbounded_of_point_and_lpUnb (R : Problem) (hwf : R.WF) (x : Val) (hx : Feasible R x) (hu : LPUnb R) :
    IsUnbounded R := by
  obtain ⟨h1, h2, h3, -⟩ := hwf
  have hobj := linObj_maxObj R
  have hunb : ∀ M : Rat, ∃ y, Sat R.cs y ∧ M < dot R.maxObj.1 y := by
    intro M
    by_cases hm : R.maximize = true
    · obtain ⟨y, hy, hb⟩ := hu (M + (R.maxObj.2 : Rat))
      refine ⟨y, hy, ?_⟩
      have := hobj y
      simp only [hm, if_true, linObj] at this
      unfold Better at hb; simp only [hm, if_true] at hb
      linarith
    · obtain ⟨y, hy, hb⟩ := hu (-(M + (R.maxObj.2 : Rat)))
      refine ⟨y, hy, ?_⟩
      have := hobj y
      simp only [hm, Bool.false_eq_true, if_false, linObj] at this
      unfold Better at hb; simp only [hm, Bool.false_eq_true, if_false] at hb
      linarith
  obtain ⟨d, hd⟩ := unbounded_has_ray R.n R.maxObj.1 R.cs h1 (maxObj_length R h3) h2 hunb
  have := unbounded_max_of_point_and_ray R.maxObj.1 R.maxObj.2 R.ints R.cs x d hx hd
  have h := isAnswer_of_correct R .unbounded this rfl
  have hb : R.back .unbounded = .unbounded := by unfold Problem.back; split <;> rfl
  rw [hb] at h
  exact h

end PPLV.Solver.BB
