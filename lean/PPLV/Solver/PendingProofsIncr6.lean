import PPLV.Solver.PendingProofsIncr5

/-!
# C06 stage 3 — the insertion loop against a non-empty old tableau: `GCtx.ginsert_spec`
-/
namespace PPLV.Solver.Pend
open PPLV.Lin PPLV.Solver PPLV.Solver.Tab
open InsCtx (filter_length_le_take take_succ_filter getD_set_row' count_set_true)

namespace GCtx
variable (C : GCtx)

theorem wcount_step (i : Nat) (hi : i < C.pend.length) :
    C.wcount i = (if C.isSat.getD i false then 1 else 0) + C.wcount (i+1) := by
  unfold wcount
  have : (List.range C.pend.length).drop i = i :: (List.range C.pend.length).drop (i+1) := by
    rw [List.drop_eq_getElem_cons (by simpa using hi)]; simp
  rw [this, List.countP_cons]
  omega

/-- one step of the loop keeps the invariant -/
theorem gstep_inv (i : Nat) (hi : i < C.pend.length) (st : Ins) (h : C.GInv (i+1) st) : C.GInv i (C.step i st) := by
  have hdrop : C.pend.drop i = C.pend.getD i default :: C.pend.drop (i+1) := by
    rw [List.getD_eq_getElem?_getD, List.getElem?_eq_getElem hi]
    exact List.drop_eq_getElem_cons hi
  rw [C.gstep_eq i hi st]
  set c := C.pend.getD i default with hc
  have hcmem : c ∈ C.pend := by
    rw [hc, List.getD_eq_getElem?_getD, List.getElem?_eq_getElem hi]; exact List.getElem_mem _
  have hk := take_succ_filter C.pend i hi tabC
  have hs := take_succ_filter C.pend i hi slackC
  rw [← hc] at hk hs
  have hw := C.wcount_step i hi
  have hsatc := C.hsat i hi
  rw [← hc] at hsatc
  by_cases ht : tabC c = true
  swap
  · have ht' : tabC c = false := by simpa using ht
    have hsl : slackC c = false := by unfold slackC; rw [ht']; rfl
    rw [if_pos ht']
    rw [ht'] at hk; rw [hsl] at hs
    simp only [Bool.false_eq_true, if_false, Nat.add_zero] at hk hs
    have hns : C.isSat.getD i false ≠ true := fun a => by have := (hsatc a).1; rw [hsl] at this; cases this
    rw [if_neg hns] at hw
    refine ⟨by rw [h.k_eq, hk], by rw [h.sl_eq, hs], h.lenT, h.lenB, h.lenW, h.oldT, h.oldB, h.oldW, h.low, h.rows,
      h.w_iff, h.bRange, h.pb, h.feasNew, h.star, by rw [h.cnt, hw]; omega, ?_, ?_⟩
    · intro y h0 hnn hold hrows c' hc' htc'
      rw [hdrop] at hc'
      rcases List.mem_cons.mp hc' with rfl | hc'
      · rw [ht'] at htc'; cases htc'
      · exact h.sound y h0 hnn hold hrows c' hc' htc'
    · intro y0 h0 hnn hold hall
      exact h.complete y0 h0 hnn hold (fun c' hc' => hall c' (by rw [hdrop]; exact List.mem_cons_of_mem _ hc'))
  rw [if_neg (by rw [ht]; simp)]
  rw [ht] at hk; simp only [if_true] at hk
  have hkN := C.kN _ _ h
  have hSLle := C.SLle _ _ h
  have hV1 := C.V1
  have hjV := C.hjV
  have hk1 : C.R0 + 1 ≤ st.k := by rw [h.k_eq, hk]; omega
  have hkB : st.k - 1 < st.base.length := by rw [h.lenB]; omega
  have hkW : st.k - 1 < st.worked.length := by rw [h.lenW]; omega
  obtain ⟨lw, lb, _⟩ := h.low (st.k - 1) (by omega) (by omega)
  have e1 : st.base.set (st.k - 1) 0 = st.base := set_eq_self_nat _ _ lb hkB
  have e2 : st.worked.set (st.k - 1) false = st.worked := set_eq_self_bool _ _ lw hkW
  obtain ⟨r1, r2, r3⟩ := constraintRow_spec C.M C.nn C.n C.j C.numCols C.hM
    (by have := C.hSL; omega) c (C.hlen c hcmem)
  set row0 := constraintRow C.numCols C.M c with hrow0
  by_cases he : c.isEq = true
  · rw [if_pos he]
    have hns : C.isSat.getD i false ≠ true := fun a => by
      have := (hsatc a).1; unfold slackC at this; rw [he] at this; simp at this
    rw [if_neg hns] at hw
    have := C.ins_common i hi st h ht row0 false st.slackIndex 0 (Or.inr ⟨rfl, rfl⟩)
      (fun _ => ⟨rfl, rfl⟩) (fun a => by rw [← hc, he] at a; cases a) r1
      (fun col hcol => r2 col (by rcases hcol with ⟨a, _⟩ | a <;> [skip; unfold SL at a] <;> omega))
      (fun a => by rw [← hc, he] at a; cases a)
      (fun y h0 => by rw [← hc, if_pos he, sub_zero]; exact r3 y h0)
      (fun a => by cases a)
      (by rw [e2, h.cnt, hw]; omega)
    rw [e1, e2] at this
    exact this
  · rw [if_neg he]
    have he' : c.isEq = false := by simpa using he
    have hsl : slackC c = true := by unfold slackC; rw [ht, he']; rfl
    rw [hsl] at hs; simp only [if_true] at hs
    have hslpos : C.V + 1 ≤ st.slackIndex := by rw [h.sl_eq, hs]; omega
    have hsiV : C.V ≤ st.slackIndex - 1 := by omega
    have hsilen : st.slackIndex - 1 < row0.length := by
      rw [r1]; have := C.hSL; unfold SL at hSLle; omega
    set sl' := st.slackIndex - 1 with hsl'
    set row1 : Row := row0.set sl' (-1) with hrow1
    have row1_len : row1.length = C.numCols := by rw [hrow1, List.length_set]; exact r1
    have row1_get : ∀ col, row1.get col = if col = sl' then -1 else row0.get col := by
      intro col
      unfold Row.get
      rw [hrow1, getD_set_int]
      by_cases hcol : col = sl'
      · rw [if_pos ⟨hcol, hsilen⟩, if_pos hcol]
      · rw [if_neg (fun a => hcol a.1), if_neg hcol]
    have row1_val : ∀ y : Val, y 0 = 1 →
        rowVal row1 y = dot c.coeffs (proj C.M y) + (c.k : Rat) - y sl' := by
      intro y h0
      unfold rowVal
      rw [hrow1, dot_set _ _ _ _ hsilen]
      have : row0.getD sl' 0 = 0 := r2 _ (by omega)
      rw [this]
      have := r3 y h0
      unfold rowVal at this
      rw [this]; push_cast; ring
    have r1zero : ∀ col, ((C.V ≤ col ∧ col < sl') ∨ C.SL ≤ col) → row1.get col = 0 := by
      intro col hcol
      rw [row1_get, if_neg (by rcases hcol with ⟨_, b⟩ | b <;> omega)]
      exact r2 col (by rcases hcol with ⟨a, _⟩ | a <;> [skip; unfold SL at a] <;> omega)
    by_cases hsat : C.isSat.getD i false = true
    · rw [if_pos hsat]
      rw [if_pos hsat] at hw
      exact C.ins_common i hi st h ht row1 true sl' sl' (Or.inl ⟨rfl, rfl⟩)
        (fun a => by rw [← hc, he'] at a; cases a) (fun _ => ⟨by omega, hsiV⟩) row1_len r1zero
        (fun _ => by rw [row1_get, if_pos rfl])
        (fun y h0 => by rw [← hc, if_neg he]; exact row1_val y h0)
        (fun _ => (hsatc hsat).2)
        (by rw [count_set_true _ _ hkW lw, h.cnt, hw]; omega)
    · rw [if_neg hsat]
      rw [if_neg hsat] at hw
      have := C.ins_common i hi st h ht row1 false sl' 0 (Or.inr ⟨rfl, rfl⟩)
        (fun a => by rw [← hc, he'] at a; cases a) (fun _ => ⟨by omega, hsiV⟩) row1_len r1zero
        (fun _ => by rw [row1_get, if_pos rfl])
        (fun y h0 => by rw [← hc, if_neg he]; exact row1_val y h0)
        (fun a => by cases a)
        (by rw [e2, h.cnt, hw]; omega)
      rw [e1, e2] at this
      exact this

/-- **the insertion loop** of an incremental call -/
theorem ginsert_spec : C.GInv 0 (revFold C.pend.length C.step C.init) :=
  revFold_inv (fun i st => C.GInv i st) C.step C.pend.length C.init C.init_inv
    (fun i hi st hst => C.gstep_inv i hi st hst)

end GCtx

end PPLV.Solver.Pend
