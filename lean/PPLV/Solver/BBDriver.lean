import PPLV.Solver.BB

/-! `pplv_mip --bb`: replays the branch-and-bound trees journalled by harness/c06_bb.cc on the model
`PPLV/Solver/BB.lean`.

For every case the `bb` / `sat` lines give, node by node, what the REAL LP machinery answered at the
node and what the REAL `solve_mip` / `is_mip_satisfiable` returned for the whole subtree of the node,
started from the journalled incumbent.  The driver
* checks every journalled LP answer against the verified reference (`lpAnswer`, exact feasibility
  of the point, objective value) — this is the hypothesis `OracleOK` of `C06.solve_mip_sound`;
* runs `solveMip` / `isMipSatisfiable` with the journalled LP answers as oracle from the journalled
  entry incumbent and compares status, incumbent flag, value and point EXACTLY with the real
  result — for every node, so the trees agree node for node;
* compares the branching variable of `choose_branching_variable`;
* compares `solveTop` / the root of the satisfiability tree with the public `solve()` /
  `is_satisfiable()` answers.

Verdicts: `ok <case> <what> <id>`, `skip <case> <what> <id> <why>`,
`MISMATCH <case> <obligation> <id> <detail>` with obligation ∈ {lp-oracle, sub-answer, sat-answer, top-ref, node, branch-var, sat-node, top}. -/
namespace PPLV.Solver.BBDriver
open PPLV.Lin PPLV.Solver PPLV.Solver.BB

def ratStr (q : Rat) : String := if q.den == 1 then s!"{q.num}" else s!"{q.num}/{q.den}"

def padTo (n : Nat) (l : List Int) : List Int := (List.range n).map fun i => l.getD i 0

def ptKey (n : Nat) (p : Pt) : List Int := p.den :: padTo n p.num
def ptStr (n : Nat) (p : Pt) : String := " ".intercalate ((ptKey n p).map toString)

def parseRow (n : Nat) (ts : List String) : InRow × List String :=
  match ts with
  | rel :: k :: rest =>
    let (cf, rest') := takeInts n rest
    (⟨cf, tokInt k, rel == "="⟩, rest')
  | _ => (default, [])

def parseRows (n : Nat) : Nat → List String → List InRow × List String
  | 0, ts => ([], ts)
  | m + 1, ts =>
    let (r, ts') := parseRow n ts
    let (rs, ts'') := parseRows n m ts'
    (r :: rs, ts'')

def parsePt (n : Nat) (ts : List String) : Pt × List String :=
  match ts with
  | d :: rest => let (cf, rest') := takeInts n rest; (⟨cf, tokInt d⟩, rest')
  | [] => (default, [])

def parseInc (n : Nat) (ts : List String) : Inc × List String :=
  match ts with
  | "inc" :: h :: num :: den :: rest =>
    let (p, rest') := parsePt n rest
    (⟨h == "1", (tokInt num : Rat) / (tokInt den : Rat), p⟩, rest')
  | _ => (Inc.init, [])

def parseRoot (ts : List String) : Option Node :=
  match ts with
  | nS :: mode :: mS :: rest =>
    let n := tokNat nS
    let (rows, rest1) := parseRows n (tokNat mS) rest
    match rest1 with
    | "ivars" :: kS :: rest2 =>
      let k := tokNat kS
      let ivs := (rest2.take k).map tokNat
      match rest2.drop k with
      | "obj" :: rest3 =>
        let (e, _) := parseExpr n rest3
        some { n := n, rows := rows, ivars := ivs, obj := e, maximize := mode == "max" }
      | _ => none
    | _ => none
  | _ => none

inductive RealRes
  | timeout
  | res (st : Status) (inc : Inc)
deriving Inhabited

structure BBLine where
  id : Nat
  parent : Int
  side : String
  var : Nat
  bound : Int
  entry : Inc
  lp : Option LPResult        -- none = timeout
  res : RealRes
deriving Inhabited

inductive SatRes | timeout | no | yes (p : Pt)
deriving Inhabited

structure SatLine where
  id : Nat
  parent : Int
  side : String
  var : Nat
  bound : Int
  lp : Option (Option Pt)
  br : Option Nat
  res : SatRes
deriving Inhabited

def parseStatus (s : String) : Status :=
  if s == "unbounded" then .unbounded else if s == "optimized" then .optimized else .unfeasible

def parseBB (n : Nat) (ts : List String) : Option BBLine :=
  match ts with
  | id :: par :: side :: var :: bound :: rest =>
    let (entry, rest1) := parseInc n rest
    let mk (lp : Option LPResult) (rest2 : List String) : Option BBLine :=
      match rest2 with
      | "res" :: "timeout" :: _ => some ⟨tokNat id, tokInt par, side, tokNat var, tokInt bound, entry, lp, .timeout⟩
      | "res" :: st :: rest3 =>
        let (inc, _) := parseInc n rest3
        some ⟨tokNat id, tokInt par, side, tokNat var, tokInt bound, entry, lp, .res (parseStatus st) inc⟩
      | _ => none
    match rest1 with
    | "lp" :: "timeout" :: _ => some ⟨tokNat id, tokInt par, side, tokNat var, tokInt bound, entry, none, .timeout⟩
    | "lp" :: "unfeasible" :: rest2 => mk (some .unfeasible) rest2
    | "lp" :: "unbounded" :: rest2 => let (p, r) := parsePt n rest2; mk (some (.unbounded p)) r
    | "lp" :: "optimized" :: rest2 => let (p, r) := parsePt n rest2; mk (some (.optimized p)) r
    | _ => none
  | _ => none

def parseSat (n : Nat) (ts : List String) : Option SatLine :=
  match ts with
  | id :: par :: side :: var :: bound :: "lp" :: rest =>
    let base (lp : Option (Option Pt)) (rest1 : List String) : Option SatLine :=
      match rest1 with
      | "br" :: b :: "res" :: rest2 =>
        let br := if b == "-" then none else some (tokNat b)
        let res : SatRes := match rest2 with
          | "timeout" :: _ => .timeout
          | "0" :: _ => .no
          | "1" :: r => .yes (parsePt n r).1
          | _ => .timeout
        some ⟨tokNat id, tokInt par, side, tokNat var, tokInt bound, lp, br, res⟩
      | _ => none
    match rest with
    | "timeout" :: _ => some ⟨tokNat id, tokInt par, side, tokNat var, tokInt bound, none, none, .timeout⟩
    | "0" :: rest1 => base (some none) rest1
    | "1" :: rest1 => let (p, r) := parsePt n rest1; base (some (some p)) r
    | _ => none
  | _ => none

/-- node of a line: the parent's node plus the branching row -/
def nodeOf (root : Node) (nodes : List (Nat × Node)) (parent : Int) (side : String) (var : Nat) (bound : Int) : Option Node :=
  if parent < 0 then some root
  else match nodes.lookup parent.toNat with
    | none => none
    | some P => some (P.addRow (if side == "L" then branchLe var bound else branchGe var bound))

/-- the reference judgement of one journalled LP answer (`OracleOK`) -/
def lpCheck (N : Node) (ans : Answer) (r : LPResult) : Option String :=
  let P := N.toProblem
  let R : Problem := { P with ints := [] }
  match r, ans with
  | .unfeasible, .unfeasible => none
  | .unbounded p, .unbounded =>
    if decide (0 < p.den) && checkFeasible R p then none else some "unbounded: last_generator is not a point of the relaxation"
  | .optimized p, .optimum v =>
    if !(decide (0 < p.den) && checkFeasible R p) then some "optimized: last_generator is not a point of the relaxation"
    else if P.objVal p.val != v then some s!"optimized: objective at last_generator {ratStr (P.objVal p.val)}, reference optimum {ratStr v}"
    else none
  | .unfeasible, a => some s!"library unfeasible, reference {repr a}"
  | .unbounded _, a => some s!"library unbounded, reference {repr a}"
  | .optimized _, a => some s!"library optimized, reference {repr a}"

def statusStr : Status → String
  | .unfeasible => "unfeasible" | .unbounded => "unbounded" | .optimized => "optimized"

def incStr (n : Nat) (i : Inc) : String := s!"has={i.has} val={ratStr i.val} pt={ptStr n i.pt}"

/-- exact comparison of the incumbent states (value only meaningful when `has`) -/
def incEq (n : Nat) (a b : Inc) : Bool :=
  a.has == b.has && (!a.has || a.val == b.val) && ptKey n a.pt == ptKey n b.pt

/-- the conclusions of `C06.solve_mip_sound` on a real result `(st, inc)` of the node `N` entered with
    `entry`: `.inl why` = not decidable here (size), `.inr none` = all hold, `.inr (some d)` = `d` fails -/
def subAnswer (root N : Node) (entry : Inc) (st : Status) (inc : Inc) : String ⊕ Option String :=
  let R := root.toProblem
  let P := N.toProblem
  -- (an UNBOUNDED return overwrites `incumbent_solution_point` only: flag and value are stale then)
  if st != .unbounded && inc.has && !(decide (0 < inc.pt.den) && checkWitness R inc.pt inc.val) then
    .inr (some "the incumbent is not a feasible integral point of the root problem with the recorded value")
  else if st != .unbounded && entry.has && !(inc.has && R.notBetter entry.val inc.val) then
    .inr (some "the incumbent got worse")
  else match st with
  | .unbounded =>
    if !(decide (0 < inc.pt.den) && checkFeasible R inc.pt) then .inr (some "UNBOUNDED but the stored point is not a feasible integral point of the root problem")
    else if !(rayExists R) then .inr (some "UNBOUNDED but the root relaxation has no improving recession direction")
    else .inr none
  | _ =>
    match mipSize P with
    | none => .inl "unbounded-int-var"
    | some sz =>
      if sz > 300 then .inl "size" else
      match mipRef P with
      | .unfeasible =>
        if !entry.has && st != .unfeasible then .inr (some "no integral point in the node, no incumbent at entry, yet not UNFEASIBLE") else .inr none
      | .optimum w =>
        if !inc.has then .inr (some s!"an integral point of value {ratStr w} exists in the node but no incumbent was recorded")
        else if !(R.notBetter w inc.val) then .inr (some s!"an integral point of value {ratStr w} in the node beats the incumbent {ratStr inc.val}")
        else if !entry.has && (st != .optimized || inc.val != w) then .inr (some s!"optimum of the node is {ratStr w}")
        else .inr none
      | .unbounded => .inr (some "the node has integral points of arbitrarily good value but the status is not UNBOUNDED")
      | .unknownUnboundedIntVar => .inl "unbounded-int-var"

structure Stats where
  nOk : Nat := 0
  nBad : Nat := 0
  nSkip : Nat := 0
  nodes : Nat := 0
  satNodes : Nat := 0
  pruned : Nat := 0
  lpUnf : Nat := 0
  lpUnb : Nat := 0
  lpOpt : Nat := 0
  incUpd : Nat := 0
  maxTree : Nat := 0
  trees : Nat := 0
  treeSizes : List Nat := []

structure Case where
  id : String := ""
  root : Option Node := none
  bb : Array BBLine := #[]
  sat : Array SatLine := #[]
  tops : List (List String) := []
  cut : Bool := false

abbrev M := StateT Stats IO

def ok (c what : String) (id : Nat) : M Unit := do
  modify fun s => { s with nOk := s.nOk + 1 }; IO.println s!"ok {c} {what} {id}"
def bad (c obl : String) (id : Nat) (d : String) : M Unit := do
  modify fun s => { s with nBad := s.nBad + 1 }; IO.println s!"MISMATCH {c} {obl} {id} {d}"
def skip (c what : String) (id : Nat) (why : String) : M Unit := do
  modify fun s => { s with nSkip := s.nSkip + 1 }; IO.println s!"skip {c} {what} {id} {why}"

def fuel : Nat := 80

def finishCase (cs : Case) : M Unit := do
  match cs.root with
  | none => return ()
  | some root =>
    let c := cs.id
    let n := root.n
    if !root.toProblem.wfB then
      bad c "node" 0 "ill-formed root data"
      return ()
    -- ---- the optimisation tree -------------------------------------------------------------
    let mut nodes : List (Nat × Node) := []
    let mut table : List (List InRow × LPResult) := []
    let mut refs : List (List InRow × Answer) := []
    let mut lpBad : Bool := false
    for l in cs.bb do
      match nodeOf root nodes l.parent l.side l.var l.bound with
      | none => skip c "bb" l.id "orphan"
      | some N =>
        nodes := (l.id, N) :: nodes
        match l.lp with
        | none => pure ()
        | some r =>
          table := (N.rows, r) :: table
          let ans := lpAnswer N.toProblem
          refs := (N.rows, ans) :: refs
          modify fun s => match r with
            | .unfeasible => { s with lpUnf := s.lpUnf + 1 }
            | .unbounded _ => { s with lpUnb := s.lpUnb + 1 }
            | .optimized _ => { s with lpOpt := s.lpOpt + 1 }
          match lpCheck N ans r with
          | none => ok c "lp" l.id
          | some d => lpBad := true; bad c "lp-oracle" l.id d
    let oracle : Oracle := fun N => (table.find? (fun e => e.1 == N.rows)).map (·.2)
    if cs.bb.size > 0 then
      modify fun s => { s with trees := s.trees + 1, nodes := s.nodes + cs.bb.size,
                               maxTree := max s.maxTree cs.bb.size, treeSizes := cs.bb.size :: s.treeSizes }
    for l in cs.bb do
      match nodes.lookup l.id, l.res with
      | some N, .res st inc =>
        match solveMip oracle fuel l.entry N with
        | none => skip c "node" l.id (if cs.cut then "tree-cut" else "oracle-missing-or-fuel")
        | some (st', inc') =>
          if (match l.lp with | some (.optimized p) => pruned N l.entry (objAt N p) | _ => false) then
            modify fun s => { s with pruned := s.pruned + 1 }
          if inc'.has && (!l.entry.has || inc'.val != l.entry.val) then modify fun s => { s with incUpd := s.incUpd + 1 }
          if st' == st && incEq n inc' inc then ok c "node" l.id
          else bad c "node" l.id s!"library {statusStr st} {incStr n inc} ; model {statusStr st'} {incStr n inc'} ; entry {incStr n l.entry}"
        -- the conclusions of `C06.solve_mip_sound`, judged on the REAL result with the verified reference
        match subAnswer root N l.entry st inc with
        | .inl why => skip c "sub-answer" l.id why
        | .inr none => ok c "sub-answer" l.id
        | .inr (some d) => bad c "sub-answer" l.id (d ++ s!" ; library {statusStr st} {incStr n inc} ; entry has={l.entry.has}")
      | some _, .timeout => skip c "node" l.id "timeout"
      | none, _ => pure ()
    -- ---- the satisfiability tree -----------------------------------------------------------
    let mut snodes : List (Nat × Node) := []
    let mut stable : List (List InRow × Option Pt) := []
    for l in cs.sat do
      match nodeOf root snodes l.parent l.side l.var l.bound with
      | none => skip c "sat" l.id "orphan"
      | some N =>
        snodes := (l.id, N) :: snodes
        match l.lp with
        | none => pure ()
        | some r =>
          stable := (N.rows, r) :: stable
          let R : Problem := { N.toProblem with ints := [] }
          match r with
          | some p =>
            if decide (0 < p.den) && checkFeasible R p then ok c "satlp" l.id
            else bad c "lp-oracle" l.id "is_lp_satisfiable: last_generator is not a point of the relaxation"
            match chooseBranchingVariable N p, l.br with
            | a, b => if a == b then ok c "br" l.id
                      else bad c "branch-var" l.id s!"library {repr b}, model {repr a}"
          | none =>
            let ans := match refs.find? (fun e => e.1 == N.rows) with
              | some e => e.2
              | none => lpAnswer N.toProblem
            if ans == .unfeasible then ok c "satlp" l.id
            else bad c "lp-oracle" l.id s!"is_lp_satisfiable false, reference {repr ans}"
    let soracle : SatOracle := fun N => (stable.find? (fun e => e.1 == N.rows)).map (·.2)
    modify fun s => { s with satNodes := s.satNodes + cs.sat.size }
    for l in cs.sat do
      match snodes.lookup l.id, l.res with
      | some _, .timeout => skip c "sat-node" l.id "timeout"
      | some N, r =>
        -- the conclusions of `C06.is_mip_satisfiable_sound`, judged on the REAL result
        (match r with
         | .yes p =>
           if decide (0 < p.den) && checkFeasible N.toProblem p then ok c "sat-answer" l.id
           else bad c "sat-answer" l.id s!"is_mip_satisfiable true, but its point {ptStr n p} violates a row of the node or an integrality requirement"
         | .no =>
           match mipSize N.toProblem with
           | some sz =>
             if sz > 300 then skip c "sat-answer" l.id "size"
             else match mipRef N.toProblem with
               | .unfeasible => ok c "sat-answer" l.id
               | .unknownUnboundedIntVar => skip c "sat-answer" l.id "unbounded-int-var"
               | a => bad c "sat-answer" l.id s!"is_mip_satisfiable false, reference {repr a}"
           | none => skip c "sat-answer" l.id "unbounded-int-var"
         | .timeout => pure ())
        match isMipSatisfiable soracle fuel N with
        | none => skip c "sat-node" l.id (if cs.cut then "tree-cut" else "oracle-missing-or-fuel")
        | some m =>
          let same := match m, r with
            | none, .no => true
            | some q, .yes p => ptKey n q == ptKey n p
            | _, _ => false
          if same then ok c "sat-node" l.id
          else bad c "sat-node" l.id s!"library {match r with | .no => "false" | .yes p => "true " ++ ptStr n p | .timeout => "timeout"} ; model {match m with | none => "false" | some q => "true " ++ ptStr n q}"
      | none, _ => pure ()
    -- ---- the public answers --------------------------------------------------------------------
    for t in cs.tops do
      match t with
      | "solve" :: "timeout" :: _ => skip c "top" 0 "timeout"
      | "sat" :: "timeout" :: _ => skip c "top" 1 "timeout"
      | "solve" :: rest =>
        if cs.bb.size == 0 then skip c "top" 0 "no-tree" else
        match solveTop oracle fuel root with
        | none => skip c "top" 0 (if cs.cut then "tree-cut" else "oracle-missing-or-fuel")
        | some o =>
          let same := match o, rest with
            | .unfeasible, ["unfeasible"] => true
            | .unbounded p, "unbounded" :: pt => ptKey n p == ptKey n (parsePt n pt).1
            | .optimized v p, "optimized" :: a :: b :: pt =>
              v == (tokInt a : Rat) / (tokInt b : Rat) && ptKey n p == ptKey n (parsePt n pt).1
            | _, _ => false
          if same then ok c "top" 0
          else bad c "top" 0 s!"library solve() = {" ".intercalate rest} ; model {match o with | .unfeasible => "unfeasible" | .unbounded p => "unbounded " ++ ptStr n p | .optimized v p => "optimized " ++ ratStr v ++ " at " ++ ptStr n p}"
        -- independent replay: the model with the PROVED LP reference as oracle (its own vertices, hence possibly
        -- another tree); by `C06.solve_mip_sound` + `C06.ref_oracle_ok` its answer is the true one
        match solveTop refOracle 40 root with
        | none => skip c "top-ref" 0 "fuel-or-no-point"
        | some o =>
          let same := match o, rest with
            | .unfeasible, ["unfeasible"] => true
            | .unbounded _, "unbounded" :: _ => true
            | .optimized v _, "optimized" :: a :: b :: _ => v == (tokInt a : Rat) / (tokInt b : Rat)
            | _, _ => false
          if same then ok c "top-ref" 0
          else bad c "top-ref" 0 s!"library solve() = {" ".intercalate (rest.take 3)} ; model with the reference LP oracle: {match o with | .unfeasible => "unfeasible" | .unbounded _ => "unbounded" | .optimized v _ => "optimized " ++ ratStr v}"
      | "sat" :: rest =>
        if cs.sat.size == 0 then skip c "top" 1 "no-tree" else
        match isMipSatisfiable soracle fuel root with
        | none => skip c "top" 1 (if cs.cut then "tree-cut" else "oracle-missing-or-fuel")
        | some m =>
          let same := match m, rest with
            | none, ["0"] => true
            | some q, "1" :: pt => ptKey n q == ptKey n (parsePt n pt).1
            | _, _ => false
          if same then ok c "top" 1
          else bad c "top" 1 s!"library is_satisfiable() = {" ".intercalate rest} ; model {match m with | none => "false" | some q => "true " ++ ptStr n q}"
      | _ => pure ()

partial def loop (h : IO.FS.Stream) (cur : Case) : M Unit := do
  let line ← h.getLine
  if line.isEmpty then
    finishCase cur
    return ()
  let ts := (line.trimAscii.toString.splitOn " ").filter (· ≠ "")
  match ts with
  | "hist" :: id :: _ =>
    finishCase cur
    loop h { id := id }
  | "root" :: _ :: rest => loop h { cur with root := parseRoot rest }
  | "bb" :: _ :: rest =>
    match cur.root with
    | some r =>
      match parseBB r.n rest with
      | some l => loop h { cur with bb := cur.bb.push l }
      | none => loop h cur
    | none => loop h cur
  | "sat" :: _ :: rest =>
    match cur.root with
    | some r =>
      match parseSat r.n rest with
      | some l => loop h { cur with sat := cur.sat.push l }
      | none => loop h cur
    | none => loop h cur
  | "top" :: _ :: rest => loop h { cur with tops := cur.tops ++ [rest] }
  | "cut" :: _ => loop h { cur with cut := true }
  | _ => loop h cur

def histo (l : List Nat) : String :=
  let ks := l.eraseDups.mergeSort (· ≤ ·)
  " ".intercalate (ks.map fun k => s!"{k}:{(l.filter (· == k)).length}")

def run (_args : List String) : IO UInt32 := do
  let stdin ← IO.getStdin
  let ((), st) ← (loop stdin {}).run {}
  IO.println s!"stats trees={st.trees} nodes={st.nodes} sat_nodes={st.satNodes} pruned={st.pruned} inc_updates={st.incUpd} lp_unfeasible={st.lpUnf} lp_unbounded={st.lpUnb} lp_optimized={st.lpOpt} max_tree={st.maxTree} tree_sizes={histo st.treeSizes}"
  IO.println s!"summary ok={st.nOk} mismatch={st.nBad} skipped={st.nSkip}"
  return 0

end PPLV.Solver.BBDriver
