import PPLV.Solver.PIPCoreProofsPivot4
/-!
# C07 stage 2 — pivot proofs, part 5: the first pass ("Compute columns s[*][j]") keeps the invariant
-/
namespace PPLV.PIPCore.Piv

section passS
variable {T1 : Tableau} {sp tp : Row} {spp : Int} {pj : Nat}

/-- invariant of the row loop of the first pass: the rows in `Vr` are done -/
def JS (T1 : Tableau) (sp tp : Row) (spp : Int) (pj : Nat) (Vr : Nat → Prop) (T : Tableau) : Prop :=
  ∃ f, PInv T1 sp tp spp pj (fun a b => Vr a ∧ b ≠ pj) (fun _ _ => False) T f

/-- invariant of the column loop of row `i`: moreover the columns in `V` of row `i` are done, and the
    local copy `s_i_pj` agrees with the tableau -/
def JSin (T1 : Tableau) (sp tp : Row) (spp : Int) (pj : Nat) (i : Nat) (Vr V : Nat → Prop)
    (st : Tableau × Int) : Prop :=
  st.2 = mget st.1.s i pj ∧
  ∃ f, PInv T1 sp tp spp pj (fun a b => (Vr a ∨ (a = i ∧ V b)) ∧ b ≠ pj) (fun _ _ => False) st.1 f

theorem stepS_core (hpj : pj < T1.ns) {i j : Nat} (hi : i < T1.s.length) (hj : j < T1.ns)
    (hne : j ≠ pj) {Vr V : Nat → Prop} (hVr : ¬ Vr i) (hV : ¬ V j) {T' : Tableau} {f' sipj' p : Int}
    (hI : PInv T1 sp tp spp pj (fun a b => (Vr a ∨ (a = i ∧ V b)) ∧ b ≠ pj) (fun _ _ => False) T' f')
    (hs : sipj' = mget T'.s i pj) (hp : p * spp = rget sp j * sipj') :
    JSin T1 sp tp spp pj i Vr (fun x => V x ∨ x = j)
        ({ T' with s := mset T'.s i j (mget T'.s i j - p) }, sipj') ∧
    (p = 0 → JSin T1 sp tp spp pj i Vr (fun x => V x ∨ x = j) (T', sipj')) := by
  have r1 : mget T'.s i pj = f' * mget T1.s i pj :=
    hI.s_raw hi hpj (by rintro ⟨_, h⟩; exact h rfl)
  have r2 : mget T'.s i j = f' * mget T1.s i j :=
    hI.s_raw hi hj (by
      rintro ⟨h | ⟨_, h⟩, _⟩
      · exact hVr h
      · exact hV h)
  have tg : tgtS T1 sp spp pj i j = mget T1.s i j * spp - mget T1.s i pj * rget sp j := by
    unfold tgtS; rw [if_neg hne]
  have hx : (mget T'.s i j - p) * spp = f' * tgtS T1 sp spp pj i j := by
    rw [tg]; linear_combination spp * r2 - hp - (rget sp j) * (hs.trans r1)
  constructor
  · refine ⟨?_, f', ?_⟩
    · show sipj' = mget (mset T'.s i j _) i pj
      rw [mget_mset_ne_col _ hne]; exact hs
    · refine (hI.setS hi hj hx).monoS (fun a b _ _ h => ?_) (fun a b _ _ h hn => ?_)
      · rcases h with ⟨h | ⟨e, v⟩, hb⟩ | ⟨e, e2⟩
        · exact ⟨Or.inl h, hb⟩
        · exact ⟨Or.inr ⟨e, Or.inl v⟩, hb⟩
        · exact ⟨Or.inr ⟨e, Or.inr e2⟩, e2 ▸ hne⟩
      · exfalso; apply hn
        rcases h with ⟨h | ⟨e, v | e2⟩, hb⟩
        · exact Or.inl ⟨Or.inl h, hb⟩
        · exact Or.inl ⟨Or.inr ⟨e, v⟩, hb⟩
        · exact Or.inr ⟨e, e2⟩
  · intro hp0
    refine ⟨hs, f', hI.monoS (fun a b _ _ h => ?_) (fun a b _ _ h hn => ?_)⟩
    · rcases h with ⟨h | ⟨e, v⟩, hb⟩
      · exact ⟨Or.inl h, hb⟩
      · exact ⟨Or.inr ⟨e, Or.inl v⟩, hb⟩
    · have hab : a = i ∧ b = j := by
        rcases h with ⟨h | ⟨e, v | e2⟩, hb⟩
        · exact absurd ⟨Or.inl h, hb⟩ hn
        · exact absurd ⟨Or.inr ⟨e, v⟩, hb⟩ hn
        · exact ⟨e, e2⟩
      obtain ⟨rfl, rfl⟩ := hab
      rw [hp0, sub_zero] at hx; exact hx

theorem pivotStepS_inv (hspp : 0 < spp) (hpj : pj < T1.ns) {i : Nat} (hi : i < T1.s.length)
    {Vr : Nat → Prop} (hVr : ¬ Vr i) (V : Nat → Prop) (st : Tableau × Int) (j : Nat)
    (hj : j < T1.ns) (hV : ¬ V j) (h : JSin T1 sp tp spp pj i Vr V st) :
    JSin T1 sp tp spp pj i Vr (fun x => V x ∨ x = j) (pivotStepS sp spp pj i st j) := by
  obtain ⟨T, sipj⟩ := st
  obtain ⟨hs, f, hI⟩ := h
  change sipj = mget T.s i pj at hs
  change PInv T1 sp tp spp pj _ _ T f at hI
  unfold pivotStepS
  dsimp only
  by_cases h1 : j = pj
  · rw [if_pos h1]
    refine ⟨hs, f, hI.monoS (fun a b _ _ h => ?_) (fun a b _ _ h hn => ?_)⟩
    · rcases h with ⟨h | ⟨e, v⟩, hb⟩
      · exact ⟨Or.inl h, hb⟩
      · exact ⟨Or.inr ⟨e, Or.inl v⟩, hb⟩
    · exfalso
      rcases h with ⟨h | ⟨e, v | e2⟩, hb⟩
      · exact hn ⟨Or.inl h, hb⟩
      · exact hn ⟨Or.inr ⟨e, v⟩, hb⟩
      · exact hb (e2.trans h1)
  rw [if_neg h1]
  by_cases h2 : rget sp j = 0
  · rw [if_pos h2]
    exact (stepS_core hpj hi hj h1 hVr hV hI hs (p := 0) (by rw [h2]; ring)).2 rfl
  rw [if_neg h2]
  by_cases h3 : rget sp j * sipj % spp ≠ 0
  · rw [if_pos h3]
    dsimp only
    obtain ⟨sfpos, sfdvd⟩ := sf_facts hspp (rget sp j * sipj)
    have core := stepS_core hpj hi hj h1 hVr hV (hI.scale sfpos)
      (sipj' := sipj * (spp / gcdI (rget sp j * sipj) spp))
      (p := rget sp j * sipj * (spp / gcdI (rget sp j * sipj) spp) / spp)
      (by rw [mget_scale_s, hs]) (by rw [Int.ediv_mul_cancel sfdvd]; ring)
    by_cases h4 : rget sp j * sipj * (spp / gcdI (rget sp j * sipj) spp) / spp ≠ 0
    · rw [if_pos h4]; exact core.1
    · rw [if_neg h4]; exact core.2 (not_not.mp h4)
  · rw [if_neg h3]
    dsimp only
    have core := stepS_core hpj hi hj h1 hVr hV hI hs
      (p := rget sp j * sipj / spp) (Int.ediv_mul_cancel (dvd_of_not_emod_ne h3))
    by_cases h4 : rget sp j * sipj / spp ≠ 0
    · rw [if_pos h4]; exact core.1
    · rw [if_neg h4]; exact core.2 (not_not.mp h4)

theorem pivotRowS_inv (hspp : 0 < spp) (hpj : pj < T1.ns) (Vr : Nat → Prop) (T : Tableau) (i : Nat)
    (hi : i < T1.s.length) (hVr : ¬ Vr i) (h : JS T1 sp tp spp pj Vr T) :
    JS T1 sp tp spp pj (fun x => Vr x ∨ x = i) (pivotRowS sp spp pj T i) := by
  obtain ⟨f, hI⟩ := h
  unfold pivotRowS
  dsimp only
  by_cases h0 : mget T.s i pj = 0
  · rw [if_pos h0]
    refine ⟨f, hI.monoS (fun a b _ _ h => ⟨Or.inl h.1, h.2⟩) (fun a b _ hb h hn => ?_)⟩
    have hab : a = i ∧ b ≠ pj := by
      rcases h with ⟨h | e, hb⟩
      · exact absurd ⟨h, hb⟩ hn
      · exact ⟨e, hb⟩
    obtain ⟨rfl, hbne⟩ := hab
    have r1 : mget T.s a pj = f * mget T1.s a pj := hI.s_raw hi hpj (fun h => h.2 rfl)
    have r2 : mget T.s a b = f * mget T1.s a b := hI.s_raw hi hb (fun h => hVr h.1)
    have z : mget T1.s a pj = 0 := by
      rw [h0] at r1
      rcases Int.mul_eq_zero.mp r1.symm with e | e
      · exact absurd e (ne_of_gt hI.f_pos)
      · exact e
    unfold tgtS; rw [if_neg hbne, r2, z]; ring
  · rw [if_neg h0]
    have init : JSin T1 sp tp spp pj i Vr (fun _ => False) (T, mget T.s i pj) := by
      refine ⟨rfl, f, hI.monoS (fun a b _ _ h => ⟨Or.inl h.1, h.2⟩) (fun a b _ _ h hn => ?_)⟩
      exfalso
      rcases h with ⟨h | ⟨_, e⟩, hb⟩
      · exact hn ⟨h, hb⟩
      · exact e
    have fin := foldl_visit (JSin T1 sp tp spp pj i Vr) (pivotStepS sp spp pj i)
      (fun j => j < T1.ns)
      (fun V st j hj hV h => pivotStepS_inv hspp hpj hi hVr V st j hj hV h)
      (List.range T.ns) (fun _ => False) (T, mget T.s i pj) List.nodup_range
      (fun b hb => ⟨by rw [hI.ns_eq] at hb; exact List.mem_range.mp hb, id⟩) init
    obtain ⟨_, f', hI'⟩ := fin
    refine ⟨f', hI'.monoS (fun a b _ _ h => ?_) (fun a b _ hb h hn => ?_)⟩
    · rcases h with ⟨h | ⟨e, _⟩, hb⟩
      · exact ⟨Or.inl h, hb⟩
      · exact ⟨Or.inr e, hb⟩
    · exfalso; apply hn
      rcases h with ⟨h | e, hbne⟩
      · exact ⟨Or.inl h, hbne⟩
      · exact ⟨Or.inr ⟨e, Or.inr (List.mem_range.mpr (by rw [hI.ns_eq]; exact hb))⟩, hbne⟩

/-- the whole first pass -/
theorem passS_inv (hspp : 0 < spp) (hpj : pj < T1.ns) (T : Tableau)
    (h : JS T1 sp tp spp pj (fun _ => False) T) :
    JS T1 sp tp spp pj (fun x => x < T1.s.length)
      ((rowsDown T1.s.length).foldl (pivotRowS sp spp pj) T) := by
  have fin := foldl_visit (JS T1 sp tp spp pj) (pivotRowS sp spp pj) (fun i => i < T1.s.length)
    (fun Vr T i hi hVr h => pivotRowS_inv hspp hpj Vr T i hi hVr h)
    (rowsDown T1.s.length) (fun _ => False) T (rowsDown_nodup _)
    (fun b hb => ⟨mem_rowsDown.mp hb, id⟩) h
  obtain ⟨f, hI⟩ := fin
  refine ⟨f, hI.monoS (fun a b ha _ h => ⟨ha, h.2⟩) (fun a b ha _ h hn => ?_)⟩
  exact absurd ⟨Or.inr (mem_rowsDown.mpr ha), h.2⟩ hn

end passS

end PPLV.PIPCore.Piv
