import PPLV.Solver.PIPCoreSem
import Mathlib.Tactic.Linarith
import Mathlib.Tactic.Ring
/-!
# C07 core — sign family, part 1: `row_sign` is sound, the split on a MIXED row partitions the context,
one step of the incremental sign update of the pivot

* `rowSign_sound`           : PIP_Tree.cc:2180-2220 (no big parameter)
* `complementAssign_one`, `split_partitions_context` : PIP_Tree.cc:223-242 and 3161-3207
* `signStep_sound`          : PIP_Tree.cc:2999-3023
-/
namespace PPLV.PIPCore

/-! ### `dot` -/

theorem dot_nil_left (q : List Int) : dot [] q = 0 := by cases q <;> rfl
theorem dot_nil_right (x : List Int) : dot x [] = 0 := by cases x <;> rfl
theorem dot_cons (a : Int) (as : List Int) (x : Int) (xs : List Int) :
    dot (a :: as) (x :: xs) = a * x + dot as xs := rfl

theorem dot_neg : ∀ (as q : List Int), dot (as.map (fun a => -a)) q = - dot as q
  | [], q => by simp [dot_nil_left]
  | a :: as, [] => by simp [dot_nil_right]
  | a :: as, x :: xs => by
    simp only [List.map_cons, dot_cons, dot_neg as xs]; ring

theorem dot_nonneg : ∀ (x q : List Int), (∀ a ∈ x, 0 ≤ a) → (∀ b ∈ q, 0 ≤ b) → 0 ≤ dot x q
  | [], q, _, _ => by simp [dot_nil_left]
  | a :: as, [], _, _ => by simp [dot_nil_right]
  | a :: as, b :: bs, hx, hq => by
    have h1 : 0 ≤ a := hx a (by simp)
    have h2 : 0 ≤ b := hq b (by simp)
    have h3 := dot_nonneg as bs (fun a ha => hx a (by simp [ha])) (fun b hb => hq b (by simp [hb]))
    rw [dot_cons]
    have := Int.mul_nonneg h1 h2
    omega

theorem dot_nonpos : ∀ (x q : List Int), (∀ a ∈ x, a ≤ 0) → (∀ b ∈ q, 0 ≤ b) → dot x q ≤ 0
  | [], q, _, _ => by simp [dot_nil_left]
  | a :: as, [], _, _ => by simp [dot_nil_right]
  | a :: as, b :: bs, hx, hq => by
    have h1 : a ≤ 0 := hx a (by simp)
    have h2 : 0 ≤ b := hq b (by simp)
    have h3 := dot_nonpos as bs (fun a ha => hx a (by simp [ha])) (fun b hb => hq b (by simp [hb]))
    rw [dot_cons]
    have := Int.mul_nonneg (by omega : 0 ≤ -a) h2
    have e : -a * b = -(a * b) := by ring
    omega

theorem dot_zero : ∀ (x q : List Int), (∀ a ∈ x, a = 0) → dot x q = 0
  | [], q, _ => by simp [dot_nil_left]
  | a :: as, [], _ => by simp [dot_nil_right]
  | a :: as, b :: bs, hx => by
    have h1 : a = 0 := hx a (by simp)
    have h3 := dot_zero as bs (fun a ha => hx a (by simp [ha]))
    rw [dot_cons, h1, h3]; simp

/-- a parameter vector is `1 :: params` -/
theorem ParamVec.cons_form {n : Nat} {q : List Int} (h : ParamVec n q) :
    ∃ ps, q = 1 :: ps ∧ ∀ b ∈ ps, 0 ≤ b := by
  obtain ⟨_, hh, hnn⟩ := h
  cases q with
  | nil => simp at hh
  | cons b bs =>
    simp at hh
    subst hh
    exact ⟨bs, rfl, fun b hb => hnn b (by simp [hb])⟩

theorem head_one_form {q : List Int} (h : q.head? = some 1) : ∃ ps, q = 1 :: ps := by
  cases q with
  | nil => simp at h
  | cons b bs => simp at h; subst h; exact ⟨bs, rfl⟩

/-! ### 1. `row_sign` -/

theorem rowSignScan_from_positive : ∀ (x : Row) (r : RowSign),
    rowSignScan x .positive = some r → r = .positive ∧ ∀ a ∈ x, 0 ≤ a
  | [], r, h => by
    simp [rowSignScan] at h; exact ⟨h.symm, by simp⟩
  | a :: as, r, h => by
    unfold rowSignScan at h
    by_cases h1 : a > 0
    · simp only [h1, if_true] at h
      have := rowSignScan_from_positive as r (by simpa using h)
      refine ⟨this.1, ?_⟩
      intro b hb
      rcases List.mem_cons.1 hb with rfl | hb
      · omega
      · exact this.2 b hb
    · by_cases h2 : a < 0
      · simp [h1, h2] at h
      · simp only [h1, h2, if_false] at h
        have := rowSignScan_from_positive as r h
        refine ⟨this.1, ?_⟩
        intro b hb
        rcases List.mem_cons.1 hb with rfl | hb
        · omega
        · exact this.2 b hb

theorem rowSignScan_from_negative : ∀ (x : Row) (r : RowSign),
    rowSignScan x .negative = some r → r = .negative ∧ ∀ a ∈ x, a ≤ 0
  | [], r, h => by
    simp [rowSignScan] at h; exact ⟨h.symm, by simp⟩
  | a :: as, r, h => by
    unfold rowSignScan at h
    by_cases h1 : a > 0
    · simp [h1] at h
    · by_cases h2 : a < 0
      · simp only [h1, h2, if_true, if_false] at h
        have := rowSignScan_from_negative as r (by simpa using h)
        refine ⟨this.1, ?_⟩
        intro b hb
        rcases List.mem_cons.1 hb with rfl | hb
        · omega
        · exact this.2 b hb
      · simp only [h1, h2, if_false] at h
        have := rowSignScan_from_negative as r h
        refine ⟨this.1, ?_⟩
        intro b hb
        rcases List.mem_cons.1 hb with rfl | hb
        · omega
        · exact this.2 b hb

/-- what the scan of `row_sign` (started with `ZERO`) has seen when it does not leave with `MIXED` -/
theorem rowSignScan_from_zero : ∀ (x : Row) (r : RowSign),
    rowSignScan x .zero = some r →
      (r = .zero ∧ ∀ a ∈ x, a = 0) ∨ (r = .positive ∧ ∀ a ∈ x, 0 ≤ a) ∨ (r = .negative ∧ ∀ a ∈ x, a ≤ 0)
  | [], r, h => by
    simp [rowSignScan] at h; exact Or.inl ⟨h.symm, by simp⟩
  | a :: as, r, h => by
    unfold rowSignScan at h
    by_cases h1 : a > 0
    · simp only [h1, if_true] at h
      have := rowSignScan_from_positive as r (by simpa using h)
      refine Or.inr (Or.inl ⟨this.1, ?_⟩)
      intro b hb
      rcases List.mem_cons.1 hb with rfl | hb
      · omega
      · exact this.2 b hb
    · by_cases h2 : a < 0
      · simp only [h1, h2, if_true, if_false] at h
        have := rowSignScan_from_negative as r (by simpa using h)
        refine Or.inr (Or.inr ⟨this.1, ?_⟩)
        intro b hb
        rcases List.mem_cons.1 hb with rfl | hb
        · omega
        · exact this.2 b hb
      · simp only [h1, h2, if_false] at h
        have h0 : a = 0 := by omega
        rcases rowSignScan_from_zero as r h with ⟨e, hz⟩ | ⟨e, hz⟩ | ⟨e, hz⟩
        · refine Or.inl ⟨e, ?_⟩
          intro b hb
          rcases List.mem_cons.1 hb with rfl | hb
          · exact h0
          · exact hz b hb
        · refine Or.inr (Or.inl ⟨e, ?_⟩)
          intro b hb
          rcases List.mem_cons.1 hb with rfl | hb
          · omega
          · exact hz b hb
        · refine Or.inr (Or.inr ⟨e, ?_⟩)
          intro b hb
          rcases List.mem_cons.1 hb with rfl | hb
          · omega
          · exact hz b hb

/-- `rowSign` without a big parameter, unfolded -/
theorem rowSign_none (x : Row) :
    rowSign x none = (match rowSignScan x .zero with
      | none => RowSign.mixed
      | some sg => if sg = .negative ∧ rget x 0 = 0 then RowSign.mixed else sg) := rfl

/-- **`row_sign` is sound** (PIP_Tree.cc:2180-2220, no big parameter): for EVERY vector `q = 1 :: params`
    of non-negative parameters, `POSITIVE` ⇒ `x·q ≥ 0`, `NEGATIVE` ⇒ `x·q < 0` (strict), `ZERO` ⇒ `x·q = 0`.
    (No context is involved: the analysis is syntactic.) -/
theorem rowSign_sound {x : Row} {q : List Int} (hq : ParamVec x.length q) :
    SignTrue (rowSign x none) (dot x q) := by
  obtain ⟨ps, rfl, hps⟩ := hq.cons_form
  have hnn : ∀ b ∈ (1 :: ps : List Int), 0 ≤ b := hq.2.2
  rw [rowSign_none]
  cases hs : rowSignScan x .zero with
  | none => exact trivial
  | some sg =>
    rcases rowSignScan_from_zero x sg hs with ⟨rfl, h⟩ | ⟨rfl, h⟩ | ⟨rfl, h⟩
    · simp only [reduceCtorEq, false_and, if_false]
      exact dot_zero _ _ h
    · simp only [reduceCtorEq, false_and, if_false]
      exact dot_nonneg _ _ h hnn
    · by_cases h0 : rget x 0 = 0
      · simp only [h0, and_self, if_true]; exact trivial
      · simp only [h0, and_false, if_false]
        cases x with
        | nil => simp [rget] at h0
        | cons a as =>
          have ha : a ≤ 0 := h a (by simp)
          have ha0 : a ≠ 0 := by simpa [rget] using h0
          have := dot_nonpos as ps (fun b hb => h b (by simp [hb])) hps
          show dot (a :: as) (1 :: ps) < 0
          rw [dot_cons]; omega

-- non-vacuity: a positive, a negative, a zero and two mixed rows
example : rowSign [3, 0, 2] none = .positive ∧ rowSign [-1, 0, -2] none = .negative
    ∧ rowSign [0, 0, 0] none = .zero ∧ rowSign [0, -1, 0] none = .mixed ∧ rowSign [1, -1, 0] none = .mixed := by
  decide
example : ParamVec ([-1, 0, -2] : Row).length [1, 5, 0] := by
  refine ⟨rfl, rfl, ?_⟩; decide
example : dot [-1, 0, -2] [1, 5, 0] < 0 := by
  have h := rowSign_sound (x := [-1, 0, -2]) (q := [1, 5, 0]) ⟨rfl, rfl, by decide⟩
  rw [show rowSign [-1, 0, -2] none = .negative by decide] at h
  exact h

/-- the remark in the code: a non-positive row with constant term 0 is NOT negative (value 0 at 0) -/
example : rowSign [0, -1] none = .mixed ∧ ParamVec 2 [1, 0] ∧ dot [0, -1] [1, 0] = 0 := by
  refine ⟨by decide, ⟨rfl, rfl, by decide⟩, by decide⟩

/-! ### 2. the split on a mixed row (PIP_Tree.cc:3161-3207) -/

theorem complementAssign_one_cons (a : Int) (as : Row) :
    complementAssign (a :: as) 1 = (-a - 1) :: as.map (fun a => -a) := by
  simp [complementAssign, rget, rset]

/-- `complement_assign(x, y, 1)`: `x(z) = - y(z) - 1` -/
theorem complementAssign_one {y : Row} {q : List Int} (hq : q.head? = some 1)
    (_hlen : y.length = q.length) (hy : y ≠ []) :
    dot (complementAssign y 1) q = - dot y q - 1 := by
  obtain ⟨ps, rfl⟩ := head_one_form hq
  cases y with
  | nil => exact absurd rfl hy
  | cons a as =>
    rw [complementAssign_one_cons, dot_cons, dot_cons, dot_neg]; ring

example : dot (complementAssign [2, -3, 1] 1) [1, 4, 5] = - dot [2, -3, 1] [1, 4, 5] - 1 := by decide

/-- **the two children of a decision node partition the context**: for an INTEGER parameter vector the
    context row `t ≥ 0` of the true branch and the context row `complement_assign(t, 1) ≥ 0` of the false
    branch hold in exactly one of the two cases. -/
theorem split_partitions_context {n : Nat} {q : List Int} {t : Row}
    (hq : ParamVec n q) (ht : t.length = n) (hn : 0 < n) :
    ((0 ≤ dot t q) ∨ (0 ≤ dot (complementAssign t 1) q))
      ∧ ¬ ((0 ≤ dot t q) ∧ (0 ≤ dot (complementAssign t 1) q)) := by
  have hne : t ≠ [] := by
    intro h; subst h; simp at ht; omega
  have := complementAssign_one (y := t) (q := q) hq.2.1 (by rw [ht, hq.1]) hne
  rw [this]
  constructor
  · omega
  · omega

example : ParamVec 3 [1, 4, 5] ∧ ([2, -3, 1] : Row).length = 3
    ∧ ¬ (0 ≤ dot [2, -3, 1] [1, 4, 5]) ∧ 0 ≤ dot (complementAssign [2, -3, 1] 1) [1, 4, 5] := by
  refine ⟨⟨rfl, rfl, by decide⟩, rfl, by decide, by decide⟩

/-! ### 5. one step of the incremental sign update of the pivot (PIP_Tree.cc:2999-3023) -/

/-- `t[i][j] -= c` where `c` has the sign of `product` (`c = product / s_pp` for `s_pp > 0`): the cached sign,
    updated by `signStep`, is still true of the new value `val - c * q_j`.  Column 0 is the constant term
    (`q_0 = 1`): only there can a `ZERO` row be declared `NEGATIVE`. -/
theorem signStep_sound {sg : RowSign} {val qj c product : Int} {j : Nat}
    (h : SignTrue sg val) (hq : 0 ≤ qj) (hq0 : j = 0 → qj = 1)
    (hpos : 0 < product → 0 < c) (hneg : product < 0 → c < 0) (hzero : product = 0 → c = 0) :
    SignTrue (signStep sg product j) (val - c * qj) := by
  cases sg with
  | unknown => exact trivial
  | mixed => exact trivial
  | zero =>
    have hv : val = 0 := h
    subst hv
    unfold signStep
    by_cases h1 : product > 0
    · have hc := hpos h1
      by_cases hj : j = 0
      · have := hq0 hj
        subst this
        simp only [h1, hj, if_true]
        show 0 - c * 1 < 0
        omega
      · simp only [h1, hj, if_true, if_false]; exact trivial
    · by_cases h2 : product < 0
      · have hc := hneg h2
        simp only [h1, h2, if_true, if_false]
        show 0 ≤ 0 - c * qj
        have := Int.mul_nonneg (by omega : 0 ≤ -c) hq
        have e : -c * qj = -(c * qj) := by ring
        omega
      · have hc := hzero (by omega)
        subst hc
        simp only [h1, h2, if_false]
        show 0 - 0 * qj = 0
        simp
  | positive =>
    have hv : 0 ≤ val := h
    unfold signStep
    by_cases h1 : product > 0
    · simp only [h1, if_true]; exact trivial
    · simp only [h1, if_false]
      show 0 ≤ val - c * qj
      have hc : c ≤ 0 := by
        by_cases h2 : product < 0
        · have := hneg h2; omega
        · have := hzero (by omega); omega
      have := Int.mul_nonneg (by omega : 0 ≤ -c) hq
      have e : -c * qj = -(c * qj) := by ring
      omega
  | negative =>
    have hv : val < 0 := h
    unfold signStep
    by_cases h1 : product < 0
    · simp only [h1, if_true]; exact trivial
    · simp only [h1, if_false]
      show val - c * qj < 0
      have hc : 0 ≤ c := by
        by_cases h2 : 0 < product
        · have := hpos h2; omega
        · have := hzero (by omega); omega
      have := Int.mul_nonneg hc hq
      omega

-- non-vacuity: a ZERO row whose constant term decreases becomes NEGATIVE; a parameter column gives MIXED
example : signStep .zero 3 0 = .negative ∧ signStep .zero 3 2 = .mixed ∧ signStep .zero (-3) 2 = .positive
    ∧ signStep .positive (-1) 1 = .positive ∧ signStep .negative 4 1 = .negative := by decide
example : SignTrue (signStep .zero 6 0) (0 - 2 * 1) :=
  signStep_sound (sg := .zero) (val := 0) (qj := 1) (c := 2) (product := 6) (j := 0)
    rfl (by decide) (fun _ => rfl) (fun _ => by decide) (fun h => by omega) (fun h => by omega)

end PPLV.PIPCore
