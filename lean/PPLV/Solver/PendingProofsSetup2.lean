import PPLV.Solver.PendingProofsSetup

/-!
# C06 stage 3 (b1), part 2 — the loop of `parse_constraints`

`parse_spec`: when `parse_constraints` succeeds, `is_tableau_constraint` is the map of `tabC`,
`additional_slack_variables` counts the inequalities among them, `additional_tableau_rows` counts
them, no pending constraint is trivially false, a variable is marked non-negative only if it was
already known to be or a pending constraint of class 4/5/6/7 forces it, and every class-7 constraint
has its variable marked; when it fails a pending constraint is trivially false.
-/
namespace PPLV.Solver.Pend
open PPLV.Lin PPLV.Solver.Tab

theorem getD_set_bool (l : List Bool) (i k : Nat) (b : Bool) :
    (l.set i b).getD k false = if k = i ∧ i < l.length then b else l.getD k false := by
  rw [List.getD_eq_getElem?_getD, List.getElem?_set, List.getD_eq_getElem?_getD]
  by_cases h : i = k
  · subst h
    by_cases hl : i < l.length
    · simp [hl]
    · simp [hl, List.getElem?_eq_none (not_lt.mp hl)]
  · have h' : ¬ (k = i ∧ i < l.length) := fun a => h a.1.symm
    simp [h, h']

theorem replicate_succ_append_set (i : Nat) (L : List Bool) (b : Bool) :
    (List.replicate (i+1) true ++ L).set i b = List.replicate i true ++ b :: L := by
  induction i with
  | zero => rfl
  | succ i ih =>
    rw [List.replicate_succ, List.cons_append, List.set_cons_succ, ih, List.replicate_succ, List.cons_append]

theorem replicate_succ_append (i : Nat) (L : List Bool) :
    List.replicate (i+1) true ++ L = List.replicate i true ++ true :: L := by
  induction i with
  | zero => rfl
  | succ i ih =>
    rw [List.replicate_succ, List.cons_append, ih, List.replicate_succ, List.cons_append]

def tabCls : CClass → Bool
  | .trivTrue | .m7 => false
  | _ => true

theorem tabC_of {c : ICon} {cls : CClass} {v : Nat} (h : classify c = (cls, v)) : tabC c = tabCls cls := by
  unfold tabC; rw [h]; cases cls <;> rfl

theorem nonneg_set_iff (l : List Bool) (v u : Nat) :
    (l.set v true).getD u false = true ↔ (l.getD u false = true ∨ (u = v ∧ v < l.length)) := by
  rw [getD_set_bool]
  by_cases hu : u = v ∧ v < l.length
  · simp [hu]
  · rw [if_neg hu]; constructor
    · intro h; exact Or.inl h
    · rintro (h | h)
      · exact h
      · exact absurd h hu

/-- the effect of one iteration of the loop at :562 on a constraint that is not trivially false -/
theorem parseStep_some (s : LPState) (pend : List ICon) (p : Nat) (a : Parsed) (cls : CClass) (v : Nat)
    (hcl : classify (pend.getD p default) = (cls, v)) (hne : cls ≠ .trivFalse) :
    ∃ a', parseStep s pend p (some a) = some a' ∧
      a'.isTab = (if tabC (pend.getD p default) then a.isTab else a.isTab.set p false) ∧
      a'.slacks = a.slacks + (if slackC (pend.getD p default) then 1 else 0) ∧
      a'.rows = (if tabC (pend.getD p default) then a.rows else a.rows - 1) ∧
      a'.isNonneg.length = a.isNonneg.length ∧
      (∀ u, a'.isNonneg.getD u false = true ↔
        (a.isNonneg.getD u false = true ∨ (forcesNonneg cls = true ∧ u = v ∧ v < a.isNonneg.length))) := by
  have htab := tabC_of hcl
  have hsingle := fun h => classify_single hcl h
  cases cls
  case trivFalse => exact absurd rfl hne
  case many =>
    have ht : tabC (pend.getD p default) = true := by rw [htab]; rfl
    have hs : slackC (pend.getD p default) = !(pend.getD p default).isEq := by unfold slackC; rw [ht]; simp
    rw [ht, hs]
    unfold parseStep
    simp only [hcl]
    by_cases he : (pend.getD p default).isEq = true
    · simp only [he, Bool.not_true, Bool.false_eq_true, if_false, Bool.false_and]
      exact ⟨a, rfl, by simp, by simp, by simp, rfl, fun u => by simp [forcesNonneg]⟩
    · have he' : (pend.getD p default).isEq = false := by simpa using he
      simp only [he', Bool.not_false, if_true, Bool.true_and]
      split
      · exact ⟨_, rfl, by simp, by simp, by simp, rfl, fun u => by simp [forcesNonneg]⟩
      · exact ⟨_, rfl, by simp, by simp, by simp, rfl, fun u => by simp [forcesNonneg]⟩
  case trivTrue =>
    have ht : tabC (pend.getD p default) = false := by rw [htab]; rfl
    have hs : slackC (pend.getD p default) = false := by unfold slackC; rw [ht]; simp
    rw [ht, hs]
    unfold parseStep
    simp only [hcl]
    exact ⟨_, rfl, by simp, by simp, by simp, rfl, fun u => by simp [forcesNonneg]⟩
  case m13 =>
    have ht : tabC (pend.getD p default) = true := by rw [htab]; rfl
    have hs : slackC (pend.getD p default) = !(pend.getD p default).isEq := by unfold slackC; rw [ht]; simp
    rw [ht, hs]
    unfold parseStep
    simp only [hcl]
    by_cases he : (pend.getD p default).isEq = true
    · simp only [he, Bool.not_true, Bool.false_eq_true, if_false]
      exact ⟨a, rfl, by simp, by simp, by simp, rfl, fun u => by simp [forcesNonneg]⟩
    · have he' : (pend.getD p default).isEq = false := by simpa using he
      simp only [he', Bool.not_false, if_true]
      exact ⟨_, rfl, by simp, by simp, by simp, rfl, fun u => by simp [forcesNonneg]⟩
  case m45 =>
    obtain ⟨-, h45, -, -, -⟩ := hsingle ⟨by decide, by decide, by decide⟩
    have he := (h45 rfl).1
    have ht : tabC (pend.getD p default) = true := by rw [htab]; rfl
    have hs : slackC (pend.getD p default) = false := by unfold slackC; rw [ht, he]; simp
    rw [ht, hs]
    unfold parseStep
    simp only [hcl]
    refine ⟨_, rfl, by simp, by simp, by simp, by simp, fun u => ?_⟩
    rw [nonneg_set_iff]; simp [forcesNonneg]
  case m6 =>
    obtain ⟨-, -, h6, -, -⟩ := hsingle ⟨by decide, by decide, by decide⟩
    have he := (h6 rfl).1
    have ht : tabC (pend.getD p default) = true := by rw [htab]; rfl
    have hs : slackC (pend.getD p default) = true := by unfold slackC; rw [ht, he]; simp
    rw [ht, hs]
    unfold parseStep
    simp only [hcl]
    refine ⟨_, rfl, by simp, by simp, by simp, by simp, fun u => ?_⟩
    rw [nonneg_set_iff]; simp [forcesNonneg]
  case m7 =>
    have ht : tabC (pend.getD p default) = false := by rw [htab]; rfl
    have hs : slackC (pend.getD p default) = false := by unfold slackC; rw [ht]; simp
    rw [ht, hs]
    unfold parseStep
    simp only [hcl]
    by_cases hnn : a.isNonneg.getD v false = true
    · simp only [hnn, Bool.not_true, Bool.false_eq_true, if_false]
      refine ⟨_, rfl, by simp, by simp, by simp, rfl, fun u => ?_⟩
      simp only [forcesNonneg]
      constructor
      · intro h; exact Or.inl h
      · rintro (h | ⟨-, h1, -⟩)
        · exact h
        · rw [h1]; exact hnn
    · have hnn' : a.isNonneg.getD v false = false := by simpa using hnn
      simp only [hnn', Bool.not_false, if_true]
      split
      · refine ⟨_, rfl, by simp, by simp, by simp, by simp, fun u => ?_⟩
        rw [nonneg_set_iff]; simp [forcesNonneg]
      · refine ⟨_, rfl, by simp, by simp, by simp, by simp, fun u => ?_⟩
        rw [nonneg_set_iff]; simp [forcesNonneg]
  case m89 =>
    obtain ⟨-, -, -, -, h89⟩ := hsingle ⟨by decide, by decide, by decide⟩
    have he := h89 rfl
    have ht : tabC (pend.getD p default) = true := by rw [htab]; rfl
    have hs : slackC (pend.getD p default) = true := by unfold slackC; rw [ht, he]; simp
    rw [ht, hs]
    unfold parseStep
    simp only [hcl]
    exact ⟨_, rfl, by simp, by simp, by simp, rfl, fun u => by simp [forcesNonneg]⟩

theorem parseStep_trivFalse (s : LPState) (pend : List ICon) (p : Nat) (a : Parsed) (v : Nat)
    (hcl : classify (pend.getD p default) = (.trivFalse, v)) : parseStep s pend p (some a) = none := by
  unfold parseStep
  simp only [hcl]

/-- the loop invariant of `parse_constraints`: the pending constraints with index `≥ i` are processed -/
def ParseInv (pend : List ICon) (nn0 : List Bool) (i : Nat) : Option Parsed → Prop
  | none => ∃ c ∈ pend.drop i, (classify c).1 = .trivFalse
  | some a =>
    a.isTab = List.replicate i true ++ (pend.drop i).map tabC ∧
    a.slacks = ((pend.drop i).filter slackC).length ∧
    a.rows = i + ((pend.drop i).filter tabC).length ∧
    (∀ c ∈ pend.drop i, (classify c).1 ≠ .trivFalse) ∧
    a.isNonneg.length = nn0.length ∧
    (∀ u, a.isNonneg.getD u false = true →
      nn0.getD u false = true ∨ ∃ c ∈ pend.drop i, forcesNonneg (classify c).1 = true ∧ (classify c).2 = u) ∧
    (∀ c ∈ pend.drop i, (classify c).1 = .m7 → (classify c).2 < nn0.length →
      a.isNonneg.getD (classify c).2 false = true)

theorem parseInv_step (s : LPState) (pend : List ICon) (nn0 : List Bool) (i : Nat) (hi : i < pend.length)
    (acc : Option Parsed) (h : ParseInv pend nn0 (i+1) acc) : ParseInv pend nn0 i (parseStep s pend i acc) := by
  have hdrop : pend.drop i = pend.getD i default :: pend.drop (i+1) := by
    rw [List.getD_eq_getElem?_getD, List.getElem?_eq_getElem hi]
    exact List.drop_eq_getElem_cons hi
  cases acc with
  | none =>
    obtain ⟨c, hc, hcl⟩ := h
    show ParseInv pend nn0 i none
    exact ⟨c, by rw [hdrop]; exact List.mem_cons_of_mem _ hc, hcl⟩
  | some a =>
    obtain ⟨h1, h2, h3, h4, h5, h6, h7⟩ := h
    rcases hcl : classify (pend.getD i default) with ⟨cls, v⟩
    by_cases hf : cls = .trivFalse
    · subst hf
      rw [parseStep_trivFalse s pend i a v hcl]
      exact ⟨_, by rw [hdrop]; exact List.mem_cons_self, by rw [hcl]⟩
    · obtain ⟨a', ha', t1, t2, t3, t4, t5⟩ := parseStep_some s pend i a cls v hcl hf
      rw [ha']
      refine ⟨?_, ?_, ?_, ?_, ?_, ?_, ?_⟩
      · rw [t1, h1, hdrop, List.map_cons]
        by_cases ht : tabC (pend.getD i default) = true
        · rw [if_pos ht, ht]; exact replicate_succ_append i _
        · have ht' : tabC (pend.getD i default) = false := by simpa using ht
          rw [if_neg ht, ht']; exact replicate_succ_append_set i _ false
      · rw [t2, h2, hdrop, List.filter_cons]
        by_cases hs : slackC (pend.getD i default) = true
        · rw [if_pos hs, if_pos hs]; simp
        · rw [if_neg hs, if_neg hs]; simp
      · rw [t3, h3, hdrop, List.filter_cons]
        by_cases ht : tabC (pend.getD i default) = true
        · rw [if_pos ht, if_pos ht]; simp; omega
        · rw [if_neg ht, if_neg ht]; omega
      · intro c hc
        rw [hdrop] at hc
        rcases List.mem_cons.mp hc with rfl | hc
        · rw [hcl]; exact hf
        · exact h4 c hc
      · rw [t4, h5]
      · intro u hu
        rcases (t5 u).mp hu with hu | ⟨hfn, huv, -⟩
        · rcases h6 u hu with h | ⟨c, hc, hc2⟩
          · exact Or.inl h
          · exact Or.inr ⟨c, by rw [hdrop]; exact List.mem_cons_of_mem _ hc, hc2⟩
        · exact Or.inr ⟨_, by rw [hdrop]; exact List.mem_cons_self, by rw [hcl]; exact ⟨hfn, huv.symm⟩⟩
      · intro c hc hc7 hlt
        rw [hdrop] at hc
        rcases List.mem_cons.mp hc with rfl | hc
        · rw [hcl] at hc7 hlt ⊢
          simp only at hc7 hlt ⊢
          subst hc7
          exact (t5 v).mpr (Or.inr ⟨rfl, rfl, by rw [h5]; exact hlt⟩)
        · exact (t5 _).mpr (Or.inl (h7 c hc hc7 hlt))

/-- **the outputs of `parse_constraints`** for a state whose known-non-negative list is `nn0` -/
theorem parse_spec (s : LPState) (nn0 : List Bool)
    (hnn : (if s.mapping.length > 0 then
        revFold (min (s.mapping.length - 1) s.external_space_dim)
          (fun i (l : List Bool) => if (s.mapping.getD (i+1) (0, 0)).2 == 0 then l.set i true else l)
          (List.replicate s.external_space_dim false)
      else List.replicate s.external_space_dim false) = nn0) :
    ParseInv (s.input_cs.drop s.first_pending) nn0 0 (parseConstraints s) := by
  unfold parseConstraints
  simp only
  rw [hnn]
  apply revFold_inv (fun i acc => ParseInv (s.input_cs.drop s.first_pending) nn0 i acc)
  · -- initially nothing is processed
    have hd : (s.input_cs.drop s.first_pending).drop (s.input_cs.drop s.first_pending).length = [] :=
      List.drop_eq_nil_of_le (le_refl _)
    refine ⟨by rw [hd]; simp, by rw [hd]; simp, by rw [hd]; simp, by rw [hd]; simp, rfl, fun u hu => Or.inl hu, ?_⟩
    rw [hd]; intro c hc; cases hc
  · intro i hi acc hacc
    exact parseInv_step s _ nn0 i hi acc hacc

end PPLV.Solver.Pend
