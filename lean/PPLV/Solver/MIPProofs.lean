import PPLV.Solver.NonStrict

/-!
# C06 — the reference answers are the set-level answers

Set-level vocabulary (maximisation of `f` over a set `S` of valuations): `S = ∅`,
`IsUnboundedS S f`, `IsMaxS S f v`.  `CorrectS S f a` says that the answer `a` is the true one
(`unknownUnboundedIntVar` claims nothing).  The chain:

* `lpMax_correct`   — K1's `supB` over non-strict rows: the LP answer is the true one;
* `join_correct`, `foldl_join_correct` — answers of sub-problems covering the feasible set;
* `varRange_spec`   — the integer range of a variable contains every integer value it takes;
* `mipMax_correct`  — the enumeration is correct whenever it answers;
* `mipMax_known`    — it answers whenever every integer variable is bounded in the relaxation.
-/
namespace PPLV.Solver
open PPLV.Lin

/-! ### set-level vocabulary -/

def IsUnboundedS (S : Set Val) (f : Val → Rat) : Prop :=
  (∃ x, x ∈ S) ∧ ∀ M : Rat, ∃ x ∈ S, M < f x

def IsMaxS (S : Set Val) (f : Val → Rat) (v : Rat) : Prop :=
  (∃ x ∈ S, f x = v) ∧ ∀ x ∈ S, f x ≤ v

def CorrectS (S : Set Val) (f : Val → Rat) : Answer → Prop
  | .unfeasible => S = ∅
  | .unbounded => IsUnboundedS S f
  | .optimum v => IsMaxS S f v
  | .unknownUnboundedIntVar => True

/-- the linear objective `e·x + k` -/
def linObj (e : List Int) (k : Int) : Val → Rat := fun x => dot e x + (k : Rat)

/-! ### the relaxation -/

theorem lpMaxFM_correct (n : Nat) (e : List Int) (k : Int) (cs : List Con)
    (hwf : WF n cs) (hns : NonStrict cs) (he : e.length ≤ n) :
    CorrectS (sem cs) (linObj e k) (lpMaxFM n e k cs) := by
  have hspec := supB_spec n e k cs hwf he
  unfold lpMaxFM
  cases hs : supB n e k cs with
  | empty => rw [hs] at hspec; exact hspec
  | unbounded => rw [hs] at hspec; exact hspec
  | val p q att =>
    rw [hs] at hspec
    obtain ⟨-, hle, hatt, -⟩ := hspec
    have hatt' := hatt (supB_attained n e k cs hns p q att hs)
    exact ⟨hatt', hle⟩

theorem lpMaxFM_known (n : Nat) (e : List Int) (k : Int) (cs : List Con) : (lpMaxFM n e k cs).isKnown = true := by
  unfold lpMaxFM; split <;> rfl

/-- rows are affine: `a·(x + t d) = a·x + t (a·d)` -/
theorem dot_axpy (as : List Int) (x d : Val) (t : Rat) :
    dot as (fun i => x i + t * d i) = dot as x + t * dot as d := by
  induction as generalizing x d with
  | nil => simp
  | cons a as ih =>
    simp only [dot_cons]
    have : (Val.tail fun i => x i + t * d i) = fun i => x.tail i + t * d.tail i := rfl
    rw [this, ih]; ring

theorem conHolds_iff (c : Con) (x : Val) : conHolds c x = true ↔ c.sat x := by
  unfold conHolds Con.sat
  split <;> simp

/-- a feasible point and a recession direction improving the objective: unbounded -/
theorem unbounded_of_ray (e : List Int) (k : Int) (cs : List Con) (x d : Val)
    (hx : Sat cs x) (hd : Sat (rayRows e cs) d) : IsUnboundedS (sem cs) (linObj e k) := by
  have hed : 1 ≤ dot e d := by
    have := hd (geRow e (-1)) (by simp [rayRows])
    simp only [Con.sat, geRow, Con.eval, Bool.false_eq_true, if_false] at this
    push_cast at this; linarith
  have hrow : ∀ c ∈ cs, 0 ≤ dot c.coeffs d := by
    intro c hc
    have := hd ⟨c.coeffs, 0, false⟩ (by
      simp only [rayRows, List.mem_cons, List.mem_map]
      exact Or.inr ⟨c, hc, rfl⟩)
    simpa [Con.sat, Con.eval] using this
  have hmove : ∀ t : Rat, 0 ≤ t → Sat cs (fun i => x i + t * d i) := by
    intro t ht c hc
    have h1 := hx c hc
    have h2 := mul_nonneg ht (hrow c hc)
    unfold Con.sat Con.eval at *
    rw [dot_axpy]
    split at h1 <;> simp only [*, if_true, Bool.false_eq_true, if_false] <;> linarith
  refine ⟨⟨x, hx⟩, fun M => ?_⟩
  let t : Rat := max 0 (M - linObj e k x + 1)
  have ht : 0 ≤ t := le_max_left _ _
  refine ⟨_, hmove t ht, ?_⟩
  unfold linObj at *
  rw [dot_axpy]
  have h1 : M - (dot e x + (k : Rat)) + 1 ≤ t := le_max_right _ _
  have h2 : t ≤ t * dot e d := by nlinarith
  linarith

theorem betterRow_sat (e : List Int) (k : Int) (v : Rat) (y : Val) :
    (betterRow e k v).sat y ↔ v < linObj e k y := by
  unfold betterRow linObj Con.sat gtRow Con.eval
  simp only [if_true]
  rw [dot_map_mul]
  have hd : (0 : Rat) < (v.den : Rat) := by exact_mod_cast v.den_pos
  have hv : v = (v.num : Rat) / (v.den : Rat) := (Rat.num_div_den v).symm
  push_cast
  constructor
  · intro h
    rw [hv, div_lt_iff₀ hd]; linarith
  · intro h
    rw [hv, div_lt_iff₀ hd] at h; linarith

theorem rayRows_wf (n : Nat) (e : List Int) (cs : List Con) (hwf : WF n cs) (he : e.length ≤ n) :
    WF n (rayRows e cs) := by
  intro c hc
  simp only [rayRows, List.mem_cons, List.mem_map] at hc
  rcases hc with rfl | ⟨d, hd, rfl⟩
  · exact he
  · exact hwf d hd

theorem lpMaxSlow_correct (n : Nat) (e : List Int) (k : Int) (cs : List Con)
    (hwf : WF n cs) (hns : NonStrict cs) (he : e.length ≤ n) :
    CorrectS (sem cs) (linObj e k) (lpMaxSlow n e k cs) := by
  unfold lpMaxSlow
  by_cases hf : feasible n cs = true
  · simp only [hf, Bool.not_true, Bool.false_eq_true, if_false]
    obtain ⟨x0, hx0⟩ := (feasible_iff n cs hwf).mp hf
    by_cases hr : feasible n (rayRows e cs) = true
    · simp only [hr, if_true]
      obtain ⟨d, hd⟩ := (feasible_iff n _ (rayRows_wf n e cs hwf he)).mp hr
      exact unbounded_of_ray e k cs x0 d hx0 hd
    · simp only [hr, Bool.false_eq_true, if_false]
      exact lpMaxFM_correct n e k cs hwf hns he
  · have hf' : feasible n cs = false := by simpa using hf
    simp only [hf', Bool.not_false, if_true]
    show sem cs = ∅
    rw [Set.eq_empty_iff_forall_notMem]
    intro x hx
    exact hf ((feasible_iff n cs hwf).mpr ⟨x, hx⟩)

theorem isMaxAt_correct (n : Nat) (e : List Int) (k : Int) (cs : List Con) (x : Pt)
    (hwf : WF n cs) (he : e.length ≤ n) (h : isMaxAt n e k cs x = true) :
    IsMaxS (sem cs) (linObj e k) (dot e x.val + (k : Rat)) := by
  unfold isMaxAt at h
  rw [Bool.and_eq_true, List.all_eq_true, Bool.not_eq_true', ← Bool.not_eq_true] at h
  obtain ⟨hsat, hnb⟩ := h
  have hwf' : WF n (betterRow e k (dot e x.val + (k : Rat)) :: cs) := by
    intro c hc'
    rcases List.mem_cons.mp hc' with rfl | h
    · simp only [betterRow, gtRow, List.length_map]; exact he
    · exact hwf c h
  rw [feasible_iff n _ hwf'] at hnb
  refine ⟨⟨x.val, fun c hc' => (conHolds_iff c _).mp (hsat c hc'), rfl⟩, fun y hy => ?_⟩
  by_contra hlt
  apply hnb
  refine ⟨y, ?_⟩
  rw [Sat_cons]
  exact ⟨(betterRow_sat e k _ y).mpr (not_le.mp hlt), hy⟩

theorem lpMax_correct (n : Nat) (e : List Int) (k : Int) (cs : List Con)
    (hwf : WF n cs) (hns : NonStrict cs) (he : e.length ≤ n) :
    CorrectS (sem cs) (linObj e k) (lpMax n e k cs) := by
  unfold lpMax
  split
  · rename_i x _
    split
    · rename_i h
      exact isMaxAt_correct n e k cs x hwf he h
    · exact lpMaxSlow_correct n e k cs hwf hns he
  · exact lpMaxSlow_correct n e k cs hwf hns he

theorem lpMaxSlow_known (n : Nat) (e : List Int) (k : Int) (cs : List Con) : (lpMaxSlow n e k cs).isKnown = true := by
  unfold lpMaxSlow
  split
  · rfl
  · split
    · rfl
    · exact lpMaxFM_known n e k cs

theorem lpMax_known (n : Nat) (e : List Int) (k : Int) (cs : List Con) : (lpMax n e k cs).isKnown = true := by
  unfold lpMax
  split
  · split
    · rfl
    · exact lpMaxSlow_known n e k cs
  · exact lpMaxSlow_known n e k cs

/-! ### joining sub-problems -/

theorem join_correct (S T : Set Val) (f : Val → Rat) (a b : Answer)
    (ha : CorrectS S f a) (hb : CorrectS T f b) : CorrectS (S ∪ T) f (a.join b) := by
  cases a <;> cases b <;> simp only [Answer.join, CorrectS] at *
  -- unfeasible, unfeasible
  · rw [ha, hb]; simp
  -- unfeasible, unbounded
  · rw [ha, Set.empty_union]; exact hb
  · rw [ha, Set.empty_union]; exact hb
  -- unbounded, _
  · rw [hb, Set.union_empty]; exact ha
  · obtain ⟨⟨x, hx⟩, hM⟩ := ha
    exact ⟨⟨x, Or.inl hx⟩, fun M => let ⟨y, hy, h⟩ := hM M; ⟨y, Or.inl hy, h⟩⟩
  · obtain ⟨⟨x, hx⟩, hM⟩ := ha
    exact ⟨⟨x, Or.inl hx⟩, fun M => let ⟨y, hy, h⟩ := hM M; ⟨y, Or.inl hy, h⟩⟩
  -- optimum, _
  · rw [hb, Set.union_empty]; exact ha
  · obtain ⟨⟨x, hx⟩, hM⟩ := hb
    exact ⟨⟨x, Or.inr hx⟩, fun M => let ⟨y, hy, h⟩ := hM M; ⟨y, Or.inr hy, h⟩⟩
  · rename_i v w
    obtain ⟨⟨x, hx, hxv⟩, hv⟩ := ha
    obtain ⟨⟨y, hy, hyw⟩, hw⟩ := hb
    by_cases hvw : v ≤ w
    · simp only [hvw, if_true]
      refine ⟨⟨y, Or.inr hy, hyw⟩, ?_⟩
      rintro z (hz | hz)
      · exact le_trans (hv z hz) hvw
      · exact hw z hz
    · simp only [hvw, if_false]
      refine ⟨⟨x, Or.inl hx, hxv⟩, ?_⟩
      rintro z (hz | hz)
      · exact hv z hz
      · exact le_trans (hw z hz) (le_of_lt (not_le.mp hvw))

theorem join_known (a b : Answer) (ha : a.isKnown = true) (hb : b.isKnown = true) :
    (a.join b).isKnown = true := by
  cases a <;> cases b <;> simp_all [Answer.join, Answer.isKnown]

theorem foldl_join_correct {α} (zs : List α) (T : α → Set Val) (g : α → Answer) (f : Val → Rat)
    (S0 : Set Val) (a0 : Answer) (h0 : CorrectS S0 f a0) (h : ∀ z ∈ zs, CorrectS (T z) f (g z)) :
    CorrectS {x | x ∈ S0 ∨ ∃ z ∈ zs, x ∈ T z} f (zs.foldl (fun a z => a.join (g z)) a0) := by
  induction zs generalizing S0 a0 with
  | nil =>
    have : {x | x ∈ S0 ∨ ∃ z ∈ ([] : List α), x ∈ T z} = S0 := by ext x; simp
    rw [this]; exact h0
  | cons z zs ih =>
    have hstep := join_correct S0 (T z) f a0 (g z) h0 (h z List.mem_cons_self)
    have := ih (S0 ∪ T z) (a0.join (g z)) hstep (fun y hy => h y (List.mem_cons_of_mem _ hy))
    have hset : {x | x ∈ S0 ∨ ∃ y ∈ z :: zs, x ∈ T y} = {x | x ∈ S0 ∪ T z ∨ ∃ y ∈ zs, x ∈ T y} := by
      ext x
      simp only [Set.mem_ofPred_eq, List.mem_cons, Set.mem_union]
      constructor
      · rintro (h | ⟨y, rfl | hy, hx⟩)
        · exact Or.inl (Or.inl h)
        · exact Or.inl (Or.inr hx)
        · exact Or.inr ⟨y, hy, hx⟩
      · rintro ((h | h) | ⟨y, hy, hx⟩)
        · exact Or.inl h
        · exact Or.inr ⟨z, Or.inl rfl, h⟩
        · exact Or.inr ⟨y, Or.inr hy, hx⟩
    rw [hset]; exact this

theorem foldl_join_known {α} (zs : List α) (g : α → Answer) (a0 : Answer) (h0 : a0.isKnown = true)
    (h : ∀ z ∈ zs, (g z).isKnown = true) : (zs.foldl (fun a z => a.join (g z)) a0).isKnown = true := by
  induction zs generalizing a0 with
  | nil => exact h0
  | cons z zs ih =>
    exact ih _ (join_known _ _ h0 (h z List.mem_cons_self)) (fun y hy => h y (List.mem_cons_of_mem _ hy))

/-! ### integer ranges -/

theorem mem_intsFromTo (lo hi z : Int) : z ∈ intsFromTo lo hi ↔ lo ≤ z ∧ z ≤ hi := by
  unfold intsFromTo
  simp only [List.mem_map, List.mem_range]
  constructor
  · rintro ⟨j, hj, rfl⟩
    omega
  · rintro ⟨h1, h2⟩
    exact ⟨(z - lo).toNat, by omega, by omega⟩

theorem int_le_floor (z p q : Int) (hq : 0 < q) (h : (z : Rat) ≤ (p : Rat) / (q : Rat)) : z ≤ p / q := by
  have hq' : (0 : Rat) < (q : Rat) := by exact_mod_cast hq
  rw [le_div_iff₀ hq'] at h
  have h' : z * q ≤ p := by exact_mod_cast h
  exact (Int.le_ediv_iff_mul_le hq).mpr h'

theorem linObj_unit (i : Nat) (a : Int) (x : Val) : linObj (unitRow i a) 0 x = (a : Rat) * x i := by
  unfold linObj; rw [dot_unitRow]; simp

theorem unitRow_length (i : Nat) (a : Int) : (unitRow i a).length = i + 1 := by simp [unitRow]

theorem int_le_ratFloor (z : Int) (q : Rat) (h : (z : Rat) ≤ q) : z ≤ ratFloor q := by
  unfold ratFloor
  apply int_le_floor z q.num q.den (by exact_mod_cast q.den_pos)
  rw [show ((q.den : Int) : Rat) = (q.den : Rat) by norm_cast, Rat.num_div_den]; exact h

/-- what `varRange` reports is true of the solution set -/
theorem varRange_spec (n i : Nat) (cs : List Con) (hwf : WF n cs) (hns : NonStrict cs) (hi : i < n) :
    match varRange n i cs with
    | .empty => sem cs = ∅
    | .unbounded => (∃ x, x ∈ sem cs) ∧ ((∀ M : Rat, ∃ x ∈ sem cs, M < x i) ∨ (∀ M : Rat, ∃ x ∈ sem cs, x i < M))
    | .fin lo hi => ∀ x ∈ sem cs, ∀ z : Int, x i = (z : Rat) → lo ≤ z ∧ z ≤ hi := by
  have hlen : ∀ a : Int, (unitRow i a).length ≤ n := fun a => by rw [unitRow_length]; omega
  have h1 := lpMax_correct n (unitRow i 1) 0 cs hwf hns (hlen 1)
  have h2 := lpMax_correct n (unitRow i (-1)) 0 cs hwf hns (hlen (-1))
  have e1 : linObj (unitRow i 1) 0 = fun x => x i := by
    funext x; rw [linObj_unit]; simp
  have e2 : linObj (unitRow i (-1)) 0 = fun x => - x i := by
    funext x; rw [linObj_unit]; simp
  rw [e1] at h1
  rw [e2] at h2
  have hk1 := lpMax_known n (unitRow i 1) 0 cs
  have hk2 := lpMax_known n (unitRow i (-1)) 0 cs
  unfold varRange
  cases hs1 : lpMax n (unitRow i 1) 0 cs with
  | unfeasible => rw [hs1] at h1; exact h1
  | unknownUnboundedIntVar => rw [hs1] at hk1; cases hk1
  | unbounded =>
    rw [hs1] at h1
    cases hs2 : lpMax n (unitRow i (-1)) 0 cs with
    | unfeasible => rw [hs2] at h2; exact h2
    | unknownUnboundedIntVar => rw [hs2] at hk2; cases hk2
    | unbounded => exact ⟨h1.1, Or.inl h1.2⟩
    | optimum w => exact ⟨h1.1, Or.inl h1.2⟩
  | optimum v =>
    rw [hs1] at h1
    cases hs2 : lpMax n (unitRow i (-1)) 0 cs with
    | unfeasible => rw [hs2] at h2; exact h2
    | unknownUnboundedIntVar => rw [hs2] at hk2; cases hk2
    | unbounded =>
      rw [hs2] at h2
      refine ⟨h2.1, Or.inr fun M => ?_⟩
      obtain ⟨x, hx, hlt⟩ := h2.2 (-M)
      exact ⟨x, hx, by linarith⟩
    | optimum w =>
      rw [hs2] at h2
      intro x hx z hz
      have hu := h1.2 x hx
      have hl := h2.2 x hx
      simp only at hu hl
      rw [hz] at hu hl
      constructor
      · have : (((-z : Int)) : Rat) ≤ w := by push_cast; exact hl
        have := int_le_ratFloor (-z) w this
        omega
      · exact int_le_ratFloor z v hu

/-! ### the enumeration -/

/-- points of `cs` whose coordinates listed in `is` are integers -/
def mipSet (is : List Nat) (cs : List Con) : Set Val :=
  {x | Sat cs x ∧ ∀ i ∈ is, ∃ z : Int, x i = (z : Rat)}

theorem Sat_fixRows (i : Nat) (z : Int) (x : Val) : Sat (fixRows i z) x ↔ x i = (z : Rat) := by
  unfold fixRows
  rw [Sat_eqRows, dot_unitRow]
  push_cast
  constructor <;> intro h <;> linarith

theorem wf_fixRows (n i : Nat) (z : Int) (cs : List Con) (hwf : WF n cs) (hi : i < n) :
    WF n (fixRows i z ++ cs) := by
  intro c hc
  rcases List.mem_append.mp hc with h | h
  · simp only [fixRows, eqRows, List.mem_cons, List.not_mem_nil, or_false] at h
    rcases h with rfl | rfl
    · simp only [unitRow_length]; omega
    · simp only [List.length_map, unitRow_length]; omega
  · exact hwf c h

theorem nonStrict_fixRows (i : Nat) (z : Int) (cs : List Con) (h : NonStrict cs) :
    NonStrict (fixRows i z ++ cs) := (nonStrict_eqRows _ _).append h

theorem mipMax_correct (n : Nat) (e : List Int) (k : Int) (he : e.length ≤ n) :
    ∀ (is : List Nat) (cs : List Con), WF n cs → NonStrict cs → (∀ i ∈ is, i < n) →
      CorrectS (mipSet is cs) (linObj e k) (mipMax n e k is cs) := by
  intro is
  induction is with
  | nil =>
    intro cs hwf hns _
    have : mipSet [] cs = sem cs := by ext x; simp [mipSet, sem]
    rw [this]; exact lpMax_correct n e k cs hwf hns he
  | cons i is ih =>
    intro cs hwf hns his
    have hi : i < n := his i List.mem_cons_self
    have hspec := varRange_spec n i cs hwf hns hi
    unfold mipMax
    cases hr : varRange n i cs with
    | empty =>
      rw [hr] at hspec
      show mipSet (i :: is) cs = ∅
      rw [Set.eq_empty_iff_forall_notMem] at hspec ⊢
      exact fun x hx => hspec x hx.1
    | unbounded => trivial
    | fin lo hi' =>
      rw [hr] at hspec
      simp only
      have hbr : ∀ z ∈ intsFromTo lo hi',
          CorrectS (mipSet is (fixRows i z ++ cs)) (linObj e k) (mipMax n e k is (fixRows i z ++ cs)) :=
        fun z _ => ih _ (wf_fixRows n i z cs hwf hi) (nonStrict_fixRows i z cs hns)
          (fun j hj => his j (List.mem_cons_of_mem _ hj))
      have := foldl_join_correct (intsFromTo lo hi') (fun z => mipSet is (fixRows i z ++ cs))
        (fun z => mipMax n e k is (fixRows i z ++ cs)) (linObj e k) ∅ .unfeasible rfl hbr
      have hset : mipSet (i :: is) cs =
          {x | x ∈ (∅ : Set Val) ∨ ∃ z ∈ intsFromTo lo hi', x ∈ mipSet is (fixRows i z ++ cs)} := by
        ext x
        simp only [mipSet, Set.mem_ofPred_eq, Set.mem_empty_iff_false, false_or, List.mem_cons,
          Sat_append, Sat_fixRows, mem_intsFromTo]
        constructor
        · rintro ⟨hs, hint⟩
          obtain ⟨z, hz⟩ := hint i (Or.inl rfl)
          exact ⟨z, hspec x hs z hz, ⟨hz, hs⟩, fun j hj => hint j (Or.inr hj)⟩
        · rintro ⟨z, -, ⟨hz, hs⟩, hint⟩
          refine ⟨hs, ?_⟩
          rintro j (rfl | hj)
          · exact ⟨z, hz⟩
          · exact hint j hj
      rw [hset]; exact this

/-- a coordinate that stays between two rationals on `S` -/
def BoundedVar (S : Set Val) (i : Nat) : Prop := ∃ lo hi : Rat, ∀ x ∈ S, lo ≤ x i ∧ x i ≤ hi

theorem mipMax_known (n : Nat) (e : List Int) (k : Int) :
    ∀ (is : List Nat) (cs : List Con), WF n cs → NonStrict cs → (∀ i ∈ is, i < n) →
      (∀ i ∈ is, BoundedVar (sem cs) i) → (mipMax n e k is cs).isKnown = true := by
  intro is
  induction is with
  | nil => intro cs _ _ _ _; exact lpMax_known n e k cs
  | cons i is ih =>
    intro cs hwf hns his hb
    have hi : i < n := his i List.mem_cons_self
    have hspec := varRange_spec n i cs hwf hns hi
    unfold mipMax
    cases hr : varRange n i cs with
    | empty => rfl
    | unbounded =>
      rw [hr] at hspec
      obtain ⟨lo, hi', hbd⟩ := hb i List.mem_cons_self
      exfalso
      rcases hspec.2 with h | h
      · obtain ⟨x, hx, hlt⟩ := h hi'
        exact absurd (hbd x hx).2 (not_le.mpr hlt)
      · obtain ⟨x, hx, hlt⟩ := h lo
        exact absurd (hbd x hx).1 (not_le.mpr hlt)
    | fin lo hi' =>
      simp only
      apply foldl_join_known _ _ _ rfl
      intro z _
      apply ih _ (wf_fixRows n i z cs hwf hi) (nonStrict_fixRows i z cs hns) (fun j hj => his j (List.mem_cons_of_mem _ hj))
      intro j hj
      obtain ⟨l, h, hbd⟩ := hb j (List.mem_cons_of_mem _ hj)
      refine ⟨l, h, fun x hx => hbd x ?_⟩
      exact ((Sat_append _ _ x).mp hx).2

end PPLV.Solver
