import PPLV.Solver.PendingProofsSetup3

/-!
# C06 stage 3 (b1), part 4 — the insertion loop (:852–:901) of a fresh problem

`InsInv`: after the pending constraints with index `≥ i` are inserted, the rows `≥ k` of the tableau are
as wide as the tableau and zero on the slack columns not yet used and on the artificial / sign columns;
`base` only holds slack columns already used; and, semantically, on valuations `y` with `y 0 = 1` and
non-negative columns: (→) if the rows `≥ k` vanish at `y`, the inserted constraints hold at the projected
point; (←) every non-negative encoding `y0` of a point satisfying them extends (on the slack columns) to a
valuation at which these rows vanish.  No `linear_combine` happens in a fresh problem (`revFold_const`).
-/
namespace PPLV.Solver.Pend
open PPLV.Lin PPLV.Solver.Tab

theorem revFold_const {σ : Type} (f : Nat → σ → σ) (x : σ) : ∀ n, (∀ j, j < n → f j x = x) → revFold n f x = x := by
  intro n
  induction n with
  | zero => intro _; rfl
  | succ n ih =>
    intro h
    unfold revFold
    rw [h n (Nat.lt_succ_self n)]
    exact ih (fun j hj => h j (Nat.lt_succ_of_lt hj))

theorem proj_congr (M : List (Nat × Nat)) (nn : List Bool) (n j : Nat) (hM : MapOK M nn n j) (y y' : Val)
    (h : ∀ col, col < 1 + j → y col = y' col) : proj M y = proj M y' := by
  funext u
  unfold proj
  simp only
  by_cases hu : u < n
  · obtain ⟨c1, c2, -, c4⟩ := hM.cols u hu
    have h1 : (M.getD (u+1) (0, 0)).1 < 1 + j := by unfold hiCol at c4; split at c4 <;> omega
    rw [h _ h1]
    by_cases hm : (M.getD (u+1) (0, 0)).2 = 0
    · have : ((M.getD (u+1) (0, 0)).2 != 0) = false := by rw [hm]; rfl
      rw [this]
      simp only [Bool.false_eq_true, if_false]
    · have h2 : (M.getD (u+1) (0, 0)).2 < 1 + j := by unfold hiCol at c4; rw [if_neg hm] at c4; exact c4
      have : ((M.getD (u+1) (0, 0)).2 != 0) = true := bne_iff_ne.mpr hm
      rw [this]; simp only [if_true]; rw [h _ h2]
  · have : M.getD (u+1) (0, 0) = (0, 0) := by
      rw [List.getD_eq_getElem?_getD, List.getElem?_eq_none (by rw [hM.len]; omega)]; rfl
    rw [this]
    simp only [bne_self_eq_false, Bool.false_eq_true, if_false, sub_zero]
    exact h 0 (by omega)

/-- the data of the insertion loop of a fresh problem -/
structure InsCtx where
  M : List (Nat × Nat)
  nn : List Bool
  n : Nat
  j : Nat
  numCols : Nat
  pend : List ICon
  isSat : List Bool
  hM : MapOK M nn n j
  hlen : ∀ c ∈ pend, c.coeffs.length ≤ n
  hSL : 1 + j + (pend.filter slackC).length < numCols

namespace InsCtx
variable (C : InsCtx)

def V : Nat := 1 + C.j
def SL : Nat := C.V + (C.pend.filter slackC).length
def N : Nat := (C.pend.filter tabC).length
def init : Ins :=
  { T := List.replicate C.N (zeros C.numCols), base := List.replicate C.N 0, k := C.N, slackIndex := C.SL,
    worked := List.replicate C.N false }
def step (i : Nat) (st : Ins) : Ins := insertStep C.numCols C.M C.pend (C.pend.map tabC) C.isSat i st

/-- the invariant after the constraints with index `≥ i` are inserted -/
structure Inv (i : Nat) (st : Ins) : Prop where
  k_eq : st.k = ((C.pend.take i).filter tabC).length
  sl_eq : st.slackIndex = C.V + ((C.pend.take i).filter slackC).length
  lenT : st.T.length = C.N
  lenB : st.base.length = C.N
  rows : ∀ r, st.k ≤ r → r < C.N → (st.T.getD r []).length = C.numCols ∧
    ∀ col, ((C.V ≤ col ∧ col < st.slackIndex) ∨ C.SL ≤ col) → (st.T.getD r []).get col = 0
  base : ∀ r, r < C.N → st.base.getD r 0 = 0 ∨ (st.slackIndex ≤ st.base.getD r 0 ∧ st.base.getD r 0 < C.SL)
  sound : ∀ y : Val, y 0 = 1 → (∀ col, 1 ≤ col → 0 ≤ y col) →
    (∀ r, st.k ≤ r → r < C.N → rowVal (st.T.getD r []) y = 0) →
    ∀ c ∈ C.pend.drop i, tabC c = true → c.holds (proj C.M y)
  complete : ∀ y0 : Val, y0 0 = 1 → (∀ col, 1 ≤ col → 0 ≤ y0 col) →
    (∀ c ∈ C.pend.drop i, tabC c = true → c.holds (proj C.M y0)) →
    ∃ y : Val, (∀ col, col < C.V → y col = y0 col) ∧ y 0 = 1 ∧ (∀ col, 1 ≤ col → 0 ≤ y col) ∧
      (∀ col, C.V ≤ col → (col < st.slackIndex ∨ C.SL ≤ col) → y col = y0 col) ∧
      ∀ r, st.k ≤ r → r < C.N → rowVal (st.T.getD r []) y = 0

theorem take_succ_getD (l : List ICon) (i : Nat) (hi : i < l.length) :
    l.take (i+1) = l.take i ++ [l.getD i default] := by
  induction l generalizing i with
  | nil => simp at hi
  | cons a l ih =>
    cases i with
    | zero => rfl
    | succ i =>
      rw [List.take_succ_cons, List.take_succ_cons, List.getD_cons_succ, List.cons_append,
        ih i (by simpa using hi)]

theorem take_succ_filter (l : List ICon) (i : Nat) (hi : i < l.length) (f : ICon → Bool) :
    ((l.take (i+1)).filter f).length = ((l.take i).filter f).length + (if f (l.getD i default) then 1 else 0) := by
  rw [take_succ_getD l i hi, List.filter_append, List.length_append]
  generalize l.getD i default = a
  by_cases h : f a = true
  · simp [List.filter, h]
  · simp [List.filter, h]

theorem filter_length_le_take (l : List ICon) (i : Nat) (f : ICon → Bool) :
    ((l.take i).filter f).length ≤ (l.filter f).length := by
  have h := List.take_append_drop i l
  conv_rhs => rw [← h]
  rw [List.filter_append, List.length_append]
  omega

theorem init_inv : C.Inv C.pend.length C.init := by
  have htake : C.pend.take C.pend.length = C.pend := List.take_length
  have hdrop : C.pend.drop C.pend.length = [] := List.drop_eq_nil_of_le (le_refl _)
  constructor
  · rw [htake]; rfl
  · rw [htake]; rfl
  · simp [init]
  · simp [init]
  · intro r h1 h2; exact absurd h1 (by simp only [init]; omega)
  · intro r hr
    left
    simp only [init]
    rw [List.getD_eq_getElem?_getD, List.getElem?_replicate_of_lt hr]; rfl
  · intro y _ _ _ c hc; rw [hdrop] at hc; cases hc
  · intro y0 h0 hnn _
    exact ⟨y0, fun _ _ => rfl, h0, hnn, fun _ _ _ => rfl, fun r h1 h2 => absurd h1 (by simp only [init]; omega)⟩

theorem map_getD_tabC (l : List ICon) (i : Nat) (hi : i < l.length) :
    (l.map tabC).getD i true = tabC (l.getD i default) := by
  rw [List.getD_eq_getElem?_getD, List.getElem?_map, List.getD_eq_getElem?_getD, List.getElem?_eq_getElem hi]
  rfl

theorem getD_set_row' (l : List Row) (i k : Nat) (v : Row) (hi : i < l.length) :
    (l.set i v).getD k [] = if k = i then v else l.getD k [] := getD_set_row l i k v hi

/-- one step of the insertion loop keeps the invariant -/
theorem step_inv (i : Nat) (hi : i < C.pend.length) (st : Ins) (h : C.Inv (i+1) st) : C.Inv i (C.step i st) := by
  have hdrop : C.pend.drop i = C.pend.getD i default :: C.pend.drop (i+1) := by
    rw [List.getD_eq_getElem?_getD, List.getElem?_eq_getElem hi]
    exact List.drop_eq_getElem_cons hi
  set c := C.pend.getD i default with hc
  have hcmem : c ∈ C.pend := by
    rw [hc, List.getD_eq_getElem?_getD, List.getElem?_eq_getElem hi]; exact List.getElem_mem _
  have hk := take_succ_filter C.pend i hi tabC
  have hs := take_succ_filter C.pend i hi slackC
  rw [← hc] at hk hs
  unfold step insertStep
  rw [map_getD_tabC _ _ hi, ← hc]
  by_cases ht : tabC c = true
  swap
  · -- not a tableau constraint: nothing happens
    have ht' : tabC c = false := by simpa using ht
    have hsl : slackC c = false := by unfold slackC; rw [ht']; rfl
    rw [ht']
    simp only [Bool.not_false, if_true]
    rw [ht'] at hk; rw [hsl] at hs
    simp only [Bool.false_eq_true, if_false, Nat.add_zero] at hk hs
    refine ⟨by rw [h.k_eq, hk], by rw [h.sl_eq, hs], h.lenT, h.lenB, h.rows, h.base, ?_, ?_⟩
    · intro y h0 hnn hrows c' hc' htc'
      rw [hdrop] at hc'
      rcases List.mem_cons.mp hc' with rfl | hc'
      · rw [ht'] at htc'; cases htc'
      · exact h.sound y h0 hnn hrows c' hc' htc'
    · intro y0 h0 hnn hall
      exact h.complete y0 h0 hnn (fun c' hc' => hall c' (by rw [hdrop]; exact List.mem_cons_of_mem _ hc'))
  · rw [ht]
    simp only [Bool.not_true, Bool.false_eq_true, if_false]
    rw [ht] at hk
    simp only [if_true] at hk
    have hkpos : 1 ≤ st.k := by rw [h.k_eq, hk]; omega
    have hk' : st.k - 1 = ((C.pend.take i).filter tabC).length := by rw [h.k_eq, hk]; omega
    have hkN : st.k ≤ C.N := by
      rw [h.k_eq]; exact filter_length_le_take _ _ _
    have hkT : st.k - 1 < st.T.length := by rw [h.lenT]; omega
    have hkB : st.k - 1 < st.base.length := by rw [h.lenB]; omega
    obtain ⟨r1, r2, r3⟩ := constraintRow_spec C.M C.nn C.n C.j C.numCols C.hM (by have := C.hSL; omega) c (C.hlen c hcmem)
    set row0 := constraintRow C.numCols C.M c with hrow0
    have hSLle : st.slackIndex ≤ C.SL := by
      rw [h.sl_eq]; unfold SL; have := filter_length_le_take C.pend (i+1) slackC; omega
    by_cases he : c.isEq = true
    · -- an equality: no slack column
      have hsl : slackC c = false := by unfold slackC; rw [he]; simp
      rw [hsl] at hs
      simp only [Bool.false_eq_true, if_false, Nat.add_zero] at hs
      simp only [he, Bool.not_true, Bool.false_eq_true, if_false]
      -- no linear_combine
      have hconst : revFold st.base.length (fun j (row : Row) =>
          let bj := st.base.getD j 0
          if (st.k - 1 != j && bj != 0 && row.get bj != 0) = true then linearCombine row (st.T.getD j []) bj else row) row0 = row0 := by
        apply revFold_const
        intro j hj
        simp only
        rw [h.lenB] at hj
        rcases h.base j hj with hb | ⟨hb1, hb2⟩
        · rw [hb]; simp
        · have : row0.get (st.base.getD j 0) = 0 := r2 _ (by rw [h.sl_eq] at hb1; unfold V at hb1; omega)
          rw [this]; simp
      rw [hconst]
      refine ⟨hk', by simp only; rw [h.sl_eq, hs], by simp [h.lenT], h.lenB, ?_, h.base, ?_, ?_⟩
      · intro r hr1 hr2
        simp only at hr1 ⊢
        rw [getD_set_row' _ _ _ _ hkT]
        by_cases hrk : r = st.k - 1
        · rw [if_pos hrk]
          exact ⟨r1, fun col hcol => r2 col (by rcases hcol with ⟨h1, -⟩ | h1 <;> [unfold V at h1; (unfold SL V at h1)] <;> omega)⟩
        · rw [if_neg hrk]
          exact h.rows r (by omega) hr2
      · intro y h0 hnn hrows c' hc' htc'
        simp only at hrows
        rw [hdrop] at hc'
        rcases List.mem_cons.mp hc' with rfl | hc'
        · have := hrows (st.k - 1) (le_refl _) (by omega)
          rw [getD_set_row' _ _ _ _ hkT, if_pos rfl, r3 y h0] at this
          unfold ICon.holds; rw [if_pos he]; exact this
        · apply h.sound y h0 hnn (fun r hr1 hr2 => ?_) c' hc' htc'
          have := hrows r (by omega) hr2
          rwa [getD_set_row' _ _ _ _ hkT, if_neg (by omega)] at this
      · intro y0 h0 hnn hall
        obtain ⟨y, y1, y2, y3, y4, y5⟩ := h.complete y0 h0 hnn
          (fun c' hc' => hall c' (by rw [hdrop]; exact List.mem_cons_of_mem _ hc'))
        refine ⟨y, y1, y2, y3, y4, fun r hr1 hr2 => ?_⟩
        simp only at hr1 ⊢
        rw [getD_set_row' _ _ _ _ hkT]
        by_cases hrk : r = st.k - 1
        · rw [if_pos hrk, r3 y y2, proj_congr C.M C.nn C.n C.j C.hM y y0 y1]
          have := hall c (by rw [hdrop]; exact List.mem_cons_self) ht
          unfold ICon.holds at this; rwa [if_pos he] at this
        · rw [if_neg hrk]; exact y5 r (by omega) hr2
    · -- an inequality: the slack column `slackIndex − 1`
      have he' : c.isEq = false := by simpa using he
      have hsl : slackC c = true := by unfold slackC; rw [ht, he']; rfl
      rw [hsl] at hs
      simp only [if_true] at hs
      have hslpos : C.V + 1 ≤ st.slackIndex := by rw [h.sl_eq, hs]; omega
      have hsi : st.slackIndex - 1 = C.V + ((C.pend.take i).filter slackC).length := by rw [h.sl_eq, hs]; omega
      have hsiV : C.V ≤ st.slackIndex - 1 := by omega
      have hsiSL : st.slackIndex - 1 < C.SL := by omega
      have hsilen : st.slackIndex - 1 < row0.length := by
        rw [r1]; have := C.hSL; unfold SL V at hsiSL; omega
      simp only [he', Bool.not_false, if_true]
      set row1 : Row := row0.set (st.slackIndex - 1) (-1) with hrow1
      have row1_len : row1.length = C.numCols := by rw [hrow1, List.length_set]; exact r1
      have row1_get : ∀ col, row1.get col = if col = st.slackIndex - 1 then -1 else row0.get col := by
        intro col
        unfold Row.get
        rw [hrow1, getD_set_int]
        by_cases hcol : col = st.slackIndex - 1
        · rw [if_pos ⟨hcol, hsilen⟩, if_pos hcol]
        · rw [if_neg (fun a => hcol a.1), if_neg hcol]
      have row1_val : ∀ y : Val, y 0 = 1 →
          rowVal row1 y = dot c.coeffs (proj C.M y) + (c.k : Rat) - y (st.slackIndex - 1) := by
        intro y h0
        unfold rowVal
        rw [hrow1, dot_set _ _ _ _ hsilen]
        have : row0.getD (st.slackIndex - 1) 0 = 0 := r2 _ (by unfold V at hsiV; omega)
        rw [this]
        have := r3 y h0
        unfold rowVal at this
        rw [this]; push_cast; ring
      -- the two variants (already satisfied or not) differ in `base` and `worked` only
      have hconst : ∀ base' : List Nat, base'.length = C.N →
          (∀ r, r < C.N → r ≠ st.k - 1 → base'.getD r 0 = st.base.getD r 0) →
          revFold base'.length (fun j (row : Row) =>
            let bj := base'.getD j 0
            if (st.k - 1 != j && bj != 0 && row.get bj != 0) = true then linearCombine row (st.T.getD j []) bj else row) row1 = row1 := by
        intro base' hbl hbe
        apply revFold_const
        intro j hj
        simp only
        rw [hbl] at hj
        by_cases hjk : j = st.k - 1
        · rw [hjk]; simp
        · rw [hbe j hj hjk]
          rcases h.base j hj with hb | ⟨hb1, hb2⟩
          · rw [hb]; simp
          · have : row1.get (st.base.getD j 0) = 0 := by
              rw [row1_get, if_neg (by omega)]; exact r2 _ (by unfold V at hsiV; omega)
            rw [this]; simp
      -- common part of the proof for both variants
      have main : ∀ (base' : List Nat) (worked' : List Bool), base'.length = C.N →
          (∀ r, r < C.N → r ≠ st.k - 1 → base'.getD r 0 = st.base.getD r 0) →
          (base'.getD (st.k - 1) 0 = st.base.getD (st.k - 1) 0 ∨ base'.getD (st.k - 1) 0 = st.slackIndex - 1) →
          C.Inv i { T := st.T.set (st.k - 1) row1, base := base', k := st.k - 1, slackIndex := st.slackIndex - 1,
                    worked := worked' } := by
        intro base' worked' hbl hbe hbk
        refine ⟨hk', hsi, by simp [h.lenT], hbl, ?_, ?_, ?_, ?_⟩
        · intro r hr1 hr2
          simp only at hr1 ⊢
          rw [getD_set_row' _ _ _ _ hkT]
          by_cases hrk : r = st.k - 1
          · rw [if_pos hrk]
            refine ⟨row1_len, fun col hcol => ?_⟩
            rw [row1_get, if_neg (by rcases hcol with ⟨-, h2⟩ | h2 <;> omega)]
            exact r2 col (by rcases hcol with ⟨h1, -⟩ | h1 <;> [unfold V at h1; (unfold SL V at h1)] <;> omega)
          · rw [if_neg hrk]
            obtain ⟨a1, a2⟩ := h.rows r (by omega) hr2
            exact ⟨a1, fun col hcol => a2 col (by rcases hcol with ⟨h1, h2⟩ | h1 <;> [left; right] <;> omega)⟩
        · intro r hr
          simp only
          by_cases hrk : r = st.k - 1
          · rw [hrk]
            rcases hbk with hb | hb
            · rw [hb]
              rcases h.base (st.k - 1) (by omega) with h1 | ⟨h1, h2⟩
              · exact Or.inl h1
              · exact Or.inr ⟨by omega, h2⟩
            · rw [hb]; exact Or.inr ⟨le_refl _, hsiSL⟩
          · rw [hbe r hr hrk]
            rcases h.base r hr with h1 | ⟨h1, h2⟩
            · exact Or.inl h1
            · exact Or.inr ⟨by omega, h2⟩
        · intro y h0 hnn hrows c' hc' htc'
          simp only at hrows
          rw [hdrop] at hc'
          rcases List.mem_cons.mp hc' with rfl | hc'
          · have := hrows (st.k - 1) (le_refl _) (by omega)
            rw [getD_set_row' _ _ _ _ hkT, if_pos rfl, row1_val y h0] at this
            unfold ICon.holds; rw [if_neg he]
            have hs0 := hnn (st.slackIndex - 1) (by unfold V at hsiV; omega)
            linarith
          · apply h.sound y h0 hnn (fun r hr1 hr2 => ?_) c' hc' htc'
            have := hrows r (by omega) hr2
            rwa [getD_set_row' _ _ _ _ hkT, if_neg (by omega)] at this
        · intro y0 h0 hnn hall
          obtain ⟨y, y1, y2, y3, y4, y5⟩ := h.complete y0 h0 hnn
            (fun c' hc' => hall c' (by rw [hdrop]; exact List.mem_cons_of_mem _ hc'))
          have hholds := hall c (by rw [hdrop]; exact List.mem_cons_self) ht
          unfold ICon.holds at hholds; rw [if_neg he] at hholds
          set v := dot c.coeffs (proj C.M y0) + (c.k : Rat) with hv
          have hsi0 : st.slackIndex - 1 ≠ 0 := by unfold V at hsiV; omega
          refine ⟨y.update (st.slackIndex - 1) v, fun col hcol => ?_, ?_, fun col hcol => ?_, fun col h1 h2 => ?_,
            fun r hr1 hr2 => ?_⟩
          · simp only [Val.update]; rw [if_neg (by omega)]; exact y1 col hcol
          · simp only [Val.update]; rw [if_neg (fun a => hsi0 a.symm)]; exact y2
          · simp only [Val.update]
            by_cases hcs : col = st.slackIndex - 1
            · rw [if_pos hcs]; exact hholds
            · rw [if_neg hcs]; exact y3 col hcol
          · simp only at h2
            simp only [Val.update]; rw [if_neg (by rcases h2 with h2 | h2 <;> omega)]
            exact y4 col h1 (by rcases h2 with h2 | h2 <;> [left; right] <;> omega)
          · simp only at hr1 ⊢
            rw [getD_set_row' _ _ _ _ hkT]
            have hproj : proj C.M (y.update (st.slackIndex - 1) v) = proj C.M y0 :=
              proj_congr C.M C.nn C.n C.j C.hM _ y0 (fun col hcol => by
                simp only [Val.update]; rw [if_neg (by unfold V at hsiV; omega)]; exact y1 col (by unfold V; omega))
            by_cases hrk : r = st.k - 1
            · rw [if_pos hrk, row1_val _ (by simp only [Val.update]; rw [if_neg (fun a => hsi0 a.symm)]; exact y2), hproj]
              simp only [Val.update, if_true]; ring
            · rw [if_neg hrk]
              unfold rowVal
              rw [dot_update]
              have := (h.rows r (by omega) hr2).2 (st.slackIndex - 1) (Or.inl ⟨hsiV, by omega⟩)
              unfold Row.get at this
              rw [this]
              have := y5 r (by omega) hr2
              unfold rowVal at this
              rw [this]; simp
      by_cases hsat : C.isSat.getD i false = true
      · rw [if_pos hsat]
        simp only
        have hbl : (st.base.set (st.k - 1) (st.slackIndex - 1)).length = C.N := by rw [List.length_set]; exact h.lenB
        have hbe : ∀ r, r < C.N → r ≠ st.k - 1 →
            (st.base.set (st.k - 1) (st.slackIndex - 1)).getD r 0 = st.base.getD r 0 := by
          intro r _ hrk; rw [getD_set_nat' _ _ _ _ hkB, if_neg hrk]
        rw [hconst _ hbl hbe]
        exact main _ _ hbl hbe (Or.inr (by rw [getD_set_nat' _ _ _ _ hkB, if_pos rfl]))
      · rw [if_neg hsat]
        simp only
        rw [hconst st.base h.lenB (fun _ _ _ => rfl)]
        exact main _ _ h.lenB (fun _ _ _ => rfl) (Or.inl rfl)

/-- **the insertion loop** of a fresh problem -/
theorem insert_spec : C.Inv 0 (revFold C.pend.length C.step C.init) :=
  revFold_inv (fun i st => C.Inv i st) C.step C.pend.length C.init C.init_inv
    (fun i hi st hst => C.step_inv i hi st hst)

end InsCtx

end PPLV.Solver.Pend
