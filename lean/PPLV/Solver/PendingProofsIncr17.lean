import PPLV.Solver.PendingProofsIncr16

/-!
# C06 stage 3 — `incr_step_spec`: one step `add_constraint; is_lp_satisfiable; second_phase` from a solved state
-/
namespace PPLV.Solver.Pend
open PPLV.Lin PPLV.Solver PPLV.Solver.Tab

theorem addConstraint_solved (s : LPState) (c : ICon)
    (hst : s.status = .SATISFIABLE ∨ s.status = .OPTIMIZED ∨ s.status = .UNBOUNDED) :
    addConstraint s c = { s with input_cs := s.input_cs ++ [c], status := .PARTIALLY_SATISFIABLE } := by
  unfold addConstraint
  simp only
  rw [if_pos (by rcases hst with h | h | h <;> rw [h] <;> rfl)]

/-- a solved state plus one more constraint is the start of an incremental call -/
theorem SolvedInv.incrStart {s : LPState} (hI : SolvedInv s) (c : ICon) (hc : c.coeffs.length ≤ s.external_space_dim) :
    IncrStart { s with input_cs := s.input_cs ++ [c], status := .PARTIALLY_SATISFIABLE } := by
  refine ⟨hI.npos, hI.dims, ?_, ?_⟩
  · intro c' hc'
    rcases List.mem_append.mp hc' with h | h
    · exact hI.lens c' h
    · rw [List.mem_singleton.mp h]; exact hc
  · have ht : (s.input_cs ++ [c]).take s.first_pending = s.input_cs := by
      rw [hI.fp]; exact List.take_left' rfl
    show ReadyS ((s.input_cs ++ [c]).take s.first_pending) s.external_space_dim _
    rw [ht]
    exact ⟨⟨hI.ready.ready.tb, hI.ready.ready.map, hI.ready.ready.sound, hI.ready.ready.complete⟩,
      hI.ready.ncols, hI.ready.completeS⟩

theorem incr_step_spec (fc : Chooser) (hfc : ChooserOK fc) : IncrStepSpec fc := by
  intro f1 f2 s c sR b hI hc hobj h
  have hsa := addConstraint_solved s c hI.st
  rw [hsa] at h ⊢
  set sa : LPState := { s with input_cs := s.input_cs ++ [c], status := .PARTIALLY_SATISFIABLE } with hsadef
  have hSa : IncrStart sa := hI.incrStart c hc
  have hnc : (sa.numCols == 0) = false := by
    have h1 := hI.ready.ncols
    have h2 := hI.ready.ready.tb.len2
    show (s.numCols == 0) = false
    simp; omega
  unfold isLpSatisfiable at h
  have hstat : sa.status = .PARTIALLY_SATISFIABLE := rfl
  simp only [hstat, hnc, Bool.false_eq_true, if_false] at h
  cases hp : processPendingConstraints fc f1 sa with
  | none => rw [hp] at h; cases h
  | some s3 =>
    rw [hp] at h
    simp only [Option.some.injEq, Prod.mk.injEq] at h
    obtain ⟨hsR, hb⟩ := h
    rcases ppc_incremental fc hfc f1 sa s3 hSa hobj hp with ⟨a1, a2⟩ | ⟨a1, a2, a3, a4⟩
    · left
      refine ⟨?_, ?_, a2⟩
      · rw [← hb, a1]; rfl
      · rw [← hsR]; exact a1
    · right
      have hne : s3.status ≠ .UNSATISFIABLE := by
        rcases a4 with h | ⟨h | h, -⟩ <;> rw [h] <;> intro hh <;> cases hh
      have hbt : b = true := by
        rw [← hb]
        cases hs : s3.status <;> first | rfl | exact absurd hs hne
      obtain ⟨d1, d2, d3, d4⟩ := a3
      have hRr : ReadyS sa.input_cs sa.external_space_dim sR := by
        rw [← hsR]
        exact ⟨⟨a1.ready.tb, a1.ready.map, a1.ready.sound, a1.ready.complete⟩, a1.ncols, a1.completeS⟩
      have hdR : SameData sa sR := by rw [← hsR]; exact ⟨d1, d2, d3, d4⟩
      have hstR : sR.status = .SATISFIABLE ∨
          ((sR.status = .OPTIMIZED ∨ sR.status = .UNBOUNDED) ∧ LPClaims sa.input_cs sa.problem sR) := by
        rw [← hsR]; exact a4
      refine ⟨hbt, by rw [← hsR]; exact a2, hdR, ready_exists _ _ _ a1.ready, fun s2 h2 => ?_⟩
      obtain ⟨w1, w2⟩ := after_ppc_second fc hfc f2 sa sR s2 hSa.npos hSa.lens hobj hRr hdR hstR h2
      obtain ⟨e1, e2, e3, e4, e5, e6, e7, e8⟩ := secondPhase_keeps fc f2 sR s2 h2
      have hin : s2.input_cs = s.input_cs ++ [c] := by rw [e1, ← hsR]; exact a2
      have hext : s2.external_space_dim = s.external_space_dim := by rw [e4, ← hsR]; exact d3
      refine ⟨w1, ⟨by rw [hext]; exact hI.npos, ?_, ?_, ?_, ?_, Or.inr e8⟩, hin,
        ⟨by rw [e5, ← hsR]; exact d1, by rw [e6, ← hsR]; exact d2, hext, by rw [e7, ← hsR]; exact d4⟩⟩
      · rw [e3, e4, ← hsR]
      · rw [e2, e1, ← hsR]
      · rw [hin, hext]; exact hSa.lens
      · rw [hin, hext]; exact w2

end PPLV.Solver.Pend
