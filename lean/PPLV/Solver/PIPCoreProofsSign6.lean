import PPLV.Solver.PIPCoreProofsSign5
import Mathlib.Tactic.Linarith
/-!
# C07 core — sign family, part 6: the whole sign analysis of one iteration (PIP_Tree.cc:2695-2808)
-/
namespace PPLV.PIPCore

theorem mem_rangeFrom {a b i : Nat} (h : i ∈ rangeFrom a b) : a ≤ i ∧ i < b := by
  unfold rangeFrom at h
  simp only [List.mem_map, List.mem_range] at h
  obtain ⟨j, hj, rfl⟩ := h
  omega

/-- the three stages of `signAnalysis`, as a disjunction of the paths the code can take -/
theorem signAnalysis_stages {cc : Mat → Option Bool} {nd : SolNode} {ctx : Mat} {r : List RowSign × Firsts}
    (h : signAnalysis cc nd ctx = some r) :
    ∃ st1 : List RowSign × Firsts,
      (st1 = recomputeSigns nd ∨
        ∃ fm, refineMixed1 cc nd.tab ctx fm (rangeFrom fm nd.tab.t.length) (recomputeSigns nd) = some st1) ∧
      (r = st1 ∨ ∃ fm, refineMixed2 cc nd.tab ctx (rangeFrom fm nd.tab.t.length) st1 = some r) := by
  unfold signAnalysis at h
  simp only at h
  split at h
  · exact absurd h (by simp)
  · rename_i st1 hst1
    refine ⟨st1, ?_, ?_⟩
    · split at hst1
      · rename_i fm _ _
        exact Or.inr ⟨fm, hst1⟩
      · simp only [Option.some.injEq] at hst1
        exact Or.inl hst1.symm
    · split at h
      · rename_i fm _ _
        exact Or.inr ⟨fm, h⟩
      · simp only [Option.some.injEq] at h
        exact Or.inl h.symm

/-- **soundness of the whole sign analysis of one iteration**, under `DenDivides` for every row (`_partial`:
    see `signAnalysis_unsound_example` for what happens without it).  Every sign is true of every parameter
    vector `q` of the context, EXCEPT that a `NEGATIVE` produced by the second refinement only means
    `t_k(z) ≤ 0` (and then row `k` has a positive variable coefficient). -/
theorem signAnalysis_sound_partial {cc : Mat → Option Bool} (hcc : CCContract cc) {nd : SolNode}
    (hden : 0 < nd.tab.den) (hbig : nd.big = none) {n : Nat} (hn : 0 < n) {ctx : Mat}
    (hctx : ∀ r ∈ ctx, r.length = n)
    (hrows : ∀ k, k < nd.tab.t.length → (mrow nd.tab.t k).length = n)
    (hdiv : ∀ k, k < nd.tab.t.length → DenDivides nd.tab.den (mrow nd.tab.t k))
    {sg' : List RowSign} {fs' : Firsts} (h : signAnalysis cc nd ctx = some (sg', fs'))
    {q : List Int} (hq : ParamVec n q) (hsat : CtxSat ctx q)
    (hinv : ∀ k, SignTrue (signGet nd.sign k) (dot (mrow nd.tab.t k) q)) :
    ∀ k, SignTrue (signGet sg' k) (dot (mrow nd.tab.t k) q) ∨
      (signGet sg' k = .negative ∧ hasPositive (mrow nd.tab.s k) = true ∧ dot (mrow nd.tab.t k) q ≤ 0) := by
  obtain ⟨st1, h1, h2⟩ := signAnalysis_stages h
  have inv0 := recomputeSigns_sound hbig hrows hq hinv
  have inv1 : ∀ k, SignTrue (signGet st1.1 k) (dot (mrow nd.tab.t k) q) := by
    rcases h1 with rfl | ⟨fm, h1⟩
    · exact inv0
    · exact refineMixed1_sound_partial (sg := (recomputeSigns nd).1) (fs := (recomputeSigns nd).2)
        (sg' := st1.1) (fs' := st1.2) hcc hden hn hctx
        (fun i hi => hrows i (mem_rangeFrom hi).2) (fun i hi => hdiv i (mem_rangeFrom hi).2)
        h1 hq hsat inv0
  intro k
  rcases h2 with h2 | ⟨fm, h2⟩
  · rw [← h2] at inv1; exact Or.inl (inv1 k)
  · have := refineMixed2_sound_partial (sg := st1.1) (fs := st1.2) (sg' := sg') (fs' := fs')
      hcc hden hn hctx
      (fun i hi => hrows i (mem_rangeFrom hi).2) (fun i hi => hdiv i (mem_rangeFrom hi).2) h2 k
    rcases this with h3 | ⟨_, h4, h5, h6⟩
    · rw [h3]; exact Or.inl (inv1 k)
    · exact Or.inr ⟨h4, h5, h6 q hq hsat⟩

/-- the part that needs NO divisibility hypothesis: after the first two stages (before the second
    refinement) a `NEGATIVE` sign is true -/
theorem signAnalysis_negative_sound {cc : Mat → Option Bool} (hcc : CCContract cc) {nd : SolNode}
    (hden : 0 < nd.tab.den) (hbig : nd.big = none) {n : Nat} (hn : 0 < n) {ctx : Mat}
    (hctx : ∀ r ∈ ctx, r.length = n)
    (hrows : ∀ k, k < nd.tab.t.length → (mrow nd.tab.t k).length = n)
    {sg' : List RowSign} {fs' : Firsts} (h : signAnalysis cc nd ctx = some (sg', fs'))
    {q : List Int} (hq : ParamVec n q) (hsat : CtxSat ctx q)
    (hinv : ∀ k, SignTrue (signGet nd.sign k) (dot (mrow nd.tab.t k) q)) :
    ∀ k, signGet sg' k = .negative →
      dot (mrow nd.tab.t k) q < 0 ∨ (hasPositive (mrow nd.tab.s k) = true ∧ dot (mrow nd.tab.t k) q < nd.tab.den) := by
  obtain ⟨st1, h1, h2⟩ := signAnalysis_stages h
  have inv0 := recomputeSigns_sound hbig hrows hq hinv
  have inv0' : ∀ k, signGet (recomputeSigns nd).1 k = .negative → dot (mrow nd.tab.t k) q < 0 := by
    intro k hk; have := inv0 k; rw [hk] at this; exact this
  have inv1 : ∀ k, signGet st1.1 k = .negative → dot (mrow nd.tab.t k) q < 0 := by
    rcases h1 with rfl | ⟨fm, h1⟩
    · exact inv0'
    · exact refineMixed1_negative_sound (sg := (recomputeSigns nd).1) (fs := (recomputeSigns nd).2)
        (sg' := st1.1) (fs' := st1.2) hcc hn hctx
        (fun i hi => hrows i (mem_rangeFrom hi).2) h1 hq hsat inv0'
  intro k hk
  rcases h2 with h2 | ⟨fm, h2⟩
  · rw [← h2] at inv1; exact Or.inl (inv1 k hk)
  · have := refineMixed2_weak_sound (sg := st1.1) (fs := st1.2) (sg' := sg') (fs' := fs')
      hcc hden hn hctx (fun i hi => hrows i (mem_rangeFrom hi).2) h2 k
    rcases this with h3 | ⟨_, _, h5, h6⟩
    · rw [h3] at hk; exact Or.inl (inv1 k hk)
    · exact Or.inr ⟨h5, h6 q hq hsat⟩

-- non-vacuity: a node with `den = 1` (every row satisfies `DenDivides`), one mixed row `1 - p`,
-- context `p ≤ 1`: the analysis answers `POSITIVE`
def exNd6 : SolNode :=
  { tab := { s := [[1]], t := [[1, -1]], den := 1, ns := 1, nt := 2 }, basis := [true, false],
    mapping := [0, 0], varRow := [1], varColumn := [0], sign := [.unknown], big := none, arts := [], cons := [] }
def exCC6 : Mat → Option Bool :=
  tableCC [([[1, -1], [1, -1]], true), ([[1, -1], [-2, 1]], false)]

theorem exCC6_contract : CCContract exCC6 := by
  apply tableCC_contract
  intro e he n hlen hn
  simp only [List.mem_cons, List.not_mem_nil, or_false] at he
  rcases he with rfl | rfl
  · have : n = 2 := (hlen [1, -1] (by decide)).symm
    subst this
    refine ⟨fun _ => ⟨[1, 0], ⟨rfl, rfl, by decide⟩, by rw [ctxSat_iff_all]; decide⟩, fun _ => rfl⟩
  · have : n = 2 := (hlen [1, -1] (by decide)).symm
    subst this
    refine ⟨(fun h => by cases h), ?_⟩
    rintro ⟨q, hq, hs⟩
    obtain ⟨p, rfl, hp⟩ := paramVec_two hq
    have h1 : 0 ≤ dot [1, -1] [1, p] := hs [1, -1] (by decide)
    have h2 : 0 ≤ dot [-2, 1] [1, p] := hs [-2, 1] (by decide)
    simp only [dot_cons, dot_nil_left] at h1 h2
    omega

example : (signAnalysis exCC6 exNd6 [[1, -1]]).map (·.1) = some [.positive] := by decide
example : ∀ k, k < exNd6.tab.t.length → DenDivides exNd6.tab.den (mrow exNd6.tab.t k) := by
  intro k _ j _
  show (1 : Int) ∣ _
  exact Int.one_dvd _

end PPLV.PIPCore
