import PPLV.Solver.PIPCoreProofsCut2
import Mathlib.Tactic.Linarith
import Mathlib.Tactic.Ring
/-!
# C07 stage 2 — the cut step, part 3: the parameter side of a cut (item (a)): the setting is kept, the new
artificial parameter has the value `⌊e / den⌋ ≥ 0`, the two new context rows hold.
-/
namespace PPLV.PIPCore
namespace Cut

variable {n0 : Nat} {qpre : List Int} {nd : SolNode} {ctx : Mat} {index : Nat}

theorem setting_np (hs : CutSetting n0 qpre nd ctx) (hi : index < nd.tab.s.length)
    (h : isParam nd index = false) : CutSetting n0 qpre (ndNP nd index) ctx := by
  have hwf := generateCut_wf nd ctx index hs.wf hi
  rw [gc_np nd ctx index h] at hwf
  exact ⟨hwf, hs.nt_eq, hs.arts_wf, hs.qpre_ok, hs.q_ok, hs.ctx_cols⟩

/-- the parameter vector after a parametric cut -/
theorem q_p (hs : CutSetting n0 qpre nd ctx) :
    extendArts (ndP nd index).arts qpre
      = extendArts nd.arts qpre
          ++ [eVal nd index (extendArts nd.arts qpre) / nd.tab.den] := by
  show extendArts (nd.arts ++ [_]) qpre = _
  rw [extendArts_append]
  show extendArts nd.arts qpre ++ [Int.fdiv _ _] = _
  rw [mk'_fdiv _ _ hs.wf.den_pos]
  rfl

theorem c2head_eq (d a : Int) :
    (if posRem a d ≠ 0 then -(d - posRem a d) + d - 1 else d - 1) = - negmod d a + d - 1 := by
  unfold negmod; split <;> ring

theorem ctx1_eq (hs : CutSetting n0 qpre nd ctx) (hi : index < nd.tab.s.length) :
    ctx1 nd index = apNum nd index ++ [-nd.tab.den] := by
  unfold ctx1
  rw [apNum_cons_form nd index (by rw [rowT_length hs hi]; exact paramVec_pos _ _ hs.q_ok)]

theorem apNum_length (hs : CutSetting n0 qpre nd ctx) (hi : index < nd.tab.s.length) :
    (apNum nd index).length = nd.tab.nt := by
  unfold apNum; rw [List.length_map, rowT_length hs hi]

theorem setting_p (hs : CutSetting n0 qpre nd ctx) (hi : index < nd.tab.s.length)
    (h : isParam nd index = true) :
    CutSetting n0 qpre (ndP nd index) (ctxP nd ctx index) := by
  have hd := hs.wf.den_pos
  have hwf := generateCut_wf nd ctx index hs.wf hi
  rw [gc_p nd ctx index h (findArt_none_of_setting hs hi)] at hwf
  have hntpos := paramVec_pos _ _ hs.q_ok
  have hrl := rowT_length hs hi
  refine ⟨hwf, ?_, ?_, hs.qpre_ok, ?_, ?_⟩
  · show n0 + (nd.arts ++ [_]).length = nd.tab.nt + 1
    rw [List.length_append, List.length_singleton, ← hs.nt_eq]; omega
  · intro j hj
    have harts : (ndP nd index).arts = nd.arts ++ [ArtP.mk' (apNum nd index) nd.tab.den] := rfl
    rw [harts] at hj ⊢
    rw [List.length_append, List.length_singleton] at hj
    by_cases hlt : j < nd.arts.length
    · rw [getD_append_lt _ _ _ _ hlt]; exact hs.arts_wf j hlt
    · have hje : j = nd.arts.length := by omega
      rw [getD_append_len _ _ _ _ hje]
      refine ⟨?_, mk'_den_pos _ _ hd, mk'_nonneg _ _ hd ?_⟩
      · rw [mk'_length _ _ hd, apNum_length hs hi, ← hs.nt_eq, hje]
      · intro a ha
        obtain ⟨b, _, rfl⟩ := List.mem_map.mp ha
        exact negmod_nonneg _ _ hd
  · rw [q_p hs]
    exact paramVec_snoc _ _ _ hs.q_ok
      (Int.ediv_nonneg (eVal_nonneg nd index _ hd hs.q_ok.2.2) (le_of_lt hd))
  · intro r hr
    show r.length = nd.tab.nt + 1
    unfold ctxP at hr
    rcases List.mem_append.mp hr with hr | hr
    · exact Lex.addZeroColumn_cols _ _ hs.ctx_cols r hr
    · simp only [List.mem_cons, List.not_mem_nil, or_false] at hr
      rcases hr with rfl | rfl
      · rw [ctx1_eq hs hi, List.length_append, apNum_length hs hi]; rfl
      · unfold ctx2
        simp only [List.length_append, List.length_cons, List.length_map, List.length_drop,
          List.length_nil, hrl]
        omega

/-- the context after a parametric cut holds at the extended parameter vector -/
theorem ctxSat_p (hs : CutSetting n0 qpre nd ctx) (hi : index < nd.tab.s.length) :
    CtxSat ctx (extendArts nd.arts qpre) →
    CtxSat (ctxP nd ctx index) (extendArts (ndP nd index).arts qpre) := by
  intro hsat
  have hd := hs.wf.den_pos
  rw [q_p hs]
  have hql : (extendArts nd.arts qpre).length = nd.tab.nt := hs.q_ok.1
  have hrl := rowT_length hs hi
  have hntpos := paramVec_pos _ _ hs.q_ok
  intro r hr
  unfold ctxP at hr
  rcases List.mem_append.mp hr with hr | hr
  · unfold addZeroColumn at hr
    obtain ⟨r0, hr0, rfl⟩ := List.mem_map.mp hr
    rw [dot_append_single _ _ _ _ (by rw [hs.ctx_cols r0 hr0, hql]), zero_mul, add_zero]
    exact hsat r0 hr0
  · simp only [List.mem_cons, List.not_mem_nil, or_false] at hr
    rcases hr with rfl | rfl
    · rw [ctx1_eq hs hi, dot_append_single _ _ _ _ (by rw [apNum_length hs hi, hql])]
      have h1 : 0 ≤ eVal nd index (extendArts nd.arts qpre) % nd.tab.den :=
        Int.emod_nonneg _ (by omega)
      rw [Int.emod_def] at h1
      unfold eVal at h1 ⊢
      linarith
    · obtain ⟨ps, hq, _⟩ := hs.q_ok.cons_form
      have h2 : eVal nd index (extendArts nd.arts qpre) % nd.tab.den < nd.tab.den :=
        Int.emod_lt_of_pos _ hd
      rw [Int.emod_def] at h2
      have he : eVal nd index (extendArts nd.arts qpre)
          = negmod nd.tab.den (rget (mrow nd.tab.t index) 0)
            + dot (((mrow nd.tab.t index).drop 1).map (negmod nd.tab.den)) ps := by
        unfold eVal
        rw [← apNum_cons_form nd index (by omega), hq, dot_cons, mul_one]
      unfold ctx2
      rw [dot_append_single _ _ _ _ (by
        simp only [List.length_cons, List.length_map, List.length_drop, hrl, hql]; omega)]
      rw [c2head_eq]
      generalize eVal nd index (extendArts nd.arts qpre) / nd.tab.den = fl at *
      rw [hq, dot_cons, dot_neg, mul_one]
      rw [hq] at he h2
      linarith

/-! ### both cases together -/

/-- everything about one cut that the semantic theorems use -/
theorem gc_main (hs : CutSetting n0 qpre nd ctx) (hi : index < nd.tab.s.length) :
    CutSetting n0 qpre (generateCut nd ctx index).1 (generateCut nd ctx index).2
    ∧ CutFacts nd index (extendArts nd.arts qpre) (generateCut nd ctx index).1
        (extendArts (generateCut nd ctx index).1.arts qpre)
    ∧ (∃ new, (new = [] ∨ new = [ArtP.mk' (apNum nd index) nd.tab.den])
        ∧ (generateCut nd ctx index).1.arts = nd.arts ++ new
        ∧ (generateCut nd ctx index).1.tab.nt = nd.tab.nt + new.length
        ∧ extendArts (generateCut nd ctx index).1.arts qpre
            = extendArts new (extendArts nd.arts qpre))
    ∧ (CtxSat ctx (extendArts nd.arts qpre) →
        CtxSat (generateCut nd ctx index).2 (extendArts (generateCut nd ctx index).1.arts qpre)) := by
  rcases gc_cases hs hi with ⟨h, he⟩ | ⟨h, he⟩
  · rw [he]
    refine ⟨setting_np hs hi h, facts_np nd index _ _ hs.wf.den_pos hs.q_ok h,
      ⟨[], Or.inl rfl, (List.append_nil _).symm, rfl, rfl⟩, fun hc => hc⟩
  · rw [he]
    have hit : index < nd.tab.t.length := by rw [← hs.wf.rows_eq]; exact hi
    refine ⟨setting_p hs hi h, ?_, ⟨[_], Or.inr rfl, rfl, rfl, ?_⟩, ctxSat_p hs hi⟩
    · show CutFacts nd index _ (ndP nd index) (extendArts (ndP nd index).arts qpre)
      rw [q_p hs]
      exact facts_p nd index _ hs.wf.t_cols hs.q_ok.1 hit
    · show extendArts (nd.arts ++ [_]) qpre = _
      rw [extendArts_append]

end Cut
end PPLV.PIPCore
