import PPLV.Solver.PendingProofsE2E
import PPLV.Solver.Spec

/-!
# C06 stage 3 — `lp_fresh_correct`: the LP answers of the model on a problem never solved before
-/
namespace PPLV.Solver.Pend
open PPLV.Lin PPLV.Solver PPLV.Solver.Tab

theorem dot_sgnObj (s : LPState) (x : Val) :
    dot (sgnObj s) x = if s.maximize then dot s.obj.coeffs x else - dot s.obj.coeffs x := by
  unfold sgnObj
  cases s.maximize
  · simp only [Bool.false_eq_true, if_false]; exact dot_map_neg' _ _
  · simp

/-- `x` is at least as good as `x'` for the problem of `s` iff the signed objective says so -/
theorem not_better_iff (s : LPState) (x x' : Val) :
    ¬ Better s.problem (s.problem.objVal x) (s.problem.objVal x') ↔ dot (sgnObj s) x ≤ dot (sgnObj s) x' := by
  rw [dot_sgnObj, dot_sgnObj]
  unfold Better Problem.objVal LPState.problem
  cases s.maximize
  · simp only [Bool.false_eq_true, if_false]; constructor <;> intro h <;> linarith
  · simp only [if_true]; constructor <;> intro h <;> linarith

theorem better_of_large (s : LPState) (x : Val) (M : Rat)
    (h : (if s.maximize then M - (s.obj.k : Rat) else (s.obj.k : Rat) - M) < dot (sgnObj s) x) :
    Better s.problem (s.problem.objVal x) M := by
  rw [dot_sgnObj] at h
  unfold Better Problem.objVal LPState.problem
  cases hm : s.maximize
  · rw [hm] at h; simp only [Bool.false_eq_true, if_false] at h ⊢; linarith
  · rw [hm] at h; simp only [if_true] at h ⊢; linarith

/-- the answer of the LP machinery on a problem never solved before -/
inductive FreshAnswer (s : LPState) : Bool → LPState → Prop
  | unsat (s1 : LPState) : (∀ x, ¬ csSem s.input_cs x) → FreshAnswer s false s1
  | trivial (s1 : LPState) : (s1.status = .OPTIMIZED ∨ s1.status = .UNBOUNDED) → s1.tableau = [] →
      (∃ x, csSem s.input_cs x) → FreshAnswer s true s1
  | ready (s1 : LPState) : s1.status = .SATISFIABLE → Ready s.input_cs s.external_space_dim s1 →
      s1.obj = s.obj → s1.maximize = s.maximize → s1.external_space_dim = s.external_space_dim →
      FreshAnswer s true s1

/-- **`is_lp_satisfiable()` on a problem never solved before answers correctly** -/
theorem isLpSatisfiable_fresh_correct (fc : Chooser) (hfc : ChooserOK fc) (fuel : Nat) (s s1 : LPState) (r : Bool)
    (hU : Untouched s) (hlg : s.last_generator = ⟨[], 1⟩) (hn : 0 < s.external_space_dim)
    (hl : ∀ c ∈ s.input_cs, c.coeffs.length ≤ s.external_space_dim)
    (h : isLpSatisfiable fc fuel s = some (s1, r)) : FreshAnswer s r s1 := by
  rw [isLpSatisfiable_untouched fc fuel s hU] at h
  cases hp : processPendingConstraints fc fuel (firstCall s) with
  | none => rw [hp] at h; cases h
  | some sR =>
    rw [hp] at h
    simp only [Option.some.injEq, Prod.mk.injEq] at h
    obtain ⟨rfl, rfl⟩ := h
    have hF := firstCall_fresh s hU hn hl
    rcases ppc_fresh fc hfc fuel (firstCall s) sR hF hlg hp with ⟨a1, a2⟩ | ⟨a1, a2, a3⟩ | ⟨a1, a2, a3, a4, -, a6⟩
    · rw [a1]; exact FreshAnswer.unsat _ a2
    · have : (sR.status != .UNSATISFIABLE) = true := by rcases a1 with h | h <;> rw [h] <;> rfl
      rw [this]; exact FreshAnswer.trivial _ a1 a2 a3
    · have : (sR.status != .UNSATISFIABLE) = true := by rw [a1]; rfl
      rw [this]; exact FreshAnswer.ready _ a1 ⟨a2.tb, a2.map, a2.sound, a2.complete⟩ a3 a4 a6

/-- **`second_phase()` after the first `is_lp_satisfiable()`**: OPTIMIZED ⇒ a point of the solution set exists
    that no point of the solution set beats; UNBOUNDED ⇒ the solution set is non-empty and has points of
    arbitrarily good objective value -/
theorem secondPhase_fresh_correct (fc : Chooser) (hfc : ChooserOK fc) (fuel : Nat) (s s1 s2 : LPState)
    (hst : s1.status = .SATISFIABLE) (hR : Ready s.input_cs s.external_space_dim s1)
    (ho : s1.obj = s.obj) (hm : s1.maximize = s.maximize) (hobj : s.obj.coeffs.length ≤ s.external_space_dim)
    (h : secondPhase fc fuel s1 = some s2) :
    (s2.status = .OPTIMIZED ∨ s2.status = .UNBOUNDED) ∧
    (s2.status = .OPTIMIZED → ∃ x', csSem s.input_cs x' ∧
      ∀ x, csSem s.input_cs x → ¬ Better s.problem (s.problem.objVal x) (s.problem.objVal x')) ∧
    (s2.status = .UNBOUNDED → (∃ x, csSem s.input_cs x) ∧
      ∀ M : Rat, ∃ x, csSem s.input_cs x ∧ Better s.problem (s.problem.objVal x) M) := by
  obtain ⟨nn, jj, hM, hjj⟩ := hR.map
  have hobj1 : s1.obj.coeffs.length ≤ s.external_space_dim := by rw [ho]; exact hobj
  obtain ⟨c1, c2, -⟩ := secondPhaseCost_spec s1 nn _ jj hM hjj hobj1
  have hc2 : (secondPhaseCost s1).get (s1.working_cost.length - 1) ≠ 0 := by rw [c2]; decide
  obtain ⟨p1, p2, p3, p4, p5, p6⟩ := secondPhase_sound fc hfc fuel s1 s2 hst hR.tb c1 hc2 h
  have hsg : sgnObj s1 = sgnObj s := by unfold sgnObj; rw [ho, hm]
  have hsl : (sgnObj s).length ≤ s.external_space_dim := by unfold sgnObj; simpa using hobj
  set n2 := s1.working_cost.length with hn2
  have hn22 : 2 ≤ n2 := hR.tb.len2
  -- a non-negative solution can be cut after the sign column
  have cut : ∀ y, Sol s1.tableau y → NonnegPt n2 y →
      Pos0 n2 (trunc n2 y) ∧ Sol s1.tableau (trunc n2 y) ∧ proj s1.mapping (trunc n2 y) = proj s1.mapping y := by
    intro y hy hn
    refine ⟨⟨?_, fun j hj => ?_, fun j hj => ?_⟩, ?_, ?_⟩
    · unfold trunc; rw [if_pos (by omega)]; exact hn.1
    · unfold trunc; split
      · by_cases hjl : j < n2 - 1
        · exact hn.2.2 j hj hjl
        · have : j = n2 - 1 := by omega
          rw [this, hn.2.1]
      · exact le_refl _
    · unfold trunc; split
      · have : j = n2 - 1 := by omega
        rw [this, hn.2.1]
      · rfl
    · intro i hi
      unfold rowVal
      rw [dot_trunc _ _ _ (fun j h1 h2 => by have := hR.tb.rowLen i hi; omega)]
      exact hy i hi
    · exact proj_congr s1.mapping nn _ jj hM _ _ (fun col hcol => by unfold trunc; rw [if_pos (by omega)])
  -- objective of a solution of the tableau = signed objective of its projection
  have objy : ∀ y, NonnegPt n2 y → objAt (secondPhaseCost s1) y = dot (sgnObj s) (proj s1.mapping y) := by
    intro y hn
    rw [objAt_secondPhaseCost s1 nn _ jj hM hjj hobj1 y hn, hsg]
  have lift : ∀ x, csSem s.input_cs x → ∃ y, Sol s1.tableau y ∧ NonnegPt n2 y ∧
      dot (sgnObj s) (proj s1.mapping y) = dot (sgnObj s) x := by
    intro x hx
    obtain ⟨y, y1, y2, y3⟩ := hR.complete x hx
    exact ⟨y, y2, y1.nonnegPt, dot_congr_lt _ _ _ (fun u hu => y3 u (by omega))⟩
  refine ⟨p1, fun hopt => ?_, fun hunb => ?_⟩
  · obtain ⟨bound, ⟨ys, ys1, ys2, ys3⟩⟩ := p5 hopt
    obtain ⟨k1, k2, k3⟩ := cut ys ys1 ys2
    refine ⟨proj s1.mapping ys, by rw [← k3]; exact hR.sound _ k1 k2, fun x hx => ?_⟩
    rw [not_better_iff]
    obtain ⟨y, y1, y2, y3⟩ := lift x hx
    have := bound y y1 y2
    rw [objy y y2, ← ys3, objy ys ys2, y3] at this
    exact this
  · refine ⟨?_, fun M => ?_⟩
    · obtain ⟨y, y1, y2, -⟩ := p6 hunb 0
      obtain ⟨k1, k2, k3⟩ := cut y y1 y2
      exact ⟨_, hR.sound _ k1 k2⟩
    · obtain ⟨y, y1, y2, y3⟩ := p6 hunb (if s.maximize then M - (s.obj.k : Rat) else (s.obj.k : Rat) - M)
      obtain ⟨k1, k2, k3⟩ := cut y y1 y2
      refine ⟨proj s1.mapping y, by rw [← k3]; exact hR.sound _ k1 k2, ?_⟩
      apply better_of_large
      rw [← objy y y2]; exact y3

end PPLV.Solver.Pend
