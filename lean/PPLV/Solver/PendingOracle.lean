import PPLV.Solver.Pending
import PPLV.Solver.BB

/-!
# C06 stage 3 — the LP oracle induced by the model of the LP machinery (executable, no Mathlib)

`nodeState N`: the state of `MIP_Problem(N.n)` after `add_constraint` for every row of the node (in order),
`set_objective_function`, `set_optimization_mode`.  `modelOracle fc fuel`: solve it from scratch with the modelled
`is_lp_satisfiable()` / `second_phase()` (pricing = the chooser `fc`) and report what `solve_mip` reads:
unfeasible, or the status with `last_generator`.  `none`: fuel exhausted, or a zero-dimensional node.
-/
namespace PPLV.Solver.Pend
open PPLV.Lin PPLV.Solver

def rowToICon (r : BB.InRow) : ICon := ⟨r.coeffs, r.k, r.eq⟩

def nodeState (N : BB.Node) : LPState :=
  setOptimizationMode
    (setObjectiveFunction (N.rows.foldl (fun s r => addConstraint s (rowToICon r)) (LPState.new N.n)) N.obj)
    N.maximize

def modelOracle (fc : Chooser) (fuel : Nat) : BB.Oracle := fun N =>
  if N.n == 0 then none else
  match isLpSatisfiable fc fuel (nodeState N) with
  | none => none
  | some (_, false) => some .unfeasible
  | some (s1, true) =>
    match secondPhase fc fuel s1 with
    | none => none
    | some s2 =>
      if s2.status == .OPTIMIZED then some (.optimized s2.last_generator)
      else if s2.status == .UNBOUNDED then some (.unbounded s2.last_generator)
      else none

end PPLV.Solver.Pend
