import PPLV.Solver.PendingProofsIncr14

/-!
# C06 stage 3 — an incremental call whose set-up answers itself (`.done`)
-/
namespace PPLV.Solver.Pend
open PPLV.Lin PPLV.Solver PPLV.Solver.Tab

def GCtx.toIns (C : GCtx) : InsCtx :=
  { M := C.M, nn := C.nn, n := C.n, j := C.j, numCols := C.numCols, pend := C.pend, isSat := C.isSat,
    hM := C.hM, hlen := C.hlen, hSL := by have := C.hSL; have := C.hjV; omega }

theorem incr_done (s : LPState) (hS : IncrStart s) (hobj : s.obj.coeffs.length ≤ s.external_space_dim)
    (sd : LPState) (h : ppcSetup s = .done sd) :
    (sd.status = .UNSATISFIABLE ∧ ∀ x, ¬ csSem s.input_cs x) ∨
    ((sd.status = .OPTIMIZED ∨ sd.status = .UNBOUNDED) ∧ ReadyS s.input_cs s.external_space_dim sd ∧
      LPClaims s.input_cs s.problem sd) := by
  cases hp : parseConstraints (computeGenerator s) with
  | none =>
    obtain ⟨a1, a2⟩ := incr_parse_none s hS hp
    rw [a1] at h
    simp only [Setup.done.injEq] at h
    subst h
    exact Or.inl ⟨rfl, a2⟩
  | some p =>
    right
    obtain ⟨C, unf, addArt, s0, hO⟩ := incr_ctx s hS p hp
    rw [hO.setup] at h
    obtain ⟨hnil, hcases⟩ := ppcTrivial_done_cases s0 sd _ _ (by rw [hO.ext]; exact hS.npos) h
    have hTB := C.asm_canonTB unf hO.unfOK
    have art := C.art unf hO.unfOK
    have hTnil : (C.artOut unf).1 = [] := by rw [← hO.tab]; exact hnil
    have hN : C.N = 0 := by rw [← art.lenT, hTnil]; rfl
    have hR0 : C.R0 = 0 := by unfold GCtx.N at hN; omega
    have hNn : C.Nn = 0 := by unfold GCtx.N at hN; omega
    have hunf : unf = [] := by
      apply List.eq_nil_iff_forall_not_mem.mpr
      intro r hr
      have := hO.unfOK.lt r hr; omega
    have hnumc : C.numCols = C.SL + 1 := by
      have := hO.unfOK.nc
      rw [hunf, hNn] at this
      simpa using this
    have hV1 := C.V1
    have hjV := C.hjV
    have hSLj : 1 + C.j ≤ C.SL := by unfold GCtx.SL; omega
    have hwc : s0.working_cost.length = C.numCols := by
      rw [hO.cost, hTnil]
      show ((C.artOut unf).2.1.set (C.numCols - 1) 1).length = C.numCols
      rw [List.length_set]; exact art.lenC
    have hsolnil : ∀ y, Sol (C.artOut unf).1 y := by
      intro y i hi; rw [hTnil] at hi; simp at hi
    have hcompS : ∀ x, csSem s.input_cs x → ∃ y, Pos0 s0.working_cost.length y ∧ Sol s0.tableau y ∧
        (∀ i, i < s.external_space_dim → proj s0.mapping y i = x i) ∧
        NegZero s0.mapping s.external_space_dim x y := by
      intro x hx
      obtain ⟨y, y1, y2, y3, y4, y5, y6⟩ := hO.complete x hx
      refine ⟨y, ⟨y1, y2, fun j hj => y3 j (by rw [hwc, hnumc] at hj; omega)⟩, by rw [hO.tab]; exact y4, ?_, ?_⟩
      · rw [hO.mapping, ← hO.n_eq]; exact y5
      · rw [hO.mapping, ← hO.n_eq]; exact y6
    have hsound : ∀ y, Pos0 s0.working_cost.length y → Sol s0.tableau y → csSem s.input_cs (proj s0.mapping y) := by
      intro y hy _
      rw [hO.mapping]
      rw [hwc, hnumc] at hy
      exact hO.sound y hy.1 hy.2.1 (fun j h1 _ => hy.2.2 j (by omega)) (hsolnil y)
    have hR0S : ReadyS s.input_cs s.external_space_dim s0 := by
      refine ⟨⟨?_, ⟨C.nn, C.j, by rw [hO.mapping, ← hO.n_eq]; exact C.hM, by rw [hwc, hnumc]; omega⟩, hsound, ?_⟩,
        by rw [hO.numCols, hwc], hcompS⟩
      · rw [hO.tab, hO.base, hwc]; exact hTB
      · intro x hx
        obtain ⟨y, y1, y2, y3, -⟩ := hcompS x hx
        exact ⟨y, y1, y2, y3⟩
    -- the claims
    have hlenC : ∀ c ∈ s.input_cs, c.coeffs.length ≤ C.toIns.n := by
      intro c hc; show c.coeffs.length ≤ C.n; rw [hO.n_eq]; exact hS.lens c hc
    obtain ⟨t1, t2, t3⟩ := trivial_gen C.toIns s.input_cs hlenC C.SL hSLj
      (fun y y1 y2 y3 => hO.sound y y1 y2 (fun j h1 _ => y3 j h1) (hsolnil y))
      (fun x hx => by
        obtain ⟨y, -, y2, -, -, y5, -⟩ := hO.complete x hx
        exact ⟨y, y2, y5⟩)
      s.obj s.maximize (by show s.obj.coeffs.length ≤ C.n; rw [hO.n_eq]; exact hobj)
    have hMeq : C.toIns.M = s0.mapping := hO.mapping.symm
    have hsgn : (s.obj.coeffs.map fun a => if s.maximize then a else -a) = sgnObj s := rfl
    rw [hsgn, hMeq] at t2 t3
    have hval : ∀ n : Nat, (⟨zeros n, 1⟩ : Pt).val = Val.zero := by
      intro n; funext i; unfold Pt.val; simp only; rw [zeros_getD]; simp [Val.zero]
    rcases hcases with ⟨hunb, rfl⟩ | ⟨hunb, rfl⟩
    · rw [hO.obj, hO.maximize] at hunb
      refine ⟨Or.inr rfl, ⟨⟨hR0S.ready.tb, hR0S.ready.map, hR0S.ready.sound, hR0S.ready.complete⟩,
        hR0S.ncols, hR0S.completeS⟩, Or.inr rfl, Int.one_pos, by simp only; rw [hval]; exact t1,
        (fun h => by cases h), fun _ M => ?_⟩
      obtain ⟨x, x1, x2⟩ := t3 hunb (if s.maximize then M - (s.obj.k : Rat) else (s.obj.k : Rat) - M)
      exact ⟨x, x1, better_of_large s x M x2⟩
    · rw [hO.obj, hO.maximize] at hunb
      refine ⟨Or.inl rfl, ⟨⟨hR0S.ready.tb, hR0S.ready.map, hR0S.ready.sound, hR0S.ready.complete⟩,
        hR0S.ncols, hR0S.completeS⟩, Or.inl rfl, Int.one_pos, by simp only; rw [hval]; exact t1,
        fun _ x hx => ?_, fun h => by cases h⟩
      simp only
      rw [hval, not_better_iff, dot_zero]
      exact t2 hunb x hx

end PPLV.Solver.Pend
