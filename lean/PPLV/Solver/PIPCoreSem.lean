import PPLV.Solver.PIPCoreSolve
/-!
# C07 stage 2 — what a tableau, a sign and a context MEAN (definitions only, no Mathlib)

**Reading of a tableau.**  A valuation `v : Nat → Int` gives a value to every variable of the node (problem
variables `0 .. ns₀-1`, then one slack variable per tableau row, cuts included); `q = 1 :: params` is the
vector the rows of `t` and of a context are multiplied with (column 0 is the constant term).
Row `i` of the tableau states

    den * v (var_row[i]) = Σ_j s[i][j] * v (var_column[j]) + t[i] · q

and the (x, params) solutions the node describes are the valuations with `TabSat` and `v k ≥ 0` for every
variable `k` (`Feasible`).  The *basic solution* gives 0 to the column variables.
-/
namespace PPLV.PIPCore

def dot : List Int → List Int → Int
  | a :: as, x :: xs => a * x + dot as xs
  | _, _ => 0

/-- row `i` of the tableau as an equation between the values of the variables -/
def RowHolds (nd : SolNode) (v : Nat → Int) (q : List Int) (i : Nat) : Prop :=
  nd.tab.den * v (natGet nd.varRow i)
    = dot (mrow nd.tab.s i) (nd.varColumn.map v) + dot (mrow nd.tab.t i) q

def TabSat (nd : SolNode) (v : Nat → Int) (q : List Int) : Prop :=
  ∀ i, i < nd.tab.s.length → RowHolds nd v q i

/-- the solutions the node describes for the parameter vector `q` -/
def Feasible (nd : SolNode) (v : Nat → Int) (q : List Int) : Prop :=
  TabSat nd v q ∧ ∀ k, k < nd.mapping.length → 0 ≤ v k

/-- structural well-formedness: `PIP_Solution_Node::OK()` (PIP_Tree.cc:1285-1355) plus matrix shapes -/
structure WF (nd : SolNode) : Prop where
  rows_eq : nd.tab.s.length = nd.tab.t.length
  s_cols : ∀ r ∈ nd.tab.s, r.length = nd.tab.ns
  t_cols : ∀ r ∈ nd.tab.t, r.length = nd.tab.nt
  den_pos : 0 < nd.tab.den
  vr_len : nd.varRow.length = nd.tab.s.length
  vc_len : nd.varColumn.length = nd.tab.ns
  sign_len : nd.sign.length = nd.tab.s.length
  map_len : nd.mapping.length = nd.tab.s.length + nd.tab.ns
  basis_len : nd.basis.length = nd.mapping.length
  vr_ok : ∀ i, i < nd.tab.s.length →
    natGet nd.varRow i < nd.mapping.length ∧ boolGet nd.basis (natGet nd.varRow i) = false
      ∧ natGet nd.mapping (natGet nd.varRow i) = i
  vc_ok : ∀ j, j < nd.tab.ns →
    natGet nd.varColumn j < nd.mapping.length ∧ boolGet nd.basis (natGet nd.varColumn j) = true
      ∧ natGet nd.mapping (natGet nd.varColumn j) = j
  map_ok : ∀ k, k < nd.mapping.length →
    (boolGet nd.basis k = true → natGet nd.mapping k < nd.tab.ns ∧ natGet nd.varColumn (natGet nd.mapping k) = k)
    ∧ (boolGet nd.basis k = false → natGet nd.mapping k < nd.tab.s.length ∧ natGet nd.varRow (natGet nd.mapping k) = k)

/-- what the pivot on `(pi, pj)` computes, entry by entry, with the divisions multiplied out:
    `f` is the product of the scale factors, `D` the denominator and `spp` the pivot coefficient of the
    NORMALISED tableau `nd0` the pivot starts from. -/
structure PivotSpec (nd0 nd' : SolNode) (pi pj : Nat) (f : Int) : Prop where
  f_pos : 0 < f
  den_eq : nd'.tab.den = f * nd0.tab.den
  shape : nd'.tab.s.length = nd0.tab.s.length ∧ nd'.tab.t.length = nd0.tab.t.length
            ∧ nd'.tab.ns = nd0.tab.ns ∧ nd'.tab.nt = nd0.tab.nt
  s_other : ∀ i j, i < nd0.tab.s.length → j < nd0.tab.ns → i ≠ pi → j ≠ pj →
    mget nd'.tab.s i j * mget nd0.tab.s pi pj
      = f * (mget nd0.tab.s i j * mget nd0.tab.s pi pj - mget nd0.tab.s i pj * mget nd0.tab.s pi j)
  s_col : ∀ i, i < nd0.tab.s.length → i ≠ pi →
    mget nd'.tab.s i pj * mget nd0.tab.s pi pj = f * (mget nd0.tab.s i pj * nd0.tab.den)
  s_row : ∀ j, j < nd0.tab.ns → j ≠ pj →
    mget nd'.tab.s pi j * mget nd0.tab.s pi pj = - (f * (nd0.tab.den * mget nd0.tab.s pi j))
  s_piv : mget nd'.tab.s pi pj * mget nd0.tab.s pi pj = f * (nd0.tab.den * nd0.tab.den)
  t_other : ∀ i c, i < nd0.tab.s.length → c < nd0.tab.nt → i ≠ pi →
    mget nd'.tab.t i c * mget nd0.tab.s pi pj
      = f * (mget nd0.tab.t i c * mget nd0.tab.s pi pj - mget nd0.tab.s i pj * mget nd0.tab.t pi c)
  t_row : ∀ c, c < nd0.tab.nt →
    mget nd'.tab.t pi c * mget nd0.tab.s pi pj = - (f * (nd0.tab.den * mget nd0.tab.t pi c))
  var_row : nd'.varRow = nd0.varRow.set pi (natGet nd0.varColumn pj)
  var_col : nd'.varColumn = nd0.varColumn.set pj (natGet nd0.varRow pi)
  basis_eq : nd'.basis = (nd0.basis.set (natGet nd0.varRow pi) true).set (natGet nd0.varColumn pj) false
  mapping_eq : nd'.mapping = (nd0.mapping.set (natGet nd0.varRow pi) pj).set (natGet nd0.varColumn pj) pi

/-! ### parameters, contexts, signs -/

/-- `q = 1 :: params` with non-negative integer parameters, `n` columns -/
def ParamVec (n : Nat) (q : List Int) : Prop :=
  q.length = n ∧ q.head? = some 1 ∧ ∀ x ∈ q, 0 ≤ x

/-- every row of the context is non-negative at `q` -/
def CtxSat (ctx : Mat) (q : List Int) : Prop := ∀ r ∈ ctx, 0 ≤ dot r q

/-- the decision contract of `compatibility_check` (PIP_Tree.cc:2230): `true` iff the rows have a common
    non-negative INTEGER solution.  `n` = number of columns. -/
def CCContract (cc : Mat → Option Bool) : Prop :=
  ∀ (m : Mat) (n : Nat) (b : Bool), (∀ r ∈ m, r.length = n) → 0 < n → cc m = some b →
    (b = true ↔ ∃ q, ParamVec n q ∧ CtxSat m q)

/-- what a cached sign claims about the value of the parametric row -/
def SignTrue : RowSign → Int → Prop
  | .zero, v => v = 0
  | .positive, v => 0 ≤ v
  | .negative, v => v < 0
  | _, _ => True

/-! ### lexicographic order of the columns

The "full" matrix has one row per variable `k`, in the order of the variable indices: the unit row
`den * e_(mapping k)` for a column variable, row `mapping k` of `s` for a row variable. -/

def fullRow (nd : SolNode) (k : Nat) : Row :=
  if boolGet nd.basis k then rset (zeroRow nd.tab.ns) (natGet nd.mapping k) nd.tab.den
  else mrow nd.tab.s (natGet nd.mapping k)

def fullRows (nd : SolNode) : List Row := (List.range nd.mapping.length).map (fullRow nd)

/-- column `j` of the rows is zero or its first non-zero entry is positive -/
def LexNonnegCol : List Row → Nat → Prop
  | [], _ => True
  | r :: rs, j => 0 < rget r j ∨ (rget r j = 0 ∧ LexNonnegCol rs j)

/-- the invariant of the lexicographic dual simplex -/
def LexPos (nd : SolNode) : Prop := ∀ j, j < nd.tab.ns → LexNonnegCol (fullRows nd) j

/-- `a * col_j ≤_lex b * col_j'` on the listed rows (`a, b > 0`: comparison of `col_j / b` with `col_j' / a`) -/
def LexLeScaled : List Row → Int → Nat → Int → Nat → Prop
  | [], _, _, _, _ => True
  | r :: rs, a, j, b, j' =>
    a * rget r j < b * rget r j' ∨ (a * rget r j = b * rget r j' ∧ LexLeScaled rs a j b j')

/-- `pj` is a lexico-minimal column for the pivot row `pi`: `s[pi][pj] > 0` and
    `col_pj / s[pi][pj] ≤_lex col_j / s[pi][j]` for every `j` with `s[pi][j] > 0` -/
def LexMinCol (nd : SolNode) (pi pj : Nat) : Prop :=
  pj < nd.tab.ns ∧ 0 < mget nd.tab.s pi pj ∧
  ∀ j, j < nd.tab.ns → 0 < mget nd.tab.s pi j →
    LexLeScaled (fullRows nd) (mget nd.tab.s pi j) pj (mget nd.tab.s pi pj) j

/-- lexicographic order on valuations restricted to the variables `k .. k+n-1` -/
def lexLeFrom (v w : Nat → Int) : Nat → Nat → Prop
  | _, 0 => True
  | k, n + 1 => v k < w k ∨ (v k = w k ∧ lexLeFrom v w (k + 1) n)

/-- the basic solution at `q` gives every variable the value of its `t` row over `den`
    (0 for a column variable); it is a valuation only when the divisions are exact -/
def IsBasic (nd : SolNode) (v : Nat → Int) (q : List Int) : Prop :=
  ∀ k, k < nd.mapping.length →
    (boolGet nd.basis k = true → v k = 0) ∧
    (boolGet nd.basis k = false → nd.tab.den * v k = dot (mrow nd.tab.t (natGet nd.mapping k)) q)

end PPLV.PIPCore
