import PPLV.Solver.PIPCoreProofsCut3
import Mathlib.Tactic.Linarith
import Mathlib.Tactic.Ring
/-!
# C07 stage 2 — the cut step, part 4: feasibility (b), signs (c) and integrality over ℚ (d), from the
facts `Cut.CutFacts` about the node after the cut.
-/
namespace PPLV.PIPCore
namespace Cut

variable {nd nd' : SolNode} {index : Nat} {q q' : List Int}

theorem natGet_eq_getElem (l : List Nat) (j : Nat) (h : j < l.length) : natGet l j = l[j] := by
  unfold natGet
  rw [List.getD_eq_getElem?_getD, List.getElem?_eq_getElem h]; rfl

theorem mem_varColumn_lt (hwf : WF nd) {k : Nat} (hk : k ∈ nd.varColumn) :
    k < nd.mapping.length := by
  obtain ⟨j, hj, rfl⟩ := List.mem_iff_getElem.mp hk
  rw [← natGet_eq_getElem _ _ hj]
  exact (hwf.vc_ok j (by rw [← hwf.vc_len]; exact hj)).1

/-- an old row of the new node says the same as the row of the old node -/
theorem rowHolds_old (hwf : WF nd) (hf : CutFacts nd index q nd' q') (w : Nat → Int) (i : Nat)
    (hi : i < nd.tab.s.length) : RowHolds nd' w q' i ↔ RowHolds nd w q i := by
  unfold RowHolds
  rw [hf.den_eq, hf.vr_eq, hf.vc_eq, hf.s_eq,
    Lex.natGet_append_lt _ _ _ (by rw [hwf.vr_len]; exact hi), Lex.mrow_append_lt _ _ _ hi,
    hf.t_old i (by rw [← hwf.rows_eq]; exact hi)]

theorem rowHolds_congr (hwf : WF nd) (v w : Nat → Int)
    (hvw : ∀ k, k < nd.mapping.length → w k = v k) (i : Nat) (hi : i < nd.tab.s.length) :
    RowHolds nd w q i ↔ RowHolds nd v q i := by
  unfold RowHolds
  rw [hvw _ (hwf.vr_ok i hi).1,
    List.map_congr_left (fun k hk => hvw k (mem_varColumn_lt hwf hk))]

theorem colvals_mem_nonneg (hwf : WF nd) (v : Nat → Int)
    (hv : ∀ k, k < nd.mapping.length → 0 ≤ v k) : ∀ b ∈ nd.varColumn.map v, 0 ≤ b := by
  intro b hb
  obtain ⟨k, hk, rfl⟩ := List.mem_map.mp hb
  exact hv k (mem_varColumn_lt hwf hk)

theorem cutS_nonneg (nd : SolNode) (index : Nat) (hd : 0 < nd.tab.den) :
    ∀ a ∈ cutS nd index, 0 ≤ a := by
  intro a ha
  obtain ⟨b, _, rfl⟩ := List.mem_map.mp ha
  exact Int.emod_nonneg _ (by omega)

/-- (b), first half: a feasible valuation extends to the new slack variable (Gomory) -/
theorem feas_ext (hwf : WF nd) (hf : CutFacts nd index q nd' q') (hi : index < nd.tab.s.length)
    (v : Nat → Int) (hv : Feasible nd v q) :
    ∃ v', (∀ k, k < nd.mapping.length → v' k = v k) ∧ Feasible nd' v' q' := by
  have hd := hwf.den_pos
  have hsrc := hv.1 index hi
  unfold RowHolds at hsrc
  obtain ⟨z, hz⟩ := gomory_int nd.tab.den _ _ _ _ _ hsrc
  have hA : 0 ≤ dot (cutS nd index) (nd.varColumn.map v) :=
    dot_nonneg _ _ (cutS_nonneg nd index hd) (colvals_mem_nonneg hwf v hv.2)
  have hz0 : 0 ≤ z := gomory_nonneg _ _ _ _ hd hA hz
  have hn : nd.mapping.length = nd.tab.t.length + nd.tab.ns := by
    rw [hwf.map_len, hwf.rows_eq]
  let v' : Nat → Int := fun k => if k = nd.mapping.length then z else v k
  have hagree : ∀ k, k < nd.mapping.length → v' k = v k := by
    intro k hk
    show (if k = nd.mapping.length then z else v k) = v k
    rw [if_neg (by omega)]
  refine ⟨v', hagree, ?_, ?_⟩
  · intro i hi'
    rw [hf.s_eq, List.length_append, List.length_singleton] at hi'
    by_cases hlt : i < nd.tab.s.length
    · rw [rowHolds_old hwf hf v' i hlt, rowHolds_congr hwf v v' hagree i hlt]
      exact hv.1 i hlt
    · have hie : i = nd.tab.s.length := by omega
      subst hie
      unfold RowHolds
      rw [hf.den_eq, hf.vr_eq, hf.vc_eq, hf.s_eq,
        Lex.natGet_append_at _ _ _ hwf.vr_len.symm, Lex.mrow_append_len, hwf.rows_eq, hf.t_new,
        List.map_congr_left (fun k hk => hagree k (mem_varColumn_lt hwf hk))]
      have hvn : v' (nd.tab.t.length + nd.tab.ns) = z := by
        show (if _ = nd.mapping.length then z else _) = z
        rw [if_pos hn.symm]
      rw [hvn]
      unfold eVal apNum cutS
      linarith
  · intro k hk
    rw [hf.mapping_eq, List.length_append, List.length_singleton] at hk
    show 0 ≤ (if k = nd.mapping.length then z else v k)
    by_cases hke : k = nd.mapping.length
    · rw [if_pos hke]; exact hz0
    · rw [if_neg hke]; exact hv.2 k (by omega)

/-- (b), second half: a feasible valuation of the new node is feasible for the old one -/
theorem feas_res (hwf : WF nd) (hf : CutFacts nd index q nd' q') (v' : Nat → Int)
    (hv : Feasible nd' v' q') : Feasible nd v' q := by
  refine ⟨fun i hi => ?_, fun k hk => hv.2 k ?_⟩
  · rw [← rowHolds_old hwf hf v' i hi]
    exact hv.1 i (by rw [hf.s_eq, List.length_append]; omega)
  · rw [hf.mapping_eq, List.length_append]; omega

/-! ### signs -/

theorem signGet_append_lt (l : List RowSign) (x : RowSign) (k : Nat) (h : k < l.length) :
    signGet (l ++ [x]) k = signGet l k := getD_append_lt _ _ _ _ h

/-- (c) -/
theorem signAt_of_facts (hwf : WF nd) (hf : CutFacts nd index q nd' q') :
    SignAt nd q → SignAt nd' q' := by
  intro hs k
  have hd := hwf.den_pos
  rw [hf.den_eq, hf.sign_eq]
  rcases lt_trichotomy k nd.sign.length with hlt | heq | hgt
  · rw [signGet_append_lt _ _ _ hlt,
      hf.t_old k (by rw [← hwf.rows_eq, ← hwf.sign_len]; exact hlt)]
    exact hs k
  · have h1 : signGet (nd.sign ++ [RowSign.negative]) k = .negative :=
      getD_append_len _ _ _ _ heq
    have hk : k = nd.tab.t.length := by rw [heq, hwf.sign_len, hwf.rows_eq]
    rw [h1, hk, hf.t_new]
    show -(eVal nd index q % nd.tab.den) < nd.tab.den
    have := Int.emod_nonneg (eVal nd index q) (by omega : nd.tab.den ≠ 0)
    omega
  · have h1 : signGet (nd.sign ++ [RowSign.negative]) k = .unknown :=
      getD_append_gt _ _ _ _ hgt
    rw [h1]; exact trivial

/-! ### integrality over ℚ -/

theorem dotQ_cast : ∀ (r l : List Int), dotQ r (l.map (fun z : Int => (z : ℚ))) = ((dot r l : Int) : ℚ)
  | [], l => by cases l <;> simp [dotQ, dot]
  | a :: as, [] => by simp [dotQ, dot]
  | a :: as, b :: bs => by
    simp only [List.map_cons, dotQ, dot]
    rw [dotQ_cast as bs]; push_cast; ring

theorem rowHoldsQ_old (hwf : WF nd) (hf : CutFacts nd index q nd' q') (w : Nat → ℚ) (i : Nat)
    (hi : i < nd.tab.s.length) : RowHoldsQ nd' w q' i ↔ RowHoldsQ nd w q i := by
  unfold RowHoldsQ
  rw [hf.den_eq, hf.vr_eq, hf.vc_eq, hf.s_eq,
    Lex.natGet_append_lt _ _ _ (by rw [hwf.vr_len]; exact hi), Lex.mrow_append_lt _ _ _ hi,
    hf.t_old i (by rw [← hwf.rows_eq]; exact hi)]

/-- (d) -/
theorem intInv_of_facts (hwf : WF nd) (hf : CutFacts nd index q nd' q')
    (hi : index < nd.tab.s.length) : IntInv nd q → IntInv nd' q' := by
  intro hinv v hsat hint k hk
  have hd := hwf.den_pos
  have hsat0 : TabSatQ nd v q := fun i hi' =>
    (rowHoldsQ_old hwf hf v i hi').mp (hsat i (by rw [hf.s_eq, List.length_append]; omega))
  have hold := hinv v hsat0 (fun k hk => hint k (by rw [hf.ns_eq]; exact hk))
  rw [hf.mapping_eq, List.length_append, List.length_singleton] at hk
  by_cases hlt : k < nd.mapping.length
  · exact hold k hlt
  · have hke : k = nd.tab.t.length + nd.tab.ns := by
      rw [← hwf.rows_eq, ← hwf.map_len]; omega
    subst hke
    classical
    let zf : Nat → Int := fun k => if h : IsIntQ (v k) then Classical.choose h else 0
    have hz : ∀ k, k < nd.mapping.length → v k = (zf k : ℚ) := by
      intro k hk
      have h := hold k hk
      show v k = ((if h : IsIntQ (v k) then Classical.choose h else 0 : Int) : ℚ)
      rw [dif_pos h]
      exact Classical.choose_spec h
    have hmap : nd.varColumn.map v = (nd.varColumn.map zf).map (fun z : Int => (z : ℚ)) := by
      rw [List.map_map]
      exact List.map_congr_left (fun k hk => hz k (mem_varColumn_lt hwf hk))
    have hsrc := hsat0 index hi
    unfold RowHoldsQ at hsrc
    rw [hmap, dotQ_cast, hz _ (hwf.vr_ok index hi).1] at hsrc
    have hsrcZ : nd.tab.den * zf (natGet nd.varRow index)
        = dot (mrow nd.tab.s index) (nd.varColumn.map zf) + dot (mrow nd.tab.t index) q := by
      exact_mod_cast hsrc
    obtain ⟨zz, hzz⟩ := gomory_int nd.tab.den _ _ _ _ _ hsrcZ
    have hnew := hsat nd.tab.s.length (by rw [hf.s_eq, List.length_append]; simp)
    unfold RowHoldsQ at hnew
    rw [hf.den_eq, hf.vr_eq, hf.vc_eq, hf.s_eq,
      Lex.natGet_append_at _ _ _ hwf.vr_len.symm, Lex.mrow_append_len, hwf.rows_eq, hf.t_new,
      hmap, dotQ_cast] at hnew
    refine ⟨zz, ?_⟩
    have hd' : (nd.tab.den : ℚ) ≠ 0 := by
      have : nd.tab.den ≠ 0 := by omega
      exact_mod_cast this
    have hq : (nd.tab.den : ℚ) * v (nd.tab.t.length + nd.tab.ns) = (nd.tab.den : ℚ) * (zz : ℚ) := by
      rw [hnew]
      unfold eVal apNum cutS
      have : ((nd.tab.den * zz : Int) : ℚ) = (nd.tab.den : ℚ) * (zz : ℚ) := by push_cast; ring
      rw [← this, ← hzz]
      push_cast; ring
    exact mul_left_cancel₀ hd' hq

end Cut
end PPLV.PIPCore
