import PPLV.Solver.PendingProofsReadyS
import PPLV.Solver.PendingProofsE2E4

/-!
# C06 stage 3 — the incremental step: statements (`SolvedInv`, `IncrStepSpec`)

`SolvedInv s`: what holds of a state after `is_lp_satisfiable()` answered true (and possibly `second_phase()` ran):
every constraint is processed, no pending space dimension, the tableau is canonical and feasible and its
non-negative solutions are the encodings of the solution set (`ReadyS`).
`IncrStepSpec fc`: one incremental step `add_constraint(c); is_lp_satisfiable(); second_phase()` from such a state
answers correctly and re-establishes `SolvedInv`.
-/
namespace PPLV.Solver.Pend
open PPLV.Lin PPLV.Solver PPLV.Solver.Tab

structure SolvedInv (s : LPState) : Prop where
  npos : 0 < s.external_space_dim
  dims : s.internal_space_dim = s.external_space_dim
  fp : s.first_pending = s.input_cs.length
  lens : ∀ c ∈ s.input_cs, c.coeffs.length ≤ s.external_space_dim
  ready : ReadyS s.input_cs s.external_space_dim s
  st : s.status = .SATISFIABLE ∨ s.status = .OPTIMIZED ∨ s.status = .UNBOUNDED

/-- the data an incremental step keeps -/
def SameData (s s' : LPState) : Prop :=
  s'.obj = s.obj ∧ s'.maximize = s.maximize ∧ s'.external_space_dim = s.external_space_dim ∧
  s'.pricing = s.pricing

/-- one incremental step from a solved state -/
def IncrStepSpec (fc : Chooser) : Prop :=
  ∀ (f1 f2 : Nat) (s : LPState) (c : ICon) (sR : LPState) (b : Bool),
    SolvedInv s → c.coeffs.length ≤ s.external_space_dim → s.obj.coeffs.length ≤ s.external_space_dim →
    isLpSatisfiable fc f1 (addConstraint s c) = some (sR, b) →
    (b = false ∧ sR.status = .UNSATISFIABLE ∧ ∀ x, ¬ csSem (s.input_cs ++ [c]) x) ∨
    (b = true ∧ sR.input_cs = s.input_cs ++ [c] ∧ SameData s sR ∧ (∃ x, csSem (s.input_cs ++ [c]) x) ∧
      ∀ s2, secondPhase fc f2 sR = some s2 →
        LPClaims (s.input_cs ++ [c]) (addConstraint s c).problem s2 ∧ SolvedInv s2 ∧
        s2.input_cs = s.input_cs ++ [c] ∧ SameData s s2)

end PPLV.Solver.Pend
