import PPLV.Solver.PendingOracleIncr
import PPLV.Solver.PendingProofsOracle
import PPLV.Solver.PendingProofsChain
import PPLV.Solver.PendingProofsIncrSpec

/-!
# C06 stage 3 — the incremental oracle induced by the model is correct (`BB.OracleOK`), given the incremental step

* `ppc_fresh_readyS`, `fresh_solvedInv_state`, `fresh_solvedInv`: the state left by `is_lp_satisfiable()` +
  `second_phase()` on a problem never solved before satisfies `SolvedInv` (in particular `ReadyS`: also in the branch
  without tableau rows), keeps the data, and its answer is right (`LPClaims`);
* `incrStep_inv`, `foldl_incrStep_inv`: the invariant `RunInv` of the incremental loop, from `IncrStepSpec fc`;
* `modelOracleIncr_ok`: `ChooserOK fc → IncrStepSpec fc → BB.OracleOK (modelOracleIncr fc fuel k)`.
-/
namespace PPLV.Solver.Pend
open PPLV.Lin PPLV.Solver PPLV.Solver.Tab

/-! ### small facts about the code -/

theorem ppcTrivial_done_keeps (s0 sd : LPState) (b e : Nat) (h : ppcTrivial s0 b e = .done sd) :
    sd.tableau = s0.tableau ∧ sd.base = s0.base ∧ sd.working_cost = s0.working_cost ∧ sd.numCols = s0.numCols ∧
    sd.mapping = s0.mapping ∧ sd.input_cs = s0.input_cs ∧ sd.obj = s0.obj ∧ sd.maximize = s0.maximize ∧
    sd.pricing = s0.pricing ∧ sd.external_space_dim = s0.external_space_dim := by
  unfold ppcTrivial at h
  split at h
  · simp only [Setup.done.injEq] at h; subst h; exact ⟨rfl, rfl, rfl, rfl, rfl, rfl, rfl, rfl, rfl, rfl⟩
  · split at h
    · split at h
      · simp only [Setup.done.injEq] at h; subst h; exact ⟨rfl, rfl, rfl, rfl, rfl, rfl, rfl, rfl, rfl, rfl⟩
      · simp only [Setup.done.injEq] at h; subst h; exact ⟨rfl, rfl, rfl, rfl, rfl, rfl, rfl, rfl, rfl, rfl⟩
    · cases h

theorem ppcFill_done (s : LPState) (unf : List Nat) (p : Parsed) (isSat : List Bool) (M : List (Nat × Nat))
    (av : Nat) (sd : LPState) (h : ppcFill s unf p isSat M av = .done sd) :
    sd.obj = s.obj ∧ sd.maximize = s.maximize ∧ sd.external_space_dim = s.external_space_dim ∧
    sd.input_cs = s.input_cs ∧ sd.pricing = s.pricing := by
  unfold ppcFill at h
  simp only at h
  obtain ⟨-, -, -, -, -, d6, d7, d8, d9, d10⟩ := ppcTrivial_done_keeps _ _ _ _ h
  exact ⟨d7, d8, d10, d6, d9⟩

/-- an early return of the set-up does not touch the objective, the mode, the pricing, the space dimension or
    `input_cs` either -/
theorem ppcSetup_done_keeps (s sd : LPState) (h : ppcSetup s = .done sd) :
    sd.obj = s.obj ∧ sd.maximize = s.maximize ∧ sd.external_space_dim = s.external_space_dim ∧
    sd.input_cs = s.input_cs ∧ sd.pricing = s.pricing := by
  unfold ppcSetup at h
  have hrec : (ppcRecompute s).1.obj = s.obj ∧ (ppcRecompute s).1.maximize = s.maximize ∧
      (ppcRecompute s).1.external_space_dim = s.external_space_dim ∧
      (ppcRecompute s).1.input_cs = s.input_cs ∧ (ppcRecompute s).1.pricing = s.pricing := by
    unfold ppcRecompute
    split
    · split <;> exact ⟨rfl, rfl, rfl, rfl, rfl⟩
    · exact ⟨rfl, rfl, rfl, rfl, rfl⟩
  rcases hr : ppcRecompute s with ⟨s1, lg⟩
  rw [hr] at h hrec
  simp only at h hrec
  split at h
  · simp only [Setup.done.injEq] at h
    subst h
    exact hrec
  · rename_i p _
    unfold ppcBuild at h
    simp only at h
    obtain ⟨m1, m2, m3, m4, m5⟩ := ppcMerge_keeps s1 p.isRemerge
    obtain ⟨f1, f2, f3, f4, f5⟩ := ppcFill_done _ _ _ _ _ _ _ h
    exact ⟨by rw [f1, m1, hrec.1], by rw [f2, m2, hrec.2.1], by rw [f3, m3, hrec.2.2.1],
      by rw [f4, m4, hrec.2.2.2.1], by rw [f5, m5, hrec.2.2.2.2]⟩

theorem ppcFinish_input_cs (s' : LPState) (b e : Nat) (ok : Bool) (t : Tab) :
    (ppcFinish s' b e ok t).input_cs = s'.input_cs := by
  unfold ppcFinish
  simp only
  split
  · rfl
  · split <;> rfl

/-- what `second_phase()` keeps, and the status it leaves -/
theorem secondPhase_keeps (fc : Chooser) (fuel : Nat) (s s2 : LPState) (h : secondPhase fc fuel s = some s2) :
    s2.input_cs = s.input_cs ∧ s2.first_pending = s.first_pending ∧
    s2.internal_space_dim = s.internal_space_dim ∧ s2.external_space_dim = s.external_space_dim ∧
    s2.obj = s.obj ∧ s2.maximize = s.maximize ∧ s2.pricing = s.pricing ∧
    (s2.status = .OPTIMIZED ∨ s2.status = .UNBOUNDED) := by
  unfold secondPhase at h
  split at h
  · rename_i hc
    simp only [Option.some.injEq] at h
    subst h
    refine ⟨rfl, rfl, rfl, rfl, rfl, rfl, rfl, ?_⟩
    cases hs : s.status <;> rw [hs] at hc <;> first | exact Or.inl rfl | exact Or.inr rfl | cases hc
  · simp only at h
    split at h
    · cases h
    · rename_i ok t _
      simp only [Option.some.injEq] at h
      subst h
      refine ⟨rfl, rfl, rfl, rfl, rfl, rfl, rfl, ?_⟩
      cases ok
      · exact Or.inr rfl
      · exact Or.inl rfl

theorem isLpSatisfiable_false (fc : Chooser) (fuel : Nat) (s s1 : LPState)
    (h : isLpSatisfiable fc fuel s = some (s1, false)) : s1.status = .UNSATISFIABLE := by
  unfold isLpSatisfiable at h
  split at h
  · rename_i hs
    simp only [Option.some.injEq, Prod.mk.injEq] at h
    rw [← h.1]; exact hs
  · simp at h
  · simp at h
  · simp at h
  · simp only at h
    split at h
    · cases h
    · simp only [Option.some.injEq, Prod.mk.injEq] at h
      obtain ⟨rfl, hb⟩ := h
      simpa using hb

theorem addConstraint_keeps (s : LPState) (c : ICon) :
    (addConstraint s c).obj = s.obj ∧ (addConstraint s c).maximize = s.maximize ∧
    (addConstraint s c).external_space_dim = s.external_space_dim ∧
    (addConstraint s c).input_cs = s.input_cs ++ [c] := by
  unfold addConstraint
  simp only
  split <;> exact ⟨rfl, rfl, rfl, rfl⟩

/-- the claims only look at the objective and the mode of the problem -/
theorem LPClaims_congr (cs : List ICon) (P P' : Problem) (s : LPState) (h1 : P'.obj = P.obj)
    (h2 : P'.maximize = P.maximize) (h : LPClaims cs P s) : LPClaims cs P' s := by
  unfold LPClaims Better Problem.objVal at h ⊢
  rw [h1, h2]
  exact h

/-! ### `ReadyS` after a fresh `process_pending_constraints` -/

/-- the branch without tableau rows (:982–:999) leaves a `ReadyS` state (empty tableau) -/
theorem ppc_fresh_done_readyS (s sd : LPState) (hF : Fresh s) (hlg : s.last_generator = ⟨[], 1⟩)
    (hs : ppcSetup s = .done sd) (hst : sd.status ≠ .UNSATISFIABLE) :
    ReadyS s.input_cs s.external_space_dim sd := by
  cases hp : parseConstraints s with
  | none =>
    exfalso
    have : ppcSetup s = .done { s with status := .UNSATISFIABLE } := by
      unfold ppcSetup; rw [ppcRecompute_fresh hF]; simp only [hp]
    rw [this] at hs
    simp only [Setup.done.injEq] at hs
    subst hs
    exact hst rfl
  | some p =>
    obtain ⟨C, c1, c2, c3, H1, H2, hnc, s0, hs0, f1, f2, f3, f4, f5, f6, -⟩ := fresh_ctx s hF p hp
    obtain ⟨q1, q2⟩ := parse_isSat s p hp
    rw [hF.fp0, List.drop_zero] at q1 q2
    have hsat : C.SatOK := by
      intro i hi hflag
      rw [c3] at hflag
      obtain ⟨-, g2, g3, g4⟩ := q2 i hflag
      rw [hlg] at g4
      rw [c1]
      exact ⟨g2, isSatisfied_origin _ g3 g4⟩
    have hlenS : C.isSat.length = C.pend.length := by rw [c3, c1]; exact q1
    have hTB := C.setup_canonTB hsat hlenS hnc
    have art := C.artOut_spec hsat hlenS hnc
    rw [hs0] at hs
    obtain ⟨d1, d2, d3, d4, d5, -⟩ := ppcTrivial_done_keeps _ _ _ _ hs
    have hT0 : s0.tableau = [] := by
      rcases ppcTrivial_cases s0 (if (C.N - C.isSat.count true) > 0 then C.SL else 0) C.artOut.2.2.2
          (by rw [f6]; exact hF.npos) with ⟨hph, -⟩ | ⟨sd', -, -, -, -, d, -⟩
      · rw [hph] at hs; cases hs
      · exact d
    have hTnil : C.artOut.1 = [] := by rw [← f1]; exact hT0
    have hN : C.N = 0 := by rw [← art.lenT, hTnil]; rfl
    have hnumc : C.numCols = C.SL + 1 := by rw [hnc, hN]; omega
    have hwc : sd.working_cost.length = C.numCols := by
      rw [d3, f3, hTnil]
      show (C.artOut.2.1.set (C.numCols - 1) 1).length = C.numCols
      rw [List.length_set]; exact art.lenC
    have hSLj : 1 + C.j ≤ C.SL := by unfold InsCtx.SL InsCtx.V; omega
    have hsdT : sd.tableau = C.T2 (zeros C.numCols) C.fin.base := by rw [d1, f1]; rfl
    obtain ⟨core1, -⟩ := C.setup_core (zeros C.numCols) C.fin.base H1 H2
    have coreS := C.setup_coreS (zeros C.numCols) C.fin.base H2
    have hcompS : ∀ x, csSem s.input_cs x → ∃ y, Pos0 sd.working_cost.length y ∧ Sol sd.tableau y ∧
        (∀ i, i < s.external_space_dim → proj sd.mapping y i = x i) ∧
        NegZero sd.mapping s.external_space_dim x y := by
      intro x hx
      rw [← c1] at hx
      obtain ⟨y, y1, y2, y3, y4, y5, y6⟩ := coreS x hx
      refine ⟨y, ⟨y1, y2, fun j hj => y3 j (by rw [hwc, hnumc] at hj; omega)⟩, by rw [hsdT]; exact y4, ?_, ?_⟩
      · rw [d5, f5, ← c2]; exact y5
      · rw [d5, f5, ← c2]; exact y6
    refine ⟨⟨?_, ⟨C.nn, C.j, by rw [d5, f5, ← c2]; exact C.hM, by rw [hwc, hnumc]; omega⟩, ?_, ?_⟩,
      by rw [d4, f4, hwc], hcompS⟩
    · rw [d1, d2, hwc, f1, f2]; exact hTB
    · intro y hy hsy
      rw [d5, f5, ← c1]
      rw [hwc, hnumc] at hy
      exact core1 y hy.1 hy.2.1 (fun j h1 _ => hy.2.2 j (by omega)) (by rw [← hsdT]; exact hsy)
    · intro x hx
      obtain ⟨y, y1, y2, y3, -⟩ := hcompS x hx
      exact ⟨y, y1, y2, y3⟩

/-- **what a fresh `process_pending_constraints()` that does not answer UNSATISFIABLE leaves: `ReadyS`** -/
theorem ppc_fresh_readyS (fc : Chooser) (hfc : ChooserOK fc) (fuel : Nat) (s sR : LPState) (hF : Fresh s)
    (hlg : s.last_generator = ⟨[], 1⟩) (h : processPendingConstraints fc fuel s = some sR)
    (hst : sR.status ≠ .UNSATISFIABLE) :
    ReadyS s.input_cs s.external_space_dim sR ∧ sR.input_cs = s.input_cs ∧ sR.obj = s.obj ∧
    sR.maximize = s.maximize ∧ sR.pricing = s.pricing ∧ sR.external_space_dim = s.external_space_dim ∧
    (sR.status = .SATISFIABLE ∨ sR.status = .OPTIMIZED ∨ sR.status = .UNBOUNDED) := by
  unfold processPendingConstraints at h
  cases hs : ppcSetup s with
  | done sd =>
    rw [hs] at h
    simp only [Option.some.injEq] at h
    subst h
    obtain ⟨k1, k2, k3, k4, k5⟩ := ppcSetup_done_keeps s sd hs
    refine ⟨ppc_fresh_done_readyS s sd hF hlg hs hst, k4, k1, k2, k5, k3, ?_⟩
    -- the status: from `ppc_fresh`
    have hppc : processPendingConstraints fc fuel s = some sd := by
      unfold processPendingConstraints; rw [hs]
    rcases ppc_fresh fc hfc fuel s sd hF hlg hppc with ⟨a1, -⟩ | ⟨a1, -⟩ | ⟨a1, -⟩
    · exact absurd a1 hst
    · rcases a1 with a | a
      · exact Or.inr (Or.inl a)
      · exact Or.inr (Or.inr a)
    · exact Or.inl a1
  | phase1 s' b e =>
    rw [hs] at h
    simp only at h
    have hP := setup_phase1_canon s hF hlg s' b e hs
    obtain ⟨hmap, k1, k2, k3, k4⟩ := setup_phase1_extra s hF s' b e hs
    obtain ⟨-, -, -, k5, -⟩ := ppcSetup_keeps s s' b e hs
    have hG := (tableau_setup_solutions s hF).2.1 s' b e hs
    cases hrun : computeSimplexWith (chooserOf fc s'.pricing) fuel s'.tab with
    | none => rw [hrun] at h; cases h
    | some res =>
      obtain ⟨ok, t⟩ := res
      rw [hrun] at h
      simp only [Option.some.injEq] at h
      subst h
      rcases ppc_chain fc hfc fuel s.input_cs s.external_space_dim s' b e hP hG hmap ok t hrun with
        ⟨a1, -⟩ | ⟨a1, a2, a3, a4, a5, a6⟩
      · exact absurd a1 hst
      · obtain ⟨n1, n2⟩ := chain_completeS fc hfc fuel s.input_cs s.external_space_dim s' b e hP hmap
          (fresh_setupGoodS s hF s' b e hs) ok t hrun a1
        exact ⟨⟨a2, n1, n2⟩, by rw [ppcFinish_input_cs, k5], by rw [a3, k1], by rw [a4, k2], by rw [a5, k3],
          by rw [a6, k4], Or.inl a1⟩

/-- **after the fresh batch** (`is_lp_satisfiable()` true, then `second_phase()`), on any state never solved before -/
theorem fresh_solvedInv_state (fc : Chooser) (hfc : ChooserOK fc) (f1 f2 : Nat) (s s1 s2 : LPState)
    (hU : Untouched s) (hlg : s.last_generator = ⟨[], 1⟩) (hn : 0 < s.external_space_dim)
    (hl : ∀ c ∈ s.input_cs, c.coeffs.length ≤ s.external_space_dim)
    (hobj : s.obj.coeffs.length ≤ s.external_space_dim)
    (h1 : isLpSatisfiable fc f1 s = some (s1, true)) (h2 : secondPhase fc f2 s1 = some s2) :
    SolvedInv s2 ∧ s2.input_cs = s.input_cs ∧ s2.obj = s.obj ∧ s2.maximize = s.maximize ∧
    s2.external_space_dim = s.external_space_dim ∧ s2.pricing = s.pricing ∧
    LPClaims s.input_cs s.problem s2 := by
  have hcl := ((lp_fresh_correct fc hfc f1 f2 s s1 true hU hlg hn hl hobj h1).2 rfl).2 s2 h2
  rw [isLpSatisfiable_untouched fc f1 s hU] at h1
  cases hp : processPendingConstraints fc f1 (firstCall s) with
  | none => rw [hp] at h1; cases h1
  | some sR =>
    rw [hp] at h1
    simp only [Option.some.injEq, Prod.mk.injEq] at h1
    obtain ⟨rfl, hb⟩ := h1
    have hst : sR.status ≠ .UNSATISFIABLE := by simpa using hb
    have hF := firstCall_fresh s hU hn hl
    obtain ⟨r1, r2, r3, r4, r5, r6, r7⟩ := ppc_fresh_readyS fc hfc f1 (firstCall s) sR hF hlg hp hst
    have e1 : (firstCall s).input_cs = s.input_cs := rfl
    have e2 : (firstCall s).external_space_dim = s.external_space_dim := rfl
    have e3 : (firstCall s).obj = s.obj := rfl
    have e4 : (firstCall s).maximize = s.maximize := rfl
    have e5 : (firstCall s).pricing = s.pricing := rfl
    rw [e1] at r2
    rw [e1, e2] at r1
    rw [e3] at r3; rw [e4] at r4; rw [e5] at r5; rw [e2] at r6
    -- the state `is_lp_satisfiable()` returns
    set sA : LPState :=
      { sR with first_pending := sR.input_cs.length, internal_space_dim := sR.external_space_dim } with hsA
    have rA : ReadyS s.input_cs s.external_space_dim sA :=
      ⟨⟨r1.ready.tb, r1.ready.map, r1.ready.sound, r1.ready.complete⟩, r1.ncols, r1.completeS⟩
    obtain ⟨p1, p2, p3, p4, p5, p6, p7, p8⟩ := secondPhase_keeps fc f2 sA s2 h2
    have hA1 : sA.input_cs = sR.input_cs := rfl
    have hA2 : sA.first_pending = sR.input_cs.length := rfl
    have hA3 : sA.internal_space_dim = sR.external_space_dim := rfl
    have hA4 : sA.external_space_dim = sR.external_space_dim := rfl
    have hA5 : sA.obj = sR.obj := rfl
    have hA6 : sA.maximize = sR.maximize := rfl
    have hA7 : sA.pricing = sR.pricing := rfl
    have hA8 : sA.status = sR.status := rfl
    have r2' : ReadyS s.input_cs s.external_space_dim s2 := by
      rcases r7 with hs | hs
      · exact readyS_after_secondPhase fc hfc f2 s.input_cs s.external_space_dim sA s2 (by rw [hA8]; exact hs) rA
          (by rw [hA5, r3]; exact hobj) h2
      · have : s2 = sA := by
          unfold secondPhase at h2
          have hc : (sA.status == Status.UNBOUNDED || sA.status == Status.OPTIMIZED) = true := by
            rw [hA8]; rcases hs with h | h <;> rw [h] <;> rfl
          simp only [hc, if_true, Option.some.injEq] at h2
          exact h2.symm
        rw [this]; exact rA
    have i1 : s2.input_cs = s.input_cs := by rw [p1, hA1, r2]
    have i2 : s2.external_space_dim = s.external_space_dim := by rw [p4, hA4, r6]
    refine ⟨⟨by rw [i2]; exact hn, by rw [p3, p4, hA3, hA4], by rw [p2, p1, hA2, hA1], ?_, ?_, ?_⟩, i1,
      by rw [p5, hA5, r3], by rw [p6, hA6, r4], i2, by rw [p7, hA7, r5], hcl⟩
    · rw [i1, i2]; exact hl
    · rw [i1, i2]; exact r2'
    · exact Or.inr p8

/-! ### nodes -/

theorem node_rows_len (N : BB.Node) (hwf : N.toProblem.WF) : ∀ r ∈ N.rows, r.coeffs.length ≤ N.n := by
  intro row hrow
  have hmem : (⟨row.coeffs, row.k, false⟩ : Con) ∈ N.toProblem.cs := by
    unfold BB.Node.toProblem
    simp only
    apply List.mem_flatMap.mpr
    refine ⟨row, hrow, ?_⟩
    unfold BB.InRow.toCons
    split <;> simp [eqRows, geRow]
  exact hwf.1 _ hmem

theorem node_sat_iff (N : BB.Node) (x : Val) : Sat N.toProblem.cs x ↔ csSem (N.rows.map rowToICon) x := by
  have hcs : N.toProblem.cs = (N.rows.map rowToICon).flatMap ICon.toCons := by
    unfold BB.Node.toProblem
    simp only
    rw [List.flatMap_map]
    rfl
  rw [hcs]
  exact (csSem_iff_Sat _ x).symm

/-- **after the fresh batch on a node** (`n > 0`, rows and objective within the dimension) -/
theorem fresh_solvedInv (fc : Chooser) (hfc : ChooserOK fc) (f1 f2 : Nat) (N : BB.Node) (hn : 0 < N.n)
    (hrows : ∀ r ∈ N.rows, r.coeffs.length ≤ N.n) (hobj : N.obj.coeffs.length ≤ N.n) (s1 s2 : LPState)
    (h1 : isLpSatisfiable fc f1 (nodeState N) = some (s1, true)) (h2 : secondPhase fc f2 s1 = some s2) :
    SolvedInv s2 ∧ s2.input_cs = N.rows.map rowToICon ∧ s2.obj = N.obj ∧ s2.maximize = N.maximize ∧
    s2.external_space_dim = N.n ∧ LPClaims (N.rows.map rowToICon) N.toProblem s2 := by
  obtain ⟨n1, n2, n3, n4, n5, n6⟩ := nodeState_spec N
  have hl : ∀ c ∈ (nodeState N).input_cs, c.coeffs.length ≤ (nodeState N).external_space_dim := by
    intro c hc
    rw [n2] at hc
    obtain ⟨row, hrow, rfl⟩ := List.mem_map.mp hc
    rw [n3]
    exact hrows row hrow
  obtain ⟨a1, a2, a3, a4, a5, -, a7⟩ := fresh_solvedInv_state fc hfc f1 f2 (nodeState N) s1 s2 n1 n4
    (by rw [n3]; exact hn) hl (by rw [n5, n3]; exact hobj) h1 h2
  refine ⟨a1, by rw [a2, n2], by rw [a3, n5], by rw [a4, n6], by rw [a5, n3], ?_⟩
  rw [n2] at a7
  exact LPClaims_congr _ (nodeState N).problem N.toProblem s2 n5.symm n6.symm a7

/-- the same from the well-formedness of the node as `BB.OracleOK` phrases it -/
theorem fresh_solvedInv_wf (fc : Chooser) (hfc : ChooserOK fc) (f1 f2 : Nat) (N : BB.Node) (hn : 0 < N.n)
    (hwf : N.toProblem.WF) (s1 s2 : LPState)
    (h1 : isLpSatisfiable fc f1 (nodeState N) = some (s1, true)) (h2 : secondPhase fc f2 s1 = some s2) :
    SolvedInv s2 ∧ s2.input_cs = N.rows.map rowToICon ∧ s2.obj = N.obj ∧ s2.maximize = N.maximize ∧
    s2.external_space_dim = N.n ∧ LPClaims (N.rows.map rowToICon) N.toProblem s2 :=
  fresh_solvedInv fc hfc f1 f2 N hn (node_rows_len N hwf) hwf.2.2.1 s1 s2 h1 h2

/-! ### the incremental loop -/

/-- the invariant of the loop: the constraints `cs` added so far are unsatisfiable and the state says so, or the
    state is solved for exactly `cs` with the data of the node and its answer is right -/
def RunInv (N : BB.Node) (cs : List ICon) (s : LPState) : Prop :=
  (s.status = .UNSATISFIABLE ∧ ∀ x, ¬ csSem cs x) ∨
  (SolvedInv s ∧ s.input_cs = cs ∧ s.obj = N.obj ∧ s.maximize = N.maximize ∧ s.external_space_dim = N.n ∧
    LPClaims cs N.toProblem s)

/-- the fresh batch establishes the invariant -/
theorem lpSolve_fresh_inv (fc : Chooser) (hfc : ChooserOK fc) (fuel : Nat) (N : BB.Node) (hn : 0 < N.n)
    (hrows : ∀ r ∈ N.rows, r.coeffs.length ≤ N.n) (hobj : N.obj.coeffs.length ≤ N.n) (s : LPState)
    (h : lpSolve fc fuel (nodeState N) = some s) : RunInv N (N.rows.map rowToICon) s := by
  unfold lpSolve at h
  cases h1 : isLpSatisfiable fc fuel (nodeState N) with
  | none => rw [h1] at h; cases h
  | some res =>
    obtain ⟨s1, b⟩ := res
    rw [h1] at h
    cases b with
    | false =>
      simp only [Option.some.injEq] at h
      subst h
      left
      obtain ⟨n1, n2, n3, n4, n5, n6⟩ := nodeState_spec N
      have hl : ∀ c ∈ (nodeState N).input_cs, c.coeffs.length ≤ (nodeState N).external_space_dim := by
        intro c hc
        rw [n2] at hc
        obtain ⟨row, hrow, rfl⟩ := List.mem_map.mp hc
        rw [n3]
        exact hrows row hrow
      have := (lp_fresh_correct fc hfc fuel fuel (nodeState N) s1 false n1 n4 (by rw [n3]; exact hn) hl
        (by rw [n5, n3]; exact hobj) h1).1 rfl
      rw [n2] at this
      exact ⟨isLpSatisfiable_false fc fuel _ _ h1, this⟩
    | true =>
      simp only at h
      right
      exact fresh_solvedInv fc hfc fuel fuel N hn hrows hobj s1 s h1 h

/-- one incremental step keeps the invariant -/
theorem incrStep_inv (fc : Chooser) (hstep : IncrStepSpec fc) (fuel : Nat) (N : BB.Node)
    (hobj : N.obj.coeffs.length ≤ N.n) (cs : List ICon) (s : LPState) (r : BB.InRow) (hr : r.coeffs.length ≤ N.n)
    (s' : LPState) (hinv : RunInv N cs s) (h : incrStep fc fuel (some s) r = some s') :
    RunInv N (cs ++ [rowToICon r]) s' := by
  have hlp : lpSolve fc fuel (addConstraint s (rowToICon r)) = some s' := h
  unfold lpSolve at hlp
  rcases hinv with ⟨u1, u2⟩ | ⟨v1, v2, v3, v4, v5, v6⟩
  · -- UNSATISFIABLE is sticky
    left
    have hst : (addConstraint s (rowToICon r)).status = .UNSATISFIABLE := by
      unfold addConstraint; simp [u1]
    have hsat : isLpSatisfiable fc fuel (addConstraint s (rowToICon r)) =
        some (addConstraint s (rowToICon r), false) := by
      unfold isLpSatisfiable; rw [hst]
    rw [hsat] at hlp
    simp only [Option.some.injEq] at hlp
    subst hlp
    exact ⟨hst, fun x hx => u2 x (fun c hc => hx c (List.mem_append_left _ hc))⟩
  · cases h1 : isLpSatisfiable fc fuel (addConstraint s (rowToICon r)) with
    | none => rw [h1] at hlp; cases hlp
    | some res =>
      obtain ⟨sR, b⟩ := res
      rw [h1] at hlp
      rcases hstep fuel fuel s (rowToICon r) sR b v1 (by rw [v5]; exact hr) (by rw [v3, v5]; exact hobj) h1 with
        ⟨rfl, w2, w3⟩ | ⟨rfl, -, -, -, w5⟩
      · simp only [Option.some.injEq] at hlp
        subst hlp
        left
        rw [v2] at w3
        exact ⟨w2, w3⟩
      · simp only at hlp
        right
        obtain ⟨x1, x2, x3, y1, y2, y3, -⟩ := w5 s' hlp
        obtain ⟨k1, k2, -, -⟩ := addConstraint_keeps s (rowToICon r)
        rw [v2] at x1 x3
        refine ⟨x2, x3, by rw [y1, v3], by rw [y2, v4], by rw [y3, v5], ?_⟩
        exact LPClaims_congr _ (addConstraint s (rowToICon r)).problem N.toProblem s'
          (by show N.obj = (addConstraint s (rowToICon r)).obj; rw [k1, v3])
          (by show N.maximize = (addConstraint s (rowToICon r)).maximize; rw [k2, v4]) x1

/-- the loop over the remaining rows keeps the invariant -/
theorem foldl_incrStep_inv (fc : Chooser) (hstep : IncrStepSpec fc) (fuel : Nat) (N : BB.Node)
    (hobj : N.obj.coeffs.length ≤ N.n) (rows : List BB.InRow) :
    (∀ r ∈ rows, r.coeffs.length ≤ N.n) →
    ∀ (cs : List ICon) (o : Option LPState) (s' : LPState), (∀ s, o = some s → RunInv N cs s) →
      rows.foldl (incrStep fc fuel) o = some s' → RunInv N (cs ++ rows.map rowToICon) s' := by
  induction rows with
  | nil =>
    intro _ cs o s' hinv h
    simp only [List.foldl_nil] at h
    simpa using hinv s' h
  | cons r rows ih =>
    intro hrows cs o s' hinv h
    simp only [List.foldl_cons] at h
    have hnext : ∀ s1, incrStep fc fuel o r = some s1 → RunInv N (cs ++ [rowToICon r]) s1 := by
      intro s1 h1
      cases o with
      | none => cases h1
      | some s =>
        exact incrStep_inv fc hstep fuel N hobj cs s r (hrows r (List.mem_cons_self ..)) s1 (hinv s rfl) h1
    have := ih (fun q hq => hrows q (List.mem_cons_of_mem _ hq)) (cs ++ [rowToICon r]) (incrStep fc fuel o r) s'
      hnext h
    simpa using this

/-- the invariant at the end of `incrRun`, for all the rows of the node -/
theorem incrRun_inv (fc : Chooser) (hfc : ChooserOK fc) (hstep : IncrStepSpec fc) (fuel k : Nat) (N : BB.Node)
    (hn : 0 < N.n) (hwf : N.toProblem.WF) (s : LPState) (h : incrRun fc fuel k N = some s) :
    RunInv N (N.rows.map rowToICon) s := by
  have hrows := node_rows_len N hwf
  have hobj : N.obj.coeffs.length ≤ N.n := hwf.2.2.1
  unfold incrRun at h
  set N' : BB.Node := { N with rows := N.rows.take k } with hN'
  have hbase : ∀ s0, lpSolve fc fuel (nodeState N') = some s0 → RunInv N ((N.rows.take k).map rowToICon) s0 := by
    intro s0 h0
    have := lpSolve_fresh_inv fc hfc fuel N' hn (fun r hr => hrows r (List.mem_of_mem_take hr)) hobj s0 h0
    rcases this with ⟨u1, u2⟩ | ⟨v1, v2, v3, v4, v5, v6⟩
    · exact Or.inl ⟨u1, u2⟩
    · exact Or.inr ⟨v1, v2, v3, v4, v5, LPClaims_congr _ N'.toProblem N.toProblem s0 rfl rfl v6⟩
  have := foldl_incrStep_inv fc hstep fuel N hobj (N.rows.drop k)
    (fun r hr => hrows r (List.mem_of_mem_drop hr)) _ _ s hbase h
  rw [← List.map_append, List.take_append_drop] at this
  exact this

/-- **the incremental oracle induced by the model answers correctly**, given the correctness of one incremental
    step -/
theorem modelOracleIncr_ok (fc : Chooser) (hfc : ChooserOK fc) (hstep : IncrStepSpec fc) (fuel k : Nat) :
    BB.OracleOK (modelOracleIncr fc fuel k) := by
  intro N r hwf hr
  unfold modelOracleIncr at hr
  by_cases hn0 : N.n = 0
  · simp [hn0] at hr
  have hb : (N.n == 0) = false := by simpa using hn0
  rw [hb] at hr
  simp only [Bool.false_eq_true, if_false] at hr
  cases hrun : incrRun fc fuel k N with
  | none => rw [hrun] at hr; cases hr
  | some s =>
    rw [hrun] at hr
    unfold lpReport at hr
    simp only at hr
    have hinv := incrRun_inv fc hfc hstep fuel k N (by omega) hwf s hrun
    have hsem := node_sat_iff N
    rcases hinv with ⟨u1, u2⟩ | ⟨-, -, -, -, -, q1, q2, q3, q4, q5⟩
    · have : (s.status == Status.UNSATISFIABLE) = true := by rw [u1]; rfl
      rw [if_pos this] at hr
      simp only [Option.some.injEq] at hr
      subst hr
      intro x hx
      exact u2 x ((hsem x).mp hx)
    · have hnu : (s.status == Status.UNSATISFIABLE) = false := by
        rcases q1 with h | h <;> rw [h] <;> rfl
      rw [if_neg (by rw [hnu]; simp)] at hr
      by_cases hopt : s.status = .OPTIMIZED
      · have : (s.status == Status.OPTIMIZED) = true := by rw [hopt]; rfl
        rw [if_pos this] at hr
        simp only [Option.some.injEq] at hr
        subst hr
        refine ⟨q2, (hsem _).mpr q3, fun x hx => ?_⟩
        exact q4 hopt x ((hsem x).mp hx)
      · have hunb : s.status = .UNBOUNDED := by
          rcases q1 with h | h
          · exact absurd h hopt
          · exact h
        have h0 : (s.status == Status.OPTIMIZED) = false := by rw [hunb]; rfl
        rw [if_neg (by rw [h0]; simp)] at hr
        have : (s.status == Status.UNBOUNDED) = true := by rw [hunb]; rfl
        rw [if_pos this] at hr
        simp only [Option.some.injEq] at hr
        subst hr
        refine ⟨q2, (hsem _).mpr q3, fun M => ?_⟩
        obtain ⟨x, x1, x2⟩ := q5 hunb M
        exact ⟨x, (hsem x).mpr x1, x2⟩

/-! ### the incremental oracle at work (textbook pricing; first row solved from scratch, the others incrementally) -/

-- max x0 + x1, x0 ≤ 2, x1 ≤ 3, x0 + x1 ≤ 4
example : modelOracleIncr textbookChooser 50 1
    ⟨2, [⟨[-1, 0], 2, false⟩, ⟨[0, -1], 3, false⟩, ⟨[-1, -1], 4, false⟩], [], ⟨[1, 1], 0⟩, true⟩ =
    some (.optimized ⟨[1, 3], 1⟩) := by decide +kernel
-- the same answer as the oracle that solves the node from scratch
example : modelOracle textbookChooser 50
    ⟨2, [⟨[-1, 0], 2, false⟩, ⟨[0, -1], 3, false⟩, ⟨[-1, -1], 4, false⟩], [], ⟨[1, 1], 0⟩, true⟩ =
    some (.optimized ⟨[1, 3], 1⟩) := by decide +kernel
-- x0 ≤ 2, x1 ≤ 3, x0 + x1 ≥ 6: the last incremental step answers UNSATISFIABLE
example : modelOracleIncr textbookChooser 50 1
    ⟨2, [⟨[-1, 0], 2, false⟩, ⟨[0, -1], 3, false⟩, ⟨[1, 1], -6, false⟩], [], ⟨[1, 1], 0⟩, true⟩ =
    some .unfeasible := by decide +kernel
-- max −x1, 0 ≤ x0 ≤ 2, x1 ≤ x0: unbounded
example : modelOracleIncr textbookChooser 50 1
    ⟨2, [⟨[-1, 0], 2, false⟩, ⟨[1, 0], 0, false⟩, ⟨[1, -1], 0, false⟩], [], ⟨[0, -1], 0⟩, true⟩ =
    some (.unbounded ⟨[2, 0], 1⟩) := by decide +kernel

end PPLV.Solver.Pend
