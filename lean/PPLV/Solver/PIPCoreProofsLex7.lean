import PPLV.Solver.PIPCoreProofsLex6
/-!
# C07 stage 2 — the lexicographic invariant, part 7: `find_lexico_minimal_column` fails only when the pivot
row has no positive coefficient (`flmc_none_no_positive`).
-/
namespace PPLV.PIPCore

/-- the in-base scan never empties `new_candidates` -/
theorem Lex.baseScan_ne_nil (pivotRow : Row) (ri : Nat) :
    ∀ (cs : List Nat) (m : Nat) (sijb : Int) (acc : List Nat), acc ≠ [] →
      (flmcBaseScan pivotRow ri cs (m, sijb, acc)).2.2 ≠ []
  | [], _, _, _, h => h
  | c :: cs, m, sijb, acc, h => by
    unfold flmcBaseScan
    simp only []
    split
    · split
      · exact Lex.baseScan_ne_nil pivotRow ri cs _ _ _ (List.cons_ne_nil _ _)
      · exact Lex.baseScan_ne_nil pivotRow ri cs _ _ _ (List.cons_ne_nil _ _)
    · exact Lex.baseScan_ne_nil pivotRow ri cs _ _ _ h

/-- the scan of a row never empties `new_candidates` -/
theorem Lex.rowScan_ne_nil (pivotRow row : Row) :
    ∀ (cs : List Nat) (m : Nat) (sijb rowjb : Int) (acc : List Nat), acc ≠ [] →
      (flmcRowScan pivotRow row cs (m, sijb, rowjb, acc)).2.2.2 ≠ []
  | [], _, _, _, _, h => h
  | c :: cs, m, sijb, rowjb, acc, h => by
    unfold flmcRowScan
    simp only []
    split
    · exact Lex.rowScan_ne_nil pivotRow row cs _ _ _ _ (List.cons_ne_nil _ _)
    · split
      · exact Lex.rowScan_ne_nil pivotRow row cs _ _ _ _ (List.cons_ne_nil _ _)
      · exact Lex.rowScan_ne_nil pivotRow row cs _ _ _ _ h

theorem Lex.flmcStep_ne_nil (tableau : Mat) (mapping : List Nat) (basis : List Bool) (pivotRow : Row)
    (k c0 : Nat) (rest : List Nat) : Lex.flmcStep tableau mapping basis pivotRow k c0 rest ≠ [] := by
  unfold Lex.flmcStep
  split
  · intro h
    exact Lex.baseScan_ne_nil pivotRow _ rest c0 _ [c0] (List.cons_ne_nil _ _)
      (List.reverse_eq_nil_iff.mp h)
  · intro h
    exact Lex.rowScan_ne_nil pivotRow _ rest c0 _ _ [c0] (List.cons_ne_nil _ _)
      (List.reverse_eq_nil_iff.mp h)

/-- `find_lexico_minimal_column_in_set` returns a non-empty set for a non-empty candidate set -/
theorem flmcInSet_ne_nil (tableau : Mat) (mapping : List Nat) (basis : List Bool) (pivotRow : Row) :
    ∀ (fuel k : Nat) (C : List Nat), C ≠ [] →
      flmcInSet tableau mapping basis pivotRow fuel k C ≠ []
  | 0, _, C, h => by rw [flmcInSet]; exact h
  | fuel + 1, _, [], h => absurd rfl h
  | fuel + 1, _, [c], _ => by rw [flmcInSet]; exact List.cons_ne_nil _ _
  | fuel + 1, k, c0 :: c1 :: rest, _ => by
    rw [Lex.flmcInSet_step]
    exact flmcInSet_ne_nil tableau mapping basis pivotRow fuel (k + 1) _
      (Lex.flmcStep_ne_nil tableau mapping basis pivotRow k c0 (c1 :: rest))

/-- **`flmc_none_no_positive`**: `find_lexico_minimal_column` returns `false` only for a pivot row
    without positive coefficient -/
theorem flmc_none_no_positive (tableau : Mat) (mapping : List Nat) (basis : List Bool) (row : Row) :
    findLexicoMinimalColumn tableau mapping basis row 0 = none → hasPositive row = false := by
  intro h
  unfold findLexicoMinimalColumn at h
  simp only [] at h
  generalize hC : (List.range row.length).filter (fun j => 0 ≤ j ∧ rget row j > 0) = C at h
  cases C with
  | nil =>
    unfold hasPositive
    rw [List.any_eq_false]
    intro a ha hpos
    obtain ⟨j, hj, rfl⟩ := List.mem_iff_getElem.mp ha
    have hmem : j ∈ (List.range row.length).filter (fun j => 0 ≤ j ∧ rget row j > 0) := by
      rw [List.mem_filter]
      refine ⟨List.mem_range.mpr hj, ?_⟩
      have hr : rget row j = row[j] := by
        unfold rget
        rw [List.getD_eq_getElem?_getD, List.getElem?_eq_getElem hj]; rfl
      rw [hr]
      simpa using hpos
    rw [hC] at hmem
    cases hmem
  | cons c C' =>
    have hne := flmcInSet_ne_nil tableau mapping basis row mapping.length 0 (c :: C')
      (List.cons_ne_nil _ _)
    exact absurd (List.head?_eq_none_iff.mp h) hne

/-- with `flmc_positive`: on a well-formed node the search succeeds exactly when the row has a positive
    coefficient -/
theorem flmc_isSome_of_hasPositive (tableau : Mat) (mapping : List Nat) (basis : List Bool) (row : Row) :
    hasPositive row = true → (findLexicoMinimalColumn tableau mapping basis row 0).isSome = true := by
  intro hp
  cases h : findLexicoMinimalColumn tableau mapping basis row 0 with
  | some _ => rfl
  | none =>
    rw [flmc_none_no_positive tableau mapping basis row h] at hp
    cases hp

/-! ### non-vacuity -/

example : findLexicoMinimalColumn Lex.exNodeB.tab.s Lex.exNodeB.mapping Lex.exNodeB.basis [-1, 0] 0 = none
    ∧ hasPositive [-1, 0] = false
    ∧ hasPositive (mrow Lex.exNodeB.tab.s 0) = true
    ∧ (findLexicoMinimalColumn Lex.exNodeB.tab.s Lex.exNodeB.mapping Lex.exNodeB.basis
        (mrow Lex.exNodeB.tab.s 0) 0).isSome = true :=
  ⟨by decide,
   flmc_none_no_positive Lex.exNodeB.tab.s Lex.exNodeB.mapping Lex.exNodeB.basis [-1, 0] (by decide),
   by decide,
   flmc_isSome_of_hasPositive _ _ _ _ (by decide)⟩

end PPLV.PIPCore
