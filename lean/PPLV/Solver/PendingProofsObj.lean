import PPLV.Solver.PendingProofsSetup7

/-!
# C06 stage 3 (c) — the cost row of the second phase denotes the objective

`secondPhaseCost_spec`: for a mapping laid out as `MapOK` (distinct columns, increasing with the variable, all
before the sign column) the row built at :1917–:1952 has the tableau's width, sign entry 1, and evaluates at a
tableau valuation `y` to `±obj·(proj mapping y) + y(sign column)` (`+` when maximising, `−` when minimising; the
inhomogeneous term of the objective is not entered).  Hence `objAt (secondPhaseCost s) y` is the (signed) objective
at the projected point for every `NonnegPt y`.
-/
namespace PPLV.Solver.Pend
open PPLV.Lin PPLV.Solver.Tab

/-- the objective coefficients with the sign of the optimisation mode -/
def sgnObj (s : LPState) : List Int := s.obj.coeffs.map fun a => if s.maximize then a else -a

theorem sgnObj_getD (s : LPState) (i : Nat) :
    (sgnObj s).getD i 0 = if s.maximize then s.obj.coeffs.getD i 0 else - s.obj.coeffs.getD i 0 := by
  unfold sgnObj
  rw [List.getD_eq_getElem?_getD, List.getElem?_map, List.getD_eq_getElem?_getD]
  cases s.obj.coeffs[i]? with
  | none => simp
  | some a => rfl

theorem secondPhaseCost_spec (s : LPState) (nn : List Bool) (n j : Nat) (hM : MapOK s.mapping nn n j)
    (hcols : 1 + j ≤ s.working_cost.length - 1) (hobj : s.obj.coeffs.length ≤ n) :
    (secondPhaseCost s).length = s.working_cost.length ∧
    (secondPhaseCost s).get (s.working_cost.length - 1) = 1 ∧
    ∀ y : Val, dot (secondPhaseCost s) y = dot (sgnObj s) (proj s.mapping y) + y (s.working_cost.length - 1) := by
  unfold secondPhaseCost
  set size := s.working_cost.length with hsize
  have hsz : size - 1 < (zeros size).length := by simp [zeros]; omega
  have key := fwdFold_inv
    (fun (t : Nat) (r : Row) => r.length = size ∧
      (∀ col, (col = 0 ∨ ∀ u, u < t → hiCol (s.mapping.getD (u+1) (0, 0)) < col) → col ≠ size - 1 → r.getD col 0 = 0) ∧
      r.getD (size - 1) 0 = 1 ∧
      ∀ y : Val, dot r y = dot ((sgnObj s).take t) (proj s.mapping y) + y (size - 1))
    (fun i (c : Row) =>
      let a := if s.maximize then s.obj.coeffs.getD i 0 else - s.obj.coeffs.getD i 0
      if a != 0 then
        let m := s.mapping.getD (i+1) (0, 0)
        let c := c.set m.1 a
        if m.2 != 0 then c.set m.2 (-a) else c
      else c)
    s.obj.coeffs.length 0 ((zeros size).set (size - 1) 1)
    ⟨by simp [zeros], fun col _ hne => by
        rw [getD_set_int, if_neg (fun a => hne a.1)]; exact zeros_getD _ _,
      by rw [getD_set_int, if_pos ⟨rfl, hsz⟩],
      fun y => by rw [dot_set _ _ _ _ hsz, dot_zeros, zeros_getD]; simp⟩
    (by
      intro t _ ht r ⟨h1, h2, hlast, h3⟩
      simp only [Nat.zero_add] at ht
      have htn : t < n := by omega
      obtain ⟨c1, c2, c3, c4⟩ := hM.cols t htn
      simp only
      rw [← sgnObj_getD s t]
      by_cases ha : (sgnObj s).getD t 0 = 0
      · have : ((sgnObj s).getD t 0 != 0) = false := by rw [ha]; rfl
        rw [this]
        simp only [Bool.false_eq_true, if_false]
        refine ⟨h1, fun col hcol hne => h2 col ?_ hne, hlast, fun y => ?_⟩
        · rcases hcol with h | h
          · exact Or.inl h
          · exact Or.inr (fun u hu => h u (by omega))
        · rw [h3 y, dot_take_succ, ha]; simp
      · have : ((sgnObj s).getD t 0 != 0) = true := bne_iff_ne.mpr ha
        rw [this]
        simp only [if_true]
        have hm1lt : (s.mapping.getD (t+1) (0, 0)).1 < size - 1 := by unfold hiCol at c4; split at c4 <;> omega
        have hfree1 : r.getD (s.mapping.getD (t+1) (0, 0)).1 0 = 0 :=
          h2 _ (Or.inr (fun u hu => hM.ord u t hu htn)) (by omega)
        have hlt1 : (s.mapping.getD (t+1) (0, 0)).1 < r.length := by rw [h1]; omega
        by_cases hm2 : (s.mapping.getD (t+1) (0, 0)).2 = 0
        · have : ((s.mapping.getD (t+1) (0, 0)).2 != 0) = false := by rw [hm2]; rfl
          rw [this]
          simp only [Bool.false_eq_true, if_false]
          refine ⟨by rw [List.length_set]; exact h1, fun col hcol hne => ?_, ?_, fun y => ?_⟩
          · rw [getD_set_int]
            have hne' : ¬ (col = (s.mapping.getD (t+1) (0, 0)).1 ∧ (s.mapping.getD (t+1) (0, 0)).1 < r.length) := by
              rintro ⟨h, -⟩
              rcases hcol with h0 | h0
              · omega
              · have := h0 t (by omega); unfold hiCol at this; rw [if_pos hm2] at this; omega
            rw [if_neg hne']
            apply h2 _ _ hne
            rcases hcol with h | h
            · exact Or.inl h
            · exact Or.inr (fun u hu => h u (by omega))
          · rw [getD_set_int, if_neg (by rintro ⟨h, -⟩; omega)]; exact hlast
          · rw [dot_set _ _ _ _ hlt1, hfree1, h3 y, dot_take_succ]
            simp only [proj, hm2]
            simp; ring
        · have : ((s.mapping.getD (t+1) (0, 0)).2 != 0) = true := bne_iff_ne.mpr hm2
          rw [this]
          simp only [if_true]
          have hm2' : (s.mapping.getD (t+1) (0, 0)).2 = (s.mapping.getD (t+1) (0, 0)).1 + 1 := by
            rcases c2 with h | h
            · exact absurd h hm2
            · exact h
          have hhi : hiCol (s.mapping.getD (t+1) (0, 0)) = (s.mapping.getD (t+1) (0, 0)).2 := by
            unfold hiCol; rw [if_neg hm2]
          have hm2lt : (s.mapping.getD (t+1) (0, 0)).2 < size - 1 := by rw [hhi] at c4; omega
          have hfree2 : r.getD (s.mapping.getD (t+1) (0, 0)).2 0 = 0 :=
            h2 _ (Or.inr (fun u hu => by have := hM.ord u t hu htn; omega)) (by omega)
          have hlt2 : (s.mapping.getD (t+1) (0, 0)).2 < r.length := by rw [h1]; omega
          refine ⟨by rw [List.length_set, List.length_set]; exact h1, fun col hcol hne => ?_, ?_, fun y => ?_⟩
          · rw [getD_set_int, getD_set_int]
            have hne2 : ¬ (col = (s.mapping.getD (t+1) (0, 0)).2 ∧ (s.mapping.getD (t+1) (0, 0)).2 <
                (r.set (s.mapping.getD (t+1) (0, 0)).1 ((sgnObj s).getD t 0)).length) := by
              rintro ⟨h, -⟩
              rcases hcol with h0 | h0
              · omega
              · have := h0 t (by omega); rw [hhi] at this; omega
            have hne1 : ¬ (col = (s.mapping.getD (t+1) (0, 0)).1 ∧ (s.mapping.getD (t+1) (0, 0)).1 < r.length) := by
              rintro ⟨h, -⟩
              rcases hcol with h0 | h0
              · omega
              · have := h0 t (by omega); rw [hhi] at this; omega
            rw [if_neg hne2, if_neg hne1]
            apply h2 _ _ hne
            rcases hcol with h | h
            · exact Or.inl h
            · exact Or.inr (fun u hu => h u (by omega))
          · rw [getD_set_int, if_neg (by rintro ⟨h, -⟩; omega), getD_set_int, if_neg (by rintro ⟨h, -⟩; omega)]
            exact hlast
          · rw [dot_set _ _ _ _ (by rw [List.length_set]; exact hlt2), getD_set_int,
              if_neg (by rintro ⟨h, -⟩; omega), hfree2, dot_set _ _ _ _ hlt1, hfree1, h3 y, dot_take_succ]
            simp only [proj, this, if_true]
            push_cast; ring)
  simp only [Nat.zero_add] at key
  obtain ⟨k1, -, k3, k4⟩ := key
  have hlen : (sgnObj s).length = s.obj.coeffs.length := by simp [sgnObj]
  refine ⟨k1, k3, fun y => ?_⟩
  rw [k4 y, ← hlen, List.take_length]

/-- (c) the cost row of the second phase is the objective (with the sign of the mode, without its inhomogeneous
    term) at the projected point -/
theorem objAt_secondPhaseCost (s : LPState) (nn : List Bool) (n j : Nat) (hM : MapOK s.mapping nn n j)
    (hcols : 1 + j ≤ s.working_cost.length - 1) (hobj : s.obj.coeffs.length ≤ n) (y : Val)
    (hy : NonnegPt s.working_cost.length y) :
    objAt (secondPhaseCost s) y = dot (sgnObj s) (proj s.mapping y) := by
  obtain ⟨h1, h2, h3⟩ := secondPhaseCost_spec s nn n j hM hcols hobj
  unfold objAt
  rw [h1, h2, h3 y, hy.2.1]
  simp

end PPLV.Solver.Pend
