import PPLV.Solver.PendingProofsIncr17

/-!
# C06 stage 3 — the full status protocol: statements

`ProtoInv s`: the invariant of a `MIP_Problem` between calls —
* `StatusInv`: a solved status promises nothing is pending;
* the constraints fit the space dimension;
* UNSATISFIABLE is truthful (no point satisfies the constraints);
* an OPTIMIZED / UNBOUNDED status is truthful (`LPClaims`);
* unless UNSATISFIABLE, the problem is untouched (never solved) or the first `first_pending` constraints are
  processed: canonical FEASIBLE tableau whose non-negative solutions are the encodings of their solution set
  (`ReadyS`, over the `internal_space_dim` variables known at the last solve).
`ProtoSpec fc`: it holds initially, every mutator keeps it, `is_lp_satisfiable()` and `second_phase()` keep it and
answer truthfully — for calls with at least one variable and no space dimension added since the last solve.
-/
namespace PPLV.Solver.Pend
open PPLV.Lin PPLV.Solver PPLV.Solver.Tab

structure ProtoInv (s : LPState) : Prop where
  st : StatusInv s
  lens : ∀ c ∈ s.input_cs, c.coeffs.length ≤ s.external_space_dim
  fp : s.first_pending ≤ s.input_cs.length
  unsat : s.status = .UNSATISFIABLE → ∀ x, ¬ csSem s.input_cs x
  claims : (s.status = .OPTIMIZED ∨ s.status = .UNBOUNDED) → LPClaims s.input_cs s.problem s
  basis : s.status = .UNSATISFIABLE ∨ (Untouched s ∧ s.last_generator = ⟨[], 1⟩) ∨
    (0 < s.internal_space_dim ∧ s.internal_space_dim ≤ s.external_space_dim ∧
      ReadyS (s.input_cs.take s.first_pending) s.internal_space_dim s)

/-- no space dimension was added since the last solve (or the problem was never solved) -/
def NoNewDims (s : LPState) : Prop := Untouched s ∨ s.internal_space_dim = s.external_space_dim

def ProtoSpec (fc : Chooser) : Prop :=
  (∀ m, ProtoInv (LPState.new m)) ∧
  (∀ s, ProtoInv s → ∀ (c : ICon) (e : LinExpr) (b : Bool) (m : Nat) (p : Pricing),
    (c.coeffs.length ≤ s.external_space_dim → ProtoInv (addConstraint s c)) ∧
    (e.coeffs.length ≤ s.external_space_dim → ProtoInv (setObjectiveFunction s e)) ∧
    ProtoInv (setOptimizationMode s b) ∧ ProtoInv (addSpaceDimensionsAndEmbed s m) ∧ ProtoInv (setPricing s p)) ∧
  (∀ s, ProtoInv s → 0 < s.external_space_dim → NoNewDims s → s.obj.coeffs.length ≤ s.external_space_dim →
    ∀ fuel s' r, isLpSatisfiable fc fuel s = some (s', r) →
      ProtoInv s' ∧ s'.input_cs = s.input_cs ∧ SameData s s' ∧
      (r = false → s'.status = .UNSATISFIABLE ∧ ∀ x, ¬ csSem s.input_cs x) ∧
      (r = true → Solved s'.status ∧ (∃ x, csSem s.input_cs x) ∧
        ReadyS s'.input_cs s'.external_space_dim s')) ∧
  (∀ s, ProtoInv s → 0 < s.external_space_dim → s.obj.coeffs.length ≤ s.external_space_dim → Solved s.status →
    ∀ fuel s', secondPhase fc fuel s = some s' →
      ProtoInv s' ∧ (s'.status = .OPTIMIZED ∨ s'.status = .UNBOUNDED) ∧ LPClaims s.input_cs s.problem s' ∧
      ReadyS s'.input_cs s'.external_space_dim s')

end PPLV.Solver.Pend
