import PPLV.Solver.PendingProofsGen

/-!
# C06 stage 3 — `lp_fresh_correct`: status, witness point (`last_generator`) and optimality
-/
namespace PPLV.Solver.Pend
open PPLV.Lin PPLV.Solver PPLV.Solver.Tab

theorem bsol_eq_basicPt {t : Tab} (hC : Canon t) : bsol t.T t.base = basicPt t := by
  funext j
  unfold bsol basicPt rayPt
  by_cases hj0 : j = 0
  · simp [hj0]
  · rw [if_neg hj0, if_neg hj0]
    by_cases hjl : j = t.cost.length - 1
    · rw [if_pos hjl]
      have : rowOf t.base j = none := by
        cases hr : rowOf t.base j with
        | none => rfl
        | some i =>
          exfalso
          obtain ⟨hi, hb⟩ := rowOf_some hr
          rw [hC.lenB] at hi
          have := (hC.baseRange i hi).2
          omega
      rw [this]
    · rw [if_neg hjl]
      cases rowOf t.base j with
      | none => rfl
      | some i => simp

/-- `second_phase()` with the point it leaves in `last_generator` -/
theorem secondPhase_sound' (fc : Chooser) (hfc : ChooserOK fc) (fuel : Nat) (s s' : LPState)
    (hst : s.status = .SATISFIABLE) (hTB : CanonTB s.tableau s.base s.working_cost.length)
    (hcl : (secondPhaseCost s).length = s.working_cost.length)
    (hcs : (secondPhaseCost s).get (s.working_cost.length - 1) ≠ 0)
    (h : secondPhase fc fuel s = some s') :
    CanonTB s'.tableau s'.base s.working_cost.length ∧
    s'.last_generator = computeGeneratorPt s.external_space_dim s'.tableau s'.base s.mapping ∧
    Sol s.tableau (bsol s'.tableau s'.base) ∧ NonnegPt s.working_cost.length (bsol s'.tableau s'.base) ∧
    (s'.status = .OPTIMIZED → ∀ y, Sol s.tableau y → NonnegPt s.working_cost.length y →
      objAt (secondPhaseCost s) y ≤ objAt (secondPhaseCost s) (bsol s'.tableau s'.base)) := by
  rw [secondPhase_unfold fc fuel s hst] at h
  obtain ⟨r1, r2, r3, r4⟩ := reexpress_spec hTB (secondPhaseCost s) hcl hcs
  have hC := hTB.toCanon _ r1 r2 r3
  cases hrun : computeSimplexWith (chooserOf fc s.pricing) fuel
      ⟨s.tableau, reexpress s.tableau s.base (secondPhaseCost s), s.base⟩ with
  | none => rw [hrun] at h; cases h
  | some res =>
    obtain ⟨ok, t⟩ := res
    rw [hrun] at h
    simp only [Option.some.injEq] at h
    obtain ⟨p1, p2, p3, p4, p5, p6⟩ :=
      pricing_choice_irrelevant _ (chooserOf_ok fc hfc s.pricing) fuel _ ok t hC hrun
    obtain ⟨-, q2, -⟩ := simplex_loop _ (chooserOf_ok fc hfc s.pricing) fuel _ ok t hC hrun
    have hlen : t.cost.length = s.working_cost.length := by rw [q2]; exact r1
    subst h
    simp only [computeGenerator, LPState.withTab]
    obtain ⟨b1, b2, b3⟩ := basic_solution p2
    have hbs := bsol_eq_basicPt p2
    have hs1 : Sol s.tableau (basicPt t) := (p1 _).mp b1
    refine ⟨by rw [← hlen]; exact p2.toTB, by first | rfl | trivial, by rw [hbs]; exact hs1, by rw [hbs, ← hlen]; exact b2, ?_⟩
    intro hopt y hy hn
    have hok : ok = true := by cases ok <;> simp_all
    rw [hbs]
    have e1 := p4 hok y hy (by show NonnegPt (reexpress _ _ _).length y; rw [r1]; exact hn)
    obtain ⟨-, -, e3⟩ := p5 hok
    have a1 : objAt (reexpress s.tableau s.base (secondPhaseCost s)) y = objAt (secondPhaseCost s) y := r4 y hy
    have a2 : objAt (reexpress s.tableau s.base (secondPhaseCost s)) (basicPt t) =
        objAt (secondPhaseCost s) (basicPt t) := r4 _ hs1
    have e1' : objAt (reexpress s.tableau s.base (secondPhaseCost s)) y ≤ basicObj t.cost := e1
    have e3' : objAt (reexpress s.tableau s.base (secondPhaseCost s)) (basicPt t) = basicObj t.cost := e3
    rw [a1] at e1'; rw [a2] at e3'
    rw [e3']; exact e1'

theorem holds_congr (c : ICon) (x x' : Val) (h : ∀ i, i < c.coeffs.length → x i = x' i) : c.holds x ↔ c.holds x' := by
  unfold ICon.holds
  rw [dot_congr_lt c.coeffs x x' h]

theorem csSem_congr (cs : List ICon) (n : Nat) (hl : ∀ c ∈ cs, c.coeffs.length ≤ n) (x x' : Val)
    (h : ∀ i, i < n → x i = x' i) : csSem cs x ↔ csSem cs x' := by
  unfold csSem
  constructor
  · intro hx c hc
    exact (holds_congr c x x' (fun i hi => h i (lt_of_lt_of_le hi (hl c hc)))).mp (hx c hc)
  · intro hx c hc
    exact (holds_congr c x x' (fun i hi => h i (lt_of_lt_of_le hi (hl c hc)))).mpr (hx c hc)

/-- **the LP answers on a problem never solved before are right, with `last_generator` as the witness.**
    `s1` is the SATISFIABLE state left by the first `is_lp_satisfiable()` (`Ready`), `s2` the state after
    `second_phase()`: the status is OPTIMIZED or UNBOUNDED; `last_generator` has a positive divisor and satisfies
    every constraint; OPTIMIZED ⇒ no point of the solution set has a better objective value than `last_generator`;
    UNBOUNDED ⇒ the solution set has points of arbitrarily good objective value. -/
theorem secondPhase_fresh_witness (fc : Chooser) (hfc : ChooserOK fc) (fuel : Nat) (s s1 s2 : LPState)
    (hst : s1.status = .SATISFIABLE) (hR : Ready s.input_cs s.external_space_dim s1)
    (ho : s1.obj = s.obj) (hm : s1.maximize = s.maximize) (he : s1.external_space_dim = s.external_space_dim)
    (hn : 0 < s.external_space_dim) (hl : ∀ c ∈ s.input_cs, c.coeffs.length ≤ s.external_space_dim)
    (hobj : s.obj.coeffs.length ≤ s.external_space_dim)
    (h : secondPhase fc fuel s1 = some s2) :
    (s2.status = .OPTIMIZED ∨ s2.status = .UNBOUNDED) ∧
    0 < s2.last_generator.den ∧ csSem s.input_cs s2.last_generator.val ∧
    (s2.status = .OPTIMIZED →
      ∀ x, csSem s.input_cs x → ¬ Better s.problem (s.problem.objVal x) (s.problem.objVal s2.last_generator.val)) ∧
    (s2.status = .UNBOUNDED →
      ∀ M : Rat, ∃ x, csSem s.input_cs x ∧ Better s.problem (s.problem.objVal x) M) := by
  obtain ⟨q1, -, q3⟩ := secondPhase_fresh_correct fc hfc fuel s s1 s2 hst hR ho hm hobj h
  obtain ⟨nn, jj, hM, hjj⟩ := hR.map
  have hobj1 : s1.obj.coeffs.length ≤ s.external_space_dim := by rw [ho]; exact hobj
  obtain ⟨c1, c2, -⟩ := secondPhaseCost_spec s1 nn _ jj hM hjj hobj1
  have hc2 : (secondPhaseCost s1).get (s1.working_cost.length - 1) ≠ 0 := by rw [c2]; decide
  obtain ⟨w1, w2, w3, w4, w5⟩ := secondPhase_sound' fc hfc fuel s1 s2 hst hR.tb c1 hc2 h
  have hsg : sgnObj s1 = sgnObj s := by unfold sgnObj; rw [ho, hm]
  have hsl : (sgnObj s).length ≤ s.external_space_dim := by unfold sgnObj; simpa using hobj
  set n2 := s1.working_cost.length with hn2
  set yb := bsol s2.tableau s2.base with hyb
  -- the generator is the projection of the basic solution
  have hcols : ∀ i, i < s.external_space_dim → (s1.mapping.getD (i+1) (0, 0)).1 ≠ 0 := by
    intro i hi; have := (hM.cols i hi).1; omega
  obtain ⟨g1, g2, g3⟩ := computeGeneratorPt_spec w1 s1.mapping s.external_space_dim hn hcols
  rw [he] at w2
  rw [← w2] at g1 g3
  -- the basic solution, cut after the sign column, is a `Pos0` solution
  have hcut : Pos0 n2 (trunc n2 yb) ∧ Sol s1.tableau (trunc n2 yb) ∧
      proj s1.mapping (trunc n2 yb) = proj s1.mapping yb := by
    have hn22 : 2 ≤ n2 := hR.tb.len2
    refine ⟨⟨?_, fun j hj => ?_, fun j hj => ?_⟩, ?_, ?_⟩
    · unfold trunc; rw [if_pos (by omega)]; exact w4.1
    · unfold trunc; split
      · by_cases hjl : j < n2 - 1
        · exact w4.2.2 j hj hjl
        · have : j = n2 - 1 := by omega
          rw [this, w4.2.1]
      · exact le_refl _
    · unfold trunc; split
      · have : j = n2 - 1 := by omega
        rw [this, w4.2.1]
      · rfl
    · intro i hi
      unfold rowVal
      rw [dot_trunc _ _ _ (fun j h1 h2 => by have := hR.tb.rowLen i hi; omega)]
      exact w3 i hi
    · exact proj_congr s1.mapping nn _ jj hM _ _ (fun col hcol => by unfold trunc; rw [if_pos (by omega)])
  have hsem_b : csSem s.input_cs (proj s1.mapping yb) := by rw [← hcut.2.2]; exact hR.sound _ hcut.1 hcut.2.1
  have hsem_g : csSem s.input_cs s2.last_generator.val :=
    (csSem_congr s.input_cs s.external_space_dim hl _ _ g3).mpr hsem_b
  have hobj_g : dot (sgnObj s) s2.last_generator.val = dot (sgnObj s) (proj s1.mapping yb) :=
    dot_congr_lt _ _ _ (fun u hu => g3 u (by omega))
  refine ⟨q1, g1, hsem_g, fun hopt x hx => ?_, fun hunb => (q3 hunb).2⟩
  rw [not_better_iff, hobj_g]
  obtain ⟨y, y1, y2, y3⟩ := hR.complete x hx
  have hb := w5 hopt y y2 y1.nonnegPt
  rw [objAt_secondPhaseCost s1 nn _ jj hM hjj hobj1 y y1.nonnegPt,
    objAt_secondPhaseCost s1 nn _ jj hM hjj hobj1 yb w4, hsg] at hb
  rw [← dot_congr_lt (sgnObj s) (proj s1.mapping y) x (fun u hu => y3 u (by omega))]
  exact hb

/-- a feasible basis has a non-negative solution: a `Ready` state witnesses that the constraints are satisfiable -/
theorem ready_exists (cs : List ICon) (n : Nat) (sR : LPState) (hR : Ready cs n sR) : ∃ x, csSem cs x := by
  have hn2 := hR.tb.len2
  set n2 := sR.working_cost.length with hn2d
  set c : Row := (zeros n2).set (n2 - 1) 1 with hc
  have hlen : c.length = n2 := by rw [hc, List.length_set]; simp [zeros]
  have hget : ∀ j, c.get j = if j = n2 - 1 then 1 else 0 := by
    intro j
    unfold Row.get
    rw [hc, getD_set_int, zeros_getD]
    by_cases hj : j = n2 - 1
    · rw [if_pos ⟨hj, by simp [zeros]; omega⟩, if_pos hj]
    · rw [if_neg (fun a => hj a.1), if_neg hj]
  have hC : Canon ⟨sR.tableau, c, sR.base⟩ :=
    hR.tb.toCanon c hlen (by rw [hget, if_pos rfl]; decide) (fun i hi => by
      have := (hR.tb.baseRange i hi).2
      rw [hget, if_neg (by omega)])
  obtain ⟨b1, b2, -⟩ := basic_solution hC
  have b2' : NonnegPt n2 (basicPt ⟨sR.tableau, c, sR.base⟩) := by
    have : (⟨sR.tableau, c, sR.base⟩ : Tab).cost.length = n2 := hlen
    rw [← this]; exact b2
  refine ⟨_, hR.sound (basicPt ⟨sR.tableau, c, sR.base⟩) ⟨b2'.1, fun j _ => basicPt_nonneg hC j, fun j hj => ?_⟩ b1⟩
  exact basicPt_nonbasic hC (by show c.length - 1 ≤ j; rw [hlen]; exact hj)

end PPLV.Solver.Pend
