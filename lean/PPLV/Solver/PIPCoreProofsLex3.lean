import PPLV.Solver.PIPCoreProofsLex2
import Mathlib.Tactic.Linarith
import Mathlib.Tactic.Ring
/-!
# C07 stage 2 — the lexicographic invariant, part 3: `find_lexico_minimal_column` computes a
lexico-minimal column (`flmc_lexmin`, code level) and `flmc_positive`.

The candidate list is filtered by the rows of the full matrix in variable order; one filtering step keeps
exactly the candidates `c` whose ratio `row[c] / pivot_row[c]` is minimal (`Lex.ScanInv`).
-/
namespace PPLV.PIPCore

/-! ### cross-multiplied comparisons of ratios -/

theorem Lex.cross_lt (pm pr pc xm xr xc : Int) (hm : 0 < pm) (hr : 0 < pr)
    (e : pm * xr = pr * xm) (h : pc * xm < pm * xc) : pc * xr < pr * xc := by
  have h1 : pr * (pc * xm) < pr * (pm * xc) := mul_lt_mul_of_pos_left h hr
  have h2 : pm * (pc * xr) < pm * (pr * xc) := by
    calc pm * (pc * xr) = pc * (pm * xr) := by ring
      _ = pr * (pc * xm) := by rw [e]; ring
      _ < pr * (pm * xc) := h1
      _ = pm * (pr * xc) := by ring
  exact lt_of_mul_lt_mul_left h2 (le_of_lt hm)

theorem Lex.cross_eq (pm pr pc xm xr xc : Int) (hm : 0 < pm)
    (e : pm * xr = pr * xm) (h : pc * xm = pm * xc) : pc * xr = pr * xc := by
  have h2 : pm * (pc * xr) = pm * (pr * xc) := by
    calc pm * (pc * xr) = pc * (pm * xr) := by ring
      _ = pr * (pc * xm) := by rw [e]; ring
      _ = pr * (pm * xc) := by rw [h]
      _ = pm * (pr * xc) := by ring
  exact Int.eq_of_mul_eq_mul_left (by omega) h2

theorem Lex.cross_lt2 (pm pc pc' xm xc xc' : Int) (hm : 0 < pm) (hc : 0 < pc) (hc' : 0 < pc')
    (h1 : pm * xc < pc * xm) (h2 : pc' * xm ≤ pm * xc') : pc' * xc < pc * xc' := by
  have a1 : pc' * (pm * xc) < pc' * (pc * xm) := mul_lt_mul_of_pos_left h1 hc'
  have a2 : pc * (pc' * xm) ≤ pc * (pm * xc') := mul_le_mul_of_nonneg_left h2 (le_of_lt hc)
  have h3 : pm * (pc' * xc) < pm * (pc * xc') := by
    calc pm * (pc' * xc) = pc' * (pm * xc) := by ring
      _ < pc' * (pc * xm) := a1
      _ = pc * (pc' * xm) := by ring
      _ ≤ pc * (pm * xc') := a2
      _ = pm * (pc * xc') := by ring
  exact lt_of_mul_lt_mul_left h3 (le_of_lt hm)

/-! ### the invariant of one filtering scan -/

/-- `P`: the candidates seen so far, `m` = `min_column`, `acc` = `new_candidates`:
    `acc` are exactly the members of `P` whose ratio `x / p` is minimal, and `m` is one of them -/
def Lex.ScanInv (p x : Nat → Int) (P : List Nat) (m : Nat) (acc : List Nat) : Prop :=
  m ∈ acc ∧ 0 < p m ∧ (∀ c ∈ P, 0 < p c) ∧
  (∀ r ∈ acc, r ∈ P ∧ p m * x r = p r * x m) ∧
  (∀ c ∈ P, p c * x m < p m * x c ∨ (p c * x m = p m * x c ∧ c ∈ acc))

theorem Lex.ScanInv.init (p x : Nat → Int) (c0 : Nat) (h : 0 < p c0) : Lex.ScanInv p x [c0] c0 [c0] := by
  refine ⟨by simp, h, ?_, ?_, ?_⟩
  · intro c hc; simp only [List.mem_singleton] at hc; subst hc; exact h
  · intro r hr; simp only [List.mem_singleton] at hr; subst hr; exact ⟨by simp, rfl⟩
  · intro c hc; simp only [List.mem_singleton] at hc; subst hc; exact Or.inr ⟨rfl, by simp⟩

/-- what the invariant says about every kept candidate -/
theorem Lex.ScanInv.final {p x : Nat → Int} {P : List Nat} {m : Nat} {acc : List Nat}
    (h : Lex.ScanInv p x P m acc) :
    ∀ r ∈ acc, r ∈ P ∧ ∀ c ∈ P, p c * x r < p r * x c ∨ (p c * x r = p r * x c ∧ c ∈ acc) := by
  obtain ⟨_, hm, hP, hacc, hall⟩ := h
  intro r hr
  obtain ⟨hrP, hre⟩ := hacc r hr
  refine ⟨hrP, fun c hc => ?_⟩
  rcases hall c hc with h | ⟨h, hca⟩
  · exact Or.inl (Lex.cross_lt _ _ _ _ _ _ hm (hP r hrP) hre h)
  · exact Or.inr ⟨Lex.cross_eq _ _ _ _ _ _ hm hre h, hca⟩

/-- the scan for a variable that is not in base -/
theorem Lex.rowScan_inv (pivotRow row : Row) :
    ∀ (cs P : List Nat) (m : Nat) (acc : List Nat),
      Lex.ScanInv (rget pivotRow) (rget row) P m acc → (∀ c ∈ cs, 0 < rget pivotRow c) →
      ∃ m' acc', flmcRowScan pivotRow row cs (m, rget pivotRow m, rget row m, acc)
          = (m', rget pivotRow m', rget row m', acc')
        ∧ Lex.ScanInv (rget pivotRow) (rget row) (P ++ cs) m' acc'
  | [], P, m, acc, h, _ => ⟨m, acc, rfl, by rw [List.append_nil]; exact h⟩
  | c :: cs, P, m, acc, h, hcs => by
    obtain ⟨hma, hm, hP, hacc, hall⟩ := h
    have hc : 0 < rget pivotRow c := hcs c (by simp)
    have hcs' : ∀ c' ∈ cs, 0 < rget pivotRow c' := fun c' h' => hcs c' (by simp [h'])
    have hP' : ∀ c' ∈ P ++ [c], 0 < rget pivotRow c' := by
      intro c' h'
      rcases List.mem_append.mp h' with h' | h'
      · exact hP c' h'
      · simp only [List.mem_singleton] at h'; subst h'; exact hc
    rw [List.append_cons]
    unfold flmcRowScan
    simp only []
    by_cases heq : rget pivotRow m * rget row c = rget pivotRow c * rget row m
    · rw [if_pos heq]
      apply Lex.rowScan_inv pivotRow row cs (P ++ [c]) m (c :: acc) _ hcs'
      refine ⟨by simp [hma], hm, hP', ?_, ?_⟩
      · intro r hr
        rcases List.mem_cons.mp hr with hr | hr
        · subst hr; exact ⟨by simp, heq⟩
        · exact ⟨by simp [(hacc r hr).1], (hacc r hr).2⟩
      · intro c' h'
        rcases List.mem_append.mp h' with h' | h'
        · rcases hall c' h' with h'' | ⟨h'', h3⟩
          · exact Or.inl h''
          · exact Or.inr ⟨h'', by simp [h3]⟩
        · simp only [List.mem_singleton] at h'; subst h'
          exact Or.inr ⟨heq.symm, by simp⟩
    · rw [if_neg heq]
      by_cases hlt : rget pivotRow m * rget row c < rget pivotRow c * rget row m
      · rw [if_pos hlt]
        apply Lex.rowScan_inv pivotRow row cs (P ++ [c]) c [c] _ hcs'
        refine ⟨by simp, hc, hP', ?_, ?_⟩
        · intro r hr; simp only [List.mem_singleton] at hr; subst hr; exact ⟨by simp, rfl⟩
        · intro c' h'
          rcases List.mem_append.mp h' with h' | h'
          · left
            have hle : rget pivotRow c' * rget row m ≤ rget pivotRow m * rget row c' := by
              rcases hall c' h' with h'' | ⟨h'', _⟩
              · exact le_of_lt h''
              · exact le_of_eq h''
            exact Lex.cross_lt2 _ _ _ _ _ _ hm hc (hP c' h') hlt hle
          · simp only [List.mem_singleton] at h'; subst h'
            exact Or.inr ⟨rfl, by simp⟩
      · rw [if_neg hlt]
        apply Lex.rowScan_inv pivotRow row cs (P ++ [c]) m acc _ hcs'
        refine ⟨hma, hm, hP', ?_, ?_⟩
        · intro r hr
          exact ⟨by simp [(hacc r hr).1], (hacc r hr).2⟩
        · intro c' h'
          rcases List.mem_append.mp h' with h' | h'
          · exact hall c' h'
          · simp only [List.mem_singleton] at h'; subst h'
            left
            rcases lt_trichotomy (rget pivotRow m * rget row c') (rget pivotRow c' * rget row m)
              with h1 | h1 | h1
            · exact absurd h1 hlt
            · exact absurd h1 heq
            · exact h1

/-- the unit row of a column variable, as a function of the column -/
def Lex.unitVal (ri : Nat) (den : Int) (c : Nat) : Int := if c = ri then den else 0

/-- the scan for a variable that is in base: it reconstitutes the unit row `den * e_ri` -/
theorem Lex.baseScan_inv (pivotRow : Row) (ri : Nat) (den : Int) (hden : 0 < den) :
    ∀ (cs P : List Nat) (m : Nat) (sijb : Int) (acc : List Nat),
      Lex.ScanInv (rget pivotRow) (Lex.unitVal ri den) P m acc → (∀ c ∈ cs, 0 < rget pivotRow c) →
      ∃ m' sijb' acc', flmcBaseScan pivotRow ri cs (m, sijb, acc) = (m', sijb', acc')
        ∧ Lex.ScanInv (rget pivotRow) (Lex.unitVal ri den) (P ++ cs) m' acc'
  | [], P, m, sijb, acc, h, _ => ⟨m, sijb, acc, rfl, by rw [List.append_nil]; exact h⟩
  | c :: cs, P, m, sijb, acc, h, hcs => by
    obtain ⟨hma, hm, hP, hacc, hall⟩ := h
    have hc : 0 < rget pivotRow c := hcs c (by simp)
    have hcs' : ∀ c' ∈ cs, 0 < rget pivotRow c' := fun c' h' => hcs c' (by simp [h'])
    have hP' : ∀ c' ∈ P ++ [c], 0 < rget pivotRow c' := by
      intro c' h'
      rcases List.mem_append.mp h' with h' | h'
      · exact hP c' h'
      · simp only [List.mem_singleton] at h'; subst h'; exact hc
    rw [List.append_cons]
    unfold flmcBaseScan
    simp only []
    by_cases hric : ri = c
    · -- the candidate is the column of the variable itself: positive ratio, dropped
      rw [if_neg (by simpa using hric)]
      apply Lex.baseScan_inv pivotRow ri den hden cs (P ++ [c]) m sijb acc _ hcs'
      refine ⟨hma, hm, hP', ?_, ?_⟩
      · intro r hr
        exact ⟨by simp [(hacc r hr).1], (hacc r hr).2⟩
      · intro c' h'
        rcases List.mem_append.mp h' with h' | h'
        · exact hall c' h'
        · simp only [List.mem_singleton] at h'; subst h'
          by_cases hmr : m = ri
          · right
            rw [hmr, hric]
            exact ⟨rfl, by rw [← hric, ← hmr]; exact hma⟩
          · left
            have e1 : Lex.unitVal ri den m = 0 := by unfold Lex.unitVal; rw [if_neg hmr]
            have e2 : Lex.unitVal ri den c' = den := by unfold Lex.unitVal; rw [if_pos hric.symm]
            rw [e1, e2, mul_zero]
            exact mul_pos hm hden
    · rw [if_pos hric]
      have ec : Lex.unitVal ri den c = 0 := by
        unfold Lex.unitVal; rw [if_neg (fun e => hric e.symm)]
      by_cases hmr : ri = m
      · -- the minimum so far was the column of the variable: `c` is strictly smaller
        rw [if_pos hmr]
        apply Lex.baseScan_inv pivotRow ri den hden cs (P ++ [c]) c _ [c] _ hcs'
        refine ⟨by simp, hc, hP', ?_, ?_⟩
        · intro r hr; simp only [List.mem_singleton] at hr; subst hr; exact ⟨by simp, rfl⟩
        · intro c' h'
          rcases List.mem_append.mp h' with h' | h'
          · left
            have em : Lex.unitVal ri den m = den := by unfold Lex.unitVal; rw [if_pos hmr.symm]
            have hpos : 0 < Lex.unitVal ri den c' := by
              have hc' := hP c' h'
              have hle : rget pivotRow c' * den ≤ rget pivotRow m * Lex.unitVal ri den c' := by
                rcases hall c' h' with h'' | ⟨h'', _⟩
                · rw [em] at h''; exact le_of_lt h''
                · rw [em] at h''; exact le_of_eq h''
              have : 0 < rget pivotRow c' * den := mul_pos hc' hden
              by_contra hn
              have : rget pivotRow m * Lex.unitVal ri den c' ≤ 0 := by
                have hn' : Lex.unitVal ri den c' ≤ 0 := by omega
                nlinarith
              omega
            rw [ec, mul_zero]
            exact mul_pos hc hpos
          · simp only [List.mem_singleton] at h'; subst h'
            exact Or.inr ⟨rfl, by simp⟩
      · -- both have ratio 0
        rw [if_neg hmr]
        have em : Lex.unitVal ri den m = 0 := by
          unfold Lex.unitVal; rw [if_neg (fun e => hmr e.symm)]
        apply Lex.baseScan_inv pivotRow ri den hden cs (P ++ [c]) m sijb (c :: acc) _ hcs'
        refine ⟨by simp [hma], hm, hP', ?_, ?_⟩
        · intro r hr
          rcases List.mem_cons.mp hr with hr | hr
          · subst hr; exact ⟨by simp, by rw [ec, em, mul_zero, mul_zero]⟩
          · exact ⟨by simp [(hacc r hr).1], (hacc r hr).2⟩
        · intro c' h'
          rcases List.mem_append.mp h' with h' | h'
          · rcases hall c' h' with h'' | ⟨h'', h3⟩
            · exact Or.inl h''
            · exact Or.inr ⟨h'', by simp [h3]⟩
          · simp only [List.mem_singleton] at h'; subst h'
            exact Or.inr ⟨by rw [ec, em, mul_zero, mul_zero], by simp⟩

/-! ### one filtering step, and the whole filtering -/

/-- the `new_candidates` of one iteration of `find_lexico_minimal_column_in_set` -/
def Lex.flmcStep (tableau : Mat) (mapping : List Nat) (basis : List Bool) (pivotRow : Row)
    (varIndex c0 : Nat) (rest : List Nat) : List Nat :=
  if boolGet basis varIndex then
    (flmcBaseScan pivotRow (natGet mapping varIndex) rest (c0, rget pivotRow c0, [c0])).2.2.reverse
  else
    (flmcRowScan pivotRow (mrow tableau (natGet mapping varIndex)) rest
      (c0, rget pivotRow c0, rget (mrow tableau (natGet mapping varIndex)) c0, [c0])).2.2.2.reverse

theorem Lex.flmcInSet_step (tableau : Mat) (mapping : List Nat) (basis : List Bool) (pivotRow : Row)
    (fuel k c0 c1 : Nat) (rest : List Nat) :
    flmcInSet tableau mapping basis pivotRow (fuel + 1) k (c0 :: c1 :: rest)
      = flmcInSet tableau mapping basis pivotRow fuel (k + 1)
          (Lex.flmcStep tableau mapping basis pivotRow k c0 (c1 :: rest)) := by
  rw [flmcInSet]
  · rfl
  · intro h; cases h

/-- one step keeps exactly the candidates with minimal ratio on the full row of variable `k` -/
theorem Lex.flmcStep_spec (nd : SolNode) (pivotRow : Row) (hden : 0 < nd.tab.den) (k c0 : Nat)
    (rest : List Nat) (hC : ∀ c ∈ c0 :: rest, c < nd.tab.ns ∧ 0 < rget pivotRow c) :
    ∀ r ∈ Lex.flmcStep nd.tab.s nd.mapping nd.basis pivotRow k c0 rest,
      r ∈ c0 :: rest ∧ ∀ c ∈ c0 :: rest,
        rget pivotRow c * rget (fullRow nd k) r < rget pivotRow r * rget (fullRow nd k) c
        ∨ (rget pivotRow c * rget (fullRow nd k) r = rget pivotRow r * rget (fullRow nd k) c
            ∧ c ∈ Lex.flmcStep nd.tab.s nd.mapping nd.basis pivotRow k c0 rest) := by
  have h0 : 0 < rget pivotRow c0 := (hC c0 (by simp)).2
  have hrest : ∀ c ∈ rest, 0 < rget pivotRow c := fun c hc => (hC c (by simp [hc])).2
  unfold Lex.flmcStep fullRow
  cases hb : boolGet nd.basis k with
  | true =>
    simp only [if_true]
    obtain ⟨m', s', acc', he, hinv⟩ := Lex.baseScan_inv pivotRow (natGet nd.mapping k) nd.tab.den hden
      rest [c0] c0 (rget pivotRow c0) [c0] (Lex.ScanInv.init _ _ c0 h0) hrest
    rw [he]
    simp only [List.singleton_append] at hinv
    intro r hr
    obtain ⟨hrP, hrall⟩ := hinv.final r (List.mem_reverse.mp hr)
    refine ⟨hrP, fun c hc => ?_⟩
    rw [Lex.rget_unit _ _ _ _ (hC r hrP).1, Lex.rget_unit _ _ _ _ (hC c hc).1]
    rcases hrall c hc with h | ⟨h, h'⟩
    · exact Or.inl h
    · exact Or.inr ⟨h, List.mem_reverse.mpr h'⟩
  | false =>
    simp only [Bool.false_eq_true, if_false]
    obtain ⟨m', acc', he, hinv⟩ := Lex.rowScan_inv pivotRow (mrow nd.tab.s (natGet nd.mapping k))
      rest [c0] c0 [c0] (Lex.ScanInv.init _ _ c0 h0) hrest
    rw [he]
    simp only [List.singleton_append] at hinv
    intro r hr
    obtain ⟨hrP, hrall⟩ := hinv.final r (List.mem_reverse.mp hr)
    refine ⟨hrP, fun c hc => ?_⟩
    rcases hrall c hc with h | ⟨h, h'⟩
    · exact Or.inl h
    · exact Or.inr ⟨h, List.mem_reverse.mpr h'⟩

theorem Lex.lexLeScaled_refl (a : Int) (j : Nat) : ∀ rows : List Row, LexLeScaled rows a j a j
  | [] => trivial
  | _ :: rs => Or.inr ⟨rfl, Lex.lexLeScaled_refl a j rs⟩

/-- the successive filtering: every survivor is lexico-minimal among the candidates on the rows of the
    variables `k .. k+fuel-1` -/
theorem Lex.flmcInSet_spec (nd : SolNode) (pivotRow : Row) (hden : 0 < nd.tab.den) :
    ∀ (fuel k : Nat) (C : List Nat), (∀ c ∈ C, c < nd.tab.ns ∧ 0 < rget pivotRow c) →
    ∀ r ∈ flmcInSet nd.tab.s nd.mapping nd.basis pivotRow fuel k C,
      r ∈ C ∧ ∀ c ∈ C, LexLeScaled ((List.range' k fuel).map (fullRow nd))
        (rget pivotRow c) r (rget pivotRow r) c
  | 0, k, C, _, r, hr => by
    rw [flmcInSet] at hr
    exact ⟨hr, fun c _ => trivial⟩
  | fuel + 1, k, [], _, r, hr => by
    rw [flmcInSet] at hr; cases hr
  | fuel + 1, k, [c], _, r, hr => by
    rw [flmcInSet] at hr
    simp only [List.mem_singleton] at hr
    subst hr
    refine ⟨by simp, fun c hc => ?_⟩
    simp only [List.mem_singleton] at hc
    subst hc
    exact Lex.lexLeScaled_refl _ _ _
  | fuel + 1, k, c0 :: c1 :: rest, hC, r, hr => by
    rw [Lex.flmcInSet_step] at hr
    have hstep := Lex.flmcStep_spec nd pivotRow hden k c0 (c1 :: rest) hC
    have hnew : ∀ c ∈ Lex.flmcStep nd.tab.s nd.mapping nd.basis pivotRow k c0 (c1 :: rest),
        c < nd.tab.ns ∧ 0 < rget pivotRow c := fun c hc => hC c (hstep c hc).1
    obtain ⟨hrn, hrall⟩ := Lex.flmcInSet_spec nd pivotRow hden fuel (k + 1) _ hnew r hr
    obtain ⟨hrC, hrstep⟩ := hstep r hrn
    refine ⟨hrC, fun c hc => ?_⟩
    show LexLeScaled (fullRow nd k :: (List.range' (k + 1) fuel).map (fullRow nd)) _ _ _ _
    rcases hrstep c hc with h | ⟨h, hcn⟩
    · exact Or.inl h
    · exact Or.inr ⟨h, hrall c hcn⟩

/-! ### `find_lexico_minimal_column` -/

theorem Lex.mrow_mem (m : Mat) (i : Nat) (h : i < m.length) : mrow m i ∈ m := by
  unfold mrow
  rw [List.getD_eq_getElem?_getD, List.getElem?_eq_getElem h]
  exact List.getElem_mem h

theorem Lex.flmc_mem (nd : SolNode) (pi pj : Nat) :
    findLexicoMinimalColumn nd.tab.s nd.mapping nd.basis (mrow nd.tab.s pi) 0 = some pj →
    pj ∈ flmcInSet nd.tab.s nd.mapping nd.basis (mrow nd.tab.s pi) nd.mapping.length 0
      ((List.range (mrow nd.tab.s pi).length).filter
        (fun j => 0 ≤ j ∧ rget (mrow nd.tab.s pi) j > 0)) := by
  intro h
  unfold findLexicoMinimalColumn at h
  simp only [] at h
  split at h
  · cases h
  · exact List.mem_of_head? h

theorem Lex.flmc_cands (nd : SolNode) (pi : Nat) (hwf : WF nd) (hpi : pi < nd.tab.s.length) (c : Nat) :
    c ∈ (List.range (mrow nd.tab.s pi).length).filter
        (fun j => 0 ≤ j ∧ rget (mrow nd.tab.s pi) j > 0)
    ↔ c < nd.tab.ns ∧ 0 < rget (mrow nd.tab.s pi) c := by
  rw [hwf.s_cols _ (Lex.mrow_mem _ _ hpi)]
  simp [List.mem_filter, List.mem_range]

/-- **`flmc_positive`**: the column found is a column with a positive pivot-row coefficient -/
theorem flmc_positive (nd : SolNode) (pi pj : Nat) :
    WF nd → pi < nd.tab.s.length →
    findLexicoMinimalColumn nd.tab.s nd.mapping nd.basis (mrow nd.tab.s pi) 0 = some pj →
    pj < nd.tab.ns ∧ 0 < mget nd.tab.s pi pj := by
  intro hwf hpi h
  have hmem := Lex.flmc_mem nd pi pj h
  have := (Lex.flmcInSet_spec nd (mrow nd.tab.s pi) hwf.den_pos nd.mapping.length 0 _
    (fun c hc => (Lex.flmc_cands nd pi hwf hpi c).mp hc) pj hmem).1
  exact (Lex.flmc_cands nd pi hwf hpi pj).mp this

/-- **`flmc_lexmin`**: `find_lexico_minimal_column` returns a lexico-minimal column of the pivot row -/
theorem flmc_lexmin (nd : SolNode) (pi pj : Nat) :
    WF nd → pi < nd.tab.s.length →
    findLexicoMinimalColumn nd.tab.s nd.mapping nd.basis (mrow nd.tab.s pi) 0 = some pj →
    LexMinCol nd pi pj := by
  intro hwf hpi h
  obtain ⟨h1, h2⟩ := flmc_positive nd pi pj hwf hpi h
  refine ⟨h1, h2, fun j hj hjp => ?_⟩
  have hmem := Lex.flmc_mem nd pi pj h
  have := (Lex.flmcInSet_spec nd (mrow nd.tab.s pi) hwf.den_pos nd.mapping.length 0 _
    (fun c hc => (Lex.flmc_cands nd pi hwf hpi c).mp hc) pj hmem).2 j
    ((Lex.flmc_cands nd pi hwf hpi j).mpr ⟨hj, hjp⟩)
  unfold fullRows
  rw [List.range_eq_range']
  exact this

/-- code level + spec level: the column chosen by the code keeps the invariant through the pivot -/
theorem flmc_pivot_lexpos (nd0 nd' : SolNode) (pi pj : Nat) (f : Int) :
    WF nd0 → LexPos nd0 → pi < nd0.tab.s.length →
    findLexicoMinimalColumn nd0.tab.s nd0.mapping nd0.basis (mrow nd0.tab.s pi) 0 = some pj →
    PivotSpec nd0 nd' pi pj f → LexPos nd' := fun hwf hlp hpi h hs =>
  pivot_choice_lexico' nd0 nd' pi pj f hwf hlp hpi (flmc_lexmin nd0 pi pj hwf hpi h) hs

/-! ### non-vacuity -/

example : WF Lex.exNodeB ∧ 0 < Lex.exNodeB.tab.s.length
    ∧ findLexicoMinimalColumn Lex.exNodeB.tab.s Lex.exNodeB.mapping Lex.exNodeB.basis (mrow Lex.exNodeB.tab.s 0) 0
        = some 1
    ∧ LexMinCol Lex.exNodeB 0 1 :=
  ⟨Lex.exNodeB_wf, by decide, by decide, flmc_lexmin Lex.exNodeB 0 1 Lex.exNodeB_wf (by decide) (by decide)⟩

/-- a node where the row variables come first in the variable order: three candidates, the tie between
    columns 0 and 2 on the row of variable 0 (ratios 1/2, 3, 2/4) is broken by the row of variable 1
    (ratios 3/2 and 5/4) -/
def Lex.exNodeC : SolNode :=
  { tab := { s := [[2, 1, 4], [1, 3, 2], [3, 0, 5]], t := [[-1], [0], [0]], den := 1, ns := 3, nt := 1 }
    basis := [false, false, false, true, true, true], mapping := [1, 2, 0, 0, 1, 2]
    varRow := [2, 0, 1], varColumn := [3, 4, 5]
    sign := [.negative, .zero, .zero], big := none, arts := [], cons := [] }

theorem Lex.exNodeC_wf : WF Lex.exNodeC :=
  ⟨by decide, by decide, by decide, by decide, by decide, by decide, by decide, by decide, by decide,
   by decide, by decide, by decide⟩

example : findLexicoMinimalColumn Lex.exNodeC.tab.s Lex.exNodeC.mapping Lex.exNodeC.basis (mrow Lex.exNodeC.tab.s 0) 0
        = some 2
    ∧ LexMinCol Lex.exNodeC 0 2 ∧ ¬ LexMinCol Lex.exNodeC 0 0 ∧ ¬ LexMinCol Lex.exNodeC 0 1 :=
  ⟨by decide, flmc_lexmin Lex.exNodeC 0 2 Lex.exNodeC_wf (by decide) (by decide), by decide, by decide⟩

end PPLV.PIPCore
