import PPLV.Solver.PIPCoreProofsPivot2
import Mathlib.Tactic.LinearCombination
/-!
# C07 stage 2 — pivot proofs, part 3: the entry formulas of `PivotSpec` preserve the solutions
-/
namespace PPLV.PIPCore.Piv

theorem sumTo_zero (n : Nat) : sumTo n (fun _ => 0) = 0 := by
  induction n with
  | zero => rfl
  | succ n ih => unfold sumTo; rw [ih]; rfl

/-- `dot` truncates to the shorter list; `rget` reads 0 beyond the end: no condition on `r` -/
theorem dot_eq_sumTo' {n : Nat} (r : List Int) {l : List Int} (hl : l.length = n) :
    dot r l = sumTo n (fun j => rget r j * rget l j) := by
  induction n generalizing r l with
  | zero =>
    cases l with
    | nil => cases r <;> simp [dot, sumTo]
    | cons x xs => simp at hl
  | succ n ih =>
    cases l with
    | nil => simp at hl
    | cons x xs =>
      cases r with
      | nil =>
        have : sumTo (n + 1) (fun j => rget [] j * rget (x :: xs) j) = sumTo (n + 1) (fun _ => 0) :=
          sumTo_congr (fun j _ => by rw [rget_nil]; ring)
        rw [this, sumTo_zero]; simp [dot]
      | cons a as =>
        unfold dot sumTo
        rw [ih as (by simpa using hl)]
        simp only [rget_cons_zero, rget_cons_succ]

/-- a row of the tableau as an explicit sum (no well-formedness needed) -/
theorem rowHolds_iff_sum' (nd : SolNode) (v : Nat → Int) {q : List Int} {n m : Nat}
    (hvc : nd.varColumn.length = n) (hq : q.length = m) (i : Nat) :
    RowHolds nd v q i ↔
      nd.tab.den * v (natGet nd.varRow i)
        = sumTo n (fun j => mget nd.tab.s i j * v (natGet nd.varColumn j))
          + sumTo m (fun c => mget nd.tab.t i c * rget q c) := by
  unfold RowHolds
  have l3 : (nd.varColumn.map v).length = n := by rw [List.length_map]; exact hvc
  rw [dot_eq_sumTo' _ l3, dot_eq_sumTo' _ hq]
  have : sumTo n (fun j => rget (mrow nd.tab.s i) j * rget (nd.varColumn.map v) j)
      = sumTo n (fun j => mget nd.tab.s i j * v (natGet nd.varColumn j)) :=
    sumTo_congr (fun j hj => by
      rw [rget_map_nat v (by rw [hvc]; exact hj)]; rfl)
  rw [this]; rfl

/-! ### the algebra, on functions -/

section algebra
variable (ns nt pj : Nat) (D spp f x : Int) (ap bp w qv : Nat → Int)

/-- old pivot row, with the `pj`-th summand taken out -/
theorem old_row_split (hpj : pj < ns) (ai bi : Nat → Int) (X : Int) :
    (D * X = sumTo ns (fun j => ai j * w j) + sumTo nt (fun c => bi c * qv c)) ↔
    (D * X = sumTo ns (fun j => if j = pj then 0 else ai j * w j) + ai pj * w pj
              + sumTo nt (fun c => bi c * qv c)) := by
  rw [sumTo_split (fun j => ai j * w j) hpj]

theorem new_row_split (hpj : pj < ns) (a' b' : Nat → Int) (Y : Int) :
    (Y = sumTo ns (fun j => a' j * (if j = pj then x else w j)) + sumTo nt (fun c => b' c * qv c)) ↔
    (Y = sumTo ns (fun j => if j = pj then 0 else a' j * w j) + a' pj * x
              + sumTo nt (fun c => b' c * qv c)) := by
  rw [sumTo_split (fun j => a' j * (if j = pj then x else w j)) hpj]
  have : sumTo ns (fun j => if j = pj then 0 else a' j * (if j = pj then x else w j))
      = sumTo ns (fun j => if j = pj then 0 else a' j * w j) :=
    sumTo_congr (fun j _ => by by_cases h : j = pj <;> simp [h])
  rw [this]; simp

/-- the pivot row: old equation ⟺ new equation -/
theorem pivot_row_algebra (hpj : pj < ns) (hD : D ≠ 0) (hf : f ≠ 0) (hspp : spp ≠ 0)
    (hap : ap pj = spp) (a'p b'p : Nat → Int)
    (h1 : ∀ j, j < ns → j ≠ pj → a'p j * spp = -(f * (D * ap j)))
    (h2 : a'p pj * spp = f * (D * D))
    (h3 : ∀ c, c < nt → b'p c * spp = -(f * (D * bp c))) :
    (D * x = sumTo ns (fun j => ap j * w j) + sumTo nt (fun c => bp c * qv c)) ↔
    (f * D * w pj = sumTo ns (fun j => a'p j * (if j = pj then x else w j))
                    + sumTo nt (fun c => b'p c * qv c)) := by
  rw [old_row_split ns nt pj D w qv hpj ap bp x, new_row_split ns nt pj x w qv hpj a'p b'p]
  have E1 : spp * sumTo ns (fun j => if j = pj then 0 else a'p j * w j)
      = -(f * D) * sumTo ns (fun j => if j = pj then 0 else ap j * w j) := by
    rw [← sumTo_mul_left, ← sumTo_mul_left]
    apply sumTo_congr
    intro j hj
    by_cases h : j = pj
    · simp [h]
    · simp only [h, if_false]
      linear_combination (w j) * h1 j hj h
  have E2 : spp * sumTo nt (fun c => b'p c * qv c) = -(f * D) * sumTo nt (fun c => bp c * qv c) := by
    rw [← sumTo_mul_left, ← sumTo_mul_left]
    apply sumTo_congr
    intro c hc
    linear_combination (qv c) * h3 c hc
  rw [hap]
  constructor
  · intro e
    apply Int.eq_of_mul_eq_mul_left hspp
    linear_combination (-(f * D)) * e - E1 - E2 - x * h2
  · intro e
    apply Int.eq_of_mul_eq_mul_left (Int.mul_ne_zero hf hD)
    linear_combination (-spp) * e - E1 - E2 - x * h2

/-- another row, given the old pivot row -/
theorem other_row_algebra (hpj : pj < ns) (hf : f ≠ 0) (hspp : spp ≠ 0)
    (hap : ap pj = spp)
    (hrow : D * x = sumTo ns (fun j => ap j * w j) + sumTo nt (fun c => bp c * qv c))
    (ai bi a'i b'i : Nat → Int) (X : Int)
    (k1 : ∀ j, j < ns → j ≠ pj → a'i j * spp = f * (ai j * spp - ai pj * ap j))
    (k2 : a'i pj * spp = f * (ai pj * D))
    (k3 : ∀ c, c < nt → b'i c * spp = f * (bi c * spp - ai pj * bp c)) :
    (D * X = sumTo ns (fun j => ai j * w j) + sumTo nt (fun c => bi c * qv c)) ↔
    (f * D * X = sumTo ns (fun j => a'i j * (if j = pj then x else w j))
                    + sumTo nt (fun c => b'i c * qv c)) := by
  rw [old_row_split ns nt pj D w qv hpj ap bp x, hap] at hrow
  rw [old_row_split ns nt pj D w qv hpj ai bi X, new_row_split ns nt pj x w qv hpj a'i b'i]
  have E1 : spp * sumTo ns (fun j => if j = pj then 0 else a'i j * w j)
      = (f * spp) * sumTo ns (fun j => if j = pj then 0 else ai j * w j)
        + (-(f * ai pj)) * sumTo ns (fun j => if j = pj then 0 else ap j * w j) := by
    rw [← sumTo_mul_left, ← sumTo_lin]
    apply sumTo_congr
    intro j hj
    by_cases h : j = pj
    · simp [h]
    · simp only [h, if_false]
      linear_combination (w j) * k1 j hj h
  have E2 : spp * sumTo nt (fun c => b'i c * qv c)
      = (f * spp) * sumTo nt (fun c => bi c * qv c)
        + (-(f * ai pj)) * sumTo nt (fun c => bp c * qv c) := by
    rw [← sumTo_mul_left, ← sumTo_lin]
    apply sumTo_congr
    intro c hc
    linear_combination (qv c) * k3 c hc
  constructor
  · intro e
    apply Int.eq_of_mul_eq_mul_left hspp
    linear_combination (f * spp) * e - E1 - E2 - x * k2 - (f * ai pj) * hrow
  · intro e
    apply Int.eq_of_mul_eq_mul_left (Int.mul_ne_zero hf hspp)
    linear_combination spp * e + E1 + E2 + x * k2 + (f * ai pj) * hrow

end algebra

/-! ### rows of the two nodes -/

section rows
variable {nd0 nd' : SolNode} {pi pj : Nat} {f : Int}

theorem _root_.PPLV.PIPCore.PivotSpec.piv_vc_len (hs : PivotSpec nd0 nd' pi pj f) (h : WF nd0) :
    nd'.varColumn.length = nd0.tab.ns := by
  rw [hs.var_col, List.length_set]; exact h.vc_len

/-- row `i` of the pivoted node, as a sum over the OLD column variables -/
theorem _root_.PPLV.PIPCore.PivotSpec.piv_new_row_iff (hs : PivotSpec nd0 nd' pi pj f) (h : WF nd0)
    (v : Nat → Int) {q : List Int} (hq : q.length = nd0.tab.nt) (i : Nat) :
    RowHolds nd' v q i ↔
      f * nd0.tab.den * v (natGet nd'.varRow i)
        = sumTo nd0.tab.ns (fun j => mget nd'.tab.s i j *
              (if j = pj then v (natGet nd0.varRow pi) else v (natGet nd0.varColumn j)))
          + sumTo nd0.tab.nt (fun c => mget nd'.tab.t i c * rget q c) := by
  rw [rowHolds_iff_sum' nd' v (hs.piv_vc_len h) hq i, hs.den_eq]
  have : sumTo nd0.tab.ns (fun j => mget nd'.tab.s i j * v (natGet nd'.varColumn j))
      = sumTo nd0.tab.ns (fun j => mget nd'.tab.s i j *
              (if j = pj then v (natGet nd0.varRow pi) else v (natGet nd0.varColumn j))) := by
    apply sumTo_congr
    intro j hj
    rw [hs.var_col]
    by_cases e : j = pj
    · subst e
      rw [natGet_set_same _ (by rw [h.vc_len]; exact hj)]; simp
    · rw [natGet_set_ne _ (Ne.symm e)]; simp [e]
  rw [this]

theorem _root_.PPLV.PIPCore.PivotSpec.piv_pivot_row_iff (hs : PivotSpec nd0 nd' pi pj f) (h : WF nd0)
    (hpi : pi < nd0.tab.s.length) (hpj : pj < nd0.tab.ns) (hspp : mget nd0.tab.s pi pj ≠ 0)
    (v : Nat → Int) {q : List Int} (hq : q.length = nd0.tab.nt) :
    RowHolds nd0 v q pi ↔ RowHolds nd' v q pi := by
  rw [rowHolds_iff_sum' nd0 v h.vc_len hq pi, hs.piv_new_row_iff h v hq pi, hs.var_row,
    natGet_set_same _ (by rw [h.vr_len]; exact hpi)]
  exact pivot_row_algebra nd0.tab.ns nd0.tab.nt pj nd0.tab.den (mget nd0.tab.s pi pj) f
    (v (natGet nd0.varRow pi)) (fun j => mget nd0.tab.s pi j) (fun c => mget nd0.tab.t pi c)
    (fun j => v (natGet nd0.varColumn j)) (fun c => rget q c) hpj (ne_of_gt h.den_pos)
    (ne_of_gt hs.f_pos) hspp rfl (fun j => mget nd'.tab.s pi j) (fun c => mget nd'.tab.t pi c)
    (fun j hj hne => hs.s_row j hj hne) hs.s_piv (fun c hc => hs.t_row c hc)

theorem _root_.PPLV.PIPCore.PivotSpec.piv_other_row_iff (hs : PivotSpec nd0 nd' pi pj f) (h : WF nd0)
    (hpj : pj < nd0.tab.ns) (hspp : mget nd0.tab.s pi pj ≠ 0)
    (v : Nat → Int) {q : List Int} (hq : q.length = nd0.tab.nt)
    (hrow : RowHolds nd0 v q pi) {i : Nat} (hi : i < nd0.tab.s.length) (hne : i ≠ pi) :
    RowHolds nd0 v q i ↔ RowHolds nd' v q i := by
  rw [rowHolds_iff_sum' nd0 v h.vc_len hq pi] at hrow
  rw [rowHolds_iff_sum' nd0 v h.vc_len hq i, hs.piv_new_row_iff h v hq i, hs.var_row,
    natGet_set_ne _ (Ne.symm hne)]
  exact other_row_algebra nd0.tab.ns nd0.tab.nt pj nd0.tab.den (mget nd0.tab.s pi pj) f
    (v (natGet nd0.varRow pi)) (fun j => mget nd0.tab.s pi j) (fun c => mget nd0.tab.t pi c)
    (fun j => v (natGet nd0.varColumn j)) (fun c => rget q c) hpj
    (ne_of_gt hs.f_pos) hspp rfl hrow
    (fun j => mget nd0.tab.s i j) (fun c => mget nd0.tab.t i c)
    (fun j => mget nd'.tab.s i j) (fun c => mget nd'.tab.t i c) (v (natGet nd0.varRow i))
    (fun j hj hnj => hs.s_other i j hi hj hne hnj) (hs.s_col i hi hne)
    (fun c hc => hs.t_other i c hi hc hne)

end rows

/-- **the entry formulas of the pivot preserve the solutions** -/
theorem pivotSpec_tabsat {nd0 nd' : SolNode} {pi pj : Nat} {f : Int} (h : WF nd0)
    (hpi : pi < nd0.tab.s.length) (hpj : pj < nd0.tab.ns) (hspp : mget nd0.tab.s pi pj ≠ 0)
    (hs : PivotSpec nd0 nd' pi pj f) {q : List Int} (hq : q.length = nd0.tab.nt) :
    ∀ v, TabSat nd0 v q ↔ TabSat nd' v q := by
  intro v
  unfold TabSat
  rw [hs.shape.1]
  constructor
  · intro H i hi
    by_cases e : i = pi
    · subst e; exact (hs.piv_pivot_row_iff h hpi hpj hspp v hq).mp (H i hi)
    · exact (hs.piv_other_row_iff h hpj hspp v hq (H pi hpi) hi e).mp (H i hi)
  · intro H
    have hrow : RowHolds nd0 v q pi := (hs.piv_pivot_row_iff h hpi hpj hspp v hq).mpr (H pi hpi)
    intro i hi
    by_cases e : i = pi
    · subst e; exact hrow
    · exact (hs.piv_other_row_iff h hpj hspp v hq hrow hi e).mpr (H i hi)

end PPLV.PIPCore.Piv
