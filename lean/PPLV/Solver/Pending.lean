import PPLV.Solver.Tableau
import PPLV.Solver.MIP

/-!
# C06 stage 3 — the LP machinery of `src/MIP_Problem.cc`, code-shaped (executable, no Mathlib)

State `LPState` = the private data of a `MIP_Problem` without integer variables: dense tableau rows
(column 0 = inhomogeneous term, last column = the "sign" column of the cost row), `working_cost`,
`base`, `mapping`, `status`, the two space dimensions, `input_cs` with `first_pending_constraint`,
the objective, the mode, the pricing rule and `last_generator`.

Transliterated (file:line of /repo/src/MIP_Problem.cc, current tree):
* `parseConstraints`            — `parse_constraints` (:497)
* `mergeSplitVariable`          — `merge_split_variable` (:428)
* `ppcSetup`, `ppcFinish`, `processPendingConstraints` — `process_pending_constraints` (:689);
  `ppcSetup` (= `ppcRecompute`, `parseConstraints`, `ppcBuild`: `ppcMerge`, `ppcMapping`, `ppcFill`: `insertStep`,
  `ppcNormalizeSigns`, `ppcArtificials`, `reexpressCost`, `ppcTrivial`) is the part before the first phase
  (:689–:1000), `ppcFinish` the part after it
* `steepestEdgeExact`           — `steepest_edge_exact_entering_index` (:1177, `PPL_USE_SPARSE_MATRIX` variant)
* `textbookEntering` (Tableau)  — `textbook_entering_index` (:1376)
* `computeSimplexWith`          — the loop of `compute_simplex_using_exact_pricing` (:1672) and, with the
  choice of the entering column as a parameter, of `compute_simplex_using_steepest_edge_float` (:1574)
* `eraseArtificials`            — `erase_artificials` (:1722)
* `computeGenerator`            — `compute_generator` (:1803)
* `secondPhase`                 — `second_phase` (:1907)
* `isLpSatisfiable`             — `is_lp_satisfiable` (:2012)
* `addConstraint`, `setObjectiveFunction`, `setOptimizationMode`, `addSpaceDimensionsAndEmbed`,
  `setPricing`, `solve` — the status transitions of the mutators (:175–:414, MIP_Problem_inlines.hh:134)

Loops `for (i = n; i-- > 0; )` are `revFold n`, loops `for (i = a; i < a+len; ++i)` are `fwdFold a len`.
The simplex loop is fuelled: `none` = fuel exhausted (the theorems exclude it by hypothesis).
-/
namespace PPLV.Solver.Pend
open PPLV.Lin PPLV.Solver PPLV.Solver.Tab

/-- `for (i = n; i-- > 0; ) s = f(i, s)` -/
def revFold {σ : Type} : Nat → (Nat → σ → σ) → σ → σ
  | 0, _, s => s
  | n+1, f, s => revFold n f (f n s)

/-- `for (i = a; i < a + len; ++i) s = f(i, s)` -/
def fwdFold {σ : Type} : Nat → Nat → (Nat → σ → σ) → σ → σ
  | _, 0, _, s => s
  | a, len+1, f, s => fwdFold (a+1) len f (f a s)

/-- a constraint of `input_cs`: `Σ coeffs_i x_i + k  (= | ≥)  0` -/
structure ICon where
  coeffs : List Int
  k : Int
  isEq : Bool
deriving Repr, DecidableEq, Inhabited

/-- the rows of the reference (`Solver/MIP.lean`) for one constraint -/
def ICon.toCons (c : ICon) : List Con := if c.isEq then eqRows c.coeffs c.k else [geRow c.coeffs c.k]

inductive Status
  | UNSATISFIABLE | SATISFIABLE | UNBOUNDED | OPTIMIZED | PARTIALLY_SATISFIABLE
deriving Repr, DecidableEq, Inhabited

inductive Pricing
  | STEEPEST_EDGE_FLOAT | STEEPEST_EDGE_EXACT | TEXTBOOK
deriving Repr, DecidableEq, Inhabited

structure LPState where
  external_space_dim : Nat
  internal_space_dim : Nat := 0
  tableau : List Row := []
  /-- `tableau.num_columns()` (meaningful also when there is no row) -/
  numCols : Nat := 0
  working_cost : Row := []
  mapping : List (Nat × Nat) := []
  base : List Nat := []
  status : Status := .PARTIALLY_SATISFIABLE
  pricing : Pricing := .STEEPEST_EDGE_FLOAT
  input_cs : List ICon := []
  first_pending : Nat := 0
  obj : LinExpr := ⟨[], 0⟩
  maximize : Bool := true
  last_generator : Pt := ⟨[], 1⟩
deriving Repr, Inhabited

/-- `MIP_Problem(dim)` (:78) -/
def LPState.new (dim : Nat) : LPState := { external_space_dim := dim }

def zeros (n : Nat) : Row := List.replicate n 0

/-! ### `is_in_base`, `compute_generator` -/

/-- `is_in_base(var_index, row_index)` (:417): searches from the last row downwards -/
def isInBase (base : List Nat) (v : Nat) : Option Nat :=
  revFold base.length (fun i acc => match acc with
    | some r => some r
    | none => if base.getD i 0 == v then some i else none) none

/-- value of tableau column `col` in the basic solution: `(numer, denom)` (:1829–:1845) -/
def varValue (T : List Row) (base : List Nat) (col : Nat) : Int × Int :=
  match isInBase base col with
  | some r => basicValue (T.getD r []) col
  | none => (0, 1)

/-- numerator / denominator of problem variable `i` (:1823–:1881) -/
def genCoord (T : List Row) (base : List Nat) (mapping : List (Nat × Nat)) (i : Nat) : Int × Int :=
  let m := mapping.getD (i+1) (0, 0)
  let nd := varValue T base m.1
  if m.2 != 0 then
    match isInBase base m.2 with
    | some r =>
      let sp := basicValue (T.getD r []) m.2
      mergeSplit nd.1 nd.2 sp.1 sp.2
    | none => nd
  else nd

/-- `point(expr, d)`: the divisor and the coefficients are divided by their gcd (`d > 0` here) -/
def mkPoint (nums : List Int) (d : Int) : Pt :=
  match normalizeRow (d :: nums) with
  | d' :: nums' => ⟨nums', d'⟩
  | [] => ⟨nums, d⟩

/-- `compute_generator()` (:1803): the basic solution of the tableau, projected on the problem
    variables (positive part minus negative part), over the lcm of the denominators -/
def computeGeneratorPt (ext : Nat) (T : List Row) (base : List Nat) (mapping : List (Nat × Nat)) : Pt :=
  if ext == 0 then ⟨[], 1⟩ else
    let nd := (List.range ext).map (genCoord T base mapping)
    let lcm : Int := nd.tail.foldl (fun (l : Int) p => ((Int.lcm l p.2 : Nat) : Int)) (nd.headD (0, 1)).2
    mkPoint (nd.map fun p => p.1 * (lcm / p.2)) lcm

def computeGenerator (s : LPState) : LPState :=
  { s with last_generator := computeGeneratorPt s.external_space_dim s.tableau s.base s.mapping }

/-! ### `parse_constraints` -/

/-- sign of the scalar product of a constraint with a point (`Scalar_Products::sign`, missing
    coordinates are 0; the divisor is positive) -/
def spSign (c : ICon) (g : Pt) : Int :=
  let n := max c.coeffs.length g.num.length
  sgn (((List.range n).map fun i => c.coeffs.getD i 0 * g.num.getD i 0).foldl (· + ·) (c.k * g.den))

/-- `is_satisfied(c, g)` (:474) -/
def isSatisfied (c : ICon) (g : Pt) : Bool :=
  if c.isEq then spSign c g == 0 else decide (spSign c g ≥ 0)

/-- the classes of the table in `parse_constraints` (:624–:640) and the two other shapes -/
inductive CClass
  | many          -- more than one non-zero coefficient
  | trivTrue | trivFalse   -- no non-zero coefficient
  | m13           -- cases 1–3: sgn a = sgn b                    (method A)
  | m45           -- cases 4–5: equality, sgn a ≠ sgn b          (method B)
  | m6            -- case 6: a > 0, b < 0, ≥                       (method B)
  | m7            -- case 7: a > 0, b = 0, ≥                       (method C)
  | m89           -- cases 8–9: a < 0, b ≥ 0, ≥                    (method A)
deriving Repr, DecidableEq, Inhabited

/-- index of the first non-zero coefficient (`first_nonzero(1, end) - 1`) -/
def firstNonzero (cs : List Int) : Option Nat :=
  (List.range cs.length).find? (fun j => cs.getD j 0 != 0)

def classify (c : ICon) : CClass × Nat :=
  match firstNonzero c.coeffs with
  | none =>
    if (!c.isEq && c.k < 0) || (c.isEq && c.k != 0) then (.trivFalse, 0) else (.trivTrue, 0)
  | some v =>
    if (c.coeffs.drop (v+1)).any (· != 0) then (.many, v)
    else
      let sa := sgn (c.coeffs.getD v 0)
      let sb := sgn c.k
      if sa == sb then (.m13, v)
      else if c.isEq then (.m45, v)
      else if sb < 0 then (.m6, v)
      else if sa > 0 then (.m7, v)
      else (.m89, v)

/-- the outputs of `parse_constraints` -/
structure Parsed where
  rows : Nat                 -- additional_tableau_rows
  slacks : Nat               -- additional_slack_variables
  isTab : List Bool          -- is_tableau_constraint
  isSat : List Bool          -- is_satisfied_inequality
  isNonneg : List Bool       -- is_nonnegative_variable
  isRemerge : List Bool      -- is_remergeable_variable
deriving Repr, Inhabited

/-- one iteration of the loop at :562 on pending constraint number `p` -/
def parseStep (s : LPState) (pend : List ICon) (p : Nat) (acc : Option Parsed) : Option Parsed :=
  match acc with
  | none => none
  | some a =>
    let c := pend.getD p default
    match classify c with
    | (.many, _) =>
      let a := if !c.isEq then { a with slacks := a.slacks + 1 } else a
      if !c.isEq && isSatisfied c s.last_generator then some { a with isSat := a.isSat.set p true } else some a
    | (.trivFalse, _) => none
    | (.trivTrue, _) => some { a with isTab := a.isTab.set p false, rows := a.rows - 1 }
    | (.m13, _) => if !c.isEq then some { a with slacks := a.slacks + 1 } else some a
    | (.m45, v) => some { a with isNonneg := a.isNonneg.set v true }
    | (.m6, v) => some { a with isNonneg := a.isNonneg.set v true, slacks := a.slacks + 1 }
    | (.m7, v) =>
      let a :=
        if !a.isNonneg.getD v false then
          let a := { a with isNonneg := a.isNonneg.set v true }
          if v + 1 < s.mapping.length then { a with isRemerge := a.isRemerge.set v true } else a
        else a
      some { a with isTab := a.isTab.set p false, rows := a.rows - 1 }
    | (.m89, _) => some { a with slacks := a.slacks + 1 }

/-- `parse_constraints` (:497); `none` = a pending constraint is trivially false -/
def parseConstraints (s : LPState) : Option Parsed :=
  let pend := s.input_cs.drop s.first_pending
  let np := pend.length
  let msize := s.mapping.length
  -- :546–:555 variables known to be non-negative from the non-pending constraints
  let nn0 := List.replicate s.external_space_dim false
  let nn :=
    if msize > 0 then
      revFold (min (msize - 1) s.external_space_dim)
        (fun i (l : List Bool) => if (s.mapping.getD (i+1) (0, 0)).2 == 0 then l.set i true else l) nn0
    else nn0
  let init : Parsed :=
    { rows := np, slacks := 0, isTab := List.replicate np true, isSat := List.replicate np false,
      isNonneg := nn, isRemerge := List.replicate s.internal_space_dim false }
  revFold np (parseStep s pend) (some init)

/-! ### `merge_split_variable` -/

/-- `merge_split_variable(var_index)` (:428): drops the column of the negative part; returns the row
    whose basic variable it was (that row's `base` entry becomes 0) -/
def mergeSplitVariable (s : LPState) (v : Nat) : LPState × Option Nat :=
  let removing := (s.mapping.getD (1 + v) (0, 0)).2
  let (unf, base) := match isInBase s.base removing with
    | some bi => (some bi, s.base.set bi 0)
    | none => (none, s.base)
  let T := s.tableau.map fun r => r.eraseIdx removing
  let mapping := s.mapping.set (1 + v) ((s.mapping.getD (1 + v) (0, 0)).1, 0)
  let base := base.map fun b => if b > removing then b - 1 else b
  let mapping := mapping.map fun m =>
    (if m.1 > removing then m.1 - 1 else m.1, if m.2 > removing then m.2 - 1 else m.2)
  ({ s with tableau := T, numCols := s.numCols - 1, mapping := mapping, base := base }, unf)

/-! ### pricing -/

/-- a rule choosing the entering column from (tableau, cost row, base); 0 = none -/
abbrev Chooser := List Row → Row → List Nat → Nat

/-- `steepest_edge_exact_entering_index` (:1177), sparse variant: the candidates are the columns whose
    cost has the sign of the sign column; they are compared, from the LAST to the first, by
    `cost_j² / (lcm² + Σ_i (t_ij · lcm / t_i,base_i)²)`; a later (smaller) column replaces the current
    one only when strictly better -/
def steepestEdgeExact : Chooser := fun T cost base =>
  let nrows := T.length
  let lcmBasis : Int := revFold nrows
    (fun i (l : Int) => ((Int.lcm l ((T.getD i []).get (base.getD i 0)) : Nat) : Int)) 1
  let normFactor : List Int := (List.range nrows).map fun i => lcmBasis / (T.getD i []).get (base.getD i 0)
  let sq := lcmBasis * lcmBasis
  let last := cost.length - 1
  let costSign := sgn (cost.get last)
  let cands := (List.range' 1 (last - 1)).filter fun j => sgn (cost.get j) == costSign
  let denom := fun (j : Nat) => revFold nrows
    (fun i (acc : Int) => let v := (T.getD i []).get j * normFactor.getD i 0; acc + v * v) sq
  let step := fun (st : Nat × Int × Int) (j : Nat) =>
    let chN := cost.get j * cost.get j
    let chD := denom j
    if st.1 == 0 then (j, chN, chD)
    else if chN * st.2.2 > st.2.1 * chD then (j, chN, chD) else st
  (cands.reverse.foldl step (0, 0, 0)).1

def textbookChooser : Chooser := fun _ cost _ => textbookEntering cost

/-- a column `j` that may enter: `1 ≤ j < last` and its cost has the sign of the sign column -/
def isCandidate (cost : Row) (j : Nat) : Bool :=
  decide (1 ≤ j) && decide (j < cost.length - 1) && sgn (cost.get j) == sgn (cost.get (cost.length - 1))

/-- (d) the float pricing only *chooses* a candidate: `choice` proposes a column, it is taken when it
    is a candidate, otherwise the first candidate is (0 when there is none) -/
def arbitraryEntering (choice : List Row → Row → List Nat → Nat) : Chooser := fun T cost base =>
  let j := choice T cost base
  if isCandidate cost j then j else textbookEntering cost

/-- the tableau part of the state the simplex loop works on -/
structure Tab where
  T : List Row
  cost : Row
  base : List Nat
deriving Repr, Inhabited, DecidableEq

/-- `pivot(entering, exiting)` (:1494) -/
def pivot (t : Tab) (e r : Nat) : Tab :=
  ⟨pivotRows t.T e r, pivotCost t.cost t.T e r, pivotBase t.base e r⟩

/-- the loop of `compute_simplex_using_exact_pricing` (:1672) / `..._steepest_edge_float` (:1574):
    `some (true, _)` = no entering column (optimum), `some (false, _)` = no exiting row (unbounded),
    `none` = out of fuel -/
def computeSimplexWith (choose : Chooser) : Nat → Tab → Option (Bool × Tab)
  | 0, _ => none
  | fuel+1, t =>
    let e := choose t.T t.cost t.base
    if e == 0 then some (true, t)
    else match exitingIndex t.T t.base e with
      | none => some (false, t)
      | some r => computeSimplexWith choose fuel (pivot t e r)

/-- number of pivots of the same loop (coverage statistics only) -/
def countPivots (choose : Chooser) : Nat → Tab → Nat
  | 0, _ => 0
  | fuel+1, t =>
    let e := choose t.T t.cost t.base
    if e == 0 then 0
    else match exitingIndex t.T t.base e with
      | none => 0
      | some r => countPivots choose fuel (pivot t e r) + 1

/-- the chooser of a pricing rule; `fc` stands for the float rule -/
def chooserOf (fc : Chooser) : Pricing → Chooser
  | .TEXTBOOK => textbookChooser
  | .STEEPEST_EDGE_EXACT => steepestEdgeExact
  | .STEEPEST_EDGE_FLOAT => fc

def computeSimplexExact (p : Pricing) : Nat → Tab → Option (Bool × Tab) :=
  computeSimplexWith (chooserOf textbookChooser p)

/-! ### `erase_artificials` -/

def firstNonzeroIn (r : Row) (lo hi : Nat) : Option Nat :=
  (List.range' lo (hi - lo)).find? (fun j => r.get j != 0)

/-- step 1 of `erase_artificials` (:1729–:1762): a row whose basic variable is artificial pivots on its
    first non-zero original column; if there is none the row is redundant: it is replaced by the last
    row (and visited again) and the last row is removed -/
def eraseLoop (beginA endA : Nat) : Nat → Nat → Tab → Tab
  | 0, _, t => t
  | fuel+1, i, t =>
    if i < t.T.length then
      let b := t.base.getD i 0
      if beginA ≤ b && b < endA then
        match firstNonzeroIn (t.T.getD i []) 1 beginA with
        | some j => eraseLoop beginA endA fuel (i+1) (pivot t j i)
        | none =>
          let n' := t.T.length - 1
          if i < n' then
            eraseLoop beginA endA fuel i
              ⟨(t.T.set i (t.T.getD n' [])).dropLast, t.cost, (t.base.set i (t.base.getD n' 0)).dropLast⟩
          else eraseLoop beginA endA fuel (i+1) ⟨t.T.dropLast, t.cost, t.base.dropLast⟩
      else eraseLoop beginA endA fuel (i+1) t
    else t

/-- `erase_artificials(begin, end)` (:1722); `numCols` = columns before; returns the new tableau part
    (the artificial columns are the trailing ones before the sign column: the trailing
    `end − begin` columns are dropped, the new last column is zeroed in the rows and receives the old
    sign entry in the cost row) -/
def eraseArtificials (beginA endA : Nat) (numCols : Nat) (t : Tab) : Tab × Nat :=
  let oldLast := numCols - 1
  let t1 := eraseLoop beginA endA (t.T.length + 1) 0 t
  let numArt := endA - beginA
  let nc := numCols - numArt
  let newLast := nc - 1
  let T := t1.T.map fun r => (r.take nc).set newLast 0
  let cost := ((t1.cost.set newLast (t1.cost.get oldLast)).take (t1.cost.length - numArt))
  (⟨T, cost, t1.base⟩, nc)

/-! ### `process_pending_constraints` -/

/-- what the part of `process_pending_constraints` before the first phase produces -/
inductive Setup
  | done (s : LPState)                              -- an early `return` (:723, :975, :988, :998)
  | phase1 (s : LPState) (beginA endA : Nat)        -- ready for the first phase (:1001)
deriving Inhabited

/-- `is_unbounded_obj_function` (:1463) -/
def isUnboundedObjFunction (obj : LinExpr) (mapping : List (Nat × Nat)) (maximize : Bool) : Bool :=
  (List.range obj.coeffs.length).any fun i =>
    let c := obj.coeffs.getD i 0
    c != 0 && ((mapping.getD (i+1) (0, 0)).2 != 0 || (if maximize then decide (c > 0) else decide (c < 0)))

/-- the tableau row of a constraint (:857–:883): coefficient at `mapping.first`, its opposite at
    `mapping.second` when the variable is split, the inhomogeneous term in column 0 -/
def constraintRow (numCols : Nat) (mapping : List (Nat × Nat)) (c : ICon) : Row :=
  let r := fwdFold 0 c.coeffs.length (fun j (r : Row) =>
    let a := c.coeffs.getD j 0
    if a != 0 then
      let m := mapping.getD (j+1) (0, 0)
      let r := r.set m.1 a
      if m.2 != 0 then r.set m.2 (-a) else r
    else r) (zeros numCols)
  if c.k != 0 then r.set (mapping.getD 0 (0, 0)).1 c.k else r

/-- the state of the insertion loop (:852) -/
structure Ins where
  T : List Row
  base : List Nat
  k : Nat
  slackIndex : Nat
  worked : List Bool
deriving Inhabited

/-- one iteration of the insertion loop (:852–:901) for pending constraint `i` -/
def insertStep (numCols : Nat) (mapping : List (Nat × Nat)) (pend : List ICon) (isTab isSat : List Bool)
    (i : Nat) (st : Ins) : Ins :=
  if !isTab.getD i true then st else
    let k := st.k - 1
    let c := pend.getD i default
    let row := constraintRow numCols mapping c
    -- the slack variable (:886–:895)
    let (row, slackIndex, base, worked) :=
      if !c.isEq then
        let si := st.slackIndex - 1
        let row := row.set si (-1)
        if isSat.getD i false then (row, si, st.base.set k si, st.worked.set k true)
        else (row, si, st.base, st.worked)
      else (row, st.slackIndex, st.base, st.worked)
    -- :896–:900 eliminate the basic variables of the other rows
    let row := revFold base.length (fun j (row : Row) =>
      let bj := base.getD j 0
      if k != j && bj != 0 && row.get bj != 0 then linearCombine row (st.T.getD j []) bj else row) row
    { T := st.T.set k row, base := base, k := k, slackIndex := slackIndex, worked := worked }

/-- :707–:715 `last_generator` is recomputed from the tableau when it encodes all the dimensions;
    the flag says whether it may be trusted as the basic solution -/
def ppcRecompute (s0 : LPState) : LPState × Bool :=
  if s0.internal_space_dim > 0 then
    if s0.internal_space_dim == s0.external_space_dim then (computeGenerator s0, true) else (s0, false)
  else (s0, true)

/-- :734–:745 merge back the re-mergeable variables (from the last one down); the rows made unfeasible -/
def ppcMerge (s : LPState) (isRemerge : List Bool) : LPState × List Nat :=
  revFold s.internal_space_dim (fun i (acc : LPState × List Nat) =>
    if isRemerge.getD i false then
      let (s', r) := mergeSplitVariable acc.1 i
      (s', match r with | some r => acc.2 ++ [r] | none => acc.2)
    else acc) (s, [])

/-- :763–:784 mapping of the new problem variables: (mapping, j, additional_problem_vars) -/
def ppcMapping (s : LPState) (isNonneg : List Bool) (firstFree : Nat) : List (Nat × Nat) × Nat × Nat :=
  if s.external_space_dim > s.internal_space_dim then
    fwdFold 0 (s.external_space_dim - s.internal_space_dim)
      (fun i (acc : List (Nat × Nat) × Nat × Nat) =>
        let positive := firstFree + acc.2.1
        if isNonneg.getD (s.internal_space_dim + i) false then
          (acc.1 ++ [(positive, 0)], acc.2.1 + 1, acc.2.2 + 1)
        else (acc.1 ++ [(positive, positive + 1)], acc.2.1 + 2, acc.2.2 + 2))
      (s.mapping, 0, 0)
  else (s.mapping, 0, 0)

/-- :906–:915 all inhomogeneous terms non-positive -/
def ppcNormalizeSigns (T : List Row) : List Row :=
  T.map fun r => if r.get 0 > 0 then r.map (- ·) else r

/-- :918–:949 the artificial variables: first the rows made unfeasible by re-merging, then the new rows
    that are not worked out; (tableau, cost, base, end_artificials) -/
def ppcArtificials (unf : List Nat) (oldRows numRows : Nat) (worked : List Bool)
    (T : List Row) (cost : Row) (base : List Nat) (artIndex : Nat) : List Row × Row × List Nat × Nat :=
  let acc := unf.foldl (fun (acc : List Row × Row × List Nat × Nat) r =>
    let (T, cost, base, ai) := acc
    (T.set r ((T.getD r []).set ai 1), cost.set ai (-1), base.set r ai, ai + 1)) (T, cost, base, artIndex)
  fwdFold oldRows (numRows - oldRows)
    (fun i (acc : List Row × Row × List Nat × Nat) =>
      let (T, cost, base, ai) := acc
      if worked.getD i false then acc
      else (T.set i ((T.getD i []).set ai 1), cost.set ai (-1), base.set i ai, ai + 1)) acc

/-- :959–:969 and :1956–:1966 the cost row in terms of the non-basic variables -/
def reexpressCost (T : List Row) (base : List Nat) (cost : Row) : Row :=
  revFold T.length (fun i (cost : Row) =>
    let bi := base.getD i 0
    if cost.get bi != 0 then linearCombine cost (T.getD i []) bi else cost) cost

/-- :972–:999 the zero-dimensional and the no-row cases -/
def ppcTrivial (s : LPState) (beginA endA : Nat) : Setup :=
  if s.external_space_dim == 0 then
    .done { s with status := .OPTIMIZED, last_generator := ⟨[], 1⟩ }
  else if s.tableau.length == 0 then
    if isUnboundedObjFunction s.obj s.mapping s.maximize then
      .done { s with status := .UNBOUNDED, last_generator := ⟨zeros s.external_space_dim, 1⟩ }
    else .done { s with status := .OPTIMIZED, last_generator := ⟨zeros s.external_space_dim, 1⟩ }
  else .phase1 s beginA endA

/-- :758–:1000 resize the tableau, insert the constraints, normalise the signs, add the artificial
    variables and the first-phase cost row (`s`: the state after re-merging, `unf`: the rows it made
    unfeasible, `isSat`: the "already satisfied" flags after their two resets, `mapping`/`addVars`: the
    extended mapping and the number of new problem-variable columns) -/
def ppcFill (s : LPState) (unf : List Nat) (p : Parsed) (isSat : List Bool) (mapping : List (Nat × Nat))
    (addVars : Nat) : Setup :=
  let np := s.input_cs.length - s.first_pending
  let pend := s.input_cs.drop s.first_pending
  let oldRows := s.tableau.length
  let oldCols := s.numCols
  -- :803–:822
  let numSat := isSat.count true
  let addArt := (p.rows - numSat) + unf.length
  let addCols := addVars + p.slacks + addArt
  let numRows := oldRows + p.rows
  let numCols := oldCols + addCols
  let T := (s.tableau ++ List.replicate p.rows []).map fun (r : Row) => r ++ zeros (numCols - r.length)
  let base := s.base ++ List.replicate p.rows 0
  let slackIndex := numCols - addArt - 1
  let beginA := if addArt > 0 then slackIndex else 0
  -- :852–:901 insertion of the constraints
  let ins := revFold np (insertStep numCols mapping pend p.isTab isSat)
    { T := T, base := base, k := numRows, slackIndex := slackIndex, worked := List.replicate numRows false }
  let art :=
    ppcArtificials unf oldRows numRows ins.worked (ppcNormalizeSigns ins.T) (zeros numCols) ins.base slackIndex
  -- :955–:956 the sign column, :959–:969 the cost row in terms of the non-basic variables
  let cost := reexpressCost art.1 art.2.2.1 (art.2.1.set (numCols - 1) 1)
  ppcTrivial
    { s with tableau := art.1, numCols := numCols, working_cost := cost, base := art.2.2.1, mapping := mapping }
    beginA art.2.2.2

/-- :727–:757 after `parse_constraints` succeeded: the two resets of the "already satisfied" flags,
    re-merging, the mapping of the new variables -/
def ppcBuild (s : LPState) (lgBasic : Bool) (p : Parsed) : Setup :=
  let np := s.input_cs.length - s.first_pending
  let isSat := if !lgBasic then List.replicate np false else p.isSat
  let mg := ppcMerge s p.isRemerge
  -- :753–:756
  let isSat := if !mg.2.isEmpty then List.replicate np false else isSat
  let mp := ppcMapping mg.1 p.isNonneg (mg.1.numCols - 1)
  ppcFill mg.1 mg.2 p isSat mp.1 mp.2.2

/-- `process_pending_constraints` up to the first phase (:689–:1000) -/
def ppcSetup (s0 : LPState) : Setup :=
  let (s, lgBasic) := ppcRecompute s0
  match parseConstraints s with
  | none => .done { s with status := .UNSATISFIABLE }
  | some p => ppcBuild s lgBasic p

def LPState.tab (s : LPState) : Tab := ⟨s.tableau, s.working_cost, s.base⟩
def LPState.withTab (s : LPState) (t : Tab) : LPState :=
  { s with tableau := t.T, working_cost := t.cost, base := t.base }

/-- the part after the first phase (:1013–:1024) -/
def ppcFinish (s : LPState) (beginA endA : Nat) (ok : Bool) (t : Tab) : LPState :=
  let s := s.withTab t
  if !ok || t.cost.get 0 != 0 then { s with status := .UNSATISFIABLE }
  else
    let s :=
      if beginA != 0 then
        let (t', nc) := eraseArtificials beginA endA s.numCols t
        { s.withTab t' with numCols := nc }
      else s
    { computeGenerator s with status := .SATISFIABLE }

/-- `process_pending_constraints()` (:689); `none` = the first phase ran out of fuel -/
def processPendingConstraints (fc : Chooser) (fuel : Nat) (s : LPState) : Option LPState :=
  match ppcSetup s with
  | .done s' => some s'
  | .phase1 s' beginA endA =>
    match computeSimplexWith (chooserOf fc s'.pricing) fuel s'.tab with
    | none => none
    | some (ok, t) => some (ppcFinish s' beginA endA ok t)

/-! ### `second_phase`, `is_lp_satisfiable`, `solve` -/

/-- the cost row of the second phase before re-expression (:1917–:1952): sign column 1, the objective
    coefficients (negated when minimising) at `mapping.first`, their opposites at `mapping.second`;
    the inhomogeneous term of the objective is NOT entered -/
def secondPhaseCost (s : LPState) : Row :=
  let size := s.working_cost.length
  let c0 := (zeros size).set (size - 1) 1
  fwdFold 0 s.obj.coeffs.length (fun i (c : Row) =>
    let a := if s.maximize then s.obj.coeffs.getD i 0 else - s.obj.coeffs.getD i 0
    if a != 0 then
      let m := s.mapping.getD (i+1) (0, 0)
      let c := c.set m.1 a
      if m.2 != 0 then c.set m.2 (-a) else c
    else c) c0

/-- `second_phase()` (:1907) -/
def secondPhase (fc : Chooser) (fuel : Nat) (s : LPState) : Option LPState :=
  if s.status == .UNBOUNDED || s.status == .OPTIMIZED then some s else
    let cost := secondPhaseCost s
    -- :1956–:1966
    let cost := reexpressCost s.tableau s.base cost
    match computeSimplexWith (chooserOf fc s.pricing) fuel ⟨s.tableau, cost, s.base⟩ with
    | none => none
    | some (ok, t) =>
      some { computeGenerator (s.withTab t) with status := if ok then .OPTIMIZED else .UNBOUNDED }

/-- `is_lp_satisfiable()` (:2012) -/
def isLpSatisfiable (fc : Chooser) (fuel : Nat) (s : LPState) : Option (LPState × Bool) :=
  match s.status with
  | .UNSATISFIABLE => some (s, false)
  | .SATISFIABLE | .UNBOUNDED | .OPTIMIZED => some (s, true)
  | .PARTIALLY_SATISFIABLE =>
    let s := if s.numCols == 0 then { s with numCols := 2, mapping := s.mapping ++ [(0, 0)] } else s
    match processPendingConstraints fc fuel s with
    | none => none
    | some s =>
      let s := { s with first_pending := s.input_cs.length, internal_space_dim := s.external_space_dim }
      some (s, s.status != .UNSATISFIABLE)

/-- the LP branch of `solve()` (:302–:330): 0 unfeasible, 1 unbounded, 2 optimized -/
def solve (fc : Chooser) (fuel : Nat) (s : LPState) : Option (LPState × Nat) :=
  match s.status with
  | .UNSATISFIABLE => some (s, 0)
  | .UNBOUNDED => some (s, 1)
  | .OPTIMIZED => some (s, 2)
  | _ =>
    match isLpSatisfiable fc fuel s with
    | none => none
    | some (s, false) => some (s, 0)
    | some (s, true) =>
      match secondPhase fc fuel s with
      | none => none
      | some s => some (s, if s.status == .UNBOUNDED then 1 else 2)

/-! ### the mutators (status transitions) -/

/-- `add_constraint(c)` (:175) -/
def addConstraint (s : LPState) (c : ICon) : LPState :=
  let s := { s with input_cs := s.input_cs ++ [c] }
  if s.status != .UNSATISFIABLE then { s with status := .PARTIALLY_SATISFIABLE } else s

/-- `set_objective_function(obj)` (:219) -/
def setObjectiveFunction (s : LPState) (obj : LinExpr) : LPState :=
  let s := { s with obj := obj }
  if s.status == .UNBOUNDED || s.status == .OPTIMIZED then { s with status := .SATISFIABLE } else s

/-- `set_optimization_mode(mode)` (MIP_Problem_inlines.hh:134) -/
def setOptimizationMode (s : LPState) (maximize : Bool) : LPState :=
  if s.maximize != maximize then
    let s := { s with maximize := maximize }
    if s.status == .UNBOUNDED || s.status == .OPTIMIZED then { s with status := .SATISFIABLE } else s
  else s

/-- `add_space_dimensions_and_embed(m)` (:382) -/
def addSpaceDimensionsAndEmbed (s : LPState) (m : Nat) : LPState :=
  let s := { s with external_space_dim := s.external_space_dim + m }
  if s.status != .UNSATISFIABLE then { s with status := .PARTIALLY_SATISFIABLE } else s

/-- `set_control_parameter(PRICING_*)`: the status is not touched -/
def setPricing (s : LPState) (p : Pricing) : LPState := { s with pricing := p }

/-! ### reading the state -/

/-- the problem data of the state, for the reference `lpAnswer` -/
def LPState.problem (s : LPState) : Problem :=
  { n := s.external_space_dim, cs := s.input_cs.flatMap ICon.toCons, ints := [], obj := s.obj, maximize := s.maximize }

/-- objective value at `last_generator` -/
def LPState.value (s : LPState) : Rat := s.problem.objVal s.last_generator.val

end PPLV.Solver.Pend
