import PPLV.Solver.PIPCoreProofsDefs
import Mathlib.Tactic.LinearCombination
/-!
# C07 stage 2 — pivot family, part 11: the rational reading `TabSatQ` — casts, `normalize`, sums
-/
namespace PPLV.PIPCore.Piv

/-! ### `dotQ` -/

theorem dotQ_cast (r : List Int) (xs : List Int) :
    dotQ r (xs.map (fun x : Int => (x : ℚ))) = ((dot r xs : Int) : ℚ) := by
  induction r generalizing xs with
  | nil => cases xs <;> simp [dotQ, dot]
  | cons a as ih =>
    cases xs with
    | nil => simp [dotQ, dot]
    | cons x xs =>
      simp only [List.map_cons, dotQ, dot]
      rw [ih xs]; push_cast; ring

theorem dotQ_map_mul (a : List Int) (b : List ℚ) (c : Int) :
    dotQ (a.map (· * c)) b = dotQ a b * (c : ℚ) := by
  induction a generalizing b with
  | nil => simp [dotQ]
  | cons x xs ih =>
    cases b with
    | nil => simp [dotQ]
    | cons y ys => simp only [List.map_cons, dotQ]; rw [ih ys]; push_cast; ring

theorem dotQ_map_div (a : List Int) (b : List ℚ) (g : Int) (h : ∀ x ∈ a, g ∣ x) :
    dotQ (a.map (· / g)) b * (g : ℚ) = dotQ a b := by
  induction a generalizing b with
  | nil => simp [dotQ]
  | cons x xs ih =>
    cases b with
    | nil => simp [dotQ]
    | cons y ys =>
      simp only [List.map_cons, dotQ]
      have hx : ((x / g : Int) : ℚ) * (g : ℚ) = (x : ℚ) := by
        exact_mod_cast Int.ediv_mul_cancel (h x (by simp))
      have := ih ys (fun z hz => h z (by simp [hz]))
      linear_combination y * hx + this

/-! ### integer solutions are rational solutions -/

theorem rowHolds_cast (nd : SolNode) (v : Nat → Int) (q : List Int) (i : Nat) :
    RowHolds nd v q i ↔ RowHoldsQ nd (fun k => (v k : ℚ)) q i := by
  unfold RowHolds RowHoldsQ
  have : nd.varColumn.map (fun k => (v k : ℚ)) = (nd.varColumn.map v).map (fun x : Int => (x : ℚ)) := by
    rw [List.map_map]; rfl
  rw [this, dotQ_cast]
  beta_reduce
  constructor
  · intro e; exact_mod_cast e
  · intro e; exact_mod_cast e

theorem tabsat_cast (nd : SolNode) (v : Nat → Int) (q : List Int) :
    TabSat nd v q ↔ TabSatQ nd (fun k => (v k : ℚ)) q :=
  forall_congr' fun i => imp_congr_right fun _ => rowHolds_cast nd v q i

/-! ### `scale` and `normalize` over ℚ -/

theorem scale_tabsatQ (nd : SolNode) {r : Int} (hr : r ≠ 0) (v : Nat → ℚ) (q : List Int) :
    TabSatQ { nd with tab := nd.tab.scale r } v q ↔ TabSatQ nd v q := by
  unfold TabSatQ
  show (∀ i, i < (nd.tab.scale r).s.length → _) ↔ _
  rw [scale_s_length]
  refine forall_congr' fun i => imp_congr_right fun _ => ?_
  unfold RowHoldsQ
  show ((nd.tab.den * r : Int) : ℚ) * v (natGet nd.varRow i)
      = dotQ (mrow (nd.tab.s.map (·.map (· * r))) i) (nd.varColumn.map v)
        + ((dot (mrow (nd.tab.t.map (·.map (· * r))) i) q : Int) : ℚ) ↔ _
  rw [mrow_map _ (·.map (· * r)) (by simp), mrow_map _ (·.map (· * r)) (by simp),
    dotQ_map_mul, dot_map_mul]
  have hr' : (r : ℚ) ≠ 0 := by exact_mod_cast hr
  push_cast
  constructor
  · intro e
    apply mul_right_cancel₀ hr'
    linear_combination e
  · intro e
    linear_combination (r : ℚ) * e

theorem normalize_tabsatQ {nd : SolNode} (h : WF nd) (v : Nat → ℚ) (q : List Int) :
    TabSatQ { nd with tab := nd.tab.normalize } v q ↔ TabSatQ nd v q := by
  rcases normalize_cases nd.tab (ne_of_gt h.den_pos) with e | ⟨g, hg, dd, ds, dt, e⟩
  · rw [e]
  · rw [e]
    unfold TabSatQ
    show (∀ i, i < (nd.tab.s.map (·.map (· / g))).length → _) ↔ _
    rw [List.length_map]
    refine forall_congr' fun i => imp_congr_right fun _ => ?_
    unfold RowHoldsQ
    show ((nd.tab.den / g : Int) : ℚ) * v (natGet nd.varRow i)
        = dotQ (mrow (nd.tab.s.map (·.map (· / g))) i) (nd.varColumn.map v)
          + ((dot (mrow (nd.tab.t.map (·.map (· / g))) i) q : Int) : ℚ) ↔ _
    rw [mrow_map _ (·.map (· / g)) (by simp), mrow_map _ (·.map (· / g)) (by simp)]
    have e1 := dotQ_map_div (mrow nd.tab.s i) (nd.varColumn.map v) g (ds.mrow i)
    have e2 : ((dot ((mrow nd.tab.t i).map (· / g)) q : Int) : ℚ) * (g : ℚ)
        = ((dot (mrow nd.tab.t i) q : Int) : ℚ) := by
      exact_mod_cast dot_map_div (mrow nd.tab.t i) q g (dt.mrow i)
    have e3 : ((nd.tab.den / g : Int) : ℚ) * (g : ℚ) = (nd.tab.den : ℚ) := by
      exact_mod_cast Int.ediv_mul_cancel dd
    have hg' : (g : ℚ) ≠ 0 := by exact_mod_cast (ne_of_gt hg)
    constructor
    · intro e
      linear_combination (g : ℚ) * e - (v (natGet nd.varRow i)) * e3 + e1 + e2
    · intro e
      apply mul_right_cancel₀ hg'
      linear_combination e + (v (natGet nd.varRow i)) * e3 - e1 - e2

/-! ### finite sums over ℚ -/

/-- `Σ_{j < n} g j` -/
def sumQ : Nat → (Nat → ℚ) → ℚ
  | 0, _ => 0
  | n + 1, g => g 0 + sumQ n (fun j => g (j + 1))

theorem sumQ_congr {n : Nat} {g h : Nat → ℚ} (e : ∀ j, j < n → g j = h j) :
    sumQ n g = sumQ n h := by
  induction n generalizing g h with
  | zero => rfl
  | succ n ih =>
    unfold sumQ
    rw [e 0 (Nat.succ_pos n), ih (fun j hj => e (j + 1) (Nat.succ_lt_succ hj))]

theorem sumQ_add (n : Nat) (g h : Nat → ℚ) :
    sumQ n (fun j => g j + h j) = sumQ n g + sumQ n h := by
  induction n generalizing g h with
  | zero => simp [sumQ]
  | succ n ih =>
    unfold sumQ
    rw [ih (fun j => g (j + 1)) (fun j => h (j + 1))]; ring

theorem sumQ_mul_left (n : Nat) (c : ℚ) (g : Nat → ℚ) :
    sumQ n (fun j => c * g j) = c * sumQ n g := by
  induction n generalizing g with
  | zero => simp [sumQ]
  | succ n ih =>
    unfold sumQ
    rw [ih (fun j => g (j + 1))]; ring

theorem sumQ_lin (n : Nat) (c d : ℚ) (g h : Nat → ℚ) :
    sumQ n (fun j => c * g j + d * h j) = c * sumQ n g + d * sumQ n h := by
  rw [sumQ_add n (fun j => c * g j) (fun j => d * h j), sumQ_mul_left, sumQ_mul_left]

theorem sumQ_zero (n : Nat) : sumQ n (fun _ => 0) = 0 := by
  induction n with
  | zero => rfl
  | succ n ih => unfold sumQ; rw [ih]; ring

theorem sumQ_split {n p : Nat} (g : Nat → ℚ) (hp : p < n) :
    sumQ n g = sumQ n (fun j => if j = p then 0 else g j) + g p := by
  induction n generalizing g p with
  | zero => omega
  | succ n ih =>
    unfold sumQ
    cases p with
    | zero =>
      have : sumQ n (fun j => if j + 1 = 0 then 0 else g (j + 1)) = sumQ n (fun j => g (j + 1)) :=
        sumQ_congr (fun j _ => by simp)
      rw [this]; simp; ring
    | succ p =>
      have hp' : p < n := Nat.lt_of_succ_lt_succ hp
      rw [ih (fun j => g (j + 1)) hp']
      have : sumQ n (fun j => if j + 1 = p + 1 then 0 else g (j + 1))
          = sumQ n (fun j => if j = p then 0 else g (j + 1)) :=
        sumQ_congr (fun j _ => by simp)
      rw [this]; simp; ring

/-- `dotQ` against the values of a list of variables -/
theorem dotQ_eq_sumQ {n : Nat} (r : List Int) {l : List Nat} (v : Nat → ℚ) (hl : l.length = n) :
    dotQ r (l.map v) = sumQ n (fun j => (rget r j : ℚ) * v (natGet l j)) := by
  induction n generalizing r l with
  | zero =>
    cases l with
    | nil => cases r <;> simp [dotQ, sumQ]
    | cons x xs => simp at hl
  | succ n ih =>
    cases l with
    | nil => simp at hl
    | cons x xs =>
      cases r with
      | nil =>
        have : sumQ (n + 1) (fun j => ((rget [] j : Int) : ℚ) * v (natGet (x :: xs) j))
            = sumQ (n + 1) (fun _ => 0) :=
          sumQ_congr (fun j _ => by rw [rget_nil]; simp)
        rw [this, sumQ_zero]; simp [dotQ]
      | cons a as =>
        simp only [List.map_cons, dotQ]
        unfold sumQ
        rw [ih as (by simpa using hl)]
        simp only [rget_cons_zero, rget_cons_succ]
        rfl

/-- a row of the tableau over ℚ, as an explicit sum -/
theorem rowHoldsQ_iff_sum (nd : SolNode) (v : Nat → ℚ) (q : List Int) {n : Nat}
    (hvc : nd.varColumn.length = n) (i : Nat) :
    RowHoldsQ nd v q i ↔
      (nd.tab.den : ℚ) * v (natGet nd.varRow i)
        = sumQ n (fun j => (mget nd.tab.s i j : ℚ) * v (natGet nd.varColumn j))
          + ((dot (mrow nd.tab.t i) q : Int) : ℚ) := by
  unfold RowHoldsQ
  rw [dotQ_eq_sumQ _ v hvc]; rfl

end PPLV.PIPCore.Piv
