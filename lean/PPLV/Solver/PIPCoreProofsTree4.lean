import PPLV.Solver.PIPCoreProofsTree3
/-!
# C07 core — tree family, part 4: the converse bridge, under scoping and exact divisibility

`CTree.ScopedC c n`: every row of the tree fits the column vector it is read at (`n` columns at the node's
entry; each artificial parameter adds one).  `CTree.ExactAt c q`: at the solution node the vector `q` is
routed to, the denominator divides every parametric value.  Under both, the public semantics of the tree
shown to the user and the solver-side evaluation agree completely (`resToTree_eval_eq`).
-/
namespace PPLV.PIPCore
open PPLV.PIP (Tree QAff PCon Aff Rel Result dotI evalArts evalCons evalVals)

/-- each artificial parameter mentions only the columns that exist when it is declared -/
def ArtsScopedC : List ArtP → Nat → Prop
  | [], _ => True
  | a :: as, n => a.num.length ≤ n ∧ ArtsScopedC as (n + 1)

/-- the rows of a solution node that define problem variables -/
def SolNode.valRows (nd : SolNode) : List Row :=
  ((List.range nd.tab.ns).filter fun k => !boolGet nd.basis k).map fun k =>
    mrow nd.tab.t (natGet nd.mapping k)

/-- all rows of the tree are scoped; `n` = number of columns of the vector at the node's entry -/
def CTree.ScopedC : CTree → Nat → Prop
  | .sol nd, n =>
    ArtsScopedC nd.arts n ∧ RowsLe nd.cons (n + nd.arts.length) ∧ RowsLe nd.valRows (n + nd.arts.length)
  | .dec arts cons t none, n =>
    ArtsScopedC arts n ∧ RowsLe cons (n + arts.length) ∧ t.ScopedC (n + arts.length)
  | .dec arts cons t (some f), n =>
    ArtsScopedC arts n ∧ RowsLe cons (n + arts.length) ∧ t.ScopedC (n + arts.length)
      ∧ f.ScopedC (n + arts.length)

/-- the solution node `q` is routed to (if any) has integral parametric values at `q` -/
def CTree.ExactAt : CTree → List Int → Prop
  | .sol nd, q =>
    consHold nd.cons (extendArts nd.arts q) = true →
      ∀ r ∈ nd.valRows, nd.tab.den ∣ dot r (extendArts nd.arts q)
  | .dec arts cons t none, q =>
    consHold cons (extendArts arts q) = true → t.ExactAt (extendArts arts q)
  | .dec arts cons t (some f), q =>
    if consHold cons (extendArts arts q) = true then t.ExactAt (extendArts arts q)
    else f.ExactAt (extendArts arts q)

/-- scoping and exactness together -/
def CTree.WellFormedC (c : CTree) (q : List Int) : Prop := c.ScopedC q.length ∧ c.ExactAt q

namespace TreeP

theorem evalArts_of_scoped : ∀ (arts : List ArtP) (env : List Int),
    ArtsScopedC arts (env.length + 1) →
    ∃ env', evalArts (arts.map ArtP.toQAff) env = some env' ∧ extendArts arts (1 :: env) = 1 :: env'
  | [], env, _ => ⟨env, rfl, rfl⟩
  | a :: as, env, h => by
    obtain ⟨h1, h2⟩ := h
    have hv : (ArtP.toQAff a).num.eval env = some (dot a.num (1 :: env)) := rowAff_eval_of_le h1
    have h2' : ArtsScopedC as ((env ++ [Int.fdiv (dot a.num (1 :: env)) a.den]).length + 1) := by
      rw [List.length_append]; exact h2
    obtain ⟨env', he, hx⟩ := evalArts_of_scoped as _ h2'
    refine ⟨env', ?_, ?_⟩
    · simp only [List.map_cons, evalArts]
      rw [hv]
      exact he
    · show extendArts as ((1 :: env) ++ [Int.fdiv (dot a.num (1 :: env)) a.den]) = 1 :: env'
      exact hx

theorem evalCons_of_le : ∀ (cons : List Row) (env : List Int), RowsLe cons (env.length + 1) →
    evalCons (cons.map consToPCon) env = some (consHold cons (1 :: env))
  | [], _, _ => rfl
  | r :: rs, env, h => by
    have hv : (consToPCon r).e.eval env = some (dot r (1 :: env)) :=
      rowAff_eval_of_le (h r (by simp))
    have ih := evalCons_of_le rs env (fun r' hr' => h r' (by simp [hr']))
    simp only [List.map_cons, evalCons]
    rw [hv, ih, consHold_cons]
    rfl

theorem evalVals_of_exact (nd : SolNode) (env : List Int) : ∀ (l : List Nat),
    (∀ k ∈ l, boolGet nd.basis k = false →
      (mrow nd.tab.t (natGet nd.mapping k)).length ≤ env.length + 1 ∧
      nd.tab.den ∣ dot (mrow nd.tab.t (natGet nd.mapping k)) (1 :: env)) →
    evalVals (l.map fun k =>
        if boolGet nd.basis k then (⟨⟨[], 0⟩, 1⟩ : QAff)
        else ⟨rowAff (mrow nd.tab.t (natGet nd.mapping k)), nd.tab.den⟩) env
      = .point (l.map fun k =>
        if boolGet nd.basis k then 0
        else dot (mrow nd.tab.t (natGet nd.mapping k)) (1 :: env) / nd.tab.den)
  | [], _ => rfl
  | k :: ks, h => by
    have ih := evalVals_of_exact nd env ks (fun k' hk' => h k' (by simp [hk']))
    rw [List.map_cons, List.map_cons]
    cases hb : boolGet nd.basis k with
    | true =>
      simp only [if_true]
      have hv : (⟨[], 0⟩ : Aff).eval env = some 0 := by
        unfold Aff.eval
        have hs : (⟨[], 0⟩ : Aff).scoped env.length = true := by
          show ((List.drop env.length ([] : List Int)).all fun x => x == 0) = true
          rw [List.drop_nil]; rfl
        rw [if_pos hs]
        cases env <;> rfl
      simp only [evalVals]
      rw [hv]
      simp only
      rw [ih]
      rfl
    | false =>
      simp only [Bool.false_eq_true, if_false]
      obtain ⟨hlen, hdvd⟩ := h k (by simp) hb
      have hv := rowAff_eval_of_le (r := mrow nd.tab.t (natGet nd.mapping k)) (env := env) hlen
      simp only [evalVals]
      rw [hv]
      simp only
      have hm : dot (mrow nd.tab.t (natGet nd.mapping k)) (1 :: env) % nd.tab.den = 0 :=
        Int.emod_eq_zero_of_dvd hdvd
      rw [hm, ih]
      rfl

theorem mem_valRows {nd : SolNode} {k : Nat} (hk : k < nd.tab.ns) (hb : boolGet nd.basis k = false) :
    mrow nd.tab.t (natGet nd.mapping k) ∈ nd.valRows := by
  unfold SolNode.valRows
  apply List.mem_map.mpr
  refine ⟨k, ?_, rfl⟩
  apply List.mem_filter.mpr
  exact ⟨List.mem_range.mpr hk, by rw [hb]; rfl⟩

/-- the answer of the public semantics that corresponds to a solver-side value -/
def ofOption : Option (List Int) → Result
  | none => .bottom
  | some x => .point x

theorem toTree_eval_eq : ∀ (c : CTree) (θ : List Int),
    c.ScopedC (θ.length + 1) → c.ExactAt (1 :: θ) → c.toTree.eval θ = ofOption (c.evalC (1 :: θ))
  | .sol nd, θ, hs, hx => by
    obtain ⟨hsa, hsc, hsv⟩ := hs
    obtain ⟨env', hA, hE⟩ := evalArts_of_scoped nd.arts θ hsa
    have hlen : env'.length + 1 = θ.length + 1 + nd.arts.length := by
      have := extendArts_length nd.arts (1 :: θ)
      rw [hE] at this
      simpa using this
    have hC := evalCons_of_le nd.cons env' (by rw [hlen]; exact hsc)
    simp only [CTree.ExactAt] at hx
    rw [hE] at hx
    simp only [CTree.toTree, Tree.eval, CTree.evalC]
    rw [hA, hE]
    simp only
    rw [hC]
    cases hb : consHold nd.cons (1 :: env') with
    | false => rfl
    | true =>
      simp only [if_true]
      have := evalVals_of_exact nd env' (List.range nd.tab.ns) (fun k hk hbk => by
        have hm := mem_valRows (List.mem_range.mp hk) hbk
        exact ⟨by rw [hlen]; exact hsv _ hm, hx hb _ hm⟩)
      exact this
  | .dec arts cons t none, θ, hs, hx => by
    obtain ⟨hsa, hsc, hst⟩ := hs
    obtain ⟨env', hA, hE⟩ := evalArts_of_scoped arts θ hsa
    have hlen : env'.length + 1 = θ.length + 1 + arts.length := by
      have := extendArts_length arts (1 :: θ)
      rw [hE] at this
      simpa using this
    have hC := evalCons_of_le cons env' (by rw [hlen]; exact hsc)
    simp only [CTree.ExactAt] at hx
    rw [hE] at hx
    simp only [CTree.toTree, Tree.eval, CTree.evalC]
    rw [hA, hE]
    simp only
    rw [hC]
    cases hb : consHold cons (1 :: env') with
    | false => rfl
    | true =>
      simp only [if_true]
      exact toTree_eval_eq t env' (by rw [hlen]; exact hst) (hx hb)
  | .dec arts cons t (some f), θ, hs, hx => by
    obtain ⟨hsa, hsc, hst, hsf⟩ := hs
    obtain ⟨env', hA, hE⟩ := evalArts_of_scoped arts θ hsa
    have hlen : env'.length + 1 = θ.length + 1 + arts.length := by
      have := extendArts_length arts (1 :: θ)
      rw [hE] at this
      simpa using this
    have hC := evalCons_of_le cons env' (by rw [hlen]; exact hsc)
    simp only [CTree.ExactAt] at hx
    rw [hE] at hx
    simp only [CTree.toTree, Tree.eval, CTree.evalC]
    rw [hA, hE]
    simp only
    rw [hC]
    cases hb : consHold cons (1 :: env') with
    | false =>
      rw [hb] at hx
      simp only [Bool.false_eq_true, if_false] at hx ⊢
      exact toTree_eval_eq f env' (by rw [hlen]; exact hsf) hx
    | true =>
      rw [hb] at hx
      simp only [if_true] at hx ⊢
      exact toTree_eval_eq t env' (by rw [hlen]; exact hst) hx

end TreeP

open TreeP

/-- **(T3, converse and more)** for a scoped tree whose reached solution node is exact at `1 :: θ`, the public
    semantics and the solver-side evaluation agree: a point is the same point, bottom is bottom, and there is
    neither a scope error nor a non-integral value -/
theorem resToTree_eval_eq (r : Option CTree) (θ : List Int)
    (h : ∀ c, r = some c → c.WellFormedC (1 :: θ)) :
    (resToTree r).eval θ = (match evalRes r (1 :: θ) with | some x => .point x | none => .bottom) := by
  cases r with
  | none => rfl
  | some c =>
    obtain ⟨hs, hx⟩ := h c rfl
    have := toTree_eval_eq c θ hs hx
    simp only [resToTree, evalRes]
    rw [this]
    cases c.evalC (1 :: θ) <;> rfl

theorem resToTree_eval_of_evalRes (r : Option CTree) (θ x : List Int)
    (h : ∀ c, r = some c → c.WellFormedC (1 :: θ)) (hx : evalRes r (1 :: θ) = some x) :
    (resToTree r).eval θ = .point x := by
  rw [resToTree_eval_eq r θ h, hx]

/-! ### non-vacuity: one tree, both semantics

parameter `p`; root: artificial parameter `a = ⌊p / 2⌋`, test `p - 3 ≥ 0`;
true child: `x = (p + a) / 1`; false child: saved constraint `p - 1 ≥ 0`, `x = (2 p) / 2`, `y` a column
variable -/

/-- the hypotheses of `resToTree_eval_eq` hold for `exTree` at every `p` -/
example (p : Int) : exTree.WellFormedC [1, p] := by
  refine ⟨?_, ?_⟩
  · show (([0, 1] : Row).length ≤ 2 ∧ True) ∧ RowsLe [[-3, 1, 0]] 3 ∧
      (True ∧ RowsLe [] 3 ∧ RowsLe [[0, 1, 1]] 3) ∧ (True ∧ RowsLe [[-1, 1]] 3 ∧ RowsLe [[0, 2, 0]] 3)
    refine ⟨⟨by decide, trivial⟩, ?_, ⟨trivial, (fun _ h => by cases h), ?_⟩, ⟨trivial, ?_, ?_⟩⟩ <;>
      (intro r hr; simp only [List.mem_singleton] at hr; subst hr; decide)
  · simp only [exTree, CTree.ExactAt]
    split
    · intro _ r hr
      have h2 : r ∈ [[(0 : Int), 1, 1]] := hr
      have : r = [0, 1, 1] := by simpa using h2
      subst this
      exact one_dvd _
    · intro _ r hr
      have h2 : r ∈ [[(0 : Int), 2, 0]] := hr
      have : r = [0, 2, 0] := by simpa using h2
      subst this
      exact ⟨p, by simp [exNodeF, extendArts, dot]⟩

/-- without exactness the two semantics differ: the public one reports `nonIntegral` where the solver-side
    evaluation truncates -/
def TreeP.exNodeBad : SolNode :=
  { tab := ⟨[[0]], [[1, 0]], 2, 1, 2⟩, basis := [false], mapping := [0], varRow := [0],
    varColumn := [1], sign := [.positive], big := none, arts := [], cons := [] }

example : (CTree.sol exNodeBad).toTree.eval [0] = .nonIntegral
    ∧ (CTree.sol exNodeBad).evalC [1, 0] = some [0] := by decide

end PPLV.PIPCore
