import PPLV.Solver.PIPCoreProofsMain6
import PPLV.Solver.PIPCoreProofsLex7
/-!
# C07 stage 2 — end-to-end for the REPAIRED solver (`solveGo`, fix of KF-C07-12): both halves

`solveGo_correct`: whenever the repaired `solve` returns (`.done r`, any fuel), then at every parameter vector
the call is responsible for: a point is THE lexicographic minimum, and bottom means that the node has no
feasible (non-negative integer) valuation.
-/
namespace PPLV.PIPCore

/-- what the result must be at `q` -/
def Claim (nd : SolNode) (q : List Int) : Option (List Int) → Prop
  | some x => IsLexMin nd q x
  | none => Infeasible nd q

theorem claim_of_feasible_iff {nd nd' : SolNode} (hns : nd'.tab.ns = nd.tab.ns) {q q' : List Int}
    (h : ∀ v, Feasible nd' v q' ↔ Feasible nd v q) {o : Option (List Int)} : Claim nd' q' o → Claim nd q o := by
  cases o with
  | some x => exact isLexMin_of_feasible_iff hns h
  | none =>
    rintro hinf ⟨v, hv⟩
    exact hinf ⟨v, (h v).mpr hv⟩

theorem claim_congr {nd nd' : SolNode} (h1 : nd'.tab = nd.tab) (h2 : nd'.varRow = nd.varRow)
    (h3 : nd'.varColumn = nd.varColumn) (h4 : nd'.mapping = nd.mapping) {q : List Int} {o : Option (List Int)} :
    Claim nd' q o → Claim nd q o :=
  claim_of_feasible_iff (by rw [h1]) (fun v => feasible_congr h1 h2 h3 h4 v q)

theorem infeasible_congr {nd nd' : SolNode} (h1 : nd'.tab = nd.tab) (h2 : nd'.varRow = nd.varRow)
    (h3 : nd'.varColumn = nd.varColumn) (h4 : nd'.mapping = nd.mapping) {q : List Int} :
    Infeasible nd q → Infeasible nd' q := by
  rintro hinf ⟨v, hv⟩
  exact hinf ⟨v, (feasible_congr h1 h2 h3 h4 v q).mp hv⟩

/-- the invariant of the repaired loop: `Inv'` and "where the node's own constraints fail, the node is infeasible" -/
structure InvR (S : List Int → Prop) (n0 : Nat) (nd : SolNode) (ctx : Mat) : Prop where
  base : Inv' S n0 nd ctx
  inf : ∀ qpre, S qpre → consHold nd.cons (extendArts nd.arts qpre) = false →
    Infeasible nd (extendArts nd.arts qpre)

/-! ### `choosePivotR` -/

theorem choosePivotR_spec (ctl : Ctl) (nd : SolNode) (sg : List RowSign) :
    ∀ (is : List Nat) (st : Option (Nat × Nat)),
      (∀ i ∈ is, i < nd.tab.s.length) →
      (∀ a b, st = some (a, b) → a < nd.tab.s.length ∧
        findLexicoMinimalColumn nd.tab.s nd.mapping nd.basis (mrow nd.tab.s a) 0 = some b) →
      (∀ pi pj, choosePivotR ctl nd sg is st = .found pi pj →
        pi < nd.tab.s.length ∧
          findLexicoMinimalColumn nd.tab.s nd.mapping nd.basis (mrow nd.tab.s pi) 0 = some pj) ∧
      (∀ i, choosePivotR ctl nd sg is st = .stuck i →
        i < nd.tab.s.length ∧ hasPositive (mrow nd.tab.s i) = false) := by
  intro is
  induction is with
  | nil =>
    intro st _ hst
    cases st with
    | none => exact ⟨fun _ _ h => by simp [choosePivotR] at h, fun _ h => by simp [choosePivotR] at h⟩
    | some p =>
      obtain ⟨a, b⟩ := p
      refine ⟨fun pi pj h => ?_, fun _ h => by simp [choosePivotR] at h⟩
      simp only [choosePivotR] at h
      injection h with h1 h2
      subst h1; subst h2
      exact hst a b rfl
  | cons i is ih =>
    intro st his hst
    have hi : i < nd.tab.s.length := his i (List.mem_cons_self ..)
    have his' : ∀ k ∈ is, k < nd.tab.s.length := fun k hk => his k (List.mem_cons_of_mem _ hk)
    by_cases hs : signGet sg i ≠ .negative
    · rw [choosePivotR, if_pos hs]
      exact ih st his' hst
    · rw [choosePivotR, if_neg hs]
      cases hj : findLexicoMinimalColumn nd.tab.s nd.mapping nd.basis (mrow nd.tab.s i) 0 with
      | none =>
        refine ⟨fun _ _ h => by simp at h, fun k h => ?_⟩
        injection h with h
        subst h
        exact ⟨hi, flmc_none_no_positive _ _ _ _ hj⟩
      | some j =>
        have hnew : ∀ a b, (some (i, j) : Option (Nat × Nat)) = some (a, b) → a < nd.tab.s.length ∧
            findLexicoMinimalColumn nd.tab.s nd.mapping nd.basis (mrow nd.tab.s a) 0 = some b := by
          intro a b hab
          injection hab with hab
          injection hab with ha hb
          subst ha; subst hb
          exact ⟨hi, hj⟩
        have key : ∀ (better : Bool),
            (∀ pi pj, (if better = true then
                (if ctl.piv = 0 then PivR.found i j else choosePivotR ctl nd sg is (some (i, j)))
              else choosePivotR ctl nd sg is st) = .found pi pj →
              pi < nd.tab.s.length ∧
                findLexicoMinimalColumn nd.tab.s nd.mapping nd.basis (mrow nd.tab.s pi) 0 = some pj) ∧
            (∀ k, (if better = true then
                (if ctl.piv = 0 then PivR.found i j else choosePivotR ctl nd sg is (some (i, j)))
              else choosePivotR ctl nd sg is st) = .stuck k →
              k < nd.tab.s.length ∧ hasPositive (mrow nd.tab.s k) = false) := by
          intro better
          cases better with
          | true =>
            simp only [if_true]
            by_cases hp : ctl.piv = 0
            · rw [if_pos hp]
              refine ⟨fun pi pj h => ?_, fun _ h => by simp at h⟩
              injection h with h1 h2
              subst h1; subst h2
              exact ⟨hi, hj⟩
            · rw [if_neg hp]
              exact ih _ his' hnew
          | false =>
            simp only [Bool.false_eq_true, if_false]
            exact ih st his' hst
        exact key _

/-- `findINeg` returns a mixed row without positive variable coefficient -/
theorem findINeg_spec2 (T : Tableau) (sg : List RowSign) :
    ∀ (is : List Nat) (st : Option (Nat × Int)) (i : Nat) (sc : Int),
      (∀ a b, st = some (a, b) → hasPositive (mrow T.s a) = false) →
      findINeg T sg is st = some (i, sc) → hasPositive (mrow T.s i) = false := by
  intro is
  induction is with
  | nil =>
    intro st i sc hst h
    simp only [findINeg] at h
    exact hst i sc h
  | cons a is ih =>
    intro st i sc hst h
    by_cases hm : signGet sg a ≠ .mixed
    · rw [findINeg, if_pos hm] at h
      exact ih st i sc hst h
    · rw [findINeg, if_neg hm] at h
      by_cases hp : hasPositive (mrow T.s a) = true
      · rw [if_pos hp] at h
        exact ih st i sc hst h
      · rw [if_neg hp] at h
        have hp' : hasPositive (mrow T.s a) = false := by
          cases hh : hasPositive (mrow T.s a) with
          | true => exact absurd hh hp
          | false => rfl
        have hnew : ∀ (s : Int) a' b, (some (a, s) : Option (Nat × Int)) = some (a', b) →
            hasPositive (mrow T.s a') = false := by
          intro s a' b hab
          injection hab with hab
          injection hab with ha _
          subst ha
          exact hp'
        dsimp only at h
        split at h
        · exact ih _ i sc (hnew _) h
        · split at h
          · exact ih _ i sc (hnew _) h
          · exact ih _ i sc hst h

end PPLV.PIPCore
