import PPLV.Solver.PIPCoreSem
import Mathlib.Tactic.Linarith
import Mathlib.Tactic.Ring
/-!
# C07 stage 2 — the lexicographic invariant, part 1: the basic solution of a node whose columns are
lexico-non-negative is the lexicographic minimum of the feasible valuations (`lex_basic_min`,
alias `solution_node_correct`).
-/
namespace PPLV.PIPCore

/-! ### small lemmas on `rget`, `dot`, unit rows -/

theorem Lex.rget_nil (j : Nat) : rget [] j = 0 := by simp [rget]
theorem Lex.rget_cons_zero (a : Int) (r : Row) : rget (a :: r) 0 = a := by simp [rget]
theorem Lex.rget_cons_succ (a : Int) (r : Row) (j : Nat) : rget (a :: r) (j + 1) = rget r j := by
  simp [rget]

theorem Lex.rget_of_le (r : Row) (j : Nat) (h : r.length ≤ j) : rget r j = 0 := by
  unfold rget; rw [List.getD_eq_getElem?_getD, List.getElem?_eq_none h]; rfl

theorem Lex.dot_nil_left (y : List Int) : dot [] y = 0 := by cases y <;> rfl
theorem Lex.dot_nil_right (r : List Int) : dot r [] = 0 := by cases r <;> rfl
theorem Lex.dot_cons (a x : Int) (r y : List Int) : dot (a :: r) (x :: y) = a * x + dot r y := rfl

/-- a scalar product of a non-negative vector with a row that is non-negative where the vector is
    positive: it is non-negative, and zero only if the row vanishes where the vector is positive -/
theorem Lex.dot_nonneg_aux : ∀ (r y : List Int), (∀ j, 0 ≤ rget y j) →
    (∀ j, 0 < rget y j → 0 ≤ rget r j) →
    0 ≤ dot r y ∧ (dot r y = 0 → ∀ j, 0 < rget y j → rget r j = 0)
  | [], y, _, _ => ⟨by rw [Lex.dot_nil_left], fun _ j _ => Lex.rget_nil j⟩
  | a :: as, [], _, _ => ⟨by rw [Lex.dot_nil_right], fun _ j h => by rw [Lex.rget_nil] at h; omega⟩
  | a :: as, x :: xs, hy, hr => by
    have hx : 0 ≤ x := by have := hy 0; rwa [Lex.rget_cons_zero] at this
    have hys : ∀ j, 0 ≤ rget xs j := fun j => by
      have := hy (j + 1); rwa [Lex.rget_cons_succ] at this
    have hrs : ∀ j, 0 < rget xs j → 0 ≤ rget as j := fun j h => by
      have := hr (j + 1); rw [Lex.rget_cons_succ, Lex.rget_cons_succ] at this; exact this h
    obtain ⟨ih1, ih2⟩ := Lex.dot_nonneg_aux as xs hys hrs
    have hax : 0 ≤ a * x := by
      rcases lt_or_eq_of_le hx with h | h
      · have := hr 0; rw [Lex.rget_cons_zero, Lex.rget_cons_zero] at this
        exact mul_nonneg (this h) hx
      · rw [← h]; simp
    rw [Lex.dot_cons]
    refine ⟨by linarith, fun h0 j hj => ?_⟩
    have h1 : a * x = 0 := by linarith
    have h2 : dot as xs = 0 := by linarith
    cases j with
    | zero =>
      rw [Lex.rget_cons_zero] at hj ⊢
      rcases Int.mul_eq_zero.mp h1 with h | h
      · exact h
      · omega
    | succ j => rw [Lex.rget_cons_succ] at hj ⊢; exact ih2 h2 j hj

theorem Lex.zeroRow_succ (n : Nat) : zeroRow (n + 1) = 0 :: zeroRow n := rfl

theorem Lex.dot_zeroRow : ∀ (n : Nat) (y : List Int), dot (zeroRow n) y = 0
  | 0, y => Lex.dot_nil_left y
  | n + 1, [] => Lex.dot_nil_right _
  | n + 1, x :: xs => by rw [Lex.zeroRow_succ, Lex.dot_cons, Lex.dot_zeroRow n xs]; simp

/-- scalar product with the unit row `d * e_m` -/
theorem Lex.dot_unit : ∀ (n m : Nat) (d : Int) (y : List Int), m < n →
    dot (rset (zeroRow n) m d) y = d * rget y m
  | 0, _, _, _, h => by omega
  | n + 1, m, d, [], _ => by rw [Lex.dot_nil_right, Lex.rget_nil]; simp
  | n + 1, 0, d, x :: xs, _ => by
    rw [Lex.zeroRow_succ]; show dot (d :: zeroRow n) (x :: xs) = _
    rw [Lex.dot_cons, Lex.dot_zeroRow, Lex.rget_cons_zero]; simp
  | n + 1, m + 1, d, x :: xs, h => by
    rw [Lex.zeroRow_succ]; show dot (0 :: rset (zeroRow n) m d) (x :: xs) = _
    rw [Lex.dot_cons, Lex.rget_cons_succ, Lex.dot_unit n m d xs (by omega)]; simp

theorem Lex.rget_map_val (l : List Nat) (v : Nat → Int) (j : Nat) (h : j < l.length) :
    rget (l.map v) j = v (natGet l j) := by
  unfold rget natGet
  rw [List.getD_eq_getElem?_getD, List.getD_eq_getElem?_getD, List.getElem?_map,
    List.getElem?_eq_getElem h]
  rfl

theorem Lex.fullRows_length (nd : SolNode) : (fullRows nd).length = nd.mapping.length := by
  simp [fullRows]

theorem Lex.fullRows_getD (nd : SolNode) (k : Nat) (h : k < nd.mapping.length) :
    (fullRows nd).getD k [] = fullRow nd k := by
  unfold fullRows
  rw [List.getD_eq_getElem?_getD, List.getElem?_map, List.getElem?_range h]
  rfl

/-! ### the core induction -/

/-- if every variable `k ..` satisfies `den * v = row · y + den * b` with `y ≥ 0` and the columns of the
    rows where `y` is positive are lexico-non-negative, then `b ≤_lex v` -/
theorem Lex.lex_core (den : Int) (hden : 0 < den) (y : List Int) (hy : ∀ j, 0 ≤ rget y j) :
    ∀ (rows : List Row) (k : Nat) (b v : Nat → Int),
      (∀ j, 0 < rget y j → LexNonnegCol rows j) →
      (∀ i, i < rows.length → den * v (k + i) = dot (rows.getD i []) y + den * b (k + i)) →
      lexLeFrom b v k rows.length
  | [], _, _, _, _, _ => trivial
  | r :: rs, k, b, v, hl, he => by
    have h0 := he 0 (by simp)
    simp only [Nat.add_zero, List.getD_cons_zero] at h0
    have hr : ∀ j, 0 < rget y j → 0 ≤ rget r j := fun j hj => by
      rcases hl j hj with h | ⟨h, _⟩ <;> omega
    obtain ⟨d1, d2⟩ := Lex.dot_nonneg_aux r y hy hr
    show b k < v k ∨ (b k = v k ∧ lexLeFrom b v (k + 1) rs.length)
    have hle : den * b k ≤ den * v k := by linarith
    have hbv : b k ≤ v k := le_of_mul_le_mul_left hle hden
    rcases lt_or_eq_of_le hbv with h | h
    · exact Or.inl h
    · refine Or.inr ⟨h, Lex.lex_core den hden y hy rs (k + 1) b v ?_ ?_⟩
      · intro j hj
        have hz : dot r y = 0 := by rw [h] at h0; linarith
        rcases hl j hj with h' | ⟨_, h'⟩
        · have := d2 hz j hj; omega
        · exact h'
      · intro i hi
        have := he (i + 1) (by simp only [List.length_cons]; omega)
        have e : k + (i + 1) = k + 1 + i := by omega
        rw [e, List.getD_cons_succ] at this
        exact this

/-- prefix of a lexicographic order -/
theorem lexLeFrom_prefix (b v : Nat → Int) : ∀ (n m k : Nat), m ≤ n →
    lexLeFrom b v k n → lexLeFrom b v k m
  | _, 0, _, _, _ => trivial
  | 0, m + 1, _, h, _ => by omega
  | n + 1, m + 1, k, h, hl => by
    rcases hl with h' | ⟨h1, h2⟩
    · exact Or.inl h'
    · exact Or.inr ⟨h1, lexLeFrom_prefix b v n m (k + 1) (by omega) h2⟩

/-! ### the value of every variable in terms of the column variables -/

/-- `den * v k = fullRow k · y + den * b k` where `y` are the values of the column variables -/
theorem Lex.var_eq_fullRow (nd : SolNode) (v b : Nat → Int) (q : List Int) (hwf : WF nd)
    (hf : Feasible nd v q) (hb : IsBasic nd b q) (k : Nat) (hk : k < nd.mapping.length) :
    nd.tab.den * v k = dot (fullRow nd k) (nd.varColumn.map v) + nd.tab.den * b k := by
  obtain ⟨mo1, mo2⟩ := hwf.map_ok k hk
  obtain ⟨b1, b2⟩ := hb k hk
  unfold fullRow
  cases hbk : boolGet nd.basis k with
  | true =>
    obtain ⟨hm, hvc⟩ := mo1 hbk
    simp only [if_true]
    rw [Lex.dot_unit _ _ _ _ hm, Lex.rget_map_val _ _ _ (by rw [hwf.vc_len]; exact hm), hvc, b1 hbk]
    simp
  | false =>
    obtain ⟨hm, hvr⟩ := mo2 hbk
    simp only [Bool.false_eq_true, if_false]
    have hrow := hf.1 _ hm
    unfold RowHolds at hrow
    rw [hvr] at hrow
    rw [b2 hbk, hrow]

theorem Lex.colvals_nonneg (nd : SolNode) (v : Nat → Int) (q : List Int) (hwf : WF nd)
    (hf : Feasible nd v q) (j : Nat) : 0 ≤ rget (nd.varColumn.map v) j := by
  by_cases hj : j < nd.varColumn.length
  · rw [Lex.rget_map_val _ _ _ hj]
    exact hf.2 _ (hwf.vc_ok j (by rw [← hwf.vc_len]; exact hj)).1
  · rw [Lex.rget_of_le _ _ (by simp only [List.length_map]; omega)]

/-- **`lex_basic_min`**: with lexico-non-negative columns, the basic solution of a node is
    lexicographically below every feasible valuation of the node (all variables, in index order). -/
theorem lex_basic_min (nd : SolNode) (v b : Nat → Int) (q : List Int) :
    WF nd → LexPos nd → q.length = nd.tab.nt → Feasible nd v q → IsBasic nd b q →
    lexLeFrom b v 0 nd.mapping.length := by
  intro hwf hlp _ hf hb
  have := Lex.lex_core nd.tab.den hwf.den_pos (nd.varColumn.map v) (Lex.colvals_nonneg nd v q hwf hf)
    (fullRows nd) 0 b v
    (fun j hj => by
      apply hlp j
      by_contra hge
      rw [Lex.rget_of_le _ _ (by simp only [List.length_map]; rw [hwf.vc_len]; omega)] at hj
      omega)
    (fun i hi => by
      rw [Lex.fullRows_length] at hi
      rw [Lex.fullRows_getD nd i hi, Nat.zero_add]
      exact Lex.var_eq_fullRow nd v b q hwf hf hb i hi)
  rw [Lex.fullRows_length] at this
  exact this

/-- the name used in the design: what a solution node returns is the lexicographic minimum -/
theorem solution_node_correct (nd : SolNode) (v b : Nat → Int) (q : List Int) :
    WF nd → LexPos nd → q.length = nd.tab.nt → Feasible nd v q → IsBasic nd b q →
    lexLeFrom b v 0 nd.mapping.length := lex_basic_min nd v b q

/-- corollary for any prefix of the variables (e.g. the problem variables only) -/
theorem lex_basic_min_prefix (nd : SolNode) (v b : Nat → Int) (q : List Int) (n : Nat) :
    WF nd → LexPos nd → q.length = nd.tab.nt → Feasible nd v q → IsBasic nd b q →
    n ≤ nd.mapping.length → lexLeFrom b v 0 n := fun hwf hlp hq hf hb hn =>
  lexLeFrom_prefix b v _ _ 0 hn (lex_basic_min nd v b q hwf hlp hq hf hb)

/-! ### decidability on concrete data, and a non-vacuity example -/

instance Lex.decLexNonnegCol : ∀ (rows : List Row) (j : Nat), Decidable (LexNonnegCol rows j)
  | [], _ => isTrue trivial
  | r :: rs, j =>
    have := Lex.decLexNonnegCol rs j
    (inferInstance : Decidable (0 < rget r j ∨ (rget r j = 0 ∧ LexNonnegCol rs j)))

instance Lex.decLexLeScaled : ∀ (rows : List Row) (a : Int) (j : Nat) (b : Int) (j' : Nat),
    Decidable (LexLeScaled rows a j b j')
  | [], _, _, _, _ => isTrue trivial
  | r :: rs, a, j, b, j' =>
    have := Lex.decLexLeScaled rs a j b j'
    (inferInstance : Decidable (a * rget r j < b * rget r j' ∨
      (a * rget r j = b * rget r j' ∧ LexLeScaled rs a j b j')))

instance Lex.decLexPos (nd : SolNode) : Decidable (LexPos nd) :=
  (inferInstance : Decidable (∀ j, j < nd.tab.ns → LexNonnegCol (fullRows nd) j))

instance Lex.decLexMinCol (nd : SolNode) (pi pj : Nat) : Decidable (LexMinCol nd pi pj) :=
  (inferInstance : Decidable (pj < nd.tab.ns ∧ 0 < mget nd.tab.s pi pj ∧
    ∀ j, j < nd.tab.ns → 0 < mget nd.tab.s pi j →
      LexLeScaled (fullRows nd) (mget nd.tab.s pi j) pj (mget nd.tab.s pi pj) j))

instance Lex.decLexLeFrom (v w : Nat → Int) : ∀ (k n : Nat), Decidable (lexLeFrom v w k n)
  | _, 0 => isTrue trivial
  | k, n + 1 =>
    have := Lex.decLexLeFrom v w (k + 1) n
    (inferInstance : Decidable (v k < w k ∨ (v k = w k ∧ lexLeFrom v w (k + 1) n)))

/-- `x2 = 2*x0 + x1 - 3` over den 1... as a node: two column variables 0, 1 and the row variable 2 with
    `2 * x2 = 2*x0 + 4*x1 + 6` (den 2), no parameter -/
def Lex.exNodeA : SolNode :=
  { tab := { s := [[2, 4]], t := [[6]], den := 2, ns := 2, nt := 1 }
    basis := [true, true, false], mapping := [0, 1, 0], varRow := [2], varColumn := [0, 1]
    sign := [.positive], big := none, arts := [], cons := [] }

theorem Lex.exNodeA_wf : WF Lex.exNodeA :=
  ⟨by decide, by decide, by decide, by decide, by decide, by decide, by decide, by decide, by decide,
   by decide, by decide, by decide⟩

theorem Lex.exNodeA_lexpos : LexPos Lex.exNodeA := by decide

/-- non-vacuity of `lex_basic_min`: basic solution `(0, 0, 3)`, feasible valuation `(1, 0, 4)` -/
example : WF Lex.exNodeA ∧ LexPos Lex.exNodeA ∧ [1].length = Lex.exNodeA.tab.nt
    ∧ Feasible Lex.exNodeA (fun k => [1, 0, 4].getD k 0) [1]
    ∧ IsBasic Lex.exNodeA (fun k => [0, 0, 3].getD k 0) [1]
    ∧ lexLeFrom (fun k => [0, 0, 3].getD k 0) (fun k => [1, 0, 4].getD k 0) 0 3 := by
  refine ⟨Lex.exNodeA_wf, Lex.exNodeA_lexpos, rfl, ⟨?_, ?_⟩, ?_, ?_⟩
  · unfold TabSat RowHolds; decide
  · decide
  · unfold IsBasic; decide
  · exact lex_basic_min Lex.exNodeA _ _ [1] Lex.exNodeA_wf Lex.exNodeA_lexpos rfl
      ⟨by unfold TabSat RowHolds; decide, by decide⟩ (by unfold IsBasic; decide)

end PPLV.PIPCore
