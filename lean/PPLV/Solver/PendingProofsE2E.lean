import PPLV.Solver.PendingProofsPhase1
import PPLV.Solver.PendingProofsObj
import PPLV.Solver.PendingProofsFresh

/-!
# C06 stage 3 — end to end: `is_lp_satisfiable()` and `second_phase()` on a problem never solved before

`ppc_fresh`: what `process_pending_constraints()` leaves for a fresh problem: UNSATISFIABLE with an empty
solution set; or (no tableau row) a solved status with a non-empty solution set; or SATISFIABLE with a `Ready`
state: a feasible basis whose non-negative solutions (zero from the sign column on) are exactly the encodings of
the solution set of the constraints.
`lp_fresh_correct`: the answers of `is_lp_satisfiable()` + `second_phase()` are right.
-/
namespace PPLV.Solver.Pend
open PPLV.Lin PPLV.Solver.Tab

/-- valuations the tableau of a solved state speaks about -/
def Pos0 (n : Nat) (y : Val) : Prop := y 0 = 1 ∧ (∀ j, 1 ≤ j → 0 ≤ y j) ∧ ∀ j, n - 1 ≤ j → y j = 0

theorem Pos0.nonnegPt {n : Nat} {y : Val} (h : Pos0 n y) : NonnegPt n y :=
  ⟨h.1, h.2.2 _ (le_refl _), fun j hj _ => h.2.1 j hj⟩

def trunc (n : Nat) (y : Val) : Val := fun j => if j < n then y j else 0

theorem dot_trunc (r : List Int) (n : Nat) (y : Val) (h : ∀ j, j < r.length → n ≤ j → y j = 0) :
    dot r (trunc n y) = dot r y := by
  apply dot_congr_lt
  intro u hu
  unfold trunc
  split
  · rfl
  · exact (h u hu (by omega)).symm

/-- a SATISFIABLE state ready for the second phase -/
structure Ready (cs : List ICon) (n : Nat) (sR : LPState) : Prop where
  tb : CanonTB sR.tableau sR.base sR.working_cost.length
  map : ∃ nn j, MapOK sR.mapping nn n j ∧ 1 + j ≤ sR.working_cost.length - 1
  sound : ∀ y, Pos0 sR.working_cost.length y → Sol sR.tableau y → csSem cs (proj sR.mapping y)
  complete : ∀ x, csSem cs x →
    ∃ y, Pos0 sR.working_cost.length y ∧ Sol sR.tableau y ∧ ∀ i, i < n → proj sR.mapping y i = x i

/-- the mapping and the data the set-up keeps -/
theorem setup_phase1_extra (s : LPState) (hF : Fresh s) (s' : LPState) (b e : Nat)
    (h : ppcSetup s = .phase1 s' b e) :
    (∃ nn j, MapOK s'.mapping nn s.external_space_dim j ∧ 1 + j ≤ artStart b s'.numCols) ∧
    s'.obj = s.obj ∧ s'.maximize = s.maximize ∧ s'.pricing = s.pricing ∧
    s'.external_space_dim = s.external_space_dim := by
  cases hp : parseConstraints s with
  | none =>
    exfalso
    have : ppcSetup s = .done { s with status := .UNSATISFIABLE } := by
      unfold ppcSetup; rw [ppcRecompute_fresh hF]; simp only [hp]
    rw [this] at h; cases h
  | some p =>
    obtain ⟨C, c1, c2, c3, H1, H2, hnc, s0, hs0, f1, f2, f3, f4, f5, f6, f7, f8, f9, -⟩ := fresh_ctx s hF p hp
    rcases ppcTrivial_cases s0 (if (C.N - C.isSat.count true) > 0 then C.SL else 0) C.artOut.2.2.2
        (by rw [f6]; exact hF.npos) with ⟨hph, -⟩ | ⟨sd, hd, -⟩
    swap
    · rw [hs0, hd] at h; cases h
    rw [hs0, hph] at h
    simp only [Setup.phase1.injEq] at h
    obtain ⟨rfl, rfl, rfl⟩ := h
    have hstart : artStart (if (C.N - C.isSat.count true) > 0 then C.SL else 0) s0.numCols = C.SL := by
      unfold artStart
      rw [f4]
      by_cases ha : (C.N - C.isSat.count true) > 0
      · rw [if_pos ha, if_pos (by unfold InsCtx.SL InsCtx.V; omega)]
      · rw [if_neg ha, if_neg (by simp)]; rw [hnc]; omega
    refine ⟨⟨C.nn, C.j, by rw [f5, ← c2]; exact C.hM, by rw [hstart]; unfold InsCtx.SL InsCtx.V; omega⟩, f7, f8, f9, f6⟩

theorem ppcTrivial_done_status (s : LPState) (b e : Nat) (s' : LPState) (h : ppcTrivial s b e = .done s') :
    s'.status = .OPTIMIZED ∨ s'.status = .UNBOUNDED := by
  unfold ppcTrivial at h
  split at h
  · simp only [Setup.done.injEq] at h; subst h; exact Or.inl rfl
  · split at h
    · split at h
      · simp only [Setup.done.injEq] at h; subst h; exact Or.inr rfl
      · simp only [Setup.done.injEq] at h; subst h; exact Or.inl rfl
    · cases h

theorem ppcFinish_unsat (s' : LPState) (b e : Nat) (ok : Bool) (t : Tab) (h : ok = false ∨ t.cost.get 0 ≠ 0) :
    (ppcFinish s' b e ok t).status = .UNSATISFIABLE := by
  unfold ppcFinish
  have : (!ok || t.cost.get 0 != 0) = true := by
    rcases h with h | h
    · rw [h]; rfl
    · have : (t.cost.get 0 != 0) = true := bne_iff_ne.mpr h
      rw [this]; simp
  simp only [this, if_true]

theorem ppcFinish_sat (s' : LPState) (b e : Nat) (t : Tab) (h : t.cost.get 0 = 0) :
    ppcFinish s' b e true t =
      { computeGenerator (if b != 0 then
          { (s'.withTab t).withTab (eraseArtificials b e (s'.withTab t).numCols t).1 with
            numCols := (eraseArtificials b e (s'.withTab t).numCols t).2 }
        else s'.withTab t) with status := .SATISFIABLE } := by
  unfold ppcFinish
  have : (!true || t.cost.get 0 != 0) = false := by rw [h]; rfl
  simp only [this, Bool.false_eq_true, if_false]

/-- **what `process_pending_constraints()` leaves for a fresh, never solved problem** -/
theorem ppc_fresh (fc : Chooser) (hfc : ChooserOK fc) (fuel : Nat) (s sR : LPState) (hF : Fresh s)
    (hlg : s.last_generator = ⟨[], 1⟩) (h : processPendingConstraints fc fuel s = some sR) :
    (sR.status = .UNSATISFIABLE ∧ ∀ x, ¬ csSem s.input_cs x) ∨
    ((sR.status = .OPTIMIZED ∨ sR.status = .UNBOUNDED) ∧ sR.tableau = [] ∧ ∃ x, csSem s.input_cs x) ∨
    (sR.status = .SATISFIABLE ∧ Ready s.input_cs s.external_space_dim sR ∧
      sR.obj = s.obj ∧ sR.maximize = s.maximize ∧ sR.pricing = s.pricing ∧
      sR.external_space_dim = s.external_space_dim) := by
  obtain ⟨b1i, b1ii, -⟩ := tableau_setup_solutions s hF
  unfold processPendingConstraints at h
  cases hs : ppcSetup s with
  | done sd =>
    rw [hs] at h
    simp only [Option.some.injEq] at h
    subst h
    cases hp : parseConstraints s with
    | none =>
      have : ppcSetup s = .done { s with status := .UNSATISFIABLE } := by
        unfold ppcSetup; rw [ppcRecompute_fresh hF]; simp only [hp]
      rw [this] at hs
      simp only [Setup.done.injEq] at hs
      subst hs
      exact Or.inl ⟨rfl, b1i _ this rfl⟩
    | some p =>
      right; left
      obtain ⟨C, c1, c2, c3, H1, H2, hnc, s0, hs0, f1, f2, f3, f4, f5, f6, -⟩ := fresh_ctx s hF p hp
      rw [hs0] at hs
      have hst := ppcTrivial_done_status _ _ _ _ hs
      rcases ppcTrivial_cases s0 (if (C.N - C.isSat.count true) > 0 then C.SL else 0) C.artOut.2.2.2
          (by rw [f6]; exact hF.npos) with ⟨hph, -⟩ | ⟨sd', hd, d1, d2, d3, d4, d5⟩
      · rw [hph] at hs; cases hs
      · rw [hd] at hs
        simp only [Setup.done.injEq] at hs
        subst hs
        have hT2 : C.T2 (zeros C.numCols) C.fin.base = [] := by
          have : C.artOut.1 = [] := by rw [← f1]; exact d4
          exact this
        obtain ⟨core1, -⟩ := C.setup_core (zeros C.numCols) C.fin.base H1 H2
        refine ⟨hst, by rw [d1]; exact d4, proj C.M (fun j => if j = 0 then 1 else 0), ?_⟩
        rw [← c1]
        apply core1 (fun j => if j = 0 then 1 else 0) rfl (fun j _ => by split <;> norm_num)
        · intro j hj _
          have : 1 ≤ C.SL := by unfold InsCtx.SL InsCtx.V; omega
          rw [if_neg (by omega)]
        · intro i hi; rw [hT2] at hi; simp at hi
  | phase1 s' b e =>
    rw [hs] at h
    simp only at h
    have hP := setup_phase1_canon s hF hlg s' b e hs
    obtain ⟨⟨nn, jj, hMok, hjj⟩, k1, k2, k3, k4⟩ := setup_phase1_extra s hF s' b e hs
    obtain ⟨g1, g2⟩ := b1ii s' b e hs
    cases hrun : computeSimplexWith (chooserOf fc s'.pricing) fuel s'.tab with
    | none => rw [hrun] at h; cases h
    | some res =>
      obtain ⟨ok, t⟩ := res
      rw [hrun] at h
      simp only [Option.some.injEq] at h
      subst h
      obtain ⟨hok, hCt, hlen, hsol, v1, v2⟩ :=
        phase1_verdict _ (chooserOf_ok fc hfc s'.pricing) fuel s' b e hP ok t hrun
      subst hok
      by_cases h0 : t.cost.get 0 = 0
      swap
      · left
        refine ⟨ppcFinish_unsat s' b e true t (Or.inr h0), fun x hx => ?_⟩
        obtain ⟨y, hy, -⟩ := g2 x hx
        exact v1 h0 y hy
      · right; right
        obtain ⟨hbasic, hart⟩ := v2 h0
        rw [ppcFinish_sat s' b e t h0]
        have hn2 : 2 ≤ s'.numCols := by rw [← hlen]; exact hCt.len2
        by_cases hb : b = 0
        · -- no artificial column: the tableau of the first phase is kept
          have hb' : (b != 0) = false := by rw [hb]; rfl
          rw [hb']
          simp only [Bool.false_eq_true, if_false]
          have hstart : artStart b s'.numCols = s'.numCols - 1 := by unfold artStart; rw [hb]; simp
          rw [hstart] at hjj
          refine ⟨by first | rfl | trivial, ⟨?_, ⟨nn, jj, hMok, by simp only [computeGenerator, LPState.withTab]; rw [hlen]; exact hjj⟩, ?_, ?_⟩, k1, k2, k3, k4⟩
          · simp only [computeGenerator, LPState.withTab]; exact hCt.toTB
          · intro y hy hsy
            simp only [computeGenerator, LPState.withTab] at hy hsy ⊢
            rw [hlen] at hy
            apply g1 y ⟨hy.1, hy.2.1, fun j h1 _ => hy.2.2 j (by rw [hstart] at h1; exact h1), (hsol y).mp hsy⟩
          · intro x hx
            obtain ⟨y, ⟨y1, y2, y3, y4⟩, y5⟩ := g2 x hx
            simp only [computeGenerator, LPState.withTab]
            rw [hlen]
            have hz : ∀ j, j < s'.numCols → s'.numCols ≤ j → y j = 0 := fun j h1 h2 => by omega
            refine ⟨trunc s'.numCols y, ⟨?_, fun j hj => ?_, fun j hj => ?_⟩, ?_, fun i hi => ?_⟩
            · unfold trunc; rw [if_pos (by omega)]; exact y1
            · unfold trunc; split
              · exact y2 j hj
              · exact le_refl _
            · unfold trunc; split
              · exact y3 j (by rw [hstart]; exact hj) (by assumption)
              · rfl
            · apply (hsol _).mpr
              intro i hi
              unfold rowVal
              rw [dot_trunc _ _ _ (fun j h1 h2 => by
                have := hP.canon.rowLen i hi
                have e2 : s'.tab.cost.length = s'.numCols := hP.len
                change (s'.tableau.getD i []).length = s'.tab.cost.length at this
                omega)]
              exact y4 i hi
            · rw [← y5 i hi]
              have := proj_congr s'.mapping nn s.external_space_dim jj hMok (trunc s'.numCols y) y (fun col hcol => by
                unfold trunc; rw [if_pos (by omega)])
              rw [this]
        · -- the artificial columns are erased
          have hb' : (b != 0) = true := bne_iff_ne.mpr hb
          rw [hb']
          simp only [if_true]
          obtain ⟨hb1, hbe⟩ := hP.bpos hb
          have hA := hart hb
          have hstart : artStart b s'.numCols = b := by unfold artStart; rw [if_pos hb]
          rw [hstart] at hjj
          have hnumc : (s'.withTab t).numCols = s'.numCols := rfl
          rw [hnumc]
          obtain ⟨e1, e2, e3⟩ := erase_artificials_valid b e s'.numCols t hb1 hbe hP.eEnd hA
          obtain ⟨e4, e5⟩ := eraseArtificials_canonTB b e s'.numCols t hb1 hbe hP.eEnd
            (by rw [← hlen]; exact hCt.toTB) hA hlen
          refine ⟨by first | rfl | trivial, ⟨?_, ⟨nn, jj, hMok, by simp only [computeGenerator, LPState.withTab]; rw [e5]; omega⟩, ?_, ?_⟩, k1, k2, k3, k4⟩
          · simp only [computeGenerator, LPState.withTab]; rw [e5]; exact e4
          · intro y hy hsy
            simp only [computeGenerator, LPState.withTab] at hy hsy ⊢
            rw [e5] at hy
            have hno : NoArt b y := fun j hj => hy.2.2 j (by omega)
            have hs1 := (hsol y).mp ((e3 y hno).mp hsy)
            exact g1 y ⟨hy.1, hy.2.1, fun j h1 _ => hno j (by rw [hstart] at h1; exact h1), hs1⟩
          · intro x hx
            obtain ⟨y, ⟨y1, y2, y3, y4⟩, y5⟩ := g2 x hx
            simp only [computeGenerator, LPState.withTab]
            rw [e5]
            have hno : NoArt b (trunc b y) := fun j hj => by unfold trunc; rw [if_neg (by omega)]
            refine ⟨trunc b y, ⟨?_, fun j hj => ?_, fun j hj => hno j (by omega)⟩, ?_, fun i hi => ?_⟩
            · unfold trunc; rw [if_pos (by omega)]; exact y1
            · unfold trunc; split
              · exact y2 j hj
              · exact le_refl _
            · apply (e3 _ hno).mpr
              apply (hsol _).mpr
              intro i hi
              unfold rowVal
              rw [dot_trunc _ _ _ (fun j h1 h2 => by
                have := hP.canon.rowLen i hi
                have e2' : s'.tab.cost.length = s'.numCols := hP.len
                change (s'.tableau.getD i []).length = s'.tab.cost.length at this
                exact y3 j (by rw [hstart]; exact h2) (by omega))]
              exact y4 i hi
            · rw [← y5 i hi]
              have := proj_congr s'.mapping nn s.external_space_dim jj hMok (trunc b y) y (fun col hcol => by
                unfold trunc; rw [if_pos (by omega)])
              rw [this]

end PPLV.Solver.Pend
