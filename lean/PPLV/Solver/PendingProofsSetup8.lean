import PPLV.Solver.PendingProofsSetup7

/-!
# C06 stage 3 — structure of the tableau set up for a fresh problem (towards `Canon`)

* `step_eq`: one iteration of the insertion loop in closed form (no `linear_combine` in a fresh problem);
* `InvS`: structural invariant of the insertion loop: a row is "worked out" iff its `base` entry is its own slack
  column, where it has coefficient −1, inhomogeneous term ≥ 0, and every other row has 0; the number of worked
  rows is the number of "already satisfied" flags met.
-/
namespace PPLV.Solver.Pend
open PPLV.Lin PPLV.Solver.Tab

namespace InsCtx
variable (C : InsCtx)

/-- one iteration of the insertion loop, in closed form -/
theorem step_eq (i : Nat) (hi : i < C.pend.length) (st : Ins) (h : C.Inv (i+1) st) :
    C.step i st =
      if tabC (C.pend.getD i default) = false then st
      else if (C.pend.getD i default).isEq = true then
        { T := st.T.set (st.k - 1) (constraintRow C.numCols C.M (C.pend.getD i default)), base := st.base,
          k := st.k - 1, slackIndex := st.slackIndex, worked := st.worked }
      else if C.isSat.getD i false = true then
        { T := st.T.set (st.k - 1) ((constraintRow C.numCols C.M (C.pend.getD i default)).set (st.slackIndex - 1) (-1)),
          base := st.base.set (st.k - 1) (st.slackIndex - 1), k := st.k - 1, slackIndex := st.slackIndex - 1,
          worked := st.worked.set (st.k - 1) true }
      else
        { T := st.T.set (st.k - 1) ((constraintRow C.numCols C.M (C.pend.getD i default)).set (st.slackIndex - 1) (-1)),
          base := st.base, k := st.k - 1, slackIndex := st.slackIndex - 1, worked := st.worked } := by
  set c := C.pend.getD i default with hc
  have hcmem : c ∈ C.pend := by
    rw [hc, List.getD_eq_getElem?_getD, List.getElem?_eq_getElem hi]; exact List.getElem_mem _
  have hk := take_succ_filter C.pend i hi tabC
  have hs := take_succ_filter C.pend i hi slackC
  rw [← hc] at hk hs
  unfold step insertStep
  rw [map_getD_tabC _ _ hi, ← hc]
  by_cases ht : tabC c = true
  swap
  · have ht' : tabC c = false := by simpa using ht
    rw [ht']; simp
  · rw [ht]
    simp only [Bool.not_true, Bool.false_eq_true, if_false, Bool.true_eq_false]
    rw [ht] at hk
    simp only [if_true] at hk
    have hkN : st.k ≤ C.N := by rw [h.k_eq]; exact filter_length_le_take _ _ _
    have hkpos : 1 ≤ st.k := by rw [h.k_eq, hk]; omega
    obtain ⟨r1, r2, r3⟩ := constraintRow_spec C.M C.nn C.n C.j C.numCols C.hM (by have := C.hSL; omega) c (C.hlen c hcmem)
    by_cases he : c.isEq = true
    · simp only [he, Bool.not_true, Bool.false_eq_true, if_false, if_true]
      have hconst : revFold st.base.length (fun j (row : Row) =>
          let bj := st.base.getD j 0
          if (st.k - 1 != j && bj != 0 && row.get bj != 0) = true then linearCombine row (st.T.getD j []) bj else row)
          (constraintRow C.numCols C.M c) = constraintRow C.numCols C.M c := by
        apply revFold_const
        intro j hj
        simp only
        rw [h.lenB] at hj
        rcases h.base j hj with hb | ⟨hb1, hb2⟩
        · rw [hb]; simp
        · have : (constraintRow C.numCols C.M c).get (st.base.getD j 0) = 0 :=
            r2 _ (by rw [h.sl_eq] at hb1; unfold V at hb1; omega)
          rw [this]; simp
      rw [hconst]
    · have he' : c.isEq = false := by simpa using he
      have hsl : slackC c = true := by unfold slackC; rw [ht, he']; rfl
      rw [hsl] at hs
      simp only [if_true] at hs
      have hsiV : C.V ≤ st.slackIndex - 1 := by rw [h.sl_eq, hs]; omega
      have hslpos : 1 ≤ st.slackIndex := by rw [h.sl_eq, hs]; omega
      have hsilen : st.slackIndex - 1 < (constraintRow C.numCols C.M c).length := by
        rw [r1]; have := C.hSL
        have h2 := filter_length_le_take C.pend (i+1) slackC
        rw [h.sl_eq]; unfold V; omega
      simp only [he', Bool.not_false, if_true, Bool.false_eq_true, if_false]
      have hconst : ∀ base' : List Nat, base'.length = C.N →
          (∀ r, r < C.N → r ≠ st.k - 1 → base'.getD r 0 = st.base.getD r 0) →
          revFold base'.length (fun j (row : Row) =>
            let bj := base'.getD j 0
            if (st.k - 1 != j && bj != 0 && row.get bj != 0) = true then linearCombine row (st.T.getD j []) bj else row)
            ((constraintRow C.numCols C.M c).set (st.slackIndex - 1) (-1)) =
            (constraintRow C.numCols C.M c).set (st.slackIndex - 1) (-1) := by
        intro base' hbl hbe
        apply revFold_const
        intro j hj
        simp only
        rw [hbl] at hj
        by_cases hjk : j = st.k - 1
        · rw [hjk]; simp
        · rw [hbe j hj hjk]
          rcases h.base j hj with hb | ⟨hb1, hb2⟩
          · rw [hb]; simp
          · have : Row.get ((constraintRow C.numCols C.M c).set (st.slackIndex - 1) (-1)) (st.base.getD j 0) = 0 := by
              unfold Row.get
              rw [getD_set_int, if_neg (by rintro ⟨h1, -⟩; omega)]
              exact r2 _ (by unfold V at hsiV; omega)
            rw [this]; simp
      have hkB : st.k - 1 < st.base.length := by rw [h.lenB]; omega
      by_cases hsat : C.isSat.getD i false = true
      · rw [if_pos hsat, if_pos hsat]
        simp only
        rw [hconst _ (by rw [List.length_set]; exact h.lenB)
          (fun r _ hrk => by rw [getD_set_nat' _ _ _ _ hkB, if_neg hrk])]
      · rw [if_neg hsat, if_neg hsat]
        simp only
        rw [hconst st.base h.lenB (fun _ _ _ => rfl)]

/-- the "already satisfied" flags are only set on inequalities that enter the tableau and hold at the origin -/
def SatOK : Prop :=
  ∀ i, i < C.pend.length → C.isSat.getD i false = true →
    slackC (C.pend.getD i default) = true ∧ 0 ≤ (C.pend.getD i default).k

/-- number of flags set among the constraints with index `≥ i` -/
def wcount (i : Nat) : Nat := ((List.range C.pend.length).drop i).countP (fun k => C.isSat.getD k false)

theorem wcount_step (i : Nat) (hi : i < C.pend.length) :
    C.wcount i = (if C.isSat.getD i false then 1 else 0) + C.wcount (i+1) := by
  unfold wcount
  have : (List.range C.pend.length).drop i = i :: (List.range C.pend.length).drop (i+1) := by
    rw [List.drop_eq_getElem_cons (by simpa using hi)]; simp
  rw [this, List.countP_cons]
  omega

theorem count_set_true (l : List Bool) (k : Nat) (hk : k < l.length) (h : l.getD k false = false) :
    (l.set k true).count true = l.count true + 1 := by
  induction l generalizing k with
  | nil => simp at hk
  | cons a l ih =>
    cases k with
    | zero =>
      simp only [List.getD_cons_zero] at h
      subst h
      simp
    | succ k =>
      simp only [List.getD_cons_succ] at h
      rw [List.set_cons_succ, List.count_cons, List.count_cons, ih k (by simpa using hk) h]
      omega

theorem constraintRow_get0 (c : ICon) (hc : c ∈ C.pend) : (constraintRow C.numCols C.M c).get 0 = c.k := by
  obtain ⟨r1, r2, r3⟩ := constraintRow_spec C.M C.nn C.n C.j C.numCols C.hM (by have := C.hSL; omega) c (C.hlen c hc)
  have h := r3 (Val.zero.update 0 1) (by simp [Val.update])
  unfold rowVal at h
  rw [dot_update, dot_zero] at h
  have hz : dot c.coeffs (proj C.M (Val.zero.update 0 1)) = 0 := by
    rw [dot_congr_lt c.coeffs _ Val.zero, dot_zero]
    intro u hu
    have hun : u < C.n := lt_of_lt_of_le hu (C.hlen c hc)
    obtain ⟨c1, c2, -, -⟩ := C.hM.cols u hun
    unfold proj
    simp only [Val.update, Val.zero]
    rw [if_neg (by omega)]
    by_cases hm : (C.M.getD (u+1) (0, 0)).2 = 0
    · have : ((C.M.getD (u+1) (0, 0)).2 != 0) = false := by rw [hm]; rfl
      rw [this]; simp
    · have : ((C.M.getD (u+1) (0, 0)).2 != 0) = true := bne_iff_ne.mpr hm
      rw [this]; simp only [if_true]; rw [if_neg (by omega)]; simp
  rw [hz] at h
  simp only [Val.zero, zero_add, sub_zero, mul_one] at h
  have : (((constraintRow C.numCols C.M c).getD 0 0 : Int) : Rat) = (c.k : Rat) := by linarith
  exact_mod_cast this

/-- structural invariant of the insertion loop -/
structure InvS (i : Nat) (st : Ins) : Prop where
  w_len : st.worked.length = C.N
  low : ∀ r, r < st.k → st.worked.getD r false = false ∧ st.base.getD r 0 = 0
  w_iff : ∀ r, st.k ≤ r → r < C.N → (st.worked.getD r false = true ↔ st.base.getD r 0 ≠ 0)
  own : ∀ r, st.k ≤ r → r < C.N → st.base.getD r 0 ≠ 0 →
    (st.T.getD r []).get (st.base.getD r 0) = -1 ∧ 0 ≤ (st.T.getD r []).get 0
  other : ∀ r r', st.k ≤ r → r < C.N → st.k ≤ r' → r' < C.N → r ≠ r' → st.base.getD r 0 ≠ 0 →
    (st.T.getD r' []).get (st.base.getD r 0) = 0
  cnt : st.worked.count true = C.wcount i

theorem init_invS : C.InvS C.pend.length C.init := by
  have hrep : ∀ r, (List.replicate C.N false).getD r false = false := by
    intro r
    rw [List.getD_eq_getElem?_getD]
    by_cases hr : r < C.N
    · rw [List.getElem?_replicate_of_lt hr]; rfl
    · rw [List.getElem?_eq_none (by simpa using hr)]; rfl
  have hrep0 : ∀ r, (List.replicate C.N 0).getD r 0 = 0 := by
    intro r
    rw [List.getD_eq_getElem?_getD]
    by_cases hr : r < C.N
    · rw [List.getElem?_replicate_of_lt hr]; rfl
    · rw [List.getElem?_eq_none (by simpa using hr)]; rfl
  constructor
  · simp [init]
  · intro r _; exact ⟨hrep r, hrep0 r⟩
  · intro r h1 h2; simp only [init] at h1; omega
  · intro r h1 h2; simp only [init] at h1; omega
  · intro r r' h1 h2; simp only [init] at h1; omega
  · simp only [init, wcount]
    rw [List.drop_eq_nil_of_le (by simp)]
    simp [List.count_replicate]

theorem step_invS (hsat : C.SatOK) (i : Nat) (hi : i < C.pend.length) (st : Ins) (h : C.Inv (i+1) st)
    (hS : C.InvS (i+1) st) : C.InvS i (C.step i st) := by
  have hc : C.pend.getD i default ∈ C.pend := by
    rw [List.getD_eq_getElem?_getD, List.getElem?_eq_getElem hi]; exact List.getElem_mem _
  have hk := take_succ_filter C.pend i hi tabC
  have hs := take_succ_filter C.pend i hi slackC
  have hw := C.wcount_step i hi
  obtain ⟨r1, r2, r3⟩ := constraintRow_spec C.M C.nn C.n C.j C.numCols C.hM (by have := C.hSL; omega) _ (C.hlen _ hc)
  have hkN : st.k ≤ C.N := by rw [h.k_eq]; exact filter_length_le_take _ _ _
  rw [C.step_eq i hi st h]
  by_cases ht : tabC (C.pend.getD i default) = true
  swap
  · have ht' : tabC (C.pend.getD i default) = false := by simpa using ht
    rw [if_pos ht']
    have hns : C.isSat.getD i false = false := by
      by_contra hcon
      have := (hsat i hi (by simpa using hcon)).1
      unfold slackC at this; rw [ht'] at this; simp at this
    rw [hns] at hw
    exact ⟨hS.w_len, hS.low, hS.w_iff, hS.own, hS.other, by rw [hS.cnt, hw]; simp⟩
  · rw [if_neg (by rw [ht]; simp)]
    rw [ht] at hk
    simp only [if_true] at hk
    have hkpos : 1 ≤ st.k := by rw [h.k_eq, hk]; omega
    have hkT : st.k - 1 < st.T.length := by rw [h.lenT]; omega
    have hkB : st.k - 1 < st.base.length := by rw [h.lenB]; omega
    have hkW : st.k - 1 < st.worked.length := by rw [hS.w_len]; omega
    obtain ⟨low1, low2⟩ := hS.low (st.k - 1) (by omega)
    by_cases he : (C.pend.getD i default).isEq = true
    · rw [if_pos he]
      have hns : C.isSat.getD i false = false := by
        by_contra hcon
        have := (hsat i hi (by simpa using hcon)).1
        unfold slackC at this; rw [he] at this; simp at this
      rw [hns] at hw
      refine ⟨hS.w_len, fun r hr => hS.low r (by simp only at hr; omega), ?_, ?_, ?_, by rw [hS.cnt, hw]; simp⟩
      · intro r hr1 hr2
        simp only at hr1 ⊢
        by_cases hrk : r = st.k - 1
        · rw [hrk, low1, low2]; simp
        · exact hS.w_iff r (by omega) hr2
      · intro r hr1 hr2 hb
        simp only at hr1 hb ⊢
        have hrk : r ≠ st.k - 1 := by intro hh; rw [hh] at hb; exact hb low2
        rw [getD_set_row _ _ _ _ hkT, if_neg hrk]
        exact hS.own r (by omega) hr2 hb
      · intro r r' hr1 hr2 hr1' hr2' hne hb
        simp only at hr1 hr1' hb ⊢
        have hrk : r ≠ st.k - 1 := by intro hh; rw [hh] at hb; exact hb low2
        rw [getD_set_row _ _ _ _ hkT]
        by_cases hrk' : r' = st.k - 1
        · rw [if_pos hrk']
          rcases h.base r hr2 with hb0 | ⟨hb1, hb2⟩
          · exact absurd hb0 hb
          · exact r2 _ (by rw [h.sl_eq] at hb1; unfold V at hb1; omega)
        · rw [if_neg hrk']
          exact hS.other r r' (by omega) hr2 (by omega) hr2' hne hb
    · rw [if_neg he]
      have he' : (C.pend.getD i default).isEq = false := by simpa using he
      have hsl : slackC (C.pend.getD i default) = true := by unfold slackC; rw [ht, he']; rfl
      rw [hsl] at hs
      simp only [if_true] at hs
      have hsiV : C.V ≤ st.slackIndex - 1 := by rw [h.sl_eq, hs]; omega
      have hslpos : 1 ≤ st.slackIndex := by rw [h.sl_eq, hs]; omega
      have hV1 : 1 ≤ C.V := by unfold V; omega
      have hVj : C.V = 1 + C.j := rfl
      have hsilen : st.slackIndex - 1 < (constraintRow C.numCols C.M (C.pend.getD i default)).length := by
        rw [r1]; have := C.hSL
        have h2 := filter_length_le_take C.pend (i+1) slackC
        rw [h.sl_eq]; unfold V; omega
      have row1_get : ∀ col, Row.get ((constraintRow C.numCols C.M (C.pend.getD i default)).set (st.slackIndex - 1) (-1)) col =
          if col = st.slackIndex - 1 then -1 else (constraintRow C.numCols C.M (C.pend.getD i default)).get col := by
        intro col
        unfold Row.get
        rw [getD_set_int]
        by_cases hcol : col = st.slackIndex - 1
        · rw [if_pos ⟨hcol, hsilen⟩, if_pos hcol]
        · rw [if_neg (fun a => hcol a.1), if_neg hcol]
      -- entries of the new row at the slack columns already in use
      have row1_base : ∀ r, r < C.N → st.base.getD r 0 ≠ 0 →
          Row.get ((constraintRow C.numCols C.M (C.pend.getD i default)).set (st.slackIndex - 1) (-1)) (st.base.getD r 0) = 0 := by
        intro r hr hb
        rcases h.base r hr with hb0 | ⟨hb1, hb2⟩
        · exact absurd hb0 hb
        · rw [row1_get, if_neg (by omega)]; exact r2 _ (by omega)
      by_cases hsatI : C.isSat.getD i false = true
      · rw [if_pos hsatI]
        rw [hsatI] at hw
        simp only [if_true] at hw
        refine ⟨by rw [List.length_set]; exact hS.w_len, ?_, ?_, ?_, ?_, ?_⟩
        · intro r hr
          simp only at hr ⊢
          rw [getD_set_bool, if_neg (by rintro ⟨h1, -⟩; omega), getD_set_nat' _ _ _ _ hkB, if_neg (by omega)]
          exact hS.low r (by omega)
        · intro r hr1 hr2
          simp only at hr1 ⊢
          rw [getD_set_bool, getD_set_nat' _ _ _ _ hkB]
          by_cases hrk : r = st.k - 1
          · rw [if_pos ⟨hrk, hkW⟩, if_pos hrk]; simp; omega
          · rw [if_neg (fun a => hrk a.1), if_neg hrk]; exact hS.w_iff r (by omega) hr2
        · intro r hr1 hr2 hb
          simp only at hr1 hb ⊢
          rw [getD_set_nat' _ _ _ _ hkB] at hb ⊢
          rw [getD_set_row _ _ _ _ hkT]
          by_cases hrk : r = st.k - 1
          · rw [if_pos hrk, if_pos hrk, row1_get, if_pos rfl, row1_get, if_neg (by omega),
              C.constraintRow_get0 _ hc]
            exact ⟨rfl, (hsat i hi hsatI).2⟩
          · rw [if_neg hrk] at hb ⊢
            rw [if_neg hrk]
            exact hS.own r (by omega) hr2 hb
        · intro r r' hr1 hr2 hr1' hr2' hne hb
          simp only at hr1 hr1' hb ⊢
          rw [getD_set_nat' _ _ _ _ hkB] at hb ⊢
          rw [getD_set_row _ _ _ _ hkT]
          by_cases hrk : r = st.k - 1
          · rw [if_pos hrk]
            have hrk' : r' ≠ st.k - 1 := fun hh => hne (hrk.trans hh.symm)
            rw [if_neg hrk']
            exact (h.rows r' (by omega) hr2').2 _ (Or.inl ⟨hsiV, by omega⟩)
          · rw [if_neg hrk] at hb ⊢
            by_cases hrk' : r' = st.k - 1
            · rw [if_pos hrk']; exact row1_base r hr2 hb
            · rw [if_neg hrk']; exact hS.other r r' (by omega) hr2 (by omega) hr2' hne hb
        · simp only
          rw [count_set_true _ _ hkW low1, hS.cnt, hw]; omega
      · rw [if_neg hsatI]
        have hns : C.isSat.getD i false = false := by simpa using hsatI
        rw [hns] at hw
        refine ⟨hS.w_len, fun r hr => hS.low r (by simp only at hr; omega), ?_, ?_, ?_, by rw [hS.cnt, hw]; simp⟩
        · intro r hr1 hr2
          simp only at hr1 ⊢
          by_cases hrk : r = st.k - 1
          · rw [hrk, low1, low2]; simp
          · exact hS.w_iff r (by omega) hr2
        · intro r hr1 hr2 hb
          simp only at hr1 hb ⊢
          have hrk : r ≠ st.k - 1 := by intro hh; rw [hh] at hb; exact hb low2
          rw [getD_set_row _ _ _ _ hkT, if_neg hrk]
          exact hS.own r (by omega) hr2 hb
        · intro r r' hr1 hr2 hr1' hr2' hne hb
          simp only at hr1 hr1' hb ⊢
          have hrk : r ≠ st.k - 1 := by intro hh; rw [hh] at hb; exact hb low2
          rw [getD_set_row _ _ _ _ hkT]
          by_cases hrk' : r' = st.k - 1
          · rw [if_pos hrk']; exact row1_base r hr2 hb
          · rw [if_neg hrk']
            exact hS.other r r' (by omega) hr2 (by omega) hr2' hne hb

/-- both invariants after the whole loop -/
theorem insert_specS (hsat : C.SatOK) : C.Inv 0 C.fin ∧ C.InvS 0 C.fin := by
  unfold fin
  exact revFold_inv (fun i st => C.Inv i st ∧ C.InvS i st) C.step C.pend.length C.init
    ⟨C.init_inv, C.init_invS⟩
    (fun i hi st hst => ⟨C.step_inv i hi st hst.1, C.step_invS hsat i hi st hst.1 hst.2⟩)

end InsCtx

end PPLV.Solver.Pend
