import PPLV.Solver.PendingProofsIncr6
import PPLV.Solver.PendingProofsArtG
import PPLV.Solver.PendingProofsSetup10

/-!
# C06 stage 3 — incremental set-up, abstract assembly: canonical form and solutions of the tableau handed over
-/
namespace PPLV.Solver.Pend
open PPLV.Lin PPLV.Solver PPLV.Solver.Tab

theorem normRow_ratio (r : Row) (b : Nat) :
    -(((normRow r).get 0 : Int) : Rat) / (((normRow r).get b : Int) : Rat) =
      -((r.get 0 : Int) : Rat) / ((r.get b : Int) : Rat) := by
  rw [normRow_get, normRow_get]
  split
  · push_cast; rw [neg_div_neg_eq]
  · rfl

theorem normRow_get_zero (r : Row) (col : Nat) : (normRow r).get col = 0 ↔ r.get col = 0 := by
  rw [normRow_get]; split
  · exact neg_eq_zero
  · exact Iff.rfl

theorem normRow_get0_nonpos (r : Row) : (normRow r).get 0 ≤ 0 := by
  rw [normRow_get]; split <;> omega

namespace GCtx
variable (C : GCtx)

def fin : Ins := revFold C.pend.length C.step C.init

/-- the rows made unfeasible by re-merging, and the column count of the call -/
structure Unf (unf : List Nat) : Prop where
  lt : ∀ r, r ∈ unf → r < C.R0
  nodup : unf.Nodup
  base : ∀ r, r < C.R0 → (C.base0.getD r 0 = 0 ↔ r ∈ unf)
  feas : ∀ r, r < C.R0 → C.base0.getD r 0 ≠ 0 →
    0 ≤ -(((C.T0.getD r []).get 0 : Int) : Rat) / (((C.T0.getD r []).get (C.base0.getD r 0) : Int) : Rat)
  nc : C.numCols = C.SL + unf.length + (C.Nn - C.wcount 0) + 1

def artOut (unf : List Nat) : List Row × Row × List Nat × Nat :=
  ppcArtificials unf C.R0 C.N C.fin.worked (ppcNormalizeSigns C.fin.T) (zeros C.numCols) C.fin.base C.SL

theorem fin_inv : C.GInv 0 C.fin := C.ginsert_spec

theorem fin_k : C.fin.k = C.R0 := by
  have := C.fin_inv.k_eq; simpa using this

theorem fin_sl : C.fin.slackIndex = C.V := by
  have := C.fin_inv.sl_eq; simpa using this

theorem count_notworked : ((List.range C.N).drop C.R0).countP (fun r => !C.fin.worked.getD r false) =
    C.Nn - C.wcount 0 := by
  have inv := C.fin_inv
  have h1 := countP_not_range C.fin.worked
  rw [inv.lenW, inv.cnt] at h1
  have h2 : (List.range C.N).countP (fun r => !C.fin.worked.getD r false) =
      ((List.range C.N).take C.R0).countP (fun r => !C.fin.worked.getD r false) +
      ((List.range C.N).drop C.R0).countP (fun r => !C.fin.worked.getD r false) := by
    conv_lhs => rw [← List.take_append_drop C.R0 (List.range C.N)]
    rw [List.countP_append]
  have h3 : ((List.range C.N).take C.R0).countP (fun r => !C.fin.worked.getD r false) = C.R0 := by
    have hl : ((List.range C.N).take C.R0).length = C.R0 := by
      rw [List.length_take, List.length_range]; unfold N; omega
    have hc : ((List.range C.N).take C.R0).countP (fun r => !C.fin.worked.getD r false) =
        ((List.range C.N).take C.R0).length := by
      apply List.countP_eq_length.mpr
      intro a ha
      have ha' : a < C.R0 := by
        obtain ⟨i, hi, rfl⟩ := List.mem_take_iff_getElem.mp ha
        rw [List.getElem_range]; omega
      rw [inv.oldW a ha']; rfl
    rw [hc, hl]
  have h3' : True := by
    have ha : True := trivial
    have hl : True := trivial
    trivial
  unfold N at h1 h2 h3 ⊢
  omega

theorem art (unf : List Nat) (hU : C.Unf unf) :
    ArtOutG C.R0 C.N C.numCols C.SL unf C.fin.worked (ppcNormalizeSigns C.fin.T) C.fin.base (C.artOut unf) := by
  have inv := C.fin_inv
  have hra := C.rows_all _ _ inv
  apply artSpecG
  · unfold N; omega
  · rw [normalize_length]; exact inv.lenT
  · exact inv.lenB
  · intro r hr; rw [normalize_getD, normRow_length]; exact (hra r hr).1
  · intro r hr col hcol
    rw [normalize_getD, normRow_get_zero]; exact (hra r hr).2 col (Or.inr hcol)
  · exact hU.lt
  · exact hU.nodup
  · rw [C.count_notworked, hU.nc]; omega
  · rw [hU.nc]; omega

/-- which rows get an artificial column -/
def IsArt (unf : List Nat) (r : Nat) : Prop := r ∈ unf ∨ (C.R0 ≤ r ∧ C.fin.worked.getD r false = false)

/-- facts about a row that keeps its basic variable -/
theorem keep_facts (unf : List Nat) (hU : C.Unf unf) (r : Nat) (hr : r < C.N) (hA : ¬ C.IsArt unf r) :
    C.fin.base.getD r 0 ≠ 0 ∧ 1 ≤ C.fin.base.getD r 0 ∧ C.fin.base.getD r 0 < C.SL ∧
    0 ≤ -(((C.fin.T.getD r []).get 0 : Int) : Rat) / (((C.fin.T.getD r []).get (C.fin.base.getD r 0) : Int) : Rat) := by
  have inv := C.fin_inv
  have hk := C.fin_k
  have hV1 := C.V1
  have hVSL : C.V ≤ C.SL := by unfold SL; omega
  unfold IsArt at hA
  by_cases h1 : r < C.R0
  · have hnu : r ∉ unf := fun a => hA (Or.inl a)
    have hb : C.base0.getD r 0 ≠ 0 := fun a => hnu ((hU.base r h1).mp a)
    rw [inv.oldB r h1, inv.oldT r h1]
    obtain ⟨o1, o2⟩ := C.oRange r h1 hb
    exact ⟨hb, o1, by omega, hU.feas r h1 hb⟩
  · have hw : C.fin.worked.getD r false = true := by
      cases hw : C.fin.worked.getD r false
      · exact absurd (Or.inr ⟨by omega, hw⟩) hA
      · rfl
    have hb := (inv.w_iff r (by rw [hk]; omega) hr).mp hw
    obtain ⟨b1, b2⟩ := inv.bRange r (by rw [hk]; omega) hr hb
    rw [C.fin_sl] at b1
    exact ⟨hb, by omega, b2, inv.feasNew r (by rw [hk]; omega) hr hb⟩

/-- **the tableau handed to the first phase is canonical and feasible** -/
theorem asm_canonTB (unf : List Nat) (hU : C.Unf unf) :
    CanonTB (C.artOut unf).1 (C.artOut unf).2.2.1 C.numCols := by
  have inv := C.fin_inv
  have art := C.art unf hU
  have hra := C.rows_all _ _ inv
  have hV1 := C.V1
  have hVSL : C.V ≤ C.SL := by unfold SL; omega
  have hSLn : C.SL ≤ C.numCols - 1 := by rw [hU.nc]; omega
  have hN : (C.artOut unf).1.length = C.N := art.lenT
  have hpbT : C.fin.T.length = C.N := inv.lenT
  have zero_hi : ∀ r, r < C.N → ∀ col, C.SL ≤ col → ((ppcNormalizeSigns C.fin.T).getD r []).get col = 0 := by
    intro r hr col hcol
    rw [normalize_getD, normRow_get_zero]; exact (hra r hr).2 col (Or.inr hcol)
  constructor
  · rw [art.lenB, art.lenT]
  · rw [hU.nc]; omega
  · intro r hr; rw [hN] at hr; exact art.rowLen r hr
  · intro r hr
    rw [hN] at hr
    by_cases hA : C.IsArt unf r
    · obtain ⟨a1, a2, -, -⟩ := art.art r hr hA
      exact ⟨by omega, a2⟩
    · obtain ⟨-, k2⟩ := art.keep r hr hA
      obtain ⟨-, w1, w2, -⟩ := C.keep_facts unf hU r hr hA
      rw [k2]; omega
  · intro r hr
    rw [hN] at hr
    by_cases hA : C.IsArt unf r
    · obtain ⟨-, -, a3, -⟩ := art.art r hr hA
      rw [a3]; decide
    · obtain ⟨k1, k2⟩ := art.keep r hr hA
      obtain ⟨w0, -, -, -⟩ := C.keep_facts unf hU r hr hA
      rw [k1, k2, normalize_getD]
      intro hz
      exact inv.pb.nz r (by rw [hpbT]; exact hr) w0 ((normRow_get_zero _ _).mp hz)
  · intro i j hi hj hij
    rw [hN] at hi hj
    by_cases hAi : C.IsArt unf i
    · exact art.other i j hi hj hij hAi
    · obtain ⟨-, ki2⟩ := art.keep i hi hAi
      obtain ⟨w0, w1, w2, -⟩ := C.keep_facts unf hU i hi hAi
      have hz : ((ppcNormalizeSigns C.fin.T).getD j []).get (C.fin.base.getD i 0) = 0 := by
        rw [normalize_getD, normRow_get_zero]
        exact inv.pb.col i j (by rw [hpbT]; exact hi) (by rw [hpbT]; exact hj) hij w0
      rw [ki2]
      by_cases hAj : C.IsArt unf j
      · obtain ⟨a1, -, -, a4⟩ := art.art j hj hAj
        rw [a4 _ (by omega)]; exact hz
      · rw [(art.keep j hj hAj).1]; exact hz
  · intro r hr
    rw [hN] at hr
    by_cases hA : C.IsArt unf r
    · obtain ⟨-, a2, -, a4⟩ := art.art r hr hA
      rw [a4 _ (by omega)]; exact zero_hi r hr _ hSLn
    · rw [(art.keep r hr hA).1]; exact zero_hi r hr _ hSLn
  · intro r hr
    rw [hN] at hr
    by_cases hA : C.IsArt unf r
    · obtain ⟨a1, -, a3, a4⟩ := art.art r hr hA
      rw [a3, a4 0 (by omega), normalize_getD]
      have := normRow_get0_nonpos (C.fin.T.getD r [])
      have h' : (((normRow (C.fin.T.getD r [])).get 0 : Int) : Rat) ≤ 0 := by exact_mod_cast this
      push_cast; rw [div_one]; linarith
    · obtain ⟨k1, k2⟩ := art.keep r hr hA
      obtain ⟨-, -, -, w3⟩ := C.keep_facts unf hU r hr hA
      rw [k1, k2, normalize_getD, normRow_ratio]; exact w3

/-- the rows of the tableau handed over vanish where the inserted rows do, on valuations with artificials 0 -/
theorem asm_rows (unf : List Nat) (hU : C.Unf unf) (y : Val) (hz : ∀ col, C.SL ≤ col → col < C.numCols → y col = 0) :
    Sol (C.artOut unf).1 y ↔ Sol C.fin.T y := by
  have inv := C.fin_inv
  have art := C.art unf hU
  have key : ∀ r, r < C.N →
      (rowVal ((C.artOut unf).1.getD r []) y = 0 ↔ rowVal (C.fin.T.getD r []) y = 0) := by
    intro r hr
    by_cases hA : C.IsArt unf r
    · obtain ⟨a1, a2, a3, a4⟩ := art.art r hr hA
      rw [← normRow_val (C.fin.T.getD r []), ← normalize_getD]
      have : rowVal ((C.artOut unf).1.getD r []) y = rowVal ((ppcNormalizeSigns C.fin.T).getD r []) y := by
        unfold rowVal
        apply dot_congr_support
        intro j
        by_cases hj : j = (C.artOut unf).2.2.1.getD r 0
        · right; rw [hj]; exact hz _ a1 (by omega)
        · left; exact a4 j hj
      rw [this]
    · rw [(art.keep r hr hA).1, normalize_getD, normRow_val]
  constructor
  · intro h r hr
    rw [inv.lenT] at hr
    exact (key r hr).mp (h r (by rw [art.lenT]; exact hr))
  · intro h r hr
    rw [art.lenT] at hr
    exact (key r hr).mpr (h r (by rw [inv.lenT]; exact hr))

/-- the first-phase cost row before re-expression -/
theorem asm_cost (unf : List Nat) (hU : C.Unf unf) :
    IsPhase1Cost ((C.artOut unf).2.1.set (C.numCols - 1) 1) C.SL ∧
    ((C.artOut unf).2.1.set (C.numCols - 1) 1).length = C.numCols := by
  have art := C.art unf hU
  have hlen : ((C.artOut unf).2.1.set (C.numCols - 1) 1).length = C.numCols := by
    rw [List.length_set]; exact art.lenC
  refine ⟨fun j => ?_, hlen⟩
  rw [hlen, getD_set_int]
  by_cases hj : j = C.numCols - 1
  · rw [if_pos ⟨hj, by rw [art.lenC, hU.nc]; omega⟩, if_pos hj]
  · rw [if_neg (fun a => hj a.1), if_neg hj]; exact art.cost j

end GCtx

end PPLV.Solver.Pend
