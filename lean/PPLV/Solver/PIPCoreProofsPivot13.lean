import PPLV.Solver.PIPCoreProofsPivot12
/-!
# C07 stage 2 — pivot family, part 13: the incremental sign bookkeeping of the pivot keeps `SignAt`

The invariant `SgInv` is simply "the cached signs hold (weakly) for the CURRENT tableau": it is kept by
`Tableau::scale` with a positive ratio (`signWeak_scale`), by every store into `s`, and by every single
`(i, j)` step of the second pass: the store `t[i][j] -= product` changes the value of the row by
`- product * q_j` and `signStep` is sound for exactly that change (`signStep_weak_sound`).
-/
namespace PPLV.PIPCore.Piv

theorem signGet_set_same {l : List RowSign} {i : Nat} (x : RowSign) (h : i < l.length) :
    signGet (l.set i x) i = x := by
  unfold signGet; simp [h]

theorem signGet_set_ne {l : List RowSign} {i k : Nat} (x : RowSign) (h : i ≠ k) :
    signGet (l.set i x) k = signGet l k := by
  unfold signGet; simp [h]

theorem signGet_of_le {l : List RowSign} {k : Nat} (h : l.length ≤ k) : signGet l k = .unknown := by
  unfold signGet; simp [h]

theorem signWeak_set {d v : Int} {x : RowSign} (sg : List RowSign) (i : Nat)
    (h : SignWeak d x v) : SignWeak d (signGet (sg.set i x) i) v := by
  by_cases hi : i < sg.length
  · rw [signGet_set_same x hi]; exact h
  · rw [signGet_of_le (by rw [List.length_set]; exact Nat.le_of_not_lt hi)]; exact trivial

theorem dot_rset {r : Row} {q : List Int} {j : Nat} (x : Int) (hj : j < r.length)
    (hq : j < q.length) : dot (rset r j x) q = dot r q + (x - rget r j) * rget q j := by
  unfold rset
  induction r generalizing j q with
  | nil => simp at hj
  | cons a as ih =>
    cases q with
    | nil => simp at hq
    | cons y ys =>
      cases j with
      | zero =>
        simp only [List.set_cons_zero, dot, rget_cons_zero]; ring
      | succ j =>
        simp only [List.set_cons_succ, dot, rget_cons_succ]
        rw [ih (by simpa using hj) (by simpa using hq)]; ring

theorem paramVec_rget {m : Nat} {q : List Int} (hq : ParamVec m q) (j : Nat) :
    0 ≤ rget q j ∧ (j = 0 → rget q j = 1) := by
  constructor
  · by_cases hj : j < q.length
    · exact hq.2.2 _ (rget_mem hj)
    · rw [rget_of_le (Nat.le_of_not_lt hj)]
  · rintro rfl
    obtain ⟨_, h1, _⟩ := hq
    cases q with
    | nil => simp at h1
    | cons a as => simp at h1; rw [rget_cons_zero]; exact h1

/-! ### the invariant -/

structure SgInv (n m : Nat) (q : List Int) (T : Tableau) (sg : List RowSign) : Prop where
  t_len : T.t.length = n
  t_rows : RowsLen T.t m
  nt_eq : T.nt = m
  signs : ∀ k, SignWeak T.den (signGet sg k) (dot (mrow T.t k) q)

section sg
variable {n m : Nat} {q : List Int}

theorem SgInv.scale {T : Tableau} {sg : List RowSign} (h : SgInv n m q T sg) {r : Int}
    (hr : 0 < r) : SgInv n m q (T.scale r) sg where
  t_len := by rw [scale_t_length]; exact h.t_len
  t_rows := h.t_rows.map (· * r)
  nt_eq := h.nt_eq
  signs := by
    intro k
    show SignWeak (T.den * r) _ (dot (mrow (T.t.map (·.map (· * r))) k) q)
    rw [mrow_map _ (·.map (· * r)) (by simp), dot_map_mul, Int.mul_comm T.den r,
      Int.mul_comm (dot _ _) r]
    exact (signWeak_scale hr).mpr (h.signs k)

/-- a store into `s` does not matter -/
theorem SgInv.set_s {T : Tableau} {sg : List RowSign} (h : SgInv n m q T sg) (X : Mat) :
    SgInv n m q { T with s := X } sg := ⟨h.t_len, h.t_rows, h.nt_eq, h.signs⟩

theorem foldl_preserves_mem {α β : Type} (P : α → Prop) (step : α → β → α) :
    ∀ (l : List β), (∀ a b, b ∈ l → P a → P (step a b)) → ∀ a, P a → P (l.foldl step a) := by
  intro l
  induction l with
  | nil => intro _ a ha; exact ha
  | cons b l ih =>
    intro h a ha
    exact ih (fun a' b' hb' => h a' b' (by simp [hb'])) _ (h a b (by simp) ha)

/-! ### first pass -/

theorem pivotStepS_sg {spp : Int} (hspp : 0 < spp) (sp : Row) (pj i : Nat) (sg : List RowSign)
    (st : Tableau × Int) (j : Nat) (h : SgInv n m q st.1 sg) :
    SgInv n m q (pivotStepS sp spp pj i st j).1 sg := by
  obtain ⟨T, sipj⟩ := st
  change SgInv n m q T sg at h
  unfold pivotStepS
  dsimp only
  by_cases h1 : j = pj
  · rw [if_pos h1]; exact h
  rw [if_neg h1]
  by_cases h2 : rget sp j = 0
  · rw [if_pos h2]; exact h
  rw [if_neg h2]
  by_cases h3 : rget sp j * sipj % spp ≠ 0
  · rw [if_pos h3]
    dsimp only
    have h' := h.scale (sf_facts hspp (rget sp j * sipj)).1
    by_cases h4 : rget sp j * sipj * (spp / gcdI (rget sp j * sipj) spp) / spp ≠ 0
    · rw [if_pos h4]; exact h'.set_s _
    · rw [if_neg h4]; exact h'
  · rw [if_neg h3]
    dsimp only
    by_cases h4 : rget sp j * sipj / spp ≠ 0
    · rw [if_pos h4]; exact h.set_s _
    · rw [if_neg h4]; exact h

theorem pivotRowS_sg {spp : Int} (hspp : 0 < spp) (sp : Row) (pj : Nat) (sg : List RowSign)
    (T : Tableau) (i : Nat) (h : SgInv n m q T sg) : SgInv n m q (pivotRowS sp spp pj T i) sg := by
  unfold pivotRowS
  dsimp only
  split
  · exact h
  · exact foldl_preserves (fun st : Tableau × Int => SgInv n m q st.1 sg) (pivotStepS sp spp pj i)
      (fun st j hst => pivotStepS_sg hspp sp pj i sg st j hst) _ (T, mget T.s i pj) h

/-! ### second pass -/

theorem stepT_sg_core {m' : Nat} (hq : ParamVec m' q) (hm : m' = m) {T' : Tableau}
    {sg : List RowSign} (h : SgInv n m q T' sg) {i j : Nat} (hi : i < n) (hj : j < m) (p : Int) :
    SgInv n m q (if p ≠ 0 then { T' with t := mset T'.t i j (mget T'.t i j - p) } else T')
      (sg.set i (signStep (signGet sg i) p j)) := by
  subst hm
  have hi' : i < T'.t.length := by rw [h.t_len]; exact hi
  have hrl : (mrow T'.t i).length = m' := h.t_rows.mrow hi'
  obtain ⟨hq1, hq2⟩ := paramVec_rget hq j
  have key : SignWeak T'.den (signStep (signGet sg i) p j) (dot (mrow T'.t i) q - p * rget q j) :=
    signStep_weak_sound (h.signs i) hq1 hq2 id id id
  by_cases hp : p ≠ 0
  · rw [if_pos hp]
    refine ⟨by show (mset T'.t i j _).length = n; rw [mset_length]; exact h.t_len,
      h.t_rows.mset i j _, h.nt_eq, ?_⟩
    intro k
    show SignWeak T'.den _ (dot (mrow (mset T'.t i j (mget T'.t i j - p)) k) q)
    by_cases e : k = i
    · subst e
      rw [mrow_mset_same j _ hi', dot_rset _ (by rw [hrl]; exact hj) (by rw [hq.1]; exact hj)]
      have : dot (mrow T'.t k) q + (mget T'.t k j - p - rget (mrow T'.t k) j) * rget q j
          = dot (mrow T'.t k) q - p * rget q j := by unfold mget; ring
      rw [this]
      exact signWeak_set sg k key
    · rw [mrow_mset_ne j _ (Ne.symm e), signGet_set_ne _ (Ne.symm e)]
      exact h.signs k
  · rw [if_neg hp]
    have hp0 : p = 0 := not_not.mp hp
    refine ⟨h.t_len, h.t_rows, h.nt_eq, ?_⟩
    intro k
    by_cases e : k = i
    · subst e
      rw [hp0, Int.zero_mul, Int.sub_zero] at key
      rw [hp0]
      exact signWeak_set sg k key
    · rw [signGet_set_ne _ (Ne.symm e)]
      exact h.signs k

theorem pivotStepT_sg {spp : Int} (hspp : 0 < spp) (hq : ParamVec m q) (tp : Row) (pj : Nat)
    {i : Nat} (hi : i < n) (st : Tableau × List RowSign) {j : Nat} (hj : j < m)
    (h : SgInv n m q st.1 st.2) :
    SgInv n m q (pivotStepT tp spp pj i st j).1 (pivotStepT tp spp pj i st j).2 := by
  obtain ⟨T, sg⟩ := st
  change SgInv n m q T sg at h
  unfold pivotStepT
  dsimp only
  by_cases h2 : rget tp j = 0
  · rw [if_pos h2]; exact h
  rw [if_neg h2]
  by_cases h3 : rget tp j * mget T.s i pj % spp ≠ 0
  · rw [if_pos h3]
    dsimp only
    exact stepT_sg_core hq rfl (h.scale (sf_facts hspp (rget tp j * mget T.s i pj)).1) hi hj _
  · rw [if_neg h3]
    dsimp only
    exact stepT_sg_core hq rfl h hi hj _

theorem pivotRowT_sg {spp : Int} (hspp : 0 < spp) (hq : ParamVec m q) (tp : Row) (pj : Nat)
    (st : Tableau × List RowSign) {i : Nat} (hi : i < n) (h : SgInv n m q st.1 st.2) :
    SgInv n m q (pivotRowT tp spp pj st i).1 (pivotRowT tp spp pj st i).2 := by
  unfold pivotRowT
  split
  · exact h
  · exact foldl_preserves_mem (fun s : Tableau × List RowSign => SgInv n m q s.1 s.2)
      (pivotStepT tp spp pj i) (List.range st.1.nt)
      (fun a j hj ha => pivotStepT_sg hspp hq tp pj hi a
        (by rw [h.nt_eq] at hj; exact List.mem_range.mp hj) ha) st h

/-! ### third pass -/

theorem pivotRowC_sg {spp : Int} (hspp : 0 < spp) (D : Int) (pj : Nat) (sg : List RowSign)
    (T : Tableau) (i : Nat) (h : SgInv n m q T sg) : SgInv n m q (pivotRowC spp D pj T i) sg := by
  unfold pivotRowC
  dsimp only
  by_cases h3 : mget T.s i pj * D % spp ≠ 0
  · rw [if_pos h3]
    dsimp only
    exact (h.scale (sf_facts hspp (mget T.s i pj * D)).1).set_s _
  · rw [if_neg h3]
    dsimp only
    exact h.set_s _

end sg

/-! ### `normalize` -/

theorem normalize_signAt {nd : SolNode} (h : WF nd) {q : List Int} (hs : SignAt nd q) :
    SignAt { nd with tab := nd.tab.normalize } q := by
  rcases normalize_cases nd.tab (ne_of_gt h.den_pos) with e | ⟨g, hg, dd, _, dt, e⟩
  · unfold SignAt; rw [e]; exact hs
  · unfold SignAt; rw [e]
    intro k
    show SignWeak (nd.tab.den / g) (signGet nd.sign k)
      (dot (mrow (nd.tab.t.map (·.map (· / g))) k) q)
    rw [mrow_map _ (·.map (· / g)) (by simp)]
    have e2 := dot_map_div (mrow nd.tab.t k) q g (dt.mrow k)
    have e3 : nd.tab.den / g * g = nd.tab.den := Int.ediv_mul_cancel dd
    apply (signWeak_scale hg).mp
    rw [Int.mul_comm g (nd.tab.den / g), e3, Int.mul_comm g _, e2]
    exact hs k

/-! ### the pivot -/

theorem pivot_signweak {nd : SolNode} (h : WF nd) {pi pj : Nat} (hpi : pi < nd.tab.s.length)
    (_hpj : pj < nd.tab.ns) (hspp : 0 < mget nd.tab.s pi pj) {q : List Int}
    (hq : ParamVec nd.tab.nt q) (hs : SignAt nd q) : SignAt (pivot nd pi pj) q := by
  have hN := normalize_wf h
  have sh := normalize_shape nd.tab
  have hspp0 : 0 < mget nd.tab.normalize.s pi pj := (normalize_sign h pi pj).mpr hspp
  have hs0 : ∀ k, SignWeak nd.tab.normalize.den (signGet nd.sign k)
      (dot (mrow nd.tab.normalize.t k) q) := normalize_signAt h hs
  have hq0 : ParamVec nd.tab.normalize.nt q := by rw [sh.2.2.2]; exact hq
  have hpi0 : pi < nd.tab.normalize.s.length := by rw [sh.1]; exact hpi
  have hrows : nd.tab.normalize.s.length = nd.tab.normalize.t.length := hN.rows_eq
  have htr : RowsLen nd.tab.normalize.t nd.tab.normalize.nt := hN.t_cols
  have hsl : nd.sign.length = nd.tab.normalize.s.length := hN.sign_len
  have hden : 0 < nd.tab.normalize.den := hN.den_pos
  rw [pivot_eq]
  generalize nd.tab.normalize = T0 at *
  have hpit : pi < T0.t.length := hrows ▸ hpi0
  -- the start: the identity row with sign ZERO
  have init : SgInv T0.s.length T0.nt q (idRowTab T0 pi pj) (nd.sign.set pi .zero) := by
    refine ⟨by rw [idRow_t_len]; exact hrows.symm, htr.msetRow pi (zeroRow_length _), rfl, ?_⟩
    intro k
    show SignWeak T0.den _ (dot (mrow (msetRow T0.t pi (zeroRow T0.nt)) k) q)
    by_cases e : k = pi
    · subst e
      rw [mrow_msetRow_same _ hpit, signGet_set_same _ (by rw [hsl]; exact hpi0)]
      have z : dot (zeroRow T0.nt) q = 0 := by
        rw [dot_eq_sumTo' _ hq0.1]
        have : sumTo T0.nt (fun j => rget (zeroRow T0.nt) j * rget q j) = sumTo T0.nt (fun _ => 0) :=
          sumTo_congr (fun j _ => by rw [rget_zeroRow]; ring)
        rw [this, sumTo_zero]
      rw [z]
      exact ⟨by omega, hden⟩
    · rw [mrow_msetRow_ne _ (Ne.symm e), signGet_set_ne _ (Ne.symm e)]
      exact hs0 k
  -- first pass
  have pS : SgInv T0.s.length T0.nt q (passSTab T0 pi pj) (nd.sign.set pi .zero) := by
    unfold passSTab
    exact foldl_preserves (fun T => SgInv T0.s.length T0.nt q T (nd.sign.set pi .zero))
      (pivotRowS (mrow T0.s pi) (mget T0.s pi pj) pj)
      (fun T i hT => pivotRowS_sg hspp0 _ pj _ T i hT) _ _ init
  -- second pass
  have pT : SgInv T0.s.length T0.nt q (passTSt T0 (nd.sign.set pi .zero) pi pj).1
      (passTSt T0 (nd.sign.set pi .zero) pi pj).2 := by
    unfold passTSt
    exact foldl_preserves_mem (fun s : Tableau × List RowSign => SgInv T0.s.length T0.nt q s.1 s.2)
      (pivotRowT (mrow T0.t pi) (mget T0.s pi pj) pj) (rowsDown T0.s.length)
      (fun a i hi ha => pivotRowT_sg hspp0 hq0 _ pj a (mem_rowsDown.mp hi) ha) _ pS
  -- third pass
  have pC : SgInv T0.s.length T0.nt q (pivotPasses T0 (nd.sign.set pi .zero) pi pj)
      (passTSt T0 (nd.sign.set pi .zero) pi pj).2 := by
    unfold pivotPasses
    split
    · exact foldl_preserves
        (fun T => SgInv T0.s.length T0.nt q T (passTSt T0 (nd.sign.set pi .zero) pi pj).2)
        (pivotRowC (mget T0.s pi pj) T0.den pj)
        (fun T i hT => pivotRowC_sg hspp0 _ pj _ T i hT) _ _ pT
    · exact pT
  exact pC.signs

end PPLV.PIPCore.Piv
