import PPLV.Solver.PendingProofsCand

/-!
# C06 stage 3 (d) — a pivot keeps the tableau canonical, feasible and the objective unchanged

`Canon t`: the invariant of the simplex loop of `MIP_Problem` — every row has a basic column (non-zero
in its own row, zero in every other row and in the cost row), the sign column is zero in the rows and
non-zero in the cost row, the basic solution is non-negative.

* `pivot_canon`: a pivot on a candidate column and the row chosen by `get_exiting_base_index`
  preserves `Canon`;
* `pivot_objAt`: the objective denoted by the cost row is the same function on the solution set.
-/
namespace PPLV.Solver.Pend
open PPLV.Lin PPLV.Solver.Tab

structure Canon (t : Tab) : Prop where
  lenB : t.base.length = t.T.length
  len2 : 2 ≤ t.cost.length
  rowLen : ∀ i, i < t.T.length → (t.T.getD i []).length = t.cost.length
  baseRange : ∀ i, i < t.T.length → 1 ≤ t.base.getD i 0 ∧ t.base.getD i 0 < t.cost.length - 1
  basicNZ : ∀ i, i < t.T.length → (t.T.getD i []).get (t.base.getD i 0) ≠ 0
  basicCol : ∀ i j, i < t.T.length → j < t.T.length → i ≠ j → (t.T.getD j []).get (t.base.getD i 0) = 0
  costBasic : ∀ i, i < t.T.length → t.cost.get (t.base.getD i 0) = 0
  lastZero : ∀ i, i < t.T.length → (t.T.getD i []).get (t.cost.length - 1) = 0
  signNZ : t.cost.get (t.cost.length - 1) ≠ 0
  feas : ∀ i, i < t.T.length →
    0 ≤ -(((t.T.getD i []).get 0 : Int) : Rat) / (((t.T.getD i []).get (t.base.getD i 0) : Int) : Rat)

/-- the objective a cost row denotes (for valuations with `x 0 = 1` and `x last = 0`) -/
def objAt (cost : Row) (x : Val) : Rat := dot cost x / ((cost.get (cost.length - 1) : Int) : Rat)

/-- the objective value at the basic solution -/
def basicObj (cost : Row) : Rat := ((cost.get 0 : Int) : Rat) / ((cost.get (cost.length - 1) : Int) : Rat)

theorem sgn_ne_zero {a : Int} (h : a ≠ 0) : sgn a ≠ 0 := by
  unfold sgn; split <;> (try split) <;> omega

theorem sgn_eq_zero_iff (a : Int) : sgn a = 0 ↔ a = 0 := by
  unfold sgn; split <;> (try split) <;> omega

theorem Canon.base_inj {t : Tab} (h : Canon t) {i k : Nat} (hi : i < t.T.length) (hk : k < t.T.length)
    (he : t.base.getD i 0 = t.base.getD k 0) : i = k := by
  by_contra hne
  have := h.basicCol i k hi hk hne
  rw [he] at this
  exact h.basicNZ k hk this

theorem candidate_facts {t : Tab} (h : Canon t) {e : Nat} (hc : isCandidate t.cost e = true) :
    1 ≤ e ∧ e < t.cost.length - 1 ∧ t.cost.get e ≠ 0 ∧ ∀ i, i < t.T.length → t.base.getD i 0 ≠ e := by
  obtain ⟨h1, h2, h3⟩ := (isCandidate_iff _ _).mp hc
  have hne : t.cost.get e ≠ 0 := by
    intro h0
    rw [h0] at h3
    have : sgn (t.cost.get (t.cost.length - 1)) = 0 := by rw [← h3]; rfl
    exact h.signNZ ((sgn_eq_zero_iff _).mp this)
  exact ⟨h1, h2, hne, fun i hi hb => hne (hb ▸ h.costBasic i hi)⟩

theorem eligible_facts {T : List Row} {base : List Nat} {e i : Nat} (h : eligible T base e i = true) :
    (T.getD i []).get e ≠ 0 ∧ sgn ((T.getD i []).get e) = sgn ((T.getD i []).get (base.getD i 0)) := by
  refine ⟨eligible_ne T base e i h, ?_⟩
  unfold eligible at h
  simp only [Bool.and_eq_true, bne_iff_ne, beq_iff_eq] at h
  exact h.2

theorem getD_set_nat (l : List Nat) (r e i : Nat) (hr : r < l.length) :
    (l.set r e).getD i 0 = if i = r then e else l.getD i 0 := by
  rw [List.getD_eq_getElem?_getD, List.getElem?_set, List.getD_eq_getElem?_getD]
  by_cases h : r = i
  · subst h; simp [hr]
  · have h' : ¬ i = r := fun a => h a.symm
    simp [h, h']

theorem pivot_base_getD (t : Tab) (e r i : Nat) (hr : r < t.base.length) :
    (pivot t e r).base.getD i 0 = if i = r then e else t.base.getD i 0 := by
  unfold pivot pivotBase; exact getD_set_nat _ _ _ _ hr

theorem pivot_T_length (t : Tab) (e r : Nat) : (pivot t e r).T.length = t.T.length := by
  unfold pivot; exact pivotRows_length _ _ _

/-! ### arithmetic of one pivot -/

theorem nonneg_of_same_sign (r0 re rb : Int) (hre : re ≠ 0) (hs : sgn re = sgn rb)
    (hv : 0 ≤ -(r0 : Rat) / (rb : Rat)) : 0 ≤ -(r0 : Rat) / (re : Rat) := by
  rcases (sgn_eq_iff re rb hre).mp hs with ⟨h1, h2⟩ | ⟨h1, h2⟩
  · have h2q : (0 : Rat) < (rb : Rat) := by exact_mod_cast h2
    have h1q : (0 : Rat) < (re : Rat) := by exact_mod_cast h1
    have : 0 ≤ -(r0 : Rat) := by
      have := mul_nonneg hv (le_of_lt h2q)
      rwa [div_mul_cancel₀ _ (ne_of_gt h2q)] at this
    exact div_nonneg this (le_of_lt h1q)
  · have h2q : (rb : Rat) < 0 := by exact_mod_cast h2
    have h1q : (re : Rat) < 0 := by exact_mod_cast h1
    have : -(r0 : Rat) ≤ 0 := by
      have := mul_nonpos_of_nonneg_of_nonpos hv (le_of_lt h2q)
      rwa [div_mul_cancel₀ _ (ne_of_lt h2q)] at this
    exact div_nonneg_of_nonpos this (le_of_lt h1q)

theorem ratio_eq_of_nonneg (r0 re : Int) (hv : 0 ≤ -(r0 : Rat) / (re : Rat)) :
    ((r0.natAbs : Nat) : Rat) / ((re.natAbs : Nat) : Rat) = -(r0 : Rat) / (re : Rat) := by
  rw [Nat.cast_natAbs, Nat.cast_natAbs]
  push_cast
  rw [← abs_neg (r0 : Rat), ← abs_div, abs_of_nonneg hv]

theorem feas_after (a0 ae ab r0 re n0 nb d g nx ny : Int) (hd : 0 < d) (hg : g ≠ 0)
    (hx : g * nx = ae) (hy : g * ny = re) (hny : ny ≠ 0) (hab : ab ≠ 0)
    (h0 : d * n0 = -ny * a0 + nx * r0) (hb : d * nb = -ny * ab) :
    -(n0 : Rat) / (nb : Rat) = (-(a0 : Rat) - (ae : Rat) * (-(r0 : Rat) / (re : Rat))) / (ab : Rat) := by
  have h0q : (d : Rat) * n0 = -(ny : Rat) * a0 + nx * r0 := by exact_mod_cast h0
  have hbq : (d : Rat) * nb = -(ny : Rat) * ab := by exact_mod_cast hb
  have hxq : (g : Rat) * nx = ae := by exact_mod_cast hx
  have hyq : (g : Rat) * ny = re := by exact_mod_cast hy
  have hdq : (d : Rat) ≠ 0 := by exact_mod_cast (ne_of_gt hd)
  have hgq : (g : Rat) ≠ 0 := by exact_mod_cast hg
  have hnyq : (ny : Rat) ≠ 0 := by exact_mod_cast hny
  have habq : (ab : Rat) ≠ 0 := by exact_mod_cast hab
  have hn0 : (n0 : Rat) = (-(ny : Rat) * a0 + nx * r0) / d := by rw [← h0q]; field_simp
  have hnb : (nb : Rat) = (-(ny : Rat) * ab) / d := by rw [← hbq]; field_simp
  rw [hn0, hnb, ← hxq, ← hyq]
  field_simp
  ring

/-! ### `pivot` preserves `Canon` -/

section PivotStep
variable {t : Tab} {e r : Nat}

/-- the rows of the new tableau -/
theorem pivot_row (t : Tab) (e r i : Nat) (hi : i < t.T.length) :
    (pivot t e r).T.getD i [] =
      if i != r && (t.T.getD i []).get e != 0 then linearCombine (t.T.getD i []) (t.T.getD r []) e
      else t.T.getD i [] := by
  unfold pivot; exact pivotRows_getD _ _ _ _ hi

theorem pivot_row_self (t : Tab) (e r : Nat) (hr : r < t.T.length) :
    (pivot t e r).T.getD r [] = t.T.getD r [] := by
  rw [pivot_row t e r r hr]; simp

theorem pivot_cost (t : Tab) (e r : Nat) (he : t.cost.get e ≠ 0) :
    (pivot t e r).cost = linearCombine t.cost (t.T.getD r []) e := by
  unfold pivot pivotCost
  simp [he]

/-- a column where both the row and the pivot row vanish stays zero; in general a positive multiple
    of the new entry is the integer combination -/
theorem pivot_row_entry (t : Tab) (e r i : Nat) (hi : i < t.T.length) (hir : i ≠ r)
    (hie : (t.T.getD i []).get e ≠ 0) :
    ∃ d : Int, 0 < d ∧ ∀ j, d * ((pivot t e r).T.getD i []).get j =
      -(lcNy (t.T.getD i []) (t.T.getD r []) e) * (t.T.getD i []).get j +
        lcNx (t.T.getD i []) (t.T.getD r []) e * (t.T.getD r []).get j := by
  have hc : (i != r && (t.T.getD i []).get e != 0) = true := by
    rw [Bool.and_eq_true]; exact ⟨bne_iff_ne.mpr hir, bne_iff_ne.mpr hie⟩
  rw [pivot_row t e r i hi, if_pos hc]
  obtain ⟨d, hd, h1, -, -⟩ := linearCombine_spec (t.T.getD i []) (t.T.getD r []) e
  exact ⟨d, hd, h1⟩

theorem pivot_canon (hC : Canon t) (hc : isCandidate t.cost e = true)
    (hr : exitingIndex t.T t.base e = some r) : Canon (pivot t e r) ∧ (pivot t e r).cost.length = t.cost.length := by
  obtain ⟨he1, he2, hce, hnb⟩ := candidate_facts hC hc
  obtain ⟨hrl, hel, hmin⟩ := exitingIndex_some t.T t.base e r hr
  obtain ⟨hre, hrs⟩ := eligible_facts hel
  have hrb : r < t.base.length := by rw [hC.lenB]; exact hrl
  -- the new cost row
  have hcost := pivot_cost t e r hce
  obtain ⟨dc, hdc, hc1, -, hc3⟩ := linearCombine_spec t.cost (t.T.getD r []) e
  obtain ⟨gc, hgc, -, hgy, hnyc⟩ := lcN_spec t.cost (t.T.getD r []) e hre
  have hlen : (pivot t e r).cost.length = t.cost.length := by
    rw [hcost, hc3, hC.rowLen r hrl]; simp
  refine ⟨?_, hlen⟩
  have hTl := pivot_T_length t e r
  -- entries of a combined row at a column where the pivot row vanishes
  have zero_of (i : Nat) (hi : i < t.T.length) (j : Nat) (h1 : (t.T.getD i []).get j = 0)
      (h2 : (t.T.getD r []).get j = 0) : ((pivot t e r).T.getD i []).get j = 0 := by
    by_cases hir : i = r
    · rw [hir, pivot_row_self t e r hrl]; rw [hir] at h1; exact h1
    · by_cases hie : (t.T.getD i []).get e = 0
      · have hcnd : (i != r && (t.T.getD i []).get e != 0) = false := by rw [hie]; simp
        rw [pivot_row t e r i hi, hcnd]; exact h1
      · obtain ⟨d, hd, hent⟩ := pivot_row_entry t e r i hi hir hie
        have := hent j
        rw [h1, h2, mul_zero, mul_zero, add_zero] at this
        rcases Int.mul_eq_zero.mp this with h | h
        · omega
        · exact h
  constructor
  · -- lenB
    rw [hTl]; unfold pivot pivotBase; simp [hC.lenB]
  · rw [hlen]; exact hC.len2
  · -- rowLen
    intro i hi
    rw [hTl] at hi
    rw [hlen, pivot_row t e r i hi]
    split
    · obtain ⟨-, -, -, -, h3⟩ := linearCombine_spec (t.T.getD i []) (t.T.getD r []) e
      rw [h3, hC.rowLen i hi, hC.rowLen r hrl]; simp
    · exact hC.rowLen i hi
  · -- baseRange
    intro i hi
    rw [hTl] at hi
    rw [hlen, pivot_base_getD t e r i hrb]
    split
    · exact ⟨he1, he2⟩
    · exact hC.baseRange i hi
  · -- basicNZ
    intro i hi
    rw [hTl] at hi
    rw [pivot_base_getD t e r i hrb]
    by_cases hir : i = r
    · rw [if_pos hir, hir, pivot_row_self t e r hrl]; exact hre
    · rw [if_neg hir]
      by_cases hie : (t.T.getD i []).get e = 0
      · have hcnd : (i != r && (t.T.getD i []).get e != 0) = false := by rw [hie]; simp
        rw [pivot_row t e r i hi, hcnd]; exact hC.basicNZ i hi
      · obtain ⟨d, hd, hent⟩ := pivot_row_entry t e r i hi hir hie
        obtain ⟨g, hg, -, -, hny⟩ := lcN_spec (t.T.getD i []) (t.T.getD r []) e hre
        have := hent (t.base.getD i 0)
        rw [hC.basicCol i r hi hrl hir, mul_zero, add_zero] at this
        intro h0
        rw [h0, mul_zero] at this
        rcases Int.mul_eq_zero.mp this.symm with h | h
        · exact hny (by omega)
        · exact hC.basicNZ i hi h
  · -- basicCol
    intro i j hi hj hij
    rw [hTl] at hi hj
    rw [pivot_base_getD t e r i hrb]
    by_cases hir : i = r
    · rw [if_pos hir]
      have hjr : j ≠ r := fun h => hij (hir.trans h.symm)
      unfold pivot; exact pivotRows_column t.T e r j hj hjr
    · rw [if_neg hir]
      by_cases hjr : j = r
      · rw [hjr, pivot_row_self t e r hrl]; exact hC.basicCol i r hi hrl hir
      · exact zero_of j hj _ (hC.basicCol i j hi hj hij) (hC.basicCol i r hi hrl hir)
  · -- costBasic
    intro i hi
    rw [hTl] at hi
    rw [pivot_base_getD t e r i hrb, hcost]
    by_cases hir : i = r
    · rw [if_pos hir]; exact linearCombine_get _ _ _
    · rw [if_neg hir]
      have := hc1 (t.base.getD i 0)
      rw [hC.costBasic i hi, hC.basicCol i r hi hrl hir, mul_zero, mul_zero, add_zero] at this
      rcases Int.mul_eq_zero.mp this with h | h
      · omega
      · exact h
  · -- lastZero
    intro i hi
    rw [hTl] at hi
    rw [hlen]
    exact zero_of i hi _ (hC.lastZero i hi) (hC.lastZero r hrl)
  · -- signNZ
    rw [hlen, hcost]
    have := hc1 (t.cost.length - 1)
    rw [hC.lastZero r hrl, mul_zero, add_zero] at this
    intro h0
    rw [h0, mul_zero] at this
    rcases Int.mul_eq_zero.mp this.symm with h | h
    · exact hnyc (by omega)
    · exact hC.signNZ h
  · -- feasibility of the new basic solution
    intro i hi
    rw [hTl] at hi
    rw [pivot_base_getD t e r i hrb]
    have hvr := hC.feas r hrl
    have hθ := nonneg_of_same_sign _ _ _ hre hrs hvr
    by_cases hir : i = r
    · rw [if_pos hir, hir, pivot_row_self t e r hrl]; exact hθ
    · rw [if_neg hir]
      by_cases hie : (t.T.getD i []).get e = 0
      · have hcnd : (i != r && (t.T.getD i []).get e != 0) = false := by rw [hie]; simp
        rw [pivot_row t e r i hi, hcnd]; exact hC.feas i hi
      · obtain ⟨d, hd, hent⟩ := pivot_row_entry t e r i hi hir hie
        obtain ⟨g, hg, hgx, hgy', hny⟩ := lcN_spec (t.T.getD i []) (t.T.getD r []) e hre
        have h0 := hent 0
        have hb := hent (t.base.getD i 0)
        rw [hC.basicCol i r hi hrl hir, mul_zero, add_zero] at hb
        rw [feas_after _ _ _ _ _ _ _ d g _ _ hd hg hgx hgy' hny (hC.basicNZ i hi) h0 hb]
        apply ratio_step_nonneg _ _ _ _ (hC.basicNZ i hi) hθ (hC.feas i hi)
        rintro ⟨ha, hs⟩
        have heli : eligible t.T t.base e i = true := by
          unfold eligible
          simp only [Bool.and_eq_true, bne_iff_ne, beq_iff_eq]
          exact ⟨sgn_ne_zero ha, hs⟩
        have hle : ratio t.T e r ≤ ratio t.T e i := by
          rcases hmin i hi heli with h | ⟨h, -⟩
          · exact le_of_lt h
          · exact le_of_eq h
        unfold ratio at hle
        rw [ratio_eq_of_nonneg _ _ hθ] at hle
        exact hle

/-- the objective denoted by the cost row does not change on the solution set -/
theorem pivot_objAt (hC : Canon t) (hc : isCandidate t.cost e = true)
    (hr : exitingIndex t.T t.base e = some r) (x : Val) (hx : Sol t.T x) :
    objAt (pivot t e r).cost x = objAt t.cost x := by
  obtain ⟨he1, he2, hce, hnb⟩ := candidate_facts hC hc
  obtain ⟨hrl, hel, -⟩ := exitingIndex_some t.T t.base e r hr
  obtain ⟨hre, -⟩ := eligible_facts hel
  have hcost := pivot_cost t e r hce
  obtain ⟨dc, hdc, hc1, hc2, hc3⟩ := linearCombine_spec t.cost (t.T.getD r []) e
  obtain ⟨gc, hgc, -, hgy, hnyc⟩ := lcN_spec t.cost (t.T.getD r []) e hre
  have hlen : (pivot t e r).cost.length = t.cost.length := by
    rw [hcost, hc3, hC.rowLen r hrl]; simp
  unfold objAt
  rw [hlen, hcost]
  have h1 := hc1 (t.cost.length - 1)
  rw [hC.lastZero r hrl, mul_zero, add_zero] at h1
  have h2 := hc2 x
  have hrx : dot (t.T.getD r []) x = 0 := hx r hrl
  rw [hrx, mul_zero, add_zero] at h2
  have h1q : (dc : Rat) * ((linearCombine t.cost (t.T.getD r []) e).get (t.cost.length - 1) : Int) =
      -((lcNy t.cost (t.T.getD r []) e : Int) : Rat) * ((t.cost.get (t.cost.length - 1) : Int) : Rat) := by
    exact_mod_cast h1
  have hdq : (dc : Rat) ≠ 0 := by exact_mod_cast (ne_of_gt hdc)
  have hnq : ((lcNy t.cost (t.T.getD r []) e : Int) : Rat) ≠ 0 := by exact_mod_cast hnyc
  have hsq : ((t.cost.get (t.cost.length - 1) : Int) : Rat) ≠ 0 := by exact_mod_cast hC.signNZ
  have e1 : dot (linearCombine t.cost (t.T.getD r []) e) x =
      -((lcNy t.cost (t.T.getD r []) e : Int) : Rat) * dot t.cost x / dc := by
    rw [← h2]; field_simp
  have e2 : (((linearCombine t.cost (t.T.getD r []) e).get (t.cost.length - 1) : Int) : Rat) =
      -((lcNy t.cost (t.T.getD r []) e : Int) : Rat) * ((t.cost.get (t.cost.length - 1) : Int) : Rat) / dc := by
    rw [← h1q]; field_simp
  rw [e1, e2]
  field_simp

end PivotStep

end PPLV.Solver.Pend
