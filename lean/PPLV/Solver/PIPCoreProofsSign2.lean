import PPLV.Solver.PIPCoreProofsSign
import Mathlib.Tactic.Linarith
import Mathlib.Tactic.Ring
/-!
# C07 core — sign family, part 2: `Sparse_Row::normalize` and `integral_simplification` keep the
meaning of a context row (`row · (1, params) ≥ 0`) for integer parameters

* `rowNormalizeAll_sign`          : Sparse_Row.cc:212 / the `Constraint` normalisation
* `integralSimplification_equiv`  : PIP_Tree.cc:586-611 — FALSE as first stated for a row whose parameter
  coefficients are all 0 and whose constant term is negative (the C++ asserts that there is a non-zero
  parameter coefficient; the model then rounds the constant term to 0): counterexample
  `integralSimplification_equiv_fails`, corrected statement `integralSimplification_equiv`, and
  `integralSimplification_equiv_of_mixed` for the rows the solver applies it to (sign `MIXED`).
-/
namespace PPLV.PIPCore

/-! ### gcd of a row -/

theorem gcdI_nonneg (a b : Int) : 0 ≤ gcdI a b := by unfold gcdI; exact Int.natCast_nonneg _
theorem gcdI_dvd_left (a b : Int) : gcdI a b ∣ a := by unfold gcdI; exact Int.gcd_dvd_left ..
theorem gcdI_dvd_right (a b : Int) : gcdI a b ∣ b := by unfold gcdI; exact Int.gcd_dvd_right ..

theorem rowGcd_nil (g : Int) : rowGcd g [] = g := rfl
theorem rowGcd_cons (g a : Int) (as : Row) : rowGcd g (a :: as) = rowGcd (gcdI g a) as := rfl

theorem rowGcd_dvd : ∀ (r : Row) (g : Int), rowGcd g r ∣ g ∧ ∀ a ∈ r, rowGcd g r ∣ a
  | [], g => ⟨by rw [rowGcd_nil], by simp⟩
  | a :: as, g => by
    have ih := rowGcd_dvd as (gcdI g a)
    rw [rowGcd_cons]
    refine ⟨Int.dvd_trans ih.1 (gcdI_dvd_left g a), ?_⟩
    intro b hb
    rcases List.mem_cons.1 hb with rfl | hb
    · exact Int.dvd_trans ih.1 (gcdI_dvd_right g b)
    · exact ih.2 b hb

theorem rowGcd_nonneg : ∀ (r : Row) (g : Int), 0 ≤ g → 0 ≤ rowGcd g r
  | [], g, h => by rw [rowGcd_nil]; exact h
  | a :: as, g, _ => by rw [rowGcd_cons]; exact rowGcd_nonneg as _ (gcdI_nonneg g a)

theorem rowGcd_zero_all_zero {r : Row} (h : rowGcd 0 r = 0) : ∀ a ∈ r, a = 0 := by
  intro a ha
  have := (rowGcd_dvd r 0).2 a ha
  rw [h] at this
  exact Int.zero_dvd.1 this

/-! ### dividing a row by a common divisor -/

theorem dot_map_div (g : Int) (hg : g ≠ 0) : ∀ (r q : List Int), (∀ a ∈ r, g ∣ a) →
    dot r q = g * dot (r.map (· / g)) q
  | [], q, _ => by simp [dot_nil_left]
  | a :: as, [], _ => by simp [dot_nil_right]
  | a :: as, b :: bs, h => by
    have h1 : g ∣ a := h a (by simp)
    have ih := dot_map_div g hg as bs (fun a ha => h a (by simp [ha]))
    have e : g * (a / g) = a := Int.mul_ediv_cancel' h1
    simp only [List.map_cons, dot_cons]
    rw [ih, Int.mul_add, ← Int.mul_assoc, e]

theorem dvd_dot (g : Int) : ∀ (r q : List Int), (∀ a ∈ r, g ∣ a) → g ∣ dot r q
  | [], q, _ => by simp [dot_nil_left]
  | a :: as, [], _ => by simp [dot_nil_right]
  | a :: as, b :: bs, h => by
    rw [dot_cons]
    exact Int.dvd_add (Dvd.dvd.mul_right (h a (by simp)) b)
      (dvd_dot g as bs (fun a ha => h a (by simp [ha])))

/-- `normalize` divides the row by a positive number -/
theorem rowNormalizeAll_dot (r : Row) :
    ∃ g : Int, 0 < g ∧ ∀ q, dot r q = g * dot (rowNormalizeAll r) q := by
  unfold rowNormalizeAll
  by_cases h : rowGcd 0 r = 0 ∨ rowGcd 0 r = 1
  · simp only [h, if_true]
    exact ⟨1, by decide, fun q => by simp⟩
  · simp only [h, if_false]
    have hnn := rowGcd_nonneg r 0 (Int.le_refl 0)
    have hpos : 0 < rowGcd 0 r := by
      rcases Int.lt_or_eq_of_le hnn with h1 | h1
      · exact h1
      · exact absurd (Or.inl h1.symm) h
    exact ⟨rowGcd 0 r, hpos, fun q => dot_map_div _ (by omega) r q (rowGcd_dvd r 0).2⟩

theorem mul_nonneg_iff_of_pos {g d : Int} (hg : 0 < g) : 0 ≤ g * d ↔ 0 ≤ d := by
  constructor
  · intro h
    by_contra hd
    have : g * d < 0 := Int.mul_neg_of_pos_of_neg hg (by omega)
    omega
  · intro h; exact Int.mul_nonneg (by omega) h

/-- **`normalize` keeps the meaning of `r · q ≥ 0`** (any `q`; `dot` cuts to the shorter list) -/
theorem rowNormalizeAll_sign (r : Row) (q : List Int) :
    0 ≤ dot (rowNormalizeAll r) q ↔ 0 ≤ dot r q := by
  obtain ⟨g, hg, h⟩ := rowNormalizeAll_dot r
  rw [h q]; exact (mul_nonneg_iff_of_pos hg).symm

theorem rowNormalizeAll_neg (r : Row) (q : List Int) :
    dot (rowNormalizeAll r) q < 0 ↔ dot r q < 0 := by
  have := rowNormalizeAll_sign r q
  omega

theorem rowNormalizeAll_length (r : Row) : (rowNormalizeAll r).length = r.length := by
  by_cases h : rowGcd 0 r = 0 ∨ rowGcd 0 r = 1 <;> simp [rowNormalizeAll, h]

example : rowNormalizeAll [4, -6, 2] = [2, -3, 1] ∧ (0 ≤ dot (rowNormalizeAll [4, -6, 2]) [1, 1, 5]) := by decide

/-- a context stays satisfied when a normalised row is appended (`add_constraint`, and the context
    row added at a decision node) -/
theorem ctxSat_append_iff (ctx : Mat) (r : Row) (q : List Int) :
    CtxSat (ctx ++ [r]) q ↔ CtxSat ctx q ∧ 0 ≤ dot r q := by
  unfold CtxSat
  constructor
  · intro h
    exact ⟨fun r' hr' => h r' (by simp [hr']), h r (by simp)⟩
  · rintro ⟨h1, h2⟩ r' hr'
    rcases List.mem_append.1 hr' with h | h
    · exact h1 r' h
    · simp at h; subst h; exact h2

/-! ### `integral_simplification` -/

theorem integralSimplification_cons (c : Int) (as : Row) :
    integralSimplification (c :: as) =
      rowNormalizeAll (if c ≠ 0 then
        (if rowGcd 0 as ≠ 1 then (c - c.emod (rowGcd 0 as)) :: as else c :: as) else c :: as) := by
  simp only [integralSimplification, rget, rset, posRem, List.getD_cons_zero, List.drop_succ_cons,
    List.drop_zero, List.set_cons_zero]

/-- **`integral_simplification` keeps the meaning of `row · (1, params) ≥ 0` for INTEGER parameters**
    (the constant term is rounded down to a multiple of the gcd `g` of the parameter coefficients;
    `Σ coefficient · parameter` is a multiple of `g`).  The hypothesis `hz` is the precondition the C++
    asserts ("there should be one" non-zero parameter coefficient when the constant term is not 0), in its
    weakest form; without it the statement is false: `integralSimplification_equiv_fails`. -/
theorem integralSimplification_equiv {row : Row} {q : List Int} (hq : q.head? = some 1)
    (hlen : row.length = q.length) (hz : rowGcd 0 (row.drop 1) = 0 → 0 ≤ rget row 0) :
    0 ≤ dot (integralSimplification row) q ↔ 0 ≤ dot row q := by
  obtain ⟨ps, rfl⟩ := head_one_form hq
  cases row with
  | nil => simp at hlen
  | cons c as =>
    rw [integralSimplification_cons, rowNormalizeAll_sign]
    by_cases hc : c = 0
    · simp [hc]
    · simp only [ne_eq, hc, not_false_eq_true, if_true]
      by_cases hg1 : rowGcd 0 as = 1
      · simp [hg1]
      · simp only [hg1, not_false_eq_true, if_true]
        rw [dot_cons, dot_cons]
        by_cases hg0 : rowGcd 0 as = 0
        · have hc0 : 0 ≤ c := by simpa [rget] using hz (by simpa using hg0)
          have hd : dot as ps = 0 := dot_zero _ _ (rowGcd_zero_all_zero hg0)
          have e0 : c.emod 0 = c := Int.emod_zero c
          rw [hg0, hd, e0]
          constructor <;> intro _ <;> omega
        · have hgpos : 0 < rowGcd 0 as := by
            have := rowGcd_nonneg as 0 (Int.le_refl 0); omega
          obtain ⟨k, hk⟩ := dvd_dot _ as ps (rowGcd_dvd as 0).2
          generalize rowGcd 0 as = g at *
          rw [hk]
          have hm0 : 0 ≤ c.emod g := Int.emod_nonneg c (by omega)
          have hm1 : c.emod g < g := Int.emod_lt_of_pos c hgpos
          have hdef : g * (c / g) + c.emod g = c := Int.mul_ediv_add_emod c g
          have e1 : (c - c.emod g) * 1 + g * k = g * (c / g + k) := by
            have : c - c.emod g = g * (c / g) := by omega
            rw [this]; ring
          have e2 : c * 1 + g * k = g * (c / g + k) + c.emod g := by
            have : c = g * (c / g) + c.emod g := by omega
            conv => lhs; rw [this]
            ring
          rw [e1, e2, mul_nonneg_iff_of_pos hgpos]
          constructor
          · intro h
            have := Int.mul_nonneg (Int.le_of_lt hgpos) h
            omega
          · intro h
            by_contra hneg
            have h1 : c / g + k ≤ -1 := by omega
            have h2 : g * (c / g + k) ≤ g * (-1) := Int.mul_le_mul_of_nonneg_left h1 (Int.le_of_lt hgpos)
            omega

example : integralSimplification [5, 4, -6] = [2, 2, -3]
    ∧ (0 ≤ dot (integralSimplification [5, 4, -6]) [1, 1, 2] ↔ 0 ≤ dot [5, 4, -6] [1, 1, 2]) := by decide
example : rowGcd 0 (([5, 4, -6] : Row).drop 1) = 0 → 0 ≤ rget [5, 4, -6] 0 := by decide
-- the rounding matters: 3 + 4p - 6r ≥ 0 and 2 + 4p - 6r ≥ 0 agree on the integers, not on the rationals
example : integralSimplification [3, 4, -6] = [1, 2, -3] := by decide

/-- the statement without the precondition is false: the constant row `-1` (no parameter occurs) is turned
    into the zero row, i.e. `-1 ≥ 0` into `0 ≥ 0`.  (In the C++ this input violates the assertion at
    PIP_Tree.cc:594/596 and the search loop runs off the end of the row.) -/
theorem integralSimplification_equiv_fails :
    ∃ (row : Row) (q : List Int), q.head? = some 1 ∧ row.length = q.length ∧
      ¬ (0 ≤ dot (integralSimplification row) q ↔ 0 ≤ dot row q) :=
  ⟨[-1, 0], [1, 0], rfl, rfl, by decide⟩

/-! ### the rows the solver simplifies have sign `MIXED`: the precondition holds for them -/

theorem rowSignScan_all_zero : ∀ (as : Row) (sg : RowSign), (∀ a ∈ as, a = 0) → rowSignScan as sg = some sg
  | [], sg, _ => rfl
  | a :: as, sg, h => by
    have h0 : a = 0 := h a (by simp)
    subst h0
    unfold rowSignScan
    simp only [gt_iff_lt, Int.lt_irrefl, if_false]
    exact rowSignScan_all_zero as sg (fun a ha => h a (by simp [ha]))

/-- a row with a non-zero constant term and no parameter is not `MIXED` (whatever the big parameter) -/
theorem rowSign_mixed_gcd {x : Row} {big : Option Nat} (h : rowSign x big = .mixed) :
    rowGcd 0 (x.drop 1) = 0 → rget x 0 = 0 := by
  intro hg
  by_contra hc
  cases x with
  | nil => simp [rget] at hc
  | cons c as =>
    have hz : ∀ a ∈ as, a = 0 := rowGcd_zero_all_zero (by simpa using hg)
    have hc' : c ≠ 0 := by simpa [rget] using hc
    have hscan : rowSignScan (c :: as) .zero = some (if c > 0 then .positive else .negative) := by
      unfold rowSignScan
      by_cases h1 : c > 0
      · simp only [h1, if_true, reduceCtorEq, if_false]
        exact rowSignScan_all_zero as _ hz
      · have h2 : c < 0 := by omega
        simp only [h1, h2, if_true, if_false, reduceCtorEq]
        exact rowSignScan_all_zero as _ hz
    unfold rowSign at h
    rw [hscan] at h
    have hr0 : rget (c :: as) 0 = c := rfl
    rw [hr0] at h
    cases big with
    | none =>
      by_cases h1 : c > 0
      · simp [h1] at h
      · simp [h1, hc'] at h
    | some b =>
      by_cases hb1 : rget (c :: as) b > 0
      · simp [hb1] at h
      · by_cases hb2 : rget (c :: as) b < 0
        · simp [hb1, hb2] at h
        · by_cases h1 : c > 0
          · simp [hb1, hb2, h1] at h
          · simp [hb1, hb2, h1, hc'] at h

/-- the form used by `solve`: `t_test` and the `tautology` row come from rows whose sign is `MIXED` -/
theorem integralSimplification_equiv_of_mixed {row : Row} {big : Option Nat} {q : List Int}
    (hm : rowSign row big = .mixed) (hq : q.head? = some 1) (hlen : row.length = q.length) :
    0 ≤ dot (integralSimplification row) q ↔ 0 ≤ dot row q :=
  integralSimplification_equiv hq hlen (fun hg => by rw [rowSign_mixed_gcd hm hg])

example : rowSign [5, 4, -6] none = .mixed := by decide

theorem integralSimplification_length (row : Row) : (integralSimplification row).length = row.length := by
  simp only [integralSimplification]
  rw [rowNormalizeAll_length]
  by_cases h1 : rget row 0 ≠ 0
  · rw [if_pos h1]
    by_cases h2 : rowGcd 0 (row.drop 1) ≠ 1
    · rw [if_pos h2]; simp only [rset, List.length_set]
    · rw [if_neg h2]
  · rw [if_neg h1]

end PPLV.PIPCore
