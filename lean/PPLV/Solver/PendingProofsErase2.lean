import PPLV.Solver.PendingProofsSecond
import PPLV.Solver.PendingProofsErase

/-!
# C06 stage 3 (b2)/(c) — `erase_artificials` leaves a feasible basis

`erasePivot_canonTB`: the pivots of step 1 of `erase_artificials` (on a row whose artificial basic variable is
0, at any non-zero original column) keep the tableau canonical and feasible (`CanonTB`): the basic solution
does not move.  `removeRow_canonTB`: overwriting a row by the last one and dropping the last one keeps it too.
`eraseLoop_canonTB`: hence step 1 keeps `CanonTB` and `ArtInv`, and when the fuel suffices no artificial column
is left in the base; `eraseArtificials_canonTB`: the tableau handed to the second phase holds a feasible basis.
-/
namespace PPLV.Solver.Pend
open PPLV.Lin PPLV.Solver.Tab

/-- a pivot of `erase_artificials`: row `i` has inhomogeneous term 0 and a non-zero entry in the non-basic
    column `j` -/
theorem erasePivot_canonTB {t : Tab} {n i j : Nat} (hC : CanonTB t.T t.base n) (hi : i < t.T.length)
    (hi0 : (t.T.getD i []).get 0 = 0) (hj1 : 1 ≤ j) (hjn : j < n - 1) (hij : (t.T.getD i []).get j ≠ 0) :
    CanonTB (pivot t j i).T (pivot t j i).base n := by
  have hib : i < t.base.length := by rw [hC.lenB]; exact hi
  have hTl := pivot_T_length t j i
  -- j is not basic
  have hnb : ∀ k, k < t.T.length → k ≠ i → t.base.getD k 0 ≠ j := by
    intro k hk hki hb
    have := hC.basicCol k i hk hi hki
    rw [hb] at this; exact hij this
  have zero_of (k : Nat) (hk : k < t.T.length) (col : Nat) (h1 : (t.T.getD k []).get col = 0)
      (h2 : (t.T.getD i []).get col = 0) : ((pivot t j i).T.getD k []).get col = 0 := by
    by_cases hki : k = i
    · rw [hki, pivot_row_self t j i hi]; rw [hki] at h1; exact h1
    · by_cases hke : (t.T.getD k []).get j = 0
      · have hcnd : (k != i && (t.T.getD k []).get j != 0) = false := by rw [hke]; simp
        rw [pivot_row t j i k hk, hcnd]; exact h1
      · obtain ⟨d, hd, hent⟩ := pivot_row_entry t j i k hk hki hke
        have := hent col
        rw [h1, h2, mul_zero, mul_zero, add_zero] at this
        rcases Int.mul_eq_zero.mp this with h | h
        · omega
        · exact h
  constructor
  · rw [hTl]; unfold pivot pivotBase; simp [hC.lenB]
  · exact hC.len2
  · intro k hk
    rw [hTl] at hk
    rw [pivot_row t j i k hk]
    split
    · obtain ⟨-, -, -, -, h3⟩ := linearCombine_spec (t.T.getD k []) (t.T.getD i []) j
      rw [h3, hC.rowLen k hk, hC.rowLen i hi]; simp
    · exact hC.rowLen k hk
  · intro k hk
    rw [hTl] at hk
    rw [pivot_base_getD t j i k hib]
    split
    · exact ⟨hj1, hjn⟩
    · exact hC.baseRange k hk
  · intro k hk
    rw [hTl] at hk
    rw [pivot_base_getD t j i k hib]
    by_cases hki : k = i
    · rw [if_pos hki, hki, pivot_row_self t j i hi]; exact hij
    · rw [if_neg hki]
      by_cases hke : (t.T.getD k []).get j = 0
      · have hcnd : (k != i && (t.T.getD k []).get j != 0) = false := by rw [hke]; simp
        rw [pivot_row t j i k hk, hcnd]; exact hC.basicNZ k hk
      · obtain ⟨d, hd, hent⟩ := pivot_row_entry t j i k hk hki hke
        obtain ⟨g, hg, -, -, hny⟩ := lcN_spec (t.T.getD k []) (t.T.getD i []) j hij
        have := hent (t.base.getD k 0)
        rw [hC.basicCol k i hk hi hki, mul_zero, add_zero] at this
        intro h0
        rw [h0, mul_zero] at this
        rcases Int.mul_eq_zero.mp this.symm with h | h
        · exact hny (by omega)
        · exact hC.basicNZ k hk h
  · intro k m hk hm hkm
    rw [hTl] at hk hm
    rw [pivot_base_getD t j i k hib]
    by_cases hki : k = i
    · rw [if_pos hki]
      have hmi : m ≠ i := fun h => hkm (hki.trans h.symm)
      unfold pivot; exact pivotRows_column t.T j i m hm hmi
    · rw [if_neg hki]
      by_cases hmi : m = i
      · rw [hmi, pivot_row_self t j i hi]; exact hC.basicCol k i hk hi hki
      · exact zero_of m hm _ (hC.basicCol k m hk hm hkm) (hC.basicCol k i hk hi hki)
  · intro k hk
    rw [hTl] at hk
    exact zero_of k hk _ (hC.lastZero k hk) (hC.lastZero i hi)
  · intro k hk
    rw [hTl] at hk
    rw [pivot_base_getD t j i k hib]
    by_cases hki : k = i
    · rw [if_pos hki, hki, pivot_row_self t j i hi, hi0]; simp
    · rw [if_neg hki]
      by_cases hke : (t.T.getD k []).get j = 0
      · have hcnd : (k != i && (t.T.getD k []).get j != 0) = false := by rw [hke]; simp
        rw [pivot_row t j i k hk, hcnd]; exact hC.feas k hk
      · obtain ⟨d, hd, hent⟩ := pivot_row_entry t j i k hk hki hke
        obtain ⟨g, hg, hgx, hgy, hny⟩ := lcN_spec (t.T.getD k []) (t.T.getD i []) j hij
        have h0 := hent 0
        have hb := hent (t.base.getD k 0)
        rw [hC.basicCol k i hk hi hki, mul_zero, add_zero] at hb
        rw [feas_after _ _ _ _ _ _ _ d g _ _ hd hg hgx hgy hny (hC.basicNZ k hk) h0 hb, hi0]
        have := hC.feas k hk
        simpa using this

/-- rows `k ≠ i` of the tableau after row `i` is overwritten by the last row and the last row dropped -/
theorem removeRow_canonTB {T : List Row} {base : List Nat} {n i : Nat} (hC : CanonTB T base n) (hi : i < T.length) :
    CanonTB (if i < T.length - 1 then (T.set i (T.getD (T.length - 1) [])).dropLast else T.dropLast)
      (if i < T.length - 1 then (base.set i (base.getD (T.length - 1) 0)).dropLast else base.dropLast) n := by
  have hib : i < base.length := by rw [hC.lenB]; exact hi
  by_cases hlast : i < T.length - 1
  · rw [if_pos hlast, if_pos hlast]
    -- old index of the new row k
    have hrow : ∀ k, k < T.length - 1 →
        ((T.set i (T.getD (T.length - 1) [])).dropLast.getD k [] = T.getD (if k = i then T.length - 1 else k) []) ∧
        ((base.set i (base.getD (T.length - 1) 0)).dropLast.getD k 0 = base.getD (if k = i then T.length - 1 else k) 0) := by
      intro k hk
      rw [getD_dropLast _ _ _ (by simp; exact hk), getD_set_row _ _ _ _ hi,
        getD_dropLast _ _ _ (by simp; rw [hC.lenB]; exact hk), getD_set_nat' _ _ _ _ hib]
      by_cases hki : k = i
      · simp [hki]
      · simp [hki]
    have hidx : ∀ k, k < T.length - 1 → (if k = i then T.length - 1 else k) < T.length := by
      intro k hk; split <;> omega
    have hinj : ∀ k m, k < T.length - 1 → m < T.length - 1 → k ≠ m →
        (if k = i then T.length - 1 else k) ≠ (if m = i then T.length - 1 else m) := by
      intro k m hk hm hkm; split <;> split <;> omega
    constructor
    · simp [hC.lenB]
    · exact hC.len2
    · intro k hk; simp at hk; rw [(hrow k hk).1]; exact hC.rowLen _ (hidx k hk)
    · intro k hk; simp at hk; rw [(hrow k hk).2]; exact hC.baseRange _ (hidx k hk)
    · intro k hk; simp at hk; rw [(hrow k hk).1, (hrow k hk).2]; exact hC.basicNZ _ (hidx k hk)
    · intro k m hk hm hkm; simp at hk hm
      rw [(hrow m hm).1, (hrow k hk).2]
      exact hC.basicCol _ _ (hidx k hk) (hidx m hm) (hinj k m hk hm hkm)
    · intro k hk; simp at hk; rw [(hrow k hk).1]; exact hC.lastZero _ (hidx k hk)
    · intro k hk; simp at hk; rw [(hrow k hk).1, (hrow k hk).2]; exact hC.feas _ (hidx k hk)
  · rw [if_neg hlast, if_neg hlast]
    have hrow : ∀ k, k < T.length - 1 → (T.dropLast.getD k [] = T.getD k []) ∧ (base.dropLast.getD k 0 = base.getD k 0) := by
      intro k hk
      exact ⟨getD_dropLast _ _ _ hk, getD_dropLast _ _ _ (by rw [hC.lenB]; exact hk)⟩
    constructor
    · simp [hC.lenB]
    · exact hC.len2
    · intro k hk; simp at hk; rw [(hrow k hk).1]; exact hC.rowLen _ (by omega)
    · intro k hk; simp at hk; rw [(hrow k hk).2]; exact hC.baseRange _ (by omega)
    · intro k hk; simp at hk; rw [(hrow k hk).1, (hrow k hk).2]; exact hC.basicNZ _ (by omega)
    · intro k m hk hm hkm; simp at hk hm
      rw [(hrow m hm).1, (hrow k hk).2]
      exact hC.basicCol _ _ (by omega) (by omega) hkm
    · intro k hk; simp at hk; rw [(hrow k hk).1]; exact hC.lastZero _ (by omega)
    · intro k hk; simp at hk; rw [(hrow k hk).1, (hrow k hk).2]; exact hC.feas _ (by omega)

/-- **step 1 of `erase_artificials`** keeps the feasible basis; with enough fuel no artificial column stays
    in the base -/
theorem eraseLoop_canonTB (b e n : Nat) (hb : 1 ≤ b) (hbe : b < e) (he : e = n - 1) :
    ∀ (fuel i : Nat) (t : Tab), CanonTB t.T t.base n → ArtInv b e t →
      (∀ k, k < i → k < t.T.length → ¬ (b ≤ t.base.getD k 0 ∧ t.base.getD k 0 < e)) →
      t.T.length - i ≤ fuel → t.cost.length = n →
      CanonTB (eraseLoop b e fuel i t).T (eraseLoop b e fuel i t).base n ∧
      (∀ k, k < (eraseLoop b e fuel i t).T.length →
        ¬ (b ≤ (eraseLoop b e fuel i t).base.getD k 0 ∧ (eraseLoop b e fuel i t).base.getD k 0 < e)) ∧
      (eraseLoop b e fuel i t).cost.length = n := by
  intro fuel
  induction fuel with
  | zero =>
    intro i t hC _ hdone hfuel hcl
    exact ⟨hC, fun k hk => hdone k (by simp [eraseLoop] at hk ⊢; omega) (by simpa [eraseLoop] using hk), hcl⟩
  | succ fuel ih =>
    intro i t hC hA hdone hfuel hcl
    unfold eraseLoop
    by_cases hi : i < t.T.length
    · rw [if_pos hi]
      simp only
      have hib : i < t.base.length := by rw [hC.lenB]; exact hi
      by_cases hart : (decide (b ≤ t.base.getD i 0) && decide (t.base.getD i 0 < e)) = true
      · rw [if_pos hart]
        simp only [Bool.and_eq_true, decide_eq_true_eq] at hart
        cases hf : firstNonzeroIn (t.T.getD i []) 1 b with
        | some j =>
          simp only
          obtain ⟨hj1, hj2, hj3⟩ := firstNonzeroIn_some hf
          have hi0 := hA.artZero i hi hart.1 hart.2
          have hC' := erasePivot_canonTB hC hi hi0 hj1 (by omega) hj3
          have hA' := pivot_artInv hA hi hart.1 hart.2 hj2
          apply ih (i + 1) (pivot t j i) hC' hA'
          · intro k hk hkl
            rw [pivot_T_length] at hkl
            rw [pivot_base_getD t j i k hib]
            by_cases hki : k = i
            · rw [if_pos hki]; omega
            · rw [if_neg hki]; exact hdone k (by omega) hkl
          · rw [pivot_T_length]; omega
          · unfold pivot pivotCost
            simp only
            split
            · obtain ⟨-, -, -, -, h3⟩ := linearCombine_spec t.cost (t.T.getD i []) j
              rw [h3, hcl, hC.rowLen i hi]; simp
            · exact hcl
        | none =>
          simp only
          have hrm := removeRow_canonTB hC hi
          by_cases hlast : i < t.T.length - 1
          · rw [if_pos hlast]
            rw [if_pos hlast, if_pos hlast] at hrm
            -- ArtInv of the shrunk tableau (as in `eraseLoop_solutions`)
            have hinv : ArtInv b e ⟨(t.T.set i (t.T.getD (t.T.length - 1) [])).dropLast, t.cost,
                (t.base.set i (t.base.getD (t.T.length - 1) 0)).dropLast⟩ := by
              constructor
              · simp [hA.lenB]
              · intro k hk hb1 hb2
                simp only [List.length_dropLast, List.length_set] at hk
                simp only at hb1 hb2 ⊢
                rw [getD_dropLast _ _ _ (by simp; rw [hA.lenB]; exact hk), getD_set_nat' _ _ _ _ hib] at hb1 hb2
                rw [getD_dropLast _ _ _ (by simp; exact hk), getD_set_row _ _ _ _ hi]
                by_cases hki : k = i
                · rw [if_pos hki] at hb1 hb2 ⊢
                  exact hA.artZero _ (by omega) hb1 hb2
                · rw [if_neg hki] at hb1 hb2 ⊢
                  exact hA.artZero k (by omega) hb1 hb2
            apply ih i _ hrm hinv
            · intro k hk hkl
              simp only [List.length_dropLast, List.length_set] at hkl
              simp only
              rw [getD_dropLast _ _ _ (by simp; rw [hC.lenB]; exact hkl), getD_set_nat' _ _ _ _ hib,
                if_neg (by omega)]
              exact hdone k hk (by omega)
            · simp only [List.length_dropLast, List.length_set]; omega
            · exact hcl
          · rw [if_neg hlast]
            rw [if_neg hlast, if_neg hlast] at hrm
            have hinv : ArtInv b e ⟨t.T.dropLast, t.cost, t.base.dropLast⟩ := by
              constructor
              · simp [hA.lenB]
              · intro k hk hb1 hb2
                simp only [List.length_dropLast] at hk
                simp only at hb1 hb2 ⊢
                rw [getD_dropLast _ _ _ (by rw [hA.lenB]; exact hk)] at hb1 hb2
                rw [getD_dropLast _ _ _ hk]
                exact hA.artZero k (by omega) hb1 hb2
            apply ih (i + 1) _ hrm hinv
            · intro k hk hkl
              simp only [List.length_dropLast] at hkl
              simp only
              rw [getD_dropLast _ _ _ (by rw [hC.lenB]; exact hkl)]
              exact hdone k (by omega) (by omega)
            · simp only [List.length_dropLast]; omega
            · exact hcl
      · rw [if_neg hart]
        apply ih (i + 1) t hC hA
        · intro k hk hkl
          by_cases hki : k = i
          · rw [hki]
            intro h
            apply hart
            simp only [Bool.and_eq_true, decide_eq_true_eq]
            exact h
          · exact hdone k (by omega) hkl
        · omega
        · exact hcl
    · rw [if_neg hi]
      exact ⟨hC, fun k hk => hdone k (by omega) hk, hcl⟩

theorem getD_set_int' (l : List Int) (i k : Nat) (a : Int) :
    (l.set i a).getD k 0 = if k = i ∧ i < l.length then a else l.getD k 0 := by
  rw [List.getD_eq_getElem?_getD, List.getElem?_set, List.getD_eq_getElem?_getD]
  by_cases h : i = k
  · subst h
    by_cases hl : i < l.length
    · simp [hl]
    · simp [hl, List.getElem?_eq_none (not_lt.mp hl)]
  · have h' : ¬ (k = i ∧ i < l.length) := fun a => h a.1.symm
    simp [h, h']

/-- (b2)/(c) **after `erase_artificials` the tableau holds a feasible basis** of width `b + 1` -/
theorem eraseArtificials_canonTB (b e numCols : Nat) (t : Tab) (hb : 1 ≤ b) (hbe : b < e) (he : e = numCols - 1)
    (hC : CanonTB t.T t.base numCols) (hA : ArtInv b e t) (hcl : t.cost.length = numCols) :
    CanonTB (eraseArtificials b e numCols t).1.T (eraseArtificials b e numCols t).1.base (b + 1) ∧
    (eraseArtificials b e numCols t).1.cost.length = b + 1 := by
  obtain ⟨h1, h2, h3⟩ := eraseLoop_canonTB b e numCols hb hbe he (t.T.length + 1) 0 t hC hA
    (fun k hk => by omega) (by omega) hcl
  have hnc : numCols - (e - b) = b + 1 := by omega
  unfold eraseArtificials
  simp only [hnc]
  set t1 := eraseLoop b e (t.T.length + 1) 0 t with ht1
  have hrow : ∀ i, i < t1.T.length →
      (t1.T.map fun r => (r.take (b + 1)).set (b + 1 - 1) 0).getD i [] = ((t1.T.getD i []).take (b + 1)).set b 0 := by
    intro i hi
    rw [List.getD_eq_getElem?_getD, List.getElem?_map, List.getD_eq_getElem?_getD, List.getElem?_eq_getElem hi]
    simp
  -- entries of a truncated row below column b
  have hent : ∀ (r : Row) (col : Nat), col < b → Row.get ((r.take (b + 1)).set b 0) col = r.get col := by
    intro r col hcol
    unfold Row.get
    rw [getD_set_int', if_neg (by rintro ⟨h, -⟩; omega), List.getD_eq_getElem?_getD, List.getElem?_take,
      if_pos (by omega), ← List.getD_eq_getElem?_getD]
  have hbase : ∀ k, k < t1.T.length → 1 ≤ t1.base.getD k 0 ∧ t1.base.getD k 0 < b := by
    intro k hk
    have r := h1.baseRange k hk
    have := h2 k hk
    omega
  refine ⟨?_, by simp only [List.length_take, List.length_set]; rw [h3]; omega⟩
  constructor
  · simp [h1.lenB]
  · omega
  · intro i hi
    simp only [List.length_map] at hi
    rw [hrow i hi, List.length_set, List.length_take, h1.rowLen i hi]; omega
  · intro i hi
    simp only [List.length_map] at hi
    have := hbase i hi
    omega
  · intro i hi
    simp only [List.length_map] at hi
    rw [hrow i hi, hent _ _ (hbase i hi).2]; exact h1.basicNZ i hi
  · intro i j hi hj hij
    simp only [List.length_map] at hi hj
    rw [hrow j hj, hent _ _ (hbase i hi).2]; exact h1.basicCol i j hi hj hij
  · intro i hi
    simp only [List.length_map] at hi
    rw [hrow i hi]
    simp only [Nat.add_sub_cancel]
    unfold Row.get
    rw [getD_set_int']
    split
    · rfl
    · rename_i hne
      rw [List.getD_eq_getElem?_getD, List.getElem?_eq_none]; rfl
      have : ¬ b < (List.take (b + 1) (t1.T.getD i [])).length := fun h => hne ⟨rfl, h⟩
      omega
  · intro i hi
    simp only [List.length_map] at hi
    rw [hrow i hi, hent _ 0 (by omega), hent _ _ (hbase i hi).2]; exact h1.feas i hi

end PPLV.Solver.Pend
