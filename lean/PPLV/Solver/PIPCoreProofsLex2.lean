import PPLV.Solver.PIPCoreProofsLex
import Mathlib.Tactic.Linarith
import Mathlib.Tactic.Ring
/-!
# C07 stage 2 — the lexicographic invariant, part 2: a pivot on a lexico-minimal column keeps the columns
lexico-non-negative (`pivot_choice_lexico`, spec level: the pivot is described by `PivotSpec`).
-/
namespace PPLV.PIPCore

/-! ### get / set lemmas -/

theorem Lex.rget_unit (n m : Nat) (d : Int) (c : Nat) (hc : c < n) :
    rget (rset (zeroRow n) m d) c = if c = m then d else 0 := by
  unfold rget rset zeroRow
  rw [List.getD_eq_getElem?_getD, List.getElem?_set]
  by_cases h : m = c
  · subst h; simp [hc]
  · have h' : ¬ c = m := fun e => h e.symm
    simp [h, h', hc]

theorem Lex.natGet_set_same (l : List Nat) (i x : Nat) (h : i < l.length) : natGet (l.set i x) i = x := by
  unfold natGet; rw [List.getD_eq_getElem?_getD, List.getElem?_set]; simp [h]

theorem Lex.natGet_set_ne (l : List Nat) (i k x : Nat) (h : i ≠ k) :
    natGet (l.set i x) k = natGet l k := by
  unfold natGet; rw [List.getD_eq_getElem?_getD, List.getD_eq_getElem?_getD, List.getElem?_set]
  simp [h]

theorem Lex.boolGet_set_same (l : List Bool) (i : Nat) (x : Bool) (h : i < l.length) :
    boolGet (l.set i x) i = x := by
  unfold boolGet; rw [List.getD_eq_getElem?_getD, List.getElem?_set]; simp [h]

theorem Lex.boolGet_set_ne (l : List Bool) (i k : Nat) (x : Bool) (h : i ≠ k) :
    boolGet (l.set i x) k = boolGet l k := by
  unfold boolGet; rw [List.getD_eq_getElem?_getD, List.getD_eq_getElem?_getD, List.getElem?_set]
  simp [h]

/-! ### combinations of lexico-non-negative columns -/

theorem Lex.sign_of_mul_eq (E spp f X : Int) (hspp : 0 < spp) (hf : 0 < f) (h : E * spp = f * X) :
    (0 < X → 0 < E) ∧ (X = 0 → E = 0) := by
  constructor
  · intro hX
    have h1 : 0 < E * spp := by rw [h]; exact mul_pos hf hX
    by_contra hE
    have : E * spp ≤ 0 := by nlinarith
    omega
  · intro hX
    rw [hX, mul_zero] at h
    rcases Int.mul_eq_zero.mp h with h | h
    · exact h
    · omega

/-- a column that is a positive multiple (after clearing the positive factor `spp`) of a
    lexico-non-negative column -/
theorem Lex.lexnn_scale (F0 F' : Nat → Row) (j : Nat) (c spp : Int) (hc : 0 < c) (hspp : 0 < spp) :
    ∀ l : List Nat, (∀ k ∈ l, rget (F' k) j * spp = c * rget (F0 k) j) →
      LexNonnegCol (l.map F0) j → LexNonnegCol (l.map F') j
  | [], _, _ => trivial
  | k :: l, he, hl => by
    obtain ⟨p1, p2⟩ := Lex.sign_of_mul_eq _ _ _ _ hspp hc (he k (by simp))
    have ih := Lex.lexnn_scale F0 F' j c spp hc hspp l (fun k hk => he k (by simp [hk]))
    rcases hl with h | ⟨h, ht⟩
    · exact Or.inl (p1 h)
    · exact Or.inr ⟨p2 h, ih ht⟩

/-- `spp * col_j - a * col_pj` with `a < 0`: non-negative combination -/
theorem Lex.lexnn_comb_neg (F0 F' : Nat → Row) (j pj : Nat) (f spp a : Int) (hf : 0 < f) (hspp : 0 < spp)
    (ha : a < 0) :
    ∀ l : List Nat,
      (∀ k ∈ l, rget (F' k) j * spp = f * (rget (F0 k) j * spp - rget (F0 k) pj * a)) →
      LexNonnegCol (l.map F0) j → LexNonnegCol (l.map F0) pj → LexNonnegCol (l.map F') j
  | [], _, _, _ => trivial
  | k :: l, he, hl, hp => by
    obtain ⟨p1, p2⟩ := Lex.sign_of_mul_eq _ _ _ _ hspp hf (he k (by simp))
    have ih := Lex.lexnn_comb_neg F0 F' j pj f spp a hf hspp ha l (fun k hk => he k (by simp [hk]))
    rcases hl with h | ⟨h, ht⟩
    · left; apply p1
      have hp0 : 0 ≤ rget (F0 k) pj := by rcases hp with h' | ⟨h', _⟩ <;> omega
      have h1 : 0 < rget (F0 k) j * spp := mul_pos h hspp
      have h2 : 0 ≤ rget (F0 k) pj * (-a) := mul_nonneg hp0 (by omega)
      linarith
    · rcases hp with h' | ⟨h', ht'⟩
      · left; apply p1
        have h2 : 0 < rget (F0 k) pj * (-a) := mul_pos h' (by omega)
        rw [h]; linarith
      · right
        refine ⟨p2 (by rw [h, h']; ring), ih ht ht'⟩

/-- `spp * col_j - a * col_pj` with `a > 0` and `a * col_pj ≤_lex spp * col_j` -/
theorem Lex.lexnn_comb_pos (F0 F' : Nat → Row) (j pj : Nat) (f spp a : Int) (hf : 0 < f) (hspp : 0 < spp) :
    ∀ l : List Nat,
      (∀ k ∈ l, rget (F' k) j * spp = f * (rget (F0 k) j * spp - rget (F0 k) pj * a)) →
      LexLeScaled (l.map F0) a pj spp j → LexNonnegCol (l.map F') j
  | [], _, _ => trivial
  | k :: l, he, hl => by
    obtain ⟨p1, p2⟩ := Lex.sign_of_mul_eq _ _ _ _ hspp hf (he k (by simp))
    have ih := Lex.lexnn_comb_pos F0 F' j pj f spp a hf hspp l (fun k hk => he k (by simp [hk]))
    rcases hl with h | ⟨h, ht⟩
    · left; apply p1; linarith
    · right; exact ⟨p2 (by linarith), ih ht⟩

/-! ### the entries of the full matrix after the pivot -/

/-- the effect of the pivot on the full row of every variable `k` (the order of the variables is
    unchanged): column `j ≠ pj` becomes `(f/spp) * (spp * col_j - s[pi][j] * col_pj)`, column `pj`
    becomes `(f * den / spp) * col_pj` -/
theorem Lex.pivot_entries (nd0 nd' : SolNode) (pi pj : Nat) (f : Int) (hwf : WF nd0)
    (hpi : pi < nd0.tab.s.length) (hpj : pj < nd0.tab.ns) (hs : PivotSpec nd0 nd' pi pj f)
    (k : Nat) (hk : k < nd0.mapping.length) :
    (∀ j, j < nd0.tab.ns → j ≠ pj →
      rget (fullRow nd' k) j * mget nd0.tab.s pi pj
        = f * (rget (fullRow nd0 k) j * mget nd0.tab.s pi pj
               - rget (fullRow nd0 k) pj * mget nd0.tab.s pi j))
    ∧ rget (fullRow nd' k) pj * mget nd0.tab.s pi pj
        = (f * nd0.tab.den) * rget (fullRow nd0 k) pj := by
  obtain ⟨vr1, vr2, vr3⟩ := hwf.vr_ok pi hpi
  obtain ⟨vc1, vc2, vc3⟩ := hwf.vc_ok pj hpj
  obtain ⟨mo1, mo2⟩ := hwf.map_ok k hk
  have hne : natGet nd0.varRow pi ≠ natGet nd0.varColumn pj := by
    intro e; rw [e, vc2] at vr2; cases vr2
  have hbl : nd0.basis.length = nd0.mapping.length := hwf.basis_len
  unfold fullRow
  rw [hs.basis_eq, hs.mapping_eq, hs.den_eq, hs.shape.2.2.1]
  by_cases hkc : k = natGet nd0.varColumn pj
  · -- the entering variable: it was the column variable of `pj`, it becomes the row variable of `pi`
    subst hkc
    rw [Lex.boolGet_set_same _ _ _ (by rw [List.length_set, hbl]; exact vc1),
      Lex.natGet_set_same _ _ _ (by rw [List.length_set]; exact vc1), vc2, vc3]
    simp only [Bool.false_eq_true, if_false, if_true]
    constructor
    · intro j hj hjp
      rw [Lex.rget_unit _ _ _ _ hj, Lex.rget_unit _ _ _ _ hpj]
      simp only [hjp, if_false, if_true]
      have := hs.s_row j hj hjp
      show mget nd'.tab.s pi j * _ = _
      rw [this]; ring
    · rw [Lex.rget_unit _ _ _ _ hpj]
      simp only [if_true]
      have := hs.s_piv
      show mget nd'.tab.s pi pj * _ = _
      rw [this]; ring
  · by_cases hkr : k = natGet nd0.varRow pi
    · -- the leaving variable: it was the row variable of `pi`, it becomes the column variable of `pj`
      subst hkr
      rw [Lex.boolGet_set_ne _ _ _ _ (Ne.symm hkc), Lex.natGet_set_ne _ _ _ _ (Ne.symm hkc),
        Lex.boolGet_set_same _ _ _ (by rw [hbl]; exact vr1), Lex.natGet_set_same _ _ _ vr1, vr2, vr3]
      simp only [Bool.false_eq_true, if_false, if_true]
      constructor
      · intro j hj hjp
        rw [Lex.rget_unit _ _ _ _ hj]
        simp only [hjp, if_false]
        show _ = f * (mget nd0.tab.s pi j * _ - mget nd0.tab.s pi pj * _)
        ring
      · rw [Lex.rget_unit _ _ _ _ hpj]
        simp only [if_true]
        show _ = _ * mget nd0.tab.s pi pj
        ring
    · rw [Lex.boolGet_set_ne _ _ _ _ (Ne.symm hkc), Lex.natGet_set_ne _ _ _ _ (Ne.symm hkc),
        Lex.boolGet_set_ne _ _ _ _ (Ne.symm hkr), Lex.natGet_set_ne _ _ _ _ (Ne.symm hkr)]
      cases hbk : boolGet nd0.basis k with
      | true =>
        -- another column variable: its unit row has 0 at `pj`
        obtain ⟨hm, hvc⟩ := mo1 hbk
        have hmp : natGet nd0.mapping k ≠ pj := by
          intro e; rw [e] at hvc; exact hkc hvc.symm
        simp only [if_true]
        constructor
        · intro j hj hjp
          rw [Lex.rget_unit _ _ _ _ hj, Lex.rget_unit _ _ _ _ hj, Lex.rget_unit _ _ _ _ hpj]
          simp only [Ne.symm hmp, if_false]
          split <;> ring
        · rw [Lex.rget_unit _ _ _ _ hpj, Lex.rget_unit _ _ _ _ hpj]
          simp only [Ne.symm hmp, if_false]
          ring
      | false =>
        -- another row variable
        obtain ⟨hm, hvr⟩ := mo2 hbk
        have hmp : natGet nd0.mapping k ≠ pi := by
          intro e; rw [e] at hvr; exact hkr hvr.symm
        simp only [Bool.false_eq_true, if_false]
        constructor
        · intro j hj hjp
          exact hs.s_other _ j hm hj hmp hjp
        · have := hs.s_col _ hm hmp
          show mget nd'.tab.s _ pj * _ = _ * mget nd0.tab.s _ pj
          rw [this]; ring

/-- **`pivot_choice_lexico`** (the hypothesis `WF nd'` of the design statement is not needed) -/
theorem pivot_choice_lexico' (nd0 nd' : SolNode) (pi pj : Nat) (f : Int) :
    WF nd0 → LexPos nd0 → pi < nd0.tab.s.length → LexMinCol nd0 pi pj →
    PivotSpec nd0 nd' pi pj f → LexPos nd' := by
  intro hwf hlp hpi ⟨hpj, hspp, hmin⟩ hs j hj
  rw [hs.shape.2.2.1] at hj
  have hlen : nd'.mapping.length = nd0.mapping.length := by
    rw [hs.mapping_eq, List.length_set, List.length_set]
  unfold fullRows
  rw [hlen]
  have hent : ∀ k ∈ List.range nd0.mapping.length, _ := fun k hk =>
    Lex.pivot_entries nd0 nd' pi pj f hwf hpi hpj hs k (List.mem_range.mp hk)
  by_cases hjp : j = pj
  · subst hjp
    exact Lex.lexnn_scale (fullRow nd0) (fullRow nd') j (f * nd0.tab.den) _
      (mul_pos hs.f_pos hwf.den_pos) hspp _ (fun k hk => (hent k hk).2) (hlp j hj)
  · rcases lt_trichotomy (mget nd0.tab.s pi j) 0 with ha | ha | ha
    · exact Lex.lexnn_comb_neg (fullRow nd0) (fullRow nd') j pj f _ _ hs.f_pos hspp ha _
        (fun k hk => (hent k hk).1 j hj hjp) (hlp j hj) (hlp pj hpj)
    · refine Lex.lexnn_scale (fullRow nd0) (fullRow nd') j (f * mget nd0.tab.s pi pj) _
        (mul_pos hs.f_pos hspp) hspp _ (fun k hk => ?_) (hlp j hj)
      rw [(hent k hk).1 j hj hjp, ha]; ring
    · exact Lex.lexnn_comb_pos (fullRow nd0) (fullRow nd') j pj f _ _ hs.f_pos hspp _
        (fun k hk => (hent k hk).1 j hj hjp) (hmin j hj ha)

/-- **`pivot_choice_lexico`**, as stated in the design -/
theorem pivot_choice_lexico (nd0 nd' : SolNode) (pi pj : Nat) (f : Int) :
    WF nd0 → LexPos nd0 → pi < nd0.tab.s.length → LexMinCol nd0 pi pj →
    PivotSpec nd0 nd' pi pj f → WF nd' → LexPos nd' :=
  fun hwf hlp hpi hm hs _ => pivot_choice_lexico' nd0 nd' pi pj f hwf hlp hpi hm hs

/-! ### non-vacuity: `x2 = x0 + x1 - 2` (row 0, negative), pivot on the lexico-minimal column 1 -/

def Lex.exNodeB : SolNode :=
  { tab := { s := [[1, 1], [1, -1]], t := [[-2], [1]], den := 1, ns := 2, nt := 1 }
    basis := [true, true, false, false], mapping := [0, 1, 0, 1], varRow := [2, 3], varColumn := [0, 1]
    sign := [.negative, .positive], big := none, arts := [], cons := [] }

theorem Lex.exNodeB_wf : WF Lex.exNodeB :=
  ⟨by decide, by decide, by decide, by decide, by decide, by decide, by decide, by decide, by decide,
   by decide, by decide, by decide⟩

theorem Lex.exNodeB_spec : PivotSpec Lex.exNodeB (pivot Lex.exNodeB 0 1) 0 1 1 where
  f_pos := by decide
  den_eq := by decide
  shape := by decide
  s_other := by
    have h : ∀ i, i < Lex.exNodeB.tab.s.length → ∀ j, j < Lex.exNodeB.tab.ns → i ≠ 0 → j ≠ 1 →
        mget (pivot Lex.exNodeB 0 1).tab.s i j * mget Lex.exNodeB.tab.s 0 1
          = 1 * (mget Lex.exNodeB.tab.s i j * mget Lex.exNodeB.tab.s 0 1
                 - mget Lex.exNodeB.tab.s i 1 * mget Lex.exNodeB.tab.s 0 j) := by decide
    exact fun i j hi hj => h i hi j hj
  s_col := by decide
  s_row := by decide
  s_piv := by decide
  t_other := by
    have h : ∀ i, i < Lex.exNodeB.tab.s.length → ∀ c, c < Lex.exNodeB.tab.nt → i ≠ 0 →
        mget (pivot Lex.exNodeB 0 1).tab.t i c * mget Lex.exNodeB.tab.s 0 1
          = 1 * (mget Lex.exNodeB.tab.t i c * mget Lex.exNodeB.tab.s 0 1
                 - mget Lex.exNodeB.tab.s i 1 * mget Lex.exNodeB.tab.t 0 c) := by decide
    exact fun i c hi hc => h i hi c hc
  t_row := by decide
  var_row := by decide
  var_col := by decide
  basis_eq := by decide
  mapping_eq := by decide

example : WF Lex.exNodeB ∧ LexPos Lex.exNodeB ∧ 0 < Lex.exNodeB.tab.s.length ∧ LexMinCol Lex.exNodeB 0 1
    ∧ PivotSpec Lex.exNodeB (pivot Lex.exNodeB 0 1) 0 1 1 ∧ WF (pivot Lex.exNodeB 0 1)
    ∧ LexPos (pivot Lex.exNodeB 0 1) ∧ ¬ LexMinCol Lex.exNodeB 0 0 :=
  ⟨Lex.exNodeB_wf, by decide, by decide, by decide, Lex.exNodeB_spec,
   ⟨by decide, by decide, by decide, by decide, by decide, by decide, by decide, by decide, by decide,
    by decide, by decide, by decide⟩,
   pivot_choice_lexico' _ _ 0 1 1 Lex.exNodeB_wf (by decide) (by decide) (by decide) Lex.exNodeB_spec,
   by decide⟩

end PPLV.PIPCore
