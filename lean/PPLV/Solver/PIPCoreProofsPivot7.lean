import PPLV.Solver.PIPCoreProofsPivot6
/-!
# C07 stage 2 — pivot proofs, part 7: `pivot` satisfies `PivotSpec`; `pivot` preserves the solutions
-/
namespace PPLV.PIPCore.Piv

/-! ### `pivot`, pass by pass -/

/-- the normalised tableau with the pivot row replaced by the identity row (lines 2877-2899) -/
def idRowTab (T0 : Tableau) (pi pj : Nat) : Tableau :=
  { T0 with s := msetRow T0.s pi (rset (zeroRow T0.ns) pj T0.den),
            t := msetRow T0.t pi (zeroRow T0.nt) }

def passSTab (T0 : Tableau) (pi pj : Nat) : Tableau :=
  (rowsDown T0.s.length).foldl (pivotRowS (mrow T0.s pi) (mget T0.s pi pj) pj) (idRowTab T0 pi pj)

def passTSt (T0 : Tableau) (sg0 : List RowSign) (pi pj : Nat) : Tableau × List RowSign :=
  (rowsDown T0.s.length).foldl (pivotRowT (mrow T0.t pi) (mget T0.s pi pj) pj)
    (passSTab T0 pi pj, sg0)

def pivotPasses (T0 : Tableau) (sg0 : List RowSign) (pi pj : Nat) : Tableau :=
  if mget T0.s pi pj ≠ T0.den then
    (rowsDown T0.s.length).foldl (pivotRowC (mget T0.s pi pj) T0.den pj) (passTSt T0 sg0 pi pj).1
  else (passTSt T0 sg0 pi pj).1

theorem pivot_eq (nd : SolNode) (pi pj : Nat) :
    pivot nd pi pj =
      { swapBasis { nd with tab := nd.tab.normalize } pi pj with
        tab := pivotPasses nd.tab.normalize (nd.sign.set pi .zero) pi pj
        sign := (passTSt nd.tab.normalize (nd.sign.set pi .zero) pi pj).2 } := rfl

/-! ### the identity-row tableau -/

section idrow
variable (T0 : Tableau) (pi pj : Nat)

theorem idRow_s_len : (idRowTab T0 pi pj).s.length = T0.s.length := msetRow_length _ _ _
theorem idRow_t_len : (idRowTab T0 pi pj).t.length = T0.t.length := msetRow_length _ _ _

theorem idRow_s_ne {i : Nat} (h : i ≠ pi) (j : Nat) :
    mget (idRowTab T0 pi pj).s i j = mget T0.s i j := by
  unfold mget idRowTab; rw [mrow_msetRow_ne _ (Ne.symm h)]

theorem idRow_t_ne {i : Nat} (h : i ≠ pi) (j : Nat) :
    mget (idRowTab T0 pi pj).t i j = mget T0.t i j := by
  unfold mget idRowTab; rw [mrow_msetRow_ne _ (Ne.symm h)]

theorem idRow_s_piv (hpi : pi < T0.s.length) (hpj : pj < T0.ns) :
    mget (idRowTab T0 pi pj).s pi pj = T0.den := by
  unfold mget idRowTab
  rw [mrow_msetRow_same _ hpi, rget_rset_same _ (by rw [zeroRow_length]; exact hpj)]

theorem idRow_s_row (hpi : pi < T0.s.length) {j : Nat} (hj : j ≠ pj) :
    mget (idRowTab T0 pi pj).s pi j = 0 := by
  unfold mget idRowTab
  rw [mrow_msetRow_same _ hpi, rget_rset_ne _ (Ne.symm hj), rget_zeroRow]

theorem idRow_t_row (hpi : pi < T0.t.length) (c : Nat) :
    mget (idRowTab T0 pi pj).t pi c = 0 := by
  unfold mget idRowTab
  rw [mrow_msetRow_same _ hpi, rget_zeroRow]

end idrow

/-! ### the three passes together -/

theorem passes_inv (T0 : Tableau) (sg0 : List RowSign) {pi pj : Nat}
    (hrows : T0.s.length = T0.t.length) (hs : RowsLen T0.s T0.ns) (ht : RowsLen T0.t T0.nt)
    (hpj : pj < T0.ns) (hspp : 0 < mget T0.s pi pj) :
    ∃ f, PInv (idRowTab T0 pi pj) (mrow T0.s pi) (mrow T0.t pi) (mget T0.s pi pj) pj
      (fun _ _ => True) (fun _ _ => True) (pivotPasses T0 sg0 pi pj) f := by
  have hn : (idRowTab T0 pi pj).s.length = T0.s.length := idRow_s_len T0 pi pj
  have hpj' : pj < (idRowTab T0 pi pj).ns := hpj
  -- the start
  have init : JS (idRowTab T0 pi pj) (mrow T0.s pi) (mrow T0.t pi) (mget T0.s pi pj) pj
      (fun _ => False) (idRowTab T0 pi pj) := by
    refine ⟨1, ?_⟩
    exact {
      f_pos := Int.one_pos
      den_eq := (Int.one_mul _).symm
      s_len := rfl
      t_len := by rw [idRow_t_len, idRow_s_len, hrows]
      ns_eq := rfl
      nt_eq := rfl
      s_rows := hs.msetRow pi (by rw [rset_length, zeroRow_length])
      t_rows := ht.msetRow pi (zeroRow_length _)
      s_ent := fun i j _ _ => ⟨fun h => absurd h.1 id, fun _ => (Int.one_mul _).symm⟩
      t_ent := fun i j _ _ => ⟨fun h => absurd h id, fun _ => (Int.one_mul _).symm⟩ }
  -- first pass
  have h1 := passS_inv hspp hpj' _ init
  rw [hn] at h1
  change JS _ _ _ _ _ _ (passSTab T0 pi pj) at h1
  obtain ⟨f1, hI1⟩ := h1
  -- second pass
  have init2 : JT (idRowTab T0 pi pj) (mrow T0.s pi) (mrow T0.t pi) (mget T0.s pi pj) pj
      (fun _ => False) (passSTab T0 pi pj, sg0) :=
    ⟨f1, hI1.monoS (fun a b _ _ h => h.2) (fun a b ha _ h hn' => absurd ⟨hn ▸ ha, h⟩ hn')⟩
  have h2 := passT_inv hspp hpj' _ init2
  rw [hn] at h2
  change JT _ _ _ _ _ _ (passTSt T0 sg0 pi pj) at h2
  obtain ⟨f2, hI2⟩ := h2
  -- third pass
  unfold pivotPasses
  by_cases hc : mget T0.s pi pj ≠ T0.den
  · rw [if_pos hc]
    have init3 : JC (idRowTab T0 pi pj) (mrow T0.s pi) (mrow T0.t pi) (mget T0.s pi pj) pj
        (fun _ => False) (passTSt T0 sg0 pi pj).1 :=
      ⟨f2, hI2.mono (fun a b _ _ h => Or.inl h)
        (fun a b _ _ h hn' => by rcases h with h | h; exact absurd h hn'; exact absurd h id)
        (fun a b _ _ _ => trivial) (fun a b ha _ _ hn' => absurd (hn ▸ ha) hn')⟩
    have h3 := passC_inv hspp hpj' _ init3
    rw [hn] at h3
    obtain ⟨f3, hI3⟩ := h3
    exact ⟨f3, hI3.monoS (fun a b _ _ _ => trivial)
      (fun a b ha _ _ hn' => absurd (Or.inr (hn ▸ ha)) hn')⟩
  · rw [if_neg hc]
    have hc' : mget T0.s pi pj = T0.den := not_not.mp hc
    refine ⟨f2, hI2.mono (fun a b _ _ _ => trivial) (fun a b ha _ _ hn' => ?_)
      (fun a b _ _ _ => trivial) (fun a b ha _ _ hn' => absurd (hn ▸ ha) hn')⟩
    have hb : b = pj := not_not.mp hn'
    subst hb
    have r1 := hI2.s_raw ha hpj' (fun h => h rfl)
    unfold tgtS; rw [if_pos rfl, r1]
    show _ = f2 * (_ * T0.den)
    rw [hc']; ring

/-! ### `pivot` satisfies `PivotSpec` -/

theorem pivot_spec {nd : SolNode} (h : WF nd) {pi pj : Nat} (hpi : pi < nd.tab.s.length)
    (hpj : pj < nd.tab.ns) (hspp : 0 < mget nd.tab.normalize.s pi pj) :
    ∃ f, PivotSpec { nd with tab := nd.tab.normalize } (pivot nd pi pj) pi pj f := by
  have hN := normalize_wf h
  have sh := normalize_shape nd.tab
  generalize hT0 : nd.tab.normalize = T0 at *
  have hpi0 : pi < T0.s.length := by rw [sh.1]; exact hpi
  have hpj0 : pj < T0.ns := by rw [sh.2.2.1]; exact hpj
  obtain ⟨f, hF⟩ := passes_inv T0 (nd.sign.set pi .zero) hN.rows_eq hN.piv_sRows hN.piv_tRows hpj0 hspp
  have hn : (idRowTab T0 pi pj).s.length = T0.s.length := idRow_s_len T0 pi pj
  have hpit : pi < T0.t.length := hN.rows_eq ▸ hpi0
  refine ⟨f, ?_⟩
  rw [pivot_eq, hT0]
  exact {
    f_pos := hF.f_pos
    den_eq := hF.den_eq
    shape := ⟨hF.s_len.trans hn, hF.t_len.trans (hn.trans hN.rows_eq), hF.ns_eq, hF.nt_eq⟩
    s_other := by
      intro i j hi hj hi' hj'
      have := (hF.s_ent i j (hn ▸ hi) hj).1 trivial
      unfold tgtS at this
      rw [if_neg hj', idRow_s_ne T0 pi pj hi', idRow_s_ne T0 pi pj hi'] at this
      exact this
    s_col := by
      intro i hi hi'
      have := (hF.s_ent i pj (hn ▸ hi) hpj0).1 trivial
      unfold tgtS at this
      rw [if_pos rfl, idRow_s_ne T0 pi pj hi'] at this
      exact this
    s_row := by
      intro j hj hj'
      have := (hF.s_ent pi j (hn ▸ hpi0) hj).1 trivial
      unfold tgtS at this
      rw [if_neg hj', idRow_s_row T0 pi pj hpi0 hj', idRow_s_piv T0 pi pj hpi0 hpj0] at this
      show mget (pivotPasses T0 _ pi pj).s pi j * mget T0.s pi pj = -(f * (T0.den * mget T0.s pi j))
      rw [this]; unfold mget; ring
    s_piv := by
      have := (hF.s_ent pi pj (hn ▸ hpi0) hpj0).1 trivial
      unfold tgtS at this
      rw [if_pos rfl, idRow_s_piv T0 pi pj hpi0 hpj0] at this
      exact this
    t_other := by
      intro i c hi hc hi'
      have := (hF.t_ent i c (hn ▸ hi) hc).1 trivial
      unfold tgtT at this
      rw [idRow_t_ne T0 pi pj hi', idRow_s_ne T0 pi pj hi'] at this
      exact this
    t_row := by
      intro c hc
      have := (hF.t_ent pi c (hn ▸ hpi0) hc).1 trivial
      unfold tgtT at this
      rw [idRow_t_row T0 pi pj hpit, idRow_s_piv T0 pi pj hpi0 hpj0] at this
      show mget (pivotPasses T0 _ pi pj).t pi c * mget T0.s pi pj = -(f * (T0.den * mget T0.t pi c))
      rw [this]; unfold mget; ring
    var_row := rfl
    var_col := rfl
    basis_eq := rfl
    mapping_eq := rfl }

/-- **the pivot of `PIP_Solution_Node::solve` does not change the solutions of the tableau** -/
theorem pivot_preserves {nd : SolNode} (h : WF nd) {pi pj : Nat} (hpi : pi < nd.tab.s.length)
    (hpj : pj < nd.tab.ns) (hspp : 0 < mget nd.tab.normalize.s pi pj) {q : List Int}
    (hq : q.length = nd.tab.nt) : ∀ v, (TabSat nd v q ↔ TabSat (pivot nd pi pj) v q) := by
  intro v
  obtain ⟨f, hS⟩ := pivot_spec h hpi hpj hspp
  have sh := normalize_shape nd.tab
  rw [← normalize_tabsat h v q]
  exact pivotSpec_tabsat (normalize_wf h) (by show pi < nd.tab.normalize.s.length; rw [sh.1]; exact hpi)
    (by show pj < nd.tab.normalize.ns; rw [sh.2.2.1]; exact hpj) (ne_of_gt hspp) hS
    (by show q.length = nd.tab.normalize.nt; rw [sh.2.2.2]; exact hq) v

/-- the same with the pivot coefficient read in the tableau before `normalize` -/
theorem pivot_preserves' {nd : SolNode} (h : WF nd) {pi pj : Nat} (hpi : pi < nd.tab.s.length)
    (hpj : pj < nd.tab.ns) (hspp : 0 < mget nd.tab.s pi pj) {q : List Int}
    (hq : q.length = nd.tab.nt) : ∀ v, (TabSat nd v q ↔ TabSat (pivot nd pi pj) v q) :=
  pivot_preserves h hpi hpj ((normalize_sign h pi pj).mpr hspp) hq

end PPLV.PIPCore.Piv
