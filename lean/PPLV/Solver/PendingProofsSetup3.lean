import PPLV.Solver.PendingProofsSetup2

/-!
# C06 stage 3 (b1), part 3 — the mapping of the problem variables and the row of a constraint

* `MapOK M nn v j`: the first `v` variables have columns in `[1, 1+j)`, increasing with the variable, a
  second column (the negative part, right after the first) exactly when the variable is not marked
  non-negative;
* `ppcMapping_fresh`: the mapping loop (:763–:784) of a fresh problem establishes it;
* `constraintRow_spec`: the row built at :857–:883 evaluates to the constraint at the projected point.
-/
namespace PPLV.Solver.Pend
open PPLV.Lin PPLV.Solver.Tab

/-- `x_i = col(mapping i).first − col(mapping i).second` -/
def proj (mapping : List (Nat × Nat)) (y : Val) : Val := fun i =>
  let m := mapping.getD (i+1) (0, 0)
  y m.1 - (if m.2 != 0 then y m.2 else 0)

/-- last column of a variable -/
def hiCol (m : Nat × Nat) : Nat := if m.2 = 0 then m.1 else m.2

structure MapOK (M : List (Nat × Nat)) (nn : List Bool) (v j : Nat) : Prop where
  len : M.length = v + 1
  zero : M.getD 0 (0, 0) = (0, 0)
  cols : ∀ u, u < v → 1 ≤ (M.getD (u+1) (0, 0)).1 ∧
    ((M.getD (u+1) (0, 0)).2 = 0 ∨ (M.getD (u+1) (0, 0)).2 = (M.getD (u+1) (0, 0)).1 + 1) ∧
    ((M.getD (u+1) (0, 0)).2 = 0 ↔ nn.getD u false = true) ∧ hiCol (M.getD (u+1) (0, 0)) < 1 + j
  ord : ∀ u u', u < u' → u' < v → hiCol (M.getD (u+1) (0, 0)) < (M.getD (u'+1) (0, 0)).1

theorem getD_append_left_pair (M : List (Nat × Nat)) (x : Nat × Nat) (k : Nat) (hk : k < M.length) :
    (M ++ [x]).getD k (0, 0) = M.getD k (0, 0) := by
  rw [List.getD_eq_getElem?_getD, List.getD_eq_getElem?_getD, List.getElem?_append_left hk]

theorem getD_append_last_pair (M : List (Nat × Nat)) (x : Nat × Nat) :
    (M ++ [x]).getD M.length (0, 0) = x := by
  rw [List.getD_eq_getElem?_getD, List.getElem?_append_right (le_refl _)]; simp

/-- the mapping loop of a fresh problem -/
theorem ppcMapping_fresh (s : LPState) (nn : List Bool) (hint : s.internal_space_dim = 0)
    (hmap : s.mapping = [(0, 0)]) (hn : 0 < s.external_space_dim) :
    MapOK (ppcMapping s nn 1).1 nn s.external_space_dim (ppcMapping s nn 1).2.1 ∧
      (ppcMapping s nn 1).2.1 = (ppcMapping s nn 1).2.2 := by
  unfold ppcMapping
  rw [hint, hmap, if_pos hn]
  simp only [Nat.sub_zero, Nat.zero_add]
  have key := fwdFold_inv
    (fun (v : Nat) (acc : List (Nat × Nat) × Nat × Nat) => MapOK acc.1 nn v acc.2.1 ∧ acc.2.1 = acc.2.2)
    (fun i (acc : List (Nat × Nat) × Nat × Nat) =>
      let positive := 1 + acc.2.1
      if nn.getD i false then (acc.1 ++ [(positive, 0)], acc.2.1 + 1, acc.2.2 + 1)
      else (acc.1 ++ [(positive, positive + 1)], acc.2.1 + 2, acc.2.2 + 2))
    s.external_space_dim 0 ([(0, 0)], 0, 0)
    ⟨⟨rfl, rfl, fun u hu => by omega, fun u u' _ hu => by omega⟩, rfl⟩
    (by
      intro v _ _ acc ⟨hM, hj⟩
      obtain ⟨M, j, a⟩ := acc
      simp only at hM hj ⊢
      by_cases hnn : nn.getD v false = true
      · rw [if_pos hnn]
        refine ⟨⟨by simp [hM.len], ?_, ?_, ?_⟩, by simp only; omega⟩
        · rw [getD_append_left_pair _ _ _ (by rw [hM.len]; omega)]; exact hM.zero
        · intro u hu
          by_cases huv : u < v
          · rw [getD_append_left_pair _ _ _ (by rw [hM.len]; omega)]
            obtain ⟨c1, c2, c3, c4⟩ := hM.cols u huv
            exact ⟨c1, c2, c3, by simp only; omega⟩
          · have : u = v := by omega
            subst this
            have hl : u + 1 = M.length := by rw [hM.len]
            rw [hl, getD_append_last_pair]
            refine ⟨by dsimp only; omega, Or.inl rfl, ⟨fun _ => hnn, fun _ => rfl⟩, ?_⟩
            unfold hiCol; dsimp only; rw [if_pos rfl]; omega
        · intro u u' huu hu'
          by_cases hu'v : u' < v
          · rw [getD_append_left_pair _ _ _ (by rw [hM.len]; omega),
              getD_append_left_pair _ _ _ (by rw [hM.len]; omega)]
            exact hM.ord u u' huu hu'v
          · have : u' = v := by omega
            subst this
            have hl : u' + 1 = M.length := by rw [hM.len]
            rw [hl, getD_append_last_pair, getD_append_left_pair _ _ _ (by rw [hM.len]; omega)]
            have := (hM.cols u huu).2.2.2
            simp only; omega
      · rw [if_neg hnn]
        have hnn' : nn.getD v false = false := by simpa using hnn
        refine ⟨⟨by simp [hM.len], ?_, ?_, ?_⟩, by simp only; omega⟩
        · rw [getD_append_left_pair _ _ _ (by rw [hM.len]; omega)]; exact hM.zero
        · intro u hu
          by_cases huv : u < v
          · rw [getD_append_left_pair _ _ _ (by rw [hM.len]; omega)]
            obtain ⟨c1, c2, c3, c4⟩ := hM.cols u huv
            exact ⟨c1, c2, c3, by simp only; omega⟩
          · have : u = v := by omega
            subst this
            have hl : u + 1 = M.length := by rw [hM.len]
            rw [hl, getD_append_last_pair]
            refine ⟨by dsimp only; omega, Or.inr rfl, ?_, ?_⟩
            · constructor
              · intro h; dsimp only at h; omega
              · intro h; rw [hnn'] at h; cases h
            · unfold hiCol; dsimp only; rw [if_neg (by omega)]; omega
        · intro u u' huu hu'
          by_cases hu'v : u' < v
          · rw [getD_append_left_pair _ _ _ (by rw [hM.len]; omega),
              getD_append_left_pair _ _ _ (by rw [hM.len]; omega)]
            exact hM.ord u u' huu hu'v
          · have : u' = v := by omega
            subst this
            have hl : u' + 1 = M.length := by rw [hM.len]
            rw [hl, getD_append_last_pair, getD_append_left_pair _ _ _ (by rw [hM.len]; omega)]
            have := (hM.cols u huu).2.2.2
            simp only; omega)
  simp only [Nat.zero_add] at key
  exact key

/-! ### rows -/

theorem getD_set_int (l : List Int) (i k : Nat) (a : Int) :
    (l.set i a).getD k 0 = if k = i ∧ i < l.length then a else l.getD k 0 := by
  rw [List.getD_eq_getElem?_getD, List.getElem?_set, List.getD_eq_getElem?_getD]
  by_cases h : i = k
  · subst h
    by_cases hl : i < l.length
    · simp [hl]
    · simp [hl, List.getElem?_eq_none (not_lt.mp hl)]
  · have h' : ¬ (k = i ∧ i < l.length) := fun a => h a.1.symm
    simp [h, h']

theorem dot_set (l : List Int) (i : Nat) (a : Int) (y : Val) (hi : i < l.length) :
    dot (l.set i a) y = dot l y + ((a : Rat) - ((l.getD i 0 : Int) : Rat)) * y i := by
  induction l generalizing i y with
  | nil => simp at hi
  | cons b l ih =>
    cases i with
    | zero => simp only [List.set_cons_zero, dot_cons, List.getD_cons_zero]; ring
    | succ i =>
      simp only [List.set_cons_succ, dot_cons, List.getD_cons_succ]
      rw [ih i y.tail (by simpa using hi)]
      simp only [Val.tail]; ring

theorem dot_take_succ (l : List Int) (t : Nat) (x : Val) :
    dot (l.take (t+1)) x = dot (l.take t) x + ((l.getD t 0 : Int) : Rat) * x t := by
  induction l generalizing t x with
  | nil => simp
  | cons a l ih =>
    cases t with
    | zero => simp
    | succ t =>
      simp only [List.take_succ_cons, dot_cons, List.getD_cons_succ]
      rw [ih t x.tail]
      simp only [Val.tail]; ring

theorem zeros_getD (n k : Nat) : (zeros n).getD k 0 = 0 := by
  unfold zeros
  rw [List.getD_eq_getElem?_getD]
  by_cases h : k < n
  · rw [List.getElem?_replicate_of_lt h]; rfl
  · rw [List.getElem?_eq_none (by simpa using h)]; rfl

theorem dot_zeros (n : Nat) (y : Val) : dot (zeros n) y = 0 :=
  dot_eq_zero_of_support _ y (fun j => Or.inl (zeros_getD n j))

/-- **the tableau row of a constraint** (:857–:883): as wide as the tableau, zero beyond the columns of
    the problem variables, and its value at a tableau valuation is the constraint at the projected point -/
theorem constraintRow_spec (M : List (Nat × Nat)) (nn : List Bool) (n j numCols : Nat) (hM : MapOK M nn n j)
    (hcols : 1 + j ≤ numCols) (c : ICon) (hc : c.coeffs.length ≤ n) :
    (constraintRow numCols M c).length = numCols ∧
    (∀ col, 1 + j ≤ col → (constraintRow numCols M c).get col = 0) ∧
    ∀ y : Val, y 0 = 1 → rowVal (constraintRow numCols M c) y = dot c.coeffs (proj M y) + (c.k : Rat) := by
  unfold constraintRow
  have key := fwdFold_inv
    (fun (t : Nat) (r : Row) => r.length = numCols ∧
      (∀ col, (col = 0 ∨ ∀ u, u < t → hiCol (M.getD (u+1) (0, 0)) < col) → r.getD col 0 = 0) ∧
      ∀ y : Val, dot r y = dot (c.coeffs.take t) (proj M y))
    (fun t (r : Row) =>
      let a := c.coeffs.getD t 0
      if a != 0 then
        let m := M.getD (t+1) (0, 0)
        let r := r.set m.1 a
        if m.2 != 0 then r.set m.2 (-a) else r
      else r)
    c.coeffs.length 0 (zeros numCols)
    ⟨by simp [zeros], fun col _ => zeros_getD _ _, fun y => by rw [dot_zeros]; simp⟩
    (by
      intro t _ ht r ⟨h1, h2, h3⟩
      simp only [Nat.zero_add] at ht
      have htn : t < n := by omega
      obtain ⟨c1, c2, c3, c4⟩ := hM.cols t htn
      simp only
      by_cases ha : c.coeffs.getD t 0 = 0
      · have : (c.coeffs.getD t 0 != 0) = false := by rw [ha]; rfl
        rw [this]
        simp only [Bool.false_eq_true, if_false]
        refine ⟨h1, fun col hcol => h2 col ?_, fun y => ?_⟩
        · rcases hcol with h | h
          · exact Or.inl h
          · exact Or.inr (fun u hu => h u (by omega))
        · rw [h3 y, dot_take_succ, ha]; simp
      · have : (c.coeffs.getD t 0 != 0) = true := bne_iff_ne.mpr ha
        rw [this]
        simp only [if_true]
        -- the columns of variable t are untouched so far
        have hfree1 : r.getD (M.getD (t+1) (0, 0)).1 0 = 0 :=
          h2 _ (Or.inr (fun u hu => hM.ord u t hu htn))
        have hlt1 : (M.getD (t+1) (0, 0)).1 < r.length := by
          rw [h1]; unfold hiCol at c4; split at c4 <;> omega
        by_cases hm2 : (M.getD (t+1) (0, 0)).2 = 0
        · have : ((M.getD (t+1) (0, 0)).2 != 0) = false := by rw [hm2]; rfl
          rw [this]
          simp only [Bool.false_eq_true, if_false]
          refine ⟨by simp [h1], fun col hcol => ?_, fun y => ?_⟩
          · rw [getD_set_int]
            have hne : ¬ (col = (M.getD (t+1) (0, 0)).1 ∧ (M.getD (t+1) (0, 0)).1 < r.length) := by
              rintro ⟨h, -⟩
              rcases hcol with h0 | h0
              · omega
              · have := h0 t (by omega); unfold hiCol at this; rw [if_pos hm2] at this; omega
            rw [if_neg hne]
            apply h2
            rcases hcol with h | h
            · exact Or.inl h
            · exact Or.inr (fun u hu => h u (by omega))
          · rw [dot_set _ _ _ _ hlt1, hfree1, h3 y, dot_take_succ]
            simp only [proj, hm2]
            simp
        · have : ((M.getD (t+1) (0, 0)).2 != 0) = true := bne_iff_ne.mpr hm2
          rw [this]
          simp only [if_true]
          have hm2' : (M.getD (t+1) (0, 0)).2 = (M.getD (t+1) (0, 0)).1 + 1 := by
            rcases c2 with h | h
            · exact absurd h hm2
            · exact h
          have hhi : hiCol (M.getD (t+1) (0, 0)) = (M.getD (t+1) (0, 0)).2 := by unfold hiCol; rw [if_neg hm2]
          have hfree2 : r.getD (M.getD (t+1) (0, 0)).2 0 = 0 :=
            h2 _ (Or.inr (fun u hu => by have := hM.ord u t hu htn; omega))
          have hlt2 : (M.getD (t+1) (0, 0)).2 < r.length := by rw [h1]; rw [hhi] at c4; omega
          refine ⟨by simp [h1], fun col hcol => ?_, fun y => ?_⟩
          · rw [getD_set_int, getD_set_int]
            have hne2 : ¬ (col = (M.getD (t+1) (0, 0)).2 ∧ (M.getD (t+1) (0, 0)).2 < (r.set (M.getD (t+1) (0, 0)).1 (c.coeffs.getD t 0)).length) := by
              rintro ⟨h, -⟩
              rcases hcol with h0 | h0
              · omega
              · have := h0 t (by omega); rw [hhi] at this; omega
            have hne1 : ¬ (col = (M.getD (t+1) (0, 0)).1 ∧ (M.getD (t+1) (0, 0)).1 < r.length) := by
              rintro ⟨h, -⟩
              rcases hcol with h0 | h0
              · omega
              · have := h0 t (by omega); rw [hhi] at this; omega
            rw [if_neg hne2, if_neg hne1]
            apply h2
            rcases hcol with h | h
            · exact Or.inl h
            · exact Or.inr (fun u hu => h u (by omega))
          · rw [dot_set _ _ _ _ (by simpa using hlt2), getD_set_int,
              if_neg (by rintro ⟨h, -⟩; omega), hfree2, dot_set _ _ _ _ hlt1, hfree1, h3 y, dot_take_succ]
            simp only [proj, this, if_true]
            push_cast; ring)
  simp only [Nat.zero_add] at key
  obtain ⟨k1, k2, k3⟩ := key
  rw [List.take_length] at k3
  have hz : (M.getD 0 (0, 0)).1 = 0 := by rw [hM.zero]
  have hall : ∀ col, 1 + j ≤ col → ∀ u, u < c.coeffs.length → hiCol (M.getD (u+1) (0, 0)) < col := by
    intro col hcol u hu
    have := (hM.cols u (by omega)).2.2.2
    omega
  by_cases hk : c.k = 0
  · have : (c.k != 0) = false := by rw [hk]; rfl
    rw [this]
    simp only [Bool.false_eq_true, if_false]
    refine ⟨k1, fun col hcol => k2 col (Or.inr (hall col hcol)), fun y _ => ?_⟩
    unfold rowVal; rw [k3 y, hk]; simp
  · have : (c.k != 0) = true := bne_iff_ne.mpr hk
    rw [this, hz]
    simp only [if_true]
    refine ⟨by rw [List.length_set]; exact k1, fun col hcol => ?_, fun y hy => ?_⟩
    · unfold Row.get
      rw [getD_set_int, if_neg (by rintro ⟨h, -⟩; omega)]
      exact k2 col (Or.inr (hall col hcol))
    · unfold rowVal
      rw [dot_set _ _ _ _ (by rw [k1]; omega), k2 0 (Or.inl rfl), k3 y, hy]
      push_cast; ring

end PPLV.Solver.Pend
