import PPLV.Solver.PendingProofsLoop

/-!
# C06 stage 3 (c) — `second_phase` from any feasible basis; the status protocol of the mutators

* `revFold_inv`, `fwdFold_inv`: loop-invariant rules for the two loop shapes of the model;
* `CanonTB`: the part of `Canon` that does not mention the cost row (a feasible basis);
* `reexpress_spec`: the loop "express the cost function in terms of the base" (:1956–:1966, :959–:969)
  zeroes the basic columns of the cost row and keeps the objective it denotes on the solution set;
* `secondPhase_sound`: `second_phase()` from ANY feasible basis, with ANY pricing rule, ends (when it
  terminates) OPTIMIZED at the maximum of the objective `secondPhaseCost` over the non-negative solutions,
  or UNBOUNDED when there is none; the basis it leaves is feasible again;
* `secondPhase_value_eq`: two states (e.g. an incrementally re-optimised one and a fresh one) with the same
  solution set and the same objective get the same status and the same value;
* `StatusInv` and the mutators.
-/
namespace PPLV.Solver.Pend
open PPLV.Lin PPLV.Solver.Tab

theorem revFold_inv {σ : Type} (P : Nat → σ → Prop) (f : Nat → σ → σ) :
    ∀ (n : Nat) (s : σ), P n s → (∀ i, i < n → ∀ s, P (i+1) s → P i (f i s)) → P 0 (revFold n f s) := by
  intro n
  induction n with
  | zero => intro s h _; exact h
  | succ n ih =>
    intro s h hstep
    unfold revFold
    exact ih (f n s) (hstep n (Nat.lt_succ_self n) s h) (fun i hi s hs => hstep i (Nat.lt_succ_of_lt hi) s hs)

theorem fwdFold_inv {σ : Type} (P : Nat → σ → Prop) (f : Nat → σ → σ) :
    ∀ (len a : Nat) (s : σ), P a s → (∀ i, a ≤ i → i < a + len → ∀ s, P i s → P (i+1) (f i s)) →
      P (a + len) (fwdFold a len f s) := by
  intro len
  induction len with
  | zero => intro a s h _; exact h
  | succ len ih =>
    intro a s h hstep
    unfold fwdFold
    have := ih (a + 1) (f a s) (hstep a (le_refl a) (by omega) s h)
      (fun i h1 h2 s hs => hstep i (by omega) (by omega) s hs)
    rwa [show a + 1 + len = a + (len + 1) by omega] at this

/-! ### a feasible basis -/

structure CanonTB (T : List Row) (base : List Nat) (n : Nat) : Prop where
  lenB : base.length = T.length
  len2 : 2 ≤ n
  rowLen : ∀ i, i < T.length → (T.getD i []).length = n
  baseRange : ∀ i, i < T.length → 1 ≤ base.getD i 0 ∧ base.getD i 0 < n - 1
  basicNZ : ∀ i, i < T.length → (T.getD i []).get (base.getD i 0) ≠ 0
  basicCol : ∀ i j, i < T.length → j < T.length → i ≠ j → (T.getD j []).get (base.getD i 0) = 0
  lastZero : ∀ i, i < T.length → (T.getD i []).get (n - 1) = 0
  feas : ∀ i, i < T.length →
    0 ≤ -(((T.getD i []).get 0 : Int) : Rat) / (((T.getD i []).get (base.getD i 0) : Int) : Rat)

theorem Canon.toTB {t : Tab} (h : Canon t) : CanonTB t.T t.base t.cost.length :=
  ⟨h.lenB, h.len2, h.rowLen, h.baseRange, h.basicNZ, h.basicCol, h.lastZero, h.feas⟩

theorem CanonTB.toCanon {T : List Row} {base : List Nat} {n : Nat} (h : CanonTB T base n) (cost : Row)
    (hl : cost.length = n) (hs : cost.get (n - 1) ≠ 0) (hb : ∀ i, i < T.length → cost.get (base.getD i 0) = 0) :
    Canon ⟨T, cost, base⟩ := by
  constructor
  · exact h.lenB
  · show 2 ≤ cost.length; rw [hl]; exact h.len2
  · intro i hi; show (T.getD i []).length = cost.length; rw [hl]; exact h.rowLen i hi
  · intro i hi; show 1 ≤ base.getD i 0 ∧ base.getD i 0 < cost.length - 1; rw [hl]; exact h.baseRange i hi
  · exact h.basicNZ
  · exact h.basicCol
  · exact hb
  · intro i hi; show (T.getD i []).get (cost.length - 1) = 0; rw [hl]; exact h.lastZero i hi
  · show cost.get (cost.length - 1) ≠ 0; rw [hl]; exact hs
  · exact h.feas

/-! ### the cost row in terms of the non-basic variables -/

/-- the loop at :1956–:1966 (and :959–:969) -/
def reexpress (T : List Row) (base : List Nat) (cost : Row) : Row :=
  revFold T.length (fun i (cost : Row) =>
    let bi := base.getD i 0
    if cost.get bi != 0 then linearCombine cost (T.getD i []) bi else cost) cost

/-- combining the cost row with a row that vanishes on the solutions keeps the objective -/
theorem linearCombine_objAt (c y : Row) (k : Nat) (x : Val) (hlen : y.length = c.length) (hyk : y.get k ≠ 0)
    (hylast : y.get (c.length - 1) = 0) (hcl : c.get (c.length - 1) ≠ 0) (hyx : dot y x = 0) :
    (linearCombine c y k).length = c.length ∧ (linearCombine c y k).get (c.length - 1) ≠ 0 ∧
      objAt (linearCombine c y k) x = objAt c x := by
  obtain ⟨d, hd, h1, h2, h3⟩ := linearCombine_spec c y k
  obtain ⟨g, hg, -, -, hny⟩ := lcN_spec c y k hyk
  have hl : (linearCombine c y k).length = c.length := by rw [h3, hlen]; simp
  have e1 := h1 (c.length - 1)
  rw [hylast, mul_zero, add_zero] at e1
  have hne : (linearCombine c y k).get (c.length - 1) ≠ 0 := by
    intro h0
    rw [h0, mul_zero] at e1
    rcases Int.mul_eq_zero.mp e1.symm with h | h
    · exact hny (by omega)
    · exact hcl h
  refine ⟨hl, hne, ?_⟩
  unfold objAt
  rw [hl]
  have e2 := h2 x
  rw [hyx, mul_zero, add_zero] at e2
  have e1q : (d : Rat) * (((linearCombine c y k).get (c.length - 1) : Int) : Rat) =
      -((lcNy c y k : Int) : Rat) * ((c.get (c.length - 1) : Int) : Rat) := by exact_mod_cast e1
  have hdq : (d : Rat) ≠ 0 := by exact_mod_cast (ne_of_gt hd)
  have hnq : ((lcNy c y k : Int) : Rat) ≠ 0 := by exact_mod_cast hny
  have hsq : ((c.get (c.length - 1) : Int) : Rat) ≠ 0 := by exact_mod_cast hcl
  have f1 : dot (linearCombine c y k) x = -((lcNy c y k : Int) : Rat) * dot c x / d := by
    rw [← e2]; field_simp
  have f2 : (((linearCombine c y k).get (c.length - 1) : Int) : Rat) =
      -((lcNy c y k : Int) : Rat) * ((c.get (c.length - 1) : Int) : Rat) / d := by
    rw [← e1q]; field_simp
  rw [f1, f2]
  field_simp

theorem reexpress_spec {T : List Row} {base : List Nat} {n : Nat} (h : CanonTB T base n) (c : Row)
    (hl : c.length = n) (hs : c.get (n - 1) ≠ 0) :
    (reexpress T base c).length = n ∧ (reexpress T base c).get (n - 1) ≠ 0 ∧
    (∀ i, i < T.length → (reexpress T base c).get (base.getD i 0) = 0) ∧
    ∀ x, Sol T x → objAt (reexpress T base c) x = objAt c x := by
  unfold reexpress
  have key := revFold_inv
    (fun (k : Nat) (c' : Row) => c'.length = n ∧ c'.get (n - 1) ≠ 0 ∧
      (∀ i, k ≤ i → i < T.length → c'.get (base.getD i 0) = 0) ∧ ∀ x, Sol T x → objAt c' x = objAt c x)
    (fun i (cost : Row) =>
      let bi := base.getD i 0
      if cost.get bi != 0 then linearCombine cost (T.getD i []) bi else cost)
    T.length c ⟨hl, hs, fun i h1 h2 => by omega, fun _ _ => rfl⟩
    (by
      intro k hk c' ⟨a1, a2, a3, a4⟩
      simp only
      by_cases hz : c'.get (base.getD k 0) = 0
      · have : (c'.get (base.getD k 0) != 0) = false := by rw [hz]; rfl
        rw [this]
        simp only [Bool.false_eq_true, if_false]
        refine ⟨a1, a2, fun i h1 h2 => ?_, a4⟩
        by_cases hik : i = k
        · rw [hik]; exact hz
        · exact a3 i (by omega) h2
      · have : (c'.get (base.getD k 0) != 0) = true := bne_iff_ne.mpr hz
        rw [this]
        simp only [if_true]
        obtain ⟨d, hd, h1, -, -⟩ := linearCombine_spec c' (T.getD k []) (base.getD k 0)
        have hrow : ∀ x, Sol T x → dot (T.getD k []) x = 0 := fun x hx => hx k hk
        refine ⟨?_, ?_, fun i hi1 hi2 => ?_, fun x hx => ?_⟩
        · exact (linearCombine_objAt c' (T.getD k []) _ Val.zero (by rw [h.rowLen k hk, a1]) (h.basicNZ k hk)
            (by rw [a1]; exact h.lastZero k hk) (by rw [a1]; exact a2) (dot_zero _)).1.trans a1
        · have := (linearCombine_objAt c' (T.getD k []) _ Val.zero (by rw [h.rowLen k hk, a1]) (h.basicNZ k hk)
            (by rw [a1]; exact h.lastZero k hk) (by rw [a1]; exact a2) (dot_zero _)).2.1
          rwa [a1] at this
        · by_cases hik : i = k
          · rw [hik]; exact linearCombine_get _ _ _
          · have e := h1 (base.getD i 0)
            rw [a3 i (by omega) hi2, h.basicCol i k hi2 hk hik, mul_zero, mul_zero, add_zero] at e
            rcases Int.mul_eq_zero.mp e with h' | h'
            · omega
            · exact h'
        · rw [(linearCombine_objAt c' (T.getD k []) _ x (by rw [h.rowLen k hk, a1]) (h.basicNZ k hk)
            (by rw [a1]; exact h.lastZero k hk) (by rw [a1]; exact a2) (hrow x hx)).2.2]
          exact a4 x hx)
  obtain ⟨k1, k2, k3, k4⟩ := key
  exact ⟨k1, k2, fun i hi => k3 i (Nat.zero_le _) hi, k4⟩

/-! ### `second_phase` -/

theorem secondPhase_unfold (fc : Chooser) (fuel : Nat) (s : LPState) (hst : s.status = .SATISFIABLE) :
    secondPhase fc fuel s =
      match computeSimplexWith (chooserOf fc s.pricing) fuel
          ⟨s.tableau, reexpress s.tableau s.base (secondPhaseCost s), s.base⟩ with
      | none => none
      | some (ok, t) =>
        some { computeGenerator (s.withTab t) with status := if ok then .OPTIMIZED else .UNBOUNDED } := by
  unfold secondPhase reexpress
  rw [hst]
  rfl

/-- (c) **`second_phase()` from ANY feasible basis, with ANY pricing rule.**  `s` holds a feasible basis
    (`CanonTB`), the cost row built for the new objective (`secondPhaseCost s`) has the tableau's width and a
    non-zero sign entry.  When the phase terminates: the status is OPTIMIZED or UNBOUNDED, the solution set is
    the same, the basis left behind is feasible again (so the next re-optimisation starts from the same
    hypotheses), and
    OPTIMIZED ⇒ `basicObj s'.working_cost` is the maximum of the objective over the non-negative solutions
    (an upper bound, attained); UNBOUNDED ⇒ the objective has no upper bound on them. -/
theorem secondPhase_sound (fc : Chooser) (hfc : ChooserOK fc) (fuel : Nat) (s s' : LPState)
    (hst : s.status = .SATISFIABLE) (hTB : CanonTB s.tableau s.base s.working_cost.length)
    (hcl : (secondPhaseCost s).length = s.working_cost.length)
    (hcs : (secondPhaseCost s).get (s.working_cost.length - 1) ≠ 0)
    (h : secondPhase fc fuel s = some s') :
    (s'.status = .OPTIMIZED ∨ s'.status = .UNBOUNDED) ∧
    s'.working_cost.length = s.working_cost.length ∧
    CanonTB s'.tableau s'.base s'.working_cost.length ∧
    (∀ y, Sol s'.tableau y ↔ Sol s.tableau y) ∧
    (s'.status = .OPTIMIZED →
      (∀ y, Sol s.tableau y → NonnegPt s.working_cost.length y → objAt (secondPhaseCost s) y ≤ basicObj s'.working_cost) ∧
      ∃ y, Sol s.tableau y ∧ NonnegPt s.working_cost.length y ∧ objAt (secondPhaseCost s) y = basicObj s'.working_cost) ∧
    (s'.status = .UNBOUNDED →
      ∀ M : Rat, ∃ y, Sol s.tableau y ∧ NonnegPt s.working_cost.length y ∧ M < objAt (secondPhaseCost s) y) := by
  rw [secondPhase_unfold fc fuel s hst] at h
  obtain ⟨r1, r2, r3, r4⟩ := reexpress_spec hTB (secondPhaseCost s) hcl hcs
  have hC := hTB.toCanon _ r1 r2 r3
  cases hrun : computeSimplexWith (chooserOf fc s.pricing) fuel
      ⟨s.tableau, reexpress s.tableau s.base (secondPhaseCost s), s.base⟩ with
  | none => rw [hrun] at h; cases h
  | some res =>
    obtain ⟨ok, t⟩ := res
    rw [hrun] at h
    simp only [Option.some.injEq] at h
    obtain ⟨p1, p2, p3, p4, p5, p6⟩ :=
      pricing_choice_irrelevant _ (chooserOf_ok fc hfc s.pricing) fuel _ ok t hC hrun
    obtain ⟨-, q2, -⟩ := simplex_loop _ (chooserOf_ok fc hfc s.pricing) fuel _ ok t hC hrun
    have hlen : t.cost.length = s.working_cost.length := by rw [q2]; exact r1
    subst h
    simp only [computeGenerator, LPState.withTab]
    refine ⟨by cases ok <;> simp, hlen, p2.toTB, p1, ?_, ?_⟩
    · intro hopt
      have hok : ok = true := by cases ok <;> simp_all
      refine ⟨fun y hy hn => ?_, ?_⟩
      · have := p4 hok y hy (by show NonnegPt (reexpress _ _ _).length y; rw [r1]; exact hn)
        rw [r4 y hy] at this; exact this
      · obtain ⟨b1, b2, b3⟩ := p5 hok
        refine ⟨_, b1, ?_, ?_⟩
        · have : NonnegPt (reexpress s.tableau s.base (secondPhaseCost s)).length (basicPt t) := b2
          rwa [r1] at this
        · rw [← r4 _ b1]; exact b3
    · intro hunb
      have hok : ok = false := by cases ok <;> simp_all
      intro M
      obtain ⟨y, y1, y2, y3⟩ := p6 hok M
      refine ⟨y, y1, ?_, ?_⟩
      · have : NonnegPt (reexpress s.tableau s.base (secondPhaseCost s)).length y := y2
        rwa [r1] at this
      · rw [← r4 y y1]; exact y3

/-- (c) **re-optimisation equals a fresh solve in status and value.**  Two states holding feasible bases
    of tableaux with the same columns and the same solution set (the state left by earlier solves and
    incremental steps, and the state of a fresh problem with the same constraints), whose second-phase cost
    rows denote the same objective on it: whatever the pricing rules, when both second phases terminate they
    end in the same status, and OPTIMIZED with the same value. -/
theorem secondPhase_value_eq (fc1 fc2 : Chooser) (h1 : ChooserOK fc1) (h2 : ChooserOK fc2) (f1 f2 : Nat)
    (s1 s2 r1 r2 : LPState) (hs1 : s1.status = .SATISFIABLE) (hs2 : s2.status = .SATISFIABLE)
    (hT1 : CanonTB s1.tableau s1.base s1.working_cost.length)
    (hT2 : CanonTB s2.tableau s2.base s2.working_cost.length)
    (hn : s1.working_cost.length = s2.working_cost.length)
    (hc1 : (secondPhaseCost s1).length = s1.working_cost.length ∧ (secondPhaseCost s1).get (s1.working_cost.length - 1) ≠ 0)
    (hc2 : (secondPhaseCost s2).length = s2.working_cost.length ∧ (secondPhaseCost s2).get (s2.working_cost.length - 1) ≠ 0)
    (hsol : ∀ y, Sol s1.tableau y ↔ Sol s2.tableau y)
    (hobj : ∀ y, Sol s1.tableau y → objAt (secondPhaseCost s1) y = objAt (secondPhaseCost s2) y)
    (hr1 : secondPhase fc1 f1 s1 = some r1) (hr2 : secondPhase fc2 f2 s2 = some r2) :
    r1.status = r2.status ∧ (r1.status = .OPTIMIZED → basicObj r1.working_cost = basicObj r2.working_cost) := by
  obtain ⟨a1, -, -, -, a5, a6⟩ := secondPhase_sound fc1 h1 f1 s1 r1 hs1 hT1 hc1.1 hc1.2 hr1
  obtain ⟨b1, -, -, -, b5, b6⟩ := secondPhase_sound fc2 h2 f2 s2 r2 hs2 hT2 hc2.1 hc2.2 hr2
  rcases a1 with a1 | a1 <;> rcases b1 with b1 | b1
  · refine ⟨by rw [a1, b1], fun _ => ?_⟩
    obtain ⟨u1, ⟨y1, y11, y12, y13⟩⟩ := a5 a1
    obtain ⟨u2, ⟨y2, y21, y22, y23⟩⟩ := b5 b1
    have c1 := u2 y1 ((hsol y1).mp y11) (hn ▸ y12)
    rw [← hobj y1 y11, y13] at c1
    have c2 := u1 y2 ((hsol y2).mpr y21) (hn ▸ y22)
    rw [hobj y2 ((hsol y2).mpr y21), y23] at c2
    linarith
  · exfalso
    obtain ⟨u1, -⟩ := a5 a1
    obtain ⟨y, y1, y2, y3⟩ := b6 b1 (basicObj r1.working_cost)
    have := u1 y ((hsol y).mpr y1) (hn ▸ y2)
    rw [hobj y ((hsol y).mpr y1)] at this
    linarith
  · exfalso
    obtain ⟨u2, -⟩ := b5 b1
    obtain ⟨y, y1, y2, y3⟩ := a6 a1 (basicObj r2.working_cost)
    have := u2 y ((hsol y).mp y1) (hn ▸ y2)
    rw [← hobj y y1] at this
    linarith
  · exact ⟨by rw [a1, b1], fun h => by rw [a1] at h; cases h⟩

/-! ### the status protocol -/

def Solved (st : Status) : Prop := st = .SATISFIABLE ∨ st = .UNBOUNDED ∨ st = .OPTIMIZED

/-- a "solved" status promises that nothing is pending -/
def StatusInv (s : LPState) : Prop :=
  Solved s.status → s.first_pending = s.input_cs.length ∧ s.internal_space_dim = s.external_space_dim

theorem new_statusInv (n : Nat) : StatusInv (LPState.new n) := by
  intro h; rcases h with h | h | h <;> cases h

theorem addConstraint_status (s : LPState) (c : ICon) :
    (addConstraint s c).status = (if s.status = .UNSATISFIABLE then .UNSATISFIABLE else .PARTIALLY_SATISFIABLE) ∧
    ¬ Solved (addConstraint s c).status := by
  unfold addConstraint
  by_cases h : s.status = .UNSATISFIABLE <;> simp [h, Solved]

theorem addSpaceDimensionsAndEmbed_status (s : LPState) (m : Nat) :
    (addSpaceDimensionsAndEmbed s m).status =
      (if s.status = .UNSATISFIABLE then .UNSATISFIABLE else .PARTIALLY_SATISFIABLE) ∧
    ¬ Solved (addSpaceDimensionsAndEmbed s m).status := by
  unfold addSpaceDimensionsAndEmbed
  by_cases h : s.status = .UNSATISFIABLE <;> simp [h, Solved]

theorem setObjectiveFunction_status (s : LPState) (e : LinExpr) :
    (setObjectiveFunction s e).status =
      (if s.status = .UNBOUNDED ∨ s.status = .OPTIMIZED then .SATISFIABLE else s.status) ∧
    (setObjectiveFunction s e).status ≠ .UNBOUNDED ∧ (setObjectiveFunction s e).status ≠ .OPTIMIZED ∧
    ((setObjectiveFunction s e).status = .SATISFIABLE → Solved s.status) := by
  unfold setObjectiveFunction Solved
  cases hs : s.status <;> simp [hs]

theorem setOptimizationMode_status (s : LPState) (b : Bool) :
    ((setOptimizationMode s b).status = .SATISFIABLE → Solved s.status) ∧
    (s.maximize ≠ b → (setOptimizationMode s b).status ≠ .UNBOUNDED ∧ (setOptimizationMode s b).status ≠ .OPTIMIZED) ∧
    (s.maximize = b → setOptimizationMode s b = s) := by
  unfold setOptimizationMode Solved
  by_cases hb : s.maximize = b
  · simp [hb]
    cases hs : s.status <;> simp
  · cases hs : s.status <;> simp [hs, hb]

/-- the mutators do not touch the tableau data: a feasible basis stays one (for the processed constraints) -/
theorem mutators_keep_tableau (s : LPState) (c : ICon) (e : LinExpr) (b : Bool) (m : Nat) (p : Pricing) :
    (∀ s' ∈ [addConstraint s c, setObjectiveFunction s e, setOptimizationMode s b,
        addSpaceDimensionsAndEmbed s m, setPricing s p],
      s'.tableau = s.tableau ∧ s'.base = s.base ∧ s'.mapping = s.mapping ∧ s'.numCols = s.numCols ∧
      s'.working_cost = s.working_cost ∧ s'.first_pending = s.first_pending ∧
      s'.internal_space_dim = s.internal_space_dim) := by
  intro s' hs'
  simp only [List.mem_cons, List.not_mem_nil, or_false] at hs'
  rcases hs' with rfl | rfl | rfl | rfl | rfl
  · by_cases h : s.status = .UNSATISFIABLE <;> simp [addConstraint, h]
  · cases hs : s.status <;> simp [setObjectiveFunction, hs]
  · by_cases hb : s.maximize = b <;> cases hs : s.status <;> simp [setOptimizationMode, hs, hb]
  · by_cases h : s.status = .UNSATISFIABLE <;> simp [addSpaceDimensionsAndEmbed, h]
  · simp [setPricing]

theorem setObjectiveFunction_fields (s : LPState) (e : LinExpr) :
    (setObjectiveFunction s e).input_cs = s.input_cs ∧ (setObjectiveFunction s e).external_space_dim = s.external_space_dim ∧
    (setObjectiveFunction s e).first_pending = s.first_pending ∧
    (setObjectiveFunction s e).internal_space_dim = s.internal_space_dim := by
  cases hs : s.status <;> simp [setObjectiveFunction, hs]

theorem setOptimizationMode_fields (s : LPState) (b : Bool) :
    (setOptimizationMode s b).input_cs = s.input_cs ∧ (setOptimizationMode s b).external_space_dim = s.external_space_dim ∧
    (setOptimizationMode s b).first_pending = s.first_pending ∧
    (setOptimizationMode s b).internal_space_dim = s.internal_space_dim := by
  by_cases hb : s.maximize = b <;> cases hs : s.status <;> simp [setOptimizationMode, hs, hb]

/-- every mutator keeps the status invariant -/
theorem mutators_statusInv (s : LPState) (h : StatusInv s) (c : ICon) (e : LinExpr) (b : Bool) (m : Nat) (p : Pricing) :
    StatusInv (addConstraint s c) ∧ StatusInv (setObjectiveFunction s e) ∧ StatusInv (setOptimizationMode s b) ∧
    StatusInv (addSpaceDimensionsAndEmbed s m) ∧ StatusInv (setPricing s p) := by
  refine ⟨?_, ?_, ?_, ?_, ?_⟩
  · intro hs; exact absurd hs (addConstraint_status s c).2
  · intro hs
    have hsolved : Solved s.status := by
      obtain ⟨h1, h2, h3, h4⟩ := setObjectiveFunction_status s e
      rcases hs with hs | hs | hs
      · exact h4 hs
      · exact absurd hs h2
      · exact absurd hs h3
    have := h hsolved
    obtain ⟨f1, f2, f3, f4⟩ := setObjectiveFunction_fields s e
    rw [f1, f2, f3, f4]; exact this
  · intro hs
    by_cases hb : s.maximize = b
    · rw [(setOptimizationMode_status s b).2.2 hb] at hs ⊢; exact h hs
    · obtain ⟨h1, h2, -⟩ := setOptimizationMode_status s b
      have hsolved : Solved s.status := by
        rcases hs with hs | hs | hs
        · exact h1 hs
        · exact absurd hs (h2 hb).1
        · exact absurd hs (h2 hb).2
      have := h hsolved
      obtain ⟨f1, f2, f3, f4⟩ := setOptimizationMode_fields s b
      rw [f1, f2, f3, f4]; exact this
  · intro hs; exact absurd hs (addSpaceDimensionsAndEmbed_status s m).2
  · exact h

/-- `is_lp_satisfiable()` establishes the status invariant: after it nothing is pending, whatever the
    status; and it answers `status ≠ UNSATISFIABLE` -/
theorem isLpSatisfiable_statusInv (fc : Chooser) (fuel : Nat) (s s' : LPState) (b : Bool) (h : StatusInv s)
    (hr : isLpSatisfiable fc fuel s = some (s', b)) :
    StatusInv s' ∧ (b = true ↔ s'.status ≠ .UNSATISFIABLE) ∧
    (s.status = .PARTIALLY_SATISFIABLE →
      s'.first_pending = s'.input_cs.length ∧ s'.internal_space_dim = s'.external_space_dim) ∧
    (s.status ≠ .PARTIALLY_SATISFIABLE → s' = s) := by
  unfold isLpSatisfiable at hr
  cases hs : s.status
  case PARTIALLY_SATISFIABLE =>
    rw [hs] at hr
    simp only at hr
    split at hr
    · cases hr
    · simp only [Option.some.injEq, Prod.mk.injEq] at hr
      obtain ⟨rfl, rfl⟩ := hr
      exact ⟨fun _ => ⟨rfl, rfl⟩, by simp, fun _ => ⟨rfl, rfl⟩, fun h => absurd rfl h⟩
  all_goals
    rw [hs] at hr
    simp only [Option.some.injEq, Prod.mk.injEq] at hr
    obtain ⟨rfl, rfl⟩ := hr
    refine ⟨h, by simp [hs], (fun h => by cases h), fun _ => rfl⟩

/-- `second_phase()` (called, as the code asserts, on a solved status) keeps the invariant -/
theorem secondPhase_statusInv (fc : Chooser) (fuel : Nat) (s s' : LPState) (h : StatusInv s)
    (hsol : Solved s.status) (hr : secondPhase fc fuel s = some s') : StatusInv s' ∧ Solved s'.status := by
  unfold secondPhase at hr
  split at hr
  · simp only [Option.some.injEq] at hr; subst hr; exact ⟨h, hsol⟩
  · simp only [] at hr
    split at hr
    · cases hr
    · rename_i ok t _
      simp only [Option.some.injEq] at hr
      subst hr
      refine ⟨fun _ => ?_, ?_⟩
      · simpa [computeGenerator, LPState.withTab] using h hsol
      · unfold Solved; cases ok <;> simp [computeGenerator, LPState.withTab]

end PPLV.Solver.Pend
