import PPLV.Solver.PendingProofsChain

/-!
# C06 stage 3 — building blocks for the incremental call of `process_pending_constraints`

* `combine_against_base_solutions`: the loop at :896–:900 (a new row is `linear_combine`d against the rows whose
  basic variable it mentions) does not change where the new row vanishes, on valuations satisfying the old rows;
* `SplitPair`, `linearCombine_splitPair`, `pivotRows_splitPair`: the two columns of a split variable stay opposite
  in every row through `linear_combine` / `pivot`;
* `split_collapse`: with opposite columns, moving the common part of the positive and the negative component away
  (`y_p := y_p − y_q`, `y_q := 0`) keeps every row's value — the solutions lost by `merge_split_variable` are
  represented by solutions that survive;
* `rowVal_eraseIdx`: removing a column is evaluating at the valuation with 0 inserted there.
-/
namespace PPLV.Solver.Pend
open PPLV.Lin PPLV.Solver PPLV.Solver.Tab

/-- the inner loop of the insertion (:896–:900) keeps the zero set of the new row -/
theorem combine_against_base_solutions (T : List Row) (base : List Nat) (k m : Nat) (row : Row) (y : Val)
    (hold : ∀ j, j < m → j ≠ k → base.getD j 0 ≠ 0 → rowVal (T.getD j []) y = 0)
    (hnz : ∀ j, j < m → j ≠ k → base.getD j 0 ≠ 0 → (T.getD j []).get (base.getD j 0) ≠ 0) :
    rowVal (revFold m (fun j (row : Row) =>
      let bj := base.getD j 0
      if k != j && bj != 0 && row.get bj != 0 then linearCombine row (T.getD j []) bj else row) row) y = 0 ↔
    rowVal row y = 0 := by
  apply revFold_inv (fun (_ : Nat) (r : Row) => rowVal r y = 0 ↔ rowVal row y = 0)
  · exact Iff.rfl
  · intro j hj r hr
    simp only
    split
    · rename_i hc
      simp only [Bool.and_eq_true, bne_iff_ne, ne_eq] at hc
      obtain ⟨⟨h1, h2⟩, -⟩ := hc
      have hjk : j ≠ k := fun h => h1 h.symm
      exact (linearCombine_zero_iff r (T.getD j []) (base.getD j 0) y (hold j hj hjk h2) (hnz j hj hjk h2)).trans hr
    · exact hr

/-- columns `p` (positive part) and `q` (negative part) of a split variable are opposite in the row -/
def SplitPair (r : Row) (p q : Nat) : Prop := r.get q = -(r.get p)

theorem linearCombine_splitPair (x y : Row) (k p q : Nat) (hx : SplitPair x p q) (hy : SplitPair y p q) :
    SplitPair (linearCombine x y k) p q := by
  obtain ⟨d, hd, h1, -, -⟩ := linearCombine_spec x y k
  unfold SplitPair at *
  have e1 := h1 q
  have e2 := h1 p
  rw [hx, hy] at e1
  have : d * (linearCombine x y k).get q = d * -((linearCombine x y k).get p) := by
    have e3 : d * -((linearCombine x y k).get p) = -(d * (linearCombine x y k).get p) := by ring
    rw [e1, e3, e2]; ring
  exact Int.eq_of_mul_eq_mul_left (by omega) this

theorem pivotRows_splitPair (T : List Row) (e r p q : Nat) (h : ∀ i, i < T.length → SplitPair (T.getD i []) p q) :
    ∀ i, i < (pivotRows T e r).length → SplitPair ((pivotRows T e r).getD i []) p q := by
  intro i hi
  rw [pivotRows_length] at hi
  rw [pivotRows_getD T e r i hi]
  split
  · by_cases hr : r < T.length
    · exact linearCombine_splitPair _ _ _ _ _ (h i hi) (h r hr)
    · have : T.getD r [] = [] := by
        rw [List.getD_eq_getElem?_getD, List.getElem?_eq_none (by omega)]; rfl
      rw [this]
      exact linearCombine_splitPair _ _ _ _ _ (h i hi) (by unfold SplitPair Row.get; simp)
  · exact h i hi

/-- the common part of the two components of a split variable can be moved away -/
theorem split_collapse (r : Row) (p q : Nat) (hpq : p ≠ q) (h : SplitPair r p q) (y : Val) :
    rowVal r ((y.update p (y p - y q)).update q 0) = rowVal r y := by
  unfold rowVal
  rw [dot_update, dot_update]
  have hq : (y.update p (y p - y q)) q = y q := by simp [Val.update, Ne.symm hpq]
  rw [hq]
  unfold SplitPair Row.get at h
  rw [h]
  push_cast
  ring

/-- the valuation with a 0 inserted at column `q` -/
def insertZero (q : Nat) (y : Val) : Val := fun j => if j < q then y j else if j = q then 0 else y (j - 1)

/-- `remove_column(q)`: the shortened row at `y` is the row at `y` with 0 inserted at `q` -/
theorem rowVal_eraseIdx (r : Row) (q : Nat) (y : Val) : rowVal (r.eraseIdx q) y = rowVal r (insertZero q y) := by
  unfold rowVal
  induction r generalizing q y with
  | nil => simp
  | cons a r ih =>
    cases q with
    | zero =>
      simp only [List.eraseIdx_cons_zero, dot_cons]
      have h0 : insertZero 0 y 0 = 0 := by simp [insertZero]
      have ht : (insertZero 0 y).tail = y := by
        funext j; simp [Val.tail, insertZero]
      rw [h0, ht]; simp
    | succ q =>
      simp only [List.eraseIdx_cons_succ, dot_cons]
      have h0 : insertZero (q+1) y 0 = y 0 := by simp [insertZero]
      have ht : (insertZero (q+1) y).tail = insertZero q y.tail := by
        funext j
        simp only [Val.tail, insertZero]
        by_cases h1 : j < q
        · simp [h1]
        · by_cases h2 : j = q
          · simp [h2]
          · have h3 : ¬ j + 1 < q + 1 := by omega
            have h4 : ¬ j + 1 = q + 1 := by omega
            simp only [h1, h2, h3, h4, if_false]
            congr 1
            omega
      rw [h0, ht, ih q y.tail]

end PPLV.Solver.Pend

namespace PPLV.Solver.Pend
open PPLV.Lin PPLV.Solver PPLV.Solver.Tab

/-- **`second_phase()` keeps a state `Ready`**: after a complete solve the tableau still holds a feasible basis
    whose non-negative solutions are exactly the encodings of the solution set — the induction hypothesis an
    incremental call of `process_pending_constraints` starts from -/
theorem ready_after_secondPhase (fc : Chooser) (hfc : ChooserOK fc) (fuel : Nat) (cs : List ICon) (n : Nat)
    (s1 s2 : LPState) (hst : s1.status = .SATISFIABLE) (hR : Ready cs n s1)
    (hobj : s1.obj.coeffs.length ≤ n) (h : secondPhase fc fuel s1 = some s2) : Ready cs n s2 := by
  obtain ⟨nn, jj, hM, hjj⟩ := hR.map
  obtain ⟨c1, c2, -⟩ := secondPhaseCost_spec s1 nn n jj hM hjj hobj
  have hc2 : (secondPhaseCost s1).get (s1.working_cost.length - 1) ≠ 0 := by rw [c2]; decide
  obtain ⟨-, p2, p3, p4, -, -⟩ := secondPhase_sound fc hfc fuel s1 s2 hst hR.tb c1 hc2 h
  have hmap : s2.mapping = s1.mapping := by
    rw [secondPhase_unfold fc fuel s1 hst] at h
    split at h
    · cases h
    · simp only [Option.some.injEq] at h; subst h; rfl
  refine ⟨p3, ⟨nn, jj, by rw [hmap]; exact hM, by rw [p2]; exact hjj⟩, fun y hy hs => ?_, fun x hx => ?_⟩
  · rw [hmap]; rw [p2] at hy
    exact hR.sound y hy ((p4 y).mp hs)
  · obtain ⟨y, y1, y2, y3⟩ := hR.complete x hx
    exact ⟨y, by rw [p2]; exact y1, (p4 y).mpr y2, by rw [hmap]; exact y3⟩

end PPLV.Solver.Pend
