import PPLV.Solver.PendingProofsIncr8

/-!
# C06 stage 3 — incremental set-up: `ppcFill` in terms of a `GCtx`
-/
namespace PPLV.Solver.Pend
open PPLV.Lin PPLV.Solver PPLV.Solver.Tab

/-- padding of the old rows to the new width -/
def padRows (T : List Row) (numCols : Nat) : List Row := T.map fun (r : Row) => r ++ zeros (numCols - r.length)

theorem padRows_length (T : List Row) (numCols : Nat) : (padRows T numCols).length = T.length := by
  unfold padRows; simp

theorem padRows_getD (T : List Row) (numCols i : Nat) (hi : i < T.length) :
    (padRows T numCols).getD i [] = T.getD i [] ++ zeros (numCols - (T.getD i []).length) := by
  unfold padRows
  rw [List.getD_eq_getElem?_getD, List.getElem?_map, List.getD_eq_getElem?_getD, List.getElem?_eq_getElem hi]
  rfl

theorem pad_get (r : Row) (k col : Nat) : Row.get (r ++ zeros k) col = r.get col := by
  unfold Row.get
  rw [List.getD_eq_getElem?_getD, List.getD_eq_getElem?_getD]
  by_cases h : col < r.length
  · rw [List.getElem?_append_left h]
  · rw [List.getElem?_append_right (by omega), List.getElem?_eq_none (l := r) (by omega)]
    unfold zeros
    by_cases h2 : col - r.length < k
    · rw [List.getElem?_replicate_of_lt h2]; rfl
    · rw [List.getElem?_eq_none (by simpa using h2)]

theorem padRows_get (T : List Row) (numCols i col : Nat) (hi : i < T.length) :
    ((padRows T numCols).getD i []).get col = (T.getD i []).get col := by
  rw [padRows_getD T numCols i hi, pad_get]

theorem ppcFill_incr_eq (sm : LPState) (unf : List Nat) (p : Parsed) (isSat : List Bool) (C : GCtx) (addArt : Nat)
    (e1 : sm.input_cs.drop sm.first_pending = C.pend)
    (e1' : sm.input_cs.length - sm.first_pending = C.pend.length)
    (e2 : p.isTab = C.pend.map tabC) (e3 : isSat = C.isSat) (e4 : p.rows = C.Nn)
    (e0 : p.rows - isSat.count true + unf.length = addArt)
    (e5 : sm.numCols + (0 + p.slacks + addArt) = C.numCols)
    (e6 : C.numCols - addArt - 1 = C.SL)
    (e7 : padRows sm.tableau C.numCols = C.T0) (e8 : sm.base = C.base0) (e9 : sm.mapping = C.M)
    (e10 : sm.tableau.length = C.R0) :
    ∃ s0, ppcFill sm unf p isSat sm.mapping 0 =
        ppcTrivial s0 (if addArt > 0 then C.SL else 0) (C.artOut unf).2.2.2 ∧
      s0.tableau = (C.artOut unf).1 ∧ s0.base = (C.artOut unf).2.2.1 ∧
      s0.working_cost = reexpressCost (C.artOut unf).1 (C.artOut unf).2.2.1 ((C.artOut unf).2.1.set (C.numCols - 1) 1) ∧
      s0.numCols = C.numCols ∧ s0.mapping = C.M ∧ s0.external_space_dim = sm.external_space_dim ∧
      s0.obj = sm.obj ∧ s0.maximize = sm.maximize ∧ s0.pricing = sm.pricing ∧ s0.input_cs = sm.input_cs := by
  unfold ppcFill
  simp only [List.map_append, pad_replicate]
  rw [e0, e5, e6, e4, e2, e1, e1', e10]
  have e7' : List.map (fun (r : Row) => r ++ zeros (C.numCols - r.length)) sm.tableau = C.T0 := e7
  rw [e7', e8, e9, e3]
  exact ⟨_, rfl, rfl, rfl, rfl, rfl, rfl, rfl, rfl, rfl, rfl, rfl⟩

end PPLV.Solver.Pend
