/-!
# C07 stage 2 — the core of the PIP solver, part 1: the parametric tableau and the pivot
(executable model, no Mathlib; code-shaped transliteration of `/repo/src/PIP_Tree.cc`)

* `Tableau` = `PIP_Solution_Node::Tableau`: the matrices `s` (coefficients of the column variables)
  and `t` (column 0: constant term, columns 1..: parameters) over the common denominator `den`.
  Rows are dense lists (the code uses sparse rows; every loop below that walks the *stored* entries of a
  sparse row is insensitive to unstored / stored-zero entries, as remarked at each site).
* `SolNode` = the data members of `PIP_Solution_Node` that `solve` touches: `tableau`, `basis`,
  `mapping`, `var_row`, `var_column`, `sign`, `big_dimension`, and of `PIP_Tree_Node`:
  `artificial_parameters`, `constraints_`.
* `Tableau.normalize`, `Tableau.scale`, and `pivot` = the pivot performed inside
  `PIP_Solution_Node::solve` (PIP_Tree.cc:2856-3055).

PPL's vocabulary: a variable `k` with `basis[k] = true` is a *column* variable (value 0 in the basic
solution) and `mapping[k]` is its column; with `basis[k] = false` it is defined by row `mapping[k]`:
`den * x_k = Σ_j s[row][j] * y_j + t[row]·(1, params)`.
-/
namespace PPLV.PIPCore

abbrev Row := List Int
abbrev Mat := List Row

/-- `Row::get(j)` (0 for an index that is not stored) -/
def rget (r : Row) (j : Nat) : Int := r.getD j 0
def mrow (m : Mat) (i : Nat) : Row := m.getD i []
def mget (m : Mat) (i j : Nat) : Int := rget (mrow m i) j
def rset (r : Row) (j : Nat) (v : Int) : Row := r.set j v
def mset (m : Mat) (i j : Nat) (v : Int) : Mat := m.set i (rset (mrow m i) j v)
def msetRow (m : Mat) (i : Nat) (r : Row) : Mat := m.set i r
def zeroRow (n : Nat) : Row := List.replicate n 0

def natGet (l : List Nat) (i : Nat) : Nat := l.getD i 0
def boolGet (l : List Bool) (i : Nat) : Bool := l.getD i false

/-- `gcd_assign`: non-negative gcd -/
def gcdI (a b : Int) : Int := (Int.gcd a b : Nat)

/-- `pos_rem_assign` (PIP_Tree.cc:65-73) for a positive modulus -/
def posRem (a d : Int) : Int := a.emod d

/-- `Row_Sign` (PIP_Tree_defs.hh:595) -/
inductive RowSign | unknown | zero | positive | negative | mixed
deriving Repr, DecidableEq, Inhabited

def signGet (l : List RowSign) (i : Nat) : RowSign := l.getD i .unknown

/-- `PIP_Solution_Node::Tableau` -/
structure Tableau where
  s : Mat
  t : Mat
  den : Int
  ns : Nat      -- s.num_columns()
  nt : Nat      -- t.num_columns()
deriving Repr, DecidableEq, Inhabited

/-- gcd of `g` and all entries of the row -/
def rowGcd (g : Int) (r : Row) : Int := r.foldl gcdI g

/-- `Tableau::normalize` (PIP_Tree.cc:1678-1736).  The code leaves as soon as the running gcd is 1;
    that is the same as not dividing when the final gcd is 1. -/
def Tableau.normalize (T : Tableau) : Tableau :=
  if T.den = 1 then T else
  let g := T.t.foldl rowGcd (T.s.foldl rowGcd (gcdI T.den 0))
  if g = 1 then T else
  { T with s := T.s.map (·.map (· / g)), t := T.t.map (·.map (· / g)), den := T.den / g }

/-- `Tableau::scale` (PIP_Tree.cc:1738-1754) -/
def Tableau.scale (T : Tableau) (ratio : Int) : Tableau :=
  { T with s := T.s.map (·.map (· * ratio)), t := T.t.map (·.map (· * ratio)), den := T.den * ratio }

/-- artificial parameter: `(num·(1, params)) div den`; `num` has one entry per parameter column that
    existed when it was created (column 0 = constant term) -/
structure ArtP where
  num : Row
  den : Int
deriving Repr, DecidableEq, Inhabited

/-- the members of a `PIP_Solution_Node` -/
structure SolNode where
  tab : Tableau
  basis : List Bool
  mapping : List Nat
  varRow : List Nat
  varColumn : List Nat
  sign : List RowSign
  big : Option Nat            -- `big_dimension` (a column of `t`), `none` = `not_a_dimension()`
  arts : List ArtP            -- `artificial_parameters`
  cons : List Row             -- `constraints_`: rows `r·(1, params) >= 0`
deriving Repr, DecidableEq, Inhabited

/-! ### the pivot (PIP_Tree.cc:2856-3055) -/

/-- "Update basis" (PIP_Tree.cc:2862-2871) -/
def swapBasis (nd : SolNode) (pi pj : Nat) : SolNode :=
  let varPi := natGet nd.varRow pi
  let varPj := natGet nd.varColumn pj
  { nd with
    varRow := nd.varRow.set pi varPj
    varColumn := nd.varColumn.set pj varPi
    basis := (nd.basis.set varPi true).set varPj false
    mapping := (nd.mapping.set varPi pj).set varPj pi }

/-- one `(i, j)` step of "Compute columns s[*][j]" (PIP_Tree.cc:2920-2946); the state carries the local
    copy `s_i_pj`, rescaled by hand at line 2932 -/
def pivotStepS (sp : Row) (spp : Int) (pj i : Nat) (st : Tableau × Int) (j : Nat) : Tableau × Int :=
  let (T, sipj) := st
  if j = pj then st else
  let spj := rget sp j
  if spj = 0 then st else
  let product := spj * sipj
  let (T, sipj, product) :=
    if product % spp ≠ 0 then
      let sf := spp / gcdI product spp
      (T.scale sf, sipj * sf, product * sf)
    else (T, sipj, product)
  let product := product / spp
  if product ≠ 0 then ({ T with s := mset T.s i j (mget T.s i j - product) }, sipj) else (T, sipj)

/-- the row loop body (PIP_Tree.cc:2909-2947) -/
def pivotRowS (sp : Row) (spp : Int) (pj : Nat) (T : Tableau) (i : Nat) : Tableau :=
  let sipj := mget T.s i pj
  if sipj = 0 then T else
  ((List.range T.ns).foldl (pivotStepS sp spp pj i) (T, sipj)).1

/-- the sign bookkeeping of lines 2999-3023 -/
def signStep (sg : RowSign) (product : Int) (j : Nat) : RowSign :=
  match sg with
  | .zero => if product > 0 then (if j = 0 then .negative else .mixed)
             else if product < 0 then .positive else .zero
  | .positive => if product > 0 then .mixed else .positive
  | .negative => if product < 0 then .mixed else .negative
  | o => o

/-- one `(i, j)` step of "Compute columns t[*][j]" (PIP_Tree.cc:2976-3025); `s_i_pj` is a reference into
    the tableau (line 2968), rescaled by `scale` itself -/
def pivotStepT (tp : Row) (spp : Int) (pj i : Nat) (st : Tableau × List RowSign) (j : Nat) :
    Tableau × List RowSign :=
  let (T, sg) := st
  let tpj := rget tp j
  if tpj = 0 then st else
  let product := tpj * mget T.s i pj
  let (T, product) :=
    if product % spp ≠ 0 then
      let sf := spp / gcdI product spp
      (T.scale sf, product * sf)
    else (T, product)
  let product := product / spp
  let T := if product ≠ 0 then { T with t := mset T.t i j (mget T.t i j - product) } else T
  (T, sg.set i (signStep (signGet sg i) product j))

def pivotRowT (tp : Row) (spp : Int) (pj : Nat) (st : Tableau × List RowSign) (i : Nat) :
    Tableau × List RowSign :=
  if mget st.1.s i pj = 0 then st else
  (List.range st.1.nt).foldl (pivotStepT tp spp pj i) st

/-- one row of "Compute column s[*][pj]" (PIP_Tree.cc:3033-3054) -/
def pivotRowC (spp pivotDen : Int) (pj : Nat) (T : Tableau) (i : Nat) : Tableau :=
  let v := mget T.s i pj
  let product := v * pivotDen
  let (T, product) :=
    if product % spp ≠ 0 then
      let sf := spp / gcdI product spp
      (T.scale sf, product * sf)
    else (T, product)
  -- line 3050 guards the store with `product != 0 || *itr != 0`: otherwise the entry is 0 and stays 0
  { T with s := mset T.s i pj (product / spp) }

def rowsDown (n : Nat) : List Nat := (List.range n).reverse

/-- the pivot on `(pi, pj)` of `PIP_Solution_Node::solve`, from "Normalize the tableau before pivoting"
    (line 2857) to the end of the step (line 3058) -/
def pivot (nd : SolNode) (pi pj : Nat) : SolNode :=
  let T := nd.tab.normalize
  let nd := swapBasis { nd with tab := T } pi pj
  let numRows := T.s.length
  let pivotDen := T.den
  -- identity row swapped with the pivot row (lines 2877-2899)
  let sp := mrow T.s pi
  let tp := mrow T.t pi
  let T := { T with s := msetRow T.s pi (rset (zeroRow T.ns) pj pivotDen),
                    t := msetRow T.t pi (zeroRow T.nt) }
  let sg := nd.sign.set pi .zero
  let spp := rget sp pj
  let T := (rowsDown numRows).foldl (pivotRowS sp spp pj) T
  let (T, sg) := (rowsDown numRows).foldl (pivotRowT tp spp pj) (T, sg)
  let T := if spp ≠ pivotDen then (rowsDown numRows).foldl (pivotRowC spp pivotDen pj) T else T
  { nd with tab := T, sign := sg }

end PPLV.PIPCore
