import PPLV.Solver.PIPCoreSem
import Mathlib.Tactic.Ring
import Mathlib.Tactic.Linarith
/-!
# C07 stage 2 — pivot proofs, part 1: basic matrix lemmas, `sumTo`, `dot`
-/
namespace PPLV.PIPCore.Piv

/-! ### rows -/

theorem rget_nil (j : Nat) : rget [] j = 0 := by
  unfold rget; simp

theorem rget_cons_zero (a : Int) (r : Row) : rget (a :: r) 0 = a := by
  unfold rget; simp

theorem rget_cons_succ (a : Int) (r : Row) (j : Nat) : rget (a :: r) (j + 1) = rget r j := by
  unfold rget; simp

theorem rget_of_le {r : Row} {j : Nat} (h : r.length ≤ j) : rget r j = 0 := by
  unfold rget; simp [h]

theorem rset_length (r : Row) (j : Nat) (v : Int) : (rset r j v).length = r.length := by
  unfold rset; simp

theorem rget_rset_same {r : Row} {j : Nat} (v : Int) (h : j < r.length) :
    rget (rset r j v) j = v := by
  unfold rget rset; simp [h]

theorem rget_rset_ne {r : Row} {j k : Nat} (v : Int) (h : j ≠ k) :
    rget (rset r j v) k = rget r k := by
  unfold rget rset; simp [h]

theorem rget_map_mul (r : Row) (c : Int) (j : Nat) :
    rget (r.map (· * c)) j = rget r j * c := by
  unfold rget
  induction r generalizing j with
  | nil => simp
  | cons a as ih => cases j with
    | zero => simp
    | succ j => simpa using ih j

theorem rget_map_div (r : Row) (c : Int) (j : Nat) :
    rget (r.map (· / c)) j = rget r j / c := by
  unfold rget
  induction r generalizing j with
  | nil => simp
  | cons a as ih => cases j with
    | zero => simp
    | succ j => simpa using ih j

theorem rget_zeroRow (n j : Nat) : rget (zeroRow n) j = 0 := by
  unfold rget zeroRow
  induction n generalizing j with
  | zero => simp
  | succ n ih => cases j with
    | zero => simp [List.replicate_succ]
    | succ j => simpa [List.replicate_succ] using ih j

theorem zeroRow_length (n : Nat) : (zeroRow n).length = n := by
  unfold zeroRow; simp

theorem rget_mem {r : Row} {j : Nat} (h : j < r.length) : rget r j ∈ r := by
  unfold rget
  rw [List.getD_eq_getElem?_getD, List.getElem?_eq_getElem h]
  exact List.getElem_mem h

theorem natGet_set_same {l : List Nat} {i : Nat} (x : Nat) (h : i < l.length) :
    natGet (l.set i x) i = x := by
  unfold natGet; simp [h]

theorem natGet_set_ne {l : List Nat} {i k : Nat} (x : Nat) (h : i ≠ k) :
    natGet (l.set i x) k = natGet l k := by
  unfold natGet; simp [h]

theorem rget_map_nat {l : List Nat} (v : Nat → Int) {j : Nat} (h : j < l.length) :
    rget (l.map v) j = v (natGet l j) := by
  unfold rget natGet; simp [h]

/-! ### matrices -/

theorem mrow_of_le {m : Mat} {i : Nat} (h : m.length ≤ i) : mrow m i = [] := by
  unfold mrow; simp [h]

theorem mrow_mem {m : Mat} {i : Nat} (h : i < m.length) : mrow m i ∈ m := by
  unfold mrow
  rw [List.getD_eq_getElem?_getD, List.getElem?_eq_getElem h]
  exact List.getElem_mem h

theorem mem_iff_mrow {m : Mat} {r : Row} : r ∈ m ↔ ∃ i, i < m.length ∧ mrow m i = r := by
  constructor
  · intro h
    obtain ⟨i, hi, rfl⟩ := List.mem_iff_getElem.mp h
    refine ⟨i, hi, ?_⟩
    unfold mrow
    rw [List.getD_eq_getElem?_getD, List.getElem?_eq_getElem hi]; rfl
  · rintro ⟨i, hi, rfl⟩; exact mrow_mem hi

theorem mrow_set_same {m : Mat} {i : Nat} (r : Row) (h : i < m.length) :
    mrow (m.set i r) i = r := by
  unfold mrow; simp [h]

theorem mrow_set_ne {m : Mat} {i k : Nat} (r : Row) (h : i ≠ k) :
    mrow (m.set i r) k = mrow m k := by
  unfold mrow; simp [h]

theorem mrow_map (m : Mat) (f : Row → Row) (hf : f [] = []) (i : Nat) :
    mrow (m.map f) i = f (mrow m i) := by
  unfold mrow
  induction m generalizing i with
  | nil => simp [hf]
  | cons a as ih => cases i with
    | zero => simp
    | succ i => simpa using ih i

theorem msetRow_length (m : Mat) (i : Nat) (r : Row) : (msetRow m i r).length = m.length := by
  unfold msetRow; simp

theorem mset_length (m : Mat) (i j : Nat) (v : Int) : (mset m i j v).length = m.length := by
  unfold mset; simp

theorem mrow_msetRow_same {m : Mat} {i : Nat} (r : Row) (h : i < m.length) :
    mrow (msetRow m i r) i = r := mrow_set_same r h

theorem mrow_msetRow_ne {m : Mat} {i k : Nat} (r : Row) (h : i ≠ k) :
    mrow (msetRow m i r) k = mrow m k := mrow_set_ne r h

theorem mrow_mset_same {m : Mat} {i : Nat} (j : Nat) (v : Int) (h : i < m.length) :
    mrow (mset m i j v) i = rset (mrow m i) j v := mrow_set_same _ h

theorem mrow_mset_ne {m : Mat} {i k : Nat} (j : Nat) (v : Int) (h : i ≠ k) :
    mrow (mset m i j v) k = mrow m k := mrow_set_ne _ h

theorem mget_mset_same {m : Mat} {i j : Nat} (v : Int) (hi : i < m.length)
    (hj : j < (mrow m i).length) : mget (mset m i j v) i j = v := by
  unfold mget; rw [mrow_mset_same j v hi, rget_rset_same v hj]

theorem mget_mset_ne_row {m : Mat} {i j k l : Nat} (v : Int) (h : i ≠ k) :
    mget (mset m i j v) k l = mget m k l := by
  unfold mget; rw [mrow_mset_ne j v h]

theorem mget_mset_ne_col {m : Mat} {i j k l : Nat} (v : Int) (h : j ≠ l) :
    mget (mset m i j v) k l = mget m k l := by
  unfold mget
  by_cases hik : i = k
  · subst hik
    by_cases hi : i < m.length
    · rw [mrow_mset_same j v hi, rget_rset_ne v h]
    · have : mset m i j v = m := by unfold mset; simp [List.set_eq_of_length_le (Nat.le_of_not_lt hi)]
      rw [this]
  · rw [mrow_mset_ne j v hik]

theorem mget_mset_ne {m : Mat} {i j k l : Nat} (v : Int) (h : i ≠ k ∨ j ≠ l) :
    mget (mset m i j v) k l = mget m k l := by
  rcases h with h | h
  · exact mget_mset_ne_row v h
  · exact mget_mset_ne_col v h

/-- every row of the matrix has length `n` -/
def RowsLen (m : Mat) (n : Nat) : Prop := ∀ r ∈ m, r.length = n

theorem RowsLen.mrow {m : Mat} {n i : Nat} (h : RowsLen m n) (hi : i < m.length) :
    (mrow m i).length = n := h _ (mrow_mem hi)

theorem RowsLen.set {m : Mat} {n : Nat} (h : RowsLen m n) (i : Nat) {r : Row} (hr : r.length = n) :
    RowsLen (m.set i r) n := by
  intro x hx
  rcases List.mem_or_eq_of_mem_set hx with hx | hx
  · exact h x hx
  · rw [hx, hr]

theorem RowsLen.mset {m : Mat} {n : Nat} (h : RowsLen m n) (i j : Nat) (v : Int) :
    RowsLen (mset m i j v) n := by
  by_cases hi : i < m.length
  · unfold PPLV.PIPCore.mset
    exact h.set i (by rw [rset_length]; exact h.mrow hi)
  · have : PPLV.PIPCore.mset m i j v = m := by
      unfold PPLV.PIPCore.mset; simp [List.set_eq_of_length_le (Nat.le_of_not_lt hi)]
    rw [this]; exact h

theorem RowsLen.msetRow {m : Mat} {n : Nat} (h : RowsLen m n) (i : Nat) {r : Row}
    (hr : r.length = n) : RowsLen (msetRow m i r) n := h.set i hr

theorem RowsLen.map {m : Mat} {n : Nat} (h : RowsLen m n) (f : Int → Int) :
    RowsLen (m.map (·.map f)) n := by
  intro x hx
  obtain ⟨r, hr, rfl⟩ := List.mem_map.mp hx
  rw [List.length_map]; exact h r hr

theorem mget_map_mul (m : Mat) (c : Int) (i j : Nat) :
    mget (m.map (·.map (· * c))) i j = mget m i j * c := by
  unfold mget
  rw [mrow_map m (·.map (· * c)) (by simp), rget_map_mul]

theorem mget_map_div (m : Mat) (c : Int) (i j : Nat) :
    mget (m.map (·.map (· / c))) i j = mget m i j / c := by
  unfold mget
  rw [mrow_map m (·.map (· / c)) (by simp), rget_map_div]

/-! ### `Tableau.scale` -/

@[simp] theorem scale_ns (T : Tableau) (r : Int) : (T.scale r).ns = T.ns := rfl
@[simp] theorem scale_nt (T : Tableau) (r : Int) : (T.scale r).nt = T.nt := rfl
@[simp] theorem scale_den (T : Tableau) (r : Int) : (T.scale r).den = T.den * r := rfl
@[simp] theorem scale_s_length (T : Tableau) (r : Int) : (T.scale r).s.length = T.s.length := by
  unfold Tableau.scale; simp
@[simp] theorem scale_t_length (T : Tableau) (r : Int) : (T.scale r).t.length = T.t.length := by
  unfold Tableau.scale; simp

theorem mget_scale_s (T : Tableau) (r : Int) (i j : Nat) :
    mget (T.scale r).s i j = mget T.s i j * r := mget_map_mul T.s r i j

theorem mget_scale_t (T : Tableau) (r : Int) (i j : Nat) :
    mget (T.scale r).t i j = mget T.t i j * r := mget_map_mul T.t r i j

theorem scale_one (T : Tableau) : T.scale 1 = T := by
  unfold Tableau.scale
  have h : ∀ m : Mat, m.map (·.map (· * (1 : Int))) = m := by
    intro m
    have : (fun r : Row => r.map (· * (1 : Int))) = id := by
      funext r; simp
    rw [this]; simp
  cases T; simp

/-! ### `sumTo` and `dot` -/

/-- `Σ_{j < n} g j` -/
def sumTo : Nat → (Nat → Int) → Int
  | 0, _ => 0
  | n + 1, g => g 0 + sumTo n (fun j => g (j + 1))

theorem sumTo_congr {n : Nat} {g h : Nat → Int} (e : ∀ j, j < n → g j = h j) :
    sumTo n g = sumTo n h := by
  induction n generalizing g h with
  | zero => rfl
  | succ n ih =>
    unfold sumTo
    rw [e 0 (Nat.succ_pos n), ih (fun j hj => e (j + 1) (Nat.succ_lt_succ hj))]

theorem sumTo_add (n : Nat) (g h : Nat → Int) :
    sumTo n (fun j => g j + h j) = sumTo n g + sumTo n h := by
  induction n generalizing g h with
  | zero => rfl
  | succ n ih =>
    unfold sumTo
    rw [ih (fun j => g (j + 1)) (fun j => h (j + 1))]; ring

theorem sumTo_mul_left (n : Nat) (c : Int) (g : Nat → Int) :
    sumTo n (fun j => c * g j) = c * sumTo n g := by
  induction n generalizing g with
  | zero => simp [sumTo]
  | succ n ih =>
    unfold sumTo
    rw [ih (fun j => g (j + 1))]; ring

theorem sumTo_lin (n : Nat) (c d : Int) (g h : Nat → Int) :
    sumTo n (fun j => c * g j + d * h j) = c * sumTo n g + d * sumTo n h := by
  rw [sumTo_add n (fun j => c * g j) (fun j => d * h j), sumTo_mul_left, sumTo_mul_left]

/-- taking the `p`-th summand out -/
theorem sumTo_split {n p : Nat} (g : Nat → Int) (hp : p < n) :
    sumTo n g = sumTo n (fun j => if j = p then 0 else g j) + g p := by
  induction n generalizing g p with
  | zero => omega
  | succ n ih =>
    unfold sumTo
    cases p with
    | zero =>
      have : sumTo n (fun j => if j + 1 = 0 then 0 else g (j + 1)) = sumTo n (fun j => g (j + 1)) :=
        sumTo_congr (fun j _ => by simp)
      rw [this]; simp; ring
    | succ p =>
      have hp' : p < n := Nat.lt_of_succ_lt_succ hp
      rw [ih (fun j => g (j + 1)) hp']
      have : sumTo n (fun j => if j + 1 = p + 1 then 0 else g (j + 1))
          = sumTo n (fun j => if j = p then 0 else g (j + 1)) :=
        sumTo_congr (fun j _ => by simp)
      rw [this]; simp; ring

theorem dot_eq_sumTo {n : Nat} {r l : List Int} (hr : r.length = n) (hl : l.length = n) :
    dot r l = sumTo n (fun j => rget r j * rget l j) := by
  induction n generalizing r l with
  | zero =>
    cases r with
    | nil => simp [dot, sumTo]
    | cons a as => simp at hr
  | succ n ih =>
    cases r with
    | nil => simp at hr
    | cons a as =>
      cases l with
      | nil => simp at hl
      | cons x xs =>
        unfold dot sumTo
        rw [ih (by simpa using hr) (by simpa using hl)]
        simp only [rget_cons_zero, rget_cons_succ]

theorem dot_map_mul (a b : List Int) (c : Int) : dot (a.map (· * c)) b = dot a b * c := by
  induction a generalizing b with
  | nil => simp [dot]
  | cons x xs ih =>
    cases b with
    | nil => simp [dot]
    | cons y ys => simp only [List.map_cons, dot]; rw [ih ys]; ring

theorem dot_map_div (a b : List Int) (g : Int) (h : ∀ x ∈ a, g ∣ x) :
    dot (a.map (· / g)) b * g = dot a b := by
  induction a generalizing b with
  | nil => simp [dot]
  | cons x xs ih =>
    cases b with
    | nil => simp [dot]
    | cons y ys =>
      simp only [List.map_cons, dot]
      have hx : x / g * g = x := Int.ediv_mul_cancel (h x (by simp))
      have := ih ys (fun z hz => h z (by simp [hz]))
      calc (x / g * y + dot (xs.map (· / g)) ys) * g
          = (x / g * g) * y + dot (xs.map (· / g)) ys * g := by ring
        _ = x * y + dot xs ys := by rw [hx, this]

end PPLV.PIPCore.Piv
