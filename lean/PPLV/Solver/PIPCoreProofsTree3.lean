import PPLV.Solver.PIPCoreProofsTree
import PPLV.Solver.PIPCoreTree
/-!
# C07 core — tree family, part 3: the bridge from the public tree semantics to `evalC`

`PPLV.PIP.Tree.eval` (the spanning of the class documentation, with scope and integrality checks) on
`resToTree r` at the parameters `θ`, and `evalRes r` at the column vector `1 :: θ`:
whenever the public semantics answers a point, the solver-side evaluation answers the same point.

Node level: `evalArts_extend`, `evalCons_consHold`, `evalVals_point`; then the induction on the tree.
-/
namespace PPLV.PIPCore
open PPLV.PIP (Tree QAff PCon Aff Rel Result dotI evalArts evalCons evalVals)

namespace TreeP

theorem dotI_eq_dot : ∀ (a x : List Int), dotI a x = dot a x
  | [], x => by rw [dot_nil_left]; cases x <;> rfl
  | _ :: _, [] => rfl
  | _ :: as, _ :: xs => by
    show _ * _ + dotI as xs = _ * _ + dot as xs
    rw [dotI_eq_dot as xs]

/-- a row over the parameter columns (column 0 the constant term) read as an affine form -/
theorem rowAff_value (r : Row) (env : List Int) :
    dotI (rowAff r).cs env + (rowAff r).k = dot r (1 :: env) := by
  cases r with
  | nil =>
    show dotI [] env + 0 = dot [] (1 :: env)
    rw [dotI_eq_dot, dot_nil_left, dot_nil_left]; rfl
  | cons a as =>
    show dotI as env + a = dot (a :: as) (1 :: env)
    rw [dot_cons, dotI_eq_dot]; omega

theorem rowAff_eval {r : Row} {env : List Int} {v : Int} (h : (rowAff r).eval env = some v) :
    v = dot r (1 :: env) := by
  unfold Aff.eval at h
  split at h
  · injection h with h
    rw [← h, rowAff_value]
  · cases h

/-- a row that is not longer than the column vector is in scope -/
theorem rowAff_eval_of_le {r : Row} {env : List Int} (h : r.length ≤ env.length + 1) :
    (rowAff r).eval env = some (dot r (1 :: env)) := by
  unfold Aff.eval
  have hs : (rowAff r).scoped env.length = true := by
    unfold Aff.scoped
    have : (rowAff r).cs.drop env.length = [] := by
      apply List.drop_eq_nil_of_le
      show (r.drop 1).length ≤ env.length
      rw [List.length_drop]; omega
    rw [this]; rfl
  rw [if_pos hs, rowAff_value]

/-- **node level**: the artificial parameters are appended exactly as `extendArts` does -/
theorem evalArts_extend : ∀ (arts : List ArtP) (env env' : List Int),
    evalArts (arts.map ArtP.toQAff) env = some env' → extendArts arts (1 :: env) = 1 :: env'
  | [], env, env', h => by
    simp only [List.map_nil, evalArts, Option.some.injEq] at h
    rw [← h]; rfl
  | a :: as, env, env', h => by
    simp only [List.map_cons, evalArts] at h
    cases hv : (ArtP.toQAff a).num.eval env with
    | none => rw [hv] at h; cases h
    | some v =>
      rw [hv] at h
      have hval : v = dot a.num (1 :: env) := rowAff_eval hv
      have ih := evalArts_extend as _ _ h
      show extendArts as ((1 :: env) ++ [Int.fdiv (dot a.num (1 :: env)) a.den]) = 1 :: env'
      rw [← hval]
      exact ih

/-- **node level**: the constraints `row·(1, params) ≥ 0` -/
theorem evalCons_consHold : ∀ (cons : List Row) (env : List Int) (b : Bool),
    evalCons (cons.map consToPCon) env = some b → consHold cons (1 :: env) = b
  | [], env, b, h => by
    simp only [List.map_nil, evalCons, Option.some.injEq] at h
    rw [← h]; rfl
  | r :: rs, env, b, h => by
    simp only [List.map_cons, evalCons] at h
    cases hv : (consToPCon r).e.eval env with
    | none => rw [hv] at h; cases h
    | some v =>
      rw [hv] at h
      have hval : v = dot r (1 :: env) := rowAff_eval hv
      cases hb : evalCons (rs.map consToPCon) env with
      | none => rw [hb] at h; cases h
      | some b' =>
        rw [hb] at h
        have ih := evalCons_consHold rs env b' hb
        simp only [Option.some.injEq] at h
        rw [consHold_cons, ih, ← h, ← hval]
        rfl

/-- what a point answer of `evalVals` says about the first value -/
theorem evalVals_cons_point {q : QAff} {qs : List QAff} {env x : List Int}
    (h : evalVals (q :: qs) env = .point x) :
    ∃ v p, q.num.eval env = some v ∧ v % q.den = 0 ∧ evalVals qs env = .point p
      ∧ x = v / q.den :: p := by
  simp only [evalVals] at h
  cases hv : q.num.eval env with
  | none => rw [hv] at h; cases h
  | some v =>
    rw [hv] at h
    simp only at h
    by_cases hd : v % q.den = 0
    · have hb : (v % q.den != 0) = false := by rw [hd]; rfl
      rw [hb] at h
      simp only [Bool.false_eq_true, if_false] at h
      cases hr : evalVals qs env with
      | point p =>
        rw [hr] at h
        simp only [Result.point.injEq] at h
        exact ⟨v, p, rfl, hd, rfl, h.symm⟩
      | bottom => rw [hr] at h; cases h
      | scopeError => rw [hr] at h; cases h
      | nonIntegral => rw [hr] at h; cases h
    · have hb : (v % q.den != 0) = true := by simpa using hd
      rw [hb] at h
      simp only [if_true] at h
      cases hr : evalVals qs env <;> rw [hr] at h <;> cases h

theorem evalVals_point_aux (nd : SolNode) (env : List Int) : ∀ (l : List Nat) (x : List Int),
    evalVals (l.map fun k =>
        if boolGet nd.basis k then (⟨⟨[], 0⟩, 1⟩ : QAff)
        else ⟨rowAff (mrow nd.tab.t (natGet nd.mapping k)), nd.tab.den⟩) env = .point x →
    (l.map fun k =>
        if boolGet nd.basis k then 0
        else dot (mrow nd.tab.t (natGet nd.mapping k)) (1 :: env) / nd.tab.den) = x
  | [], x, h => by
    simp only [List.map_nil, evalVals, Result.point.injEq] at h
    rw [← h]; rfl
  | k :: ks, x, h => by
    rw [List.map_cons] at h
    obtain ⟨v, p, hv, _, hp, hx⟩ := evalVals_cons_point h
    have ih := evalVals_point_aux nd env ks p hp
    rw [List.map_cons, ih, hx]
    congr 1
    cases hb : boolGet nd.basis k with
    | true =>
      rw [hb] at hv
      simp only [if_true] at hv ⊢
      have : v = 0 := by
        unfold Aff.eval at hv
        split at hv
        · injection hv with hv; rw [← hv]; cases env <;> rfl
        · cases hv
      rw [this]; rfl
    | false =>
      rw [hb] at hv
      simp only [Bool.false_eq_true, if_false] at hv ⊢
      rw [rowAff_eval hv]

/-- **node level**: the parametric values, when exact, are the basic solution -/
theorem evalVals_point (nd : SolNode) (env x : List Int) (h : evalVals nd.vals env = .point x) :
    nd.point (1 :: env) = x :=
  evalVals_point_aux nd env (List.range nd.tab.ns) x h

/-- the induction on the tree -/
theorem toTree_eval_point : ∀ (c : CTree) (θ x : List Int),
    c.toTree.eval θ = .point x → c.evalC (1 :: θ) = some x
  | .sol nd, θ, x, h => by
    simp only [CTree.toTree, Tree.eval] at h
    cases hA : evalArts (nd.arts.map ArtP.toQAff) θ with
    | none => rw [hA] at h; cases h
    | some env' =>
      rw [hA] at h
      simp only at h
      cases hC : evalCons (nd.cons.map consToPCon) env' with
      | none => rw [hC] at h; cases h
      | some b =>
        rw [hC] at h
        simp only [CTree.evalC]
        rw [evalArts_extend _ _ _ hA, evalCons_consHold _ _ _ hC]
        cases b with
        | false => cases h
        | true =>
          simp only at h
          rw [if_pos rfl, evalVals_point nd env' x h]
  | .dec arts cons t none, θ, x, h => by
    simp only [CTree.toTree, Tree.eval] at h
    cases hA : evalArts (arts.map ArtP.toQAff) θ with
    | none => rw [hA] at h; cases h
    | some env' =>
      rw [hA] at h
      simp only at h
      cases hC : evalCons (cons.map consToPCon) env' with
      | none => rw [hC] at h; cases h
      | some b =>
        rw [hC] at h
        simp only [CTree.evalC]
        rw [evalArts_extend _ _ _ hA, evalCons_consHold _ _ _ hC]
        cases b with
        | false => simp only at h; cases h
        | true =>
          simp only at h
          rw [if_pos rfl]
          exact toTree_eval_point t env' x h
  | .dec arts cons t (some f), θ, x, h => by
    simp only [CTree.toTree, Tree.eval] at h
    cases hA : evalArts (arts.map ArtP.toQAff) θ with
    | none => rw [hA] at h; cases h
    | some env' =>
      rw [hA] at h
      simp only at h
      cases hC : evalCons (cons.map consToPCon) env' with
      | none => rw [hC] at h; cases h
      | some b =>
        rw [hC] at h
        simp only [CTree.evalC]
        rw [evalArts_extend _ _ _ hA, evalCons_consHold _ _ _ hC]
        cases b with
        | false =>
          simp only at h
          rw [if_neg (by decide)]
          exact toTree_eval_point f env' x h
        | true =>
          simp only at h
          rw [if_pos rfl]
          exact toTree_eval_point t env' x h

end TreeP

open TreeP

/-- **(T3)** whenever the public semantics of the tree shown to the user answers a point at `θ`, the
    solver-side evaluation at the column vector `1 :: θ` answers the same point -/
theorem resToTree_eval_point (r : Option CTree) (θ x : List Int)
    (h : (resToTree r).eval θ = .point x) : evalRes r (1 :: θ) = some x := by
  cases r with
  | none => simp only [resToTree, Tree.eval] at h; cases h
  | some c => exact toTree_eval_point c θ x h

/-! ### non-vacuity: one tree, both semantics

parameter `p`; root: artificial parameter `a = ⌊p / 2⌋`, test `p - 3 ≥ 0`;
true child: `x = (p + a) / 1`; false child: saved constraint `p - 1 ≥ 0`, `x = (2 p) / 2`, `y` a column
variable -/

def TreeP.exNodeT : SolNode :=
  { tab := ⟨[[0]], [[0, 1, 1]], 1, 1, 3⟩, basis := [false], mapping := [0], varRow := [0],
    varColumn := [1], sign := [.positive], big := none, arts := [], cons := [] }

def TreeP.exNodeF : SolNode :=
  { tab := ⟨[[0, 0]], [[0, 2, 0]], 2, 2, 3⟩, basis := [false, true], mapping := [0, 1],
    varRow := [0], varColumn := [2, 1], sign := [.positive], big := none, arts := [],
    cons := [[-1, 1]] }

def TreeP.exTree : CTree := .dec [⟨[0, 1], 2⟩] [[-3, 1, 0]] (.sol exNodeT) (some (.sol exNodeF))

example : exTree.toTree.eval [5] = .point [7] ∧ exTree.evalC [1, 5] = some [7] := by decide
example : exTree.toTree.eval [2] = .point [2, 0] ∧ exTree.evalC [1, 2] = some [2, 0] := by decide
example : exTree.toTree.eval [0] = .bottom ∧ exTree.evalC [1, 0] = none := by decide

end PPLV.PIPCore
