import PPLV.Solver.PIPCoreProofsNode
import Mathlib.Tactic.Linarith
import Mathlib.Tactic.Ring
/-!
# C07 core — node family, part 2: `SignAt` bookkeeping (root, `normalize`, sign analysis), the tautology
step (PIP_Tree.cc:3111-3117) and the split row, and the "no positive pivot" exit
-/
namespace PPLV.PIPCore
namespace Node

theorem mrow_of_le (m : Mat) (i : Nat) (h : m.length ≤ i) : mrow m i = [] := by
  unfold mrow; rw [List.getD_eq_getElem?_getD, List.getElem?_eq_none h]; rfl

theorem t_row_length {nd : SolNode} (hwf : WF nd) {k : Nat} (hk : k < nd.tab.t.length) :
    (mrow nd.tab.t k).length = nd.tab.nt := Lex.mrow_length _ _ _ hwf.t_cols hk

theorem nt_pos_of_paramVec {n : Nat} {q : List Int} (hq : ParamVec n q) : 0 < n := by
  obtain ⟨ps, rfl, _⟩ := hq.cons_form
  have := hq.1
  simp at this; omega

end Node

open Node

/-! ### (N3) `SignAt` at the root, through `normalize`, through the sign analysis -/

/-- **root**: signs that are `UNKNOWN` or the verdict of `row_sign` hold at every parameter vector -/
theorem signAt_root {nd : SolNode} {q : List Int}
    (hs : ∀ k, signGet nd.sign k = .unknown ∨ signGet nd.sign k = rowSign (mrow nd.tab.t k) none)
    (hwf : WF nd) (hq : ParamVec nd.tab.nt q) : SignAt nd q := by
  intro k
  rcases hs k with h | h
  · rw [h]; exact trivial
  · rw [h]
    by_cases hk : k < nd.tab.t.length
    · exact (rowSign_sound (by rw [t_row_length hwf hk]; exact hq)).weak hwf.den_pos
    · rw [mrow_of_le _ _ (by omega)]
      have e : rowSign [] none = .zero := by decide
      rw [e, dot_nil_left]
      exact ⟨by have := hwf.den_pos; omega, hwf.den_pos⟩

/-- the gcd `Tableau::normalize` divides by also divides every entry of `t` -/
theorem Node.normGcd_dvd_t (T : Tableau) (k : Nat) :
    ∀ a ∈ mrow T.t k, T.t.foldl rowGcd (T.s.foldl rowGcd (gcdI T.den 0)) ∣ a := by
  intro a ha
  rcases Lex.mrow_nil_or_mem T.t k with h | h
  · rw [h] at ha; cases ha
  · exact Lex.matGcd_dvd_mem _ _ _ _ h ha

/-- **`Tableau::normalize` keeps the meaning of the cached signs** (both directions) -/
theorem signAt_normalize {nd : SolNode} {q : List Int} (hwf : WF nd) :
    SignAt { nd with tab := nd.tab.normalize } q ↔ SignAt nd q := by
  rcases Lex.normalize_cases nd with h | h
  · rw [h]
  · rw [h]
    obtain ⟨hg0, hgd, _⟩ := Lex.normGcd_props nd.tab
    generalize hgdef : nd.tab.t.foldl rowGcd (nd.tab.s.foldl rowGcd (gcdI nd.tab.den 0)) = g at hg0 hgd
    have hgpos : 0 < g := by
      rcases Int.lt_or_eq_of_le hg0 with h1 | h1
      · exact h1
      · exfalso
        rw [← h1] at hgd
        have := Int.zero_dvd.1 hgd
        have := hwf.den_pos
        omega
    have hden : g * (nd.tab.den / g) = nd.tab.den := Int.mul_ediv_cancel' hgd
    have hrow : ∀ k, dot (mrow nd.tab.t k) q = g * dot (mrow (Lex.divNode nd g).tab.t k) q := by
      intro k
      have : mrow (Lex.divNode nd g).tab.t k = (mrow nd.tab.t k).map (· / g) := by
        unfold Lex.divNode; dsimp only; exact Lex.mrow_map _ rfl _ _
      rw [this]
      exact dot_map_div g (by omega) _ _ (by rw [← hgdef]; exact Node.normGcd_dvd_t nd.tab k)
    have hkey : ∀ k, SignWeak (Lex.divNode nd g).tab.den (signGet (Lex.divNode nd g).sign k)
          (dot (mrow (Lex.divNode nd g).tab.t k) q)
        ↔ SignWeak nd.tab.den (signGet nd.sign k) (dot (mrow nd.tab.t k) q) := by
      intro k
      have := signWeak_scale (den := nd.tab.den / g) (f := g) hgpos (s := signGet nd.sign k)
        (v := dot (mrow (Lex.divNode nd g).tab.t k) q)
      rw [hden, ← hrow k] at this
      exact this.symm
    exact ⟨fun hs k => (hkey k).1 (hs k), fun hs k => (hkey k).2 (hs k)⟩

/-- **the sign analysis keeps `SignAt`** at every parameter vector of the context (repackaging of
    `signAnalysis_weak_sound`) -/
theorem signAt_analysis {cc : Mat → Option Bool} (hcc : CCContract cc) {nd : SolNode} (hwf : WF nd)
    (hbig : nd.big = none) {ctx : Mat} (hctx : ∀ r ∈ ctx, r.length = nd.tab.nt)
    {sg : List RowSign} {fs : Firsts} (h : signAnalysis cc nd ctx = some (sg, fs))
    {q : List Int} (hq : ParamVec nd.tab.nt q) (hsat : CtxSat ctx q) (hs : SignAt nd q) :
    SignAt { nd with sign := sg } q :=
  signAnalysis_weak_sound hcc hwf.den_pos hbig (nt_pos_of_paramVec hq) hctx
    (fun _ hk => t_row_length hwf hk) h hq hsat hs

/-! ### (N4) the tautology step and the split row -/

/-- a sign that is still `MIXED` after the whole sign analysis is the verdict of `row_sign` on the row
    (no oracle contract needed: the refinements never CREATE a mixed sign) -/
theorem signAnalysis_mixed_rowSign {cc : Mat → Option Bool} {nd : SolNode} {ctx : Mat}
    (hlen : nd.sign.length ≤ nd.tab.t.length) {sg : List RowSign} {fs : Firsts}
    (h : signAnalysis cc nd ctx = some (sg, fs)) {i : Nat} (hm : signGet sg i = .mixed) :
    rowSign (mrow nd.tab.t i) nd.big = .mixed := by
  obtain ⟨st1, h1, h2⟩ := signAnalysis_stages h
  have m1 : signGet st1.1 i = .mixed := by
    rcases h2 with h2 | ⟨fm, h2⟩
    · rw [← h2]; exact hm
    · exact refineMixed2_pointwise (cc := cc) (T := nd.tab) (ctx := ctx)
        (fun k s => s = .mixed → signGet st1.1 k = .mixed) _ st1.1 st1.2 sg fs
        (fun _ _ _ _ _ hc => by cases hc) h2 (fun _ hk => hk) i hm
  have m0 : signGet (recomputeSigns nd).1 i = .mixed := by
    rcases h1 with rfl | ⟨fm, h1⟩
    · exact m1
    · exact refineMixed1_pointwise (cc := cc) (T := nd.tab) (ctx := ctx) fm
        (fun k s => s = .mixed → signGet (recomputeSigns nd).1 k = .mixed) _
        (recomputeSigns nd).1 (recomputeSigns nd).2 st1.1 st1.2
        (fun _ _ hmix _ _ _ _ _ => hmix rfl) h1 (fun _ hk => hk) i m1
  exact recomputeSigns_mixed hlen m0

/-- **(i) the row added to the context by the tautology step / the split** (`tautology`, `t_test` =
    `integral_simplification(t_i)`, then normalised by the `Constraint` constructor) means `t_i(q) ≥ 0`,
    and has the width of the parameter matrix -/
theorem mixed_row_equiv {cc : Mat → Option Bool} {nd : SolNode} {ctx : Mat} (hwf : WF nd)
    {sg : List RowSign} {fs : Firsts} (h : signAnalysis cc nd ctx = some (sg, fs))
    {i : Nat} (hm : signGet sg i = .mixed) (hi : i < nd.tab.t.length)
    {q : List Int} (hq : ParamVec nd.tab.nt q) :
    (0 ≤ dot (integralSimplification (mrow nd.tab.t i)) q ↔ 0 ≤ dot (mrow nd.tab.t i) q) ∧
    (0 ≤ dot (rowNormalizeAll (integralSimplification (mrow nd.tab.t i))) q ↔ 0 ≤ dot (mrow nd.tab.t i) q) ∧
    (integralSimplification (mrow nd.tab.t i)).length = nd.tab.nt := by
  have hmr := signAnalysis_mixed_rowSign (by rw [hwf.sign_len, hwf.rows_eq]) h hm
  have hlen := t_row_length hwf hi
  have e := integralSimplification_equiv_of_mixed hmr hq.2.1 (by rw [hlen, hq.1])
  refine ⟨e, ?_, by rw [integralSimplification_length, hlen]⟩
  rw [rowNormalizeAll_sign]; exact e

/-- **(ii) the tautology step keeps `SignAt`**: the row is added to the context, so at the parameter
    vectors of the NEW context `t_i(q) ≥ 0` and the sign `POSITIVE` written at line 3116 is true -/
theorem tautology_signAt {cc : Mat → Option Bool} {nd : SolNode} {ctx : Mat} (hwf : WF nd)
    {sg : List RowSign} {fs : Firsts} (h : signAnalysis cc nd ctx = some (sg, fs))
    {i : Nat} (hm : signGet sg i = .mixed) (hi : i < nd.tab.t.length)
    {q : List Int} (hq : ParamVec nd.tab.nt q) (hs : SignAt { nd with sign := sg } q)
    (hrow : 0 ≤ dot (integralSimplification (mrow nd.tab.t i)) q) :
    SignAt { nd with cons := addConstraint nd.cons (integralSimplification (mrow nd.tab.t i)),
                     sign := sg.set i .positive } q := by
  have hnn := (mixed_row_equiv hwf h hm hi hq).1.1 hrow
  have hden := hwf.den_pos
  exact pointwise_set (P := fun k s => SignWeak nd.tab.den s (dot (mrow nd.tab.t k) q)) hs
    (show -nd.tab.den < dot (mrow nd.tab.t i) q by omega)

/-- the false branch of the split: `complement_assign(t_test, 1)` holds exactly where `t_i(q) < 0` -/
theorem split_false_row_equiv {cc : Mat → Option Bool} {nd : SolNode} {ctx : Mat} (hwf : WF nd)
    {sg : List RowSign} {fs : Firsts} (h : signAnalysis cc nd ctx = some (sg, fs))
    {i : Nat} (hm : signGet sg i = .mixed) (hi : i < nd.tab.t.length)
    {q : List Int} (hq : ParamVec nd.tab.nt q) :
    (0 ≤ dot (complementAssign (integralSimplification (mrow nd.tab.t i)) 1) q
      ↔ dot (mrow nd.tab.t i) q < 0) ∧
    (complementAssign (integralSimplification (mrow nd.tab.t i)) 1).length = nd.tab.nt := by
  obtain ⟨e, _, hl⟩ := mixed_row_equiv hwf h hm hi hq
  have hn := nt_pos_of_paramVec hq
  have hp := split_partitions_context hq hl hn
  refine ⟨?_, by rw [complementAssign_length, hl]⟩
  constructor
  · intro hc
    by_contra hge
    exact hp.2 ⟨e.2 (by omega), hc⟩
  · intro hneg
    rcases hp.1 with h1 | h1
    · have := e.1 h1; omega
    · exact h1

/-! ### (N5) "No positive pivot: Solution = _|_" -/

theorem Node.hasPositive_false {r : Row} (h : hasPositive r = false) : ∀ a ∈ r, a ≤ 0 := by
  intro a ha
  unfold hasPositive at h
  rw [List.any_eq_false] at h
  have := h a ha
  simpa using this

/-- a row without positive variable coefficient whose parametric part is negative at `q` has no
    non-negative solution -/
theorem no_positive_pivot_infeasible {nd : SolNode} {i : Nat} {q : List Int} (hwf : WF nd)
    (hi : i < nd.tab.s.length) (hnp : hasPositive (mrow nd.tab.s i) = false)
    (_hq : q.length = nd.tab.nt) (hneg : dot (mrow nd.tab.t i) q < 0) : Infeasible nd q := by
  rintro ⟨v, hf⟩
  have hrow := hf.1 i hi
  unfold RowHolds at hrow
  have hcols : ∀ b ∈ nd.varColumn.map v, 0 ≤ b := by
    intro b hb
    obtain ⟨x, hx, rfl⟩ := List.mem_map.1 hb
    exact hf.2 x (Node.varColumn_mem hwf hx).1
  have h1 := dot_nonpos _ _ (Node.hasPositive_false hnp) hcols
  have h2 : 0 ≤ v (natGet nd.varRow i) := hf.2 _ (hwf.vr_ok i hi).1
  have h3 := Int.mul_nonneg (Int.le_of_lt hwf.den_pos) h2
  omega

/-! ### concrete instances -/

/-- a fresh root: one problem variable `x0` (column), one constraint row `x1 = x0 + 2 + p` -/
def Node.exRoot : SolNode :=
  { tab := { s := [[1]], t := [[2, 1]], den := 1, ns := 1, nt := 2 }
    basis := [true, false], mapping := [0, 0], varRow := [1], varColumn := [0]
    sign := [.unknown], big := none, arts := [], cons := [] }

theorem Node.exRoot_wf : WF Node.exRoot :=
  ⟨by decide, by decide, by decide, by decide, by decide, by decide, by decide, by decide, by decide,
   by decide, by decide, by decide⟩

theorem Node.exRoot_intinv (q : List Int) : IntInv Node.exRoot q :=
  root_intinv Node.exRoot_wf rfl (by
    intro k hk
    have : k = 0 := by have : k < 1 := hk; omega
    subst this; exact ⟨rfl, rfl⟩)

/-- the same node after its sign analysis (`row_sign` says `POSITIVE`) -/
def Node.exFinal : SolNode := { Node.exRoot with sign := [.positive] }

theorem Node.exFinal_wf : WF Node.exFinal :=
  ⟨by decide, by decide, by decide, by decide, by decide, by decide, by decide, by decide, by decide,
   by decide, by decide, by decide⟩

theorem Node.exFinal_signAt : SignAt Node.exFinal [1, 3] :=
  signAt_root (by
    intro k
    match k with
    | 0 => exact Or.inr (by decide)
    | k + 1 => exact Or.inl (signGet_ge_length (by simp [Node.exFinal, Node.exRoot]))) Node.exFinal_wf
    ⟨rfl, rfl, by decide⟩

/-- non-vacuity of `final_node_correct` (and of `root_intinv`, `signAt_root`): the minimum is `x0 = 0` -/
example : IsLexMin Node.exFinal [1, 3] [0] :=
  final_node_correct Node.exFinal_wf (by decide) ⟨rfl, rfl, by decide⟩ Node.exFinal_signAt
    (by intro k hk
        have : k = 0 := by have : k < 1 := hk; omega
        subst this; exact Or.inl (by decide))
    (by decide) (fun v => Node.exRoot_intinv [1, 3] v)

-- `signAt_normalize` on a node that is really divided (den 2, every entry even)
example : ({ Lex.exNodeA with tab := Lex.exNodeA.tab.normalize }).tab.den = 1 := by decide
example : SignAt { Lex.exNodeA with tab := Lex.exNodeA.tab.normalize } [1] ↔ SignAt Lex.exNodeA [1] :=
  signAt_normalize Lex.exNodeA_wf

-- `signAnalysis_mixed_rowSign` / `mixed_row_equiv`: the mixed row `1 - p` of the node `exNd9` (part 9 of the
-- sign family) stays mixed when the oracle is out of fuel... it answers `none`, so use a node where no
-- refinement runs: `exNd9` has a negative row, the refinements are skipped
example : (signAnalysis (fun _ => none) exNd9 []).map (fun r => signGet r.1 1) = some .mixed := by decide
example : rowSign (mrow exNd9.tab.t 1) exNd9.big = .mixed := by decide
example : integralSimplification (mrow exNd9.tab.t 1) = [1, -1] := by decide

/-- non-vacuity of `no_positive_pivot_infeasible`: `x1 = -x0 - 1 - p` -/
def Node.exInf : SolNode :=
  { tab := { s := [[-1]], t := [[-1, -1]], den := 1, ns := 1, nt := 2 }
    basis := [true, false], mapping := [0, 0], varRow := [1], varColumn := [0]
    sign := [.negative], big := none, arts := [], cons := [] }

theorem Node.exInf_wf : WF Node.exInf :=
  ⟨by decide, by decide, by decide, by decide, by decide, by decide, by decide, by decide, by decide,
   by decide, by decide, by decide⟩

example : Infeasible Node.exInf [1, 3] :=
  no_positive_pivot_infeasible (i := 0) Node.exInf_wf (by decide) (by decide) rfl (by decide)

end PPLV.PIPCore
