import PPLV.Solver.PIPCoreProofsPivot
/-!
# C07 stage 2 — pivot proofs, part 2: `scale` and `normalize` keep the meaning and the shape
-/
namespace PPLV.PIPCore.Piv

/-! ### replacing the tableau of a well-formed node by one of the same shape -/

theorem _root_.PPLV.PIPCore.WF.piv_with_tab {nd : SolNode} (h : WF nd) (T' : Tableau)
    (hs : T'.s.length = nd.tab.s.length) (ht : T'.t.length = nd.tab.t.length)
    (hns : T'.ns = nd.tab.ns) (_hnt : T'.nt = nd.tab.nt)
    (hsl : RowsLen T'.s T'.ns) (htl : RowsLen T'.t T'.nt) (hd : 0 < T'.den) :
    WF { nd with tab := T' } where
  rows_eq := by show T'.s.length = T'.t.length; rw [hs, ht]; exact h.rows_eq
  s_cols := hsl
  t_cols := htl
  den_pos := hd
  vr_len := by show nd.varRow.length = T'.s.length; rw [hs]; exact h.vr_len
  vc_len := by show nd.varColumn.length = T'.ns; rw [hns]; exact h.vc_len
  sign_len := by show nd.sign.length = T'.s.length; rw [hs]; exact h.sign_len
  map_len := by show nd.mapping.length = T'.s.length + T'.ns; rw [hs, hns]; exact h.map_len
  basis_len := h.basis_len
  vr_ok := by
    intro i hi
    exact h.vr_ok i (by rw [← hs]; exact hi)
  vc_ok := by
    intro j hj
    exact h.vc_ok j (by rw [← hns]; exact hj)
  map_ok := by
    intro k hk
    show (boolGet nd.basis k = true → natGet nd.mapping k < T'.ns ∧ _) ∧
      (boolGet nd.basis k = false → natGet nd.mapping k < T'.s.length ∧ _)
    rw [hs, hns]; exact h.map_ok k hk

theorem _root_.PPLV.PIPCore.WF.piv_sRows {nd : SolNode} (h : WF nd) : RowsLen nd.tab.s nd.tab.ns := h.s_cols
theorem _root_.PPLV.PIPCore.WF.piv_tRows {nd : SolNode} (h : WF nd) : RowsLen nd.tab.t nd.tab.nt := h.t_cols

/-! ### `scale` -/

theorem scale_rowsLen_s {T : Tableau} (r : Int) (h : RowsLen T.s T.ns) :
    RowsLen (T.scale r).s (T.scale r).ns := h.map (· * r)

theorem scale_rowsLen_t {T : Tableau} (r : Int) (h : RowsLen T.t T.nt) :
    RowsLen (T.scale r).t (T.scale r).nt := h.map (· * r)

theorem scale_wf {nd : SolNode} (h : WF nd) {r : Int} (hr : 0 < r) :
    WF { nd with tab := nd.tab.scale r } :=
  h.piv_with_tab _ (scale_s_length _ _) (scale_t_length _ _) rfl rfl
    (scale_rowsLen_s r h.piv_sRows) (scale_rowsLen_t r h.piv_tRows) (Int.mul_pos h.den_pos hr)

theorem scale_rowHolds (nd : SolNode) {r : Int} (hr : r ≠ 0) (v : Nat → Int) (q : List Int)
    (i : Nat) : RowHolds { nd with tab := nd.tab.scale r } v q i ↔ RowHolds nd v q i := by
  unfold RowHolds
  show (nd.tab.den * r) * v (natGet nd.varRow i)
      = dot (mrow (nd.tab.s.map (·.map (· * r))) i) (nd.varColumn.map v)
        + dot (mrow (nd.tab.t.map (·.map (· * r))) i) q ↔ _
  rw [mrow_map _ (·.map (· * r)) (by simp), mrow_map _ (·.map (· * r)) (by simp),
    dot_map_mul, dot_map_mul]
  constructor
  · intro e
    apply Int.eq_of_mul_eq_mul_right hr
    linarith
  · intro e
    have : nd.tab.den * r * v (natGet nd.varRow i) = (nd.tab.den * v (natGet nd.varRow i)) * r := by
      ring
    rw [this, e]; ring

/-- `Tableau::scale` by a non-zero ratio does not change the solutions -/
theorem scale_tabsat {nd : SolNode} (_h : WF nd) {r : Int} (hr : r ≠ 0) (v : Nat → Int)
    (q : List Int) : TabSat { nd with tab := nd.tab.scale r } v q ↔ TabSat nd v q := by
  unfold TabSat
  show (∀ i, i < (nd.tab.scale r).s.length → _) ↔ _
  rw [scale_s_length]
  exact forall_congr' fun i => imp_congr_right fun _ => scale_rowHolds nd hr v q i

/-! ### the gcd of `normalize` -/

theorem gcdI_dvd_left (a b : Int) : gcdI a b ∣ a := Int.gcd_dvd_left ..
theorem gcdI_dvd_right (a b : Int) : gcdI a b ∣ b := Int.gcd_dvd_right ..
theorem gcdI_nonneg (a b : Int) : 0 ≤ gcdI a b := Int.natCast_nonneg _

theorem rowGcd_dvd_init (r : Row) (g : Int) : rowGcd g r ∣ g := by
  unfold rowGcd
  induction r generalizing g with
  | nil => exact Int.dvd_refl g
  | cons x xs ih => exact Int.dvd_trans (ih (gcdI g x)) (gcdI_dvd_left g x)

theorem rowGcd_dvd_mem (r : Row) (g : Int) {x : Int} (hx : x ∈ r) : rowGcd g r ∣ x := by
  induction r generalizing g with
  | nil => cases hx
  | cons y ys ih =>
    rcases List.mem_cons.mp hx with rfl | hx
    · exact Int.dvd_trans (rowGcd_dvd_init ys (gcdI g x)) (gcdI_dvd_right g x)
    · exact ih (gcdI g y) hx

theorem rowGcd_nonneg (r : Row) {g : Int} (hg : 0 ≤ g) : 0 ≤ rowGcd g r := by
  unfold rowGcd
  induction r generalizing g with
  | nil => exact hg
  | cons x xs ih => exact ih (gcdI_nonneg g x)

theorem matGcd_dvd_init (m : Mat) (g : Int) : m.foldl rowGcd g ∣ g := by
  induction m generalizing g with
  | nil => exact Int.dvd_refl g
  | cons r rs ih => exact Int.dvd_trans (ih (rowGcd g r)) (rowGcd_dvd_init r g)

theorem matGcd_dvd_mem (m : Mat) (g : Int) {r : Row} (hr : r ∈ m) {x : Int} (hx : x ∈ r) :
    m.foldl rowGcd g ∣ x := by
  induction m generalizing g with
  | nil => cases hr
  | cons y ys ih =>
    rcases List.mem_cons.mp hr with rfl | hr
    · exact Int.dvd_trans (matGcd_dvd_init ys (rowGcd g r)) (rowGcd_dvd_mem r g hx)
    · exact ih (rowGcd g y) hr

theorem matGcd_nonneg (m : Mat) {g : Int} (hg : 0 ≤ g) : 0 ≤ m.foldl rowGcd g := by
  induction m generalizing g with
  | nil => exact hg
  | cons r rs ih => exact ih (rowGcd_nonneg r hg)

/-- all entries of the matrix are multiples of `g` -/
def DvdAll (g : Int) (m : Mat) : Prop := ∀ r ∈ m, ∀ x ∈ r, g ∣ x

theorem DvdAll.mrow {g : Int} {m : Mat} (h : DvdAll g m) (i : Nat) : ∀ x ∈ mrow m i, g ∣ x := by
  by_cases hi : i < m.length
  · exact h _ (mrow_mem hi)
  · rw [mrow_of_le (Nat.le_of_not_lt hi)]; intro x hx; cases hx

theorem DvdAll.mget {g : Int} {m : Mat} (h : DvdAll g m) (i j : Nat) : g ∣ mget m i j := by
  unfold PPLV.PIPCore.mget
  by_cases hj : j < (PPLV.PIPCore.mrow m i).length
  · exact h.mrow i _ (rget_mem hj)
  · rw [rget_of_le (Nat.le_of_not_lt hj)]; exact Int.dvd_zero g

/-- `normalize` either does nothing or divides everything exactly by a positive common divisor -/
theorem normalize_cases (T : Tableau) (hd : T.den ≠ 0) :
    T.normalize = T ∨ ∃ g : Int, 0 < g ∧ g ∣ T.den ∧ DvdAll g T.s ∧ DvdAll g T.t ∧
      T.normalize = { T with s := T.s.map (·.map (· / g)), t := T.t.map (·.map (· / g)),
                             den := T.den / g } := by
  unfold Tableau.normalize
  by_cases h1 : T.den = 1
  · left; simp [h1]
  · simp only [h1, if_false]
    generalize hg : T.t.foldl rowGcd (T.s.foldl rowGcd (gcdI T.den 0)) = g
    by_cases h2 : g = 1
    · left; simp [h2]
    · right
      simp only [h2, if_false]
      have d1 : g ∣ T.s.foldl rowGcd (gcdI T.den 0) := hg ▸ matGcd_dvd_init _ _
      have d2 : g ∣ gcdI T.den 0 := Int.dvd_trans d1 (matGcd_dvd_init _ _)
      have d3 : g ∣ T.den := Int.dvd_trans d2 (gcdI_dvd_left _ _)
      have n0 : 0 ≤ g := hg ▸ matGcd_nonneg _ (matGcd_nonneg _ (gcdI_nonneg _ _))
      have gne : g ≠ 0 := by
        rintro rfl
        exact hd (by obtain ⟨k, hk⟩ := d3; rw [hk, Int.zero_mul])
      refine ⟨g, lt_of_le_of_ne n0 (Ne.symm gne), d3, ?_, ?_, rfl⟩
      · intro r hr x hx
        exact Int.dvd_trans d1 (matGcd_dvd_mem _ _ hr hx)
      · intro r hr x hx
        exact hg ▸ matGcd_dvd_mem _ _ hr hx

theorem ediv_pos_iff_of_dvd {x g : Int} (hg : 0 < g) (hd : g ∣ x) : 0 < x / g ↔ 0 < x := by
  obtain ⟨k, rfl⟩ := hd
  rw [Int.mul_ediv_cancel_left _ (ne_of_gt hg)]
  constructor
  · intro hk; exact Int.mul_pos hg hk
  · intro h
    by_contra hk
    have : g * k ≤ 0 := Int.mul_nonpos_of_nonneg_of_nonpos (le_of_lt hg) (not_lt.mp hk)
    linarith

/-- the sign of an entry is not changed by `normalize` -/
theorem normalize_sign {nd : SolNode} (h : WF nd) (i j : Nat) :
    0 < mget nd.tab.normalize.s i j ↔ 0 < mget nd.tab.s i j := by
  rcases normalize_cases nd.tab (ne_of_gt h.den_pos) with e | ⟨g, hg, _, ds, _, e⟩
  · rw [e]
  · rw [e]
    show 0 < mget (nd.tab.s.map (·.map (· / g))) i j ↔ _
    rw [mget_map_div]
    exact ediv_pos_iff_of_dvd hg (ds.mget i j)

theorem normalize_shape (T : Tableau) :
    T.normalize.s.length = T.s.length ∧ T.normalize.t.length = T.t.length
      ∧ T.normalize.ns = T.ns ∧ T.normalize.nt = T.nt := by
  unfold Tableau.normalize
  split
  · exact ⟨rfl, rfl, rfl, rfl⟩
  · dsimp only
    split
    · exact ⟨rfl, rfl, rfl, rfl⟩
    · exact ⟨by simp, by simp, rfl, rfl⟩

theorem normalize_wf {nd : SolNode} (h : WF nd) : WF { nd with tab := nd.tab.normalize } := by
  rcases normalize_cases nd.tab (ne_of_gt h.den_pos) with e | ⟨g, hg, dd, _, _, e⟩
  · rw [e]; exact h
  · rw [e]
    refine h.piv_with_tab _ (by simp) (by simp) rfl rfl (h.piv_sRows.map (· / g)) (h.piv_tRows.map (· / g)) ?_
    exact (ediv_pos_iff_of_dvd hg dd).mpr h.den_pos

/-- `Tableau::normalize` does not change the solutions -/
theorem normalize_tabsat {nd : SolNode} (h : WF nd) (v : Nat → Int) (q : List Int) :
    TabSat { nd with tab := nd.tab.normalize } v q ↔ TabSat nd v q := by
  rcases normalize_cases nd.tab (ne_of_gt h.den_pos) with e | ⟨g, hg, dd, ds, dt, e⟩
  · rw [e]
  · rw [e]
    unfold TabSat
    show (∀ i, i < (nd.tab.s.map (·.map (· / g))).length → _) ↔ _
    rw [List.length_map]
    refine forall_congr' fun i => imp_congr_right fun _ => ?_
    unfold RowHolds
    show (nd.tab.den / g) * v (natGet nd.varRow i)
        = dot (mrow (nd.tab.s.map (·.map (· / g))) i) (nd.varColumn.map v)
          + dot (mrow (nd.tab.t.map (·.map (· / g))) i) q ↔ _
    rw [mrow_map _ (·.map (· / g)) (by simp), mrow_map _ (·.map (· / g)) (by simp)]
    have e1 := dot_map_div (mrow nd.tab.s i) (nd.varColumn.map v) g (ds.mrow i)
    have e2 := dot_map_div (mrow nd.tab.t i) q g (dt.mrow i)
    have e3 : nd.tab.den / g * g = nd.tab.den := Int.ediv_mul_cancel dd
    constructor
    · intro e
      rw [← e1, ← e2, ← e3]
      have : nd.tab.den / g * g * v (natGet nd.varRow i)
          = (nd.tab.den / g * v (natGet nd.varRow i)) * g := by ring
      rw [this, e]; ring
    · intro e
      apply Int.eq_of_mul_eq_mul_right (ne_of_gt hg)
      have : nd.tab.den / g * v (natGet nd.varRow i) * g
          = (nd.tab.den / g * g) * v (natGet nd.varRow i) := by ring
      rw [this, e3, e, ← e1, ← e2]; ring

/-! ### a row of the tableau as an explicit sum -/

theorem rowHolds_iff_sum {nd : SolNode} (h : WF nd) (v : Nat → Int) {q : List Int}
    (hq : q.length = nd.tab.nt) {i : Nat} (hi : i < nd.tab.s.length) :
    RowHolds nd v q i ↔
      nd.tab.den * v (natGet nd.varRow i)
        = sumTo nd.tab.ns (fun j => mget nd.tab.s i j * v (natGet nd.varColumn j))
          + sumTo nd.tab.nt (fun c => mget nd.tab.t i c * rget q c) := by
  unfold RowHolds
  have l1 : (mrow nd.tab.s i).length = nd.tab.ns := h.piv_sRows.mrow hi
  have l2 : (mrow nd.tab.t i).length = nd.tab.nt := h.piv_tRows.mrow (h.rows_eq ▸ hi)
  have l3 : (nd.varColumn.map v).length = nd.tab.ns := by rw [List.length_map]; exact h.vc_len
  rw [dot_eq_sumTo l1 l3, dot_eq_sumTo l2 hq]
  have : sumTo nd.tab.ns (fun j => rget (mrow nd.tab.s i) j * rget (nd.varColumn.map v) j)
      = sumTo nd.tab.ns (fun j => mget nd.tab.s i j * v (natGet nd.varColumn j)) :=
    sumTo_congr (fun j hj => by
      rw [rget_map_nat v (by rw [h.vc_len]; exact hj)]; rfl)
  rw [this]; rfl

end PPLV.PIPCore.Piv
