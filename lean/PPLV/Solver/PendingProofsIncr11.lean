import PPLV.Solver.PendingProofsIncr10
import PPLV.Solver.PendingProofsIncrParse
import PPLV.Solver.PendingProofsChain

/-!
# C06 stage 3 — the set-up of an incremental call in terms of a `GCtx` (`incr_ctx`)
-/
namespace PPLV.Solver.Pend
open PPLV.Lin PPLV.Solver PPLV.Solver.Tab

/-- the state before an incremental call of `process_pending_constraints` without new space dimensions: the first
    `first_pending` constraints are processed (`ReadyS`), the others are pending -/
structure IncrStart (s : LPState) : Prop where
  npos : 0 < s.external_space_dim
  dims : s.internal_space_dim = s.external_space_dim
  lens : ∀ c ∈ s.input_cs, c.coeffs.length ≤ s.external_space_dim
  ready : ReadyS (s.input_cs.take s.first_pending) s.external_space_dim s

theorem bsol_padRows (T : List Row) (base : List Nat) (nc : Nat) (h : base.length = T.length) :
    bsol (padRows T nc) base = bsol T base := by
  funext j
  unfold bsol
  split
  · rfl
  · cases hr : rowOf base j with
    | none => rfl
    | some i =>
      simp only
      obtain ⟨hi, _⟩ := rowOf_some hr
      rw [padRows_get _ _ _ _ (h ▸ hi), padRows_get _ _ _ _ (h ▸ hi)]

theorem GCtx.wcount0 (C : GCtx) (h : C.isSat.length = C.pend.length) : C.wcount 0 = C.isSat.count true := by
  unfold GCtx.wcount
  rw [List.drop_zero, ← h]
  exact count_true_range C.isSat

theorem ppcRecompute_incr (s : LPState) (hS : IncrStart s) : ppcRecompute s = (computeGenerator s, true) := by
  unfold ppcRecompute
  rw [if_pos (by rw [hS.dims]; exact hS.npos), hS.dims]
  simp

theorem ppcMapping_same (sm : LPState) (l : List Bool) (k : Nat) (h : sm.external_space_dim = sm.internal_space_dim) :
    ppcMapping sm l k = (sm.mapping, 0, 0) := by
  unfold ppcMapping
  rw [if_neg (by omega)]

/-- the "already satisfied" flags after their two resets, in an incremental call -/
def isSatF (s1 : LPState) (p : Parsed) : List Bool :=
  if (!(ppcMerge s1 p.isRemerge).2.isEmpty) = true then List.replicate (s1.input_cs.length - s1.first_pending) false
  else p.isSat

theorem ppcBuild_incr (s1 : LPState) (p : Parsed)
    (h : (ppcMerge s1 p.isRemerge).1.external_space_dim = (ppcMerge s1 p.isRemerge).1.internal_space_dim) :
    ppcBuild s1 true p =
      ppcFill (ppcMerge s1 p.isRemerge).1 (ppcMerge s1 p.isRemerge).2 p (isSatF s1 p)
        (ppcMerge s1 p.isRemerge).1.mapping 0 := by
  unfold ppcBuild isSatF
  simp only [Bool.not_true, Bool.false_eq_true, if_false]
  rw [ppcMapping_same _ _ _ h]

end PPLV.Solver.Pend
