import PPLV.Solver.PIPCoreProofsMain4
import PPLV.Solver.PIPCoreSolveAsWritten
/-!
# C07 stage 2 — end-to-end, part 5: induction over the fuel of `solveGoAsWritten`

`solveGoAsWritten_sound`: whenever the modelled `PIP_Solution_Node::solve` returns (`.done r`, any fuel) and the result,
evaluated at a parameter vector the call is responsible for, is a point, that point is the lexicographic
minimum of the node the call started from.
-/
namespace PPLV.PIPCore

theorem solveGoAsWritten_sound {cc : Mat → Option Bool} (hcc : CCContract cc) (ctl : Ctl) (F : StepFacts)
    (cfc : Bool) :
    ∀ (fuel : Nat) (entry : Bool) (nd : SolNode) (ctx : Mat) (r : Option CTree) (S : List Int → Prop) (n0 : Nat),
      solveGoAsWritten cc ctl cfc fuel entry nd ctx = .done r → ((∃ qpre, S qpre) → Inv' S n0 nd ctx) →
      ∀ qpre, S qpre → ∀ x, evalRes r qpre = some x → IsLexMin nd (extendArts nd.arts qpre) x := by
  intro fuel
  induction fuel with
  | zero =>
    intro entry nd ctx r S n0 h
    simp only [solveGoAsWritten] at h
    exact absurd h (by simp)
  | succ fuel ih =>
    intro entry nd ctx r S n0 h hinv' qpre hq x hx
    have hinv := hinv' ⟨qpre, hq⟩
    rw [solveGoAsWritten] at h
    by_cases hent : (entry && cfc) = true
    · -- the feasibility check of the context at entry
      rw [if_pos hent] at h
      cases hc : cc ctx with
      | none => rw [hc] at h; exact absurd h (by simp)
      | some b =>
        rw [hc] at h
        cases b with
        | false =>
          simp only at h
          injection h with h
          subst h
          exact absurd hx (by simp [evalRes])
        | true =>
          simp only at h
          exact ih false nd ctx r S n0 h hinv' qpre hq x hx
    · rw [if_neg hent] at h
      cases hsa : signAnalysis cc nd ctx with
      | none => rw [hsa] at h; exact absurd h (by simp)
      | some sf =>
        obtain ⟨sg, fs⟩ := sf
        rw [hsa] at h
        simp only at h
        have h1 : Inv' S n0 { nd with sign := sg } ctx := inv_sign hcc hinv hsa
        have hrows : ({ nd with sign := sg } : SolNode).tab.t.length = nd.tab.s.length := hinv.wf.rows_eq.symm
        cases hneg : fs.neg with
        | some fneg =>
          rw [hneg] at h
          simp only at h
          cases hcp : choosePivot ctl { nd with sign := sg } sg
              (rangeFrom fneg ({ nd with sign := sg } : SolNode).tab.t.length) none with
          | none => rw [hcp] at h; simp only at h; injection h with h; subst h; exact absurd hx (by simp [evalRes])
          | some o =>
            rw [hcp] at h
            cases o with
            | none => simp only at h; exact absurd h (by simp)
            | some pp =>
              obtain ⟨pi, pj⟩ := pp
              simp only at h
              obtain ⟨hpi, hf⟩ := choosePivot_spec ctl { nd with sign := sg } sg _ none pi pj
                (fun i hi => by rw [hrows] at hi; exact rangeFrom_lt _ _ i hi)
                (fun a b hab => absurd hab (by simp)) hcp
              obtain ⟨h2, htr⟩ := inv_pivot F h1 hpi hf
              have := ih false _ ctx r S n0 h (fun _ => h2) qpre hq x hx
              rw [pivot_arts] at this
              exact isLexMin_congr (nd := nd) rfl rfl rfl rfl (htr qpre hq x this)
        | none =>
          rw [hneg] at h
          simp only at h
          cases hmix : fs.mix with
          | some fmix =>
            rw [hmix] at h
            simp only at h
            cases hin : findINeg ({ nd with sign := sg } : SolNode).tab sg
                (rangeFrom fmix ({ nd with sign := sg } : SolNode).tab.t.length) none with
            | some ii =>
              obtain ⟨iNeg, sc⟩ := ii
              rw [hin] at h
              simp only at h
              have hm : signGet sg iNeg = .mixed :=
                findINeg_spec _ sg _ none iNeg sc (fun a b hab => absurd hab (by simp)) hin
              have h2 := inv_taut hinv hsa h1 hm
              have := ih false _ _ r S n0 h (fun _ => h2) qpre hq x hx
              exact isLexMin_congr (nd := nd) rfl rfl rfl rfl this
            | none =>
              rw [hin] at h
              simp only at h
              cases hbi : findBestI ({ nd with sign := sg } : SolNode).tab sg
                  (rangeFrom fmix ({ nd with sign := sg } : SolNode).tab.t.length) none with
              | none => rw [hbi] at h; simp only at h; exact absurd h (by simp)
              | some bb =>
                obtain ⟨bestI, sc⟩ := bb
                rw [hbi] at h
                simp only at h
                have hm : signGet sg bestI = .mixed :=
                  findBestI_spec _ sg _ none bestI sc (fun a b hab => absurd hab (by simp)) hbi
                have hbi' : bestI < nd.tab.t.length := by
                  have := signGet_mixed_lt hm
                  rw [signAnalysis_length hsa, hinv.wf.sign_len, hinv.wf.rows_eq] at this
                  exact this
                -- the two recursive calls
                generalize htT : integralSimplification (mrow nd.tab.t bestI) = tTest at h
                cases hst : solveGoAsWritten cc ctl cfc fuel true
                    { nd with sign := sg, arts := [], cons := [] } (ctx ++ [tTest]) with
                | fuel => rw [hst] at h; simp only at h; exact absurd h (by simp)
                | done tNode =>
                  rw [hst] at h
                  simp only at h
                  cases hsf : solveGoAsWritten cc ctl cfc fuel true
                      { nd with sign := sg, arts := [], cons := [] } (ctx ++ [complementAssign tTest 1]) with
                  | fuel => rw [hsf] at h; simp only at h; exact absurd h (by simp)
                  | done fNode =>
                    rw [hsf] at h
                    simp only at h
                    injection h with h
                    subst h
                    -- the vector of this node
                    have hpvq := hinv.pvq qpre hq
                    obtain ⟨e1, e2, e3⟩ := mixed_row_equiv hinv.wf hsa hm hbi' hpvq
                    obtain ⟨f1, f2⟩ := split_false_row_equiv hinv.wf hsa hm hbi' hpvq
                    rw [htT] at e1 e2 e3 f1 f2
                    have hqlen := hpvq.1
                    obtain ⟨hcs, hbr⟩ := F.assemble_some nd.arts nd.cons tTest (complementAssign tTest 1)
                      tNode fNode qpre (extendArts nd.arts qpre) x rfl
                      (by rw [hqlen]; exact hinv.cons_len) (by rw [hqlen, e3]) (by rw [hqlen, f2])
                      (by rw [f1, e1]; omega) hx
                    rcases hbr with ⟨hpos, hev⟩ | ⟨hpos, hev⟩
                    · have hc := inv_child (test := tTest) h1 e3
                      have := ih true _ _ tNode _ _ hst (fun _ => hc) (extendArts nd.arts qpre)
                        ⟨qpre, hq, rfl, hcs, hpos⟩ x hev
                      exact isLexMin_congr (nd := nd) rfl rfl rfl rfl this
                    · have hc := inv_child (test := complementAssign tTest 1) h1 f2
                      have := ih true _ _ fNode _ _ hsf (fun _ => hc) (extendArts nd.arts qpre)
                        ⟨qpre, hq, rfl, hcs, hpos⟩ x hev
                      exact isLexMin_congr (nd := nd) rfl rfl rfl rfl this
          | none =>
            rw [hmix] at h
            simp only at h
            by_cases hsi : solutionIntegral { nd with sign := sg, tab := nd.tab.normalize } = true
            · rw [if_pos hsi] at h
              injection h with h
              subst h
              exact final_step F hinv hsa h1 hneg hmix hsi hq hx
            · rw [if_neg hsi] at h
              -- the normalised node, then the cut(s)
              have hn : Inv' S n0 { nd with sign := sg, tab := nd.tab.normalize } ctx :=
                { wf := normalize_wf h1.wf
                  lex := normalize_lexpos _ h1.lex
                  big := h1.big
                  arts := h1.arts
                  nt_eq := by
                    rw [show ({ nd with sign := sg, tab := nd.tab.normalize } : SolNode).tab.nt = nd.tab.nt from
                      (normalize_shape nd.tab).2.2.2]; exact h1.nt_eq
                  n0_pos := h1.n0_pos
                  ctx_len := by
                    rw [show ({ nd with sign := sg, tab := nd.tab.normalize } : SolNode).tab.nt = nd.tab.nt from
                      (normalize_shape nd.tab).2.2.2]; exact h1.ctx_len
                  cons_len := by
                    rw [show ({ nd with sign := sg, tab := nd.tab.normalize } : SolNode).tab.nt = nd.tab.nt from
                      (normalize_shape nd.tab).2.2.2]; exact h1.cons_len
                  pv := h1.pv
                  pvq := by
                    rw [show ({ nd with sign := sg, tab := nd.tab.normalize } : SolNode).tab.nt = nd.tab.nt from
                      (normalize_shape nd.tab).2.2.2]; exact h1.pvq
                  rel := h1.rel
                  sgn := fun qpre hq hc => (signAt_normalize h1.wf).mpr (h1.sgn qpre hq hc)
                  int := fun qpre hq => F.normalize_intinv h1.wf (h1.int qpre hq) }
              obtain ⟨h2, htr⟩ := inv_cut ctl hn hq
              have := ih false _ _ r S n0 h (fun _ => h2) qpre hq x hx
              have hl := htr qpre hq x this
              -- back from the normalised node to `nd`
              have hns : ({ nd with sign := sg, tab := nd.tab.normalize } : SolNode).tab.ns = nd.tab.ns :=
                (normalize_shape nd.tab).2.2.1
              refine isLexMin_of_feasible_iff hns (fun v => ?_) hl
              have hts := normalize_tabsat h1.wf v (extendArts nd.arts qpre)
              unfold Feasible
              rw [hts]
              exact Iff.rfl

end PPLV.PIPCore
