import PPLV.Solver.PendingProofsIncrDefs

/-!
# C06 stage 3 — `ReadyS`: the encoding with negative components 0 where the variable is non-negative

* `enc_neg`: the encoding `enc` puts `max (−x_v) 0` in the second column of a split variable;
* `setup_coreS`: the completeness witness of the fresh set-up has `NegZero`;
* `chain_completeS`: it survives the first phase and `erase_artificials`; `readyS_after_secondPhase`.
-/
namespace PPLV.Solver.Pend
open PPLV.Lin PPLV.Solver PPLV.Solver.Tab

theorem enc_neg (M : List (Nat × Nat)) (nn : List Bool) (n j : Nat) (hM : MapOK M nn n j) (x : Val) :
    ∀ k, k ≤ n → ∀ v, v < k → (M.getD (v+1) (0, 0)).2 ≠ 0 →
      enc M x k (M.getD (v+1) (0, 0)).2 = max (-(x v)) 0 := by
  intro k
  induction k with
  | zero => intro _ v hv; omega
  | succ k ih =>
    intro hk v hv hsplit
    obtain ⟨c1, c2, -, -⟩ := hM.cols k (by omega)
    have hhi : ∀ w, (M.getD (w+1) (0, 0)).2 ≠ 0 → hiCol (M.getD (w+1) (0, 0)) = (M.getD (w+1) (0, 0)).2 := by
      intro w hw; unfold hiCol; rw [if_neg hw]
    by_cases hvk : v = k
    · subst hvk
      simp only [enc, hsplit, if_false, Val.update, if_true]
    · have hv' : v < k := by omega
      have hb := hM.ord v k hv' (by omega)
      rw [hhi v hsplit] at hb
      have := ih (by omega) v hv' hsplit
      rw [← this]
      by_cases hm : (M.getD (k+1) (0, 0)).2 = 0
      · simp only [enc, hm, if_true, Val.update]
        rw [if_neg (by omega)]
      · have hm2 : (M.getD (k+1) (0, 0)).2 = (M.getD (k+1) (0, 0)).1 + 1 := by
          rcases c2 with h | h
          · exact absurd h hm
          · exact h
        simp only [enc, hm, if_false, Val.update]
        rw [if_neg (by omega), if_neg (by omega)]

namespace InsCtx
variable (C : InsCtx)

/-- the completeness half of `setup_core`, with `NegZero` -/
theorem setup_coreS (cost : Row) (base : List Nat)
    (H2 : ∀ u, C.nn.getD u false = true → ∃ c ∈ C.pend, forcesNonneg (classify c).1 = true ∧ (classify c).2 = u) :
    ∀ x : Val, csSem C.pend x →
      ∃ y : Val, y 0 = 1 ∧ (∀ j, 1 ≤ j → 0 ≤ y j) ∧ (∀ j, C.SL ≤ j → y j = 0) ∧ Sol (C.T2 cost base) y ∧
        (∀ i, i < C.n → proj C.M y i = x i) ∧ NegZero C.M C.n x y := by
  have inv := C.insert_spec
  have hk : (revFold C.pend.length C.step C.init).k = 0 := C.fin_k
  obtain ⟨t1, t2⟩ := C.T2_rows cost base
  intro x hx
  have hxnn : ∀ u, u < C.n → C.nn.getD u false = true → 0 ≤ x u := by
    intro u _ hu
    obtain ⟨c, hc, hf, hv⟩ := H2 u hu
    rcases hcl : classify c with ⟨cls, v⟩
    rw [hcl] at hf hv
    simp only at hf hv
    subst hv
    exact nonneg_of_class hcl hf x (hx c hc)
  obtain ⟨e1, e2, e3, e4⟩ := enc_spec C.M C.nn C.n C.j C.hM x hxnn C.n (le_refl _)
  have eneg := enc_neg C.M C.nn C.n C.j C.hM x C.n (le_refl _)
  set y0 := enc C.M x C.n with hy0
  have hy0V : ∀ col, C.V ≤ col → y0 col = 0 := by
    intro col hcol
    apply e2 col (by unfold V at hcol; omega)
    intro u hu
    have := (C.hM.cols u hu).2.2.2
    unfold V at hcol; omega
  have hholds : ∀ c ∈ C.pend.drop 0, tabC c = true → c.holds (proj C.M y0) := by
    intro c hc _
    have hc' : c ∈ C.pend := by simpa using hc
    have := hx c hc'
    unfold ICon.holds at this ⊢
    rwa [dot_congr_lt c.coeffs (proj C.M y0) x (fun u hu => e3 u (lt_of_lt_of_le hu (C.hlen c hc')))]
  obtain ⟨y, y1, y2, y3, y4, y5⟩ := inv.complete y0 e1 (fun col _ => e4 col) hholds
  have hzero : ∀ j, C.SL ≤ j → y j = 0 := by
    intro j hj
    have hVj : C.V ≤ j := by unfold SL at hj; omega
    rw [y4 j hVj (Or.inr hj)]; exact hy0V j hVj
  refine ⟨y, y2, y3, hzero, fun r hr => ?_, fun i hi => ?_, fun v hv hsplit hxv => ?_⟩
  · rw [t1] at hr
    exact (t2 r hr y (fun j hj _ => hzero j hj)).mpr (y5 r (by rw [hk]; omega) hr)
  · rw [proj_congr C.M C.nn C.n C.j C.hM y y0 (fun col hcol => y1 col (by unfold V; exact hcol))]
    exact e3 i hi
  · have hcol : (C.M.getD (v+1) (0, 0)).2 < C.V := by
      have := (C.hM.cols v hv).2.2.2
      unfold hiCol at this; rw [if_neg hsplit] at this
      unfold V; exact this
    rw [y1 _ hcol, eneg v hv hsplit]
    exact max_eq_right (by linarith)

end InsCtx

/-- the completeness witness of the fresh set-up can be chosen with `NegZero` -/
theorem fresh_setupGoodS (s : LPState) (hF : Fresh s) (s' : LPState) (b e : Nat)
    (h : ppcSetup s = .phase1 s' b e) :
    ∀ x, csSem s.input_cs x → ∃ y, TabSol s'.tableau s'.numCols b y ∧
      (∀ i, i < s.external_space_dim → proj s'.mapping y i = x i) ∧ NegZero s'.mapping s.external_space_dim x y := by
  cases hp : parseConstraints s with
  | none =>
    exfalso
    have : ppcSetup s = .done { s with status := .UNSATISFIABLE } := by
      unfold ppcSetup; rw [ppcRecompute_fresh hF]; simp only [hp]
    rw [this] at h; cases h
  | some p =>
    obtain ⟨C, c1, c2, c3, H1, H2, hnc, s0, hs0, f1, f2, f3, f4, f5, f6, -⟩ := fresh_ctx s hF p hp
    rcases ppcTrivial_cases s0 (if (C.N - C.isSat.count true) > 0 then C.SL else 0) C.artOut.2.2.2
        (by rw [f6]; exact hF.npos) with ⟨hph, -⟩ | ⟨sd, hd, -⟩
    swap
    · rw [hs0, hd] at h; cases h
    rw [hs0, hph] at h
    simp only [Setup.phase1.injEq] at h
    obtain ⟨rfl, rfl, rfl⟩ := h
    have hstart : artStart (if (C.N - C.isSat.count true) > 0 then C.SL else 0) s0.numCols = C.SL := by
      unfold artStart
      rw [f4]
      by_cases ha : (C.N - C.isSat.count true) > 0
      · rw [if_pos ha, if_pos (by unfold InsCtx.SL InsCtx.V; omega)]
      · rw [if_neg ha, if_neg (by simp)]; rw [hnc]; omega
    intro x hx
    rw [← c1] at hx
    obtain ⟨y, y1, y2, y3, y4, y5, y6⟩ := C.setup_coreS (zeros C.numCols) C.fin.base H2 x hx
    refine ⟨y, ⟨y1, y2, fun j hj _ => y3 j (by rw [hstart] at hj; exact hj), by rw [f1]; exact y4⟩, ?_, ?_⟩
    · rw [f5, ← c2]; exact y5
    · rw [f5, ← c2]; exact y6

end PPLV.Solver.Pend

namespace PPLV.Solver.Pend
open PPLV.Lin PPLV.Solver PPLV.Solver.Tab

theorem negZero_trunc (M : List (Nat × Nat)) (nn : List Bool) (n j N : Nat) (hM : MapOK M nn n j) (hN : 1 + j ≤ N)
    (x y : Val) (h : NegZero M n x y) : NegZero M n x (trunc N y) := by
  intro v hv hsplit hx
  have hcol : (M.getD (v+1) (0, 0)).2 < 1 + j := by
    have := (hM.cols v hv).2.2.2
    unfold hiCol at this; rw [if_neg hsplit] at this; exact this
  unfold trunc; rw [if_pos (by omega)]; exact h v hv hsplit hx

/-- the `NegZero` witness survives the first phase and `erase_artificials` -/
theorem chain_completeS (fc : Chooser) (hfc : ChooserOK fc) (fuel : Nat) (cs : List ICon) (n : Nat)
    (s' : LPState) (b e : Nat) (hP : Phase1Start s' b e)
    (hmap : ∃ nn j, MapOK s'.mapping nn n j ∧ 1 + j ≤ artStart b s'.numCols)
    (gS : ∀ x, csSem cs x → ∃ y, TabSol s'.tableau s'.numCols b y ∧
      (∀ i, i < n → proj s'.mapping y i = x i) ∧ NegZero s'.mapping n x y)
    (ok : Bool) (t : Tab) (hrun : computeSimplexWith (chooserOf fc s'.pricing) fuel s'.tab = some (ok, t))
    (hst : (ppcFinish s' b e ok t).status = .SATISFIABLE) :
    (ppcFinish s' b e ok t).numCols = (ppcFinish s' b e ok t).working_cost.length ∧
    ∀ x, csSem cs x → ∃ y, Pos0 (ppcFinish s' b e ok t).working_cost.length y ∧
      Sol (ppcFinish s' b e ok t).tableau y ∧
      (∀ i, i < n → proj (ppcFinish s' b e ok t).mapping y i = x i) ∧
      NegZero (ppcFinish s' b e ok t).mapping n x y := by
  obtain ⟨nn, jj, hMok, hjj⟩ := hmap
  obtain ⟨hok, hCt, hlen, hsol, v1, v2⟩ :=
    phase1_verdict _ (chooserOf_ok fc hfc s'.pricing) fuel s' b e hP ok t hrun
  subst hok
  have h0 : t.cost.get 0 = 0 := by
    by_contra hne
    rw [ppcFinish_unsat s' b e true t (Or.inr hne)] at hst; cases hst
  obtain ⟨-, hart⟩ := v2 h0
  rw [ppcFinish_sat s' b e t h0]
  have hn2 : 2 ≤ s'.numCols := by rw [← hlen]; exact hCt.len2
  by_cases hb : b = 0
  · have hb' : (b != 0) = false := by rw [hb]; rfl
    rw [hb']
    simp only [Bool.false_eq_true, if_false]
    have hstart : artStart b s'.numCols = s'.numCols - 1 := by unfold artStart; rw [hb]; simp
    rw [hstart] at hjj
    refine ⟨by simp only [computeGenerator, LPState.withTab]; exact hlen.symm, fun x hx => ?_⟩
    obtain ⟨y, ⟨y1, y2, y3, y4⟩, y5, y6⟩ := gS x hx
    simp only [computeGenerator, LPState.withTab]
    rw [hlen]
    refine ⟨trunc s'.numCols y, ⟨?_, fun j hj => ?_, fun j hj => ?_⟩, ?_, fun i hi => ?_,
      negZero_trunc _ nn n jj _ hMok (by omega) x y y6⟩
    · unfold trunc; rw [if_pos (by omega)]; exact y1
    · unfold trunc; split
      · exact y2 j hj
      · exact le_refl _
    · unfold trunc; split
      · exact y3 j (by rw [hstart]; exact hj) (by assumption)
      · rfl
    · apply (hsol _).mpr
      intro i hi
      unfold rowVal
      rw [dot_trunc _ _ _ (fun j h1 h2 => by
        have := hP.canon.rowLen i hi
        have e2 : s'.tab.cost.length = s'.numCols := hP.len
        change (s'.tableau.getD i []).length = s'.tab.cost.length at this
        omega)]
      exact y4 i hi
    · rw [← y5 i hi]
      have := proj_congr s'.mapping nn n jj hMok (trunc s'.numCols y) y (fun col hcol => by
        unfold trunc; rw [if_pos (by omega)])
      rw [this]
  · have hb' : (b != 0) = true := bne_iff_ne.mpr hb
    rw [hb']
    simp only [if_true]
    obtain ⟨hb1, hbe⟩ := hP.bpos hb
    have hA := hart hb
    have hstart : artStart b s'.numCols = b := by unfold artStart; rw [if_pos hb]
    rw [hstart] at hjj
    have hnumc : (s'.withTab t).numCols = s'.numCols := rfl
    rw [hnumc]
    obtain ⟨e1, e2, e3⟩ := erase_artificials_valid b e s'.numCols t hb1 hbe hP.eEnd hA
    obtain ⟨e4, e5⟩ := eraseArtificials_canonTB b e s'.numCols t hb1 hbe hP.eEnd
      (by rw [← hlen]; exact hCt.toTB) hA hlen
    refine ⟨by simp only [computeGenerator, LPState.withTab]; rw [e5, e1], fun x hx => ?_⟩
    obtain ⟨y, ⟨y1, y2, y3, y4⟩, y5, y6⟩ := gS x hx
    simp only [computeGenerator, LPState.withTab]
    rw [e5]
    have hno : NoArt b (trunc b y) := fun j hj => by unfold trunc; rw [if_neg (by omega)]
    refine ⟨trunc b y, ⟨?_, fun j hj => ?_, fun j hj => hno j (by omega)⟩, ?_, fun i hi => ?_,
      negZero_trunc _ nn n jj _ hMok hjj x y y6⟩
    · unfold trunc; rw [if_pos (by omega)]; exact y1
    · unfold trunc; split
      · exact y2 j hj
      · exact le_refl _
    · apply (e3 _ hno).mpr
      apply (hsol _).mpr
      intro i hi
      unfold rowVal
      rw [dot_trunc _ _ _ (fun j h1 h2 => by
        have := hP.canon.rowLen i hi
        have e2' : s'.tab.cost.length = s'.numCols := hP.len
        change (s'.tableau.getD i []).length = s'.tab.cost.length at this
        exact y3 j (by rw [hstart]; exact h2) (by omega))]
      exact y4 i hi
    · rw [← y5 i hi]
      have := proj_congr s'.mapping nn n jj hMok (trunc b y) y (fun col hcol => by
        unfold trunc; rw [if_pos (by omega)])
      rw [this]

/-- `second_phase()` keeps `ReadyS` -/
theorem readyS_after_secondPhase (fc : Chooser) (hfc : ChooserOK fc) (fuel : Nat) (cs : List ICon) (n : Nat)
    (s1 s2 : LPState) (hst : s1.status = .SATISFIABLE) (hR : ReadyS cs n s1)
    (hobj : s1.obj.coeffs.length ≤ n) (h : secondPhase fc fuel s1 = some s2) : ReadyS cs n s2 := by
  have hr := ready_after_secondPhase fc hfc fuel cs n s1 s2 hst hR.ready hobj h
  obtain ⟨nn, jj, hM, hjj⟩ := hR.ready.map
  obtain ⟨c1, c2, -⟩ := secondPhaseCost_spec s1 nn n jj hM hjj hobj
  have hc2 : (secondPhaseCost s1).get (s1.working_cost.length - 1) ≠ 0 := by rw [c2]; decide
  obtain ⟨-, p2, p3, p4, -, -⟩ := secondPhase_sound fc hfc fuel s1 s2 hst hR.ready.tb c1 hc2 h
  have hkeep : s2.mapping = s1.mapping ∧ s2.numCols = s1.numCols := by
    rw [secondPhase_unfold fc fuel s1 hst] at h
    split at h
    · cases h
    · simp only [Option.some.injEq] at h; subst h; exact ⟨rfl, rfl⟩
  refine ⟨hr, by rw [hkeep.2, p2]; exact hR.ncols, fun x hx => ?_⟩
  obtain ⟨y, y1, y2, y3, y4⟩ := hR.completeS x hx
  exact ⟨y, by rw [p2]; exact y1, (p4 y).mpr y2, by rw [hkeep.1]; exact y3, by rw [hkeep.1]; exact y4⟩

end PPLV.Solver.Pend
