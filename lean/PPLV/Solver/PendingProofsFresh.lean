import PPLV.Solver.PendingProofsSetup7

/-!
# C06 stage 3 (b1) — the state `is_lp_satisfiable()` sets up for a problem never solved before is `Fresh`

`Untouched s`: no solver call has run on `s` yet (what `MIP_Problem(dim)` builds, kept by every mutator).
`isLpSatisfiable_untouched`: on such a state (status PARTIALLY_SATISFIABLE) `is_lp_satisfiable()` adds the two
columns and `mapping[0]` and calls `process_pending_constraints()` on a `Fresh` state — the hypothesis of
`tableau_setup_solutions`.
-/
namespace PPLV.Solver.Pend
open PPLV.Lin PPLV.Solver.Tab

structure Untouched (s : LPState) : Prop where
  int0 : s.internal_space_dim = 0
  fp0 : s.first_pending = 0
  map0 : s.mapping = []
  nc : s.numCols = 0
  tab : s.tableau = []
  base0 : s.base = []
  part : s.status = .PARTIALLY_SATISFIABLE

theorem new_untouched (n : Nat) : Untouched (LPState.new n) := ⟨rfl, rfl, rfl, rfl, rfl, rfl, rfl⟩

/-- every mutator keeps a problem untouched -/
theorem mutators_untouched (s : LPState) (h : Untouched s) (c : ICon) (e : LinExpr) (b : Bool) (m : Nat) (p : Pricing) :
    Untouched (addConstraint s c) ∧ Untouched (setObjectiveFunction s e) ∧ Untouched (setOptimizationMode s b) ∧
    Untouched (addSpaceDimensionsAndEmbed s m) ∧ Untouched (setPricing s p) := by
  have hk := mutators_keep_tableau s c e b m p
  have st1 : (addConstraint s c).status = .PARTIALLY_SATISFIABLE := by
    rw [(addConstraint_status s c).1, h.part]; rfl
  have st2 : (setObjectiveFunction s e).status = .PARTIALLY_SATISFIABLE := by
    rw [(setObjectiveFunction_status s e).1, h.part]; rfl
  have st3 : (setOptimizationMode s b).status = .PARTIALLY_SATISFIABLE := by
    unfold setOptimizationMode
    by_cases hb : s.maximize = b <;> simp [hb, h.part]
  have st4 : (addSpaceDimensionsAndEmbed s m).status = .PARTIALLY_SATISFIABLE := by
    rw [(addSpaceDimensionsAndEmbed_status s m).1, h.part]; rfl
  have mk : ∀ s', s' ∈ [addConstraint s c, setObjectiveFunction s e, setOptimizationMode s b,
      addSpaceDimensionsAndEmbed s m, setPricing s p] → s'.status = .PARTIALLY_SATISFIABLE → Untouched s' := by
    intro s' hs' hst
    obtain ⟨k1, k2, k3, k4, -, k6, k7⟩ := hk s' hs'
    exact ⟨by rw [k7]; exact h.int0, by rw [k6]; exact h.fp0, by rw [k3]; exact h.map0, by rw [k4]; exact h.nc,
      by rw [k1]; exact h.tab, by rw [k2]; exact h.base0, hst⟩
  exact ⟨mk _ (by simp) st1, mk _ (by simp) st2, mk _ (by simp) st3, mk _ (by simp) st4,
    mk _ (by simp) (by simp [setPricing, h.part])⟩

/-- the state handed to `process_pending_constraints()` by the first `is_lp_satisfiable()` -/
def firstCall (s : LPState) : LPState := { s with numCols := 2, mapping := s.mapping ++ [(0, 0)] }

theorem firstCall_fresh (s : LPState) (h : Untouched s) (hn : 0 < s.external_space_dim)
    (hl : ∀ c ∈ s.input_cs, c.coeffs.length ≤ s.external_space_dim) : Fresh (firstCall s) :=
  ⟨h.int0, h.fp0, by simp [firstCall, h.map0], rfl, h.tab, h.base0, hn, hl⟩

theorem isLpSatisfiable_untouched (fc : Chooser) (fuel : Nat) (s : LPState) (h : Untouched s) :
    isLpSatisfiable fc fuel s =
      match processPendingConstraints fc fuel (firstCall s) with
      | none => none
      | some s1 =>
        some ({ s1 with first_pending := s1.input_cs.length, internal_space_dim := s1.external_space_dim },
          s1.status != .UNSATISFIABLE) := by
  unfold isLpSatisfiable firstCall
  rw [h.part]
  simp only [h.nc, beq_self_eq_true, if_true]
  rfl

end PPLV.Solver.Pend
