import PPLV.Solver.PIPCoreSem2
import PPLV.Solver.PIPCoreProofsPivot10
import PPLV.Solver.PIPCoreProofsLex6
import PPLV.Solver.PIPCoreProofsSign9
import Mathlib.Data.Rat.Defs
import Mathlib.Tactic.Ring
import Mathlib.Tactic.Linarith
/-!
# C07 stage 2 — shared definitions of the end-to-end proof (proof level: may use Mathlib)

* `TabSatQ`: the reading of a tableau over RATIONAL valuations (needed only for one argument: the basic
  solution of a final node is integral on every variable as soon as it is integral on the problem
  variables, `IntInv`);
* `SignInv`: the cached signs are true up to one unit (`SignWeak`, `PIPCoreProofsSign7.lean`) at every
  non-negative integer parameter vector of the context.
-/
namespace PPLV.PIPCore

def dotQ : List Int → List ℚ → ℚ
  | a :: as, x :: xs => (a : ℚ) * x + dotQ as xs
  | _, _ => 0

def RowHoldsQ (nd : SolNode) (v : Nat → ℚ) (q : List Int) (i : Nat) : Prop :=
  (nd.tab.den : ℚ) * v (natGet nd.varRow i)
    = dotQ (mrow nd.tab.s i) (nd.varColumn.map v) + ((dot (mrow nd.tab.t i) q : Int) : ℚ)

def TabSatQ (nd : SolNode) (v : Nat → ℚ) (q : List Int) : Prop :=
  ∀ i, i < nd.tab.s.length → RowHoldsQ nd v q i

def IsIntQ (x : ℚ) : Prop := ∃ z : Int, x = (z : ℚ)

/-- every rational solution whose problem variables are integers is integral on all variables -/
def IntInv (nd : SolNode) (q : List Int) : Prop :=
  ∀ v : Nat → ℚ, TabSatQ nd v q → (∀ k, k < nd.tab.ns → IsIntQ (v k)) →
    ∀ k, k < nd.mapping.length → IsIntQ (v k)

/-- the cached signs hold (up to one unit) at the parameter vector `q` -/
def SignAt (nd : SolNode) (q : List Int) : Prop :=
  ∀ k, SignWeak nd.tab.den (signGet nd.sign k) (dot (mrow nd.tab.t k) q)

/-- the artificial parameters of the node own the LAST columns of `t`: the `j`-th one was created when
    there were `n0 + j` columns (`n0` = columns before the node's own parameters), has a positive
    denominator and a non-negative numerator row -/
def ArtsWF (n0 : Nat) (arts : List ArtP) : Prop :=
  ∀ j, j < arts.length →
    (arts.getD j default).num.length = n0 + j ∧ 0 < (arts.getD j default).den ∧
      ∀ a ∈ (arts.getD j default).num, 0 ≤ a

end PPLV.PIPCore
