import PPLV.Solver.PendingProofsReadyS

/-!
# C06 stage 3 — the loop :896–:900 in closed form, and basic solutions of partially based tableaux

* `combineRow`, `combine_spec`: combining a new row against the rows that have a basic variable (`base ≠ 0`) zeroes
  the new row at their basic columns; on columns where those rows vanish the result is a non-zero multiple
  (`D·row' = Mt·row`, `D > 0`, `Mt ≠ 0`) of the original, and so is its value on valuations satisfying those rows;
* `PBased`: the rows with `base ≠ 0` are in canonical form among ALL rows; `bsol_based_row`: such a row vanishes at
  `bsol`; `bsol_congr_set`: changing a row without basic variable / a `base` entry ≥ V keeps `bsol` below `V`.
-/
namespace PPLV.Solver.Pend
open PPLV.Lin PPLV.Solver PPLV.Solver.Tab

/-- the loop :896–:900 on the row being inserted as row `k` -/
def combineRow (T : List Row) (base : List Nat) (k : Nat) (row : Row) : Row :=
  revFold base.length (fun j (row : Row) =>
    let bj := base.getD j 0
    if k != j && bj != 0 && row.get bj != 0 then linearCombine row (T.getD j []) bj else row) row

theorem combine_spec (T : List Row) (base : List Nat) (k : Nat) (row : Row) (L : Nat) (hrow : row.length = L)
    (hlenT : ∀ j, j < base.length → j ≠ k → base.getD j 0 ≠ 0 → (T.getD j []).length = L)
    (hnz : ∀ j, j < base.length → j ≠ k → base.getD j 0 ≠ 0 → (T.getD j []).get (base.getD j 0) ≠ 0)
    (hcan : ∀ j j', j < base.length → j' < base.length → j ≠ k → j' ≠ k → j ≠ j' → base.getD j 0 ≠ 0 →
      base.getD j' 0 ≠ 0 → (T.getD j' []).get (base.getD j 0) = 0) :
    (combineRow T base k row).length = L ∧
    (∀ j, j < base.length → j ≠ k → base.getD j 0 ≠ 0 → (combineRow T base k row).get (base.getD j 0) = 0) ∧
    ∃ D Mt : Int, 0 < D ∧ Mt ≠ 0 ∧
      (∀ col, (∀ j, j < base.length → j ≠ k → base.getD j 0 ≠ 0 → (T.getD j []).get col = 0) →
        D * (combineRow T base k row).get col = Mt * row.get col) ∧
      (∀ y : Val, (∀ j, j < base.length → j ≠ k → base.getD j 0 ≠ 0 → rowVal (T.getD j []) y = 0) →
        (D : Rat) * rowVal (combineRow T base k row) y = (Mt : Rat) * rowVal row y) := by
  unfold combineRow
  have key := revFold_inv
    (fun (i : Nat) (r : Row) => r.length = L ∧
      (∀ j, i ≤ j → j < base.length → j ≠ k → base.getD j 0 ≠ 0 → r.get (base.getD j 0) = 0) ∧
      ∃ D Mt : Int, 0 < D ∧ Mt ≠ 0 ∧
        (∀ col, (∀ j, j < base.length → j ≠ k → base.getD j 0 ≠ 0 → (T.getD j []).get col = 0) →
          D * r.get col = Mt * row.get col) ∧
        (∀ y : Val, (∀ j, j < base.length → j ≠ k → base.getD j 0 ≠ 0 → rowVal (T.getD j []) y = 0) →
          (D : Rat) * rowVal r y = (Mt : Rat) * rowVal row y))
    (fun j (row : Row) =>
      let bj := base.getD j 0
      if k != j && bj != 0 && row.get bj != 0 then linearCombine row (T.getD j []) bj else row)
    base.length row
    ⟨hrow, fun j h1 h2 => by omega, 1, 1, by norm_num, by norm_num, fun col _ => by ring, fun y _ => by ring⟩
    (by
      intro i hi r ⟨a1, a2, D, Mt, hD, hMt, a3, a4⟩
      simp only
      by_cases hc : (k != i && base.getD i 0 != 0 && r.get (base.getD i 0) != 0) = true
      · rw [if_pos hc]
        simp only [Bool.and_eq_true, bne_iff_ne, ne_eq] at hc
        obtain ⟨⟨h1, h2⟩, h3⟩ := hc
        have hik : i ≠ k := fun h => h1 h.symm
        obtain ⟨d, hd, e1, e2, e3⟩ := linearCombine_spec r (T.getD i []) (base.getD i 0)
        obtain ⟨g, hg, -, -, hny⟩ := lcN_spec r (T.getD i []) (base.getD i 0) (hnz i hi hik h2)
        refine ⟨by rw [e3, a1, hlenT i hi hik h2]; simp, fun j hj1 hj2 hjk hjb => ?_,
          d * D, -(lcNy r (T.getD i []) (base.getD i 0)) * Mt, Int.mul_pos hd hD,
          Int.mul_ne_zero (Int.neg_ne_zero.mpr hny) hMt, fun col hcol => ?_, fun y hy => ?_⟩
        · by_cases hji : j = i
          · rw [hji]; exact linearCombine_get _ _ _
          · have h0 := e1 (base.getD j 0)
            rw [a2 j (by omega) hj2 hjk hjb, hcan j i hj2 hi hjk hik hji hjb h2, mul_zero, mul_zero, add_zero] at h0
            rcases Int.mul_eq_zero.mp h0 with h | h
            · omega
            · exact h
        · have h0 := e1 col
          rw [hcol i hi hik h2, mul_zero, add_zero] at h0
          calc d * D * (linearCombine r (T.getD i []) (base.getD i 0)).get col
              = D * (d * (linearCombine r (T.getD i []) (base.getD i 0)).get col) := by ring
            _ = D * (-(lcNy r (T.getD i []) (base.getD i 0)) * r.get col) := by rw [h0]
            _ = -(lcNy r (T.getD i []) (base.getD i 0)) * (D * r.get col) := by ring
            _ = -(lcNy r (T.getD i []) (base.getD i 0)) * (Mt * row.get col) := by rw [a3 col hcol]
            _ = -(lcNy r (T.getD i []) (base.getD i 0)) * Mt * row.get col := by ring
        · have h0 := e2 y
          have hz : dot (T.getD i []) y = 0 := hy i hi hik h2
          rw [hz, mul_zero, add_zero] at h0
          have h4 := a4 y hy
          unfold rowVal at h4 ⊢
          push_cast
          calc (d : Rat) * D * dot (linearCombine r (T.getD i []) (base.getD i 0)) y
              = D * ((d : Rat) * dot (linearCombine r (T.getD i []) (base.getD i 0)) y) := by ring
            _ = D * (-((lcNy r (T.getD i []) (base.getD i 0) : Int) : Rat) * dot r y) := by rw [h0]
            _ = -((lcNy r (T.getD i []) (base.getD i 0) : Int) : Rat) * ((D : Rat) * dot r y) := by ring
            _ = -((lcNy r (T.getD i []) (base.getD i 0) : Int) : Rat) * ((Mt : Rat) * dot row y) := by rw [h4]
            _ = -((lcNy r (T.getD i []) (base.getD i 0) : Int) : Rat) * (Mt : Rat) * dot row y := by ring
      · rw [if_neg hc]
        refine ⟨a1, fun j hj1 hj2 hjk hjb => ?_, D, Mt, hD, hMt, a3, a4⟩
        by_cases hji : j = i
        · subst hji
          have h1 : (k != j) = true := bne_iff_ne.mpr (fun h => hjk h.symm)
          have h2 : (base.getD j 0 != 0) = true := bne_iff_ne.mpr hjb
          rw [h1, h2] at hc
          simp only [Bool.true_and, bne_iff_ne, ne_eq, not_not] at hc
          exact hc
        · exact a2 j (by omega) hj2 hjk hjb)
  obtain ⟨k1, k2, k3⟩ := key
  exact ⟨k1, fun j hj => k2 j (Nat.zero_le _) hj, k3⟩

end PPLV.Solver.Pend

namespace PPLV.Solver.Pend
open PPLV.Lin PPLV.Solver PPLV.Solver.Tab

/-- the rows that have a basic variable are in canonical form among all rows -/
structure PBased (T : List Row) (base : List Nat) : Prop where
  lenB : base.length = T.length
  nz : ∀ i, i < T.length → base.getD i 0 ≠ 0 → (T.getD i []).get (base.getD i 0) ≠ 0
  col : ∀ i j, i < T.length → j < T.length → i ≠ j → base.getD i 0 ≠ 0 → (T.getD j []).get (base.getD i 0) = 0

theorem PBased.rowOf {T : List Row} {base : List Nat} (h : PBased T base) {i : Nat} (hi : i < T.length)
    (hb : base.getD i 0 ≠ 0) : rowOf base (base.getD i 0) = some i := by
  cases hr : Pend.rowOf base (base.getD i 0) with
  | none => exact absurd rfl (rowOf_none hr i (by rw [h.lenB]; exact hi))
  | some k =>
    obtain ⟨hk, hkb⟩ := rowOf_some hr
    rw [h.lenB] at hk
    by_cases hki : k = i
    · rw [hki]
    · exfalso
      have := h.col k i hk hi hki (by rw [hkb]; exact hb)
      rw [hkb] at this
      exact h.nz i hi hb this

theorem bsol_zero (T : List Row) (base : List Nat) : bsol T base 0 = 1 := by simp [bsol]

theorem bsol_nonbased (T : List Row) (base : List Nat) {j : Nat} (hj : j ≠ 0)
    (h : ∀ i, i < base.length → base.getD i 0 ≠ j) : bsol T base j = 0 := by
  unfold bsol
  rw [if_neg hj]
  cases hr : rowOf base j with
  | none => rfl
  | some i => exact absurd (rowOf_some hr).2 (h i (rowOf_some hr).1)

theorem bsol_based {T : List Row} {base : List Nat} (h : PBased T base) {i : Nat} (hi : i < T.length)
    (hb : base.getD i 0 ≠ 0) :
    bsol T base (base.getD i 0) =
      -(((T.getD i []).get 0 : Int) : Rat) / (((T.getD i []).get (base.getD i 0) : Int) : Rat) := by
  unfold bsol
  rw [if_neg hb, h.rowOf hi hb]

/-- value of a row that vanishes at every basic column, at the basic solution moved by `σ` along a column `s` that is
    nobody's basic column -/
theorem rowVal_bsol_update {T : List Row} {base : List Nat} (r : Row) (s : Nat) (σ : Rat) (hs0 : s ≠ 0)
    (hsb : ∀ i, i < base.length → base.getD i 0 ≠ s)
    (hr : ∀ i, i < base.length → base.getD i 0 ≠ 0 → r.get (base.getD i 0) = 0) :
    rowVal r ((bsol T base).update s σ) = ((r.get 0 : Int) : Rat) + ((r.get s : Int) : Rat) * σ := by
  unfold rowVal
  set x := (bsol T base).update s σ with hx
  have key := dot_update r (x.update 0 0) s 0
  rw [dot_update r x 0 0] at key
  have hz : dot r ((x.update 0 0).update s 0) = 0 := by
    apply dot_eq_zero_of_support
    intro j
    by_cases hj0 : j = 0
    · right; simp [Val.update, hj0, Ne.symm hs0]
    by_cases hjs : j = s
    · right; simp [Val.update, hjs]
    simp only [Val.update, hj0, hjs, if_false, hx]
    by_cases hbj : ∃ i, i < base.length ∧ base.getD i 0 = j
    · obtain ⟨i, hi, hij⟩ := hbj
      left
      have := hr i hi (by rw [hij]; exact hj0)
      rw [hij] at this; exact this
    · right
      exact bsol_nonbased T base hj0 (fun i hi hij => hbj ⟨i, hi, hij⟩)
  rw [hz] at key
  have hx0 : x 0 = 1 := by rw [hx]; simp only [Val.update]; rw [if_neg (Ne.symm hs0)]; exact bsol_zero T base
  have hxs : (x.update 0 0) s = σ := by simp [Val.update, hs0, hx]
  rw [hx0, hxs] at key
  have e0 : ((r.getD 0 0 : Int) : Rat) = ((r.get 0 : Int) : Rat) := rfl
  have e1 : ((r.getD s 0 : Int) : Rat) = ((r.get s : Int) : Rat) := rfl
  rw [e0, e1] at key
  linarith

/-- a row with a basic variable vanishes at the basic solution -/
theorem bsol_based_row {T : List Row} {base : List Nat} (h : PBased T base) {i : Nat} (hi : i < T.length)
    (hb : base.getD i 0 ≠ 0) : rowVal (T.getD i []) (bsol T base) = 0 := by
  unfold rowVal
  set r := T.getD i [] with hr
  set b := base.getD i 0 with hbd
  set x := bsol T base with hx
  have key := dot_update r (x.update 0 0) b 0
  rw [dot_update r x 0 0] at key
  have hz : dot r ((x.update 0 0).update b 0) = 0 := by
    apply dot_eq_zero_of_support
    intro j
    by_cases hj0 : j = 0
    · right; simp [Val.update, hj0, Ne.symm hb]
    by_cases hjb : j = b
    · right; simp [Val.update, hjb]
    simp only [Val.update, hj0, hjb, if_false, hx]
    by_cases hbj : ∃ k, k < base.length ∧ base.getD k 0 = j
    · obtain ⟨k, hk, hkj⟩ := hbj
      left
      rw [h.lenB] at hk
      have hki : k ≠ i := by intro hh; rw [hh] at hkj; exact hjb hkj.symm
      have := h.col k i hk hi hki (by rw [hkj]; exact hj0)
      rw [hkj] at this; exact this
    · right
      exact bsol_nonbased T base hj0 (fun k hk hkj => hbj ⟨k, hk, hkj⟩)
  rw [hz] at key
  have hx0 : x 0 = 1 := bsol_zero T base
  have hxb : (x.update 0 0) b = -(((r.get 0 : Int)) : Rat) / ((r.get b : Int) : Rat) := by
    simp only [Val.update]; rw [if_neg hb]; exact bsol_based h hi hb
  rw [hx0, hxb] at key
  have hrb : ((r.get b : Int) : Rat) ≠ 0 := by exact_mod_cast h.nz i hi hb
  have e0 : ((r.getD 0 0 : Int) : Rat) = ((r.get 0 : Int) : Rat) := rfl
  have e2 : ((r.getD b 0 : Int) : Rat) = ((r.get b : Int) : Rat) := rfl
  rw [e0, e2] at key
  have : dot r x = ((r.get 0 : Int) : Rat) + ((r.get b : Int) : Rat) * (-((r.get 0 : Int) : Rat) / ((r.get b : Int) : Rat)) := by
    linarith
  rw [this]; field_simp; ring

theorem find?_congr' {α : Type} (l : List α) (p q : α → Bool) (h : ∀ a ∈ l, p a = q a) : l.find? p = l.find? q := by
  induction l with
  | nil => rfl
  | cons a l ih =>
    rw [List.find?_cons, List.find?_cons, h a List.mem_cons_self, ih (fun b hb => h b (List.mem_cons_of_mem _ hb))]

/-- `bsol` below column `V` does not see a change of row `k` (which has no basic variable) nor a new `base` entry
    `≥ V` for it -/
theorem bsol_congr_set (T : List Row) (base : List Nat) (k : Nat) (row' : Row) (b' V : Nat) (hk : k < T.length)
    (hlen : base.length = T.length) (hbk : base.getD k 0 = 0) (hb' : b' = 0 ∨ V ≤ b') (col : Nat) (hc1 : 1 ≤ col)
    (hcV : col < V) : bsol (T.set k row') (base.set k b') col = bsol T base col := by
  unfold bsol
  rw [if_neg (by omega), if_neg (by omega)]
  have hkb : k < base.length := by rw [hlen]; exact hk
  have hro : rowOf (base.set k b') col = rowOf base col := by
    unfold rowOf
    rw [List.length_set]
    apply find?_congr'
    intro i _
    rw [getD_set_nat' _ _ _ _ hkb]
    by_cases hik : i = k
    · rw [if_pos hik, hik, hbk]
      have h1 : (b' == col) = false := by
        rcases hb' with h | h
        · rw [h]; simp; omega
        · simp; omega
      have h2 : ((0 : Nat) == col) = false := by simp; omega
      rw [h1, h2]
    · rw [if_neg hik]
  rw [hro]
  cases hr : rowOf base col with
  | none => rfl
  | some i =>
    simp only
    have hik : i ≠ k := by
      intro h; obtain ⟨-, hb⟩ := rowOf_some hr; rw [h, hbk] at hb; omega
    rw [getD_set_row _ _ _ _ hk, if_neg hik]

end PPLV.Solver.Pend
