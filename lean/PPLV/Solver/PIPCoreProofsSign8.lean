import PPLV.Solver.PIPCoreProofsSign7
import Mathlib.Tactic.Linarith
/-!
# C07 core — sign family, part 8: the bookkeeping of `first_negative` / `first_mixed`
(PIP_Tree.cc:2695-2808) and "no sign is left UNKNOWN"

`signAnalysis_firsts`: after the sign analysis `fs.neg` is the FIRST row whose sign is `NEGATIVE` (`none`: no
such row) and, when there is no negative row, `fs.mix` is the FIRST row whose sign is `MIXED`.  (When a
negative row exists `first_mixed` may be stale after the second refinement — the code then does not use it.)
-/
namespace PPLV.PIPCore

/-- `o` is the first index whose sign is `s` (`none`: there is none) -/
def FirstOf (sg : List RowSign) (s : RowSign) : Option Nat → Prop
  | none => ∀ k, signGet sg k ≠ s
  | some i => signGet sg i = s ∧ ∀ k, k < i → signGet sg k ≠ s

/-- the same, restricted to the rows below `m` -/
def FirstBelow (m : Nat) (sg : List RowSign) (s : RowSign) : Option Nat → Prop
  | none => ∀ k, k < m → signGet sg k ≠ s
  | some i => i < m ∧ signGet sg i = s ∧ ∀ k, k < i → signGet sg k ≠ s

theorem signGet_ge_length {sg : List RowSign} {k : Nat} (h : sg.length ≤ k) : signGet sg k = .unknown := by
  unfold signGet
  rw [List.getD_eq_getElem?_getD, List.getElem?_eq_none h]; rfl

theorem FirstBelow.toFirstOf {m : Nat} {sg : List RowSign} {s : RowSign} {o : Option Nat}
    (hs : s ≠ .unknown) (hm : sg.length ≤ m) (h : FirstBelow m sg s o) : FirstOf sg s o := by
  cases o with
  | none =>
    intro k
    by_cases hk : k < m
    · exact h k hk
    · rw [signGet_ge_length (by omega)]; exact fun e => hs e.symm
  | some i => exact ⟨h.2.1, h.2.2⟩

theorem firstBelow_step {s : RowSign} {sg sg' : List RowSign} {o : Option Nat} {m : Nat} {si : RowSign}
    (hagree : ∀ k, k < m → signGet sg' k = signGet sg k) (hm : signGet sg' m = si)
    (h : FirstBelow m sg s o) :
    FirstBelow (m + 1) sg' s (if si = s ∧ o = none then some m else o) := by
  by_cases hc : si = s ∧ o = none
  · rw [if_pos hc]
    obtain ⟨rfl, rfl⟩ := hc
    exact ⟨by omega, hm, fun k hk => by rw [hagree k hk]; exact h k hk⟩
  · rw [if_neg hc]
    cases o with
    | none =>
      intro k hk
      by_cases hkm : k = m
      · subst hkm; rw [hm]; exact fun e => hc ⟨e, rfl⟩
      · rw [hagree k (by omega)]; exact h k (by omega)
    | some i =>
      obtain ⟨h1, h2, h3⟩ := h
      exact ⟨by omega, by rw [hagree i h1]; exact h2,
        fun k hk => by rw [hagree k (by omega)]; exact h3 k hk⟩

/-! ### `recomputeSigns` -/

/-- the loop body of `recomputeSigns`, with the two "first" indices updated independently -/
def recStepF (nd : SolNode) (st : List RowSign × Firsts) (i : Nat) : List RowSign × Firsts :=
  let si := if signGet st.1 i = .unknown ∨ signGet st.1 i = .mixed then rowSign (mrow nd.tab.t i) nd.big
            else signGet st.1 i
  (st.1.set i si,
   { neg := if si = .negative ∧ st.2.neg = none then some i else st.2.neg,
     mix := if si = .mixed ∧ st.2.mix = none then some i else st.2.mix })

theorem recomputeSigns_eq (nd : SolNode) :
    recomputeSigns nd = (List.range nd.tab.t.length).foldl (recStepF nd) (nd.sign, {}) := by
  unfold recomputeSigns
  congr 1
  funext st i
  obtain ⟨sg, ⟨neg, mix⟩⟩ := st
  simp only [recStepF]
  generalize (if signGet sg i = .unknown ∨ signGet sg i = .mixed then rowSign (mrow nd.tab.t i) nd.big
            else signGet sg i) = si
  by_cases h1 : si = .negative ∧ neg = none
  · have h2 : ¬ (si = .mixed ∧ mix = none) := by rw [h1.1]; simp
    rw [if_pos h1, if_pos h1, if_neg h2]
  · rw [if_neg h1, if_neg h1]
    by_cases h2 : si = .mixed ∧ mix = none
    · rw [if_pos h2, if_pos h2]
    · rw [if_neg h2, if_neg h2]

theorem recStepF_inv (nd : SolNode) (hlen : nd.tab.t.length ≤ nd.sign.length) : ∀ m, m ≤ nd.tab.t.length →
    ((List.range m).foldl (recStepF nd) (nd.sign, {})).1.length = nd.sign.length ∧
    FirstBelow m ((List.range m).foldl (recStepF nd) (nd.sign, {})).1 .negative
      ((List.range m).foldl (recStepF nd) (nd.sign, {})).2.neg ∧
    FirstBelow m ((List.range m).foldl (recStepF nd) (nd.sign, {})).1 .mixed
      ((List.range m).foldl (recStepF nd) (nd.sign, {})).2.mix
  | 0, _ => ⟨rfl, fun k hk => by omega, fun k hk => by omega⟩
  | m + 1, hm => by
    obtain ⟨hl, hn, hx⟩ := recStepF_inv nd hlen m (by omega)
    rw [List.range_succ, List.foldl_append]
    generalize (List.range m).foldl (recStepF nd) (nd.sign, {}) = st at hl hn hx
    simp only [List.foldl_cons, List.foldl_nil]
    unfold recStepF
    simp only
    generalize (if signGet st.1 m = .unknown ∨ signGet st.1 m = .mixed then rowSign (mrow nd.tab.t m) nd.big
            else signGet st.1 m) = si
    have hagree : ∀ k, k < m → signGet (st.1.set m si) k = signGet st.1 k := by
      intro k hk; rw [signGet_set, if_neg (by omega)]
    have hset : signGet (st.1.set m si) m = si := by
      rw [signGet_set, if_pos ⟨rfl, by omega⟩]
    exact ⟨by simp [hl], firstBelow_step hagree hset hn, firstBelow_step hagree hset hx⟩

/-- **`recomputeSigns` finds the first negative and the first mixed row** -/
theorem recomputeSigns_firsts (nd : SolNode) (hlen : nd.sign.length = nd.tab.t.length) :
    FirstOf (recomputeSigns nd).1 .negative (recomputeSigns nd).2.neg ∧
    FirstOf (recomputeSigns nd).1 .mixed (recomputeSigns nd).2.mix := by
  rw [recomputeSigns_eq]
  obtain ⟨hl, hn, hx⟩ := recStepF_inv nd (by omega) nd.tab.t.length (Nat.le_refl _)
  exact ⟨hn.toFirstOf (by decide) (by omega), hx.toFirstOf (by decide) (by omega)⟩

/-! ### the first refinement -/

theorem map_add_range'_right (a : Nat) : ∀ (n s : Nat),
    (List.range' s n).map (· + a) = List.range' (s + a) n
  | 0, s => rfl
  | n + 1, s => by
    rw [List.range'_succ, List.map_cons, List.range'_succ, map_add_range'_right a n (s + 1)]
    have : s + 1 + a = s + a + 1 := by omega
    rw [this]

theorem rangeFrom_eq (a b : Nat) : rangeFrom a b = List.range' a (b - a) := by
  unfold rangeFrom
  rw [List.range_eq_range', map_add_range'_right, Nat.zero_add]

/-- the state of `first_negative`: it is the first negative row and no row from `i` on is negative -/
def NegInv (i : Nat) (sg : List RowSign) (o : Option Nat) : Prop :=
  FirstOf sg .negative o ∧ ∀ k, i ≤ k → signGet sg k ≠ .negative

/-- the state of `first_mixed` during the first refinement -/
def MixInv (i : Nat) (sg : List RowSign) : Option Nat → Prop
  | none => ∀ k, k < i → signGet sg k ≠ .mixed
  | some j => signGet sg j = .mixed ∧ ∀ k, k < j → signGet sg k ≠ .mixed

theorem negInv_skip {i : Nat} {sg : List RowSign} {o : Option Nat} (h : NegInv i sg o) : NegInv (i + 1) sg o :=
  ⟨h.1, fun k hk => h.2 k (by omega)⟩

theorem negInv_set {i : Nat} {sg : List RowSign} {o : Option Nat} {new : RowSign} (hi : i < sg.length)
    (h : NegInv i sg o) :
    NegInv (i + 1) (sg.set i new) (if new = .negative ∧ o = none then some i else o) := by
  have hother : ∀ k, k ≠ i → signGet (sg.set i new) k = signGet sg k := by
    intro k hk; rw [signGet_set, if_neg (fun h => hk h.1.symm)]
  have hself : signGet (sg.set i new) i = new := by rw [signGet_set, if_pos ⟨rfl, hi⟩]
  refine ⟨?_, fun k hk => by rw [hother k (by omega)]; exact h.2 k (by omega)⟩
  by_cases hc : new = .negative ∧ o = none
  · rw [if_pos hc]
    obtain ⟨rfl, rfl⟩ := hc
    exact ⟨hself, fun k hk => by rw [hother k (by omega)]; exact h.1 k⟩
  · rw [if_neg hc]
    cases o with
    | none =>
      intro k
      by_cases hk : k = i
      · subst hk; rw [hself]; exact fun e => hc ⟨e, rfl⟩
      · rw [hother k hk]; exact h.1 k
    | some j =>
      obtain ⟨h1, h2⟩ := h.1
      have hji : j < i := by
        by_contra hge
        exact h.2 j (by omega) h1
      exact ⟨by rw [hother j (by omega)]; exact h1,
        fun k hk => by rw [hother k (by omega)]; exact h2 k hk⟩

theorem mixInv_skip {i : Nat} {sg : List RowSign} {o : Option Nat} (hi : signGet sg i ≠ .mixed)
    (h : MixInv i sg o) : MixInv (i + 1) sg o := by
  cases o with
  | none =>
    intro k hk
    by_cases hki : k = i
    · subst hki; exact hi
    · exact h k (by omega)
  | some j => exact h

theorem mixInv_set {i : Nat} {sg : List RowSign} {o : Option Nat} {new : RowSign} (hi : i < sg.length)
    (hmix : signGet sg i = .mixed) (h : MixInv i sg o) :
    MixInv (i + 1) (sg.set i new)
      (if new = .mixed then (if o = none then some i else o) else (if o = some i then none else o)) := by
  have hother : ∀ k, k ≠ i → signGet (sg.set i new) k = signGet sg k := by
    intro k hk; rw [signGet_set, if_neg (fun h => hk h.1.symm)]
  have hself : signGet (sg.set i new) i = new := by rw [signGet_set, if_pos ⟨rfl, hi⟩]
  cases o with
  | none =>
    have h' : ∀ k, k < i → signGet sg k ≠ .mixed := h
    by_cases hn : new = .mixed
    · rw [if_pos hn, if_pos rfl]
      exact ⟨by rw [hself]; exact hn, fun k hk => by rw [hother k (by omega)]; exact h' k hk⟩
    · rw [if_neg hn, if_neg (by simp)]
      intro k hk
      by_cases hki : k = i
      · subst hki; rw [hself]; exact hn
      · rw [hother k hki]; exact h' k (by omega)
  | some j =>
    obtain ⟨h1, h2⟩ : signGet sg j = .mixed ∧ ∀ k, k < j → signGet sg k ≠ .mixed := h
    have hji : j ≤ i := by
      by_contra hgt
      exact h2 i (by omega) hmix
    by_cases hn : new = .mixed
    · rw [if_pos hn, if_neg (by simp)]
      refine ⟨?_, fun k hk => by rw [hother k (by omega)]; exact h2 k hk⟩
      by_cases hj : j = i
      · subst hj; rw [hself]; exact hn
      · rw [hother j hj]; exact h1
    · rw [if_neg hn]
      by_cases hj : j = i
      · subst hj
        rw [if_pos rfl]
        intro k hk
        by_cases hki : k = j
        · subst hki; rw [hself]; exact hn
        · rw [hother k hki]; exact h2 k (by omega)
      · rw [if_neg (by simpa using hj)]
        exact ⟨by rw [hother j hj]; exact h1,
          fun k hk => by rw [hother k (by omega)]; exact h2 k hk⟩

/-- the update of `first_negative` / `first_mixed` in the first refinement, the two indices separately -/
theorem refine1_firsts_eq (new : RowSign) (fs : Firsts) (i : Nat) :
    (if new = .negative ∧ fs.neg = none then
        ({ neg := some i, mix := if fs.mix = some i then none else fs.mix } : Firsts)
      else if new = .mixed then (if fs.mix = none then { fs with mix := some i } else fs)
      else if fs.mix = some i then { fs with mix := none } else fs)
    = { neg := if new = .negative ∧ fs.neg = none then some i else fs.neg,
        mix := if new = .mixed then (if fs.mix = none then some i else fs.mix)
               else (if fs.mix = some i then none else fs.mix) } := by
  obtain ⟨neg, mix⟩ := fs
  by_cases h1 : new = .negative ∧ neg = none
  · obtain ⟨rfl, rfl⟩ := h1
    simp only [and_self, if_true, reduceCtorEq, if_false]
  · rw [if_neg h1, if_neg h1]
    by_cases h2 : new = .mixed
    · simp only [h2, if_true]
      by_cases h3 : mix = none
      · simp only [h3, if_true]
      · simp only [h3, if_false]
    · simp only [h2, if_false]
      by_cases h3 : mix = some i
      · simp only [h3, if_true]
      · simp only [h3, if_false]

theorem refineMixed1_firsts {cc : Mat → Option Bool} {T : Tableau} {ctx : Mat} (start : Nat) :
    ∀ (cnt i : Nat) (sg : List RowSign) (fs : Firsts) (sg' : List RowSign) (fs' : Firsts),
      refineMixed1 cc T ctx start (List.range' i cnt) (sg, fs) = some (sg', fs') →
      NegInv i sg fs.neg → MixInv i sg fs.mix →
      NegInv (i + cnt) sg' fs'.neg ∧ MixInv (i + cnt) sg' fs'.mix
  | 0, i, sg, fs, sg', fs', h, hn, hx => by
    simp only [List.range'_zero, refineMixed1, Option.some.injEq, Prod.mk.injEq] at h
    rw [← h.1, ← h.2]; exact ⟨hn, hx⟩
  | cnt + 1, i, sg, fs, sg', fs', h, hn, hx => by
    rw [List.range'_succ] at h
    simp only [refineMixed1] at h
    have e : i + (cnt + 1) = (i + 1) + cnt := by omega
    rw [e]
    by_cases hm : signGet sg i ≠ .mixed
    · rw [if_pos hm] at h
      exact refineMixed1_firsts start cnt (i + 1) sg fs sg' fs' h (negInv_skip hn) (mixInv_skip hm hx)
    · rw [if_neg hm] at h
      have hm' : signGet sg i = .mixed := by simpa using hm
      have hi : i < sg.length := signGet_lt_of_ne_unknown (by rw [hm']; decide)
      cases hb1 : ccRow cc ctx (mrow T.t i) with
      | none => rw [hb1] at h; simp at h
      | some b1 =>
        rw [hb1] at h
        cases hb2 : ccRow cc ctx (complementAssign (mrow T.t i) T.den) with
        | none => rw [hb2] at h; simp at h
        | some b2 =>
          rw [hb2] at h
          simp only at h
          rw [refine1_firsts_eq] at h
          exact refineMixed1_firsts start cnt (i + 1) _ _ sg' fs' h (negInv_set hi hn) (mixInv_set hi hm' hx)

theorem refineMixed1_length {cc : Mat → Option Bool} {T : Tableau} {ctx : Mat} (start : Nat) :
    ∀ (is : List Nat) (sg : List RowSign) (fs : Firsts) (sg' : List RowSign) (fs' : Firsts),
      refineMixed1 cc T ctx start is (sg, fs) = some (sg', fs') → sg'.length = sg.length
  | [], sg, fs, sg', fs', h => by
    simp only [refineMixed1, Option.some.injEq, Prod.mk.injEq] at h
    rw [← h.1]
  | i :: is, sg, fs, sg', fs', h => by
    simp only [refineMixed1] at h
    by_cases hm : signGet sg i ≠ .mixed
    · rw [if_pos hm] at h
      exact refineMixed1_length start is sg fs sg' fs' h
    · rw [if_neg hm] at h
      cases hb1 : ccRow cc ctx (mrow T.t i) with
      | none => rw [hb1] at h; simp at h
      | some b1 =>
        rw [hb1] at h
        cases hb2 : ccRow cc ctx (complementAssign (mrow T.t i) T.den) with
        | none => rw [hb2] at h; simp at h
        | some b2 =>
          rw [hb2] at h
          simp only at h
          rw [refineMixed1_length start is _ _ sg' fs' h, List.length_set]

theorem refineMixed2_length {cc : Mat → Option Bool} {T : Tableau} {ctx : Mat} :
    ∀ (is : List Nat) (sg : List RowSign) (fs : Firsts) (sg' : List RowSign) (fs' : Firsts),
      refineMixed2 cc T ctx is (sg, fs) = some (sg', fs') → sg'.length = sg.length
  | [], sg, fs, sg', fs', h => by
    simp only [refineMixed2, Option.some.injEq, Prod.mk.injEq] at h
    rw [← h.1]
  | i :: is, sg, fs, sg', fs', h => by
    simp only [refineMixed2] at h
    by_cases hm : signGet sg i ≠ .mixed
    · rw [if_pos hm] at h
      exact refineMixed2_length is sg fs sg' fs' h
    · rw [if_neg hm] at h
      by_cases hp : hasPositive (mrow T.s i) = true
      · simp only [hp, Bool.not_true, Bool.false_eq_true, if_false] at h
        cases hb : ccRow cc ctx (strictRow (mrow T.t i) T.den) with
        | none => rw [hb] at h; simp at h
        | some b =>
          rw [hb] at h
          cases b with
          | true =>
            simp only at h
            exact refineMixed2_length is _ _ sg' fs' h
          | false =>
            simp only at h
            rw [refineMixed2_length is _ _ sg' fs' h, List.length_set]
      · have hp' : hasPositive (mrow T.s i) = false := by simpa using hp
        simp only [hp', Bool.not_false, if_true] at h
        exact refineMixed2_length is sg fs sg' fs' h

/-! ### the second refinement -/

theorem refineMixed2_firsts {cc : Mat → Option Bool} {T : Tableau} {ctx : Mat} :
    ∀ (cnt i : Nat) (sg : List RowSign) (fs : Firsts) (sg' : List RowSign) (fs' : Firsts),
      refineMixed2 cc T ctx (List.range' i cnt) (sg, fs) = some (sg', fs') →
      NegInv i sg fs.neg → (fs.neg = none → FirstOf sg .mixed fs.mix) →
      NegInv (i + cnt) sg' fs'.neg ∧ (fs'.neg = none → FirstOf sg' .mixed fs'.mix)
  | 0, i, sg, fs, sg', fs', h, hn, hx => by
    simp only [List.range'_zero, refineMixed2, Option.some.injEq, Prod.mk.injEq] at h
    rw [← h.1, ← h.2]; exact ⟨hn, hx⟩
  | cnt + 1, i, sg, fs, sg', fs', h, hn, hx => by
    rw [List.range'_succ] at h
    simp only [refineMixed2] at h
    have e : i + (cnt + 1) = (i + 1) + cnt := by omega
    rw [e]
    by_cases hm : signGet sg i ≠ .mixed
    · rw [if_pos hm] at h
      exact refineMixed2_firsts cnt (i + 1) sg fs sg' fs' h (negInv_skip hn) hx
    · rw [if_neg hm] at h
      have hm' : signGet sg i = .mixed := by simpa using hm
      have hi : i < sg.length := signGet_lt_of_ne_unknown (by rw [hm']; decide)
      by_cases hp : hasPositive (mrow T.s i) = true
      · simp only [hp, Bool.not_true, Bool.false_eq_true, if_false] at h
        cases hb : ccRow cc ctx (strictRow (mrow T.t i) T.den) with
        | none => rw [hb] at h; simp at h
        | some b =>
          rw [hb] at h
          cases b with
          | true =>
            simp only at h
            have hF : fs.neg = none → fs.mix ≠ none := by
              intro hneg hmn
              have := hx hneg
              rw [hmn] at this
              exact this i hm'
            by_cases hmn : fs.mix = none
            · rw [if_pos hmn] at h
              have hnn : fs.neg ≠ none := fun hneg => hF hneg hmn
              exact refineMixed2_firsts cnt (i + 1) sg _ sg' fs' h (negInv_skip hn)
                (fun habs => absurd habs hnn)
            · rw [if_neg hmn] at h
              exact refineMixed2_firsts cnt (i + 1) sg fs sg' fs' h (negInv_skip hn) hx
          | false =>
            simp only at h
            have hneg := negInv_set (new := .negative) hi hn
            refine refineMixed2_firsts cnt (i + 1) _ _ sg' fs' h ?_ ?_
            · simpa using hneg
            · intro habs
              by_cases hnn : fs.neg = none
              · simp [hnn] at habs
              · simp [hnn] at habs
      · have hp' : hasPositive (mrow T.s i) = false := by simpa using hp
        simp only [hp', Bool.not_false, if_true] at h
        exact refineMixed2_firsts cnt (i + 1) sg fs sg' fs' h (negInv_skip hn) hx

/-! ### the whole analysis -/

/-- **`first_negative` and `first_mixed` after the sign analysis**: `fs.neg` is the first `NEGATIVE` row
    (`none`: there is none); when there is none, `fs.mix` is the first `MIXED` row (`none`: there is none). -/
theorem signAnalysis_firsts {cc : Mat → Option Bool} {nd : SolNode} {ctx : Mat}
    (hlen : nd.sign.length = nd.tab.t.length) {sg' : List RowSign} {fs' : Firsts}
    (h : signAnalysis cc nd ctx = some (sg', fs')) :
    FirstOf sg' .negative fs'.neg ∧ (fs'.neg = none → FirstOf sg' .mixed fs'.mix) := by
  obtain ⟨hn0, hx0⟩ := recomputeSigns_firsts nd hlen
  unfold signAnalysis at h
  simp only at h
  -- stage 1
  have stage1 : ∀ st1, (match (recomputeSigns nd).2.neg, (recomputeSigns nd).2.mix with
        | none, some fm => refineMixed1 cc nd.tab ctx fm (rangeFrom fm nd.tab.t.length) (recomputeSigns nd)
        | _, _ => some (recomputeSigns nd)) = some st1 →
      FirstOf st1.1 .negative st1.2.neg ∧ FirstOf st1.1 .mixed st1.2.mix := by
    intro st1 hst1
    split at hst1
    · rename_i fm hneg hmix
      rw [rangeFrom_eq] at hst1
      rw [hneg] at hn0; rw [hmix] at hx0
      have hN : NegInv fm (recomputeSigns nd).1 (recomputeSigns nd).2.neg := by
        rw [hneg]; exact ⟨hn0, fun k _ => hn0 k⟩
      have hM : MixInv fm (recomputeSigns nd).1 (recomputeSigns nd).2.mix := by
        rw [hmix]; exact hx0
      have := refineMixed1_firsts (cc := cc) (T := nd.tab) (ctx := ctx) fm (nd.tab.t.length - fm) fm
        (recomputeSigns nd).1 (recomputeSigns nd).2 st1.1 st1.2 hst1 hN hM
      obtain ⟨hN', hM'⟩ := this
      have hfm : fm < nd.tab.t.length := by
        have := signGet_lt_of_ne_unknown (sg := (recomputeSigns nd).1) (i := fm) (by rw [hx0.1]; decide)
        rw [(recomputeSigns_spec nd).1] at this; omega
      refine ⟨hN'.1, ?_⟩
      -- `MixInv` at the end of the list is `FirstOf`
      have hl1 : st1.1.length ≤ fm + (nd.tab.t.length - fm) := by
        have := refineMixed1_length (cc := cc) (T := nd.tab) (ctx := ctx) fm
          (List.range' fm (nd.tab.t.length - fm)) (recomputeSigns nd).1 (recomputeSigns nd).2 st1.1 st1.2 hst1
        rw [this, (recomputeSigns_spec nd).1]; omega
      cases hmx : st1.2.mix with
      | none =>
        rw [hmx] at hM'
        intro k
        by_cases hk : k < fm + (nd.tab.t.length - fm)
        · exact hM' k hk
        · rw [signGet_ge_length (by omega)]; decide
      | some j => rw [hmx] at hM'; exact hM'
    · simp only [Option.some.injEq] at hst1
      rw [← hst1]; exact ⟨hn0, hx0⟩
  split at h
  · exact absurd h (by simp)
  · rename_i st1 hst1
    obtain ⟨hn1, hx1⟩ := stage1 st1 hst1
    split at h
    · rename_i fm hneg hmix
      rw [rangeFrom_eq] at h
      have hN : NegInv fm st1.1 st1.2.neg := by
        rw [hneg] at hn1 ⊢; exact ⟨hn1, fun k _ => hn1 k⟩
      have := refineMixed2_firsts (cc := cc) (T := nd.tab) (ctx := ctx) (nd.tab.t.length - fm) fm
        st1.1 st1.2 sg' fs' h hN (fun _ => hx1)
      exact ⟨this.1.1, this.2⟩
    · simp only [Option.some.injEq] at h
      subst h
      exact ⟨hn1, fun _ => hx1⟩

end PPLV.PIPCore
