import PPLV.Solver.PendingProofsCanon

/-!
# C06 stage 3 (d), (c) — the simplex loop is correct for ANY pricing rule

* `rayPt t e θ`: the basic solution of a canonical tableau moved by `θ` along the non-basic column `e`
  (`basicPt t` = not moved); `rowVal_rayPt`, `dot_cost_rayPt`, `rayPt_nonneg`;
* `simplex_loop`: the invariant of `computeSimplexWith ch` for every chooser returning candidates;
* `optimal_bound`, `basic_solution`, `unbounded_ray`: what the two exits of the loop mean;
* `pricing_choice_irrelevant`, `pricing_same_answer`, `reoptimize_value_eq_fresh`.
-/
namespace PPLV.Solver.Pend
open PPLV.Lin PPLV.Solver.Tab

/-- a pricing rule that returns a candidate column, and 0 only when there is none -/
def ChooserOK (ch : Chooser) : Prop :=
  ∀ T cost base, (ch T cost base ≠ 0 → isCandidate cost (ch T cost base) = true) ∧
    (ch T cost base = 0 → ∀ j, isCandidate cost j = false)

theorem textbookChooser_ok : ChooserOK textbookChooser := fun _ cost _ =>
  ⟨(textbook_is_candidate cost).1, (textbook_is_candidate cost).2.mp⟩

theorem steepestEdgeExact_ok : ChooserOK steepestEdgeExact := fun T cost base =>
  ⟨(steepestEdgeExact_is_candidate T cost base).1, (steepestEdgeExact_is_candidate T cost base).2.mp⟩

theorem arbitraryEntering_ok (choice : List Row → Row → List Nat → Nat) : ChooserOK (arbitraryEntering choice) :=
  fun T cost base =>
    ⟨(arbitraryEntering_is_candidate choice T cost base).1, (arbitraryEntering_is_candidate choice T cost base).2.mp⟩

theorem chooserOf_ok (fc : Chooser) (hfc : ChooserOK fc) (p : Pricing) : ChooserOK (chooserOf fc p) := by
  cases p
  · exact hfc
  · exact steepestEdgeExact_ok
  · exact textbookChooser_ok

/-! ### points of a canonical tableau -/

/-- the row whose basic column is `j` -/
def rowOf (base : List Nat) (j : Nat) : Option Nat :=
  (List.range base.length).find? (fun i => base.getD i 0 == j)

theorem rowOf_some {base : List Nat} {j i : Nat} (h : rowOf base j = some i) :
    i < base.length ∧ base.getD i 0 = j := by
  unfold rowOf at h
  have h1 := List.mem_of_find?_eq_some h
  have h2 := List.find?_some h
  exact ⟨List.mem_range.mp h1, by simpa using h2⟩

theorem rowOf_none {base : List Nat} {j : Nat} (h : rowOf base j = none) :
    ∀ i, i < base.length → base.getD i 0 ≠ j := by
  unfold rowOf at h
  intro i hi
  have := List.find?_eq_none.mp h i (List.mem_range.mpr hi)
  simpa using this

theorem rowOf_base {t : Tab} (hC : Canon t) {i : Nat} (hi : i < t.T.length) :
    rowOf t.base (t.base.getD i 0) = some i := by
  cases h : rowOf t.base (t.base.getD i 0) with
  | none => exact absurd rfl (rowOf_none h i (by rw [hC.lenB]; exact hi))
  | some k =>
    obtain ⟨hk, hb⟩ := rowOf_some h
    rw [hC.lenB] at hk
    rw [hC.base_inj hk hi hb]

/-- the basic solution moved by `θ` along column `e` -/
def rayPt (t : Tab) (e : Nat) (θ : Rat) : Val := fun j =>
  if j = 0 then 1 else if j = e then θ else
    match rowOf t.base j with
    | some i => (-(((t.T.getD i []).get 0 : Int) : Rat) - (((t.T.getD i []).get e : Int) : Rat) * θ) /
        (((t.T.getD i []).get j : Int) : Rat)
    | none => 0

/-- the basic solution (moved by 0 along the sign column, which is never basic) -/
def basicPt (t : Tab) : Val := rayPt t (t.cost.length - 1) 0

theorem dot_eq_zero_of_support (r : List Int) (x : Val) (h : ∀ j, r.getD j 0 = 0 ∨ x j = 0) : dot r x = 0 := by
  induction r generalizing x with
  | nil => rfl
  | cons a as ih =>
    rw [dot_cons]
    have h0 := h 0
    simp only [List.getD_cons_zero] at h0
    have htail : dot as x.tail = 0 := ih x.tail (fun j => by
      have := h (j + 1)
      simpa [Val.tail] using this)
    rw [htail, add_zero]
    rcases h0 with h0 | h0
    · rw [h0]; simp
    · rw [h0]; simp

theorem rayPt_zero (t : Tab) (e : Nat) (θ : Rat) : rayPt t e θ 0 = 1 := by simp [rayPt]

theorem rayPt_e (t : Tab) (e : Nat) (θ : Rat) (he : e ≠ 0) : rayPt t e θ e = θ := by simp [rayPt, he]

theorem rayPt_basic {t : Tab} (hC : Canon t) (e : Nat) (θ : Rat) {i : Nat} (hi : i < t.T.length)
    (hne : t.base.getD i 0 ≠ e) :
    rayPt t e θ (t.base.getD i 0) =
      (-(((t.T.getD i []).get 0 : Int) : Rat) - (((t.T.getD i []).get e : Int) : Rat) * θ) /
        (((t.T.getD i []).get (t.base.getD i 0) : Int) : Rat) := by
  have hb := (hC.baseRange i hi).1
  unfold rayPt
  rw [if_neg (by omega), if_neg hne, rowOf_base hC hi]

theorem rayPt_nonbasic {t : Tab} (e : Nat) (θ : Rat) {j : Nat} (h0 : j ≠ 0) (he : j ≠ e)
    (hn : ∀ i, i < t.base.length → t.base.getD i 0 ≠ j) : rayPt t e θ j = 0 := by
  unfold rayPt
  rw [if_neg h0, if_neg he]
  cases h : rowOf t.base j with
  | none => rfl
  | some i => exact absurd (rowOf_some h).2 (hn i (rowOf_some h).1)

/-- every row of a canonical tableau vanishes at `rayPt t e θ` (`e ≥ 1` non-basic) -/
theorem rowVal_rayPt {t : Tab} (hC : Canon t) {e : Nat} (he : 1 ≤ e)
    (hnb : ∀ i, i < t.T.length → t.base.getD i 0 ≠ e) (θ : Rat) : Sol t.T (rayPt t e θ) := by
  intro i hi
  unfold rowVal
  set r := t.T.getD i [] with hr
  set b := t.base.getD i 0 with hb
  set x := rayPt t e θ with hx
  have hb1 := (hC.baseRange i hi).1
  have hbe : b ≠ e := hnb i hi
  have hrb : r.get b ≠ 0 := hC.basicNZ i hi
  have key := dot_update r (((x.update 0 0).update e 0)) b 0
  rw [dot_update r (x.update 0 0) e 0, dot_update r x 0 0] at key
  have hz : dot r (((x.update 0 0).update e 0).update b 0) = 0 := by
    apply dot_eq_zero_of_support
    intro j
    by_cases hj0 : j = 0
    · right; simp [Val.update, hj0]
    by_cases hje : j = e
    · right; simp [Val.update, hje]
    by_cases hjb : j = b
    · right; simp [Val.update, hjb]
    simp only [Val.update, hj0, hje, hjb, if_false]
    cases hro : rowOf t.base j with
    | none =>
      right
      exact rayPt_nonbasic e θ hj0 hje (rowOf_none hro)
    | some k =>
      left
      obtain ⟨hk, hkj⟩ := rowOf_some hro
      rw [hC.lenB] at hk
      have hki : k ≠ i := by
        intro h; rw [h] at hkj; exact hjb hkj.symm
      have := hC.basicCol k i hk hi hki
      rw [hkj] at this
      exact this
  rw [hz] at key
  have hx0 : x 0 = 1 := rayPt_zero t e θ
  have hxe : (x.update 0 0) e = θ := by
    simp only [Val.update]; rw [if_neg (by omega)]; exact rayPt_e t e θ (by omega)
  have hxb : ((x.update 0 0).update e 0) b = (-((r.get 0 : Int) : Rat) - ((r.get e : Int) : Rat) * θ) / ((r.get b : Int) : Rat) := by
    simp only [Val.update]; rw [if_neg hbe, if_neg (by omega)]
    exact rayPt_basic hC e θ hi hbe
  rw [hx0, hxe, hxb] at key
  have hrbq : ((r.get b : Int) : Rat) ≠ 0 := by exact_mod_cast hrb
  have e0 : ((r.getD 0 0 : Int) : Rat) = ((r.get 0 : Int) : Rat) := rfl
  have e1 : ((r.getD e 0 : Int) : Rat) = ((r.get e : Int) : Rat) := rfl
  have e2 : ((r.getD b 0 : Int) : Rat) = ((r.get b : Int) : Rat) := rfl
  rw [e0, e1, e2] at key
  have : dot r x = ((r.get 0 : Int) : Rat) + ((r.get e : Int) : Rat) * θ +
      ((r.get b : Int) : Rat) * ((-((r.get 0 : Int) : Rat) - ((r.get e : Int) : Rat) * θ) / ((r.get b : Int) : Rat)) := by
    linarith
  rw [this]
  field_simp
  ring

/-- the cost row at `rayPt t e θ` -/
theorem dot_cost_rayPt {t : Tab} (hC : Canon t) {e : Nat} (he : 1 ≤ e) (θ : Rat) :
    dot t.cost (rayPt t e θ) = ((t.cost.get 0 : Int) : Rat) + ((t.cost.get e : Int) : Rat) * θ := by
  set x := rayPt t e θ with hx
  have key := dot_update t.cost (x.update 0 0) e 0
  rw [dot_update t.cost x 0 0] at key
  have hz : dot t.cost ((x.update 0 0).update e 0) = 0 := by
    apply dot_eq_zero_of_support
    intro j
    by_cases hj0 : j = 0
    · right; simp [Val.update, hj0]
    by_cases hje : j = e
    · right; simp [Val.update, hje]
    simp only [Val.update, hj0, hje, if_false]
    cases hro : rowOf t.base j with
    | none => right; exact rayPt_nonbasic e θ hj0 hje (rowOf_none hro)
    | some k =>
      left
      obtain ⟨hk, hkj⟩ := rowOf_some hro
      rw [hC.lenB] at hk
      have := hC.costBasic k hk
      rw [hkj] at this
      exact this
  rw [hz] at key
  have hx0 : x 0 = 1 := rayPt_zero t e θ
  have hxe : (x.update 0 0) e = θ := by
    simp only [Val.update]; rw [if_neg (by omega)]; exact rayPt_e t e θ (by omega)
  rw [hx0, hxe] at key
  have e0 : ((t.cost.getD 0 0 : Int) : Rat) = ((t.cost.get 0 : Int) : Rat) := rfl
  have e1 : ((t.cost.getD e 0 : Int) : Rat) = ((t.cost.get e : Int) : Rat) := rfl
  rw [e0, e1] at key
  linarith

/-- non-negativity of `rayPt` when no row limits the column `e` -/
theorem rayPt_nonneg {t : Tab} (hC : Canon t) {e : Nat} (θ : Rat) (hθ : 0 ≤ θ)
    (hnb : ∀ i, i < t.T.length → t.base.getD i 0 ≠ e)
    (hel : ∀ i, i < t.T.length → eligible t.T t.base e i = false) (j : Nat) : 0 ≤ rayPt t e θ j := by
  by_cases hj0 : j = 0
  · rw [hj0, rayPt_zero]; norm_num
  by_cases hje : j = e
  · rw [hje, rayPt_e t e θ (by omega)]; exact hθ
  cases hro : rowOf t.base j with
  | none => rw [rayPt_nonbasic e θ hj0 hje (rowOf_none hro)]
  | some i =>
    obtain ⟨hi, hij⟩ := rowOf_some hro
    rw [hC.lenB] at hi
    rw [← hij, rayPt_basic hC e θ hi (hnb i hi)]
    apply ratio_step_nonneg _ _ _ _ (hC.basicNZ i hi) hθ (hC.feas i hi)
    rintro ⟨ha, hs⟩
    have : eligible t.T t.base e i = true := by
      unfold eligible
      simp only [Bool.and_eq_true, bne_iff_ne, beq_iff_eq]
      exact ⟨sgn_ne_zero ha, hs⟩
    rw [hel i hi] at this; cases this

/-- a valuation a tableau speaks about: `x 0 = 1`, the sign column 0, the variables non-negative -/
def NonnegPt (n : Nat) (x : Val) : Prop := x 0 = 1 ∧ x (n - 1) = 0 ∧ ∀ j, 1 ≤ j → j < n - 1 → 0 ≤ x j

/-- **the basic solution** of a canonical tableau is a non-negative solution with objective `c_0/c_last` -/
theorem basic_solution {t : Tab} (hC : Canon t) :
    Sol t.T (basicPt t) ∧ NonnegPt t.cost.length (basicPt t) ∧ objAt t.cost (basicPt t) = basicObj t.cost := by
  have hl := hC.len2
  have hnb : ∀ i, i < t.T.length → t.base.getD i 0 ≠ t.cost.length - 1 := fun i hi => by
    have := (hC.baseRange i hi).2; omega
  have hel : ∀ i, i < t.T.length → eligible t.T t.base (t.cost.length - 1) i = false := by
    intro i hi
    unfold eligible
    simp only [hC.lastZero i hi]
    rfl
  refine ⟨rowVal_rayPt hC (by omega) hnb 0, ⟨rayPt_zero _ _ _, ?_, fun j _ _ => ?_⟩, ?_⟩
  · unfold basicPt; exact rayPt_e t _ 0 (by omega)
  · exact rayPt_nonneg hC 0 (le_refl _) hnb hel j
  · unfold objAt basicObj basicPt
    rw [dot_cost_rayPt hC (by omega) 0]; simp

/-- **no candidate column ⇒ optimal**: no non-negative solution has a larger objective than the
    basic solution -/
theorem optimal_bound {t : Tab} (hC : Canon t) (hno : ∀ j, isCandidate t.cost j = false) (x : Val)
    (hx : NonnegPt t.cost.length x) : objAt t.cost x ≤ basicObj t.cost := by
  have h0 := (textbook_is_candidate t.cost).2.mpr hno
  exact no_entering_bound t.cost h0 hC.signNZ hC.len2 x hx.1 hx.2.1 hx.2.2

/-- **a candidate column without exiting row ⇒ unbounded**: the ray `rayPt t e θ`, `θ ≥ 0`, stays in
    the solution set, stays non-negative, and its objective exceeds every bound -/
theorem unbounded_ray {t : Tab} (hC : Canon t) {e : Nat} (hc : isCandidate t.cost e = true)
    (hel : ∀ i, i < t.T.length → eligible t.T t.base e i = false) (M : Rat) :
    ∃ x, Sol t.T x ∧ NonnegPt t.cost.length x ∧ M < objAt t.cost x := by
  obtain ⟨he1, he2, hce, hnb⟩ := candidate_facts hC hc
  have hs := ((isCandidate_iff _ _).mp hc).2.2
  -- slope c_e / c_last > 0
  have hslope : (0 : Rat) < ((t.cost.get e : Int) : Rat) / ((t.cost.get (t.cost.length - 1) : Int) : Rat) := by
    rcases (sgn_eq_iff _ _ hce).mp hs with ⟨h1, h2⟩ | ⟨h1, h2⟩
    · exact div_pos (by exact_mod_cast h1) (by exact_mod_cast h2)
    · exact div_pos_of_neg_of_neg (by exact_mod_cast h1) (by exact_mod_cast h2)
  set σ := ((t.cost.get e : Int) : Rat) / ((t.cost.get (t.cost.length - 1) : Int) : Rat) with hσ
  set θ : Rat := max 0 ((M - basicObj t.cost) / σ + 1) with hθd
  have hθ : 0 ≤ θ := le_max_left _ _
  have hθ2 : (M - basicObj t.cost) / σ + 1 ≤ θ := le_max_right _ _
  have hlastnb : ∀ i, i < t.base.length → t.base.getD i 0 ≠ t.cost.length - 1 := fun i hi => by
    rw [hC.lenB] at hi
    have := (hC.baseRange i hi).2; omega
  refine ⟨rayPt t e θ, rowVal_rayPt hC he1 hnb θ, ⟨rayPt_zero _ _ _, ?_, fun j _ _ => rayPt_nonneg hC θ hθ hnb hel j⟩, ?_⟩
  · exact rayPt_nonbasic e θ (by have := hC.len2; omega) (by omega) hlastnb
  · unfold objAt
    rw [dot_cost_rayPt hC he1 θ, add_div]
    have : ((t.cost.get e : Int) : Rat) * θ / ((t.cost.get (t.cost.length - 1) : Int) : Rat) = σ * θ := by
      rw [hσ]; ring
    rw [this]
    have hb : ((t.cost.get 0 : Int) : Rat) / ((t.cost.get (t.cost.length - 1) : Int) : Rat) = basicObj t.cost := rfl
    rw [hb]
    have h1 : (M - basicObj t.cost) / σ * σ = M - basicObj t.cost := div_mul_cancel₀ _ (ne_of_gt hslope)
    have h2 : ((M - basicObj t.cost) / σ + 1) * σ ≤ θ * σ := mul_le_mul_of_nonneg_right hθ2 (le_of_lt hslope)
    nlinarith

/-! ### the loop -/

/-- the invariant of the simplex loop, for every pricing rule that returns candidates -/
theorem simplex_loop (ch : Chooser) (hch : ChooserOK ch) :
    ∀ (fuel : Nat) (t : Tab) (ok : Bool) (t' : Tab), Canon t → computeSimplexWith ch fuel t = some (ok, t') →
      Canon t' ∧ t'.cost.length = t.cost.length ∧ (∀ x, Sol t'.T x ↔ Sol t.T x) ∧
      (∀ x, Sol t.T x → objAt t'.cost x = objAt t.cost x) ∧
      (ok = true → ∀ j, isCandidate t'.cost j = false) ∧
      (ok = false → ∃ e, isCandidate t'.cost e = true ∧ ∀ i, i < t'.T.length → eligible t'.T t'.base e i = false) := by
  intro fuel
  induction fuel with
  | zero => intro t ok t' _ h; simp [computeSimplexWith] at h
  | succ fuel ih =>
    intro t ok t' hC h
    unfold computeSimplexWith at h
    simp only at h
    by_cases he0 : ch t.T t.cost t.base = 0
    · simp only [he0, beq_self_eq_true, if_true, Option.some.injEq, Prod.mk.injEq] at h
      obtain ⟨rfl, rfl⟩ := h
      exact ⟨hC, rfl, fun _ => Iff.rfl, fun _ _ => rfl, fun _ => (hch _ _ _).2 he0, fun h => by cases h⟩
    · have hne : (ch t.T t.cost t.base == 0) = false := by simpa using he0
      rw [hne] at h
      simp only [Bool.false_eq_true, if_false] at h
      have hcand := (hch t.T t.cost t.base).1 he0
      cases hex : exitingIndex t.T t.base (ch t.T t.cost t.base) with
      | none =>
        rw [hex] at h
        simp only [Option.some.injEq, Prod.mk.injEq] at h
        obtain ⟨rfl, rfl⟩ := h
        exact ⟨hC, rfl, fun _ => Iff.rfl, fun _ _ => rfl, (fun h => by cases h),
          fun _ => ⟨_, hcand, exitingIndex_none t.T t.base _ hex⟩⟩
      | some r =>
        rw [hex] at h
        simp only at h
        obtain ⟨hC', hlen⟩ := pivot_canon hC hcand hex
        obtain ⟨h1, h2, h3, h4, h5, h6⟩ := ih _ ok t' hC' h
        obtain ⟨hrl, hel, -⟩ := exitingIndex_some t.T t.base _ r hex
        have hsol : ∀ x, Sol (pivot t (ch t.T t.cost t.base) r).T x ↔ Sol t.T x :=
          pivotRows_solutions t.T _ r hrl (eligible_facts hel).1
        refine ⟨h1, by rw [h2, hlen], fun x => (h3 x).trans (hsol x), fun x hx => ?_, h5, h6⟩
        rw [h4 x ((hsol x).mpr hx), pivot_objAt hC hcand hex x hx]

/-- (d) **the choice of the entering column is irrelevant for correctness.**  For EVERY pricing rule
    returning candidate columns (textbook, steepest-edge exact, and whatever column the float variant
    picks), from a canonical feasible tableau, when the loop terminates:
    (a) the solution set is unchanged, (b) the final tableau is canonical and feasible, (c) the cost row
    denotes the same objective on the solution set;
    (d) `ok = true`: no non-negative solution beats `c'_0/c'_last`, and (e) the basic solution of the final
    tableau is a non-negative solution of the ORIGINAL tableau attaining it;
    (f) `ok = false`: non-negative solutions of the original tableau with arbitrarily large objective exist. -/
theorem pricing_choice_irrelevant (ch : Chooser) (hch : ChooserOK ch) (fuel : Nat) (t : Tab) (ok : Bool) (t' : Tab)
    (hC : Canon t) (h : computeSimplexWith ch fuel t = some (ok, t')) :
    (∀ x, Sol t'.T x ↔ Sol t.T x) ∧ Canon t' ∧ (∀ x, Sol t.T x → objAt t'.cost x = objAt t.cost x) ∧
    (ok = true → ∀ x, Sol t.T x → NonnegPt t.cost.length x → objAt t.cost x ≤ basicObj t'.cost) ∧
    (ok = true → Sol t.T (basicPt t') ∧ NonnegPt t.cost.length (basicPt t') ∧ objAt t.cost (basicPt t') = basicObj t'.cost) ∧
    (ok = false → ∀ M : Rat, ∃ x, Sol t.T x ∧ NonnegPt t.cost.length x ∧ M < objAt t.cost x) := by
  obtain ⟨h1, h2, h3, h4, h5, h6⟩ := simplex_loop ch hch fuel t ok t' hC h
  refine ⟨h3, h1, h4, fun hok x hx hn => ?_, fun hok => ?_, fun hok M => ?_⟩
  · rw [← h4 x hx]
    exact optimal_bound h1 (h5 hok) x (h2 ▸ hn)
  · obtain ⟨b1, b2, b3⟩ := basic_solution h1
    have hs := (h3 _).mp b1
    exact ⟨hs, h2 ▸ b2, by rw [← h4 _ hs]; exact b3⟩
  · obtain ⟨e, hc, hel⟩ := h6 hok
    obtain ⟨x, x1, x2, x3⟩ := unbounded_ray h1 hc hel M
    have hs := (h3 _).mp x1
    exact ⟨x, hs, h2 ▸ x2, by rw [← h4 _ hs]; exact x3⟩

/-- (c)/(d) **same answer from any two feasible bases and any two pricing rules.**  Two canonical
    tableaux with the same number of columns, the same solution set and cost rows denoting the same
    objective on it (e.g. the basis left by an earlier solve and the basis a fresh solve reaches; or the
    same tableau under two pricing rules): when both loops terminate they give the same status, and when
    optimal the same value. -/
theorem reoptimize_value_eq_fresh (ch1 ch2 : Chooser) (h1 : ChooserOK ch1) (h2 : ChooserOK ch2)
    (f1 f2 : Nat) (t1 t2 r1 r2 : Tab) (ok1 ok2 : Bool) (hC1 : Canon t1) (hC2 : Canon t2)
    (hlen : t1.cost.length = t2.cost.length) (hsol : ∀ x, Sol t1.T x ↔ Sol t2.T x)
    (hobj : ∀ x, Sol t1.T x → objAt t1.cost x = objAt t2.cost x)
    (hr1 : computeSimplexWith ch1 f1 t1 = some (ok1, r1)) (hr2 : computeSimplexWith ch2 f2 t2 = some (ok2, r2)) :
    ok1 = ok2 ∧ (ok1 = true → basicObj r1.cost = basicObj r2.cost) := by
  obtain ⟨-, -, -, d1, e1, u1⟩ := pricing_choice_irrelevant ch1 h1 f1 t1 ok1 r1 hC1 hr1
  obtain ⟨-, -, -, d2, e2, u2⟩ := pricing_choice_irrelevant ch2 h2 f2 t2 ok2 r2 hC2 hr2
  have key : ∀ (a b : Bool), ok1 = a → ok2 = b → a = b ∧ (a = true → basicObj r1.cost = basicObj r2.cost) := by
    intro a b ha hb
    cases a <;> cases b
    · exact ⟨rfl, fun h => by cases h⟩
    · -- run 1 unbounded, run 2 optimal: impossible
      exfalso
      obtain ⟨x, x1, x2, x3⟩ := u1 ha (basicObj r2.cost)
      have := d2 hb x ((hsol x).mp x1) (hlen ▸ x2)
      rw [← hobj x x1] at this
      linarith
    · exfalso
      obtain ⟨x, x1, x2, x3⟩ := u2 hb (basicObj r1.cost)
      have := d1 ha x ((hsol x).mpr x1) (hlen ▸ x2)
      rw [hobj x ((hsol x).mpr x1)] at this
      linarith
    · refine ⟨rfl, fun _ => ?_⟩
      obtain ⟨p1, p2, p3⟩ := e1 ha
      obtain ⟨q1, q2, q3⟩ := e2 hb
      have a1 := d2 hb _ ((hsol _).mp p1) (hlen ▸ p2)
      rw [← hobj _ p1, p3] at a1
      have a2 := d1 ha _ ((hsol _).mpr q1) (hlen ▸ q2)
      rw [hobj _ ((hsol _).mpr q1), q3] at a2
      linarith
  exact key ok1 ok2 rfl rfl

/-- (d) two pricing rules on the same tableau: same status and same optimal value -/
theorem pricing_same_answer (ch1 ch2 : Chooser) (h1 : ChooserOK ch1) (h2 : ChooserOK ch2)
    (f1 f2 : Nat) (t r1 r2 : Tab) (ok1 ok2 : Bool) (hC : Canon t)
    (hr1 : computeSimplexWith ch1 f1 t = some (ok1, r1)) (hr2 : computeSimplexWith ch2 f2 t = some (ok2, r2)) :
    ok1 = ok2 ∧ (ok1 = true → basicObj r1.cost = basicObj r2.cost) :=
  reoptimize_value_eq_fresh ch1 ch2 h1 h2 f1 f2 t t r1 r2 ok1 ok2 hC hC rfl (fun _ => Iff.rfl) (fun _ _ => rfl) hr1 hr2

end PPLV.Solver.Pend
