import PPLV.Solver.PendingProofsSecond
import PPLV.Solver.PendingProofsErase

/-!
# C06 stage 3 (b1), part 1 — what `parse_constraints` decides about each constraint

* `ICon.holds`, `csSem`: the meaning of the constraints of `input_cs`;
* `classify_cases`: the defining conditions of the classes of the table at :624–:640;
* `trivTrue_holds`, `trivFalse_not_holds`, `nonneg_of_class`, `m7_holds_iff`: what a class says about
  the points satisfying the constraint (a variable is left unsplit only when a constraint forces it
  to be non-negative; a dropped constraint is a tautology or exactly that non-negativity);
* `parse_spec`: the outputs of `parse_constraints` as functions of the classes.
-/
namespace PPLV.Solver.Pend
open PPLV.Lin PPLV.Solver.Tab

def ICon.holds (c : ICon) (x : Val) : Prop :=
  if c.isEq then dot c.coeffs x + (c.k : Rat) = 0 else 0 ≤ dot c.coeffs x + (c.k : Rat)

/-- the solution set of a list of `input_cs` constraints -/
def csSem (cs : List ICon) (x : Val) : Prop := ∀ c ∈ cs, c.holds x

theorem dot_map_neg' (as : List Int) (w : Val) : dot (as.map (- ·)) w = - dot as w := by
  induction as generalizing w with
  | nil => simp
  | cons a as ih => simp only [List.map_cons, dot_cons, ih]; push_cast; ring

/-- `csSem` is the set `sem` of the rows the reference judges (`ICon.toCons`) -/
theorem csSem_iff_Sat (cs : List ICon) (x : Val) : csSem cs x ↔ Sat (cs.flatMap ICon.toCons) x := by
  unfold csSem Sat
  constructor
  · intro h r hr
    obtain ⟨c, hc, hrc⟩ := List.mem_flatMap.mp hr
    have := h c hc
    unfold ICon.holds at this
    unfold ICon.toCons at hrc
    by_cases he : c.isEq = true
    · simp only [he, if_true] at this hrc
      simp only [eqRows, List.mem_cons, List.not_mem_nil, or_false] at hrc
      rcases hrc with rfl | rfl
      · simp only [Con.sat, Con.eval, Bool.false_eq_true, if_false]; rw [this]
      · simp only [Con.sat, Con.eval, Bool.false_eq_true, if_false, dot_map_neg']
        push_cast; linarith
    · simp only [he, Bool.false_eq_true, if_false] at this hrc
      simp only [geRow, List.mem_cons, List.not_mem_nil, or_false] at hrc
      subst hrc
      simpa [Con.sat, Con.eval] using this
  · intro h c hc
    unfold ICon.holds
    by_cases he : c.isEq = true
    · simp only [he, if_true]
      have h1 := h ⟨c.coeffs, c.k, false⟩ (List.mem_flatMap.mpr ⟨c, hc, by simp [ICon.toCons, he, eqRows]⟩)
      have h2 := h ⟨c.coeffs.map (- ·), -c.k, false⟩ (List.mem_flatMap.mpr ⟨c, hc, by simp [ICon.toCons, he, eqRows]⟩)
      simp only [Con.sat, Con.eval, Bool.false_eq_true, if_false, dot_map_neg'] at h1 h2
      push_cast at h2
      linarith
    · simp only [he, Bool.false_eq_true, if_false]
      have h1 := h ⟨c.coeffs, c.k, false⟩ (List.mem_flatMap.mpr ⟨c, hc, by simp [ICon.toCons, he, geRow]⟩)
      simpa [Con.sat, Con.eval] using h1

/-! ### rows with at most one non-zero coefficient -/

theorem firstNonzero_none {cs : List Int} (h : firstNonzero cs = none) : ∀ j, cs.getD j 0 = 0 := by
  intro j
  unfold firstNonzero at h
  by_cases hj : j < cs.length
  · have := List.find?_eq_none.mp h j (List.mem_range.mpr hj)
    simpa using this
  · rw [List.getD_eq_getElem?_getD, List.getElem?_eq_none (by omega)]; rfl

theorem firstNonzero_some {cs : List Int} {v : Nat} (h : firstNonzero cs = some v) :
    v < cs.length ∧ cs.getD v 0 ≠ 0 ∧ ∀ j, j < v → cs.getD j 0 = 0 := by
  unfold firstNonzero at h
  have h1 := List.mem_of_find?_eq_some h
  have h2 := List.find?_some h
  refine ⟨List.mem_range.mp h1, by simpa using h2, fun j hj => ?_⟩
  rw [List.find?_eq_some_iff_append] at h
  obtain ⟨-, as, bs, hab, hall⟩ := h
  -- the elements before v in `range` are exactly 0..v-1
  have hlen : as.length = v := by
    have h3 : (List.range cs.length)[as.length]? = some v := by rw [hab]; simp
    rw [List.getElem?_range (by
      have : as.length < (List.range cs.length).length := by rw [hab]; simp
      simpa using this)] at h3
    simpa using h3
  have hjm : j ∈ as := by
    have h4 : (List.range cs.length)[j]? = some j := List.getElem?_range (by have := List.mem_range.mp h1; omega)
    rw [hab, List.getElem?_append_left (by omega)] at h4
    exact List.mem_of_getElem? h4
  simpa using hall j hjm

theorem drop_any_false {cs : List Int} {v : Nat} (h : (cs.drop (v+1)).any (· != 0) = false) :
    ∀ j, v < j → cs.getD j 0 = 0 := by
  intro j hj
  by_cases hjl : j < cs.length
  · have hget : (cs.drop (v+1))[j - (v+1)]? = some (cs.getD j 0) := by
      rw [List.getElem?_drop, show v + 1 + (j - (v + 1)) = j by omega, List.getD_eq_getElem?_getD,
        List.getElem?_eq_getElem hjl]
      rfl
    have hmem : cs.getD j 0 ∈ cs.drop (v+1) := List.mem_of_getElem? hget
    have := List.any_eq_false.mp h _ hmem
    simpa using this
  · rw [List.getD_eq_getElem?_getD, List.getElem?_eq_none (by omega)]; rfl

/-- a row whose only non-zero coefficient is at `v` -/
theorem dot_single (cs : List Int) (v : Nat) (x : Val) (h : ∀ j, j ≠ v → cs.getD j 0 = 0) :
    dot cs x = ((cs.getD v 0 : Int) : Rat) * x v := by
  have key := dot_update cs x v 0
  have hz : dot cs (x.update v 0) = 0 := by
    apply dot_eq_zero_of_support
    intro j
    by_cases hj : j = v
    · right; simp [Val.update, hj]
    · left; exact h j hj
  rw [hz] at key
  linarith

/-- `Single c v`: the only non-zero coefficient of `c` is at `v` -/
def Single (c : ICon) (v : Nat) : Prop :=
  v < c.coeffs.length ∧ c.coeffs.getD v 0 ≠ 0 ∧ ∀ j, j ≠ v → c.coeffs.getD j 0 = 0

theorem single_of {c : ICon} {v : Nat} (h1 : firstNonzero c.coeffs = some v)
    (h2 : (c.coeffs.drop (v+1)).any (· != 0) = false) : Single c v := by
  obtain ⟨a, b, d⟩ := firstNonzero_some h1
  refine ⟨a, b, fun j hj => ?_⟩
  rcases Nat.lt_or_gt_of_ne hj with h | h
  · exact d j h
  · exact drop_any_false h2 j h

/-! ### the classes -/

theorem sgn_lt_zero_iff (a : Int) : sgn a < 0 ↔ a < 0 := by
  unfold sgn; split <;> (try split) <;> omega

theorem sgn_pos_iff (a : Int) : 0 < sgn a ↔ 0 < a := by
  unfold sgn; split <;> (try split) <;> omega

theorem sgn_eq_zero_iff' (a : Int) : sgn a = 0 ↔ a = 0 := by
  unfold sgn; split <;> (try split) <;> omega

theorem sgn_vals (a : Int) : (a < 0 ∧ sgn a = -1) ∨ (a = 0 ∧ sgn a = 0) ∨ (0 < a ∧ sgn a = 1) := by
  unfold sgn; split <;> (try split) <;> omega

/-- the decision tree of `classify` -/
theorem classify_inv (c : ICon) (cls : CClass) (v : Nat) (h : classify c = (cls, v)) :
    (firstNonzero c.coeffs = none ∧
      ((cls = .trivFalse ∧ ((!c.isEq && decide (c.k < 0)) || (c.isEq && c.k != 0)) = true) ∨
       (cls = .trivTrue ∧ ((!c.isEq && decide (c.k < 0)) || (c.isEq && c.k != 0)) = false))) ∨
    (firstNonzero c.coeffs = some v ∧
      ((cls = .many ∧ (c.coeffs.drop (v+1)).any (· != 0) = true) ∨
       ((c.coeffs.drop (v+1)).any (· != 0) = false ∧
        ((cls = .m13 ∧ sgn (c.coeffs.getD v 0) = sgn c.k) ∨
         (sgn (c.coeffs.getD v 0) ≠ sgn c.k ∧
          ((cls = .m45 ∧ c.isEq = true) ∨
           (c.isEq = false ∧
            ((cls = .m6 ∧ sgn c.k < 0) ∨
             (¬ sgn c.k < 0 ∧
              ((cls = .m7 ∧ sgn (c.coeffs.getD v 0) > 0) ∨
               (cls = .m89 ∧ ¬ sgn (c.coeffs.getD v 0) > 0))))))))))) := by
  unfold classify at h
  cases hf : firstNonzero c.coeffs with
  | none =>
    rw [hf] at h
    simp only at h
    left
    refine ⟨rfl, ?_⟩
    by_cases hb : ((!c.isEq && decide (c.k < 0)) || (c.isEq && c.k != 0)) = true
    · rw [if_pos hb] at h
      simp only [Prod.mk.injEq] at h
      left; exact ⟨h.1.symm, hb⟩
    · rw [if_neg hb] at h
      simp only [Prod.mk.injEq] at h
      right; exact ⟨h.1.symm, by simpa using hb⟩
  | some w =>
    rw [hf] at h
    simp only at h
    right
    by_cases hmany : (c.coeffs.drop (w+1)).any (· != 0) = true
    · rw [if_pos hmany] at h
      simp only [Prod.mk.injEq] at h
      obtain ⟨h1, h2⟩ := h
      subst h2
      exact ⟨rfl, Or.inl ⟨h1.symm, hmany⟩⟩
    · rw [if_neg hmany] at h
      have hm : (c.coeffs.drop (w+1)).any (· != 0) = false := by
        cases hh : (c.coeffs.drop (w+1)).any (· != 0)
        · rfl
        · exact absurd hh hmany
      by_cases h1 : (sgn (c.coeffs.getD w 0) == sgn c.k) = true
      · rw [if_pos h1] at h
        simp only [Prod.mk.injEq] at h
        obtain ⟨h3, h2⟩ := h
        subst h2
        exact ⟨rfl, Or.inr ⟨hm, Or.inl ⟨h3.symm, beq_iff_eq.mp h1⟩⟩⟩
      · rw [if_neg h1] at h
        have hne : sgn (c.coeffs.getD w 0) ≠ sgn c.k := fun he => h1 (beq_iff_eq.mpr he)
        by_cases he : c.isEq = true
        · rw [if_pos he] at h
          simp only [Prod.mk.injEq] at h
          obtain ⟨h3, h2⟩ := h
          subst h2
          exact ⟨rfl, Or.inr ⟨hm, Or.inr ⟨hne, Or.inl ⟨h3.symm, he⟩⟩⟩⟩
        · rw [if_neg he] at h
          have he' : c.isEq = false := by
            cases hh : c.isEq
            · rfl
            · exact absurd hh he
          by_cases h2 : sgn c.k < 0
          · rw [if_pos h2] at h
            simp only [Prod.mk.injEq] at h
            obtain ⟨h3, h4⟩ := h
            subst h4
            exact ⟨rfl, Or.inr ⟨hm, Or.inr ⟨hne, Or.inr ⟨he', Or.inl ⟨h3.symm, h2⟩⟩⟩⟩⟩
          · rw [if_neg h2] at h
            have h2' : ¬ sgn c.k < 0 := h2
            by_cases h5 : sgn (c.coeffs.getD w 0) > 0
            · rw [if_pos h5] at h
              simp only [Prod.mk.injEq] at h
              obtain ⟨h3, h4⟩ := h
              subst h4
              exact ⟨rfl, Or.inr ⟨hm, Or.inr ⟨hne, Or.inr ⟨he', Or.inr ⟨h2', Or.inl ⟨h3.symm, h5⟩⟩⟩⟩⟩⟩
            · rw [if_neg h5] at h
              simp only [Prod.mk.injEq] at h
              obtain ⟨h3, h4⟩ := h
              subst h4
              exact ⟨rfl, Or.inr ⟨hm, Or.inr ⟨hne, Or.inr ⟨he', Or.inr ⟨h2', Or.inr ⟨h3.symm, h5⟩⟩⟩⟩⟩⟩

/-- all coefficients zero -/
theorem classify_triv {c : ICon} {cls : CClass} {v : Nat} (h : classify c = (cls, v))
    (hc : cls = .trivTrue ∨ cls = .trivFalse) :
    (∀ j, c.coeffs.getD j 0 = 0) ∧ (cls = .trivTrue ↔ (if c.isEq then c.k = 0 else 0 ≤ c.k)) := by
  rcases classify_inv c cls v h with ⟨hf, hcase⟩ | ⟨-, hcase⟩
  · refine ⟨firstNonzero_none hf, ?_⟩
    rcases hcase with ⟨hcl, hb⟩ | ⟨hcl, hb⟩
    · subst hcl
      refine ⟨(fun h => by cases h), fun hk => ?_⟩
      exfalso
      cases he : c.isEq <;> simp [he] at hb hk <;> omega
    · subst hcl
      refine ⟨fun _ => ?_, fun _ => rfl⟩
      cases he : c.isEq <;> simp [he] at hb ⊢ <;> omega
  · exfalso
    have hcls : cls ≠ .trivTrue ∧ cls ≠ .trivFalse := by
      rcases hcase with ⟨rfl, -⟩ | ⟨-, hcase⟩
      · exact ⟨by decide, by decide⟩
      rcases hcase with ⟨rfl, -⟩ | ⟨-, hcase⟩
      · exact ⟨by decide, by decide⟩
      rcases hcase with ⟨rfl, -⟩ | ⟨-, hcase⟩
      · exact ⟨by decide, by decide⟩
      rcases hcase with ⟨rfl, -⟩ | ⟨-, hcase⟩
      · exact ⟨by decide, by decide⟩
      rcases hcase with ⟨rfl, -⟩ | ⟨rfl, -⟩
      · exact ⟨by decide, by decide⟩
      · exact ⟨by decide, by decide⟩
    rcases hc with hc | hc
    · exact hcls.1 hc
    · exact hcls.2 hc

/-- exactly one non-zero coefficient, and the sign conditions of the class -/
theorem classify_single {c : ICon} {cls : CClass} {v : Nat} (h : classify c = (cls, v))
    (hc : cls ≠ .trivTrue ∧ cls ≠ .trivFalse ∧ cls ≠ .many) :
    Single c v ∧
    (cls = .m45 → c.isEq = true ∧ sgn (c.coeffs.getD v 0) ≠ sgn c.k) ∧
    (cls = .m6 → c.isEq = false ∧ 0 < c.coeffs.getD v 0 ∧ c.k < 0) ∧
    (cls = .m7 → c.isEq = false ∧ 0 < c.coeffs.getD v 0 ∧ c.k = 0) ∧
    (cls = .m89 → c.isEq = false) := by
  rcases classify_inv c cls v h with ⟨-, ⟨rfl, -⟩ | ⟨rfl, -⟩⟩ | ⟨hf, hcase⟩
  · exact absurd rfl hc.2.1
  · exact absurd rfl hc.1
  · rcases hcase with ⟨rfl, -⟩ | ⟨hm, hcase⟩
    · exact absurd rfl hc.2.2
    · have hs := single_of hf hm
      refine ⟨hs, ?_⟩
      rcases hcase with ⟨rfl, -⟩ | ⟨hne, hcase⟩
      · exact ⟨(fun h => by cases h), (fun h => by cases h), (fun h => by cases h), fun h => by cases h⟩
      · rcases hcase with ⟨rfl, he⟩ | ⟨he, hcase⟩
        · exact ⟨fun _ => ⟨he, hne⟩, (fun h => by cases h), (fun h => by cases h), fun h => by cases h⟩
        · rcases hcase with ⟨rfl, hk⟩ | ⟨hk, hcase⟩
          · refine ⟨(fun h => by cases h), fun _ => ?_, (fun h => by cases h), fun h => by cases h⟩
            have hk' := (sgn_lt_zero_iff _).mp hk
            refine ⟨he, ?_, hk'⟩
            rcases sgn_vals (c.coeffs.getD v 0) with ⟨a1, a2⟩ | ⟨a1, a2⟩ | ⟨a1, a2⟩
            · exfalso; apply hne
              rcases sgn_vals c.k with ⟨b1, b2⟩ | ⟨b1, b2⟩ | ⟨b1, b2⟩
              · rw [a2, b2]
              · omega
              · omega
            · exact absurd a1 hs.2.1
            · exact a1
          · rcases hcase with ⟨rfl, ha⟩ | ⟨rfl, -⟩
            · refine ⟨(fun h => by cases h), (fun h => by cases h), fun _ => ?_, fun h => by cases h⟩
              have ha' := (sgn_pos_iff _).mp ha
              refine ⟨he, ha', ?_⟩
              rcases sgn_vals c.k with ⟨b1, b2⟩ | ⟨b1, b2⟩ | ⟨b1, b2⟩
              · exact absurd ((sgn_lt_zero_iff _).mpr b1) hk
              · exact b1
              · exfalso; apply hne
                rcases sgn_vals (c.coeffs.getD v 0) with ⟨a1, a2⟩ | ⟨a1, a2⟩ | ⟨a1, a2⟩
                · omega
                · omega
                · rw [a2, b2]
            · exact ⟨(fun h => by cases h), (fun h => by cases h), (fun h => by cases h), fun _ => he⟩

theorem dot_all_zero (cs : List Int) (x : Val) (h : ∀ j, cs.getD j 0 = 0) : dot cs x = 0 :=
  dot_eq_zero_of_support cs x (fun j => Or.inl (h j))

/-- a tautology holds everywhere -/
theorem trivTrue_holds {c : ICon} {v : Nat} (h : classify c = (.trivTrue, v)) (x : Val) : c.holds x := by
  obtain ⟨hz, hk⟩ := classify_triv h (Or.inl rfl)
  have hk := hk.mp rfl
  unfold ICon.holds
  rw [dot_all_zero _ x hz]
  by_cases he : c.isEq = true
  · rw [if_pos he] at hk ⊢; rw [hk]; simp
  · rw [if_neg he] at hk ⊢
    have : (0 : Rat) ≤ (c.k : Rat) := by exact_mod_cast hk
    linarith

/-- a trivially false row holds nowhere -/
theorem trivFalse_not_holds {c : ICon} {v : Nat} (h : classify c = (.trivFalse, v)) (x : Val) : ¬ c.holds x := by
  obtain ⟨hz, hk⟩ := classify_triv h (Or.inr rfl)
  have hk : ¬ (if c.isEq then c.k = 0 else 0 ≤ c.k) := fun hh => by cases hk.mpr hh
  unfold ICon.holds
  rw [dot_all_zero _ x hz]
  by_cases he : c.isEq = true
  · rw [if_pos he] at hk ⊢
    intro h0
    apply hk
    have : (c.k : Rat) = 0 := by linarith
    exact_mod_cast this
  · rw [if_neg he] at hk ⊢
    intro h0
    apply hk
    have : (0 : Rat) ≤ (c.k : Rat) := by linarith
    exact_mod_cast this

/-- the classes that make `parse_constraints` leave a variable unsplit force it to be non-negative -/
def forcesNonneg : CClass → Bool
  | .m45 | .m6 | .m7 => true
  | _ => false

theorem forcesNonneg_ne {cls : CClass} (hf : forcesNonneg cls = true) :
    cls ≠ .trivTrue ∧ cls ≠ .trivFalse ∧ cls ≠ .many := by
  cases cls <;> simp [forcesNonneg] at hf ⊢

theorem nonneg_of_class {c : ICon} {cls : CClass} {v : Nat} (h : classify c = (cls, v)) (hf : forcesNonneg cls = true)
    (x : Val) (hx : c.holds x) : 0 ≤ x v := by
  obtain ⟨hs, h45, h6, h7, -⟩ := classify_single h (forcesNonneg_ne hf)
  unfold ICon.holds at hx
  have ha := hs.2.1
  have haq : ((c.coeffs.getD v 0 : Int) : Rat) ≠ 0 := by exact_mod_cast ha
  rw [dot_single _ v x hs.2.2] at hx
  cases cls <;> simp only [forcesNonneg] at hf <;> try cases hf
  · -- m45: a x + k = 0, signs of a and k differ
    obtain ⟨he, hne⟩ := h45 rfl
    rw [if_pos he] at hx
    have hxv : x v = -(c.k : Rat) / ((c.coeffs.getD v 0 : Int) : Rat) := by
      field_simp; linarith
    rw [hxv]
    rcases sgn_vals (c.coeffs.getD v 0) with ⟨a1, a2⟩ | ⟨a1, a2⟩ | ⟨a1, a2⟩
    · have hk : 0 ≤ c.k := by
        rcases sgn_vals c.k with ⟨b1, b2⟩ | ⟨b1, b2⟩ | ⟨b1, b2⟩
        · exact absurd (a2.trans b2.symm) hne
        · omega
        · omega
      apply div_nonneg_of_nonpos
      · have : (0 : Rat) ≤ (c.k : Rat) := by exact_mod_cast hk
        linarith
      · exact_mod_cast le_of_lt a1
    · exact absurd a1 ha
    · have hk : c.k ≤ 0 := by
        rcases sgn_vals c.k with ⟨b1, b2⟩ | ⟨b1, b2⟩ | ⟨b1, b2⟩
        · omega
        · omega
        · exact absurd (a2.trans b2.symm) hne
      apply div_nonneg
      · have : (c.k : Rat) ≤ 0 := by exact_mod_cast hk
        linarith
      · exact_mod_cast le_of_lt a1
  · -- m6: a x + k ≥ 0, a > 0, k < 0
    obtain ⟨he, hapos, hk⟩ := h6 rfl
    rw [he] at hx
    simp only [Bool.false_eq_true, if_false] at hx
    have haq' : (0 : Rat) < ((c.coeffs.getD v 0 : Int) : Rat) := by exact_mod_cast hapos
    have hkq : (c.k : Rat) < 0 := by exact_mod_cast hk
    by_contra hneg
    have : x v < 0 := not_le.mp hneg
    nlinarith
  · -- m7: a x ≥ 0, a > 0
    obtain ⟨he, hapos, hk⟩ := h7 rfl
    rw [he] at hx
    simp only [Bool.false_eq_true, if_false] at hx
    rw [hk] at hx
    have haq' : (0 : Rat) < ((c.coeffs.getD v 0 : Int) : Rat) := by exact_mod_cast hapos
    by_contra hneg
    have : x v < 0 := not_le.mp hneg
    push_cast at hx
    nlinarith

/-- a dropped constraint of class 7 says exactly `x_v ≥ 0` -/
theorem m7_holds_iff {c : ICon} {v : Nat} (h : classify c = (.m7, v)) (x : Val) : c.holds x ↔ 0 ≤ x v := by
  constructor
  · exact nonneg_of_class h rfl x
  · intro hx
    obtain ⟨hs, -, -, h7, -⟩ := classify_single h (forcesNonneg_ne (cls := .m7) rfl)
    obtain ⟨he, ha, hk⟩ := h7 rfl
    unfold ICon.holds
    rw [he]
    simp only [Bool.false_eq_true, if_false]
    rw [dot_single _ v x hs.2.2, hk]
    have haq : (0 : Rat) < ((c.coeffs.getD v 0 : Int) : Rat) := by exact_mod_cast ha
    push_cast
    have := mul_nonneg (le_of_lt haq) hx
    linarith

theorem class_var_lt {c : ICon} {cls : CClass} {v : Nat} (h : classify c = (cls, v)) (hf : forcesNonneg cls = true) :
    v < c.coeffs.length :=
  (classify_single h (forcesNonneg_ne hf)).1.1

/-- a constraint enters the tableau unless it is a tautology or of class 7 -/
def tabC (c : ICon) : Bool :=
  match (classify c).1 with
  | .trivTrue | .m7 => false
  | _ => true

/-- … and gets a slack column when it is an inequality -/
def slackC (c : ICon) : Bool := tabC c && !c.isEq

end PPLV.Solver.Pend
