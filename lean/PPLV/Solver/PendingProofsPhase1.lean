import PPLV.Solver.PendingProofsSetup12
import PPLV.Solver.PendingProofsErase2

/-!
# C06 stage 3 — the first phase decides feasibility (fresh problem)

From a `Phase1Start` (canonical feasible tableau whose cost row is `−Σ artificials` on the solutions), for any
pricing rule returning candidates, when the loop terminates with `(ok, t)`:
* `ok = true` (the first phase is never "unbounded");
* `working_cost[0] ≠ 0` ⇒ the tableau has no non-negative solution with every artificial 0 (`TabSol`);
* `working_cost[0] = 0` ⇒ the basic solution of `t` is such a solution, and every artificial still in the base is
  0: `ArtInv` — the hypothesis of `erase_artificials_valid` / `_feasible_basis`.
-/
namespace PPLV.Solver.Pend
open PPLV.Lin PPLV.Solver.Tab

theorem basicPt_nonneg {t : Tab} (hC : Canon t) : ∀ j, 0 ≤ basicPt t j := by
  have hnb : ∀ i, i < t.T.length → t.base.getD i 0 ≠ t.cost.length - 1 := fun i hi => by
    have := (hC.baseRange i hi).2; omega
  have hel : ∀ i, i < t.T.length → eligible t.T t.base (t.cost.length - 1) i = false := by
    intro i hi
    unfold eligible
    simp only [hC.lastZero i hi]
    rfl
  exact fun j => rayPt_nonneg hC 0 (le_refl _) hnb hel j

theorem basicPt_basic {t : Tab} (hC : Canon t) {i : Nat} (hi : i < t.T.length) :
    basicPt t (t.base.getD i 0) =
      -(((t.T.getD i []).get 0 : Int) : Rat) / (((t.T.getD i []).get (t.base.getD i 0) : Int) : Rat) := by
  unfold basicPt
  rw [rayPt_basic hC _ 0 hi (by have := (hC.baseRange i hi).2; omega)]
  simp

theorem basicPt_nonbasic {t : Tab} (hC : Canon t) {j : Nat} (hj : t.cost.length - 1 ≤ j) : basicPt t j = 0 := by
  by_cases h : j = t.cost.length - 1
  · rw [h]; unfold basicPt; exact rayPt_e t _ 0 (by have := hC.len2; omega)
  · unfold basicPt
    apply rayPt_nonbasic _ 0 (by have := hC.len2; omega) h
    intro i hi
    rw [hC.lenB] at hi
    have := (hC.baseRange i hi).2; omega

theorem phase1_verdict (ch : Chooser) (hch : ChooserOK ch) (fuel : Nat) (s' : LPState) (b e : Nat)
    (hP : Phase1Start s' b e) (ok : Bool) (t : Tab) (h : computeSimplexWith ch fuel s'.tab = some (ok, t)) :
    ok = true ∧ Canon t ∧ t.cost.length = s'.numCols ∧ (∀ y, Sol t.T y ↔ Sol s'.tableau y) ∧
    (t.cost.get 0 ≠ 0 → ∀ y, ¬ TabSol s'.tableau s'.numCols b y) ∧
    (t.cost.get 0 = 0 → TabSol s'.tableau s'.numCols b (basicPt t) ∧ (b ≠ 0 → ArtInv b e t)) := by
  have hlen0 : s'.tab.cost.length = s'.numCols := hP.len
  obtain ⟨p1, p2, p3, p4, p5, p6⟩ := pricing_choice_irrelevant ch hch fuel s'.tab ok t hP.canon h
  obtain ⟨-, q2, -⟩ := simplex_loop ch hch fuel s'.tab ok t hP.canon h
  have hlen : t.cost.length = s'.numCols := by rw [q2]; exact hlen0
  have hn2 : 2 ≤ s'.numCols := by rw [← hlen0]; exact hP.canon.len2
  -- the first phase is bounded
  have hok : ok = true := by
    cases ok
    · exfalso
      obtain ⟨y, y1, y2, y3⟩ := p6 rfl 0
      have := (hP.cost y y1 (hlen0 ▸ y2)).1
      have e : objAt s'.tab.cost y = objAt s'.working_cost y := rfl
      rw [e] at y3; linarith
    · rfl
  obtain ⟨b1, b2, b3⟩ := p5 hok
  have b2' : NonnegPt s'.numCols (basicPt t) := hlen0 ▸ b2
  have hb3 : objAt s'.working_cost (basicPt t) = basicObj t.cost := b3
  have hle := (hP.cost _ b1 b2').1
  have hlastq : ((t.cost.get (t.cost.length - 1) : Int) : Rat) ≠ 0 := by exact_mod_cast p2.signNZ
  -- TabSol valuations are NonnegPt with objective 0
  have tabsol_obj : ∀ y, TabSol s'.tableau s'.numCols b y →
      Sol s'.tableau y ∧ NonnegPt s'.numCols y ∧ objAt s'.working_cost y = 0 := by
    rintro y ⟨y1, y2, y3, y4⟩
    have hn : NonnegPt s'.numCols y :=
      ⟨y1, y3 _ hP.startLe (by omega), fun j hj _ => y2 j hj⟩
    exact ⟨y4, hn, ((hP.cost y y4 hn).2).mpr (fun j h1 h2 => y3 j h1 (by omega))⟩
  refine ⟨hok, p2, hlen, p1, fun hne y hy => ?_, fun h0 => ?_⟩
  · obtain ⟨y4, hn, hobj⟩ := tabsol_obj y hy
    have hbound := p4 hok y y4 (hlen0.symm ▸ hn)
    have e : objAt s'.tab.cost y = objAt s'.working_cost y := rfl
    rw [e, hobj] at hbound
    -- basicObj ≤ 0 and ≥ 0, hence c_0 = 0
    have hz : basicObj t.cost = 0 := by rw [← hb3]; rw [← hb3] at hbound; linarith
    unfold basicObj at hz
    rcases div_eq_zero_iff.mp hz with h | h
    · exact hne (by exact_mod_cast h)
    · exact hlastq h
  · have hz : objAt s'.working_cost (basicPt t) = 0 := by
      rw [hb3]; unfold basicObj; rw [h0]; simp
    have hart := ((hP.cost _ b1 b2').2).mp hz
    refine ⟨⟨b2'.1, fun j _ => basicPt_nonneg p2 j, fun j h1 h2 => ?_, b1⟩, fun hb => ?_⟩
    · by_cases hj : j < s'.numCols - 1
      · exact hart j h1 hj
      · exact basicPt_nonbasic p2 (by rw [hlen]; omega)
    · obtain ⟨hb1, hb2⟩ := hP.bpos hb
      have hstart : artStart b s'.numCols = b := by unfold artStart; rw [if_pos hb]
      refine ⟨p2.lenB, fun i hi h1 h2 => ?_⟩
      have hzero := hart (t.base.getD i 0) (by rw [hstart]; exact h1) (by rw [← hP.eEnd]; exact h2)
      rw [basicPt_basic p2 hi] at hzero
      have hbq : (((t.T.getD i []).get (t.base.getD i 0) : Int) : Rat) ≠ 0 := by exact_mod_cast p2.basicNZ i hi
      rcases div_eq_zero_iff.mp hzero with h | h
      · have : (((t.T.getD i []).get 0 : Int) : Rat) = 0 := by linarith
        exact_mod_cast this
      · exact absurd h hbq

end PPLV.Solver.Pend
