import PPLV.Solver.PendingProofsSetup11

/-!
# C06 stage 3 — the set-up of a fresh problem hands a canonical feasible tableau to the first phase

`fresh_ctx`: the output of `ppcSetup` on a fresh state in terms of the insertion context `C`.
`setup_phase1_canon`: for a fresh problem whose `last_generator` is the origin (a problem never solved), the
tableau, `base` and first-phase cost row produced by the set-up are `Canon`; `end_artificials = numCols − 1`;
on the solutions, the cost row denotes `−Σ artificials`: it is ≤ 0 and 0 exactly when every artificial is 0.
-/
namespace PPLV.Solver.Pend
open PPLV.Lin PPLV.Solver.Tab

theorem ppcFill_fresh_eq2 (s : LPState) (hF : Fresh s) (p : Parsed) (C : InsCtx) (jj2 addArt : Nat)
    (e1 : s.input_cs = C.pend) (e2 : p.isTab = C.pend.map tabC) (e3 : p.isSat = C.isSat) (e4 : p.rows = C.N)
    (e0 : p.rows - p.isSat.count true + 0 = addArt)
    (e5 : 2 + (jj2 + p.slacks + addArt) = C.numCols)
    (e6 : C.numCols - addArt - 1 = C.SL) :
    ∃ s0, ppcFill s [] p p.isSat C.M jj2 = ppcTrivial s0 (if addArt > 0 then C.SL else 0) C.artOut.2.2.2 ∧
      s0.tableau = C.artOut.1 ∧ s0.base = C.artOut.2.2.1 ∧
      s0.working_cost = reexpressCost C.artOut.1 C.artOut.2.2.1 (C.artOut.2.1.set (C.numCols - 1) 1) ∧
      s0.numCols = C.numCols ∧ s0.mapping = C.M ∧ s0.external_space_dim = s.external_space_dim ∧
      s0.obj = s.obj ∧ s0.maximize = s.maximize ∧ s0.pricing = s.pricing := by
  unfold ppcFill
  simp only [hF.tab, hF.base0, hF.nc, hF.fp0, List.length_nil, Nat.zero_add, Nat.sub_zero, List.drop_zero,
    List.nil_append, pad_replicate]
  rw [e0, e5, e6, e4, e2, e3, e1]
  exact ⟨_, rfl, rfl, rfl, rfl, rfl, rfl, rfl, rfl, rfl, rfl⟩

/-- the set-up of a fresh state whose constraints parse, in terms of an insertion context -/
theorem fresh_ctx (s : LPState) (hF : Fresh s) (p : Parsed) (hp : parseConstraints s = some p) :
    ∃ C : InsCtx, C.pend = s.input_cs ∧ C.n = s.external_space_dim ∧ C.isSat = p.isSat ∧
      (∀ c ∈ C.pend, (classify c).1 = .m7 → C.nn.getD (classify c).2 false = true) ∧
      (∀ u, C.nn.getD u false = true → ∃ c ∈ C.pend, forcesNonneg (classify c).1 = true ∧ (classify c).2 = u) ∧
      C.numCols = C.SL + (C.N - C.isSat.count true) + 1 ∧
      ∃ s0, ppcSetup s = ppcTrivial s0 (if (C.N - C.isSat.count true) > 0 then C.SL else 0) C.artOut.2.2.2 ∧
        s0.tableau = C.artOut.1 ∧ s0.base = C.artOut.2.2.1 ∧
        s0.working_cost = reexpressCost C.artOut.1 C.artOut.2.2.1 (C.artOut.2.1.set (C.numCols - 1) 1) ∧
        s0.numCols = C.numCols ∧ s0.mapping = C.M ∧ s0.external_space_dim = s.external_space_dim ∧
        s0.obj = s.obj ∧ s0.maximize = s.maximize ∧ s0.pricing = s.pricing ∧ C.M = (ppcMapping s p.isNonneg 1).1 ∧
        C.nn = p.isNonneg ∧ C.j = (ppcMapping s p.isNonneg 1).2.1 := by
  have hsetup : ppcSetup s = ppcBuild s true p := by
    unfold ppcSetup; rw [ppcRecompute_fresh hF]; simp only [hp]
  have hnn0 : (if s.mapping.length > 0 then
        revFold (min (s.mapping.length - 1) s.external_space_dim)
          (fun i (l : List Bool) => if (s.mapping.getD (i+1) (0, 0)).2 == 0 then l.set i true else l)
          (List.replicate s.external_space_dim false)
      else List.replicate s.external_space_dim false) = List.replicate s.external_space_dim false := by
    rw [hF.map0]; simp [revFold]
  have hpi := parse_spec s _ hnn0
  rw [hF.fp0, List.drop_zero, hp] at hpi
  obtain ⟨h1, h2, h3, h4, h5, h6, h7⟩ := hpi
  simp only [List.drop_zero, List.replicate_zero, List.nil_append, Nat.zero_add] at h1 h2 h3 h6 h7
  obtain ⟨hMok, hjj⟩ := ppcMapping_fresh s p.isNonneg hF.int0 hF.map0 hF.npos
  have hSL : 1 + (ppcMapping s p.isNonneg 1).2.1 + (s.input_cs.filter slackC).length <
      2 + ((ppcMapping s p.isNonneg 1).2.2 + p.slacks + (p.rows - p.isSat.count true + 0)) := by
    rw [← h2, hjj]; omega
  let C : InsCtx :=
    { M := (ppcMapping s p.isNonneg 1).1, nn := p.isNonneg, n := s.external_space_dim,
      j := (ppcMapping s p.isNonneg 1).2.1,
      numCols := 2 + ((ppcMapping s p.isNonneg 1).2.2 + p.slacks + (p.rows - p.isSat.count true + 0)),
      pend := s.input_cs, isSat := p.isSat, hM := hMok, hlen := hF.lens, hSL := hSL }
  have hbuild : ppcBuild s true p =
      ppcFill s [] p p.isSat (ppcMapping s p.isNonneg 1).1 (ppcMapping s p.isNonneg 1).2.2 := by
    unfold ppcBuild
    simp only [ppcMerge_fresh hF, hF.nc]
    rfl
  have e6 : C.numCols - (p.rows - p.isSat.count true + 0) - 1 = C.SL := by
    show 2 + ((ppcMapping s p.isNonneg 1).2.2 + p.slacks + (p.rows - p.isSat.count true + 0)) -
        (p.rows - p.isSat.count true + 0) - 1 =
      1 + (ppcMapping s p.isNonneg 1).2.1 + (s.input_cs.filter slackC).length
    rw [← h2, hjj]; omega
  have hN : p.rows = C.N := h3
  have hncol : C.numCols = C.SL + (C.N - C.isSat.count true) + 1 := by
    show 2 + ((ppcMapping s p.isNonneg 1).2.2 + p.slacks + (p.rows - p.isSat.count true + 0)) =
      1 + (ppcMapping s p.isNonneg 1).2.1 + (s.input_cs.filter slackC).length +
        ((s.input_cs.filter tabC).length - p.isSat.count true) + 1
    rw [← h2, ← h3, hjj]; omega
  obtain ⟨s0, hfill, f1, f2, f3, f4, f5, f6, f7, f8, f9⟩ := ppcFill_fresh_eq2 s hF p C (ppcMapping s p.isNonneg 1).2.2
    (p.rows - p.isSat.count true + 0) rfl h1 rfl h3 rfl rfl e6
  have haa : p.rows - p.isSat.count true + 0 = C.N - C.isSat.count true := by rw [hN]; rfl
  rw [haa] at hfill
  refine ⟨C, rfl, rfl, rfl, ?_, ?_, hncol, s0, by rw [hsetup, hbuild, hfill], f1, f2, f3, f4, f5, f6, f7, f8, f9,
    rfl, rfl, rfl⟩
  · intro c hc h7c
    have hv : (classify c).2 < s.external_space_dim :=
      lt_of_lt_of_le (class_var_lt (cls := .m7) (by rw [← h7c]) rfl) (hF.lens c hc)
    exact h7 c hc h7c (by rw [List.length_replicate]; exact hv)
  · intro u hu
    rcases h6 u hu with h | h
    · exfalso
      rw [List.getD_eq_getElem?_getD] at h
      by_cases hul : u < s.external_space_dim
      · rw [List.getElem?_replicate_of_lt hul] at h; cases h
      · rw [List.getElem?_eq_none (by simpa using hul)] at h; cases h
    · exact h

theorem reexpressCost_eq (T : List Row) (base : List Nat) (c : Row) : reexpressCost T base c = reexpress T base c := rfl

/-- what the first phase receives from the set-up of a fresh, never solved problem -/
structure Phase1Start (s' : LPState) (b e : Nat) : Prop where
  canon : Canon s'.tab
  len : s'.working_cost.length = s'.numCols
  eEnd : e = s'.numCols - 1
  start1 : 1 ≤ artStart b s'.numCols
  startLe : artStart b s'.numCols ≤ s'.numCols - 1
  bpos : b ≠ 0 → 1 ≤ b ∧ b < e
  cost : ∀ y, Sol s'.tableau y → NonnegPt s'.numCols y →
    objAt s'.working_cost y ≤ 0 ∧
    (objAt s'.working_cost y = 0 ↔ ∀ j, artStart b s'.numCols ≤ j → j < s'.numCols - 1 → y j = 0)

theorem setup_phase1_canon (s : LPState) (hF : Fresh s) (hlg : s.last_generator = ⟨[], 1⟩)
    (s' : LPState) (b e : Nat) (h : ppcSetup s = .phase1 s' b e) : Phase1Start s' b e := by
  -- the constraints parse (otherwise the set-up is `.done`)
  cases hp : parseConstraints s with
  | none =>
    exfalso
    have : ppcSetup s = .done { s with status := .UNSATISFIABLE } := by
      unfold ppcSetup; rw [ppcRecompute_fresh hF]; simp only [hp]
    rw [this] at h; cases h
  | some p =>
    obtain ⟨C, c1, c2, c3, H1, H2, hnc, s0, hs0, f1, f2, f3, f4, f5, f6, -⟩ := fresh_ctx s hF p hp
    -- flags
    obtain ⟨q1, q2⟩ := parse_isSat s p hp
    rw [hF.fp0, List.drop_zero] at q1 q2
    have hsat : C.SatOK := by
      intro i hi hflag
      rw [c3] at hflag
      obtain ⟨-, g2, g3, g4⟩ := q2 i hflag
      rw [hlg] at g4
      rw [c1]
      exact ⟨g2, isSatisfied_origin _ g3 g4⟩
    have hlenS : C.isSat.length = C.pend.length := by rw [c3, c1]; exact q1
    have hTB := C.setup_canonTB hsat hlenS hnc
    have art := C.artOut_spec hsat hlenS hnc
    -- which branch of ppcTrivial
    rcases ppcTrivial_cases s0 (if (C.N - C.isSat.count true) > 0 then C.SL else 0) C.artOut.2.2.2
        (by rw [f6]; exact hF.npos) with ⟨hph, -⟩ | ⟨sd, hd, -⟩
    swap
    · rw [hs0, hd] at h; cases h
    rw [hs0, hph] at h
    simp only [Setup.phase1.injEq] at h
    obtain ⟨rfl, rfl, rfl⟩ := h
    -- the cost row before re-expression
    have hSL1 : 1 ≤ C.SL := by unfold InsCtx.SL InsCtx.V; omega
    have hSLn : C.SL ≤ C.numCols - 1 := by rw [hnc]; omega
    have hnc2 : 2 ≤ C.numCols := by rw [hnc]; omega
    set cost0 : Row := C.artOut.2.1.set (C.numCols - 1) 1 with hcost0
    have hc0len : cost0.length = C.numCols := by rw [hcost0, List.length_set]; exact art.lenC
    have hc0 : IsPhase1Cost cost0 C.SL := by
      intro j
      rw [hc0len, hcost0, getD_set_int, art.cost j]
      by_cases hj : j = C.numCols - 1
      · rw [if_pos ⟨hj, by rw [art.lenC]; omega⟩, if_pos hj]
      · rw [if_neg (fun a => hj a.1), if_neg hj]
    have hc0last : cost0.get (C.numCols - 1) ≠ 0 := by
      unfold Row.get; rw [hc0, hc0len, if_pos rfl]; decide
    obtain ⟨r1, r2, r3, r4⟩ := reexpress_spec hTB cost0 hc0len hc0last
    have hcanon : Canon s0.tab := by
      unfold LPState.tab
      rw [f1, f2, f3, reexpressCost_eq]
      exact hTB.toCanon _ r1 r2 r3
    have hstart : artStart (if (C.N - C.isSat.count true) > 0 then C.SL else 0) s0.numCols = C.SL := by
      unfold artStart
      rw [f4]
      by_cases ha : (C.N - C.isSat.count true) > 0
      · rw [if_pos ha, if_pos (by omega)]
      · rw [if_neg ha, if_neg (by simp)]; rw [hnc]; omega
    refine ⟨hcanon, by rw [f3, reexpressCost_eq, r1, f4], by rw [art.endA, f4], by rw [hstart]; exact hSL1,
      by rw [hstart, f4]; exact hSLn, fun hb => ?_, fun y hy hn => ?_⟩
    · by_cases ha : (C.N - C.isSat.count true) > 0
      · rw [if_pos ha, art.endA]; exact ⟨hSL1, by rw [hnc]; omega⟩
      · rw [if_neg ha] at hb; exact absurd rfl hb
    · rw [hstart, f3, reexpressCost_eq, f4]
      rw [f1] at hy
      rw [f4] at hn
      rw [r4 y hy]
      have := phase1_cost_sem cost0 C.SL hc0 hSL1 (by rw [hc0len]; exact hnc2) y (by rw [hc0len]; exact hn)
      rw [hc0len] at this
      exact this

end PPLV.Solver.Pend
