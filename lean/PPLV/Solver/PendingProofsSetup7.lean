import PPLV.Solver.PendingProofsSetup6

/-!
# C06 stage 3 (b1), part 7 — `tableau_setup_solutions`: the output of `ppcSetup` on a fresh state
-/
namespace PPLV.Solver.Pend
open PPLV.Lin PPLV.Solver.Tab

/-- `ppcFill` on a fresh state, in terms of the insertion context -/
theorem ppcFill_fresh_eq (s : LPState) (hF : Fresh s) (p : Parsed) (C : InsCtx) (jj2 addArt : Nat)
    (e1 : s.input_cs = C.pend) (e2 : p.isTab = C.pend.map tabC) (e3 : p.isSat = C.isSat) (e4 : p.rows = C.N)
    (e0 : p.rows - p.isSat.count true + 0 = addArt)
    (e5 : 2 + (jj2 + p.slacks + addArt) = C.numCols)
    (e6 : C.numCols - addArt - 1 = C.SL) :
    ∃ s0 e, ppcFill s [] p p.isSat C.M jj2 = ppcTrivial s0 (if addArt > 0 then C.SL else 0) e ∧
      s0.tableau = C.T2 (zeros C.numCols) C.fin.base ∧ s0.numCols = C.numCols ∧ s0.mapping = C.M ∧
      s0.external_space_dim = s.external_space_dim := by
  unfold ppcFill
  simp only [hF.tab, hF.base0, hF.nc, hF.fp0, List.length_nil, Nat.zero_add, Nat.sub_zero, List.drop_zero,
    List.nil_append, pad_replicate]
  rw [e0, e5, e6, e4, e2, e3, e1]
  exact ⟨_, _, rfl, rfl, rfl, rfl, rfl⟩

/-- what (b1) says about an output `(s', b)` of the set-up for the constraints `cs` in `n` variables -/
def SetupGood (cs : List ICon) (n : Nat) (s' : LPState) (b : Nat) : Prop :=
  (∀ y : Val, TabSol s'.tableau s'.numCols b y → csSem cs (proj s'.mapping y)) ∧
  (∀ x : Val, csSem cs x → ∃ y : Val, TabSol s'.tableau s'.numCols b y ∧ ∀ i, i < n → proj s'.mapping y i = x i)

/-- (b1) **the tableau set up for a fresh problem has exactly the solutions of the constraint system.**
    `s` is the state `is_lp_satisfiable()` hands to `process_pending_constraints()` for a problem that was
    never solved (`Fresh s`).  If the set-up stops with UNSATISFIABLE, the constraint system has no solution
    (a trivially false row).  Otherwise — ready for the first phase, or stopped with an empty tableau — the
    tableau `s'.tableau` over the columns (split problem variables, slacks, artificials) has, among the
    valuations with all columns non-negative and the artificial columns 0 (`TabSol`): (→) only solutions that
    project (`x_i = y(mapping i).first − y(mapping i).second`) into the solution set of the constraints, and
    (←) for every point of that set a solution projecting onto it. -/
theorem tableau_setup_solutions (s : LPState) (hF : Fresh s) :
    (∀ s', ppcSetup s = .done s' → s'.status = .UNSATISFIABLE → ∀ x, ¬ csSem s.input_cs x) ∧
    (∀ s' b e, ppcSetup s = .phase1 s' b e → SetupGood s.input_cs s.external_space_dim s' b) ∧
    (∀ s', ppcSetup s = .done s' → s'.status ≠ .UNSATISFIABLE → SetupGood s.input_cs s.external_space_dim s' 0) := by
  have hsetup : ppcSetup s = match parseConstraints s with
      | none => .done { s with status := .UNSATISFIABLE }
      | some p => ppcBuild s true p := by
    unfold ppcSetup; rw [ppcRecompute_fresh hF]; rfl
  have hnn0 : (if s.mapping.length > 0 then
        revFold (min (s.mapping.length - 1) s.external_space_dim)
          (fun i (l : List Bool) => if (s.mapping.getD (i+1) (0, 0)).2 == 0 then l.set i true else l)
          (List.replicate s.external_space_dim false)
      else List.replicate s.external_space_dim false) = List.replicate s.external_space_dim false := by
    rw [hF.map0]; simp [revFold]
  have hpi := parse_spec s _ hnn0
  rw [hF.fp0, List.drop_zero] at hpi
  cases hp : parseConstraints s with
  | none =>
    rw [hp] at hpi hsetup
    simp only at hsetup
    obtain ⟨c, hc, hcl⟩ := hpi
    have hc' : c ∈ s.input_cs := by simpa using hc
    refine ⟨fun s' _ _ x hx => ?_, fun s' b e h => ?_, fun s' h hne => ?_⟩
    · rcases hcc : classify c with ⟨cls, v⟩
      rw [hcc] at hcl
      simp only at hcl
      subst hcl
      exact trivFalse_not_holds hcc x (hx c hc')
    · rw [hsetup] at h; cases h
    · rw [hsetup] at h
      simp only [Setup.done.injEq] at h
      subst h
      exact absurd rfl hne
  | some p =>
    rw [hp] at hpi hsetup
    simp only at hsetup
    obtain ⟨h1, h2, h3, h4, h5, h6, h7⟩ := hpi
    simp only [List.drop_zero, List.replicate_zero, List.nil_append, Nat.zero_add] at h1 h2 h3 h6 h7
    obtain ⟨hMok, hjj⟩ := ppcMapping_fresh s p.isNonneg hF.int0 hF.map0 hF.npos
    -- the insertion context
    have hSL : 1 + (ppcMapping s p.isNonneg 1).2.1 + (s.input_cs.filter slackC).length <
        2 + ((ppcMapping s p.isNonneg 1).2.2 + p.slacks + (p.rows - p.isSat.count true + 0)) := by
      rw [← h2, hjj]; omega
    let C : InsCtx :=
      { M := (ppcMapping s p.isNonneg 1).1, nn := p.isNonneg, n := s.external_space_dim,
        j := (ppcMapping s p.isNonneg 1).2.1,
        numCols := 2 + ((ppcMapping s p.isNonneg 1).2.2 + p.slacks + (p.rows - p.isSat.count true + 0)),
        pend := s.input_cs, isSat := p.isSat, hM := hMok, hlen := hF.lens, hSL := hSL }
    have hbuild : ppcBuild s true p =
        ppcFill s [] p p.isSat (ppcMapping s p.isNonneg 1).1 (ppcMapping s p.isNonneg 1).2.2 := by
      unfold ppcBuild
      simp only [ppcMerge_fresh hF, hF.nc]
      rfl
    have e6 : C.numCols - (p.rows - p.isSat.count true + 0) - 1 = C.SL := by
      show 2 + ((ppcMapping s p.isNonneg 1).2.2 + p.slacks + (p.rows - p.isSat.count true + 0)) -
          (p.rows - p.isSat.count true + 0) - 1 =
        1 + (ppcMapping s p.isNonneg 1).2.1 + (s.input_cs.filter slackC).length
      rw [← h2, hjj]; omega
    obtain ⟨s0, e0, hfill, f1, f2, f3, f4⟩ := ppcFill_fresh_eq s hF p C (ppcMapping s p.isNonneg 1).2.2
      (p.rows - p.isSat.count true + 0) rfl h1 rfl h3 rfl rfl e6
    rw [hbuild, hfill] at hsetup
    -- the semantic core
    have H1 : ∀ c ∈ C.pend, (classify c).1 = .m7 → C.nn.getD (classify c).2 false = true := by
      intro c hc h7c
      have hv : (classify c).2 < s.external_space_dim :=
        lt_of_lt_of_le (class_var_lt (cls := .m7) (by rw [← h7c]) rfl) (hF.lens c hc)
      exact h7 c hc h7c (by rw [List.length_replicate]; exact hv)
    have H2 : ∀ u, C.nn.getD u false = true →
        ∃ c ∈ C.pend, forcesNonneg (classify c).1 = true ∧ (classify c).2 = u := by
      intro u hu
      rcases h6 u hu with h | h
      · exfalso
        rw [List.getD_eq_getElem?_getD] at h
        by_cases hul : u < s.external_space_dim
        · rw [List.getElem?_replicate_of_lt hul] at h; cases h
        · rw [List.getElem?_eq_none (by simpa using hul)] at h; cases h
      · exact h
    obtain ⟨core1, core2⟩ := C.setup_core (zeros C.numCols) C.fin.base H1 H2
    -- zero region: from the first artificial column (or the sign column) on
    have hstart : ∀ b, b = (if (p.rows - p.isSat.count true + 0) > 0 then C.SL else 0) →
        artStart b C.numCols = C.SL := by
      intro b hb
      unfold artStart
      by_cases ha : (p.rows - p.isSat.count true + 0) > 0
      · rw [if_pos ha] at hb
        have : C.SL ≠ 0 := by unfold InsCtx.SL InsCtx.V; omega
        rw [hb, if_pos this]
      · rw [if_neg ha] at hb
        rw [hb, if_neg (by simp), ← e6]; omega
    have good : ∀ s' b, s'.tableau = s0.tableau → s'.numCols = s0.numCols → s'.mapping = s0.mapping →
        artStart b C.numCols = C.SL → SetupGood s.input_cs s.external_space_dim s' b := by
      intro s' b g1 g2 g3 g4
      unfold SetupGood TabSol
      rw [g1, g2, g3, f1, f2, f3, g4]
      constructor
      · rintro y ⟨y1, y2, y3, y4⟩
        exact core1 y y1 y2 y3 y4
      · intro x hx
        obtain ⟨y, y1, y2, y3, y4, y5⟩ := core2 x hx
        exact ⟨y, ⟨y1, y2, fun j hj _ => y3 j hj, y4⟩, y5⟩
    rcases ppcTrivial_cases s0 (if (p.rows - p.isSat.count true + 0) > 0 then C.SL else 0) e0
        (by rw [f4]; exact hF.npos) with ⟨hph, -⟩ | ⟨sd, hd, d1, d2, d3, d4, d5⟩
    · rw [hph] at hsetup
      refine ⟨(fun s' h _ => by rw [hsetup] at h; cases h), fun s' b e h => ?_, (fun s' h _ => by rw [hsetup] at h; cases h)⟩
      rw [hsetup] at h
      simp only [Setup.phase1.injEq] at h
      obtain ⟨rfl, rfl, rfl⟩ := h
      exact good _ _ rfl rfl rfl (hstart _ rfl)
    · rw [hd] at hsetup
      refine ⟨fun s' h hu => ?_, (fun s' b e h => by rw [hsetup] at h; cases h), fun s' h _ => ?_⟩
      · rw [hsetup] at h
        simp only [Setup.done.injEq] at h
        subst h
        exact absurd hu d5
      · rw [hsetup] at h
        simp only [Setup.done.injEq] at h
        subst h
        -- the tableau is empty: no row, hence no artificial column, and the zero region starts at the sign column
        have hN : C.N = 0 := by
          have := (C.T2_rows (zeros C.numCols) C.fin.base).1
          rw [← f1, d4] at this
          simpa using this.symm
        have hrows0 : p.rows = 0 := by rw [h3]; exact hN
        have hb0 : (0 : Nat) = (if (p.rows - p.isSat.count true + 0) > 0 then C.SL else 0) := by
          rw [hrows0]; simp
        exact good _ 0 d1 d3 d2 (hstart 0 hb0)

end PPLV.Solver.Pend
