import PPLV.Solver.PIPCoreProofsPivot7
/-!
# C07 stage 2 — pivot proofs, part 8: `pivot` keeps the node well-formed; a concrete instance
-/
namespace PPLV.PIPCore.Piv

theorem boolGet_set_same {l : List Bool} {i : Nat} (x : Bool) (h : i < l.length) :
    boolGet (l.set i x) i = x := by
  unfold boolGet; simp [h]

theorem boolGet_set_ne {l : List Bool} {i k : Nat} (x : Bool) (h : i ≠ k) :
    boolGet (l.set i x) k = boolGet l k := by
  unfold boolGet; simp [h]

/-! ### "Update basis" keeps the bookkeeping consistent -/

theorem swapBasis_wf {nd : SolNode} (h : WF nd) {pi pj : Nat} (hpi : pi < nd.tab.s.length)
    (hpj : pj < nd.tab.ns) : WF (swapBasis nd pi pj) := by
  obtain ⟨ha1, ha2, ha3⟩ := h.vr_ok pi hpi
  obtain ⟨hb1, hb2, hb3⟩ := h.vc_ok pj hpj
  obtain ⟨a, hA⟩ : ∃ a, natGet nd.varRow pi = a := ⟨_, rfl⟩
  obtain ⟨b, hB⟩ : ∃ b, natGet nd.varColumn pj = b := ⟨_, rfl⟩
  rw [hA] at ha1 ha2 ha3
  rw [hB] at hb1 hb2 hb3
  have hab : a ≠ b := by
    rintro rfl; rw [ha2] at hb2; cases hb2
  have hpi' : pi < nd.varRow.length := by rw [h.vr_len]; exact hpi
  have hpj' : pj < nd.varColumn.length := by rw [h.vc_len]; exact hpj
  have hal : a < nd.basis.length := by rw [h.basis_len]; exact ha1
  have hbl : b < nd.basis.length := by rw [h.basis_len]; exact hb1
  have e : swapBasis nd pi pj =
      { nd with varRow := nd.varRow.set pi b, varColumn := nd.varColumn.set pj a,
                basis := (nd.basis.set a true).set b false,
                mapping := (nd.mapping.set a pj).set b pi } := by
    unfold swapBasis; simp only [hA, hB]
  rw [e]
  have gb_b : boolGet ((nd.basis.set a true).set b false) b = false :=
    boolGet_set_same false (by rw [List.length_set]; exact hbl)
  have gb_a : boolGet ((nd.basis.set a true).set b false) a = true := by
    rw [boolGet_set_ne _ (Ne.symm hab)]; exact boolGet_set_same true hal
  have gm_b : natGet ((nd.mapping.set a pj).set b pi) b = pi :=
    natGet_set_same pi (by rw [List.length_set]; exact hb1)
  have gm_a : natGet ((nd.mapping.set a pj).set b pi) a = pj := by
    rw [natGet_set_ne _ (Ne.symm hab)]; exact natGet_set_same pj ha1
  have gb_o : ∀ k, a ≠ k → b ≠ k →
      boolGet ((nd.basis.set a true).set b false) k = boolGet nd.basis k := by
    intro k h1 h2; rw [boolGet_set_ne _ h2, boolGet_set_ne _ h1]
  have gm_o : ∀ k, a ≠ k → b ≠ k →
      natGet ((nd.mapping.set a pj).set b pi) k = natGet nd.mapping k := by
    intro k h1 h2; rw [natGet_set_ne _ h2, natGet_set_ne _ h1]
  have lm : ((nd.mapping.set a pj).set b pi).length = nd.mapping.length := by
    rw [List.length_set, List.length_set]
  exact {
    rows_eq := h.rows_eq
    s_cols := h.s_cols
    t_cols := h.t_cols
    den_pos := h.den_pos
    vr_len := by dsimp only; rw [List.length_set]; exact h.vr_len
    vc_len := by dsimp only; rw [List.length_set]; exact h.vc_len
    sign_len := h.sign_len
    map_len := by dsimp only; rw [lm]; exact h.map_len
    basis_len := by dsimp only; rw [lm, List.length_set, List.length_set]; exact h.basis_len
    vr_ok := by
      intro i hi
      dsimp only at hi ⊢
      by_cases e : i = pi
      · subst e
        rw [natGet_set_same b hpi', lm]
        exact ⟨hb1, gb_b, gm_b⟩
      · rw [natGet_set_ne b (Ne.symm e), lm]
        obtain ⟨k1, k2, k3⟩ := h.vr_ok i hi
        have hka : a ≠ natGet nd.varRow i := by
          intro c; rw [← c, ha3] at k3; exact e k3.symm
        have hkb : b ≠ natGet nd.varRow i := by
          intro c; rw [← c, hb2] at k2; cases k2
        rw [gb_o _ hka hkb, gm_o _ hka hkb]
        exact ⟨k1, k2, k3⟩
    vc_ok := by
      intro j hj
      dsimp only at hj ⊢
      by_cases e : j = pj
      · subst e
        rw [natGet_set_same a hpj', lm]
        exact ⟨ha1, gb_a, gm_a⟩
      · rw [natGet_set_ne a (Ne.symm e), lm]
        obtain ⟨k1, k2, k3⟩ := h.vc_ok j hj
        have hka : a ≠ natGet nd.varColumn j := by
          intro c; rw [← c, ha2] at k2; cases k2
        have hkb : b ≠ natGet nd.varColumn j := by
          intro c; rw [← c, hb3] at k3; exact e k3.symm
        rw [gb_o _ hka hkb, gm_o _ hka hkb]
        exact ⟨k1, k2, k3⟩
    map_ok := by
      intro k hk
      dsimp only at hk ⊢
      rw [lm] at hk
      by_cases eb : k = b
      · subst eb
        rw [gb_b, gm_b]
        exact ⟨(fun c => by cases c), fun _ => ⟨hpi, natGet_set_same k hpi'⟩⟩
      by_cases ea : k = a
      · subst ea
        rw [gb_a, gm_a]
        exact ⟨fun _ => ⟨hpj, natGet_set_same k hpj'⟩, (fun c => by cases c)⟩
      rw [gb_o k (Ne.symm ea) (Ne.symm eb), gm_o k (Ne.symm ea) (Ne.symm eb)]
      obtain ⟨m1, m2⟩ := h.map_ok k hk
      constructor
      · intro c
        obtain ⟨m3, m4⟩ := m1 c
        refine ⟨m3, ?_⟩
        have : pj ≠ natGet nd.mapping k := by
          intro c'; rw [← c', hB] at m4; exact eb m4.symm
        rw [natGet_set_ne _ this]; exact m4
      · intro c
        obtain ⟨m3, m4⟩ := m2 c
        refine ⟨m3, ?_⟩
        have : pi ≠ natGet nd.mapping k := by
          intro c'; rw [← c', hA] at m4; exact ea m4.symm
        rw [natGet_set_ne _ this]; exact m4 }

/-! ### the sign list keeps its length -/

theorem foldl_preserves {α β : Type} (P : α → Prop) (step : α → β → α)
    (h : ∀ a b, P a → P (step a b)) : ∀ (l : List β) a, P a → P (l.foldl step a) := by
  intro l
  induction l with
  | nil => intro a ha; exact ha
  | cons b l ih => intro a ha; exact ih _ (h a b ha)

theorem pivotStepT_sign_len (tp : Row) (spp : Int) (pj i : Nat) (st : Tableau × List RowSign)
    (j : Nat) : (pivotStepT tp spp pj i st j).2.length = st.2.length := by
  obtain ⟨T, sg⟩ := st
  unfold pivotStepT
  dsimp only
  by_cases h2 : rget tp j = 0
  · rw [if_pos h2]
  · rw [if_neg h2]
    by_cases h3 : rget tp j * mget T.s i pj % spp ≠ 0
    · rw [if_pos h3]; exact List.length_set
    · rw [if_neg h3]; exact List.length_set

theorem pivotRowT_sign_len (tp : Row) (spp : Int) (pj : Nat) (st : Tableau × List RowSign)
    (i : Nat) : (pivotRowT tp spp pj st i).2.length = st.2.length := by
  unfold pivotRowT
  split
  · rfl
  · exact foldl_preserves (fun s => s.2.length = st.2.length) (pivotStepT tp spp pj i)
      (fun a b ha => (pivotStepT_sign_len tp spp pj i a b).trans ha) _ st rfl

theorem passTSt_sign_len (T0 : Tableau) (sg0 : List RowSign) (pi pj : Nat) :
    (passTSt T0 sg0 pi pj).2.length = sg0.length := by
  unfold passTSt
  exact foldl_preserves (fun s => s.2.length = sg0.length)
    (pivotRowT (mrow T0.t pi) (mget T0.s pi pj) pj)
    (fun a b ha => (pivotRowT_sign_len _ _ _ a b).trans ha) _ (passSTab T0 pi pj, sg0) rfl

theorem _root_.PPLV.PIPCore.WF.piv_with_sign {nd : SolNode} (h : WF nd) (sg : List RowSign)
    (hs : sg.length = nd.sign.length) : WF { nd with sign := sg } :=
  { h with sign_len := hs.trans h.sign_len }

/-- **the pivot keeps the node well-formed** -/
theorem pivot_wf {nd : SolNode} (h : WF nd) {pi pj : Nat} (hpi : pi < nd.tab.s.length)
    (hpj : pj < nd.tab.ns) (hspp : 0 < mget nd.tab.normalize.s pi pj) :
    WF (pivot nd pi pj) := by
  have hN := normalize_wf h
  have sh := normalize_shape nd.tab
  have hpi0 : pi < nd.tab.normalize.s.length := by rw [sh.1]; exact hpi
  have hpj0 : pj < nd.tab.normalize.ns := by rw [sh.2.2.1]; exact hpj
  obtain ⟨f, hF⟩ := passes_inv nd.tab.normalize (nd.sign.set pi .zero) hN.rows_eq hN.piv_sRows
    hN.piv_tRows hpj0 hspp
  have hn := idRow_s_len nd.tab.normalize pi pj
  have hW := (swapBasis_wf hN hpi0 hpj0).piv_with_sign
    (passTSt nd.tab.normalize (nd.sign.set pi .zero) pi pj).2
    ((passTSt_sign_len _ _ _ _).trans List.length_set)
  rw [pivot_eq]
  exact hW.piv_with_tab (pivotPasses nd.tab.normalize (nd.sign.set pi .zero) pi pj)
    (hF.s_len.trans hn) (hF.t_len.trans (hn.trans hN.rows_eq)) hF.ns_eq hF.nt_eq
    (hF.ns_eq ▸ hF.s_rows) (hF.nt_eq ▸ hF.t_rows)
    (by rw [hF.den_eq]; exact Int.mul_pos hF.f_pos hN.den_pos)

theorem pivot_wf' {nd : SolNode} (h : WF nd) {pi pj : Nat} (hpi : pi < nd.tab.s.length)
    (hpj : pj < nd.tab.ns) (hspp : 0 < mget nd.tab.s pi pj) : WF (pivot nd pi pj) :=
  pivot_wf h hpi hpj ((normalize_sign h pi pj).mpr hspp)

end PPLV.PIPCore.Piv
