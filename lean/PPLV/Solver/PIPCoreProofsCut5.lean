import PPLV.Solver.PIPCoreProofsCut4
import Mathlib.Tactic.Linarith
import Mathlib.Tactic.Ring
/-!
# C07 stage 2 — the cut step, part 5: the headline theorems about `generateCut` and `generateCuts`.

`CutStep qpre nd ctx nd' ctx'` bundles what a (sequence of) cut(s) guarantees, with
`q = extendArts nd.arts qpre` and `q' = extendArts nd'.arts qpre`; it is reflexive and transitive, so the
strategy `ALL` (a fold of cuts) is handled like a single cut.
-/
namespace PPLV.PIPCore

/-- what a sequence of cuts leading from `(nd, ctx)` to `(nd', ctx')` guarantees -/
structure CutStep (qpre : List Int) (nd : SolNode) (ctx : Mat) (nd' : SolNode) (ctx' : Mat) :
    Prop where
  arts_ext : ∃ new, nd'.arts = nd.arts ++ new ∧ nd'.tab.nt = nd.tab.nt + new.length
    ∧ extendArts nd'.arts qpre = extendArts new (extendArts nd.arts qpre)
  ns_eq : nd'.tab.ns = nd.tab.ns
  cons_eq : nd'.cons = nd.cons
  big_eq : nd'.big = nd.big
  map_le : nd.mapping.length ≤ nd'.mapping.length
  ctx_sat : CtxSat ctx (extendArts nd.arts qpre) → CtxSat ctx' (extendArts nd'.arts qpre)
  feas_ext : ∀ v, Feasible nd v (extendArts nd.arts qpre) →
    ∃ v', (∀ k, k < nd.mapping.length → v' k = v k) ∧ Feasible nd' v' (extendArts nd'.arts qpre)
  feas_res : ∀ v', Feasible nd' v' (extendArts nd'.arts qpre) →
    Feasible nd v' (extendArts nd.arts qpre)
  sign : SignAt nd (extendArts nd.arts qpre) → SignAt nd' (extendArts nd'.arts qpre)
  int : IntInv nd (extendArts nd.arts qpre) → IntInv nd' (extendArts nd'.arts qpre)

theorem CutStep.refl (qpre : List Int) (nd : SolNode) (ctx : Mat) : CutStep qpre nd ctx nd ctx :=
  ⟨⟨[], (List.append_nil _).symm, rfl, rfl⟩, rfl, rfl, rfl, le_refl _, fun h => h,
   fun v hv => ⟨v, fun _ _ => rfl, hv⟩, fun _ h => h, fun h => h, fun h => h⟩

theorem CutStep.trans {qpre : List Int} {nd1 nd2 nd3 : SolNode} {c1 c2 c3 : Mat}
    (h12 : CutStep qpre nd1 c1 nd2 c2) (h23 : CutStep qpre nd2 c2 nd3 c3) :
    CutStep qpre nd1 c1 nd3 c3 := by
  obtain ⟨n1, a1, t1, e1⟩ := h12.arts_ext
  obtain ⟨n2, a2, t2, e2⟩ := h23.arts_ext
  refine ⟨⟨n1 ++ n2, ?_, ?_, ?_⟩, h23.ns_eq.trans h12.ns_eq, h23.cons_eq.trans h12.cons_eq,
    h23.big_eq.trans h12.big_eq, le_trans h12.map_le h23.map_le,
    fun h => h23.ctx_sat (h12.ctx_sat h), ?_, fun v h => h12.feas_res v (h23.feas_res v h),
    fun h => h23.sign (h12.sign h), fun h => h23.int (h12.int h)⟩
  · rw [a2, a1, List.append_assoc]
  · rw [t2, t1, List.length_append]; omega
  · rw [e2, e1, Cut.extendArts_append]
  · intro v hv
    obtain ⟨v2, g2, f2⟩ := h12.feas_ext v hv
    obtain ⟨v3, g3, f3⟩ := h23.feas_ext v2 f2
    exact ⟨v3, fun k hk => (g3 k (lt_of_lt_of_le hk h12.map_le)).trans (g2 k hk), f3⟩

/-! ### one cut -/

/-- **`generateCut_step`**: items (a)-(d) for one call of `generate_cut` -/
theorem generateCut_step {n0 : Nat} {qpre : List Int} {nd : SolNode} {ctx : Mat} {index : Nat}
    (hs : CutSetting n0 qpre nd ctx) (hi : index < nd.tab.s.length) :
    CutSetting n0 qpre (generateCut nd ctx index).1 (generateCut nd ctx index).2
    ∧ CutStep qpre nd ctx (generateCut nd ctx index).1 (generateCut nd ctx index).2 := by
  obtain ⟨hs', hf, ⟨new, _, ha, hnt, hq⟩, hc⟩ := Cut.gc_main hs hi
  refine ⟨hs', ⟨new, ha, hnt, hq⟩, hf.ns_eq, hf.cons_eq, hf.big_eq, ?_, hc,
    Cut.feas_ext hs.wf hf hi, Cut.feas_res hs.wf hf, Cut.signAt_of_facts hs.wf hf,
    Cut.intInv_of_facts hs.wf hf hi⟩
  rw [hf.mapping_eq, List.length_append]; omega

/-- item (a), the details: at most one new artificial parameter, `ArtP.mk'` of the numerator
    `denom - mod`; its value is the floor `⌊e / den⌋`; the re-use branch is never taken -/
theorem generateCut_arts {n0 : Nat} {qpre : List Int} {nd : SolNode} {ctx : Mat} {index : Nat}
    (hs : CutSetting n0 qpre nd ctx) (hi : index < nd.tab.s.length) :
    (Cut.isParam nd index = false ∧ (generateCut nd ctx index).1.arts = nd.arts
      ∧ (generateCut nd ctx index).1.tab.nt = nd.tab.nt ∧ (generateCut nd ctx index).2 = ctx)
    ∨ (Cut.isParam nd index = true
      ∧ findArt nd.arts (ArtP.mk' (Cut.apNum nd index) nd.tab.den) = none
      ∧ (generateCut nd ctx index).1.arts = nd.arts ++ [ArtP.mk' (Cut.apNum nd index) nd.tab.den]
      ∧ (generateCut nd ctx index).1.tab.nt = nd.tab.nt + 1
      ∧ extendArts (generateCut nd ctx index).1.arts qpre
          = extendArts nd.arts qpre
              ++ [Cut.eVal nd index (extendArts nd.arts qpre) / nd.tab.den]
      ∧ (generateCut nd ctx index).2 = Cut.ctxP nd ctx index) := by
  rcases Cut.gc_cases hs hi with ⟨h, he⟩ | ⟨h, he⟩
  · left; rw [he]; exact ⟨h, rfl, rfl, rfl⟩
  · right; rw [he]
    exact ⟨h, Cut.findArt_none_of_setting hs hi, rfl, rfl, Cut.q_p hs, rfl⟩

/-! ### consequences of a `CutStep` for the result of the node -/

theorem Cut.lexLeFrom_congr_right (v w w' : Nat → Int) : ∀ (n a : Nat),
    (∀ k, k < a + n → w' k = w k) → lexLeFrom v w' a n → lexLeFrom v w a n
  | 0, _, _, _ => trivial
  | n + 1, a, h, hl => by
    have ha : w' a = w a := h a (by omega)
    rcases hl with h1 | ⟨h1, h2⟩
    · exact Or.inl (by rw [← ha]; exact h1)
    · exact Or.inr ⟨by rw [← ha]; exact h1,
        Cut.lexLeFrom_congr_right v w w' n (a + 1) (fun k hk => h k (by omega)) h2⟩

theorem CutStep.islexmin {qpre : List Int} {nd nd' : SolNode} {ctx ctx' : Mat}
    (hwf : WF nd) (h : CutStep qpre nd ctx nd' ctx') (x : List Int) :
    IsLexMin nd' (extendArts nd'.arts qpre) x → IsLexMin nd (extendArts nd.arts qpre) x := by
  rintro ⟨v, hv, hx, hmin⟩
  refine ⟨v, h.feas_res v hv, by rw [hx, h.ns_eq], fun w hw => ?_⟩
  obtain ⟨w', hag, hw'⟩ := h.feas_ext w hw
  have := hmin w' hw'
  rw [h.ns_eq] at this
  refine Cut.lexLeFrom_congr_right v w w' _ 0 (fun k hk => hag k ?_) this
  rw [hwf.map_len]; omega

theorem CutStep.infeasible {qpre : List Int} {nd nd' : SolNode} {ctx ctx' : Mat}
    (h : CutStep qpre nd ctx nd' ctx') :
    Infeasible nd' (extendArts nd'.arts qpre) → Infeasible nd (extendArts nd.arts qpre) := by
  rintro hinf ⟨v, hv⟩
  obtain ⟨v', _, hv'⟩ := h.feas_ext v hv
  exact hinf ⟨v', hv'⟩

theorem generateCut_islexmin {n0 : Nat} {qpre : List Int} {nd : SolNode} {ctx : Mat} {index : Nat}
    (hs : CutSetting n0 qpre nd ctx) (hi : index < nd.tab.s.length) (x : List Int) :
    IsLexMin (generateCut nd ctx index).1 (extendArts (generateCut nd ctx index).1.arts qpre) x →
    IsLexMin nd (extendArts nd.arts qpre) x :=
  (generateCut_step hs hi).2.islexmin hs.wf x

theorem generateCut_infeasible {n0 : Nat} {qpre : List Int} {nd : SolNode} {ctx : Mat}
    {index : Nat} (hs : CutSetting n0 qpre nd ctx) (hi : index < nd.tab.s.length) :
    Infeasible (generateCut nd ctx index).1 (extendArts (generateCut nd ctx index).1.arts qpre) →
    Infeasible nd (extendArts nd.arts qpre) :=
  (generateCut_step hs hi).2.infeasible

/-! ### the cutting strategies -/

theorem Cut.cuts_fold_step {n0 : Nat} {qpre : List Int} (n : Nat) :
    ∀ (is : List Nat) (nd : SolNode) (ctx : Mat),
      CutSetting n0 qpre nd ctx → n ≤ nd.tab.s.length → (∀ i ∈ is, i < n) →
      CutSetting n0 qpre
          (is.foldl (fun (st : SolNode × Mat) i => generateCut st.1 st.2 i) (nd, ctx)).1
          (is.foldl (fun (st : SolNode × Mat) i => generateCut st.1 st.2 i) (nd, ctx)).2
      ∧ CutStep qpre nd ctx
          (is.foldl (fun (st : SolNode × Mat) i => generateCut st.1 st.2 i) (nd, ctx)).1
          (is.foldl (fun (st : SolNode × Mat) i => generateCut st.1 st.2 i) (nd, ctx)).2
  | [], nd, ctx, hs, _, _ => ⟨hs, CutStep.refl qpre nd ctx⟩
  | i :: is, nd, ctx, hs, hn, his => by
    have hi : i < nd.tab.s.length := lt_of_lt_of_le (his i (by simp)) hn
    obtain ⟨hs1, hc1⟩ := generateCut_step hs hi
    rw [List.foldl_cons]
    obtain ⟨hs2, hc2⟩ := Cut.cuts_fold_step n is (generateCut nd ctx i).1 (generateCut nd ctx i).2
      hs1 (by rw [Lex.gc_s_length]; omega) (fun i' h' => his i' (by simp [h']))
    exact ⟨hs2, hc1.trans hc2⟩

/-- **`generateCuts_step`**: items (a)-(d) for the three cutting strategies (item (e)) -/
theorem generateCuts_step {n0 : Nat} {qpre : List Int} (ctl : Ctl) {nd : SolNode} {ctx : Mat}
    (hs : CutSetting n0 qpre nd ctx) :
    CutSetting n0 qpre (generateCuts ctl nd ctx).1 (generateCuts ctl nd ctx).2
    ∧ CutStep qpre nd ctx (generateCuts ctl nd ctx).1 (generateCuts ctl nd ctx).2 := by
  unfold generateCuts
  split
  · split
    · rename_i i hi
      exact generateCut_step hs (Lex.cutRowFirst_lt nd hs.wf i hi)
    · exact ⟨hs, CutStep.refl _ _ _⟩
  · obtain ⟨hbest, hall⟩ := Lex.cutRowsDeepest_lt nd hs.wf
    dsimp only
    split
    · split
      · rename_i i hi
        exact generateCut_step hs (hbest i hi)
      · exact ⟨hs, CutStep.refl _ _ _⟩
    · exact Cut.cuts_fold_step nd.tab.s.length _ nd ctx hs (le_refl _)
        (fun i hi => hall i (List.mem_reverse.mp hi))

theorem generateCuts_islexmin {n0 : Nat} {qpre : List Int} (ctl : Ctl) {nd : SolNode} {ctx : Mat}
    (hs : CutSetting n0 qpre nd ctx) (x : List Int) :
    IsLexMin (generateCuts ctl nd ctx).1 (extendArts (generateCuts ctl nd ctx).1.arts qpre) x →
    IsLexMin nd (extendArts nd.arts qpre) x :=
  (generateCuts_step ctl hs).2.islexmin hs.wf x

theorem generateCuts_infeasible {n0 : Nat} {qpre : List Int} (ctl : Ctl) {nd : SolNode} {ctx : Mat}
    (hs : CutSetting n0 qpre nd ctx) :
    Infeasible (generateCuts ctl nd ctx).1 (extendArts (generateCuts ctl nd ctx).1.arts qpre) →
    Infeasible nd (extendArts nd.arts qpre) :=
  (generateCuts_step ctl hs).2.infeasible

/-! ### non-vacuity -/

/-- `2 * x1 = x0 + p` (variable 0 is the column variable `y`, one parameter `p`): parametric cut -/
def Cut.exNodeP : SolNode :=
  { tab := { s := [[1]], t := [[0, 1]], den := 2, ns := 1, nt := 2 }
    basis := [true, false], mapping := [0, 0], varRow := [1], varColumn := [0]
    sign := [.positive], big := none, arts := [], cons := [] }

theorem Cut.exNodeP_wf : WF Cut.exNodeP :=
  ⟨by decide, by decide, by decide, by decide, by decide, by decide, by decide, by decide, by decide,
   by decide, by decide, by decide⟩

/-- the setting at `p = 3`, context `p ≥ 0` -/
theorem Cut.exNodeP_setting : CutSetting 2 [1, 3] Cut.exNodeP [[0, 1]] :=
  ⟨Cut.exNodeP_wf, rfl, (fun j hj => by cases hj), ⟨rfl, rfl, by decide⟩, ⟨rfl, rfl, by decide⟩,
   by decide⟩

example : Cut.isParam Cut.exNodeP 0 = true
    ∧ (generateCut Cut.exNodeP [[0, 1]] 0).1.tab.s = [[1], [1]]
    ∧ (generateCut Cut.exNodeP [[0, 1]] 0).1.tab.t = [[0, 1, 0], [0, -1, 2]]
    ∧ (generateCut Cut.exNodeP [[0, 1]] 0).1.arts = [⟨[0, 1], 2⟩]
    ∧ (generateCut Cut.exNodeP [[0, 1]] 0).2 = [[0, 1, 0], [0, 1, -2], [1, -1, 2]]
    ∧ extendArts (generateCut Cut.exNodeP [[0, 1]] 0).1.arts [1, 3] = [1, 3, 1]
    ∧ CutSetting 2 [1, 3] (generateCut Cut.exNodeP [[0, 1]] 0).1 (generateCut Cut.exNodeP [[0, 1]] 0).2
    ∧ CutStep [1, 3] Cut.exNodeP [[0, 1]]
        (generateCut Cut.exNodeP [[0, 1]] 0).1 (generateCut Cut.exNodeP [[0, 1]] 0).2 :=
  ⟨by decide, by decide, by decide, by decide, by decide, by decide,
   (generateCut_step Cut.exNodeP_setting (by decide)).1,
   (generateCut_step Cut.exNodeP_setting (by decide)).2⟩

/-- the feasible valuation `(y, x) = (1, 2)` at `p = 3` extends by the slack `(y - p + 2⌊p/2⌋)/2 = 0` -/
example : Feasible Cut.exNodeP (fun k => [1, 2].getD k 0) [1, 3]
    ∧ Feasible (generateCut Cut.exNodeP [[0, 1]] 0).1 (fun k => [1, 2, 0].getD k 0) [1, 3, 1] :=
  ⟨⟨by unfold TabSat RowHolds; decide, by decide⟩, ⟨by unfold TabSat RowHolds; decide, by decide⟩⟩

/-- non-parametric cut on `Lex.exNodeD` (`2 * x2 = x0 + 3 * x1 + 1`), and the strategy ALL on
    `Lex.exNodeF` -/
example : Cut.isParam Lex.exNodeD 0 = false ∧ CutSetting 1 [1] Lex.exNodeD []
    ∧ CutStep [1] Lex.exNodeD [] (generateCut Lex.exNodeD [] 0).1 (generateCut Lex.exNodeD [] 0).2 := by
  have hs : CutSetting 1 [1] Lex.exNodeD [] :=
    ⟨Lex.exNodeD_wf, rfl, (fun j hj => by cases hj), ⟨rfl, rfl, by decide⟩, ⟨rfl, rfl, by decide⟩,
     by decide⟩
  exact ⟨by decide, hs, (generateCut_step hs (by decide)).2⟩

example : CutSetting 1 [1] Lex.exNodeF []
    ∧ (generateCuts { cut := 2 } Lex.exNodeF []).1.tab.t = [[1], [1], [-1], [-1]]
    ∧ CutStep [1] Lex.exNodeF [] (generateCuts { cut := 2 } Lex.exNodeF []).1
        (generateCuts { cut := 2 } Lex.exNodeF []).2 := by
  have hs : CutSetting 1 [1] Lex.exNodeF [] :=
    ⟨Lex.exNodeF_wf, rfl, (fun j hj => by cases hj), ⟨rfl, rfl, by decide⟩, ⟨rfl, rfl, by decide⟩,
     by decide⟩
  exact ⟨hs, by decide, (generateCuts_step _ hs).2⟩

end PPLV.PIPCore
