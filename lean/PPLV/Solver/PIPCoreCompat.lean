import PPLV.Solver.PIPCoreSolve
/-!
# C07 stage 2 — `PIP_Tree_Node::compatibility_check` (PIP_Tree.cc:2230-2438)
(executable model, no Mathlib; code-shaped)

A dual simplex with Gomory cuts over the context matrix `s` (column 0: constant term, columns 1..: the
parameters, all non-negative integers): `true` iff the rows `s_i·(1, z) ≥ 0` have a common integer
solution.  Every row carries its own denominator (`scaling`).  The loop is fuelled: `none` = out of fuel.
-/
namespace PPLV.PIPCore

/-- `row_normalize` (PIP_Tree.cc:613-633) -/
def rowNormalizeDen (x : Row) (denom : Int) : Row × Int :=
  if denom = 1 then (x, denom) else
  let g := rowGcd (gcdI denom 0) x
  (x.map (· / g), denom / g)

/-- `compatibility_check_find_pivot_in_set_data` with its column -/
structure Cand where
  j : Nat
  row : Nat
  cost : Int
  value : Int
deriving Repr, DecidableEq, Inhabited

/-- `candidates_map[j]`: insert keeping the list sorted by column, or update in place -/
def candUpsert (f : Option Cand → Cand) (j : Nat) : List Cand → List Cand
  | [] => [f none]
  | c :: cs =>
    if c.j = j then f (some c) :: cs
    else if j < c.j then f none :: c :: cs
    else c :: candUpsert f j cs

/-- in-base scan of `compatibility_check_find_pivot_in_set` (PIP_Tree.cc:676-724);
    state `(pj, cost, value, new_candidates reversed)` -/
def ccBaseScan (rowIndex : Nat) : List Cand → (Nat × Int × Int × List Cand) → (Nat × Int × Int × List Cand)
  | [], st => st
  | c :: cs, (pj, cost, value, acc) =>
    let lhsSgn := sgn cost
    let rhsSgn := sgn c.cost
    let (found, acc) : Bool × List Cand :=
      if rowIndex = pj then
        (if lhsSgn = 0 then (false, c :: acc) else (decide (lhsSgn > 0), acc))
      else if rowIndex = c.j then
        (if rhsSgn = 0 then (false, c :: acc) else (decide (0 > rhsSgn), acc))
      else (false, c :: acc)
    if found then ccBaseScan rowIndex cs (c.j, c.cost, c.value, [c])
    else ccBaseScan rowIndex cs (pj, cost, value, acc)

/-- not-in-base scan (PIP_Tree.cc:725-812); state `(cost, value, row_value, new_candidates reversed)` -/
def ccRowScan (row : Row) : List Cand → (Int × Int × Int × List Cand) → (Int × Int × Int × List Cand)
  | [], st => st
  | c :: cs, (cost, value, rowValue, acc) =>
    let rcv := rget row c.j
    let lhsSign := sgn cost * sgn rowValue
    let rhsSign := sgn c.cost * sgn rcv
    if lhsSign ≠ rhsSign then
      if lhsSign > rhsSign then ccRowScan row cs (c.cost, c.value, rcv, [c])
      else ccRowScan row cs (cost, value, rowValue, acc)
    else
      let lhs := cost * c.value * rowValue
      let rhs := c.cost * value * rcv
      if lhs = rhs then ccRowScan row cs (cost, value, rowValue, c :: acc)
      else if lhs > rhs then ccRowScan row cs (c.cost, c.value, rcv, [c])
      else ccRowScan row cs (cost, value, rowValue, acc)

/-- `compatibility_check_find_pivot_in_set` (PIP_Tree.cc:651-816) -/
def ccInSet (s : Mat) (mapping : List Nat) (basis : List Bool) : Nat → Nat → List Cand → List Cand
  | 0, _, cands => cands
  | fuel + 1, varIndex, cands =>
    match cands with
    | [] => []
    | c0 :: rest =>
      let rowIndex := natGet mapping varIndex
      let new :=
        if boolGet basis varIndex then (ccBaseScan rowIndex rest (c0.j, c0.cost, c0.value, [c0])).2.2.2.reverse
        else
          let row := mrow s rowIndex
          (ccRowScan row rest (c0.cost, c0.value, rget row c0.j, [c0])).2.2.2.reverse
      ccInSet s mapping basis fuel (varIndex + 1) new

/-- the scan of the rows with negative constant term (PIP_Tree.cc:833-899); `none` = `return false` -/
def ccCollect (s : Mat) (mapping : List Nat) (basis : List Bool) : List Nat → List Cand → Option (List Cand)
  | [], acc => some acc
  | i :: is, acc =>
    let si := mrow s i
    let si0 := rget si 0
    if si0 < 0 then
      match findLexicoMinimalColumn s mapping basis si 1 with
      | none => none
      | some j =>
        let sij := rget si j
        let upd : Option Cand → Cand := fun old =>
          match old with
          | none => ⟨j, i, si0, sij⟩
          | some cur =>
            let lhsSgn := sgn cur.cost
            let rhsSgn := sgn si0
            if lhsSgn ≠ rhsSgn then
              (if lhsSgn > rhsSgn then ⟨j, i, si0, sij⟩ else cur)
            else
              let lhs := cur.cost * sij
              let rhs := si0 * cur.value
              if lhs > rhs then ⟨j, i, si0, sij⟩ else cur
        ccCollect s mapping basis is (candUpsert upd j acc)
    else ccCollect s mapping basis is acc

/-- `compatibility_check_find_pivot` (PIP_Tree.cc:820-918): `none` = no positive pivot candidate;
    `some (pi, pj)` with `pj = 0` when no row has a negative constant term -/
def ccFindPivot (s : Mat) (mapping : List Nat) (basis : List Bool) : Option (Nat × Nat) :=
  match ccCollect s mapping basis (List.range s.length) [] with
  | none => none
  | some [] => some (s.length, 0)
  | some cands =>
    match ccInSet s mapping basis mapping.length 0 cands with
    | c :: _ => some (c.row, c.j)
    | [] => some (s.length, 0)

structure CCState where
  s : Mat
  scaling : List Int
  basis : List Bool
  mapping : List Nat
  varRow : List Nat
  varColumn : List Nat
deriving Repr, Inhabited

def intGet (l : List Int) (i : Nat) : Int := l.getD i 1

/-- the cut loop of lines 2296-2326 over the variables `0 .. num_vars-1`; returns the state and
    `all_integer_vars` -/
def ccCuts (numVars : Nat) (st : CCState) : CCState × Bool :=
  (List.range numVars).foldl (fun (acc : CCState × Bool) i =>
    let (st, _) := acc
    if boolGet st.basis i then acc else
    let mi := natGet st.mapping i
    let denom := intGet st.scaling mi
    if rget (mrow st.s mi) 0 % denom = 0 then acc else
    let numRows := st.s.length
    let cut0 : Row := (mrow st.s mi).map fun a => posRem a denom
    let cut : Row := rset cut0 0 (rget cut0 0 - denom)
    ({ st with varRow := st.varRow ++ [st.mapping.length]
               basis := st.basis ++ [false]
               mapping := st.mapping ++ [numRows]
               s := st.s ++ [cut]
               scaling := st.scaling ++ [denom] }, false)) (st, true)

/-- multiply row `i` and its denominator by `sf` -/
def ccScaleRow (st : CCState) (i : Nat) (sf : Int) : CCState :=
  { st with s := msetRow st.s i ((mrow st.s i).map (· * sf)), scaling := st.scaling.set i (intGet st.scaling i * sf) }

/-- one `(j, i)` step of lines 2383-2403 -/
def ccStep (pivotj pivotpj : Int) (pj j : Nat) (st : CCState) (i : Nat) : CCState :=
  let product := rget (mrow st.s i) pj * pivotj
  let (st, product) :=
    if product % pivotpj ≠ 0 then
      let sf := pivotpj / gcdI product pivotpj
      (ccScaleRow st i sf, product * sf)
    else (st, product)
  let product := product / pivotpj
  { st with s := mset st.s i j (mget st.s i j - product) }

/-- one row of lines 2409-2429 -/
def ccStepCol (pivotDenom pivotpj : Int) (pj : Nat) (st : CCState) (i : Nat) : CCState :=
  let product := mget st.s i pj * pivotDenom
  let (st, product) :=
    if product % pivotpj ≠ 0 then
      let sf := pivotpj / gcdI product pivotpj
      (ccScaleRow st i sf, product * sf)
    else (st, product)
  { st with s := mset st.s i pj (product / pivotpj) }

/-- the pivot of lines 2336-2432 -/
def ccPivot (numCols : Nat) (st : CCState) (pi pj : Nat) : CCState :=
  let numRows := st.s.length
  -- "Normalize the tableau before pivoting."
  let norm : List (Row × Int) := (List.range numRows).map fun i => rowNormalizeDen (mrow st.s i) (intGet st.scaling i)
  let st := { st with s := List.map Prod.fst norm, scaling := List.map Prod.snd norm }
  -- "Update basis."
  let varPi := natGet st.varRow pi
  let varPj := natGet st.varColumn pj
  let st := { st with varRow := st.varRow.set pi varPj
                      varColumn := st.varColumn.set pj varPi
                      basis := (st.basis.set varPi true).set varPj false
                      mapping := (st.mapping.set varPi pj).set varPj pi }
  let pivot := mrow st.s pi
  let pivotDenom := intGet st.scaling pi
  let st := { st with s := msetRow st.s pi (rset (zeroRow numCols) pj 1), scaling := st.scaling.set pi 1 }
  let pivotpj := rget pivot pj
  let st := (List.range numCols).foldl (fun st j =>
    if j = pj then st else
    let pivotj := rget pivot j
    if pivotj = 0 then st else
    (rowsDown numRows).foldl (ccStep pivotj pivotpj pj j) st) st
  if pivotpj ≠ pivotDenom then (rowsDown numRows).foldl (ccStepCol pivotDenom pivotpj pj) st else st

def ccLoop (numCols : Nat) : Nat → CCState → Option Bool
  | 0, _ => none
  | fuel + 1, st =>
    match ccFindPivot st.s st.mapping st.basis with
    | none => some false
    | some (pi, pj) =>
      if pj = 0 then
        let (st, allInt) := ccCuts (numCols - 1) st
        if allInt then some true else ccLoop numCols fuel st
      else ccLoop numCols fuel (ccPivot numCols st pi pj)

/-- `compatibility_check(Matrix<Row>& s)`; `numCols = s.num_columns()` -/
def compatibilityCheck (fuel : Nat) (numCols : Nat) (s : Mat) : Option Bool :=
  let numRows := s.length
  let numVars := numCols - 1
  ccLoop numCols fuel
    { s := s
      scaling := List.replicate numRows 1
      basis := List.replicate numVars true ++ List.replicate numRows false
      mapping := (List.range numVars).map (· + 1) ++ List.range numRows
      varRow := (List.range numRows).map (· + numVars)
      varColumn := 0 :: List.range numVars }

/-- the oracle the driver plugs into `solve`: the number of columns is read off the first row
    (an empty context is compatible: the loop would find no negative row and no variable to cut) -/
def ccModel (fuel : Nat) (s : Mat) : Option Bool :=
  match s with
  | [] => some true
  | r :: _ => compatibilityCheck fuel r.length s

end PPLV.PIPCore
