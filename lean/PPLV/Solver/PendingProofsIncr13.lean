import PPLV.Solver.PendingProofsIncr12

/-!
# C06 stage 3 — the three hand-over facts of an incremental set-up (`incr_setup`)
-/
namespace PPLV.Solver.Pend
open PPLV.Lin PPLV.Solver PPLV.Solver.Tab

/-- a trivially false pending constraint: the set-up answers UNSATISFIABLE, rightly -/
theorem incr_parse_none (s : LPState) (hS : IncrStart s) (hp : parseConstraints (computeGenerator s) = none) :
    ppcSetup s = .done { computeGenerator s with status := .UNSATISFIABLE } ∧ ∀ x, ¬ csSem s.input_cs x := by
  constructor
  · unfold ppcSetup; rw [ppcRecompute_incr s hS]; simp only [hp]
  · have hpi := parse_spec (computeGenerator s) (nn0Of (computeGenerator s)) rfl
    rw [hp] at hpi
    obtain ⟨c, hc, hcl⟩ := hpi
    intro x hx
    rcases hcls : classify c with ⟨cls, v⟩
    rw [hcls] at hcl
    simp only at hcl
    subst hcl
    have hc' : c ∈ s.input_cs := List.mem_of_mem_drop (List.mem_of_mem_drop hc)
    exact trivFalse_not_holds hcls x (hx c hc')

/-- the canonical form and the cost row of what `IncrOut` describes -/
theorem IncrOut.phase1 {s : LPState} {C : GCtx} {unf : List Nat} {addArt : Nat} {s0 : LPState}
    (h : IncrOut s C unf addArt s0) :
    Phase1Start s0 (if addArt > 0 then C.SL else 0) (C.artOut unf).2.2.2 ∧
    artStart (if addArt > 0 then C.SL else 0) s0.numCols = C.SL ∧ 1 + C.j ≤ C.SL := by
  have hTB := C.asm_canonTB unf h.unfOK
  obtain ⟨hc0, hc0len⟩ := C.asm_cost unf h.unfOK
  have art := C.art unf h.unfOK
  have hV1 := C.V1
  have hjV := C.hjV
  have hSLV : C.V ≤ C.SL := by unfold GCtx.SL; omega
  have hnc := h.unfOK.nc
  obtain ⟨p1, p2⟩ := phase1_of_canonTB s0 C.SL addArt C.numCols _ _ _ hTB hc0 hc0len (by omega)
    (fun ha => by rw [hnc]; have := h.addArt_eq; omega) (fun ha => by rw [hnc]; have := h.addArt_eq; omega)
    h.tab h.base h.cost h.numCols
  rw [art.endA]
  exact ⟨p1, p2, by omega⟩

/-- **the three hand-over facts of an incremental set-up**, from the state before the call -/
theorem incr_setup (s : LPState) (hS : IncrStart s) (s' : LPState) (b e : Nat)
    (h : ppcSetup s = .phase1 s' b e) :
    Phase1Start s' b e ∧
    (∃ nn j, MapOK s'.mapping nn s.external_space_dim j ∧ 1 + j ≤ artStart b s'.numCols) ∧
    SetupGood s.input_cs s.external_space_dim s' b ∧
    (∀ x, csSem s.input_cs x → ∃ y, TabSol s'.tableau s'.numCols b y ∧
      (∀ i, i < s.external_space_dim → proj s'.mapping y i = x i) ∧
      NegZero s'.mapping s.external_space_dim x y) := by
  cases hp : parseConstraints (computeGenerator s) with
  | none =>
    rw [(incr_parse_none s hS hp).1] at h; cases h
  | some p =>
    obtain ⟨C, unf, addArt, s0, hO⟩ := incr_ctx s hS p hp
    obtain ⟨p1, p2, p3⟩ := hO.phase1
    rcases ppcTrivial_cases s0 (if addArt > 0 then C.SL else 0) (C.artOut unf).2.2.2
        (by rw [hO.ext]; exact hS.npos) with ⟨hph, -⟩ | ⟨sd, hd, -⟩
    swap
    · rw [hO.setup, hd] at h; cases h
    rw [hO.setup, hph] at h
    simp only [Setup.phase1.injEq] at h
    obtain ⟨rfl, rfl, rfl⟩ := h
    have hgS : ∀ x, csSem s.input_cs x → ∃ y, TabSol s0.tableau s0.numCols (if addArt > 0 then C.SL else 0) y ∧
        (∀ i, i < s.external_space_dim → proj s0.mapping y i = x i) ∧
        NegZero s0.mapping s.external_space_dim x y := by
      intro x hx
      obtain ⟨y, y1, y2, y3, y4, y5, y6⟩ := hO.complete x hx
      refine ⟨y, ⟨y1, y2, fun j hj _ => y3 j (by rw [p2] at hj; exact hj), by rw [hO.tab]; exact y4⟩, ?_, ?_⟩
      · rw [hO.mapping, ← hO.n_eq]; exact y5
      · rw [hO.mapping, ← hO.n_eq]; exact y6
    refine ⟨p1, ⟨C.nn, C.j, by rw [hO.mapping, ← hO.n_eq]; exact C.hM, by rw [p2]; exact p3⟩, ⟨?_, ?_⟩, hgS⟩
    · intro y ⟨y1, y2, y3, y4⟩
      rw [hO.mapping]
      rw [p2, hO.numCols] at y3
      exact hO.sound y y1 y2 y3 (by rw [← hO.tab]; exact y4)
    · intro x hx
      obtain ⟨y, a, b, -⟩ := hgS x hx
      exact ⟨y, a, b⟩

end PPLV.Solver.Pend
