import PPLV.Lin.Parse

/-!
# C06 — reference answers of a mixed-integer linear problem (executable model, no Mathlib)

A problem is the *final data* of a `MIP_Problem`: the space dimension, the constraint rows
(non-strict; an equality is a pair of opposite rows), the set of integer variables, the
objective and the optimisation mode.  Nothing else of the history of the object enters.

* `lpAnswer`  — the answer of the relaxation, computed by the verified kernel K1 (`supB`).
* `mipRef`    — the reference for the bounded-integer case: the integer variables are fixed one
  after the other to every integer inside their K1 range `[inf, sup]` (recomputed in the
  restricted system), the remaining LP is solved by K1, the branch answers are joined.
  When an integer variable has no finite range the answer is `unknownUnboundedIntVar`.
* `checkWitness` — a reported point (numerators / divisor) satisfies every row, is integral on
  the integer variables and has the reported objective value.
* `noBetter` — K1 certificate that no feasible point beats a reported value.
* `withWindow` — the same problem with the integer variables confined to `[-B, B]`: every
  feasible point of it is a feasible point of the original, so its answer is a sound
  *one-sided* judge when `mipRef` is `unknownUnboundedIntVar`.

Theorems: `PPLV/Solver/MIPProofs.lean`, property statements `PPLV/Props/C06.lean`.
-/
namespace PPLV.Solver
open PPLV.Lin

structure Problem where
  n : Nat
  cs : List Con
  ints : List Nat
  obj : LinExpr
  maximize : Bool
deriving Repr, Inhabited

inductive Answer
  | unfeasible
  | unbounded
  | optimum (v : Rat)
  | unknownUnboundedIntVar
deriving Repr, DecidableEq, Inhabited

def Answer.isKnown : Answer → Bool
  | .unknownUnboundedIntVar => false
  | _ => true

/-- flip the sign of an optimum (minimisation is maximisation of the opposite objective) -/
def Answer.neg : Answer → Answer
  | .optimum v => .optimum (-v)
  | a => a

/-- join of the answers of two sub-problems whose feasible sets cover the feasible set
    (maximisation) -/
def Answer.join : Answer → Answer → Answer
  | .unknownUnboundedIntVar, _ => .unknownUnboundedIntVar
  | _, .unknownUnboundedIntVar => .unknownUnboundedIntVar
  | .unbounded, _ => .unbounded
  | _, .unbounded => .unbounded
  | .unfeasible, a => a
  | a, .unfeasible => a
  | .optimum v, .optimum w => .optimum (if v ≤ w then w else v)

/-! ### the relaxation -/

/-- `max {e·x + k | x ∈ sem cs}` by K1's Fourier–Motzkin supremum (complete, slow) -/
def lpMaxFM (n : Nat) (e : List Int) (k : Int) (cs : List Con) : Answer :=
  match supB n e k cs with
  | .empty => .unfeasible
  | .unbounded => .unbounded
  | .val p q _ => .optimum ((p : Rat) / (q : Rat))

/-- a rational point: numerators and a common divisor -/
structure Pt where
  num : List Int
  den : Int
deriving Repr, Inhabited

def Pt.val (x : Pt) : Val := fun i => ((x.num.getD i 0 : Int) : Rat) / (x.den : Rat)

/-- the row holds at `x` (decided in exact rational arithmetic) -/
def conHolds (c : Con) (x : Val) : Bool :=
  if c.strict then decide (0 < c.eval x) else decide (0 ≤ c.eval x)

/-- rows describing a direction `d` of the recession cone of `cs` with `e·d ≥ 1` -/
def rayRows (e : List Int) (cs : List Con) : List Con :=
  geRow e (-1) :: cs.map fun c => ⟨c.coeffs, 0, false⟩

/-- the row `e·x + k > v` -/
def betterRow (e : List Int) (k : Int) (v : Rat) : Con :=
  gtRow (e.map ((v.den : Int) * ·)) ((v.den : Int) * k - v.num)

/-- **untrusted**: candidate optimal points of `max e·x` over `cs`, read off the multipliers of
    the exact simplex of K1 run on the (small) dual `min k·y  s.t.  Σ y_i a_i = −e, y ≥ 0`
    (`n` equations).  Whatever it returns is checked by `lpMax`; both signs are proposed. -/
def lpCandidates (n : Nat) (e : List Int) (cs : List Con) : List Pt :=
  let m := cs.length
  let csA := cs.toArray
  let A : Array Simplex.Row := (Array.range n).map fun j =>
    (Array.range m).map fun i => (((csA.getD i default).coeffs.getD j 0 : Int) : Rat)
  let b : Array Rat := (Array.range n).map fun j => - ((e.getD j 0 : Int) : Rat)
  let c : Array Rat := (Array.range m).map fun i => (((csA.getD i default).k : Int) : Rat)
  match Simplex.solve A b c m with
  | .optimal _ w =>
    let xs : List Rat := (List.range n).map fun j => w.getD j 0
    let (num, den) := toIntVec xs
    [⟨num.map (- ·), den⟩, ⟨num, den⟩]
  | _ => []

/-- is `x` a point of `cs` at which `e·x + k` is maximal?  (verified: rows checked in exact
    arithmetic, "strictly better" refuted by K1's `feasible`) -/
def isMaxAt (n : Nat) (e : List Int) (k : Int) (cs : List Con) (x : Pt) : Bool :=
  cs.all (fun c => conHolds c x.val) && !feasible n (betterRow e k (dot e x.val + (k : Rat)) :: cs)

/-- the answer without a candidate: emptiness by `feasible`; unboundedness by a feasible point plus
    a recession direction that improves the objective; otherwise complete Fourier–Motzkin -/
def lpMaxSlow (n : Nat) (e : List Int) (k : Int) (cs : List Con) : Answer :=
  if !feasible n cs then .unfeasible
  else if feasible n (rayRows e cs) then .unbounded
  else lpMaxFM n e k cs

/-- `max {e·x + k | x ∈ sem cs}`: every answer is backed by a *verified* decision of K1.  The
    simplex only proposes points; `isMaxAt` checks them. -/
def lpMax (n : Nat) (e : List Int) (k : Int) (cs : List Con) : Answer :=
  match (lpCandidates n e cs).find? (fun x => cs.all (fun c => conHolds c x.val)) with
  | some x => if isMaxAt n e k cs x then .optimum (dot e x.val + (k : Rat)) else lpMaxSlow n e k cs
  | none => lpMaxSlow n e k cs

def negL (e : List Int) : List Int := e.map (- ·)

/-- objective of the equivalent maximisation problem -/
def Problem.maxObj (P : Problem) : List Int × Int :=
  if P.maximize then (P.obj.coeffs, P.obj.k) else (negL P.obj.coeffs, - P.obj.k)

/-- back from the maximisation answer to the answer in the mode of `P` -/
def Problem.back (P : Problem) (a : Answer) : Answer := if P.maximize then a else a.neg

/-- the answer of the relaxation (integrality dropped) -/
def lpAnswer (P : Problem) : Answer :=
  P.back (lpMax P.n P.maxObj.1 P.maxObj.2 P.cs)

/-! ### the integer variables -/

inductive Range
  | empty                      -- the system has no solution at all
  | unbounded                  -- the variable has no finite lower or no finite upper bound
  | fin (lo hi : Int)          -- every solution has `lo ≤ x_i ≤ hi` (`lo`, `hi` integers)
deriving Repr, DecidableEq, Inhabited

/-- ⌊q⌋ -/
def ratFloor (q : Rat) : Int := q.num / (q.den : Int)

/-- integers between the infimum and the supremum of `x_i` over `sem cs` -/
def varRange (n i : Nat) (cs : List Con) : Range :=
  match lpMax n (unitRow i 1) 0 cs, lpMax n (unitRow i (-1)) 0 cs with
  | .unfeasible, _ => .empty
  | _, .unfeasible => .empty
  | .optimum hi, .optimum nlo => .fin (-(ratFloor nlo)) (ratFloor hi)     -- ⌈-nlo⌉ , ⌊hi⌋
  | _, _ => .unbounded

/-- `lo, lo+1, …, hi` -/
def intsFromTo (lo hi : Int) : List Int := (List.range (hi + 1 - lo).toNat).map fun (j : Nat) => lo + (j : Int)

/-- rows stating `x_i = z` -/
def fixRows (i : Nat) (z : Int) : List Con := eqRows (unitRow i 1) (-z)

/-- maximisation over the points of `cs` whose coordinates listed in `is` are integers -/
def mipMax (n : Nat) (e : List Int) (k : Int) : List Nat → List Con → Answer
  | [], cs => lpMax n e k cs
  | i :: is, cs =>
    match varRange n i cs with
    | .empty => .unfeasible
    | .unbounded => .unknownUnboundedIntVar
    | .fin lo hi =>
      (intsFromTo lo hi).foldl (fun a z => a.join (mipMax n e k is (fixRows i z ++ cs))) .unfeasible

/-- **the reference answer** -/
def mipRef (P : Problem) : Answer :=
  P.back (mipMax P.n P.maxObj.1 P.maxObj.2 P.ints P.cs)

/-- an upper bound of the number of leaves `mipRef` visits: product of the widths of the ranges of the
    integer variables in the relaxation (`none`: a variable without finite range) -/
def mipSize (P : Problem) : Option Nat :=
  P.ints.eraseDups.foldl (fun acc i =>
    match acc, varRange P.n i P.cs with
    | some s, .fin lo hi => some (s * ((hi + 1 - lo).toNat))
    | some _, .empty => some 0
    | _, _ => none) (some 1)

/-! ### witnesses -/

def Problem.objVal (P : Problem) (x : Val) : Rat := dot P.obj.coeffs x + (P.obj.k : Rat)

/-- `x` satisfies every row and is integral where required -/
def checkFeasible (P : Problem) (x : Pt) : Bool :=
  P.cs.all (fun c => conHolds c x.val) && P.ints.all (fun i => (x.val i).den == 1)

/-- `x` is feasible and the objective at `x` is `v` -/
def checkWitness (P : Problem) (x : Pt) (v : Rat) : Bool :=
  checkFeasible P x && decide (P.objVal x.val = v)

/-- `a` is not better than `b` in the mode of `P` -/
def Problem.notBetter (P : Problem) (a b : Rat) : Bool :=
  if P.maximize then decide (a ≤ b) else decide (b ≤ a)

/-- K1 certificate that no feasible point of `P` has a better objective value than `v` -/
def noBetter (P : Problem) (v : Rat) : Bool :=
  match mipRef P with
  | .unfeasible => true
  | .optimum w => P.notBetter w v
  | _ => false

/-- the relaxation has a recession direction along which the objective improves (verified by
    K1's `feasible`): together with one feasible point of the MIP this proves the MIP unbounded,
    whatever the ranges of the integer variables (`C06.unbounded_of_point_and_ray`) -/
def rayExists (P : Problem) : Bool := feasible P.n (rayRows P.maxObj.1 P.cs)

/-! ### one-sided judge when an integer variable is unbounded -/

/-- rows `-B ≤ x_i ≤ B` -/
def windowRows (B : Int) (i : Nat) : List Con := [geRow (unitRow i 1) B, geRow (unitRow i (-1)) B]

/-- `P` with every integer variable confined to `[-B, B]` -/
def Problem.withWindow (P : Problem) (B : Int) : Problem :=
  { P with cs := P.ints.flatMap (windowRows B) ++ P.cs }

/-! ### well-formedness (decidable) -/

def nonStrictB (cs : List Con) : Bool := cs.all fun c => !c.strict

def Problem.wfB (P : Problem) : Bool :=
  PPLV.Lin.wfB P.n P.cs && nonStrictB P.cs && decide (P.obj.coeffs.length ≤ P.n) && P.ints.all (fun i => decide (i < P.n))

/-! ### histories: the final data of an object -/

/-- the public operations of `MIP_Problem` that a history is made of -/
inductive Op
  | addCons (rows : List Con)        -- add_constraint / add_constraints
  | addDims (m : Nat)                -- add_space_dimensions_and_embed
  | addInts (vs : List Nat)          -- add_to_integer_space_dimensions
  | setObj (e : LinExpr)             -- set_objective_function
  | setMode (mx : Bool)              -- set_optimization_mode
  | setPricing (rule : Nat)          -- set_control_parameter
  | observe                          -- solve / is_satisfiable / feasible_point / optimizing_point / optimal_value / OK
deriving Repr, Inhabited

def Op.isMutator : Op → Bool
  | .setPricing _ => false
  | .observe => false
  | _ => true

/-- `MIP_Problem(dim)`: no constraints, no integer variables, objective 0, maximisation -/
def Problem.new (dim : Nat) : Problem := ⟨dim, [], [], ⟨[], 0⟩, true⟩

/-- effect of one operation on the data -/
def Problem.apply (P : Problem) : Op → Problem
  | .addCons rows => { P with cs := P.cs ++ rows }
  | .addDims m => { P with n := P.n + m }
  | .addInts vs => { P with ints := P.ints ++ vs.filter (fun v => !P.ints.contains v) }
  | .setObj e => { P with obj := e }
  | .setMode mx => { P with maximize := mx }
  | .setPricing _ => P
  | .observe => P

/-- the data after a history -/
def finalData (dim : Nat) (ops : List Op) : Problem := ops.foldl Problem.apply (Problem.new dim)

end PPLV.Solver
