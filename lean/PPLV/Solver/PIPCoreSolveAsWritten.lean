import PPLV.Solver.PIPCoreSolve
/-!
# C07 stage 2 — `PIP_Solution_Node::solve` BEFORE the repair of finding KF-C07-12 (historical)
(executable model, no Mathlib)

The code as it was until commit deb2fdf: "No positive pivot: Solution = _|_" is concluded from the CACHED sign
NEGATIVE, which may only mean `t_i(z) ≤ 0` (second refinement of the mixed rows, rows of cuts).  Kept as the
witness of the defect (`C07.solve_bottom_before_fix_fails`) and so that the driver can recognise a library that
behaves like the old code.  The current code is `solveGo` / `solve` in `PIPCoreSolve.lean`.
-/
namespace PPLV.PIPCore

/-- `PIP_Solution_Node::solve` before the repair, for a node that has no artificial parameter and
    no constraint of its own at entry (a fresh root; the copy made with `No_Constraints`; `this` after its
    lists were swapped aside), so that lines 2658-2662 just copy the context.
    `entry = true`: the call starts here (feasibility of the context is re-checked when
    `check_feasible_context`); `entry = false`: next iteration of the main loop. -/
def solveGoAsWritten (cc : Mat → Option Bool) (ctl : Ctl) (cfc : Bool) :
    Nat → Bool → SolNode → Mat → Res
  | 0, _, _, _ => .fuel
  | fuel + 1, entry, nd, ctx =>
    if entry && cfc then
      match cc ctx with
      | none => .fuel
      | some false => .done none
      | some true => solveGoAsWritten cc ctl cfc fuel false nd ctx
    else
    match signAnalysis cc nd ctx with
    | none => .fuel
    | some (sg, fs) =>
      let nd := { nd with sign := sg }
      let numRows := nd.tab.t.length
      match fs.neg with
      | some fneg =>
        match choosePivot ctl nd sg (rangeFrom fneg numRows) none with
        | none => .done none                           -- "No positive pivot: Solution = _|_"
        | some none => .fuel                           -- unreachable: row `fneg` is negative
        | some (some (pi, pj)) => solveGoAsWritten cc ctl cfc fuel false (pivot nd pi pj) ctx
      | none =>
        match fs.mix with
        | some fmix =>
          match findINeg nd.tab sg (rangeFrom fmix numRows) none with
          | some (iNeg, _) =>
            let tautology := integralSimplification (mrow nd.tab.t iNeg)
            let nd := { nd with cons := addConstraint nd.cons tautology, sign := nd.sign.set iNeg .positive }
            solveGoAsWritten cc ctl cfc fuel false nd (ctx ++ [tautology])
          | none =>
            match findBestI nd.tab sg (rangeFrom fmix numRows) none with
            | none => .fuel                            -- unreachable: row `fmix` is mixed
            | some (bestI, _) =>
              let tTest := integralSimplification (mrow nd.tab.t bestI)
              let child := { nd with arts := [], cons := [] }
              match solveGoAsWritten cc ctl cfc fuel true child (ctx ++ [tTest]) with
              | .fuel => .fuel
              | .done tNode =>
                let fTest := complementAssign tTest 1
                match solveGoAsWritten cc ctl cfc fuel true child (ctx ++ [fTest]) with
                | .fuel => .fuel
                | .done fNode => .done (assemble nd.arts nd.cons tTest fTest tNode fNode)
        | none =>
          let nd := { nd with tab := nd.tab.normalize }
          if solutionIntegral nd then .done (some (.sol nd))
          else
            let (nd, ctx) := generateCuts ctl nd ctx
            solveGoAsWritten cc ctl cfc fuel false nd ctx

def solveAsWritten (cc : Mat → Option Bool) (ctl : Ctl) (cfc : Bool) (fuel : Nat) (nd : SolNode) (ctx : Mat) : Res :=
  solveGoAsWritten cc ctl cfc fuel true nd ctx

end PPLV.PIPCore
