import PPLV.Solver.PIPCoreProofsSign4
import Mathlib.Tactic.Linarith
/-!
# C07 core — sign family, part 5: `recomputeSigns` (PIP_Tree.cc:2695-2712) and the whole sign analysis
of one iteration put together
-/
namespace PPLV.PIPCore

theorem foldl_fst {α β γ : Type} (f : α × β → γ → α × β) (g : α → γ → α)
    (h : ∀ st i, (f st i).1 = g st.1 i) : ∀ (l : List γ) (st : α × β), (l.foldl f st).1 = l.foldl g st.1
  | [], _ => rfl
  | i :: l, st => by
    rw [List.foldl_cons, List.foldl_cons, foldl_fst f g h l (f st i), h]

/-- what one iteration of the loop does to the list of signs -/
def recStep (nd : SolNode) (sg : List RowSign) (i : Nat) : List RowSign :=
  sg.set i (if signGet sg i = .unknown ∨ signGet sg i = .mixed then rowSign (mrow nd.tab.t i) nd.big
            else signGet sg i)

theorem recomputeSigns_fst (nd : SolNode) :
    (recomputeSigns nd).1 = (List.range nd.tab.t.length).foldl (recStep nd) nd.sign := by
  unfold recomputeSigns
  refine foldl_fst _ (recStep nd) ?_ _ _
  rintro ⟨sg, fs⟩ i
  simp only [recStep]
  split_ifs <;> rfl

/-- the signs after `k` iterations -/
theorem recStep_range (nd : SolNode) : ∀ m : Nat,
    ((List.range m).foldl (recStep nd) nd.sign).length = nd.sign.length ∧
    ∀ k, signGet ((List.range m).foldl (recStep nd) nd.sign) k =
      if k < m ∧ k < nd.sign.length ∧ (signGet nd.sign k = .unknown ∨ signGet nd.sign k = .mixed)
      then rowSign (mrow nd.tab.t k) nd.big else signGet nd.sign k
  | 0 => by
    refine ⟨rfl, fun k => ?_⟩
    rw [if_neg (by omega)]; rfl
  | m + 1 => by
    obtain ⟨hl, hk⟩ := recStep_range nd m
    rw [List.range_succ, List.foldl_append]
    generalize (List.range m).foldl (recStep nd) nd.sign = sg at hl hk
    simp only [List.foldl_cons, List.foldl_nil]
    refine ⟨by simp [recStep, hl], fun k => ?_⟩
    unfold recStep
    rw [signGet_set, hl]
    have hm := hk m
    rw [if_neg (by omega)] at hm
    rw [hm]
    by_cases h1 : m = k
    · subst h1
      by_cases h2 : m < nd.sign.length
      · rw [if_pos ⟨rfl, h2⟩]
        by_cases h3 : signGet nd.sign m = .unknown ∨ signGet nd.sign m = .mixed
        · rw [if_pos h3, if_pos ⟨by omega, h2, h3⟩]
        · rw [if_neg h3, if_neg (fun h => h3 h.2.2)]
      · rw [if_neg (fun h => h2 h.2), if_neg (fun h => h2 h.2.1), hm]
    · rw [if_neg (fun h => h1 h.1), hk k]
      by_cases h3 : k < m ∧ k < nd.sign.length ∧ (signGet nd.sign k = .unknown ∨ signGet nd.sign k = .mixed)
      · rw [if_pos h3, if_pos ⟨by omega, h3.2⟩]
      · rw [if_neg h3, if_neg (fun h => h3 ⟨by omega, h.2⟩)]

/-- **`recomputeSigns`**: every sign that was `UNKNOWN` or `MIXED` is now `row_sign` of its row, the others
    are unchanged (and the list keeps its length) -/
theorem recomputeSigns_spec (nd : SolNode) :
    (recomputeSigns nd).1.length = nd.sign.length ∧
    ∀ k, signGet (recomputeSigns nd).1 k =
      if k < nd.tab.t.length ∧ k < nd.sign.length ∧
          (signGet nd.sign k = .unknown ∨ signGet nd.sign k = .mixed)
      then rowSign (mrow nd.tab.t k) nd.big else signGet nd.sign k := by
  rw [recomputeSigns_fst]; exact recStep_range nd nd.tab.t.length

/-- **soundness of the recomputed signs** (no big parameter): signs that were true of `q` stay true, and the
    recomputed ones are true of EVERY non-negative parameter vector (`rowSign_sound`) -/
theorem recomputeSigns_sound {nd : SolNode} {n : Nat} {q : List Int} (hbig : nd.big = none)
    (hrows : ∀ k, k < nd.tab.t.length → (mrow nd.tab.t k).length = n) (hq : ParamVec n q)
    (hinv : ∀ k, SignTrue (signGet nd.sign k) (dot (mrow nd.tab.t k) q)) :
    ∀ k, SignTrue (signGet (recomputeSigns nd).1 k) (dot (mrow nd.tab.t k) q) := by
  intro k
  rw [(recomputeSigns_spec nd).2 k]
  by_cases h : k < nd.tab.t.length ∧ k < nd.sign.length ∧
      (signGet nd.sign k = .unknown ∨ signGet nd.sign k = .mixed)
  · rw [if_pos h, hbig]
    exact rowSign_sound (by rw [hrows k h.1]; exact hq)
  · rw [if_neg h]; exact hinv k

/-- after `recomputeSigns` a `MIXED` sign is the verdict of `row_sign` on the current row -/
theorem recomputeSigns_mixed {nd : SolNode} (hlen : nd.sign.length ≤ nd.tab.t.length) {k : Nat}
    (h : signGet (recomputeSigns nd).1 k = .mixed) : rowSign (mrow nd.tab.t k) nd.big = .mixed := by
  rw [(recomputeSigns_spec nd).2 k] at h
  by_cases hc : k < nd.tab.t.length ∧ k < nd.sign.length ∧
      (signGet nd.sign k = .unknown ∨ signGet nd.sign k = .mixed)
  · rw [if_pos hc] at h; exact h
  · rw [if_neg hc] at h
    have hlt := signGet_lt_of_ne_unknown (sg := nd.sign) (i := k) (by rw [h]; decide)
    exact absurd ⟨by omega, hlt, Or.inr h⟩ hc

example : (recomputeSigns exNd2).1 = [.mixed] := by decide

end PPLV.PIPCore
