import PPLV.Lin.Base

/-!
# C06 stage 2 — the tableau steps of `src/MIP_Problem.cc` as row algebra (executable, no Mathlib)

A tableau row is the list of its integer coefficients; column 0 holds the inhomogeneous term,
columns `≥ 1` the tableau variables (split problem variables, slacks, artificials); the cost row
has one more, last, column recording the sign and scale of the objective.  A row denotes the
equation `Σ_j r[j]·x_j = 0` with `x_0 = 1` (`rowVal`).

Transliterated, line by line:
* `linearCombine x y k`  — `MIP_Problem::linear_combine` (:1357): `normalize2(x_k, y_k)`, then
  `x := (−y_k/g)·x + (x_k/g)·y`, then `x.normalize()`;
* `pivot`               — `MIP_Problem::pivot` (:1448);
* `exitingIndex`        — `MIP_Problem::get_exiting_base_index` (:1469): first eligible row, then the
  lcm-scaled comparison `|lcm/t_ee·t_e0| − |lcm/t_ie·t_i0|` with the tie-break on `base[i]`;
* `textbookEntering`    — `MIP_Problem::textbook_entering_index` (:1330);
* `basicValue`, `mergeSplit` — the two fraction computations of `compute_generator` (:1757).
-/
namespace PPLV.Solver.Tab
open PPLV.Lin

abbrev Row := List Int

def Row.get (r : Row) (j : Nat) : Int := r.getD j 0

/-- value of the row at `x` (column 0 is multiplied by `x 0`, which is 1 on solutions) -/
def rowVal (r : Row) (x : Val) : Rat := dot r x

/-- `Row::normalize()`: divide by the gcd of all entries -/
def normalizeRow (r : Row) : Row :=
  let g := gcdList r
  if g ≤ 1 then r else r.map (· / (g : Int))

/-- `linear_combine(x, y, k)`: afterwards column `k` of `x` is zero -/
def linearCombine (x y : Row) (k : Nat) : Row :=
  let g : Int := (Int.gcd (x.get k) (y.get k) : Nat)
  let nx := x.get k / g
  let ny := y.get k / g
  normalizeRow (lincomb (-ny) nx x y)

/-- rows of the tableau after `pivot(e, r)` -/
def pivotRows (T : List Row) (e r : Nat) : List Row :=
  let out := T.getD r []
  (List.range T.length).map fun i =>
    let ti := T.getD i []
    if i != r && ti.get e != 0 then linearCombine ti out e else ti

def pivotCost (cost : Row) (T : List Row) (e r : Nat) : Row :=
  if cost.get e != 0 then linearCombine cost (T.getD r []) e else cost

def pivotBase (base : List Nat) (e r : Nat) : List Nat := base.set r e

/-- sign as in `sgn()` -/
def sgn (a : Int) : Int := if a < 0 then -1 else if a = 0 then 0 else 1

/-- row `i` limits the growth of the entering variable `e`:
    `sgn(t_ie) ≠ 0 ∧ sgn(t_ie) = sgn(t_i[base_i])` -/
def eligible (T : List Row) (base : List Nat) (e i : Nat) : Bool :=
  let t := T.getD i []
  sgn (t.get e) != 0 && sgn (t.get e) == sgn (t.get (base.getD i 0))

/-- the comparison of `get_exiting_base_index`: `|lcm/t_ee · t_e0| − |lcm/t_ie · t_i0|` -/
def challengerDiff (te0 tee ti0 tie : Int) : Int :=
  let lcm : Int := (Int.lcm tee tie : Nat)
  (lcm / tee * te0).natAbs - (lcm / tie * ti0).natAbs

/-- the scan of the rows after the first eligible one -/
def scanExit (T : List Row) (base : List Nat) (e : Nat) : List Nat → Nat → Nat
  | [], cur => cur
  | i :: is, cur =>
    if eligible T base e i then
      let tc := T.getD cur []
      let ti := T.getD i []
      let d := challengerDiff (tc.get 0) (tc.get e) (ti.get 0) (ti.get e)
      if d > 0 || (d == 0 && base.getD i 0 < base.getD cur 0) then scanExit T base e is i
      else scanExit T base e is cur
    else scanExit T base e is cur

/-- `get_exiting_base_index(e)` over the row indices `l`: the first loop looks for the first eligible
    row, the second (`scanExit`) compares the later ones; `none` = no row limits `e` (the caller
    reports "unbounded") -/
def scanFrom (T : List Row) (base : List Nat) (e : Nat) : List Nat → Option Nat
  | [] => none
  | i :: is => if eligible T base e i then some (scanExit T base e is i) else scanFrom T base e is

def exitingIndex (T : List Row) (base : List Nat) (e : Nat) : Option Nat :=
  scanFrom T base e (List.range T.length)

/-- `textbook_entering_index()`: the first column `1 ≤ j < last` whose cost coefficient has the sign
    of the last ("sign") column; 0 = none (optimality) -/
def textbookEntering (cost : Row) : Nat :=
  let last := cost.length - 1
  let s := sgn (cost.get last)
  match (List.range' 1 (last - 1)).find? (fun j => sgn (cost.get j) == s) with
  | some j => j
  | none => 0

/-- value of the basic variable of a row as (numerator, positive denominator): `−t_0 / t_b` -/
def basicValue (t : Row) (b : Nat) : Int × Int :=
  if t.get b > 0 then (-(t.get 0), t.get b) else (t.get 0, -(t.get b))

/-- `compute_generator`: positive part `n1/d1` minus negative part `n2/d2` over the lcm -/
def mergeSplit (n1 d1 n2 d2 : Int) : Int × Int :=
  let lcm : Int := (Int.lcm d1 d2 : Nat)
  let num := n1 * (lcm / d1) - n2 * (lcm / d2)
  if num = 0 then (0, 1) else (num, lcm)

end PPLV.Solver.Tab
