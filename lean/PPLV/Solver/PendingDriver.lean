import PPLV.Solver.Pending

/-! `pplv_mip --tab`: replay of the tableau set-up / simplex phases of `MIP_Problem`
(journal of harness/c06_tab.cc) on the code-shaped model `PPLV.Solver.Pend`.

Every `new` / `op` line is applied to the model state, every `call` line runs the modelled function,
every `dump` line is compared EXACTLY (status, dimensions, first pending, base, mapping, cost row,
generator, tableau row for row) with the model state; `dumpf` lines (float pricing: the entering
column is not determined) are compared on status / dimensions only.  Independently, every real answer
(satisfiability, status, optimal value, the generator as a feasible point) is judged with the verified
reference `lpAnswer` / `checkFeasible`.

Verdicts: `ok <ln> <what> k=v…`, `skip <ln> <why>`,
`MISMATCH <ln> model:<field> …` (model ≠ code), `MISMATCH <ln> real:<obligation> …` (the real answer is wrong). -/
namespace PPLV.Solver.PendingDriver
open PPLV.Lin PPLV.Solver PPLV.Solver.Tab PPLV.Solver.Pend

structure St where
  s : LPState := LPState.new 0
  live : Bool := false
  fuelOut : Bool := false
  ref : Option Answer := none          -- `lpAnswer` of the current data (cached until the next mutator)
  lastGen : Option Pt := none          -- generator of the last real dump
  lastStatus : String := ""
  nOk : Nat := 0
  nBad : Nat := 0
  nSkip : Nat := 0

abbrev M := StateT St IO

def ok (ln : Nat) (what : String) : M Unit := do
  modify fun s => { s with nOk := s.nOk + 1 }
  IO.println s!"ok {ln} {what}"
def bad (ln : Nat) (what : String) : M Unit := do
  modify fun s => { s with nBad := s.nBad + 1 }
  IO.println s!"MISMATCH {ln} {what}"
def skip (ln : Nat) (why : String) : M Unit := do
  modify fun s => { s with nSkip := s.nSkip + 1 }
  IO.println s!"skip {ln} {why}"

def fuel : Nat := 300

def statusStr : Status → String
  | .UNSATISFIABLE => "UNSAT" | .SATISFIABLE => "SAT" | .UNBOUNDED => "UNB" | .OPTIMIZED => "OPT"
  | .PARTIALLY_SATISFIABLE => "PART"

def pricingOf (k : Nat) : Pricing :=
  if k == 0 then .STEEPEST_EDGE_FLOAT else if k == 1 then .STEEPEST_EDGE_EXACT else .TEXTBOOK

def ratStr (q : Rat) : String := if q.den == 1 then s!"{q.num}" else s!"{q.num}/{q.den}"

def ansStr : Answer → String
  | .unfeasible => "unfeasible" | .unbounded => "unbounded" | .optimum v => s!"optimum({ratStr v})"
  | .unknownUnboundedIntVar => "unknown"

/-- the tokens of a dump line after the keyword -/
def dumpTokens (s : LPState) : List String :=
  let ints (l : List Int) := l.map toString
  let nats (l : List Nat) := l.map toString
  [statusStr s.status, toString s.external_space_dim, toString s.internal_space_dim, toString s.first_pending,
    toString s.numCols, toString s.tableau.length]
  ++ ["base"] ++ nats s.base
  ++ ["map", toString s.mapping.length] ++ s.mapping.flatMap (fun m => [toString m.1, toString m.2])
  ++ ["cost", toString s.working_cost.length] ++ ints s.working_cost
  ++ ["gen", toString s.last_generator.num.length, toString s.last_generator.den] ++ ints s.last_generator.num
  ++ ["rows"] ++ s.tableau.flatMap (fun r => (List.range s.numCols).map fun j => toString (r.get j))

/-- first difference of two token lists: (section keyword, index, expected, got) -/
def firstDiff (real model : List String) : Option (String × Nat × String × String) :=
  let rec go (a b : List String) (sec : String) (i : Nat) : Option (String × Nat × String × String) :=
    match a, b with
    | [], [] => none
    | x :: a', y :: b' =>
      if x == y then
        let sec' := if x == "base" || x == "map" || x == "cost" || x == "gen" || x == "rows" then x else sec
        go a' b' sec' (i+1)
      else some (sec, i, x, y)
    | x :: _, [] => some (sec, i, x, "<end>")
    | [], y :: _ => some (sec, i, "<end>", y)
  go real model "head" 0

def parseICon (n : Nat) (ts : List String) : ICon :=
  match ts with
  | rel :: k :: rest => ⟨(takeInts n rest).1, tokInt k, rel == "="⟩
  | _ => ⟨[], 0, false⟩

/-- the generator of a real dump line -/
def dumpGen (ts : List String) : Option Pt :=
  let rec find : List String → Option Pt
    | "gen" :: d :: dv :: rest => some ⟨(takeInts (tokNat d) rest).1, tokInt dv⟩
    | _ :: rest => find rest
    | [] => none
  find ts

def refOf : M Answer := do
  let st ← get
  match st.ref with
  | some a => return a
  | none =>
    let a := lpAnswer st.s.problem
    set { st with ref := some a }
    return a

def mutate (f : LPState → LPState) : M Unit :=
  modify fun st => { st with s := f st.s, ref := none }

def className : CClass → String
  | .many => "many" | .trivTrue => "trivTrue" | .trivFalse => "trivFalse" | .m13 => "c1-3"
  | .m45 => "c4-5" | .m6 => "c6" | .m7 => "c7" | .m89 => "c8-9"

/-- the finer class of the table (1..9) of a single-variable constraint -/
def tableCase (c : ICon) : String :=
  match classify c with
  | (.many, _) => "many"
  | (.trivTrue, _) => "trivTrue"
  | (.trivFalse, _) => "trivFalse"
  | (_, v) =>
    let a := c.coeffs.getD v 0
    let b := c.k
    if a > 0 && b > 0 && !c.isEq then "1" else if a > 0 && b > 0 then "2"
    else if a < 0 && b < 0 && !c.isEq then "3" else if a > 0 && b == 0 && c.isEq then "4"
    else if a > 0 && b < 0 && c.isEq then "5" else if a > 0 && b < 0 then "6"
    else if a > 0 && b == 0 then "7" else if a < 0 && b > 0 && !c.isEq then "8"
    else if a < 0 && b == 0 && !c.isEq then "9" else "eq-neg-a"

/-- coverage statistics of one `is_lp_satisfiable()` on the model state (recomputed beside the model) -/
def satStats (s0 : LPState) : String :=
  if s0.status != .PARTIALLY_SATISFIABLE then "path=cached" else
  let s := if s0.numCols == 0 then { s0 with numCols := 2, mapping := s0.mapping ++ [(0, 0)] } else s0
  let pend := s.input_cs.drop s.first_pending
  let cls := ",".intercalate (pend.map tableCase)
  let inc := if s0.first_pending > 0 || s0.internal_space_dim > 0 then 1 else 0
  let s1 := if s.internal_space_dim > 0 && s.internal_space_dim == s.external_space_dim then computeGenerator s else s
  let (nrem, nsat) := match parseConstraints s1 with
    | some p => (p.isRemerge.count true, p.isSat.count true)
    | none => (0, 0)
  let head := s!"inc={inc} npend={pend.length} cls={if cls.isEmpty then "-" else cls} remerge={nrem} presat={nsat}"
  match ppcSetup s with
  | .done s' =>
    let path := if s'.status == .UNSATISFIABLE then "trivfalse" else if s'.external_space_dim == 0 then "zerodim" else "norows"
    s!"{head} path={path}"
  | .phase1 s' b e =>
    let ch := chooserOf textbookChooser s'.pricing
    let piv := countPivots ch fuel s'.tab
    let red := match computeSimplexWith ch fuel s'.tab with
      | some (true, t) =>
        if t.cost.get 0 == 0 && b != 0 then
          t.T.length - (eraseArtificials b e s'.numCols t).1.T.length
        else 0
      | _ => 0
    let nArt := if b == 0 then 0 else e - b
    let unfeas := if b == 0 then 0 else (List.range s.tableau.length).countP fun i => b ≤ s'.base.getD i 0 && s'.base.getD i 0 < e
    s!"{head} path=phase1 rows={s'.tableau.length} cols={s'.numCols} art={nArt} unfeasRows={unfeas} piv1={piv} redundant={red}"

def secondStats (s : LPState) : String :=
  if s.status == .UNBOUNDED || s.status == .OPTIMIZED then "piv2=0 cached=1" else
    let cost := secondPhaseCost s
    let cost := revFold s.tableau.length (fun i (cost : Row) =>
      let bi := s.base.getD i 0
      if cost.get bi != 0 then linearCombine cost (s.tableau.getD i []) bi else cost) cost
    s!"piv2={countPivots (chooserOf textbookChooser s.pricing) fuel ⟨s.tableau, cost, s.base⟩} cached=0"

def pricingStr : Pricing → String
  | .STEEPEST_EDGE_FLOAT => "float" | .STEEPEST_EDGE_EXACT => "exact" | .TEXTBOOK => "textbook"

def processLine (ln : Nat) (line : String) : M Unit := do
  let ts := (line.trimAscii.toString.splitOn " ").filter (· ≠ "")
  let st ← get
  match ts with
  | "hist" :: _ => set { st with live := false, fuelOut := false, ref := none, lastGen := none, lastStatus := "" }
  | ["new", d] => set { st with s := LPState.new (tokNat d), live := true, fuelOut := false, ref := none, lastGen := none }
  | "op" :: name :: args =>
    if !st.live then pure () else
    match name, args with
    | "set_pricing", [k] => mutate fun s => setPricing s (pricingOf (tokNat k))
    | "set_obj", a => mutate fun s => setObjectiveFunction s (parseExpr s.external_space_dim a).1
    | "set_mode", [m] => mutate fun s => setOptimizationMode s (m == "max")
    | "add_con", a => mutate fun s => addConstraint s (parseICon s.external_space_dim a)
    | "add_dims", [m] => mutate fun s => addSpaceDimensionsAndEmbed s (tokNat m)
    | _, _ => bad ln s!"model:journal unknown operation {name}"
  | ["call", "sat", r] =>
    if !st.live || st.fuelOut then skip ln "dead" else
    let stats := satStats st.s
    match isLpSatisfiable textbookChooser fuel st.s with
    | none => set { st with fuelOut := true }; skip ln "fuel"
    | some (s', b) =>
      set { st with s := s' }
      let real := r == "1"
      let a ← refOf
      if real != (a != .unfeasible) then
        bad ln s!"real:satisfiable is_lp_satisfiable() = {real}, reference {ansStr a}"
      else if b != real then
        bad ln s!"model:sat model says {b}, code says {real}"
      else ok ln s!"sat pricing={pricingStr s'.pricing} res={r} {stats}"
  | ["call", "second"] =>
    if !st.live || st.fuelOut then skip ln "dead" else
    let stats := secondStats st.s
    match secondPhase textbookChooser fuel st.s with
    | none => set { st with fuelOut := true }; skip ln "fuel"
    | some s' =>
      set { st with s := s' }
      ok ln s!"second pricing={pricingStr s'.pricing} {stats}"
  | kw :: rest =>
    if kw == "dump" || kw == "dumpf" then
      if !st.live || st.fuelOut then skip ln "dead" else
      let exact := kw == "dump"
      let model := dumpTokens st.s
      let realStatus := rest.headD ""
      let g := dumpGen rest
      set { st with lastGen := g, lastStatus := realStatus }
      -- the real generator is a feasible point whenever the status promises one
      let witnessBad : Option String :=
        if realStatus == "SAT" || realStatus == "OPT" || realStatus == "UNB" then
          match g with
          | some x =>
            if x.num.length != st.s.external_space_dim then some s!"last_generator has space dimension {x.num.length}, problem {st.s.external_space_dim}"
            else if x.den ≤ 0 then some "last_generator has a non-positive divisor"
            else if !checkFeasible st.s.problem x then some "last_generator violates a constraint"
            else none
          | none => some "no generator in the dump"
        else none
      match witnessBad with
      | some w => bad ln s!"real:witness {w} (status {realStatus})"
      | none =>
        let cmpReal := if exact then rest else rest.take 4
        let cmpModel := if exact then model else model.take 4
        match firstDiff cmpReal cmpModel with
        | none => ok ln s!"{kw} status={realStatus} rows={st.s.tableau.length} cols={st.s.numCols}"
        | some (sec, i, x, y) =>
          bad ln s!"model:{sec} token {i}: code {x}, model {y} | model: {" ".intercalate (model.take 120)}"
    else if kw == "ans" then
      if !st.live || st.fuelOut then skip ln "dead" else
      let a ← refOf
      let P := st.s.problem
      match rest with
      | ["unbounded"] =>
        if a != .unbounded then bad ln s!"real:status library unbounded, reference {ansStr a}"
        else if st.s.status != .UNBOUNDED then bad ln s!"model:status model {statusStr st.s.status}, code unbounded"
        else ok ln "ans unbounded"
      | ["optimized", n, d] =>
        let v : Rat := (tokInt n : Rat) / (tokInt d : Rat)
        let atGen := match st.lastGen with | some x => P.objVal x.val == v | none => false
        if a != .optimum v then bad ln s!"real:optimum library optimal value {ratStr v}, reference {ansStr a}"
        else if !atGen then bad ln s!"real:value optimal_value {ratStr v} is not the objective at last_generator"
        else if st.s.status != .OPTIMIZED then bad ln s!"model:status model {statusStr st.s.status}, code optimized"
        else if st.s.value != v then bad ln s!"model:value model value {ratStr st.s.value}, code {ratStr v}"
        else ok ln "ans optimized"
      | _ => bad ln s!"real:status library {" ".intercalate rest}, reference {ansStr a}"
    else if kw == "crash" then
      if rest == ["SIGXCPU"] then skip ln "timeout" else bad ln s!"real:crash {" ".intercalate rest}"
    else if kw == "exc" then bad ln s!"real:exception {" ".intercalate rest}"
    else pure ()
  | [] => pure ()

partial def loop (h : IO.FS.Stream) (ln : Nat) : M Unit := do
  let line ← h.getLine
  if line.isEmpty then return ()
  processLine ln line
  loop h (ln + 1)

def run (_args : List String) : IO UInt32 := do
  let stdin ← IO.getStdin
  let ((), st) ← (loop stdin 1).run {}
  IO.println s!"summary ok={st.nOk} mismatch={st.nBad} skipped={st.nSkip}"
  return 0

end PPLV.Solver.PendingDriver
