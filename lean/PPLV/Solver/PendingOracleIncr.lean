import PPLV.Solver.PendingOracle

/-!
# C06 stage 3 — the INCREMENTAL LP oracle induced by the model of the LP machinery (executable, no Mathlib)

`solve_mip` does not solve the LP of a node from scratch: the node is a copy of an already solved `MIP_Problem` to
which the branching rows are added with `add_constraint`, then `is_lp_satisfiable()` / `second_phase()` run on the
tableau left by the previous solve.  `modelOracleIncr fc fuel k` reproduces that: the first `min k rows.length` rows
of the node are solved from scratch (`nodeState` + `lpSolve`), then every remaining row is added and solved
incrementally (`incrStep`).  UNSATISFIABLE is sticky (`add_constraint` keeps it, `is_lp_satisfiable()` answers false
at once).  `none`: fuel exhausted somewhere, or a zero-dimensional node.
-/
namespace PPLV.Solver.Pend
open PPLV.Lin PPLV.Solver

/-- `is_lp_satisfiable()` and, if it says true, `second_phase()`; the state left behind (UNSATISFIABLE when the
    answer was false) -/
def lpSolve (fc : Chooser) (fuel : Nat) (s : LPState) : Option LPState :=
  match isLpSatisfiable fc fuel s with
  | none => none
  | some (s1, false) => some s1
  | some (s1, true) => secondPhase fc fuel s1

/-- one incremental step: `add_constraint(r)`, `is_lp_satisfiable()`, `second_phase()` -/
def incrStep (fc : Chooser) (fuel : Nat) : Option LPState → BB.InRow → Option LPState
  | none, _ => none
  | some s, r => lpSolve fc fuel (addConstraint s (rowToICon r))

/-- what `solve_mip` reads from the final state -/
def lpReport : Option LPState → Option BB.LPResult
  | none => none
  | some s =>
    if s.status == .UNSATISFIABLE then some .unfeasible
    else if s.status == .OPTIMIZED then some (.optimized s.last_generator)
    else if s.status == .UNBOUNDED then some (.unbounded s.last_generator)
    else none

/-- the state after solving the first `k` rows from scratch and the remaining ones incrementally -/
def incrRun (fc : Chooser) (fuel : Nat) (k : Nat) (N : BB.Node) : Option LPState :=
  (N.rows.drop k).foldl (incrStep fc fuel) (lpSolve fc fuel (nodeState { N with rows := N.rows.take k }))

def modelOracleIncr (fc : Chooser) (fuel : Nat) (k : Nat) : BB.Oracle := fun N =>
  if N.n == 0 then none else lpReport (incrRun fc fuel k N)

end PPLV.Solver.Pend
