import PPLV.Solver.Tableau
import PPLV.Lin.Decide

/-!
# C06 stage 2 — partial correctness of one simplex phase (row algebra of `MIP_Problem.cc`)

* `linearCombine_zero_iff`, `linearCombine_get`: the combined row vanishes where the old one did
  (given the pivot row vanishes) and has a zero in the pivot column;
* `pivotRows_solutions`: `pivot` does not change the solution set of the tableau;
* `challengerDiff_pos_iff`, `challengerDiff_zero_iff`: the lcm-scaled integer comparison of
  `get_exiting_base_index` is the comparison of the ratios `|t_i0| / |t_ie|`;
* `exitingIndex_some`, `exitingIndex_none`: the row returned is eligible and lexicographically
  minimal for (ratio, base index) among the eligible rows; `none` iff no row is eligible;
* `ratio_step_nonneg`: moving the entering variable up to the minimal ratio keeps every basic
  variable non-negative;
* `textbookEntering_zero`, `no_entering_bound`: the stop test means optimality of the basic solution;
* `basicValue_spec`, `mergeSplit_spec`: the fractions of `compute_generator`.

Termination (anti-cycling) and the floating-point pricing are outside this model.
-/
namespace PPLV.Solver.Tab
open PPLV.Lin

/-! ### rows -/

theorem getD_lincomb (a b : Int) (xs ys : List Int) (k : Nat) :
    (lincomb a b xs ys).getD k 0 = a * xs.getD k 0 + b * ys.getD k 0 := by
  induction xs generalizing ys k with
  | nil =>
    simp only [lincomb, List.getD_nil, mul_zero, zero_add]
    rw [List.getD_eq_getElem?_getD, List.getElem?_map]
    cases h : ys[k]? <;> simp [List.getD_eq_getElem?_getD, h]
  | cons x xs ih =>
    cases ys with
    | nil =>
      simp only [lincomb, List.getD_nil, mul_zero, add_zero]
      rw [List.getD_eq_getElem?_getD, List.getElem?_map]
      cases h : (x :: xs)[k]? <;> simp [List.getD_eq_getElem?_getD, h]
    | cons y ys =>
      cases k with
      | zero => simp [lincomb]
      | succ k => simp only [lincomb, List.getD_cons_succ]; exact ih ys k

theorem getD_map_div (r : List Int) (g : Int) (k : Nat) : (r.map (· / g)).getD k 0 = r.getD k 0 / g := by
  rw [List.getD_eq_getElem?_getD, List.getElem?_map, List.getD_eq_getElem?_getD]
  cases r[k]? <;> simp

theorem rowVal_normalize (r : Row) (x : Val) : rowVal (normalizeRow r) x = 0 ↔ rowVal r x = 0 := by
  unfold normalizeRow rowVal
  simp only
  split
  · exact Iff.rfl
  · rename_i hg
    have hg0 : ((gcdList r : Nat) : Int) ≠ 0 := by omega
    have h := dot_map_div ((gcdList r : Nat) : Int) r (gcdList_dvd r) x
    have hq : (((gcdList r : Nat) : Int) : Rat) ≠ 0 := by exact_mod_cast hg0
    constructor
    · intro h0; rw [← h, h0, mul_zero]
    · intro h0; rw [h0] at h; exact (mul_eq_zero.mp h).resolve_left hq

theorem get_normalize_zero (r : Row) (k : Nat) (h : r.get k = 0) : (normalizeRow r).get k = 0 := by
  unfold normalizeRow Row.get at *
  simp only
  split
  · exact h
  · rw [getD_map_div, h]; simp

/-- the pivot column of the combined row is zero -/
theorem linearCombine_get (x y : Row) (k : Nat) : (linearCombine x y k).get k = 0 := by
  unfold linearCombine
  apply get_normalize_zero
  unfold Row.get
  rw [getD_lincomb]
  show -(y.get k / ((Int.gcd (x.get k) (y.get k) : Nat) : Int)) * x.get k +
      x.get k / ((Int.gcd (x.get k) (y.get k) : Nat) : Int) * y.get k = 0
  have hp := Int.gcd_dvd_left (x.get k) (y.get k)
  have hq := Int.gcd_dvd_right (x.get k) (y.get k)
  generalize ((Int.gcd (x.get k) (y.get k) : Nat) : Int) = g at *
  obtain ⟨p, hp⟩ := hp
  obtain ⟨q, hq⟩ := hq
  rw [hp, hq]
  by_cases hg : g = 0
  · subst hg; simp
  · rw [Int.mul_ediv_cancel_left _ hg, Int.mul_ediv_cancel_left _ hg]; ring

/-- where the pivot row vanishes, the combined row vanishes iff the old row did -/
theorem linearCombine_zero_iff (a y : Row) (k : Nat) (x : Val) (hy : rowVal y x = 0) (hk : y.get k ≠ 0) :
    rowVal (linearCombine a y k) x = 0 ↔ rowVal a x = 0 := by
  unfold linearCombine
  rw [rowVal_normalize]
  unfold rowVal at *
  rw [dot_lincomb, hy, mul_zero, add_zero]
  have hny : y.get k / ((Int.gcd (a.get k) (y.get k) : Nat) : Int) ≠ 0 := by
    have hq := Int.gcd_dvd_right (a.get k) (y.get k)
    generalize ((Int.gcd (a.get k) (y.get k) : Nat) : Int) = g at *
    obtain ⟨q, hq⟩ := hq
    have hg : g ≠ 0 := by
      intro h0; apply hk; rw [hq, h0]; simp
    rw [hq, Int.mul_ediv_cancel_left _ hg]
    intro hq0; apply hk; rw [hq, hq0]; simp
  have hq : ((-(y.get k / ((Int.gcd (a.get k) (y.get k) : Nat) : Int)) : Int) : Rat) ≠ 0 := by
    exact_mod_cast neg_ne_zero.mpr hny
  constructor
  · intro h; exact (mul_eq_zero.mp h).resolve_left hq
  · intro h; rw [h, mul_zero]

/-! ### pivot -/

/-- the valuation satisfies every row -/
def Sol (T : List Row) (x : Val) : Prop := ∀ i, i < T.length → rowVal (T.getD i []) x = 0

theorem pivotRows_length (T : List Row) (e r : Nat) : (pivotRows T e r).length = T.length := by
  simp [pivotRows]

theorem pivotRows_getD (T : List Row) (e r i : Nat) (hi : i < T.length) :
    (pivotRows T e r).getD i [] =
      if i != r && (T.getD i []).get e != 0 then linearCombine (T.getD i []) (T.getD r []) e else T.getD i [] := by
  unfold pivotRows
  simp only
  rw [List.getD_eq_getElem?_getD, List.getElem?_map, List.getElem?_range hi]
  rfl

/-- **`pivot` preserves the solutions of the tableau** -/
theorem pivotRows_solutions (T : List Row) (e r : Nat) (hr : r < T.length) (he : (T.getD r []).get e ≠ 0)
    (x : Val) : Sol (pivotRows T e r) x ↔ Sol T x := by
  have hrow : (pivotRows T e r).getD r [] = T.getD r [] := by
    rw [pivotRows_getD T e r r hr]; simp
  unfold Sol
  rw [pivotRows_length]
  constructor
  · intro h i hi
    have hr0 : rowVal (T.getD r []) x = 0 := by rw [← hrow]; exact h r hr
    have hi' := h i hi
    rw [pivotRows_getD T e r i hi] at hi'
    split at hi'
    · exact (linearCombine_zero_iff _ _ e x hr0 he).mp hi'
    · exact hi'
  · intro h i hi
    rw [pivotRows_getD T e r i hi]
    split
    · exact (linearCombine_zero_iff _ _ e x (h r hr) he).mpr (h i hi)
    · exact h i hi

/-- after the pivot the entering column is zero in every row but the pivot row -/
theorem pivotRows_column (T : List Row) (e r i : Nat) (hi : i < T.length) (hir : i ≠ r) :
    ((pivotRows T e r).getD i []).get e = 0 := by
  rw [pivotRows_getD T e r i hi]
  by_cases h : (T.getD i []).get e = 0
  · have hc : (i != r && (T.getD i []).get e != 0) = false := by rw [h]; simp
    rw [hc]; simp only [Bool.false_eq_true, if_false]; exact h
  · have hc : (i != r && (T.getD i []).get e != 0) = true := by
      rw [Bool.and_eq_true]; exact ⟨bne_iff_ne.mpr hir, bne_iff_ne.mpr h⟩
    rw [if_pos hc]
    exact linearCombine_get _ _ e

/-! ### the ratio test -/

/-- `|t_0| / |t_e|` -/
def ratio (T : List Row) (e i : Nat) : Rat :=
  (((T.getD i []).get 0).natAbs : Rat) / (((T.getD i []).get e).natAbs : Rat)

theorem natAbs_exact_div_mul (L : Nat) (d a : Int) (hd : d ≠ 0) (hdiv : d ∣ (L : Int)) :
    ((((L : Int) / d * a).natAbs : Nat) : Rat) = (L : Rat) * (a.natAbs : Rat) / (d.natAbs : Rat) := by
  obtain ⟨q, hq⟩ := hdiv
  have h1 : (L : Int) / d = q := by rw [hq]; exact Int.mul_ediv_cancel_left _ hd
  rw [h1, Int.natAbs_mul]
  have hL : (L : Nat) = d.natAbs * q.natAbs := by
    have := congrArg Int.natAbs hq
    rw [Int.natAbs_natCast, Int.natAbs_mul] at this
    exact this
  have hdn : ((d.natAbs : Nat) : Rat) ≠ 0 := by
    exact_mod_cast Int.natAbs_ne_zero.mpr hd
  rw [hL]
  push_cast
  field_simp

theorem challengerDiff_eq (te0 tee ti0 tie : Int) (h1 : tee ≠ 0) (h2 : tie ≠ 0) :
    ((challengerDiff te0 tee ti0 tie : Int) : Rat) =
      ((Int.lcm tee tie : Nat) : Rat) *
        ((te0.natAbs : Rat) / (tee.natAbs : Rat) - (ti0.natAbs : Rat) / (tie.natAbs : Rat)) := by
  unfold challengerDiff
  simp only
  rw [Int.cast_sub, Int.cast_natCast, Int.cast_natCast,
    natAbs_exact_div_mul _ tee te0 h1 (Int.dvd_lcm_left tee tie),
    natAbs_exact_div_mul _ tie ti0 h2 (Int.dvd_lcm_right tee tie)]
  ring

theorem lcm_pos_rat (a b : Int) (ha : a ≠ 0) (hb : b ≠ 0) : (0 : Rat) < ((Int.lcm a b : Nat) : Rat) := by
  have : 0 < Int.lcm a b := Int.lcm_pos ha hb
  exact_mod_cast this

/-- the integer comparison is the comparison of the two ratios -/
theorem challengerDiff_pos_iff (te0 tee ti0 tie : Int) (h1 : tee ≠ 0) (h2 : tie ≠ 0) :
    0 < challengerDiff te0 tee ti0 tie ↔
      (ti0.natAbs : Rat) / (tie.natAbs : Rat) < (te0.natAbs : Rat) / (tee.natAbs : Rat) := by
  have h := challengerDiff_eq te0 tee ti0 tie h1 h2
  have hl := lcm_pos_rat tee tie h1 h2
  constructor
  · intro hp
    have : (0 : Rat) < ((challengerDiff te0 tee ti0 tie : Int) : Rat) := by exact_mod_cast hp
    rw [h] at this
    have := (mul_pos_iff_of_pos_left hl).mp this
    linarith
  · intro hp
    have : (0 : Rat) < ((challengerDiff te0 tee ti0 tie : Int) : Rat) := by
      rw [h]; exact mul_pos hl (by linarith)
    exact_mod_cast this

theorem challengerDiff_zero_iff (te0 tee ti0 tie : Int) (h1 : tee ≠ 0) (h2 : tie ≠ 0) :
    challengerDiff te0 tee ti0 tie = 0 ↔
      (te0.natAbs : Rat) / (tee.natAbs : Rat) = (ti0.natAbs : Rat) / (tie.natAbs : Rat) := by
  have h := challengerDiff_eq te0 tee ti0 tie h1 h2
  have hl := lcm_pos_rat tee tie h1 h2
  constructor
  · intro hp
    rw [hp] at h
    have := (mul_eq_zero.mp h.symm).resolve_left (ne_of_gt hl)
    linarith
  · intro hp
    have : ((challengerDiff te0 tee ti0 tie : Int) : Rat) = 0 := by rw [h, hp]; ring
    exact_mod_cast this

/-- `r` is at least as good a leaving row as `j`: smaller ratio, or equal ratio and not larger base index -/
def LexLe (T : List Row) (base : List Nat) (e r j : Nat) : Prop :=
  ratio T e r < ratio T e j ∨ (ratio T e r = ratio T e j ∧ base.getD r 0 ≤ base.getD j 0)

theorem LexLe.refl (T : List Row) (base : List Nat) (e r : Nat) : LexLe T base e r r := Or.inr ⟨rfl, le_refl _⟩

theorem LexLe.trans {T : List Row} {base : List Nat} {e a b c : Nat}
    (h1 : LexLe T base e a b) (h2 : LexLe T base e b c) : LexLe T base e a c := by
  unfold LexLe at *
  rcases h1 with h1 | ⟨h1, p1⟩ <;> rcases h2 with h2 | ⟨h2, p2⟩
  · exact Or.inl (lt_trans h1 h2)
  · exact Or.inl (h2 ▸ h1)
  · exact Or.inl (h1 ▸ h2)
  · exact Or.inr ⟨h1.trans h2, le_trans p1 p2⟩

theorem eligible_ne (T : List Row) (base : List Nat) (e i : Nat) (h : eligible T base e i = true) :
    (T.getD i []).get e ≠ 0 := by
  unfold eligible at h
  simp only [Bool.and_eq_true, bne_iff_ne] at h
  intro h0
  apply h.1
  rw [h0]; rfl

theorem scanExit_spec (T : List Row) (base : List Nat) (e : Nat) :
    ∀ (is : List Nat) (cur : Nat), eligible T base e cur = true →
      eligible T base e (scanExit T base e is cur) = true ∧
      (scanExit T base e is cur = cur ∨ scanExit T base e is cur ∈ is) ∧
      LexLe T base e (scanExit T base e is cur) cur ∧
      ∀ j ∈ is, eligible T base e j = true → LexLe T base e (scanExit T base e is cur) j := by
  intro is
  induction is with
  | nil => intro cur hc; exact ⟨hc, Or.inl rfl, LexLe.refl .., fun j hj => by cases hj⟩
  | cons i is ih =>
    intro cur hc
    unfold scanExit
    by_cases hi : eligible T base e i = true
    · simp only [hi, if_true]
      have hce := eligible_ne T base e cur hc
      have hie := eligible_ne T base e i hi
      have hpos := challengerDiff_pos_iff ((T.getD cur []).get 0) ((T.getD cur []).get e)
        ((T.getD i []).get 0) ((T.getD i []).get e) hce hie
      have hzero := challengerDiff_zero_iff ((T.getD cur []).get 0) ((T.getD cur []).get e)
        ((T.getD i []).get 0) ((T.getD i []).get e) hce hie
      split
      · rename_i hsw
        -- switch to row i
        have hic : LexLe T base e i cur := by
          simp only [Bool.or_eq_true, decide_eq_true_eq, Bool.and_eq_true, beq_iff_eq] at hsw
          rcases hsw with h | ⟨h0, hb⟩
          · exact Or.inl (hpos.mp h)
          · exact Or.inr ⟨(hzero.mp h0).symm, le_of_lt hb⟩
        obtain ⟨h1, h2, h3, h4⟩ := ih i hi
        refine ⟨h1, ?_, h3.trans hic, ?_⟩
        · rcases h2 with h2 | h2
          · exact Or.inr (by rw [h2]; exact List.mem_cons_self)
          · exact Or.inr (List.mem_cons_of_mem _ h2)
        · intro j hj hje
          rcases List.mem_cons.mp hj with rfl | hj
          · exact h3
          · exact h4 j hj hje
      · rename_i hsw
        have hci : LexLe T base e cur i := by
          simp only [Bool.or_eq_true, decide_eq_true_eq, Bool.and_eq_true, beq_iff_eq, not_or, not_and,
            not_lt] at hsw
          obtain ⟨hn, hz⟩ := hsw
          by_cases h0 : challengerDiff ((T.getD cur []).get 0) ((T.getD cur []).get e)
              ((T.getD i []).get 0) ((T.getD i []).get e) = 0
          · exact Or.inr ⟨hzero.mp h0, hz h0⟩
          · left
            have hlt : challengerDiff ((T.getD cur []).get 0) ((T.getD cur []).get e)
                ((T.getD i []).get 0) ((T.getD i []).get e) < 0 := by omega
            by_contra hnot
            have hge : ratio T e i ≤ ratio T e cur := not_lt.mp hnot
            rcases lt_or_eq_of_le hge with h | h
            · have := hpos.mpr h; omega
            · exact h0 (hzero.mpr h.symm)
        obtain ⟨h1, h2, h3, h4⟩ := ih cur hc
        refine ⟨h1, ?_, h3, ?_⟩
        · rcases h2 with h2 | h2
          · exact Or.inl h2
          · exact Or.inr (List.mem_cons_of_mem _ h2)
        · intro j hj hje
          rcases List.mem_cons.mp hj with rfl | hj
          · exact h3.trans hci
          · exact h4 j hj hje
    · simp only [hi, Bool.false_eq_true, if_false]
      obtain ⟨h1, h2, h3, h4⟩ := ih cur hc
      refine ⟨h1, ?_, h3, ?_⟩
      · rcases h2 with h2 | h2
        · exact Or.inl h2
        · exact Or.inr (List.mem_cons_of_mem _ h2)
      · intro j hj hje
        rcases List.mem_cons.mp hj with rfl | hj
        · exact absurd hje hi
        · exact h4 j hj hje

theorem scanFrom_spec (T : List Row) (base : List Nat) (e : Nat) (l : List Nat) :
    match scanFrom T base e l with
    | none => ∀ j ∈ l, eligible T base e j = false
    | some r => r ∈ l ∧ eligible T base e r = true ∧ ∀ j ∈ l, eligible T base e j = true → LexLe T base e r j := by
  induction l with
  | nil => simp [scanFrom]
  | cons i is ih =>
    unfold scanFrom
    by_cases hi : eligible T base e i = true
    · simp only [hi, if_true]
      obtain ⟨h1, h2, h3, h4⟩ := scanExit_spec T base e is i hi
      refine ⟨?_, h1, ?_⟩
      · rcases h2 with h2 | h2
        · rw [h2]; exact List.mem_cons_self
        · exact List.mem_cons_of_mem _ h2
      · intro j hj hje
        rcases List.mem_cons.mp hj with rfl | hj
        · exact h3
        · exact h4 j hj hje
    · simp only [hi, Bool.false_eq_true, if_false]
      cases hs : scanFrom T base e is with
      | none =>
        rw [hs] at ih
        intro j hj
        rcases List.mem_cons.mp hj with rfl | hj
        · simpa using hi
        · exact ih j hj
      | some r =>
        rw [hs] at ih
        obtain ⟨h1, h2, h3⟩ := ih
        refine ⟨List.mem_cons_of_mem _ h1, h2, ?_⟩
        intro j hj hje
        rcases List.mem_cons.mp hj with rfl | hj
        · exact absurd hje hi
        · exact h3 j hj hje

/-- **the leaving row**: eligible, and minimal for (ratio, base index) among the eligible rows -/
theorem exitingIndex_some (T : List Row) (base : List Nat) (e r : Nat) (h : exitingIndex T base e = some r) :
    r < T.length ∧ eligible T base e r = true ∧
      ∀ j, j < T.length → eligible T base e j = true → LexLe T base e r j := by
  have := scanFrom_spec T base e (List.range T.length)
  unfold exitingIndex at h
  rw [h] at this
  obtain ⟨h1, h2, h3⟩ := this
  exact ⟨List.mem_range.mp h1, h2, fun j hj => h3 j (List.mem_range.mpr hj)⟩

/-- no leaving row: no row limits the entering variable -/
theorem exitingIndex_none (T : List Row) (base : List Nat) (e : Nat) (h : exitingIndex T base e = none) :
    ∀ j, j < T.length → eligible T base e j = false := by
  have := scanFrom_spec T base e (List.range T.length)
  unfold exitingIndex at h
  rw [h] at this
  exact fun j hj => this j (List.mem_range.mpr hj)

theorem sgn_eq_iff (a b : Int) (ha : a ≠ 0) : sgn a = sgn b ↔ (0 < a ∧ 0 < b) ∨ (a < 0 ∧ b < 0) := by
  unfold sgn
  split <;> split <;> (try split) <;> omega

/-- one row of the ratio test: with basic coefficient `b ≠ 0`, current basic value `−t0/b ≥ 0` and
    entering coefficient `a`, raising the entering variable to `θ ≥ 0` gives the basic value
    `(−t0 − a θ)/b`; it stays non-negative when the row is not eligible, and when it is eligible as
    long as `θ ≤ |t0|/|a|`. -/
theorem ratio_step_nonneg (t0 a b : Int) (θ : Rat) (hb : b ≠ 0) (hθ : 0 ≤ θ)
    (hv : 0 ≤ -(t0 : Rat) / (b : Rat))
    (hel : (a ≠ 0 ∧ sgn a = sgn b) → θ ≤ (t0.natAbs : Rat) / (a.natAbs : Rat)) :
    0 ≤ (-(t0 : Rat) - (a : Rat) * θ) / (b : Rat) := by
  have hbq : (b : Rat) ≠ 0 := by exact_mod_cast hb
  have hsplit : (-(t0 : Rat) - (a : Rat) * θ) / (b : Rat) = -(t0 : Rat) / (b : Rat) - (a : Rat) / (b : Rat) * θ := by
    field_simp
  rw [hsplit]
  by_cases hela : a ≠ 0 ∧ sgn a = sgn b
  · have hle := hel hela
    obtain ⟨ha, hs⟩ := hela
    have hab : (0 : Rat) < (a : Rat) / (b : Rat) := by
      rcases (sgn_eq_iff a b ha).mp hs with ⟨h1, h2⟩ | ⟨h1, h2⟩
      · exact div_pos (by exact_mod_cast h1) (by exact_mod_cast h2)
      · exact div_pos_of_neg_of_neg (by exact_mod_cast h1) (by exact_mod_cast h2)
    -- |t0|/|a| = (−t0/b) / (a/b)
    have hratio : (t0.natAbs : Rat) / (a.natAbs : Rat) = (-(t0 : Rat) / (b : Rat)) / ((a : Rat) / (b : Rat)) := by
      have haq : (a : Rat) ≠ 0 := by exact_mod_cast ha
      have h1 : (-(t0 : Rat) / (b : Rat)) / ((a : Rat) / (b : Rat)) = -(t0 : Rat) / (a : Rat) := by field_simp
      rw [h1]
      have hnn : 0 ≤ -(t0 : Rat) / (a : Rat) := by
        have := div_nonneg hv (le_of_lt hab)
        rw [h1] at this; exact this
      have habs : |-(t0 : Rat) / (a : Rat)| = -(t0 : Rat) / (a : Rat) := abs_of_nonneg hnn
      rw [← habs, abs_div, abs_neg]
      congr 1
      · rw [Nat.cast_natAbs]; push_cast; rfl
      · rw [Nat.cast_natAbs]; push_cast; rfl
    rw [hratio, le_div_iff₀ hab] at hle
    linarith
  · -- not eligible: a = 0, or opposite signs: the basic variable does not decrease
    have hab : (a : Rat) / (b : Rat) ≤ 0 := by
      by_cases ha : a = 0
      · rw [ha]; simp
      · have hs : sgn a ≠ sgn b := fun h => hela ⟨ha, h⟩
        have hne := mt (sgn_eq_iff a b ha).mpr hs
        rcases lt_or_gt_of_ne ha with h1 | h1 <;> rcases lt_or_gt_of_ne hb with h2 | h2
        · exact absurd (Or.inr ⟨h1, h2⟩) hne
        · exact div_nonpos_of_nonpos_of_nonneg (by exact_mod_cast le_of_lt h1) (by exact_mod_cast le_of_lt h2)
        · exact div_nonpos_of_nonneg_of_nonpos (by exact_mod_cast le_of_lt h1) (by exact_mod_cast le_of_lt h2)
        · exact absurd (Or.inl ⟨h1, h2⟩) hne
    have := mul_nonneg (neg_nonneg.mpr hab) hθ
    linarith

/-! ### the stop test -/

theorem textbookEntering_zero (cost : Row) (h : textbookEntering cost = 0) :
    ∀ j, 1 ≤ j → j < cost.length - 1 → sgn (cost.get j) ≠ sgn (cost.get (cost.length - 1)) := by
  unfold textbookEntering at h
  simp only at h
  intro j h1 h2
  cases hf : (List.range' 1 (cost.length - 1 - 1)).find?
      (fun j => sgn (cost.get j) == sgn (cost.get (cost.length - 1))) with
  | some k =>
    rw [hf] at h
    have hk := List.mem_of_find?_eq_some hf
    rw [List.mem_range'_1] at hk
    simp only at h
    omega
  | none =>
    have := List.find?_eq_none.mp hf j (by rw [List.mem_range'_1]; omega)
    simpa using this

theorem dot_le_of_pointwise (σ : Rat) (cs : List Int) (x y : Val)
    (h : ∀ j, j < cs.length → σ * ((cs.getD j 0 : Int) : Rat) * x j ≤ σ * ((cs.getD j 0 : Int) : Rat) * y j) :
    σ * dot cs x ≤ σ * dot cs y := by
  induction cs generalizing x y with
  | nil => simp
  | cons c cs ih =>
    simp only [dot_cons, mul_add]
    have h0 := h 0 (by simp)
    simp only [List.getD_cons_zero] at h0
    have hrest := ih x.tail y.tail (fun j hj => by
      have := h (j + 1) (by simp; omega)
      simpa [Val.tail] using this)
    have e1 : σ * ((c : Rat) * x 0) = σ * (c : Rat) * x 0 := by ring
    have e2 : σ * ((c : Rat) * y 0) = σ * (c : Rat) * y 0 := by ring
    rw [e1, e2]
    linarith

/-- **no entering variable ⇒ the basic solution is optimal**: with `s` the last ("sign") entry of the
    cost row, the objective value at `x` is `(c_0 + Σ_{1≤j<last} c_j x_j) / s`; when no column has the
    sign of `s`, it is at most `c_0 / s` (its value at the basic solution, where the non-basic
    variables are 0 and the basic ones have cost 0) for every non-negative `x`. -/
theorem no_entering_bound (cost : Row) (h : textbookEntering cost = 0)
    (hs : cost.get (cost.length - 1) ≠ 0) (hlen : 2 ≤ cost.length) (x : Val)
    (hx0 : x 0 = 1) (hxl : x (cost.length - 1) = 0) (hx : ∀ j, 1 ≤ j → j < cost.length - 1 → 0 ≤ x j) :
    dot cost x / ((cost.get (cost.length - 1) : Int) : Rat) ≤
      ((cost.get 0 : Int) : Rat) / ((cost.get (cost.length - 1) : Int) : Rat) := by
  have hno := textbookEntering_zero cost h
  let s : Int := cost.get (cost.length - 1)
  have hsq : ((s : Int) : Rat) ≠ 0 := by exact_mod_cast hs
  let y : Val := fun j => if j = 0 then 1 else 0
  have hy : dot cost y = ((cost.get 0 : Int) : Rat) := by
    cases cost with
    | nil => simp at hlen
    | cons c cs =>
      simp only [dot_cons, Row.get, List.getD_cons_zero]
      have : dot cs (Val.tail y) = 0 := by
        have : Val.tail y = Val.zero := by funext j; simp [Val.tail, y, Val.zero]
        rw [this, dot_zero]
      rw [this]; simp [y]
  have key := dot_le_of_pointwise (1 / (s : Rat)) cost x y (fun j hj => by
    by_cases h0 : j = 0
    · subst h0; rw [hx0]; simp [y]
    · by_cases hl : j = cost.length - 1
      · have hne : cost.length - 1 ≠ 0 := by omega
        rw [hl, hxl]; simp [y, hne]
      · have hj1 : 1 ≤ j := by omega
        have hj2 : j < cost.length - 1 := by omega
        have hsg := hno j hj1 hj2
        have hxj := hx j hj1 hj2
        simp only [y, h0, if_false, mul_zero]
        -- c_j / s ≤ 0
        have hc : (1 / (s : Rat)) * ((cost.getD j 0 : Int) : Rat) ≤ 0 := by
          by_cases hcj : cost.get j = 0
          · have : cost.getD j 0 = 0 := hcj
            rw [this]; simp
          · have hne := mt (sgn_eq_iff (cost.get j) s hcj).mpr hsg
            have hcq : cost.getD j 0 = cost.get j := rfl
            rw [hcq, one_div, inv_mul_eq_div]
            rcases lt_or_gt_of_ne hcj with h1 | h1 <;> rcases lt_or_gt_of_ne hs with h2 | h2
            · exact absurd (Or.inr ⟨h1, h2⟩) hne
            · exact div_nonpos_of_nonpos_of_nonneg (by exact_mod_cast le_of_lt h1) (by exact_mod_cast le_of_lt h2)
            · exact div_nonpos_of_nonneg_of_nonpos (by exact_mod_cast le_of_lt h1) (by exact_mod_cast le_of_lt h2)
            · exact absurd (Or.inl ⟨h1, h2⟩) hne
        exact mul_nonpos_of_nonpos_of_nonneg hc hxj)
  rw [hy] at key
  rw [div_eq_inv_mul, div_eq_inv_mul, ← one_div]
  exact key

/-! ### `compute_generator` -/

theorem basicValue_spec (t : Row) (b : Nat) (hb : t.get b ≠ 0) :
    0 < (basicValue t b).2 ∧
      ((basicValue t b).1 : Rat) / ((basicValue t b).2 : Rat) = -((t.get 0 : Int) : Rat) / ((t.get b : Int) : Rat) := by
  unfold basicValue
  split
  · rename_i h
    exact ⟨h, by push_cast; rfl⟩
  · rename_i h
    refine ⟨by omega, ?_⟩
    have hbq : ((t.get b : Int) : Rat) ≠ 0 := by exact_mod_cast hb
    push_cast
    field_simp

theorem mergeSplit_spec (n1 d1 n2 d2 : Int) (h1 : 0 < d1) (h2 : 0 < d2) :
    0 < (mergeSplit n1 d1 n2 d2).2 ∧
      ((mergeSplit n1 d1 n2 d2).1 : Rat) / ((mergeSplit n1 d1 n2 d2).2 : Rat) =
        (n1 : Rat) / (d1 : Rat) - (n2 : Rat) / (d2 : Rat) := by
  have hd1 : d1 ≠ 0 := by omega
  have hd2 : d2 ≠ 0 := by omega
  obtain ⟨q1, hq1⟩ := Int.dvd_lcm_left d1 d2
  obtain ⟨q2, hq2⟩ := Int.dvd_lcm_right d1 d2
  have e1 : ((Int.lcm d1 d2 : Nat) : Int) / d1 = q1 := by rw [hq1]; exact Int.mul_ediv_cancel_left _ hd1
  have e2 : ((Int.lcm d1 d2 : Nat) : Int) / d2 = q2 := by rw [hq2]; exact Int.mul_ediv_cancel_left _ hd2
  have hL : (0 : Int) < ((Int.lcm d1 d2 : Nat) : Int) := by exact_mod_cast Int.lcm_pos hd1 hd2
  have hd1q : (d1 : Rat) ≠ 0 := by exact_mod_cast hd1
  have hd2q : (d2 : Rat) ≠ 0 := by exact_mod_cast hd2
  have hLq : (((Int.lcm d1 d2 : Nat) : Int) : Rat) ≠ 0 := by exact_mod_cast ne_of_gt hL
  -- the exact value as a fraction over the lcm
  have hval : ((n1 * q1 - n2 * q2 : Int) : Rat) / (((Int.lcm d1 d2 : Nat) : Int) : Rat) =
      (n1 : Rat) / (d1 : Rat) - (n2 : Rat) / (d2 : Rat) := by
    have a1 : (((Int.lcm d1 d2 : Nat) : Int) : Rat) = (d1 : Rat) * (q1 : Rat) := by exact_mod_cast hq1
    have a2 : (((Int.lcm d1 d2 : Nat) : Int) : Rat) = (d2 : Rat) * (q2 : Rat) := by exact_mod_cast hq2
    have hq1q : (q1 : Rat) ≠ 0 := by
      intro h0; rw [h0, mul_zero] at a1; exact hLq a1
    have hq2q : (q2 : Rat) ≠ 0 := by
      intro h0; rw [h0, mul_zero] at a2; exact hLq a2
    have t1 : (n1 : Rat) / (d1 : Rat) = (n1 : Rat) * (q1 : Rat) / (((Int.lcm d1 d2 : Nat) : Int) : Rat) := by
      rw [a1]; field_simp
    have t2 : (n2 : Rat) / (d2 : Rat) = (n2 : Rat) * (q2 : Rat) / (((Int.lcm d1 d2 : Nat) : Int) : Rat) := by
      rw [a2]; field_simp
    rw [t1, t2]; push_cast; ring
  unfold mergeSplit
  simp only [e1, e2]
  split
  · rename_i hz
    refine ⟨by norm_num, ?_⟩
    rw [← hval, hz]; simp
  · exact ⟨hL, hval⟩

end PPLV.Solver.Tab
