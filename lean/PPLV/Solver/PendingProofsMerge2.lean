import PPLV.Solver.PendingProofsIncrDefs

/-!
# C06 stage 3 — package A (`merge_split_variable`), part 1: one merge on the components of the state

Column arithmetic of `remove_column(q)` (`unshift`, `shiftDown`, `deleteAt`, `insertZero`), the effect of one
`merge_split_variable` on tableau / base / mapping as functions of the components (`mergeBase`, `mergeUnf`,
`mergeMap`), and the three single-merge lemmas:

* `oldOK_step`  — structure (`OldOK`) is kept, the row whose basic variable was the removed column is reported;
* `mapS_step`, `proj_mergeMap`, `negZero_step`, `pos0_insertZero`, `pos0_deleteAt`, `sol_erase_iff` — semantics;
* `bsol_step`   — the basic solution when the removed column was not basic.
-/
namespace PPLV.Solver.Pend
open PPLV.Lin PPLV.Solver PPLV.Solver.Tab

/-! ### column arithmetic -/

/-- the old column that column `j` of the tableau without column `q` was -/
def unshift (q j : Nat) : Nat := if j < q then j else j + 1

/-- the new index of the old column `b` (`b ≠ q`) -/
def shiftDown (q b : Nat) : Nat := if b > q then b - 1 else b

/-- the valuation of the shortened tableau that a valuation of the old one (0 at `q`) gives -/
def deleteAt (q : Nat) (y : Val) : Val := fun j => y (unshift q j)

theorem unshift_shiftDown (q b : Nat) (h : b ≠ q) : unshift q (shiftDown q b) = b := by
  unfold unshift shiftDown; split_ifs <;> omega

theorem shiftDown_zero (q : Nat) : shiftDown q 0 = 0 := by unfold shiftDown; simp

theorem shiftDown_eq_zero (q b : Nat) (hq : 1 ≤ q) : shiftDown q b = 0 ↔ b = 0 := by
  unfold shiftDown; split_ifs <;> omega

theorem unshift_zero (q : Nat) (hq : 1 ≤ q) : unshift q 0 = 0 := by unfold unshift; rw [if_pos (by omega)]

theorem get_eraseIdx (r : Row) (q j : Nat) : Row.get (r.eraseIdx q) j = Row.get r (unshift q j) := by
  unfold Row.get unshift
  rw [List.getD_eq_getElem?_getD, List.getD_eq_getElem?_getD, List.getElem?_eraseIdx]
  split <;> rfl

theorem insertZero_deleteAt (q : Nat) (y : Val) (h : y q = 0) : insertZero q (deleteAt q y) = y := by
  funext j
  unfold insertZero deleteAt unshift
  by_cases h1 : j < q
  · simp [h1]
  · by_cases h2 : j = q
    · simp [h2, h]
    · have h3 : ¬ j - 1 < q := by omega
      simp only [h1, h2, h3, if_false]
      congr 1; omega

theorem insertZero_at (q : Nat) (y : Val) : insertZero q y q = 0 := by simp [insertZero]

theorem insertZero_ne (q b : Nat) (y : Val) (h : b ≠ q) : insertZero q y b = y (shiftDown q b) := by
  unfold insertZero shiftDown
  by_cases h1 : b < q
  · have : ¬ b > q := by omega
    simp [h1, this]
  · have : b > q := by omega
    simp [h1, h, this]

theorem pos0_insertZero (q nc : Nat) (y : Val) (hq1 : 1 ≤ q) (hqn : q < nc - 1) (h : Pos0 (nc - 1) y) :
    Pos0 nc (insertZero q y) := by
  obtain ⟨h0, h1, h2⟩ := h
  refine ⟨?_, fun j hj => ?_, fun j hj => ?_⟩
  · rw [insertZero_ne q 0 y (by omega), shiftDown_zero]; exact h0
  · by_cases hjq : j = q
    · rw [hjq, insertZero_at]
    · rw [insertZero_ne q j y hjq]
      apply h1; unfold shiftDown; split_ifs <;> omega
  · rw [insertZero_ne q j y (by omega)]
    apply h2; unfold shiftDown; split_ifs <;> omega

theorem pos0_deleteAt (q nc : Nat) (y : Val) (hq1 : 1 ≤ q) (hqn : q < nc - 1) (h : Pos0 nc y) :
    Pos0 (nc - 1) (deleteAt q y) := by
  obtain ⟨h0, h1, h2⟩ := h
  refine ⟨?_, fun j hj => ?_, fun j hj => ?_⟩
  · unfold deleteAt; rw [unshift_zero q hq1]; exact h0
  · unfold deleteAt; apply h1; unfold unshift; split_ifs <;> omega
  · unfold deleteAt; apply h2; unfold unshift; split_ifs <;> omega

/-! ### lists -/

theorem getD_set_gen {α : Type} (l : List α) (i k : Nat) (v d : α) (hi : i < l.length) :
    (l.set i v).getD k d = if k = i then v else l.getD k d := by
  rw [List.getD_eq_getElem?_getD, List.getElem?_set, List.getD_eq_getElem?_getD]
  by_cases h : i = k
  · subst h; simp [hi]
  · have h' : ¬ k = i := fun a => h a.symm
    simp [h, h']

theorem getD_map_gen {α : Type} (l : List α) (f : α → α) (d : α) (hf : f d = d) (i : Nat) :
    (l.map f).getD i d = f (l.getD i d) := by
  rw [List.getD_eq_getElem?_getD, List.getD_eq_getElem?_getD, List.getElem?_map]
  cases l[i]? <;> simp [hf]

/-- the tableau without column `q` -/
def eraseCol (T : List Row) (q : Nat) : List Row := T.map fun r => r.eraseIdx q

theorem eraseCol_length (T : List Row) (q : Nat) : (eraseCol T q).length = T.length := by simp [eraseCol]

theorem eraseCol_getD (T : List Row) (q i : Nat) : (eraseCol T q).getD i [] = (T.getD i []).eraseIdx q := by
  unfold eraseCol
  exact getD_map_gen T (fun r => r.eraseIdx q) [] (by simp) i

theorem eraseCol_get (T : List Row) (q i j : Nat) :
    ((eraseCol T q).getD i []).get j = (T.getD i []).get (unshift q j) := by
  rw [eraseCol_getD, get_eraseIdx]

theorem sol_erase_iff (T : List Row) (q : Nat) (y : Val) : Sol (eraseCol T q) y ↔ Sol T (insertZero q y) := by
  unfold Sol
  rw [eraseCol_length]
  constructor
  · intro h i hi; have := h i hi; rwa [eraseCol_getD, rowVal_eraseIdx] at this
  · intro h i hi; rw [eraseCol_getD, rowVal_eraseIdx]; exact h i hi

/-! ### base and the reported row -/

/-- `base` after one merge removing column `q` -/
def mergeBase (base : List Nat) (q : Nat) : List Nat :=
  (match isInBase base q with
    | some bi => base.set bi 0
    | none => base).map (shiftDown q)

/-- the list of rows made unfeasible after one merge removing column `q` -/
def mergeUnf (unf : List Nat) (base : List Nat) (q : Nat) : List Nat :=
  match isInBase base q with
  | some r => unf ++ [r]
  | none => unf

theorem mergeBase_spec {T : List Row} {base : List Nat} {nc : Nat} {unf : List Nat} (q : Nat)
    (h : OldOK T base nc unf) (hq1 : 1 ≤ q) :
    (∀ i, i < T.length →
      (mergeBase base q).getD i 0 = if base.getD i 0 = q then 0 else shiftDown q (base.getD i 0)) ∧
    (mergeBase base q).length = base.length ∧
    (∀ i, i ∈ mergeUnf unf base q ↔ i ∈ unf ∨ (i < T.length ∧ base.getD i 0 = q)) ∧
    (mergeUnf unf base q).Nodup ∧
    (mergeUnf unf base q = [] →
      unf = [] ∧ mergeBase base q = base.map (shiftDown q) ∧ ∀ i, i < T.length → base.getD i 0 ≠ q) := by
  obtain ⟨s1, s2⟩ := isInBase_spec base q
  unfold mergeBase mergeUnf
  cases hb : isInBase base q with
  | none =>
    have hn := s2 hb
    rw [h.lenB] at hn
    refine ⟨fun i hi => ?_, by simp, fun i => ?_, h.unfNodup, fun hu => ⟨hu, rfl, hn⟩⟩
    · simp only
      rw [getD_map_gen base (shiftDown q) 0 (shiftDown_zero q) i, if_neg (hn i hi)]
    · simp only
      constructor
      · intro hi; exact Or.inl hi
      · rintro (hi | ⟨hi, he⟩)
        · exact hi
        · exact absurd he (hn i hi)
  | some bi =>
    obtain ⟨hbi, hbq⟩ := s1 bi hb
    have hbiT : bi < T.length := by rw [← h.lenB]; exact hbi
    have hne : base.getD bi 0 ≠ 0 := by omega
    have huniq : ∀ i, i < T.length → base.getD i 0 = q → i = bi := by
      intro i hi he
      by_contra hib
      have h1 := h.basicCol i bi hi hbiT hib (by omega)
      have h2 := h.basicNZ bi hbiT hne
      rw [he] at h1; rw [hbq] at h2
      exact h2 h1
    have hnotin : bi ∉ unf := fun hin => hne ((h.unfBase bi hbiT).mpr hin)
    refine ⟨fun i hi => ?_, by simp, fun i => ?_, ?_, fun hu => ?_⟩
    · simp only
      rw [getD_map_gen _ (shiftDown q) 0 (shiftDown_zero q) i, getD_set_gen base bi i 0 0 hbi]
      by_cases hib : i = bi
      · rw [if_pos hib, hib, hbq, if_pos rfl, shiftDown_zero]
      · rw [if_neg hib, if_neg (fun he => hib (huniq i hi he))]
    · simp only [List.mem_append, List.mem_singleton]
      constructor
      · rintro (hi | hi)
        · exact Or.inl hi
        · exact Or.inr ⟨by rw [hi]; exact hbiT, by rw [hi]; exact hbq⟩
      · rintro (hi | ⟨hi, he⟩)
        · exact Or.inl hi
        · exact Or.inr (huniq i hi he)
    · simp only
      rw [List.nodup_append]
      refine ⟨h.unfNodup, by simp, ?_⟩
      intro a ha b hb'
      simp only [List.mem_singleton] at hb'
      intro hab; rw [hab, hb'] at ha; exact hnotin ha
    · simp at hu

/-- one merge keeps the structure of the old rows -/
theorem oldOK_step {T : List Row} {base : List Nat} {nc : Nat} {unf : List Nat} (h : OldOK T base nc unf) (q : Nat)
    (hq2 : 2 ≤ q) (hqn : q < nc - 1) :
    OldOK (eraseCol T q) (mergeBase base q) (nc - 1) (mergeUnf unf base q) := by
  obtain ⟨b1, b2, b3, b4, -⟩ := mergeBase_spec q h (by omega)
  have hlen := eraseCol_length T q
  have key : ∀ i, i < T.length → (mergeBase base q).getD i 0 ≠ 0 →
      base.getD i 0 ≠ q ∧ base.getD i 0 ≠ 0 ∧ unshift q ((mergeBase base q).getD i 0) = base.getD i 0 ∧
        (mergeBase base q).getD i 0 = shiftDown q (base.getD i 0) := by
    intro i hi hne
    rw [b1 i hi] at hne ⊢
    by_cases he : base.getD i 0 = q
    · rw [if_pos he] at hne; exact absurd rfl hne
    · rw [if_neg he] at hne ⊢
      refine ⟨he, ?_, unshift_shiftDown q _ he, rfl⟩
      intro h0; rw [h0, shiftDown_zero] at hne; exact hne rfl
  refine ⟨by rw [b2, h.lenB, hlen], by omega, ?_, ?_, ?_, b4, ?_, ?_, ?_, ?_, ?_⟩
  · intro i hi
    rw [hlen] at hi
    rw [eraseCol_getD, List.length_eraseIdx, if_pos (by rw [h.rowLen i hi]; omega), h.rowLen i hi]
  · intro i hi
    rw [hlen] at hi
    rw [eraseCol_get]
    have : unshift q (nc - 1 - 1) = nc - 1 := by unfold unshift; split_ifs <;> omega
    rw [this]; exact h.lastZero i hi
  · intro r hr
    rw [hlen]
    rcases (b3 r).mp hr with hr | ⟨hr, -⟩
    · exact h.unfLt r hr
    · exact hr
  · intro i hi
    rw [hlen] at hi
    rw [b1 i hi, b3 i]
    by_cases he : base.getD i 0 = q
    · rw [if_pos he]; exact ⟨fun _ => Or.inr ⟨hi, he⟩, fun _ => rfl⟩
    · rw [if_neg he, shiftDown_eq_zero q _ (by omega), h.unfBase i hi]
      constructor
      · intro hh; exact Or.inl hh
      · rintro (hh | ⟨-, hh⟩)
        · exact hh
        · exact absurd hh he
  · intro i hi hne
    rw [hlen] at hi
    obtain ⟨k1, k2, -, k4⟩ := key i hi hne
    have := h.baseRange i hi k2
    rw [k4]; unfold shiftDown; split_ifs <;> omega
  · intro i hi hne
    rw [hlen] at hi
    obtain ⟨-, k2, k3, -⟩ := key i hi hne
    rw [eraseCol_get, k3]; exact h.basicNZ i hi k2
  · intro i j hi hj hij hne
    rw [hlen] at hi hj
    obtain ⟨-, k2, k3, -⟩ := key i hi hne
    rw [eraseCol_get, k3]; exact h.basicCol i j hi hj hij k2
  · intro i hi hne
    rw [hlen] at hi
    obtain ⟨-, k2, k3, -⟩ := key i hi hne
    rw [eraseCol_get, eraseCol_get, k3, unshift_zero q (by omega)]; exact h.feas i hi k2

/-! ### the mapping -/

/-- the mapping facts the merge loop keeps (`MapOK` without the list of sign flags, columns before the last one) -/
structure MapS (M : List (Nat × Nat)) (n nc : Nat) : Prop where
  len : M.length = n + 1
  zero : M.getD 0 (0, 0) = (0, 0)
  cols : ∀ u, u < n → 1 ≤ (M.getD (u+1) (0, 0)).1 ∧
    ((M.getD (u+1) (0, 0)).2 = 0 ∨ (M.getD (u+1) (0, 0)).2 = (M.getD (u+1) (0, 0)).1 + 1) ∧
    hiCol (M.getD (u+1) (0, 0)) < nc - 1
  ord : ∀ u u', u < u' → u' < n → hiCol (M.getD (u+1) (0, 0)) < (M.getD (u'+1) (0, 0)).1

theorem MapS.ofMapOK {M : List (Nat × Nat)} {nn : List Bool} {n j nc : Nat} (h : MapOK M nn n j)
    (hj : 1 + j ≤ nc - 1) : MapS M n nc :=
  ⟨h.len, h.zero, fun u hu => ⟨(h.cols u hu).1, (h.cols u hu).2.1, by have := (h.cols u hu).2.2.2; omega⟩, h.ord⟩

theorem MapS.toMapOK {M : List (Nat × Nat)} {n nc : Nat} (h : MapS M n nc) (hnc : 2 ≤ nc) :
    ∃ nn j, MapOK M nn n j ∧ 1 + j ≤ nc - 1 := by
  refine ⟨(List.range n).map (fun u => decide ((M.getD (u+1) (0, 0)).2 = 0)), nc - 2,
    ⟨h.len, h.zero, fun u hu => ⟨(h.cols u hu).1, (h.cols u hu).2.1, ?_, by have := (h.cols u hu).2.2; omega⟩,
      h.ord⟩, by omega⟩
  have e : ((List.range n).map (fun u => decide ((M.getD (u+1) (0, 0)).2 = 0))).getD u false =
      decide ((M.getD (u+1) (0, 0)).2 = 0) := by
    rw [List.getD_eq_getElem?_getD, List.getElem?_map, List.getElem?_range hu]; rfl
  rw [e]; simp

def shiftPair (q : Nat) (m : Nat × Nat) : Nat × Nat := (shiftDown q m.1, shiftDown q m.2)

/-- `mapping` after merging variable `v` -/
def mergeMap (M : List (Nat × Nat)) (v : Nat) : List (Nat × Nat) :=
  (M.set (1 + v) ((M.getD (1 + v) (0, 0)).1, 0)).map (shiftPair (M.getD (1 + v) (0, 0)).2)

theorem mergeMap_length (M : List (Nat × Nat)) (v : Nat) : (mergeMap M v).length = M.length := by
  simp [mergeMap]

theorem mergeMap_getD (M : List (Nat × Nat)) (v k : Nat) (hv : v + 1 < M.length) :
    (mergeMap M v).getD k (0, 0) = shiftPair (M.getD (v+1) (0, 0)).2
      (if k = v + 1 then ((M.getD (v+1) (0, 0)).1, 0) else M.getD k (0, 0)) := by
  unfold mergeMap
  rw [Nat.add_comm 1 v]
  rw [getD_map_gen _ _ (0, 0) (by simp [shiftPair, shiftDown_zero]) k, getD_set_gen M (v+1) k _ _ hv]

/-- the columns of the other variables lie strictly on one side of the pair `(q-1, q)` -/
theorem MapS.others {M : List (Nat × Nat)} {n nc : Nat} (h : MapS M n nc) (v : Nat) (hv : v < n)
    (hq : (M.getD (v+1) (0, 0)).2 ≠ 0) :
    (M.getD (v+1) (0, 0)).2 = (M.getD (v+1) (0, 0)).1 + 1 ∧ 1 ≤ (M.getD (v+1) (0, 0)).1 ∧
    (M.getD (v+1) (0, 0)).2 < nc - 1 ∧
    ∀ u, u < n → u ≠ v →
      (u < v ∧ hiCol (M.getD (u+1) (0, 0)) < (M.getD (v+1) (0, 0)).1) ∨
      (v < u ∧ (M.getD (v+1) (0, 0)).2 < (M.getD (u+1) (0, 0)).1) := by
  obtain ⟨c1, c2, c3⟩ := h.cols v hv
  have hhi : hiCol (M.getD (v+1) (0, 0)) = (M.getD (v+1) (0, 0)).2 := by unfold hiCol; rw [if_neg hq]
  rw [hhi] at c3
  refine ⟨by omega, c1, c3, fun u hu huv => ?_⟩
  rcases Nat.lt_or_gt_of_ne huv with hlt | hgt
  · exact Or.inl ⟨hlt, h.ord u v hlt hv⟩
  · have := h.ord v u hgt hu
    rw [hhi] at this
    exact Or.inr ⟨hgt, this⟩

theorem mapS_step {M : List (Nat × Nat)} {n nc : Nat} (h : MapS M n nc) (v : Nat) (hv : v < n)
    (hq : (M.getD (v+1) (0, 0)).2 ≠ 0) :
    MapS (mergeMap M v) n (nc - 1) ∧ ((mergeMap M v).getD (v+1) (0, 0)).2 = 0 ∧
    ∀ u, u < n → u ≠ v → (((mergeMap M v).getD (u+1) (0, 0)).2 = 0 ↔ (M.getD (u+1) (0, 0)).2 = 0) := by
  obtain ⟨o1, o2, o3, o4⟩ := h.others v hv hq
  have hvM : v + 1 < M.length := by rw [h.len]; omega
  have hg := fun k => mergeMap_getD M v k hvM
  have hgv : (mergeMap M v).getD (v+1) (0, 0) = ((M.getD (v+1) (0, 0)).1, 0) := by
    rw [hg, if_pos rfl]; unfold shiftPair shiftDown; simp only; rw [if_neg (by omega), if_neg (by omega)]
  have hgu : ∀ u, u ≠ v → (mergeMap M v).getD (u+1) (0, 0) =
      shiftPair (M.getD (v+1) (0, 0)).2 (M.getD (u+1) (0, 0)) := by
    intro u hu; rw [hg, if_neg (by omega)]
  refine ⟨⟨by rw [mergeMap_length, h.len], ?_, ?_, ?_⟩, by rw [hgv], ?_⟩
  · rw [hg, if_neg (by omega), h.zero]; simp [shiftPair, shiftDown_zero]
  · intro u hu
    by_cases huv : u = v
    · subst huv
      rw [hgv]; refine ⟨o2, Or.inl rfl, ?_⟩; unfold hiCol; simp only [if_true]; omega
    · rw [hgu u huv]
      obtain ⟨c1, c2, c3⟩ := h.cols u hu
      have o := o4 u hu huv
      revert c1 c2 c3 o o1 o2 o3
      generalize M.getD (u+1) (0, 0) = m
      generalize M.getD (v+1) (0, 0) = mv
      obtain ⟨a, b⟩ := m
      obtain ⟨p, q⟩ := mv
      simp only [hiCol, shiftPair, shiftDown]
      intro o1 o2 o3 c1 c2 c3 o
      refine ⟨?_, ?_, ?_⟩ <;> (split_ifs at * <;> omega)
  · intro u u' huu hu'
    have hu : u < n := by omega
    have hord := h.ord u u' huu hu'
    obtain ⟨c1, c2, c3⟩ := h.cols u hu
    obtain ⟨d1, d2, d3⟩ := h.cols u' hu'
    by_cases huv : u = v
    · subst huv
      have hu'v : u' ≠ u := by omega
      rw [hgv, hgu u' hu'v]
      have o := o4 u' hu' hu'v
      revert d1 d2 d3 o o1 o2 o3 hord
      generalize M.getD (u'+1) (0, 0) = m
      generalize M.getD (u+1) (0, 0) = mv
      obtain ⟨a, b⟩ := m
      obtain ⟨p, q⟩ := mv
      simp only [hiCol, shiftPair, shiftDown]
      intro o1 o2 o3 hord d1 d2 d3 o
      split_ifs at * <;> omega
    · by_cases hu'v : u' = v
      · subst hu'v
        rw [hgv, hgu u huv]
        have o := o4 u hu huv
        revert c1 c2 c3 o o1 o2 o3 hord
        generalize M.getD (u+1) (0, 0) = m
        generalize M.getD (u'+1) (0, 0) = mv
        obtain ⟨a, b⟩ := m
        obtain ⟨p, q⟩ := mv
        simp only [hiCol, shiftPair, shiftDown]
        intro o1 o2 o3 hord c1 c2 c3 o
        split_ifs at * <;> omega
      · rw [hgu u huv, hgu u' hu'v]
        have o := o4 u hu huv
        have o' := o4 u' hu' hu'v
        revert c1 c2 c3 d1 d2 d3 o o' o1 o2 o3 hord
        generalize M.getD (u+1) (0, 0) = m
        generalize M.getD (u'+1) (0, 0) = m'
        generalize M.getD (v+1) (0, 0) = mv
        obtain ⟨a, b⟩ := m
        obtain ⟨a', b'⟩ := m'
        obtain ⟨p, q⟩ := mv
        simp only [hiCol, shiftPair, shiftDown]
        intro o1 o2 o3 hord c1 c2 c3 d1 d2 d3 o o'
        split_ifs at * <;> omega
  · intro u hu huv
    rw [hgu u huv]
    unfold shiftPair
    simp only
    exact shiftDown_eq_zero _ _ (by omega)

end PPLV.Solver.Pend
