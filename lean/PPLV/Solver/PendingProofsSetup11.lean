import PPLV.Solver.PendingProofsSetup10

/-!
# C06 stage 3 — the "already satisfied" flags of `parse_constraints`, and the first-phase cost row

* `parse_isSat`: a flag is set only on an inequality with several non-zero coefficients that holds at
  `last_generator`; for the origin this means inhomogeneous term ≥ 0;
* `dot_nonpos_terms`, `phase1_cost_sem`: the first-phase cost row (−1 on the artificial columns, 1 on the sign
  column) is ≤ 0 on non-negative valuations, and 0 exactly when every artificial is 0.
-/
namespace PPLV.Solver.Pend
open PPLV.Lin PPLV.Solver.Tab

theorem foldl_add_zeros (l : List Int) (h : ∀ x ∈ l, x = 0) (a : Int) : l.foldl (· + ·) a = a := by
  induction l generalizing a with
  | nil => rfl
  | cons x l ih =>
    rw [List.foldl_cons, h x List.mem_cons_self, Int.add_zero]
    exact ih (fun y hy => h y (List.mem_cons_of_mem _ hy)) a

/-- an inequality "satisfied" at the origin has inhomogeneous term ≥ 0 -/
theorem isSatisfied_origin (c : ICon) (he : c.isEq = false) (h : isSatisfied c ⟨[], 1⟩ = true) : 0 ≤ c.k := by
  unfold isSatisfied at h
  rw [he] at h
  simp only [Bool.false_eq_true, if_false, decide_eq_true_eq] at h
  unfold spSign at h
  simp only at h
  rw [foldl_add_zeros _ (by
    intro x hx
    obtain ⟨i, -, rfl⟩ := List.mem_map.mp hx
    simp)] at h
  rcases sgn_vals (c.k * 1) with ⟨a1, a2⟩ | ⟨a1, a2⟩ | ⟨a1, a2⟩
  · rw [a2] at h; omega
  · omega
  · omega

/-- effect of one iteration of the loop of `parse_constraints` on the flags -/
theorem parseStep_isSat (s : LPState) (pend : List ICon) (p : Nat) (a a' : Parsed)
    (h : parseStep s pend p (some a) = some a') :
    a'.isSat.length = a.isSat.length ∧
    ∀ k, a'.isSat.getD k false = true → a.isSat.getD k false = true ∨
      (k = p ∧ slackC (pend.getD p default) = true ∧ (pend.getD p default).isEq = false ∧
        isSatisfied (pend.getD p default) s.last_generator = true) := by
  rcases hcl : classify (pend.getD p default) with ⟨cls, v⟩
  have htab := tabC_of hcl
  unfold parseStep at h
  cases cls <;> simp only [hcl] at h
  case many =>
    by_cases he : (pend.getD p default).isEq = true
    · simp only [he, Bool.not_true, Bool.false_eq_true, if_false, Bool.false_and, Option.some.injEq] at h
      subst h; exact ⟨rfl, fun k hk => Or.inl hk⟩
    · have he' : (pend.getD p default).isEq = false := by simpa using he
      simp only [he', Bool.not_false, if_true, Bool.true_and] at h
      by_cases hs : isSatisfied (pend.getD p default) s.last_generator = true
      · rw [if_pos hs] at h
        simp only [Option.some.injEq] at h
        subst h
        refine ⟨by simp, fun k hk => ?_⟩
        simp only at hk
        rw [getD_set_bool] at hk
        by_cases hkp : k = p ∧ p < a.isSat.length
        · right
          refine ⟨hkp.1, ?_, he', hs⟩
          unfold slackC; rw [htab, he']; rfl
        · rw [if_neg hkp] at hk; exact Or.inl hk
      · rw [if_neg hs] at h
        simp only [Option.some.injEq] at h
        subst h; exact ⟨rfl, fun k hk => Or.inl hk⟩
  case trivFalse => cases h
  case trivTrue =>
    simp only [Option.some.injEq] at h
    subst h; exact ⟨rfl, fun k hk => Or.inl hk⟩
  case m13 =>
    split at h <;> (simp only [Option.some.injEq] at h; subst h; exact ⟨rfl, fun k hk => Or.inl hk⟩)
  case m45 =>
    simp only [Option.some.injEq] at h
    subst h; exact ⟨rfl, fun k hk => Or.inl hk⟩
  case m6 =>
    simp only [Option.some.injEq] at h
    subst h; exact ⟨rfl, fun k hk => Or.inl hk⟩
  case m7 =>
    simp only [Option.some.injEq] at h
    subst h
    refine ⟨?_, fun k hk => Or.inl ?_⟩
    · split
      · split <;> rfl
      · rfl
    · revert hk
      split
      · split <;> exact id
      · exact id
  case m89 =>
    simp only [Option.some.injEq] at h
    subst h; exact ⟨rfl, fun k hk => Or.inl hk⟩

theorem parseStep_none (s : LPState) (pend : List ICon) (p : Nat) : parseStep s pend p none = none := rfl

/-- **the flags of `parse_constraints`**: as many as pending constraints; each one marks an inequality that
    enters the tableau and is satisfied at `last_generator` -/
theorem parse_isSat (s : LPState) (p : Parsed) (h : parseConstraints s = some p) :
    p.isSat.length = (s.input_cs.drop s.first_pending).length ∧
    ∀ k, p.isSat.getD k false = true → k < (s.input_cs.drop s.first_pending).length ∧
      slackC ((s.input_cs.drop s.first_pending).getD k default) = true ∧
      ((s.input_cs.drop s.first_pending).getD k default).isEq = false ∧
      isSatisfied ((s.input_cs.drop s.first_pending).getD k default) s.last_generator = true := by
  unfold parseConstraints at h
  simp only at h
  set pend := s.input_cs.drop s.first_pending with hpend
  have key : ∀ init : Parsed, init.isSat = List.replicate pend.length false →
      ∀ a, revFold pend.length (parseStep s pend) (some init) = some a →
      a.isSat.length = pend.length ∧
      ∀ k, a.isSat.getD k false = true → k < pend.length ∧ slackC (pend.getD k default) = true ∧
        (pend.getD k default).isEq = false ∧ isSatisfied (pend.getD k default) s.last_generator = true := by
    intro init hinit
    apply revFold_inv
      (fun (i : Nat) (acc : Option Parsed) => ∀ a, acc = some a →
        a.isSat.length = pend.length ∧
        ∀ k, a.isSat.getD k false = true → k < pend.length ∧ slackC (pend.getD k default) = true ∧
          (pend.getD k default).isEq = false ∧ isSatisfied (pend.getD k default) s.last_generator = true)
      (parseStep s pend) pend.length (some init)
    · intro a ha
      simp only [Option.some.injEq] at ha
      subst ha
      refine ⟨by rw [hinit]; simp, fun k hk => ?_⟩
      exfalso
      rw [hinit, List.getD_eq_getElem?_getD] at hk
      by_cases hkl : k < pend.length
      · rw [List.getElem?_replicate_of_lt hkl] at hk; cases hk
      · rw [List.getElem?_eq_none (by simpa using hkl)] at hk; cases hk
    · intro i hi acc hacc a' ha'
      cases acc with
      | none => rw [parseStep_none] at ha'; cases ha'
      | some a =>
        obtain ⟨h1, h2⟩ := hacc a rfl
        obtain ⟨g1, g2⟩ := parseStep_isSat s pend i a a' ha'
        refine ⟨by rw [g1, h1], fun k hk => ?_⟩
        rcases g2 k hk with hk' | ⟨rfl, q1, q2, q3⟩
        · exact h2 k hk'
        · exact ⟨hi, q1, q2, q3⟩
  exact key _ rfl p h

/-! ### a sum of non-positive terms -/

theorem dot_nonpos_terms (c : List Int) (y : Val) (h : ∀ j, ((c.getD j 0 : Int) : Rat) * y j ≤ 0) :
    dot c y ≤ 0 ∧ (dot c y = 0 → ∀ j, ((c.getD j 0 : Int) : Rat) * y j = 0) := by
  induction c generalizing y with
  | nil => exact ⟨le_refl _, fun _ j => by simp⟩
  | cons a as ih =>
    have h0 := h 0
    simp only [List.getD_cons_zero] at h0
    obtain ⟨i1, i2⟩ := ih y.tail (fun j => by
      have := h (j + 1)
      simpa [Val.tail] using this)
    rw [dot_cons]
    refine ⟨by linarith, fun hz j => ?_⟩
    have ha : (a : Rat) * y 0 = 0 := by linarith
    have ht : dot as y.tail = 0 := by linarith
    cases j with
    | zero => simpa using ha
    | succ j =>
      have := i2 ht j
      simpa [Val.tail] using this

/-- the first-phase cost row before re-expression: −1 on `[SL, last)`, 1 on `last`, 0 elsewhere -/
def IsPhase1Cost (cost : Row) (SL : Nat) : Prop :=
  ∀ j, cost.getD j 0 = if j = cost.length - 1 then 1 else if SL ≤ j ∧ j < cost.length - 1 then -1 else 0

theorem phase1_cost_sem (cost : Row) (SL : Nat) (hc : IsPhase1Cost cost SL) (hSL : 1 ≤ SL) (hlen : 2 ≤ cost.length)
    (y : Val) (hy : NonnegPt cost.length y) :
    objAt cost y ≤ 0 ∧
    (objAt cost y = 0 ↔ ∀ j, SL ≤ j → j < cost.length - 1 → y j = 0) := by
  have hlast : cost.get (cost.length - 1) = 1 := by
    unfold Row.get; rw [hc, if_pos rfl]
  have hobj : objAt cost y = dot cost y := by unfold objAt; rw [hlast]; simp
  have hterms : ∀ j, ((cost.getD j 0 : Int) : Rat) * y j ≤ 0 := by
    intro j
    rw [hc j]
    by_cases h1 : j = cost.length - 1
    · rw [if_pos h1, h1, hy.2.1]; simp
    · rw [if_neg h1]
      by_cases h2 : SL ≤ j ∧ j < cost.length - 1
      · rw [if_pos h2]
        have := hy.2.2 j (by omega) h2.2
        push_cast; linarith
      · rw [if_neg h2]; simp
  obtain ⟨d1, d2⟩ := dot_nonpos_terms cost y hterms
  rw [hobj]
  refine ⟨d1, fun hz j h1 h2 => ?_, fun hall => ?_⟩
  · have := d2 hz j
    rw [hc j, if_neg (by omega), if_pos ⟨h1, h2⟩] at this
    push_cast at this; linarith
  · apply dot_eq_zero_of_support
    intro j
    rw [hc j]
    by_cases h1 : j = cost.length - 1
    · right; rw [h1]; exact hy.2.1
    · rw [if_neg h1]
      by_cases h2 : SL ≤ j ∧ j < cost.length - 1
      · right; exact hall j h2.1 h2.2
      · left; rw [if_neg h2]

end PPLV.Solver.Pend
