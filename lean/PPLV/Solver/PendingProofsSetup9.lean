import PPLV.Solver.PendingProofsSetup8

/-!
# C06 stage 3 — the artificial columns (:918–:949) of a fresh problem, structurally

`count_true_range`, `countP_not_range`: counting flags through indices.
`artificials_struct`: when the number of rows not worked out is the number of artificial columns reserved
(`SL + rem 0 = numCols − 1`), every such row gets its own artificial column in `[SL, numCols − 1)` with
coefficient 1, zero in every other row; worked rows and `base` entries of worked rows are untouched; the cost
row is −1 exactly on the artificial columns; `end_artificials = numCols − 1`.
-/
namespace PPLV.Solver.Pend
open PPLV.Lin PPLV.Solver.Tab

theorem count_true_range (l : List Bool) :
    (List.range l.length).countP (fun r => l.getD r false) = l.count true := by
  induction l with
  | nil => rfl
  | cons a l ih =>
    rw [List.length_cons, List.range_succ_eq_map, List.countP_cons, List.countP_map]
    have : ((fun r => (a :: l).getD r false) ∘ Nat.succ) = fun r => l.getD r false := by
      funext r; simp
    rw [this, ih]
    cases a <;> simp

theorem countP_not_range (l : List Bool) :
    (List.range l.length).countP (fun r => !l.getD r false) = l.length - l.count true := by
  induction l with
  | nil => rfl
  | cons a l ih =>
    rw [List.length_cons, List.range_succ_eq_map, List.countP_cons, List.countP_map]
    have : ((fun r => !(a :: l).getD r false) ∘ Nat.succ) = fun r => !l.getD r false := by
      funext r; simp
    rw [this, ih]
    have hle : l.count true ≤ l.length := List.count_le_length
    cases a <;> simp <;> omega

/-- rows not worked out among the rows `≥ i` -/
def remCount (N : Nat) (worked : List Bool) (i : Nat) : Nat :=
  ((List.range N).drop i).countP (fun r => !worked.getD r false)

theorem remCount_step (N : Nat) (worked : List Bool) (i : Nat) (hi : i < N) :
    remCount N worked i = (if worked.getD i false then 0 else 1) + remCount N worked (i+1) := by
  unfold remCount
  have : (List.range N).drop i = i :: (List.range N).drop (i+1) := by
    rw [List.drop_eq_getElem_cons (by simpa using hi)]; simp
  rw [this, List.countP_cons]
  cases worked.getD i false <;> simp <;> omega

theorem remCount_end (N : Nat) (worked : List Bool) : remCount N worked N = 0 := by
  unfold remCount; rw [List.drop_eq_nil_of_le (by simp)]; rfl

/-- the result of the artificial-column loop of a fresh problem -/
structure ArtOut (N numCols SL : Nat) (worked : List Bool) (T1 : List Row) (base0 : List Nat)
    (out : List Row × Row × List Nat × Nat) : Prop where
  lenT : out.1.length = N
  lenB : out.2.2.1.length = N
  lenC : out.2.1.length = numCols
  endA : out.2.2.2 = numCols - 1
  rowLen : ∀ r, r < N → (out.1.getD r []).length = numCols
  art : ∀ r, r < N → worked.getD r false = false →
    SL ≤ out.2.2.1.getD r 0 ∧ out.2.2.1.getD r 0 < numCols - 1 ∧
    (out.1.getD r []).get (out.2.2.1.getD r 0) = 1 ∧
    ∀ col, col ≠ out.2.2.1.getD r 0 → (out.1.getD r []).get col = (T1.getD r []).get col
  keep : ∀ r, r < N → worked.getD r false = true →
    out.1.getD r [] = T1.getD r [] ∧ out.2.2.1.getD r 0 = base0.getD r 0
  other : ∀ r r', r < N → r' < N → r ≠ r' → worked.getD r false = false →
    (out.1.getD r' []).get (out.2.2.1.getD r 0) = 0
  cost : ∀ j, out.2.1.getD j 0 = if SL ≤ j ∧ j < numCols - 1 then -1 else 0

theorem artificials_struct (N numCols SL : Nat) (worked : List Bool) (T1 : List Row) (base0 : List Nat)
    (hT : T1.length = N) (hB : base0.length = N) (hrows : ∀ r, r < N → (T1.getD r []).length = numCols)
    (hzero : ∀ r, r < N → ∀ col, SL ≤ col → (T1.getD r []).get col = 0)
    (hcount : SL + remCount N worked 0 = numCols - 1) (hnc : 1 ≤ numCols) :
    ArtOut N numCols SL worked T1 base0 (ppcArtificials [] 0 N worked T1 (zeros numCols) base0 SL) := by
  unfold ppcArtificials
  simp only [List.foldl_nil, Nat.sub_zero]
  have key := fwdFold_inv
    (fun (i : Nat) (acc : List Row × Row × List Nat × Nat) =>
      acc.1.length = N ∧ acc.2.2.1.length = N ∧ acc.2.1.length = numCols ∧
      acc.2.2.2 + remCount N worked i = numCols - 1 ∧ SL ≤ acc.2.2.2 ∧
      (∀ r, r < N → (acc.1.getD r []).length = numCols) ∧
      (∀ r, r < N → r < i → worked.getD r false = false →
        SL ≤ acc.2.2.1.getD r 0 ∧ acc.2.2.1.getD r 0 < acc.2.2.2 ∧
        (acc.1.getD r []).get (acc.2.2.1.getD r 0) = 1 ∧
        ∀ col, col ≠ acc.2.2.1.getD r 0 → (acc.1.getD r []).get col = (T1.getD r []).get col) ∧
      (∀ r, r < N → ¬ (r < i ∧ worked.getD r false = false) →
        acc.1.getD r [] = T1.getD r [] ∧ acc.2.2.1.getD r 0 = base0.getD r 0) ∧
      (∀ r r', r < N → r' < N → r ≠ r' → r < i → worked.getD r false = false →
        (acc.1.getD r' []).get (acc.2.2.1.getD r 0) = 0) ∧
      (∀ j, acc.2.1.getD j 0 = if SL ≤ j ∧ j < acc.2.2.2 then -1 else 0))
    (fun i (acc : List Row × Row × List Nat × Nat) =>
      let (T, cost, base, ai) := acc
      if worked.getD i false then acc
      else (T.set i ((T.getD i []).set ai 1), cost.set ai (-1), base.set i ai, ai + 1))
    N 0 (T1, zeros numCols, base0, SL)
    ⟨hT, hB, by simp [zeros], hcount, le_refl _, hrows, fun r _ hr => by omega,
      fun r _ _ => ⟨rfl, rfl⟩, fun r r' _ _ _ hr => by omega,
      fun j => by
        show (zeros numCols).getD j 0 = if SL ≤ j ∧ j < SL then -1 else 0
        rw [zeros_getD, if_neg (by omega)]⟩
    (by
      intro i _ hi acc ⟨a1, a2, a3, a4, a5, a6, a7, a8, a9, a10⟩
      simp only [Nat.zero_add] at hi
      obtain ⟨T, cst, bs, ai⟩ := acc
      simp only at a1 a2 a3 a4 a5 a6 a7 a8 a9 a10 ⊢
      have hrem := remCount_step N worked i hi
      by_cases hw : worked.getD i false = true
      · simp only [hw, if_true]
        rw [hw] at hrem
        simp only [if_true, Nat.zero_add] at hrem
        refine ⟨a1, a2, a3, by rw [← hrem]; exact a4, a5, a6, ?_, ?_, ?_, a10⟩
        · intro r hr hri hwr
          have : r ≠ i := by intro h; rw [h, hw] at hwr; cases hwr
          exact a7 r hr (by omega) hwr
        · intro r hr hnot
          apply a8 r hr
          rintro ⟨h1, h2⟩
          exact hnot ⟨by omega, h2⟩
        · intro r r' hr hr' hne hri hwr
          have : r ≠ i := by intro h; rw [h, hw] at hwr; cases hwr
          exact a9 r r' hr hr' hne (by omega) hwr
      · have hw' : worked.getD i false = false := by simpa using hw
        simp only [hw', Bool.false_eq_true, if_false]
        rw [hw'] at hrem
        simp only [Bool.false_eq_true, if_false] at hrem
        have hai : ai < numCols - 1 := by omega
        have hiT : i < T.length := by rw [a1]; exact hi
        have hiB : i < bs.length := by rw [a2]; exact hi
        obtain ⟨hTi, hbi⟩ := a8 i hi (by rintro ⟨h, -⟩; omega)
        have hlen_i : (T.getD i []).length = numCols := a6 i hi
        have hget_i : ∀ col, Row.get ((T.getD i []).set ai 1) col = if col = ai then 1 else (T.getD i []).get col := by
          intro col
          unfold Row.get
          rw [getD_set_int]
          by_cases hc : col = ai
          · rw [if_pos ⟨hc, by rw [hlen_i]; omega⟩, if_pos hc]
          · rw [if_neg (fun a => hc a.1), if_neg hc]
        refine ⟨by rw [List.length_set]; exact a1, by rw [List.length_set]; exact a2,
          by rw [List.length_set]; exact a3, by omega, by omega, ?_, ?_, ?_, ?_, ?_⟩
        · intro r hr
          rw [getD_set_row _ _ _ _ hiT]
          split
          · rw [List.length_set]; exact hlen_i
          · exact a6 r hr
        · intro r hr hri hwr
          rw [getD_set_row _ _ _ _ hiT, getD_set_nat' _ _ _ _ hiB]
          by_cases hreq : r = i
          · rw [if_pos hreq, if_pos hreq]
            refine ⟨a5, by omega, by rw [hget_i, if_pos rfl], fun col hcol => ?_⟩
            rw [hget_i, if_neg hcol, hTi, hreq]
          · rw [if_neg hreq, if_neg hreq]
            obtain ⟨b1, b2, b3, b4⟩ := a7 r hr (by omega) hwr
            exact ⟨b1, by omega, b3, b4⟩
        · intro r hr hnot
          have hreq : r ≠ i := by intro h; apply hnot; rw [h]; exact ⟨by omega, hw'⟩
          rw [getD_set_row _ _ _ _ hiT, getD_set_nat' _ _ _ _ hiB, if_neg hreq, if_neg hreq]
          apply a8 r hr
          rintro ⟨h1, h2⟩
          exact hnot ⟨by omega, h2⟩
        · intro r r' hr hr' hne hri hwr
          rw [getD_set_row _ _ _ _ hiT, getD_set_nat' _ _ _ _ hiB]
          by_cases hreq : r = i
          · rw [if_pos hreq]
            have hr'i : r' ≠ i := fun h => hne (hreq.trans h.symm)
            rw [if_neg hr'i]
            -- row r' at the fresh column ai
            by_cases hcase : r' < i ∧ worked.getD r' false = false
            · obtain ⟨b1, b2, b3, b4⟩ := a7 r' hr' hcase.1 hcase.2
              rw [b4 ai (by omega)]
              exact hzero r' hr' ai a5
            · rw [(a8 r' hr' hcase).1]
              exact hzero r' hr' ai a5
          · rw [if_neg hreq]
            have hri' : r < i := by omega
            obtain ⟨b1, b2, b3, b4⟩ := a7 r hr hri' hwr
            by_cases hr'i : r' = i
            · rw [if_pos hr'i, hget_i, if_neg (by omega)]
              have := a9 r i hr hi (by omega) hri' hwr
              exact this
            · rw [if_neg hr'i]
              exact a9 r r' hr hr' hne hri' hwr
        · intro j
          rw [getD_set_int, a10 j]
          by_cases hj : j = ai
          · rw [if_pos ⟨hj, by rw [a3]; omega⟩, if_pos (by omega)]
          · rw [if_neg (fun a => hj a.1)]
            by_cases h1 : SL ≤ j ∧ j < ai
            · rw [if_pos h1, if_pos (by omega)]
            · rw [if_neg h1, if_neg (by omega)])
  simp only [Nat.zero_add] at key
  obtain ⟨k1, k2, k3, k4, k5, k6, k7, k8, k9, k10⟩ := key
  rw [remCount_end, Nat.add_zero] at k4
  refine ⟨k1, k2, k3, k4, k6, fun r hr hw => ?_, fun r hr hw => ?_, fun r r' hr hr' hne hw => ?_, fun j => ?_⟩
  · obtain ⟨b1, b2, b3, b4⟩ := k7 r hr hr hw
    exact ⟨b1, by omega, b3, b4⟩
  · exact k8 r hr (by rintro ⟨-, h⟩; rw [hw] at h; cases h)
  · exact k9 r r' hr hr' hne hr hw
  · rw [k10 j, k4]

end PPLV.Solver.Pend
