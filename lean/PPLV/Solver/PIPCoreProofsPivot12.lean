import PPLV.Solver.PIPCoreProofsPivot11
/-!
# C07 stage 2 — pivot family, part 12: the pivot preserves the RATIONAL solutions; `IntInv`
-/
namespace PPLV.PIPCore.Piv

/-! ### the parameter part of a pivoted row (integers) -/

section tdot
variable {nd0 nd' : SolNode} {pi pj : Nat} {f : Int}

theorem _root_.PPLV.PIPCore.PivotSpec.piv_t_dot_other (hs : PivotSpec nd0 nd' pi pj f)
    {q : List Int} (hq : q.length = nd0.tab.nt) {i : Nat} (hi : i < nd0.tab.s.length)
    (hne : i ≠ pi) :
    mget nd0.tab.s pi pj * dot (mrow nd'.tab.t i) q
      = (f * mget nd0.tab.s pi pj) * dot (mrow nd0.tab.t i) q
        + (-(f * mget nd0.tab.s i pj)) * dot (mrow nd0.tab.t pi) q := by
  rw [dot_eq_sumTo' _ hq, dot_eq_sumTo' _ hq, dot_eq_sumTo' _ hq, ← sumTo_mul_left, ← sumTo_lin]
  apply sumTo_congr
  intro c hc
  have := hs.t_other i c hi hc hne
  unfold mget at this ⊢
  linear_combination (rget q c) * this

theorem _root_.PPLV.PIPCore.PivotSpec.piv_t_dot_row (hs : PivotSpec nd0 nd' pi pj f)
    {q : List Int} (hq : q.length = nd0.tab.nt) :
    mget nd0.tab.s pi pj * dot (mrow nd'.tab.t pi) q
      = (-(f * nd0.tab.den)) * dot (mrow nd0.tab.t pi) q := by
  rw [dot_eq_sumTo' _ hq, dot_eq_sumTo' _ hq, ← sumTo_mul_left, ← sumTo_mul_left]
  apply sumTo_congr
  intro c hc
  have := hs.t_row c hc
  unfold mget at this ⊢
  linear_combination (rget q c) * this

end tdot

/-! ### the algebra over ℚ -/

section algebraQ
variable (ns pj : Nat) (D spp f x : ℚ) (ap w : Nat → ℚ) (Tp : ℚ)

theorem old_row_splitQ (hpj : pj < ns) (ai : Nat → ℚ) (Ti X : ℚ) :
    (D * X = sumQ ns (fun j => ai j * w j) + Ti) ↔
    (D * X = sumQ ns (fun j => if j = pj then 0 else ai j * w j) + ai pj * w pj + Ti) := by
  rw [sumQ_split (fun j => ai j * w j) hpj]

theorem new_row_splitQ (hpj : pj < ns) (a' : Nat → ℚ) (T' Y : ℚ) :
    (Y = sumQ ns (fun j => a' j * (if j = pj then x else w j)) + T') ↔
    (Y = sumQ ns (fun j => if j = pj then 0 else a' j * w j) + a' pj * x + T') := by
  rw [sumQ_split (fun j => a' j * (if j = pj then x else w j)) hpj]
  have : sumQ ns (fun j => if j = pj then 0 else a' j * (if j = pj then x else w j))
      = sumQ ns (fun j => if j = pj then 0 else a' j * w j) :=
    sumQ_congr (fun j _ => by by_cases h : j = pj <;> simp [h])
  rw [this]; simp

theorem pivot_row_algebraQ (hpj : pj < ns) (hD : D ≠ 0) (hf : f ≠ 0) (hspp : spp ≠ 0)
    (hap : ap pj = spp) (a'p : Nat → ℚ) (T'p : ℚ)
    (h1 : ∀ j, j < ns → j ≠ pj → a'p j * spp = -(f * (D * ap j)))
    (h2 : a'p pj * spp = f * (D * D))
    (E2 : spp * T'p = -(f * D) * Tp) :
    (D * x = sumQ ns (fun j => ap j * w j) + Tp) ↔
    (f * D * w pj = sumQ ns (fun j => a'p j * (if j = pj then x else w j)) + T'p) := by
  rw [old_row_splitQ ns pj D w hpj ap Tp x, new_row_splitQ ns pj x w hpj a'p T'p]
  have E1 : spp * sumQ ns (fun j => if j = pj then 0 else a'p j * w j)
      = -(f * D) * sumQ ns (fun j => if j = pj then 0 else ap j * w j) := by
    rw [← sumQ_mul_left, ← sumQ_mul_left]
    apply sumQ_congr
    intro j hj
    by_cases h : j = pj
    · simp [h]
    · simp only [h, if_false]
      linear_combination (w j) * h1 j hj h
  rw [hap]
  constructor
  · intro e
    apply mul_left_cancel₀ hspp
    linear_combination (-(f * D)) * e - E1 - E2 - x * h2
  · intro e
    apply mul_left_cancel₀ (mul_ne_zero hf hD)
    linear_combination (-spp) * e - E1 - E2 - x * h2

theorem other_row_algebraQ (hpj : pj < ns) (hf : f ≠ 0) (hspp : spp ≠ 0)
    (hap : ap pj = spp)
    (hrow : D * x = sumQ ns (fun j => ap j * w j) + Tp)
    (ai a'i : Nat → ℚ) (Ti T'i X : ℚ)
    (k1 : ∀ j, j < ns → j ≠ pj → a'i j * spp = f * (ai j * spp - ai pj * ap j))
    (k2 : a'i pj * spp = f * (ai pj * D))
    (E2 : spp * T'i = (f * spp) * Ti + (-(f * ai pj)) * Tp) :
    (D * X = sumQ ns (fun j => ai j * w j) + Ti) ↔
    (f * D * X = sumQ ns (fun j => a'i j * (if j = pj then x else w j)) + T'i) := by
  rw [old_row_splitQ ns pj D w hpj ap Tp x, hap] at hrow
  rw [old_row_splitQ ns pj D w hpj ai Ti X, new_row_splitQ ns pj x w hpj a'i T'i]
  have E1 : spp * sumQ ns (fun j => if j = pj then 0 else a'i j * w j)
      = (f * spp) * sumQ ns (fun j => if j = pj then 0 else ai j * w j)
        + (-(f * ai pj)) * sumQ ns (fun j => if j = pj then 0 else ap j * w j) := by
    rw [← sumQ_mul_left, ← sumQ_lin]
    apply sumQ_congr
    intro j hj
    by_cases h : j = pj
    · simp [h]
    · simp only [h, if_false]
      linear_combination (w j) * k1 j hj h
  constructor
  · intro e
    apply mul_left_cancel₀ hspp
    linear_combination (f * spp) * e - E1 - E2 - x * k2 - (f * ai pj) * hrow
  · intro e
    apply mul_left_cancel₀ (mul_ne_zero hf hspp)
    linear_combination spp * e + E1 + E2 + x * k2 + (f * ai pj) * hrow

end algebraQ

/-! ### rows of the two nodes over ℚ -/

section rowsQ
variable {nd0 nd' : SolNode} {pi pj : Nat} {f : Int}

theorem _root_.PPLV.PIPCore.PivotSpec.piv_new_row_iffQ (hs : PivotSpec nd0 nd' pi pj f)
    (h : WF nd0) (v : Nat → ℚ) (q : List Int) (i : Nat) :
    RowHoldsQ nd' v q i ↔
      (f : ℚ) * (nd0.tab.den : ℚ) * v (natGet nd'.varRow i)
        = sumQ nd0.tab.ns (fun j => (mget nd'.tab.s i j : ℚ) *
              (if j = pj then v (natGet nd0.varRow pi) else v (natGet nd0.varColumn j)))
          + ((dot (mrow nd'.tab.t i) q : Int) : ℚ) := by
  rw [rowHoldsQ_iff_sum nd' v q (hs.piv_vc_len h) i, hs.den_eq]
  have : sumQ nd0.tab.ns (fun j => (mget nd'.tab.s i j : ℚ) * v (natGet nd'.varColumn j))
      = sumQ nd0.tab.ns (fun j => (mget nd'.tab.s i j : ℚ) *
              (if j = pj then v (natGet nd0.varRow pi) else v (natGet nd0.varColumn j))) := by
    apply sumQ_congr
    intro j hj
    rw [hs.var_col]
    by_cases e : j = pj
    · subst e
      rw [natGet_set_same _ (by rw [h.vc_len]; exact hj)]; simp
    · rw [natGet_set_ne _ (Ne.symm e)]; simp [e]
  rw [this]; push_cast; rfl

theorem _root_.PPLV.PIPCore.PivotSpec.piv_pivot_row_iffQ (hs : PivotSpec nd0 nd' pi pj f)
    (h : WF nd0) (hpi : pi < nd0.tab.s.length) (hpj : pj < nd0.tab.ns)
    (hspp : mget nd0.tab.s pi pj ≠ 0) (v : Nat → ℚ) {q : List Int} (hq : q.length = nd0.tab.nt) :
    RowHoldsQ nd0 v q pi ↔ RowHoldsQ nd' v q pi := by
  rw [rowHoldsQ_iff_sum nd0 v q h.vc_len pi, hs.piv_new_row_iffQ h v q pi, hs.var_row,
    natGet_set_same _ (by rw [h.vr_len]; exact hpi)]
  exact pivot_row_algebraQ nd0.tab.ns pj (nd0.tab.den : ℚ) (mget nd0.tab.s pi pj : ℚ) (f : ℚ)
    (v (natGet nd0.varRow pi)) (fun j => (mget nd0.tab.s pi j : ℚ))
    (fun j => v (natGet nd0.varColumn j)) ((dot (mrow nd0.tab.t pi) q : Int) : ℚ) hpj
    (by exact_mod_cast ne_of_gt h.den_pos) (by exact_mod_cast ne_of_gt hs.f_pos)
    (by exact_mod_cast hspp) rfl (fun j => (mget nd'.tab.s pi j : ℚ))
    ((dot (mrow nd'.tab.t pi) q : Int) : ℚ)
    (fun j hj hne => by exact_mod_cast hs.s_row j hj hne) (by exact_mod_cast hs.s_piv)
    (by exact_mod_cast hs.piv_t_dot_row hq)

theorem _root_.PPLV.PIPCore.PivotSpec.piv_other_row_iffQ (hs : PivotSpec nd0 nd' pi pj f)
    (h : WF nd0) (hpj : pj < nd0.tab.ns) (hspp : mget nd0.tab.s pi pj ≠ 0)
    (v : Nat → ℚ) {q : List Int} (hq : q.length = nd0.tab.nt)
    (hrow : RowHoldsQ nd0 v q pi) {i : Nat} (hi : i < nd0.tab.s.length) (hne : i ≠ pi) :
    RowHoldsQ nd0 v q i ↔ RowHoldsQ nd' v q i := by
  rw [rowHoldsQ_iff_sum nd0 v q h.vc_len pi] at hrow
  rw [rowHoldsQ_iff_sum nd0 v q h.vc_len i, hs.piv_new_row_iffQ h v q i, hs.var_row,
    natGet_set_ne _ (Ne.symm hne)]
  exact other_row_algebraQ nd0.tab.ns pj (nd0.tab.den : ℚ) (mget nd0.tab.s pi pj : ℚ) (f : ℚ)
    (v (natGet nd0.varRow pi)) (fun j => (mget nd0.tab.s pi j : ℚ))
    (fun j => v (natGet nd0.varColumn j)) ((dot (mrow nd0.tab.t pi) q : Int) : ℚ) hpj
    (by exact_mod_cast ne_of_gt hs.f_pos) (by exact_mod_cast hspp) rfl hrow
    (fun j => (mget nd0.tab.s i j : ℚ)) (fun j => (mget nd'.tab.s i j : ℚ))
    ((dot (mrow nd0.tab.t i) q : Int) : ℚ) ((dot (mrow nd'.tab.t i) q : Int) : ℚ)
    (v (natGet nd0.varRow i))
    (fun j hj hnj => by exact_mod_cast hs.s_other i j hi hj hne hnj)
    (by exact_mod_cast hs.s_col i hi hne)
    (by exact_mod_cast hs.piv_t_dot_other hq hi hne)

end rowsQ

/-- the entry formulas of the pivot preserve the RATIONAL solutions -/
theorem pivotSpec_tabsatQ {nd0 nd' : SolNode} {pi pj : Nat} {f : Int} (h : WF nd0)
    (hpi : pi < nd0.tab.s.length) (hpj : pj < nd0.tab.ns) (hspp : mget nd0.tab.s pi pj ≠ 0)
    (hs : PivotSpec nd0 nd' pi pj f) {q : List Int} (hq : q.length = nd0.tab.nt) :
    ∀ v : Nat → ℚ, TabSatQ nd0 v q ↔ TabSatQ nd' v q := by
  intro v
  unfold TabSatQ
  rw [hs.shape.1]
  constructor
  · intro H i hi
    by_cases e : i = pi
    · subst e; exact (hs.piv_pivot_row_iffQ h hpi hpj hspp v hq).mp (H i hi)
    · exact (hs.piv_other_row_iffQ h hpj hspp v hq (H pi hpi) hi e).mp (H i hi)
  · intro H
    have hrow : RowHoldsQ nd0 v q pi := (hs.piv_pivot_row_iffQ h hpi hpj hspp v hq).mpr (H pi hpi)
    intro i hi
    by_cases e : i = pi
    · subst e; exact hrow
    · exact (hs.piv_other_row_iffQ h hpj hspp v hq hrow hi e).mpr (H i hi)

theorem pivot_tabsatQ {nd : SolNode} (h : WF nd) {pi pj : Nat} (hpi : pi < nd.tab.s.length)
    (hpj : pj < nd.tab.ns) (hspp : 0 < mget nd.tab.s pi pj) {q : List Int}
    (hq : q.length = nd.tab.nt) :
    ∀ v : Nat → ℚ, TabSatQ nd v q ↔ TabSatQ (pivot nd pi pj) v q := by
  intro v
  have hspp' := (normalize_sign h pi pj).mpr hspp
  obtain ⟨f, hS⟩ := pivot_spec h hpi hpj hspp'
  have sh := normalize_shape nd.tab
  rw [← normalize_tabsatQ h v q]
  exact pivotSpec_tabsatQ (normalize_wf h)
    (by show pi < nd.tab.normalize.s.length; rw [sh.1]; exact hpi)
    (by show pj < nd.tab.normalize.ns; rw [sh.2.2.1]; exact hpj) (ne_of_gt hspp') hS
    (by show q.length = nd.tab.normalize.nt; rw [sh.2.2.2]; exact hq) v

theorem pivot_ns (nd : SolNode) (pi pj : Nat) {f : Int}
    (hS : PivotSpec { nd with tab := nd.tab.normalize } (pivot nd pi pj) pi pj f) :
    (pivot nd pi pj).tab.ns = nd.tab.ns := by
  rw [hS.shape.2.2.1]; exact (normalize_shape nd.tab).2.2.1

theorem pivot_mapping_length (nd : SolNode) (pi pj : Nat) :
    (pivot nd pi pj).mapping.length = nd.mapping.length := by
  rw [pivot_eq]
  show ((nd.mapping.set _ _).set _ _).length = _
  rw [List.length_set, List.length_set]

theorem pivot_intinv {nd : SolNode} (h : WF nd) {pi pj : Nat} (hpi : pi < nd.tab.s.length)
    (hpj : pj < nd.tab.ns) (hspp : 0 < mget nd.tab.s pi pj) {q : List Int}
    (hq : q.length = nd.tab.nt) (hI : IntInv nd q) : IntInv (pivot nd pi pj) q := by
  obtain ⟨f, hS⟩ := pivot_spec h hpi hpj ((normalize_sign h pi pj).mpr hspp)
  intro v hv hint k hk
  rw [pivot_mapping_length] at hk
  rw [pivot_ns nd pi pj hS] at hint
  exact hI v ((pivot_tabsatQ h hpi hpj hspp hq v).mpr hv) hint k hk

theorem normalize_intinv {nd : SolNode} (h : WF nd) {q : List Int} (hI : IntInv nd q) :
    IntInv { nd with tab := nd.tab.normalize } q := by
  intro v hv hint k hk
  have hns : nd.tab.normalize.ns = nd.tab.ns := (normalize_shape nd.tab).2.2.1
  exact hI v ((normalize_tabsatQ h v q).mp hv) (fun k hk => hint k (by show k < nd.tab.normalize.ns; rw [hns]; exact hk)) k hk

end PPLV.PIPCore.Piv
