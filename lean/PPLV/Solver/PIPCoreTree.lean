import PPLV.Solver.PIP
import PPLV.Solver.PIPCoreCompat
/-!
# C07 stage 2 — from the tree under construction to the tree the public interface shows
(executable, no Mathlib)

`CTree.toTree` reads a `CTree` of the solver model as a `PPLV.PIP.Tree` (whose semantics `Tree.eval` is
the spanning of the class documentation): artificial parameters and constraints are rows over the
parameter columns (column 0 the constant term); the parametric value of problem variable `k` is
0 for a column variable and row `mapping[k]` of `t` over the denominator otherwise
(`PIP_Solution_Node::update_solution`, PIP_Tree.cc:4033-4104; the code stores the truncated quotients,
which are the exact ones because `solve` only returns nodes whose rows are divisible).
-/
namespace PPLV.PIPCore
open PPLV.PIP (Tree QAff PCon Aff Rel)

def rowAff (r : Row) : Aff := ⟨r.drop 1, rget r 0⟩

def ArtP.toQAff (a : ArtP) : QAff := ⟨rowAff a.num, a.den⟩

def consToPCon (r : Row) : PCon := ⟨rowAff r, .ge⟩

/-- `parametric_values` of the problem variables -/
def SolNode.vals (nd : SolNode) : List QAff :=
  (List.range nd.tab.ns).map fun k =>
    if boolGet nd.basis k then ⟨⟨[], 0⟩, 1⟩
    else ⟨rowAff (mrow nd.tab.t (natGet nd.mapping k)), nd.tab.den⟩

def CTree.toTree : CTree → Tree
  | .sol nd => .sol (nd.arts.map ArtP.toQAff) (nd.cons.map consToPCon) nd.vals
  | .dec arts cons t none => .dec (arts.map ArtP.toQAff) (cons.map consToPCon) t.toTree .bottom
  | .dec arts cons t (some f) => .dec (arts.map ArtP.toQAff) (cons.map consToPCon) t.toTree f.toTree

def resToTree : Option CTree → Tree
  | none => .bottom
  | some t => t.toTree

end PPLV.PIPCore
