import PPLV.Solver.PIPCoreProofsSign6
import Mathlib.Tactic.Linarith
import Mathlib.Tactic.Ring
/-!
# C07 core — sign family, part 7: what the cached signs mean UNCONDITIONALLY (`SignWeak`)

The exact reading `SignTrue` of a cached sign is not an invariant of the code when the denominator does
not divide the parameter coefficients (part 4).  What the code does maintain, with no divisibility
hypothesis at all, is the reading "up to one unit of the VARIABLE": with `v = t_i(z)` and the variable
`v / den`,

    POSITIVE : v / den > -1      NEGATIVE : v / den < 1      ZERO : -1 < v / den < 1.

* `SignTrue s v → SignWeak den s v`;
* `recomputeSigns`, both refinements and the whole `signAnalysis` keep `SignWeak` (`signAnalysis_weak_sound`);
* `signStep` keeps it (`signStep_weak_sound`) and it is invariant under `Tableau::scale` (`signWeak_scale`);
* when the value is INTEGRAL (`den ∣ v`, which is what `solutionIntegral` establishes for the rows of the
  problem variables at a solution node) `SignWeak` gives back the exact reading for `POSITIVE` and `ZERO`
  (`signWeak_exact_of_dvd`); for `NEGATIVE` it gives `v ≤ 0`.
-/
namespace PPLV.PIPCore

/-- the cached sign read up to one unit of the variable `v / den` -/
def SignWeak (den : Int) : RowSign → Int → Prop
  | .zero, v => -den < v ∧ v < den
  | .positive, v => -den < v
  | .negative, v => v < den
  | _, _ => True

theorem SignTrue.weak {den : Int} (hden : 0 < den) {s : RowSign} {v : Int} (h : SignTrue s v) :
    SignWeak den s v := by
  cases s with
  | unknown => exact trivial
  | mixed => exact trivial
  | zero => have : v = 0 := h; subst this; exact ⟨by omega, hden⟩
  | positive => have : 0 ≤ v := h; show -den < v; omega
  | negative => have : v < 0 := h; show v < den; omega

/-- integral value: the weak reading is the exact one (`NEGATIVE` excepted: only `v ≤ 0`) -/
theorem signWeak_exact_of_dvd {den : Int} (hden : 0 < den) {s : RowSign} {v : Int} (hdvd : den ∣ v)
    (h : SignWeak den s v) : (s = .positive → 0 ≤ v) ∧ (s = .zero → v = 0) ∧ (s = .negative → v ≤ 0) := by
  refine ⟨?_, ?_, ?_⟩
  · rintro rfl
    have h' : -den < v := h
    have := dvd_lt_nonpos hden (Int.dvd_neg.2 hdvd) (by omega)
    omega
  · rintro rfl
    have h' : -den < v ∧ v < den := h
    have h1 := dvd_lt_nonpos hden (Int.dvd_neg.2 hdvd) (by omega)
    have h2 := dvd_lt_nonpos hden hdvd h'.2
    omega
  · rintro rfl
    have h' : v < den := h
    exact dvd_lt_nonpos hden hdvd h'

/-- `Tableau::scale` multiplies row and denominator by the same positive factor -/
theorem signWeak_scale {den f : Int} (hf : 0 < f) {s : RowSign} {v : Int} :
    SignWeak (f * den) s (f * v) ↔ SignWeak den s v := by
  have key : ∀ a b : Int, f * a < f * b ↔ a < b := fun a b =>
    ⟨fun h => Int.lt_of_mul_lt_mul_left h (Int.le_of_lt hf), fun h => Int.mul_lt_mul_of_pos_left h hf⟩
  have e : -(f * den) = f * (-den) := by ring
  cases s with
  | unknown => exact Iff.rfl
  | mixed => exact Iff.rfl
  | zero =>
    show (-(f * den) < f * v ∧ f * v < f * den) ↔ (-den < v ∧ v < den)
    rw [e, key, key]
  | positive =>
    show -(f * den) < f * v ↔ -den < v
    rw [e, key]
  | negative =>
    show f * v < f * den ↔ v < den
    rw [key]

/-- one step of the incremental sign update keeps the weak reading -/
theorem signStep_weak_sound {den : Int} {sg : RowSign} {val qj c product : Int} {j : Nat}
    (h : SignWeak den sg val) (hq : 0 ≤ qj) (hq0 : j = 0 → qj = 1)
    (hpos : 0 < product → 0 < c) (hneg : product < 0 → c < 0) (hzero : product = 0 → c = 0) :
    SignWeak den (signStep sg product j) (val - c * qj) := by
  cases sg with
  | unknown => exact trivial
  | mixed => exact trivial
  | zero =>
    have hv : -den < val ∧ val < den := h
    unfold signStep
    by_cases h1 : product > 0
    · have hc := hpos h1
      by_cases hj : j = 0
      · have := hq0 hj
        subst this
        simp only [h1, hj, if_true]
        show val - c * 1 < den
        omega
      · simp only [h1, hj, if_true, if_false]; exact trivial
    · by_cases h2 : product < 0
      · have hc := hneg h2
        simp only [h1, h2, if_true, if_false]
        show -den < val - c * qj
        have := Int.mul_nonneg (by omega : 0 ≤ -c) hq
        have e : -c * qj = -(c * qj) := by ring
        omega
      · have hc := hzero (by omega)
        subst hc
        simp only [h1, h2, if_false]
        show -den < val - 0 * qj ∧ val - 0 * qj < den
        simp only [Int.zero_mul, Int.sub_zero]; exact hv
  | positive =>
    have hv : -den < val := h
    unfold signStep
    by_cases h1 : product > 0
    · simp only [h1, if_true]; exact trivial
    · simp only [h1, if_false]
      show -den < val - c * qj
      have hc : c ≤ 0 := by
        by_cases h2 : product < 0
        · have := hneg h2; omega
        · have := hzero (by omega); omega
      have := Int.mul_nonneg (by omega : 0 ≤ -c) hq
      have e : -c * qj = -(c * qj) := by ring
      omega
  | negative =>
    have hv : val < den := h
    unfold signStep
    by_cases h1 : product < 0
    · simp only [h1, if_true]; exact trivial
    · simp only [h1, if_false]
      show val - c * qj < den
      have hc : 0 ≤ c := by
        by_cases h2 : 0 < product
        · have := hpos h2; omega
        · have := hzero (by omega); omega
      have := Int.mul_nonneg hc hq
      omega

/-- the verdict of the first refinement, read weakly, is true with NO divisibility hypothesis -/
theorem newSign1_weak_sound {cc : Mat → Option Bool} (hcc : CCContract cc) {n : Nat} (hn : 0 < n) {ctx : Mat}
    (hctx : ∀ r ∈ ctx, r.length = n) {ti : Row} (hti : ti.length = n) {den : Int} (hden : 0 < den)
    {b1 b2 : Bool} (hb1 : ccRow cc ctx ti = some b1)
    (hb2 : ccRow cc ctx (complementAssign ti den) = some b2)
    {q : List Int} (hq : ParamVec n q) (hsat : CtxSat ctx q) : SignWeak den (newSign1 b1 b2) (dot ti q) := by
  have hne : ti ≠ [] := by intro h; subst h; simp at hti; omega
  have hlen2 : (complementAssign ti den).length = n := by rw [complementAssign_length]; exact hti
  have hb := roundDelta_bounds hden (-(rget ti 0))
  cases b2 with
  | true =>
    cases b1 with
    | true => exact trivial
    | false =>
      have := ccRow_false hcc hn hctx hti hb1 hq hsat
      show dot ti q < den
      omega
  | false =>
    have h2 := ccRow_false hcc hn hctx hlen2 hb2 hq hsat
    rw [complementAssign_dot hq.2.1 hne] at h2
    cases b1 with
    | true => show -den < dot ti q; omega
    | false =>
      have := ccRow_false hcc hn hctx hti hb1 hq hsat
      show -den < dot ti q ∧ dot ti q < den
      omega

theorem refineMixed1_weak_sound {cc : Mat → Option Bool} (hcc : CCContract cc) {T : Tableau}
    (hden : 0 < T.den) {n : Nat} (hn : 0 < n) {ctx : Mat} (hctx : ∀ r ∈ ctx, r.length = n)
    {is : List Nat} (hrows : ∀ i ∈ is, (mrow T.t i).length = n)
    {start : Nat} {sg sg' : List RowSign} {fs fs' : Firsts}
    (h : refineMixed1 cc T ctx start is (sg, fs) = some (sg', fs'))
    {q : List Int} (hq : ParamVec n q) (hsat : CtxSat ctx q)
    (hinv : ∀ k, SignWeak T.den (signGet sg k) (dot (mrow T.t k) q)) :
    ∀ k, SignWeak T.den (signGet sg' k) (dot (mrow T.t k) q) :=
  refineMixed1_pointwise start (fun k s => SignWeak T.den s (dot (mrow T.t k) q)) is sg fs sg' fs'
    (fun i hi _ _ _ hb1 hb2 => newSign1_weak_sound hcc hn hctx (hrows i hi) hden hb1 hb2 hq hsat) h hinv

theorem refineMixed2_signWeak {cc : Mat → Option Bool} (hcc : CCContract cc) {T : Tableau}
    (hden : 0 < T.den) {n : Nat} (hn : 0 < n) {ctx : Mat} (hctx : ∀ r ∈ ctx, r.length = n)
    {is : List Nat} (hrows : ∀ i ∈ is, (mrow T.t i).length = n)
    {sg sg' : List RowSign} {fs fs' : Firsts}
    (h : refineMixed2 cc T ctx is (sg, fs) = some (sg', fs'))
    {q : List Int} (hq : ParamVec n q) (hsat : CtxSat ctx q)
    (hinv : ∀ k, SignWeak T.den (signGet sg k) (dot (mrow T.t k) q)) :
    ∀ k, SignWeak T.den (signGet sg' k) (dot (mrow T.t k) q) := by
  intro k
  rcases refineMixed2_weak_sound hcc hden hn hctx hrows h k with h1 | ⟨_, h2, _, h4⟩
  · rw [h1]; exact hinv k
  · rw [h2]; exact h4 q hq hsat

/-- **the whole sign analysis keeps the weak reading of the signs, unconditionally** (no `DenDivides`) -/
theorem signAnalysis_weak_sound {cc : Mat → Option Bool} (hcc : CCContract cc) {nd : SolNode}
    (hden : 0 < nd.tab.den) (hbig : nd.big = none) {n : Nat} (hn : 0 < n) {ctx : Mat}
    (hctx : ∀ r ∈ ctx, r.length = n)
    (hrows : ∀ k, k < nd.tab.t.length → (mrow nd.tab.t k).length = n)
    {sg' : List RowSign} {fs' : Firsts} (h : signAnalysis cc nd ctx = some (sg', fs'))
    {q : List Int} (hq : ParamVec n q) (hsat : CtxSat ctx q)
    (hinv : ∀ k, SignWeak nd.tab.den (signGet nd.sign k) (dot (mrow nd.tab.t k) q)) :
    ∀ k, SignWeak nd.tab.den (signGet sg' k) (dot (mrow nd.tab.t k) q) := by
  obtain ⟨st1, h1, h2⟩ := signAnalysis_stages h
  have inv0 : ∀ k, SignWeak nd.tab.den (signGet (recomputeSigns nd).1 k) (dot (mrow nd.tab.t k) q) := by
    intro k
    rw [(recomputeSigns_spec nd).2 k]
    by_cases hc : k < nd.tab.t.length ∧ k < nd.sign.length ∧
        (signGet nd.sign k = .unknown ∨ signGet nd.sign k = .mixed)
    · rw [if_pos hc, hbig]
      exact (rowSign_sound (by rw [hrows k hc.1]; exact hq)).weak hden
    · rw [if_neg hc]; exact hinv k
  have inv1 : ∀ k, SignWeak nd.tab.den (signGet st1.1 k) (dot (mrow nd.tab.t k) q) := by
    rcases h1 with rfl | ⟨fm, h1⟩
    · exact inv0
    · exact refineMixed1_weak_sound (sg := (recomputeSigns nd).1) (fs := (recomputeSigns nd).2)
        (sg' := st1.1) (fs' := st1.2) hcc hden hn hctx
        (fun i hi => hrows i (mem_rangeFrom hi).2) h1 hq hsat inv0
  rcases h2 with h2 | ⟨fm, h2⟩
  · rw [← h2] at inv1; exact inv1
  · exact refineMixed2_signWeak (sg := st1.1) (fs := st1.2) (sg' := sg') (fs' := fs')
      hcc hden hn hctx (fun i hi => hrows i (mem_rangeFrom hi).2) h2 hq hsat inv1

-- non-vacuity: the data of `signAnalysis_unsound_example` (`den = 3`, `t = p - 1`, `p ≤ 2`): the verdict
-- `NEGATIVE` is false exactly, true weakly (`1 < 3`)
example : SignWeak exNd2.tab.den .negative (dot (mrow exNd2.tab.t 0) [1, 2]) := by
  show dot (mrow exNd2.tab.t 0) [1, 2] < exNd2.tab.den
  decide
example : SignWeak 2 .positive (-1) ∧ ¬ SignTrue .positive (-1) := by
  refine ⟨by show -(2 : Int) < -1; decide, by show ¬ ((0 : Int) ≤ -1); decide⟩

end PPLV.PIPCore
