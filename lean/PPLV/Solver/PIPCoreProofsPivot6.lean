import PPLV.Solver.PIPCoreProofsPivot5
/-!
# C07 stage 2 — pivot proofs, part 6: the second pass ("Compute columns t[*][j]") and the third pass
("Compute column s[*][pj]") keep the invariant
-/
namespace PPLV.PIPCore.Piv

section passT
variable {T1 : Tableau} {sp tp : Row} {spp : Int} {pj : Nat}

/-- invariant of the row loop of the second pass (the sign list is irrelevant) -/
def JT (T1 : Tableau) (sp tp : Row) (spp : Int) (pj : Nat) (Vr : Nat → Prop)
    (st : Tableau × List RowSign) : Prop :=
  ∃ f, PInv T1 sp tp spp pj (fun _ b => b ≠ pj) (fun a _ => Vr a) st.1 f

def JTin (T1 : Tableau) (sp tp : Row) (spp : Int) (pj : Nat) (i : Nat) (Vr V : Nat → Prop)
    (st : Tableau × List RowSign) : Prop :=
  ∃ f, PInv T1 sp tp spp pj (fun _ b => b ≠ pj) (fun a c => Vr a ∨ (a = i ∧ V c)) st.1 f

theorem stepT_core (hpj : pj < T1.ns) {i j : Nat} (hi : i < T1.s.length) (hj : j < T1.nt)
    {Vr V : Nat → Prop} (hVr : ¬ Vr i) (hV : ¬ V j) {T' : Tableau} {f' p : Int}
    (sg : List RowSign)
    (hI : PInv T1 sp tp spp pj (fun _ b => b ≠ pj) (fun a c => Vr a ∨ (a = i ∧ V c)) T' f')
    (hp : p * spp = rget tp j * mget T'.s i pj) :
    JTin T1 sp tp spp pj i Vr (fun x => V x ∨ x = j)
        ({ T' with t := mset T'.t i j (mget T'.t i j - p) }, sg) ∧
    (p = 0 → JTin T1 sp tp spp pj i Vr (fun x => V x ∨ x = j) (T', sg)) := by
  have r1 : mget T'.s i pj = f' * mget T1.s i pj := hI.s_raw hi hpj (fun h => h rfl)
  have r2 : mget T'.t i j = f' * mget T1.t i j :=
    hI.t_raw hi hj (by
      rintro (h | ⟨_, h⟩)
      · exact hVr h
      · exact hV h)
  have hx : (mget T'.t i j - p) * spp = f' * tgtT T1 tp spp pj i j := by
    unfold tgtT; linear_combination spp * r2 - hp - (rget tp j) * r1
  constructor
  · refine ⟨f', (hI.setT hi hj hx).monoT (fun a b _ _ h => ?_) (fun a b _ _ h hn => ?_)⟩
    · rcases h with (h | ⟨e, v⟩) | ⟨e, e2⟩
      · exact Or.inl h
      · exact Or.inr ⟨e, Or.inl v⟩
      · exact Or.inr ⟨e, Or.inr e2⟩
    · exfalso; apply hn
      rcases h with h | ⟨e, v | e2⟩
      · exact Or.inl (Or.inl h)
      · exact Or.inl (Or.inr ⟨e, v⟩)
      · exact Or.inr ⟨e, e2⟩
  · intro hp0
    refine ⟨f', hI.monoT (fun a b _ _ h => ?_) (fun a b _ _ h hn => ?_)⟩
    · rcases h with h | ⟨e, v⟩
      · exact Or.inl h
      · exact Or.inr ⟨e, Or.inl v⟩
    · have hab : a = i ∧ b = j := by
        rcases h with h | ⟨e, v | e2⟩
        · exact absurd (Or.inl h) hn
        · exact absurd (Or.inr ⟨e, v⟩) hn
        · exact ⟨e, e2⟩
      obtain ⟨rfl, rfl⟩ := hab
      rw [hp0, sub_zero] at hx; exact hx

theorem pivotStepT_inv (hspp : 0 < spp) (hpj : pj < T1.ns) {i : Nat} (hi : i < T1.s.length)
    {Vr : Nat → Prop} (hVr : ¬ Vr i) (V : Nat → Prop) (st : Tableau × List RowSign) (j : Nat)
    (hj : j < T1.nt) (hV : ¬ V j) (h : JTin T1 sp tp spp pj i Vr V st) :
    JTin T1 sp tp spp pj i Vr (fun x => V x ∨ x = j) (pivotStepT tp spp pj i st j) := by
  obtain ⟨T, sg⟩ := st
  obtain ⟨f, hI⟩ := h
  change PInv T1 sp tp spp pj _ _ T f at hI
  unfold pivotStepT
  dsimp only
  by_cases h2 : rget tp j = 0
  · rw [if_pos h2]
    exact (stepT_core hpj hi hj hVr hV sg hI (p := 0) (by rw [h2]; ring)).2 rfl
  rw [if_neg h2]
  by_cases h3 : rget tp j * mget T.s i pj % spp ≠ 0
  · rw [if_pos h3]
    dsimp only
    obtain ⟨sfpos, sfdvd⟩ := sf_facts hspp (rget tp j * mget T.s i pj)
    by_cases h4 : rget tp j * mget T.s i pj * (spp / gcdI (rget tp j * mget T.s i pj) spp) / spp ≠ 0
    · rw [if_pos h4]
      exact (stepT_core hpj hi hj hVr hV _ (hI.scale sfpos)
        (p := rget tp j * mget T.s i pj * (spp / gcdI (rget tp j * mget T.s i pj) spp) / spp)
        (by rw [Int.ediv_mul_cancel sfdvd, mget_scale_s]; ring)).1
    · rw [if_neg h4]
      exact (stepT_core hpj hi hj hVr hV _ (hI.scale sfpos)
        (p := rget tp j * mget T.s i pj * (spp / gcdI (rget tp j * mget T.s i pj) spp) / spp)
        (by rw [Int.ediv_mul_cancel sfdvd, mget_scale_s]; ring)).2 (not_not.mp h4)
  · rw [if_neg h3]
    dsimp only
    by_cases h4 : rget tp j * mget T.s i pj / spp ≠ 0
    · rw [if_pos h4]
      exact (stepT_core hpj hi hj hVr hV _ hI
        (p := rget tp j * mget T.s i pj / spp)
        (Int.ediv_mul_cancel (dvd_of_not_emod_ne h3))).1
    · rw [if_neg h4]
      exact (stepT_core hpj hi hj hVr hV _ hI
        (p := rget tp j * mget T.s i pj / spp)
        (Int.ediv_mul_cancel (dvd_of_not_emod_ne h3))).2 (not_not.mp h4)

theorem pivotRowT_inv (hspp : 0 < spp) (hpj : pj < T1.ns) (Vr : Nat → Prop)
    (st : Tableau × List RowSign) (i : Nat)
    (hi : i < T1.s.length) (hVr : ¬ Vr i) (h : JT T1 sp tp spp pj Vr st) :
    JT T1 sp tp spp pj (fun x => Vr x ∨ x = i) (pivotRowT tp spp pj st i) := by
  obtain ⟨f, hI⟩ := h
  unfold pivotRowT
  by_cases h0 : mget st.1.s i pj = 0
  · rw [if_pos h0]
    refine ⟨f, hI.monoT (fun a b _ _ h => Or.inl h) (fun a b _ hb h hn => ?_)⟩
    have hab : a = i := by
      rcases h with h | e
      · exact absurd h hn
      · exact e
    subst hab
    have r1 : mget st.1.s a pj = f * mget T1.s a pj := hI.s_raw hi hpj (fun h => h rfl)
    have r2 : mget st.1.t a b = f * mget T1.t a b := hI.t_raw hi hb hVr
    have z : mget T1.s a pj = 0 := by
      rw [h0] at r1
      rcases Int.mul_eq_zero.mp r1.symm with e | e
      · exact absurd e (ne_of_gt hI.f_pos)
      · exact e
    unfold tgtT; rw [r2, z]; ring
  · rw [if_neg h0]
    have init : JTin T1 sp tp spp pj i Vr (fun _ => False) st := by
      refine ⟨f, hI.monoT (fun a b _ _ h => Or.inl h) (fun a b _ _ h hn => ?_)⟩
      exfalso
      rcases h with h | ⟨_, e⟩
      · exact hn h
      · exact e
    have fin := foldl_visit (JTin T1 sp tp spp pj i Vr) (pivotStepT tp spp pj i)
      (fun j => j < T1.nt)
      (fun V st j hj hV h => pivotStepT_inv hspp hpj hi hVr V st j hj hV h)
      (List.range st.1.nt) (fun _ => False) st List.nodup_range
      (fun b hb => ⟨by rw [hI.nt_eq] at hb; exact List.mem_range.mp hb, id⟩) init
    obtain ⟨f', hI'⟩ := fin
    refine ⟨f', hI'.monoT (fun a b _ _ h => ?_) (fun a b _ hb h hn => ?_)⟩
    · rcases h with h | ⟨e, _⟩
      · exact Or.inl h
      · exact Or.inr e
    · exfalso; apply hn
      rcases h with h | e
      · exact Or.inl h
      · exact Or.inr ⟨e, Or.inr (List.mem_range.mpr (by rw [hI.nt_eq]; exact hb))⟩

/-- the whole second pass -/
theorem passT_inv (hspp : 0 < spp) (hpj : pj < T1.ns) (st : Tableau × List RowSign)
    (h : JT T1 sp tp spp pj (fun _ => False) st) :
    JT T1 sp tp spp pj (fun x => x < T1.s.length)
      ((rowsDown T1.s.length).foldl (pivotRowT tp spp pj) st) := by
  have fin := foldl_visit (JT T1 sp tp spp pj) (pivotRowT tp spp pj) (fun i => i < T1.s.length)
    (fun Vr T i hi hVr h => pivotRowT_inv hspp hpj Vr T i hi hVr h)
    (rowsDown T1.s.length) (fun _ => False) st (rowsDown_nodup _)
    (fun b hb => ⟨mem_rowsDown.mp hb, id⟩) h
  obtain ⟨f, hI⟩ := fin
  refine ⟨f, hI.monoT (fun a b ha _ _ => ha) (fun a b ha _ h hn => ?_)⟩
  exact absurd (Or.inr (mem_rowsDown.mpr ha)) hn

end passT

section passC
variable {T1 : Tableau} {sp tp : Row} {spp : Int} {pj : Nat}

/-- invariant of the third pass: column `pj` of the rows in `Vr` is done -/
def JC (T1 : Tableau) (sp tp : Row) (spp : Int) (pj : Nat) (Vr : Nat → Prop) (T : Tableau) : Prop :=
  ∃ f, PInv T1 sp tp spp pj (fun a b => b ≠ pj ∨ Vr a) (fun _ _ => True) T f

theorem stepC_core (hpj : pj < T1.ns) {i : Nat} (hi : i < T1.s.length)
    {Vr : Nat → Prop} (hVr : ¬ Vr i) {T' : Tableau} {f' p : Int}
    (hI : PInv T1 sp tp spp pj (fun a b => b ≠ pj ∨ Vr a) (fun _ _ => True) T' f')
    (hp : p * spp = mget T'.s i pj * T1.den) :
    JC T1 sp tp spp pj (fun x => Vr x ∨ x = i) { T' with s := mset T'.s i pj p } := by
  have r1 : mget T'.s i pj = f' * mget T1.s i pj :=
    hI.s_raw hi hpj (by
      rintro (h | h)
      · exact h rfl
      · exact hVr h)
  have hx : p * spp = f' * tgtS T1 sp spp pj i pj := by
    unfold tgtS; rw [if_pos rfl]; linear_combination hp + T1.den * r1
  refine ⟨f', (hI.setS hi hpj hx).monoS (fun a b _ _ h => ?_) (fun a b _ _ h hn => ?_)⟩
  · rcases h with (h | h) | ⟨e, _⟩
    · exact Or.inl h
    · exact Or.inr (Or.inl h)
    · exact Or.inr (Or.inr e)
  · exfalso; apply hn
    rcases h with h | h | e
    · exact Or.inl (Or.inl h)
    · exact Or.inl (Or.inr h)
    · by_cases hb : b = pj
      · exact Or.inr ⟨e, hb⟩
      · exact Or.inl (Or.inl hb)

theorem pivotRowC_inv (hspp : 0 < spp) (hpj : pj < T1.ns) (Vr : Nat → Prop) (T : Tableau) (i : Nat)
    (hi : i < T1.s.length) (hVr : ¬ Vr i) (h : JC T1 sp tp spp pj Vr T) :
    JC T1 sp tp spp pj (fun x => Vr x ∨ x = i) (pivotRowC spp T1.den pj T i) := by
  obtain ⟨f, hI⟩ := h
  unfold pivotRowC
  dsimp only
  by_cases h3 : mget T.s i pj * T1.den % spp ≠ 0
  · rw [if_pos h3]
    dsimp only
    obtain ⟨sfpos, sfdvd⟩ := sf_facts hspp (mget T.s i pj * T1.den)
    exact stepC_core hpj hi hVr (hI.scale sfpos)
      (by rw [Int.ediv_mul_cancel sfdvd, mget_scale_s]; ring)
  · rw [if_neg h3]
    dsimp only
    exact stepC_core hpj hi hVr hI (Int.ediv_mul_cancel (dvd_of_not_emod_ne h3))

/-- the whole third pass -/
theorem passC_inv (hspp : 0 < spp) (hpj : pj < T1.ns) (T : Tableau)
    (h : JC T1 sp tp spp pj (fun _ => False) T) :
    JC T1 sp tp spp pj (fun x => x < T1.s.length)
      ((rowsDown T1.s.length).foldl (pivotRowC spp T1.den pj) T) := by
  have fin := foldl_visit (JC T1 sp tp spp pj) (pivotRowC spp T1.den pj) (fun i => i < T1.s.length)
    (fun Vr T i hi hVr h => pivotRowC_inv hspp hpj Vr T i hi hVr h)
    (rowsDown T1.s.length) (fun _ => False) T (rowsDown_nodup _)
    (fun b hb => ⟨mem_rowsDown.mp hb, id⟩) h
  obtain ⟨f, hI⟩ := fin
  refine ⟨f, hI.monoS (fun a b ha _ h => ?_) (fun a b ha _ h hn => ?_)⟩
  · rcases h with h | h | h
    · exact Or.inl h
    · exact absurd h id
    · exact Or.inr ha
  · exfalso; apply hn
    rcases h with h | _
    · exact Or.inl h
    · exact Or.inr (Or.inr (mem_rowsDown.mpr ha))

end passC

end PPLV.PIPCore.Piv
