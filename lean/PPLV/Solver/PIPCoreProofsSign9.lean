import PPLV.Solver.PIPCoreProofsSign8
import Mathlib.Tactic.Linarith
/-!
# C07 core — sign family, part 9: shape facts of the sign analysis (length, no `UNKNOWN` left) and
concrete instances of `signAnalysis_firsts`
-/
namespace PPLV.PIPCore

theorem rowSign_ne_unknown (x : Row) (big : Option Nat) : rowSign x big ≠ .unknown := by
  unfold rowSign
  have hscan : (match rowSignScan x .zero with
      | none => RowSign.mixed
      | some sg => if sg = RowSign.negative ∧ rget x 0 = 0 then RowSign.mixed else sg) ≠ RowSign.unknown := by
    cases hs : rowSignScan x .zero with
    | none => simp
    | some sg =>
      simp only
      by_cases hc : sg = .negative ∧ rget x 0 = 0
      · rw [if_pos hc]; decide
      · rw [if_neg hc]
        rcases rowSignScan_from_zero x sg hs with ⟨rfl, _⟩ | ⟨rfl, _⟩ | ⟨rfl, _⟩ <;> decide
  cases big with
  | none => exact hscan
  | some b =>
    simp only
    by_cases h1 : rget x b > 0
    · simp [h1]
    · by_cases h2 : rget x b < 0
      · simp [h1, h2]
      · simp only [h1, h2, if_false]; exact hscan

theorem signAnalysis_length {cc : Mat → Option Bool} {nd : SolNode} {ctx : Mat}
    {sg' : List RowSign} {fs' : Firsts} (h : signAnalysis cc nd ctx = some (sg', fs')) :
    sg'.length = nd.sign.length := by
  obtain ⟨st1, h1, h2⟩ := signAnalysis_stages h
  have l1 : st1.1.length = nd.sign.length := by
    rcases h1 with rfl | ⟨fm, h1⟩
    · exact (recomputeSigns_spec nd).1
    · rw [refineMixed1_length fm _ (recomputeSigns nd).1 (recomputeSigns nd).2 st1.1 st1.2 h1]
      exact (recomputeSigns_spec nd).1
  rcases h2 with h2 | ⟨fm, h2⟩
  · rw [← h2] at l1; exact l1
  · rw [refineMixed2_length _ st1.1 st1.2 sg' fs' h2]; exact l1

/-- after the sign analysis no row of the tableau has an `UNKNOWN` sign -/
theorem signAnalysis_no_unknown {cc : Mat → Option Bool} {nd : SolNode} {ctx : Mat}
    (hlen : nd.sign.length = nd.tab.t.length) {sg' : List RowSign} {fs' : Firsts}
    (h : signAnalysis cc nd ctx = some (sg', fs')) :
    ∀ k, k < nd.tab.t.length → signGet sg' k ≠ .unknown := by
  obtain ⟨st1, h1, h2⟩ := signAnalysis_stages h
  have inv0 : ∀ k, k < nd.tab.t.length → signGet (recomputeSigns nd).1 k ≠ .unknown := by
    intro k hk
    rw [(recomputeSigns_spec nd).2 k]
    by_cases hc : k < nd.tab.t.length ∧ k < nd.sign.length ∧
        (signGet nd.sign k = .unknown ∨ signGet nd.sign k = .mixed)
    · rw [if_pos hc]; exact rowSign_ne_unknown _ _
    · rw [if_neg hc]
      intro hu
      exact hc ⟨hk, by omega, Or.inl hu⟩
  have inv1 : ∀ k, k < nd.tab.t.length → signGet st1.1 k ≠ .unknown := by
    rcases h1 with rfl | ⟨fm, h1⟩
    · exact inv0
    · exact refineMixed1_pointwise (cc := cc) (T := nd.tab) (ctx := ctx) fm
        (fun k s => k < nd.tab.t.length → s ≠ .unknown) _ (recomputeSigns nd).1 (recomputeSigns nd).2
        st1.1 st1.2 (fun i _ _ b1 b2 _ _ _ => by cases b1 <;> cases b2 <;> decide) h1 inv0
  rcases h2 with h2 | ⟨fm, h2⟩
  · rw [← h2] at inv1; exact inv1
  · exact refineMixed2_pointwise (cc := cc) (T := nd.tab) (ctx := ctx)
      (fun k s => k < nd.tab.t.length → s ≠ .unknown) _ st1.1 st1.2 sg' fs'
      (fun i _ _ _ _ _ => by decide) h2 inv1

/-- a node whose analysis finds no negative and no mixed row has only `POSITIVE` / `ZERO` rows -/
theorem signAnalysis_all_nonneg {cc : Mat → Option Bool} {nd : SolNode} {ctx : Mat}
    (hlen : nd.sign.length = nd.tab.t.length) {sg' : List RowSign} {fs' : Firsts}
    (h : signAnalysis cc nd ctx = some (sg', fs')) (hneg : fs'.neg = none) (hmix : fs'.mix = none) :
    ∀ k, k < nd.tab.t.length → signGet sg' k = .positive ∨ signGet sg' k = .zero := by
  intro k hk
  obtain ⟨hN, hM⟩ := signAnalysis_firsts hlen h
  have hM' := hM hneg
  rw [hneg] at hN; rw [hmix] at hM'
  have h1 := hN k
  have h2 := hM' k
  have h3 := signAnalysis_no_unknown hlen h k hk
  cases hs : signGet sg' k with
  | unknown => exact absurd hs h3
  | zero => exact Or.inr rfl
  | positive => exact Or.inl rfl
  | negative => exact absurd hs h1
  | mixed => exact absurd hs h2

-- concrete instances: a node with three rows (`-1 - p` negative, `1 - p` mixed, `2 + p` positive)
def exNd9 : SolNode :=
  { tab := { s := [[1], [1], [1]], t := [[2, 1], [1, -1], [-1, -1]], den := 1, ns := 1, nt := 2 },
    basis := [true, false, false, false], mapping := [0, 0, 1, 2], varRow := [1, 2, 3], varColumn := [0],
    sign := [.unknown, .unknown, .unknown], big := none, arts := [], cons := [] }

example : (signAnalysis (fun _ => none) exNd9 []).map (·.1) = some [.positive, .mixed, .negative] := by decide
example : ((signAnalysis (fun _ => none) exNd9 []).map (·.2.neg)) = some (some 2) := by decide
example : FirstOf [.positive, .mixed, .negative] .negative (some 2) := by
  refine ⟨by decide, ?_⟩
  intro k hk
  match k, hk with
  | 0, _ => decide
  | 1, _ => decide
-- and through the refinements (the node of part 6): no negative, no mixed row left
example : (signAnalysis exCC6 exNd6 [[1, -1]]).map (fun r => (r.1, r.2.neg, r.2.mix))
    = some ([.positive], none, none) := by decide

end PPLV.PIPCore
