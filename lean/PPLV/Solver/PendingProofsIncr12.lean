import PPLV.Solver.PendingProofsIncr11

/-!
# C06 stage 3 — the set-up of an incremental call in terms of a `GCtx` (`incr_ctx`)
-/
namespace PPLV.Solver.Pend
open PPLV.Lin PPLV.Solver PPLV.Solver.Tab

/-- what the set-up of an incremental call computes -/
structure IncrOut (s : LPState) (C : GCtx) (unf : List Nat) (addArt : Nat) (s0 : LPState) : Prop where
  setup : ppcSetup s = ppcTrivial s0 (if addArt > 0 then C.SL else 0) (C.artOut unf).2.2.2
  unfOK : C.Unf unf
  addArt_eq : addArt = unf.length + (C.Nn - C.wcount 0)
  n_eq : C.n = s.external_space_dim
  tab : s0.tableau = (C.artOut unf).1
  base : s0.base = (C.artOut unf).2.2.1
  cost : s0.working_cost =
    reexpressCost (C.artOut unf).1 (C.artOut unf).2.2.1 ((C.artOut unf).2.1.set (C.numCols - 1) 1)
  numCols : s0.numCols = C.numCols
  mapping : s0.mapping = C.M
  ext : s0.external_space_dim = s.external_space_dim
  obj : s0.obj = s.obj
  maximize : s0.maximize = s.maximize
  pricing : s0.pricing = s.pricing
  input : s0.input_cs = s.input_cs
  sound : ∀ y : Val, y 0 = 1 → (∀ j, 1 ≤ j → 0 ≤ y j) → (∀ j, C.SL ≤ j → j < C.numCols → y j = 0) →
      Sol (C.artOut unf).1 y → csSem s.input_cs (proj C.M y)
  complete : ∀ x : Val, csSem s.input_cs x →
      ∃ y : Val, y 0 = 1 ∧ (∀ j, 1 ≤ j → 0 ≤ y j) ∧ (∀ j, C.SL ≤ j → y j = 0) ∧ Sol (C.artOut unf).1 y ∧
        (∀ i, i < C.n → proj C.M y i = x i) ∧ NegZero C.M C.n x y

theorem incr_ctx (s : LPState) (hS : IncrStart s) (p : Parsed) (hp : parseConstraints (computeGenerator s) = some p) :
    ∃ (C : GCtx) (unf : List Nat) (addArt : Nat) (s0 : LPState), IncrOut s C unf addArt s0 := by
  have R := hS.ready
  obtain ⟨nn0', j0, hM0, hj0⟩ := R.ready.map
  have hmlen : (computeGenerator s).mapping.length = (computeGenerator s).external_space_dim + 1 := hM0.len
  have hdims : (computeGenerator s).internal_space_dim = (computeGenerator s).external_space_dim := hS.dims
  -- parse facts
  have hpi := parse_spec (computeGenerator s) (nn0Of (computeGenerator s)) rfl
  rw [hp] at hpi
  obtain ⟨h1, h2, h3, h4, -, -, -⟩ := hpi
  simp only [List.drop_zero, List.replicate_zero, List.nil_append, Nat.zero_add] at h1 h2 h3
  obtain ⟨q1, q2, q3⟩ := parse_spec2 (computeGenerator s) p hmlen hdims hp
  obtain ⟨-, n2⟩ := nn0_spec (computeGenerator s) hmlen
  obtain ⟨f1, -⟩ := parse_isSat' (computeGenerator s) p hp
  set pend := s.input_cs.drop s.first_pending with hpend
  have h1' : p.isTab = pend.map tabC := h1
  have h2' : p.slacks = (pend.filter slackC).length := h2
  have h3' : p.rows = (pend.filter tabC).length := h3
  have f1' : p.isSat.length = pend.length := f1
  have hlenP : ∀ c ∈ pend, c.coeffs.length ≤ s.external_space_dim :=
    fun c hc => hS.lens c (List.mem_of_mem_drop hc)
  -- re-merging
  have R1 : ReadyS (s.input_cs.take s.first_pending) s.external_space_dim (computeGenerator s) :=
    ⟨⟨R.ready.tb, R.ready.map, R.ready.sound, R.ready.complete⟩, R.ncols, R.completeS⟩
  have hrmsplit : ∀ v, v < s.external_space_dim → p.isRemerge.getD v false = true →
      ((computeGenerator s).mapping.getD (v+1) (0, 0)).2 ≠ 0 := by
    intro v hv hr hz
    have a := (q2 v hr).2.1
    have b := (n2 v).mpr ⟨hv, hz⟩
    rw [a] at b; cases b
  obtain ⟨mOK, mG, mKeep, mBs, mInt, mFp⟩ := mergeSpec (s.input_cs.take s.first_pending) s.external_space_dim
    (computeGenerator s) p.isRemerge R1 hdims (by rw [q1]; exact hdims) hrmsplit
  obtain ⟨mk1, mk2, mk3, mk4, mk5⟩ := ppcMerge_keeps (computeGenerator s) p.isRemerge
  have hsetup : ppcSetup s = ppcFill (ppcMerge (computeGenerator s) p.isRemerge).1
      (ppcMerge (computeGenerator s) p.isRemerge).2 p (isSatF (computeGenerator s) p)
      (ppcMerge (computeGenerator s) p.isRemerge).1.mapping 0 := by
    have : ppcSetup s = ppcBuild (computeGenerator s) true p := by
      unfold ppcSetup; rw [ppcRecompute_incr s hS]; simp only [hp]
    rw [this, ppcBuild_incr _ _ (by rw [mk3, mInt]; exact hdims.symm)]
  set mg := ppcMerge (computeGenerator s) p.isRemerge with hmg
  set isF := isSatF (computeGenerator s) p with hisF
  have hnp : (computeGenerator s).input_cs.length - (computeGenerator s).first_pending = pend.length := by
    rw [hpend, List.length_drop]; rfl
  have hisFlen : isF.length = pend.length := by
    rw [hisF]; unfold isSatF
    split
    · rw [List.length_replicate]; exact hnp
    · exact f1'
  obtain ⟨nnm, jm, hMm, hjm⟩ := mG.map
  have hnc2 := mOK.nc2
  set NC := mg.1.numCols + (0 + p.slacks + (p.rows - isF.count true + mg.2.length)) with hNC
  have hSL : (mg.1.numCols - 1) + (pend.filter slackC).length < NC := by rw [hNC, ← h2']; omega
  have oLenB : mg.1.base.length = (padRows mg.1.tableau NC).length := by rw [padRows_length]; exact mOK.lenB
  have oRowLen : ∀ i, i < (padRows mg.1.tableau NC).length → ((padRows mg.1.tableau NC).getD i []).length = NC := by
    intro i hi
    rw [padRows_length] at hi
    rw [padRows_getD _ _ _ hi, List.length_append, zeros_length, mOK.rowLen i hi]
    omega
  have oZero : ∀ i, i < (padRows mg.1.tableau NC).length → ∀ col, mg.1.numCols - 1 ≤ col →
      ((padRows mg.1.tableau NC).getD i []).get col = 0 := by
    intro i hi col hcol
    rw [padRows_length] at hi
    rw [padRows_get _ _ _ _ hi]
    by_cases hc : col = mg.1.numCols - 1
    · rw [hc]; exact mOK.lastZero i hi
    · unfold Row.get
      rw [List.getD_eq_getElem?_getD, List.getElem?_eq_none (by rw [mOK.rowLen i hi]; omega)]
      rfl
  have oRange : ∀ i, i < (padRows mg.1.tableau NC).length → mg.1.base.getD i 0 ≠ 0 →
      1 ≤ mg.1.base.getD i 0 ∧ mg.1.base.getD i 0 < mg.1.numCols - 1 := by
    intro i hi hb; rw [padRows_length] at hi; exact mOK.baseRange i hi hb
  have oNZ : ∀ i, i < (padRows mg.1.tableau NC).length → mg.1.base.getD i 0 ≠ 0 →
      ((padRows mg.1.tableau NC).getD i []).get (mg.1.base.getD i 0) ≠ 0 := by
    intro i hi hb; rw [padRows_length] at hi; rw [padRows_get _ _ _ _ hi]; exact mOK.basicNZ i hi hb
  have oCol : ∀ i k, i < (padRows mg.1.tableau NC).length → k < (padRows mg.1.tableau NC).length → i ≠ k →
      mg.1.base.getD i 0 ≠ 0 → ((padRows mg.1.tableau NC).getD k []).get (mg.1.base.getD i 0) = 0 := by
    intro i k hi hk hik hb
    rw [padRows_length] at hi hk
    rw [padRows_get _ _ _ _ hk]; exact mOK.basicCol i k hi hk hik hb
  have hsatC : ∀ i, i < pend.length → isF.getD i false = true →
      slackC (pend.getD i default) = true ∧
        0 ≤ dot (pend.getD i default).coeffs (proj mg.1.mapping (bsol (padRows mg.1.tableau NC) mg.1.base)) +
          ((pend.getD i default).k : Rat) := by
    intro i hi hf
    have hci : pend.getD i default ∈ pend := by
      rw [List.getD_eq_getElem?_getD, List.getElem?_eq_getElem hi]; exact List.getElem_mem _
    by_cases hu : mg.2 = []
    · have hisp : isF = p.isSat := by rw [hisF]; unfold isSatF; rw [← hmg, hu]; rfl
      rw [hisp] at hf
      obtain ⟨g1, g2⟩ := flags_at_recomputed_cor s s.external_space_dim p R.ready.tb R.ready.map rfl hS.npos hp i hi hf
        (hlenP _ hci)
      refine ⟨g1, ?_⟩
      rw [bsol_padRows _ _ _ mOK.lenB,
        dot_congr_lt _ (proj mg.1.mapping (bsol mg.1.tableau mg.1.base)) (proj s.mapping (bsol s.tableau s.base))
          (fun u hu' => mBs hu u (lt_of_lt_of_le hu' (hlenP _ hci)))]
      exact g2
    · exfalso
      have hne : (!mg.2.isEmpty) = true := by
        cases hm : mg.2 with
        | nil => exact absurd hm hu
        | cons a l => rfl
      have : isF = List.replicate ((computeGenerator s).input_cs.length - (computeGenerator s).first_pending) false := by
        rw [hisF]; unfold isSatF; rw [← hmg, if_pos hne]
      rw [this, getD_replicate_false] at hf; cases hf
  let C : GCtx :=
    { M := mg.1.mapping, nn := nnm, n := s.external_space_dim, j := jm, V := mg.1.numCols - 1, numCols := NC,
      pend := pend, isSat := isF, T0 := padRows mg.1.tableau NC, base0 := mg.1.base,
      hM := hMm, hjV := hjm, hlen := hlenP, hSL := hSL, oLenB := oLenB, oRowLen := oRowLen, oZero := oZero,
      oRange := oRange, oNZ := oNZ, oCol := oCol, hsat := hsatC }
  have hCR0 : C.R0 = mg.1.tableau.length := padRows_length _ _
  have hCSL : C.SL = (mg.1.numCols - 1) + p.slacks := by rw [h2']; rfl
  have hCNn : C.Nn = p.rows := h3'.symm
  have hw0 : C.wcount 0 = isF.count true := C.wcount0 hisFlen
  have hU : C.Unf mg.2 := by
    refine ⟨fun r hr => by rw [hCR0]; exact mOK.unfLt r hr, mOK.unfNodup,
      fun r hr => mOK.unfBase r (by rw [← hCR0]; exact hr), fun r hr hb => ?_, ?_⟩
    · rw [hCR0] at hr
      show 0 ≤ -((((padRows mg.1.tableau NC).getD r []).get 0 : Int) : Rat) /
        ((((padRows mg.1.tableau NC).getD r []).get (mg.1.base.getD r 0) : Int) : Rat)
      rw [padRows_get _ _ _ _ hr, padRows_get _ _ _ _ hr]
      exact mOK.feas r hr hb
    · show NC = C.SL + mg.2.length + (C.Nn - C.wcount 0) + 1
      rw [hCSL, hCNn, hw0, hNC]; omega
  have hO : C.OldRows mg.1.tableau mg.1.numCols := ⟨rfl, rfl, hnc2⟩
  have e6 : C.numCols - (p.rows - isF.count true + mg.2.length) - 1 = C.SL := by
    rw [hCSL]; show NC - _ - 1 = _; rw [hNC]; omega
  obtain ⟨s0, hfill, g1, g2, g3, g4, g5, g6, g7, g8, g9, g10⟩ := ppcFill_incr_eq mg.1 mg.2 p isF C
    (p.rows - isF.count true + mg.2.length)
    (by rw [mk4, mFp]; rfl) (by rw [mk4, mFp]; exact hnp) h1' rfl hCNn.symm rfl rfl e6 rfl rfl rfl hCR0.symm
  -- semantics
  have hcs : s.input_cs = s.input_cs.take s.first_pending ++ pend := (List.take_append_drop _ _).symm
  have Hm7 : ∀ c ∈ C.pend, (classify c).1 = .m7 → (classify c).2 < C.n →
      (C.M.getD ((classify c).2 + 1) (0, 0)).2 = 0 ∨
      ∃ c' ∈ C.pend, ((classify c').1 = .m45 ∨ (classify c').1 = .m6) ∧ (classify c').2 = (classify c).2 := by
    intro c hc h7 hv
    rcases q3 c hc h7 hv with a | a | a
    · left
      have hz := ((n2 _).mp a).2
      by_cases hr : p.isRemerge.getD (classify c).2 false = true
      · exact mG.unsplit _ hv hr
      · exact (mKeep _ hv (by simpa using hr)).mpr hz
    · left; exact mG.unsplit _ hv a
    · right; exact a
  have Hrm : ∀ v, v < C.n → p.isRemerge.getD v false = true →
      ∃ c ∈ C.pend, (classify c).1 = .m7 ∧ (classify c).2 = v := fun v _ hr => (q2 v hr).2.2
  obtain ⟨sem1, sem2⟩ := C.incr_sem mg.2 hU (s.input_cs.take s.first_pending) p.isRemerge mg.1.tableau mg.1.numCols
    hO mG Hm7 Hrm
  refine ⟨C, mg.2, p.rows - isF.count true + mg.2.length, s0, ⟨by rw [hsetup, hfill], hU, ?_, rfl, g1, g2, g3, g4, g5,
    by rw [g6, mk3]; rfl, by rw [g7, mk1]; rfl, by rw [g8, mk2]; rfl, by rw [g9, mk5]; rfl, by rw [g10, mk4]; rfl,
    ?_, ?_⟩⟩
  · rw [hCNn, hw0]; omega
  · intro y a b c d; rw [hcs]; exact sem1 y a b c d
  · intro x hx; rw [hcs] at hx; exact sem2 x hx

end PPLV.Solver.Pend
