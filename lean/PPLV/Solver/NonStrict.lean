import PPLV.Lin.Sup
import PPLV.Solver.MIP

/-!
# C06 helper: over non-strict rows the K1 supremum is always attained

`supB` reports a value together with an "attained" flag; the flag is the negation of the
strictness of the tight upper bound that Fourier–Motzkin elimination produced.  Elimination,
tidying and projection never create a strict row out of non-strict ones, so for the rows of a
`MIP_Problem` (equalities and non-strict inequalities) the flag is always `true`.
-/
namespace PPLV.Solver
open PPLV.Lin List

def NonStrict (cs : List Con) : Prop := ∀ c ∈ cs, c.strict = false

theorem nonStrictB_iff (cs : List Con) : nonStrictB cs = true ↔ NonStrict cs := by
  simp [nonStrictB, NonStrict]

theorem NonStrict.append {as bs : List Con} (ha : NonStrict as) (hb : NonStrict bs) : NonStrict (as ++ bs) := by
  intro c hc
  rcases List.mem_append.mp hc with h | h
  · exact ha c h
  · exact hb c h

theorem nonStrict_eqRows (cf : List Int) (k : Int) : NonStrict (eqRows cf k) := by
  intro c hc
  simp only [eqRows, List.mem_cons, List.not_mem_nil, or_false] at hc
  rcases hc with rfl | rfl <;> rfl

theorem nonStrict_tidy0 (cs : List Con) (h : NonStrict cs) : NonStrict (tidy0 cs) := by
  unfold tidy0
  simp only
  split
  · intro c hc
    simp only [List.mem_cons, List.not_mem_nil, or_false] at hc
    subst hc; rfl
  · intro c hc
    rw [mem_dedup] at hc
    simp only [List.mem_filter, List.mem_map] at hc
    obtain ⟨⟨d, hd, rfl⟩, -⟩ := hc
    rw [normalize_strict]; exact h d hd

theorem mem_pruneRows (n : Nat) (kept rest : List Con) :
    ∀ c ∈ pruneRows n kept rest, c ∈ kept ∨ c ∈ rest := by
  induction rest generalizing kept with
  | nil => intro c hc; exact Or.inl hc
  | cons d rest ih =>
    intro c hc
    unfold pruneRows at hc
    split at hc
    · rcases ih kept c hc with h | h
      · exact Or.inl h
      · exact Or.inr (List.mem_cons_of_mem _ h)
    · rcases ih (kept ++ [d]) c hc with h | h
      · rcases List.mem_append.mp h with h | h
        · exact Or.inl h
        · simp only [List.mem_cons, List.not_mem_nil, or_false] at h
          subst h; exact Or.inr (List.mem_cons_self)
      · exact Or.inr (List.mem_cons_of_mem _ h)

theorem nonStrict_tidy (cs : List Con) (h : NonStrict cs) : NonStrict (tidy cs) := by
  unfold tidy
  simp only
  split
  · exact nonStrict_tidy0 cs h
  · intro c hc
    rcases mem_pruneRows _ _ _ c hc with h' | h'
    · cases h'
    · exact nonStrict_tidy0 cs h c h'

theorem combine_strict (i : Nat) (l u : Con) : (combine i l u).strict = (l.strict || u.strict) := rfl

theorem nonStrict_elimAt (i : Nat) (cs : List Con) (h : NonStrict cs) : NonStrict (elimAt i cs) := by
  have hf : ∀ (p : Con → Bool) (c : Con), c ∈ cs.filter p → c.strict = false :=
    fun p c hc => h c (List.mem_filter.mp hc).1
  unfold elimAt
  simp only
  split
  · rename_i l u heq
    obtain ⟨hl, hu, -, -, -⟩ := findEqPair_some i _ _ l u heq
    intro c hc
    simp only [List.mem_append, List.mem_map] at hc
    rcases hc with (hc | ⟨p, hp, rfl⟩) | ⟨q, hq, rfl⟩
    · exact hf _ c hc
    · rw [combine_strict, hf _ p hp, hf _ u hu]; rfl
    · rw [combine_strict, hf _ l hl, hf _ q hq]; rfl
  · intro c hc
    simp only [List.mem_append, List.mem_flatMap, List.mem_map] at hc
    rcases hc with hc | ⟨l, hl, u, hu, rfl⟩
    · exact hf _ c hc
    · rw [combine_strict, hf _ l hl, hf _ u hu]; rfl

theorem nonStrict_elimVars (is : List Nat) (cs : List Con) (h : NonStrict cs) :
    NonStrict (elimVars is cs) := by
  induction is generalizing cs with
  | nil => exact h
  | cons i is ih => exact ih _ (nonStrict_tidy _ (nonStrict_elimAt i cs h))

theorem nonStrict_projectTo (n total : Nat) (cs : List Con) (h : NonStrict cs) :
    NonStrict (projectTo n total cs) := by
  intro c hc
  unfold projectTo at hc
  obtain ⟨d, hd, rfl⟩ := List.mem_map.mp hc
  exact nonStrict_elimVars _ _ (nonStrict_tidy cs h) d hd

theorem nonStrict_supSystem (e : List Int) (k : Int) (cs : List Con) (h : NonStrict cs) :
    NonStrict (supSystem e k cs) := by
  unfold supSystem
  refine (nonStrict_eqRows _ _).append ?_
  intro c hc
  obtain ⟨d, hd, rfl⟩ := List.mem_map.mp hc
  exact h d hd

/-- over non-strict rows a finite supremum is attained -/
theorem supB_attained (n : Nat) (e : List Int) (k : Int) (cs : List Con) (h : NonStrict cs)
    (p q : Int) (att : Bool) (hs : supB n e k cs = .val p q att) : att = true := by
  rcases supB_cases n e k cs with ⟨-, hs'⟩ | ⟨-, -, hs'⟩ | ⟨p', q', s, -, hm, hs'⟩
  · rw [hs] at hs'; cases hs'
  · rw [hs] at hs'; cases hs'
  · rw [hs] at hs'
    injection hs' with _ _ hatt
    have hspec := minUpper_some _ p' q' s hm
    have hns := nonStrict_projectTo 1 (n + 1) _ (nonStrict_supSystem e k cs h)
    cases hsv : s with
    | false => rw [hatt, hsv]; rfl
    | true =>
      obtain ⟨c, hc, -, -, hst⟩ := hspec.strict_iff.mp hsv
      rw [hns c hc] at hst; cases hst

end PPLV.Solver
