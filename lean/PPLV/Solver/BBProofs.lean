import PPLV.Solver.Spec
import PPLV.Solver.BB

/-!
# C06 stage 3 — lemmas about the pieces of the branch-and-bound model (`PPLV/Solver/BB.lean`)

Comparison by cross-multiplication, integrality test by gcd, floor / ceiling, the branching rows,
the semantics of a node, the pruning test and the incumbent update.
-/
namespace PPLV.Solver.BB
open PPLV.Lin PPLV.Solver

/-! ### `mpq_class` comparisons -/

theorem mpqLe_iff (a b : Rat) : mpqLe a b = true ↔ a ≤ b := by
  unfold mpqLe; rw [decide_eq_true_eq, Rat.le_iff]

theorem mpqLt_iff (a b : Rat) : mpqLt a b = true ↔ a < b := by
  unfold mpqLt; rw [decide_eq_true_eq, Rat.lt_iff]

/-! ### floor and ceiling -/

theorem floorQ_eq (q : Rat) : floorQ q = ⌊q⌋ := by
  unfold floorQ ratFloor; exact Rat.floor_def'.symm

theorem ceilQ_eq (q : Rat) : ceilQ q = ⌈q⌉ := by
  unfold ceilQ ratFloor
  rw [← Rat.floor_def', Int.floor_neg, neg_neg]

/-- an integer is on exactly one side of a non-integral `q`, on at least one side of any `q` -/
theorem int_floor_or_ceil (q : Rat) (z : Int) : z ≤ floorQ q ∨ ceilQ q ≤ z := by
  rw [floorQ_eq, ceilQ_eq]
  rcases le_or_gt (z : Rat) q with h | h
  · exact Or.inl (Int.le_floor.mpr h)
  · exact Or.inr (Int.ceil_le.mpr (le_of_lt h))

theorem floor_lt_ceil_of_not_int (q : Rat) (h : ¬ ∃ z : Int, q = (z : Rat)) : floorQ q < ceilQ q := by
  rw [floorQ_eq, ceilQ_eq]
  by_contra hc
  have h1 : ⌈q⌉ ≤ ⌊q⌋ := not_lt.mp hc
  have h2 : (⌈q⌉ : Rat) ≤ (⌊q⌋ : Rat) := by exact_mod_cast h1
  have h3 := Int.floor_le q
  have h4 := Int.le_ceil q
  exact h ⟨⌊q⌋, le_antisymm (le_trans h4 h2) h3⟩

theorem floorQ_le (q : Rat) : (floorQ q : Rat) ≤ q := by rw [floorQ_eq]; exact Int.floor_le q
theorem le_ceilQ (q : Rat) : q ≤ (ceilQ q : Rat) := by rw [ceilQ_eq]; exact Int.le_ceil q
theorem lt_floorQ_add_one (q : Rat) : q < (floorQ q : Rat) + 1 := by rw [floorQ_eq]; exact Int.lt_floor_add_one q
theorem ceilQ_lt_add_one (q : Rat) : (ceilQ q : Rat) < q + 1 := by rw [ceilQ_eq]; exact Int.ceil_lt_add_one q

/-! ### the integrality test -/

theorem coord_eq (p : Pt) (v : Nat) : coord p v = p.val v := rfl

theorem nonIntegral_false_iff (p : Pt) (v : Nat) (hd : 0 < p.den) :
    nonIntegral p v = false ↔ ∃ z : Int, p.val v = (z : Rat) := by
  unfold nonIntegral
  rw [bne_eq_false_iff_eq]
  have hd' : (p.den : Rat) ≠ 0 := by exact_mod_cast (ne_of_gt hd)
  have key : ((Int.gcd (p.num.getD v 0) p.den : Nat) : Int) = p.den ↔ p.den ∣ p.num.getD v 0 := by
    constructor
    · intro h
      have : Int.gcd (p.num.getD v 0) p.den = p.den.natAbs := by
        have h2 := congrArg Int.natAbs h
        simpa using h2
      exact Int.gcd_eq_natAbs_right_iff_dvd.mp this
    · intro h
      rw [Int.gcd_eq_natAbs_right h]
      exact Int.natAbs_of_nonneg (le_of_lt hd)
  rw [key]
  unfold Pt.val
  constructor
  · rintro ⟨z, hz⟩
    refine ⟨z, ?_⟩
    rw [hz]; push_cast; field_simp
  · rintro ⟨z, hz⟩
    refine ⟨z, ?_⟩
    have : ((p.num.getD v 0 : Int) : Rat) = (z : Rat) * (p.den : Rat) := by
      field_simp at hz; linarith
    have h2 : ((p.num.getD v 0 : Int) : Rat) = ((p.den * z : Int) : Rat) := by rw [this]; push_cast; ring
    exact_mod_cast h2

theorem firstNonInt_none (ivars : List Nat) (p : Pt) (hd : 0 < p.den) (h : firstNonInt ivars p = none) :
    ∀ i ∈ ivars, ∃ z : Int, p.val i = (z : Rat) := by
  intro i hi
  unfold firstNonInt at h
  rw [List.find?_eq_none] at h
  have := h i hi
  rw [Bool.not_eq_true] at this
  exact (nonIntegral_false_iff p i hd).mp this

theorem firstNonInt_some (ivars : List Nat) (p : Pt) (i : Nat) (hd : 0 < p.den) (h : firstNonInt ivars p = some i) :
    i ∈ ivars ∧ ¬ ∃ z : Int, p.val i = (z : Rat) := by
  unfold firstNonInt at h
  have h1 := List.find?_some h
  have h2 := List.mem_of_find?_eq_some h
  refine ⟨h2, fun hz => ?_⟩
  have := (nonIntegral_false_iff p i hd).mpr hz
  rw [this] at h1; cases h1

/-! ### nodes -/

theorem addRow_cs (N : Node) (r : InRow) : (N.addRow r).toProblem.cs = N.toProblem.cs ++ r.toCons := by
  simp [Node.addRow, Node.toProblem, List.flatMap_append]

theorem addRow_fields (N : Node) (r : InRow) :
    (N.addRow r).toProblem.n = N.toProblem.n ∧ (N.addRow r).toProblem.ints = N.toProblem.ints ∧
    (N.addRow r).toProblem.obj = N.toProblem.obj ∧ (N.addRow r).toProblem.maximize = N.toProblem.maximize :=
  ⟨rfl, rfl, rfl, rfl⟩

theorem sat_branchLe (i : Nat) (f : Int) (x : Val) : Sat (branchLe i f).toCons x ↔ x i ≤ (f : Rat) := by
  simp only [branchLe, InRow.toCons, Bool.false_eq_true, if_false, Sat, List.mem_singleton, forall_eq, geRow, Con.sat,
    Con.eval, dot_unitRow]
  push_cast
  constructor <;> intro h <;> linarith

theorem sat_branchGe (i : Nat) (c : Int) (x : Val) : Sat (branchGe i c).toCons x ↔ (c : Rat) ≤ x i := by
  simp only [branchGe, InRow.toCons, Bool.false_eq_true, if_false, Sat, List.mem_singleton, forall_eq, geRow, Con.sat,
    Con.eval, dot_unitRow]
  push_cast
  constructor <;> intro h <;> linarith

theorem feasible_addRow (N : Node) (r : InRow) (x : Val) :
    Feasible (N.addRow r).toProblem x ↔ Feasible N.toProblem x ∧ Sat r.toCons x := by
  unfold Feasible
  rw [addRow_cs, Sat_append]
  have : (N.addRow r).toProblem.ints = N.toProblem.ints := rfl
  rw [this]
  tauto

/-- **the split constraints cover the integral points**: a feasible point of the node (integral on
    `i`) is a feasible point of the `≤ ⌊q⌋` child or of the `≥ ⌈q⌉` child -/
theorem children_cover (N : Node) (i : Nat) (hi : i ∈ N.ivars) (q : Rat) (x : Val)
    (hx : Feasible N.toProblem x) :
    Feasible (N.addRow (branchLe i (floorQ q))).toProblem x ∨ Feasible (N.addRow (branchGe i (ceilQ q))).toProblem x := by
  obtain ⟨z, hz⟩ := hx.2 i hi
  rcases int_floor_or_ceil q z with h | h
  · left
    rw [feasible_addRow, sat_branchLe, hz]
    exact ⟨hx, by exact_mod_cast h⟩
  · right
    rw [feasible_addRow, sat_branchGe, hz]
    exact ⟨hx, by exact_mod_cast h⟩

/-- **… and do not overlap** when `q` is not an integer -/
theorem children_disjoint (N : Node) (i : Nat) (q : Rat) (hq : ¬ ∃ z : Int, q = (z : Rat)) (x : Val) :
    ¬ (Feasible (N.addRow (branchLe i (floorQ q))).toProblem x ∧ Feasible (N.addRow (branchGe i (ceilQ q))).toProblem x) := by
  rintro ⟨h1, h2⟩
  rw [feasible_addRow, sat_branchLe] at h1
  rw [feasible_addRow, sat_branchGe] at h2
  have h3 : (ceilQ q : Rat) ≤ (floorQ q : Rat) := le_trans h2.2 h1.2
  have h4 : ceilQ q ≤ floorQ q := by exact_mod_cast h3
  exact absurd (floor_lt_ceil_of_not_int q hq) (not_lt.mpr h4)

theorem child_subset (N : Node) (r : InRow) (x : Val) (h : Sat (N.addRow r).toProblem.cs x) : Sat N.toProblem.cs x := by
  rw [addRow_cs, Sat_append] at h; exact h.1

theorem wf_addRow_branch (N : Node) (i : Nat) (b : Int) (hwf : N.toProblem.WF) (hi : i ∈ N.ivars) :
    (N.addRow (branchLe i b)).toProblem.WF ∧ (N.addRow (branchGe i b)).toProblem.WF := by
  obtain ⟨h1, h2, h3, h4⟩ := hwf
  have hin : i < N.n := h4 i hi
  constructor
  · refine ⟨?_, ?_, h3, h4⟩
    · intro c hc
      rw [addRow_cs] at hc
      rcases List.mem_append.mp hc with hc | hc
      · exact h1 c hc
      · simp only [branchLe, InRow.toCons, Bool.false_eq_true, if_false, List.mem_singleton] at hc
        subst hc
        show (unitRow i (-1)).length ≤ N.n
        rw [unitRow_length]; omega
    · intro c hc
      rw [addRow_cs] at hc
      rcases List.mem_append.mp hc with hc | hc
      · exact h2 c hc
      · simp only [branchLe, InRow.toCons, Bool.false_eq_true, if_false, List.mem_singleton] at hc
        subst hc; rfl
  · refine ⟨?_, ?_, h3, h4⟩
    · intro c hc
      rw [addRow_cs] at hc
      rcases List.mem_append.mp hc with hc | hc
      · exact h1 c hc
      · simp only [branchGe, InRow.toCons, Bool.false_eq_true, if_false, List.mem_singleton] at hc
        subst hc
        show (unitRow i 1).length ≤ N.n
        rw [unitRow_length]; omega
    · intro c hc
      rw [addRow_cs] at hc
      rcases List.mem_append.mp hc with hc | hc
      · exact h2 c hc
      · simp only [branchGe, InRow.toCons, Bool.false_eq_true, if_false, List.mem_singleton] at hc
        subst hc; rfl

/-! ### "not better" is a preorder -/

theorem nb_refl (P : Problem) (a : Rat) : ¬ Better P a a := by
  unfold Better; split <;> exact lt_irrefl a

theorem nb_trans (P : Problem) (a b c : Rat) (h1 : ¬ Better P a b) (h2 : ¬ Better P b c) : ¬ Better P a c := by
  unfold Better at *
  split at h1 <;> simp_all <;> linarith

theorem better_congr (P Q : Problem) (h : P.maximize = Q.maximize) (a b : Rat) : Better P a b ↔ Better Q a b := by
  unfold Better; rw [h]

end PPLV.Solver.BB
